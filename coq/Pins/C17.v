(* Pins: full statements of the C17 theorems; a weakened theorem no longer type-checks here.
   Generated once by tools/mkpins.py from Props/C17.v and then committed: edit both or neither. *)
From SV Require Import Lib.Base Gen.Consts Model.Seq32 Model.Assembler Model.TcpBuf Model.TcpTypes Model.Tcp Proofs.Seq32Proofs Proofs.TcpStateProofs.
From SV Require Import Props.C17.

Check (C17_step_allowed : forall cx s g ev s' out tags,
  inv s g -> wf_ctx cx -> wf_event ev ->
  tcp_step cx s ev = Ok (s', out, tags) ->
  allowed s g cx ev (s_state s') /\ inv s' (ghost_step cx s g ev s' out)).

Check (C17_invariant_initially : forall rx tx cc ts s0,
  tcp_new rx tx cc ts = Ok s0 -> inv s0 ghost0).

Check (C17_invariant_all_sequences : forall evs s g s' g',
  inv s g -> Forall wf_input evs -> run s g evs = Some (s', g') -> inv s' g').

Check (C17_all_transitions_allowed : forall pre cx ev s0 g0 s g s' out tags,
  inv s0 g0 -> Forall wf_input pre -> wf_ctx cx -> wf_event ev ->
  run s0 g0 pre = Some (s, g) ->
  tcp_step cx s ev = Ok (s', out, tags) ->
  allowed s g cx ev (s_state s')).

Check (C17_blind_rst_ignored : forall cx s g ip r s' out tags,
  inv s g -> wf_ctx cx -> wf_repr r ->
  tcp_step cx s (EvSegment ip r) = Ok (s', out, tags) ->
  r_control r = CRst ->
  ~ (synchronized (s_state s) /\ rst_acceptable s r) ->
  ~ (s_state s = SynSent /\ acks_iss g r) ->
  s_state s' = s_state s).

Check (C17_time_wait_entry : forall cx s g ev s' out tags,
  inv s g -> wf_ctx cx -> wf_event ev ->
  tcp_step cx s ev = Ok (s', out, tags) ->
  s_state s <> TimeWait -> s_state s' = TimeWait ->
  (exists ip r, ev = EvSegment ip r) /\ s_timer s' = TClose (cx_now cx + 10 * 1000000)).

Check (C17_time_wait_expires_after_close_delay : forall cx0 s0 g ev s out tags fuel cx s' ps tags',
  inv s0 g -> wf_ctx cx0 -> wf_event ev ->
  tcp_step cx0 s0 ev = Ok (s, out, tags) ->
  s_state s0 <> TimeWait -> s_state s = TimeWait ->
  cx_now cx0 + 10 * 1000000 <= cx_now cx ->
  iface_poll_egress fuel cx s None = Ok (s', ps, tags', true) ->
  s_state s' = Closed).

Check (C17_time_wait_expires : forall fuel cx s g e sent tags0 s' ps tags,
  inv s g ->
  (s_state s = Closed \/ (s_state s = TimeWait /\ s_timer s = TClose e /\ e <= cx_now cx)) ->
  iface_poll_egress_acc fuel cx s None sent tags0 = Ok (s', ps, tags, true) ->
  s_state s' = Closed).

Check (C17_time_wait_not_before : forall cx s g ev s' out tags e,
  inv s g -> wf_ctx cx -> wf_event ev ->
  tcp_step cx s ev = Ok (s', out, tags) ->
  s_state s = TimeWait -> s_timer s = TClose e -> s_state s' <> TimeWait ->
  match ev with
  | EvAbort | EvListen _ | EvConnect _ _ _ => True
  | EvSegment _ r => rst_acceptable s r
  | EvDispatch _ => e <= cx_now cx \/ user_timeout_expired cx s \/ address_removed cx s
  | _ => False
  end).

Check (C17_time_wait_timer_kept : forall cx s g ev s' out tags e,
  inv s g -> wf_ctx cx -> wf_event ev ->
  tcp_step cx s ev = Ok (s', out, tags) ->
  s_state s = TimeWait -> s_timer s = TClose e -> s_state s' = TimeWait ->
  s_timer s' = TClose e \/ s_timer s' = TClose (cx_now cx + 10 * 1000000)).

Check (C17_established_reachable :
  exists s0 s g,
    tcp_new [0;0;0;0] [0;0;0;0] CcNone false = Ok s0 /\
    Forall wf_input ex_events /\
    run s0 ghost0 ex_events = Some (s, g) /\
    s_state s = Established /\ inv s g).

Check (C17_predicates : forall s,
  (tcp_is_open s = true <-> s_state s <> Closed /\ s_state s <> TimeWait) /\
  (tcp_is_active s = true <-> s_state s <> Closed /\ s_state s <> TimeWait /\ s_state s <> Listen) /\
  (tcp_is_listening s = true <-> s_state s = Listen) /\
  (tcp_may_send s = true <-> s_state s = Established \/ s_state s = CloseWait) /\
  (tcp_can_recv s = true <-> rb_len (s_rx_buffer s) <> 0) /\
  (tcp_may_recv s = true <->
     s_state s = Established \/ s_state s = FinWait1 \/ s_state s = FinWait2 \/ rb_len (s_rx_buffer s) <> 0) /\
  (tcp_can_send s = true <->
     (s_state s = Established \/ s_state s = CloseWait) /\ rb_len (s_tx_buffer s) <> rb_cap (s_tx_buffer s))).

Check (C17_failed_call_unchanged : forall cx s ev s' e tags,
  tcp_step_x cx s ev = Ok (s', XOut (OErr e), tags) -> s' = s).

Check (C17_connect_results : forall cx s v6 ra rp local,
  match tcp_connect_af cx s v6 ra rp local with
  | Err 1 => tcp_is_open s = true
  | Err _ => tcp_is_open s = false /\
             (rp = 0 \/ ra = 0 \/ le_port local = 0 \/ le_addr local = Some 0 \/
              (v6 = true /\ le_addr local <> None))
  | Ok s' => tcp_is_open s = false /\ rp <> 0 /\ ra <> 0 /\ le_port local <> 0 /\
             tcp_connect cx s ra rp local = Ok s' /\ s_state s' = SynSent
  | Panic => False
  end).

Check (C17_step_allowed_all_calls : forall cx s g ev s' out tags,
  inv s g -> wf_ctx cx -> wf_event_x ev ->
  tcp_step_x cx s ev = Ok (s', out, tags) ->
  allowed_x s g cx ev (s_state s') /\ inv s' (ghost_step_x cx s g ev s' out)).

Check (C17_listen_sets_endpoint : forall s ep s',
  tcp_listen s ep = Ok s' -> s_listen_endpoint s' = ep /\ s_state s' = Listen).

Check (C17_relisten_restores_endpoint : forall cx s ip r s' out tags,
  wf_repr r -> tcp_step cx s (EvSegment ip r) = Ok (s', out, tags) ->
  s_listen_endpoint s' = s_listen_endpoint s /\
  (s_state s = SynReceived -> s_state s' = Listen -> s_tuple s' = None)).

Check (C17_bound_listener_ignores_other_address : forall cx s ip r a s' out tags,
  s_state s = Listen -> s_tuple s = None -> le_addr (s_listen_endpoint s) = Some a ->
  ip_dst ip <> a ->
  tcp_step cx s (EvSegment ip r) = Ok (s', out, tags) -> s' = s).
