(* Pins: full statements of the C10 theorems; a weakened theorem no longer type-checks here.
   Generated once by tools/mkpins.py from Props/C10.v and then committed: edit both or neither. *)
From SV Require Import Lib.Base Gen.Consts Gen.WireFields Model.Addr Model.Ingress Proofs.IngressProofs.
From SV Require Import Props.C10.

Check (C10_reply_src_is_own_unicast : forall ifc socks p res r,
  wf_iface ifc ->
  ing_process ifc socks p = Ok res -> res_reply res = Some r ->
  ~ known_loopback_fallback ifc r ->
  legal_reply_source ifc p r /\ r_dst r = p_src p /\ ip_is_unicast (r_dst r) = true).

Check (C10_known_loopback_fallback_refuted :
  exists ifc socks p res r,
    wf_iface ifc /\ ing_process ifc socks p = Ok res /\ res_reply res = Some r /\
    known_loopback_fallback ifc r /\ ~ own ifc (r_src r)).

Check (C10_ndisc_reply_source_own : forall ifc socks p res r,
  ing_process ifc socks p = Ok res -> res_reply res = Some r -> r_kind r = KNeighAdv ->
  exists target ll,
    p_upper p = UIcmp (INeighSol target ll 255) /\ if_medium ifc <> MIp /\
    r_src r = V6 target /\ r_dst r = p_src p /\ ip_is_unicast (r_src r) = true /\
    (if_any_ip ifc = true \/ own ifc (V6 target)) /\ addressed_to_us ifc p).

Check (C10_egress_src_is_own_unicast_or_required_unspec : forall ifc s dst len r,
  wf_iface ifc -> udp_bound_ok ifc s ->
  ing_udp_send_packet ifc s dst len = Ok (Some r) ->
  ~ known_loopback_fallback ifc r ->
  own ifc (r_src r) /\ ip_is_unicast (r_src r) = true /\ r_dst r = dst /\ r_kind r = KUdp).

Check (C10_tcp_connect_src_is_own : forall ifc dst r,
  wf_iface ifc -> if_any_ip ifc = false ->
  ing_tcp_connect_packet ifc dst = Ok (Some r) ->
  own ifc (r_src r) /\ ip_is_unicast (r_src r) = true /\ r_dst r = dst).

Check (C10_multicast_report_src : forall ifc,
  (let s := ing_mld_report_src ifc in
   (own ifc (V6 s) /\ v6_is_link_local s = true) \/ (s = 0 /\ first_link_local (if_addrs ifc) = None)) /\
  (forall a, ing_igmp_report_src ifc = Some a -> own ifc (V4 a))).

Check (C10_dispatch_emits_given_or_selected_src : forall ifc r l e,
  ing_dispatch_ip ifc r = Ok l -> In e l ->
  match e with
  | EmIp k src dst _ _ _ =>
      (k = r_kind r /\ src = r_src r /\ dst = r_dst r) \/
      (k = KNeighSol /\ ip_is_multicast dst = true /\ (own ifc src \/ src = V6 v6_LOCALHOST))
  | EmArpReq s _ => own ifc (V4 s)
  end).

Check (C10_dispatch_fits_mtu_or_fragments_or_drops : forall ifc r lldst,
  wipv4_MIN_MTU <= if_ip_mtu ifc ->
  (forall e, In e (ing_dispatch_size ifc r lldst) ->
     exists iplen frag, e = EmIp (r_kind r) (r_src r) (r_dst r) lldst iplen frag /\
       iplen <= if_ip_mtu ifc /\
       (frag = false -> iplen = r_iplen r) /\
       (frag = true -> ip_is_v4 (r_dst r) = true /\ r_iplen r > if_ip_mtu ifc /\
                       r_iplen r <= if_frag_buf ifc /\ if_frag_busy ifc = false /\
                       (iplen - wipv4_HEADER_LEN) mod phy_IPV4_FRAGMENT_PAYLOAD_ALIGNMENT = 0 /\
                       wipv4_HEADER_LEN < iplen)) /\
  (ing_dispatch_size ifc r lldst = [] -> r_iplen r > if_ip_mtu ifc) /\
  (r_iplen r <= if_ip_mtu ifc ->
     ing_dispatch_size ifc r lldst = [EmIp (r_kind r) (r_src r) (r_dst r) lldst (r_iplen r) false])).

Check (C10_error_reply_within_min_mtu : forall ifc socks p res r,
  ing_process ifc socks p = Ok res -> res_reply res = Some r -> rkind_is_error (r_kind r) = true ->
  r_iplen r <= (if ip_is_v4 (r_dst r) then wipv4_MIN_MTU else wipv6_MIN_MTU)).

Check (C10_ingress_and_reply_dispatch_never_panic : forall ifc socks p,
  wf_routes ifc ->
  exists res l, ing_process ifc socks p = Ok res /\ ing_ingress_emits_p ifc p res = Ok l).

Check (C10_examples :
  (wf_iface ex_ifc /\ wf_routes ex_ifc) /\
  ing_dispatch_ip ex_ifc (mkReply KPortUnreach ex_own4 ex_peer4 66)
    = Ok [EmIp KPortUnreach ex_own4 ex_peer4 (HwEth 2199023255554) 66 false] /\
  ing_dispatch_ip ex_ifc (mkReply KUdp ex_own4 (V4 167772238) 100) = Ok [EmArpReq 167772161 167772238] /\
  ing_dispatch_size ex_ifc576 (mkReply KUdp ex_own4 ex_peer4 1200) HwIp = [EmIp KUdp ex_own4 ex_peer4 HwIp 572 true] /\
  ing_dispatch_size ex_ifc576 (mkReply KUdp ex_own4 ex_peer4 1600) HwIp = [] /\
  ing_dispatch_size ex_ifc576 (mkReply KUdp ex_own4 ex_peer4 576) HwIp = [EmIp KUdp ex_own4 ex_peer4 HwIp 576 false] /\
  ing_dispatch_size ex_ifc (mkReply KUdp (V6 1) ex_peer6 1600) HwIp = [] /\
  ing_udp_send_packet ex_ifc (SUdp None 5000) ex_peer4 10 = Ok (Some (mkReply KUdp ex_own4 ex_peer4 38)) /\
  ing_udp_send_packet ex_ifc (SUdp None 5000) ex_peer6 10
    = Ok (Some (mkReply KUdp (V6 338288524927261089654018896841347694593) ex_peer6 58)) /\
  ing_mld_report_src ex_ifc = 338288524927261089654018896841347694593).
