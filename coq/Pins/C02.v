(* Pins: full statements of the C02 theorems; a weakened theorem no longer type-checks here.
   Generated once by tools/mkpins.py from Props/C02.v and then committed: edit both or neither. *)
From SV Require Import Lib.Base Gen.Consts.
From SV Require Import Model.PollAt Proofs.PollAtProofs.
From SV Require Import Model.Seq32 Model.Assembler Model.TcpBuf Model.TcpTypes Model.Tcp.
From SV Require Import Proofs.TcpSendBase Proofs.TcpLiveBase Proofs.TcpLiveProofs Proofs.TcpLiveMore.
From SV Require Import Proofs.TcpLiveProgress.
From SV Require Import Props.C02.

Check (C02_inv_initial : forall rx tx cc ts s,
  cc_ok cc -> tcp_new rx tx cc ts = Ok s -> tcp_live_inv s).

Check (C02_inv_step : forall cx s ev s' out tags,
  ctx_ok cx -> ev_ok ev -> tcp_live_inv s ->
  tcp_step cx s ev = Ok (s', out, tags) -> tcp_live_inv s').

Check (C02_deadline_invariant : forall cx s,
  tcp_reachable s -> tcp_need s -> tcp_poll_at cx s <> Ok Tcp.PIngress).

Check (C02_deadline_from_inv : forall cx s,
  tcp_live_inv s -> tcp_need s -> tcp_poll_at cx s <> Ok Tcp.PIngress).

Check (C02_tcp_early_poll_silent : forall cx s emit_ok p s' res tags,
  tcp_poll_at cx s = Ok p ->
  (p = Tcp.PIngress \/ exists t, p = Tcp.PTime t /\ cx_now cx < t) ->
  tcp_dispatch cx s emit_ok = Ok (s', res, tags) ->
  emitted res = false /\ (s' = s \/ s' = tcp_reset s)).

Check (C02_tcp_no_spin : forall cx s emit_ok s' tags p,
  tcp_reachable s ->
  tcp_dispatch cx s emit_ok = Ok (s', DNothing, tags) ->
  tcp_poll_at cx s' = Ok p ->
  p = Tcp.PIngress \/ exists t, p = Tcp.PTime t /\ cx_now cx < t).

Check (C02_tcp_comp_sound : forall cx s emit_ok p s' res tags,
  0 <= cx_now cx ->
  tcp_poll_at cx s = Ok p ->
  tcp_dispatch cx s emit_ok = Ok (s', res, tags) ->
  comp_sound (cx_now cx) (pollat_instant (tcp_to_pollat p), emitted res)).

Check (C02_tcp_future_after_idle_dispatch : forall cx s emit_ok s' tags p,
  tcp_reachable s ->
  tcp_dispatch cx s emit_ok = Ok (s', DNothing, tags) ->
  tcp_poll_at cx s' = Ok p ->
  opt_future (cx_now cx) (pollat_instant (tcp_to_pollat p))).

Check (C02_reno_window_ge_mss : forall ops r r',
  reno_ge_mss r -> Forall reno_op_ok ops ->
  reno_run r ops = Ok r' -> 0 < rn_mss r' <= rn_cwnd r').

Check (C02_reno_initial : reno_ge_mss reno_new).

Check (C02_cwnd_positive : forall s,
  tcp_reachable s -> 0 < cc_window (s_congestion_controller s)).

Check (C02_rto_bounds : forall s,
  tcp_reachable s ->
  0 < rtte_retransmission_timeout (s_rtte s) <= tcp_RTTE_MAX_RTO * 1000).

Check (C02_example_data_in_flight :
  exists s0 s, ex_new = Ok s0 /\ tcp_run s0 (ex_events 1000) = Ok s /\
               tcp_reachable s /\ tcp_need s /\
               ex_view s = (Established, TRetransmit 1002000, 3, 1001, 1004, 1000) /\
               tcp_poll_at (ex_cx 2000) s = Ok (Tcp.PTime 1002000)).

Check (C02_example_zero_window :
  exists s0 s, ex_new = Ok s0 /\ tcp_run s0 (ex_events 0) = Ok s /\
               tcp_reachable s /\ tcp_need s /\
               ex_view s = (Established, TZeroWindowProbe 1000000 1000000, 3, 1001, 1001, 0) /\
               tcp_poll_at (ex_cx 2000) s = Ok (Tcp.PTime 1000000)).

Check (C02_progress_deadline_bounded_partial : forall now cx s p,
  tcp_reachable_at now s -> tcp_need s -> tcp_poll_at cx s = Ok p ->
  p = Tcp.PNow \/ exists t, p = Tcp.PTime t /\ t <= now + tcp_RTTE_MAX_RTO * 1000).

Check (C02_progress_rto_retransmits_partial : forall cx s e s' res tags,
  tcp_live_inv s -> tcp_need s ->
  s_timer s = TRetransmit e -> e <= cx_now cx ->
  s_timeout s = None ->
  (forall t, s_tuple s = Some t -> tu_local_addr t = cx_addr cx) ->
  (0 < rb_len (s_tx_buffer s) -> s_remote_win_len s <> 0) ->
  mss_ok cx s ->
  tcp_dispatch cx s true = Ok (s', res, tags) ->
  exists ip repr,
    res = DSent (ip, repr) /\
    r_seq_number repr = s_local_seq_no s /\ 0 < repr_segment_len repr /\
    (exists e', s_timer s' = TRetransmit e' /\
                cx_now cx < e' <= cx_now cx + tcp_RTTE_MAX_RTO * 1000) /\
    s_local_seq_no s' = s_local_seq_no s /\ s_state s' = s_state s).

Check (C02_progress_snd_una_follows_ack_partial : forall cx s ip r s' reply tags a,
  ctx_ok cx -> seg_ok r -> tcp_live_inv s ->
  tcp_process cx s ip r = Ok (s', reply, tags) ->
  length tags = 7%nat -> r_ack_number r = Some a ->
  s_local_seq_no s' = a /\
  (a = s_local_seq_no s \/ seq_lt (s_local_seq_no s) a = true)).

Check (C02_example_rto_step : ex_rto_step = Some (1001, 3, 3, TRetransmit 3002000, 1001)).
