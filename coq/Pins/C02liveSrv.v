(* Pins: full statements of the C02liveSrv theorems; a weakened theorem no longer type-checks here.
   Generated once by tools/mkpins.py from Props/C02liveSrv.v and then committed: edit both or neither. *)
From SV Require Import Lib.Base Gen.Consts.
From SV Require Import Model.Seq32 Model.Assembler Model.TcpBuf Model.TcpTypes Model.Tcp Model.TcpNet.
From SV Require Import Proofs.TcpSendBase Proofs.TcpLiveBase Proofs.TcpLiveProofs Proofs.TcpLiveMore Proofs.TcpLiveProgress.
From SV Require Import Proofs.TcpNetBase.
From SV Require Import Proofs.TcpProgressBase Proofs.TcpProgressFrame Proofs.TcpProgressCtl Proofs.TcpProgressRecv Proofs.TcpProgressSend Proofs.TcpProgressNet Proofs.TcpProgressData Proofs.TcpProgressAck Proofs.TcpProgressAll Proofs.TcpProgressSafe Proofs.TcpProgressHs Proofs.TcpProgressHsD Proofs.TcpProgressHs2 Proofs.TcpProgressHsNet Proofs.TcpProgressHsInit Proofs.TcpProgressHsLive Proofs.TcpProgressHsLive2 Proofs.TcpProgressExample Proofs.TcpProgressWitness Proofs.TcpProgressSafeWitness Proofs.TcpProgressFullWitness Proofs.TcpProgressHsRtx Proofs.TcpProgressRtxWitness Proofs.TcpProgressHsSrv1 Proofs.TcpProgressHsSrv2 Proofs.TcpProgressHsSrvWitness.
From SV Require Import Props.C02liveSrv.

Check (C02live_silent_dispatch_keeps_challenge_limiter : forall cx s ok s' tags t,
  s_tuple s = Some t -> tu_local_addr t = cx_addr cx ->
  tcp_dispatch cx s ok = Ok (s', DNothing, tags) -> s_challenge_ack_timer s' = s_challenge_ack_timer s).

Check (C02live_send_recv_keep_challenge_limiter : forall cx s ev s' out tags,
  ((exists d, ev = EvSend d) \/ (exists n, ev = EvRecv n)) ->
  tcp_step cx s ev = Ok (s', out, tags) -> s_challenge_ack_timer s' = s_challenge_ack_timer s).

Check (C02live_established_silent_dispatch_keeps_snd : forall cx s t ok s' tags,
  tcp_live_inv s -> s_state s = Established -> s_timeout s = None ->
  s_tuple s = Some t -> tu_local_addr t = cx_addr cx ->
  s_remote_last_seq s = s_local_seq_no s -> tcp_send_next_seq s = s_local_seq_no s ->
  tcp_dispatch cx s ok = Ok (s', DNothing, tags) ->
  s_local_seq_no s' = s_local_seq_no s /\ s_remote_last_seq s' = s_local_seq_no s /\
  tcp_send_next_seq s' = s_local_seq_no s).

Check (C02live_duplicate_synack_is_challenged : forall cx s ip r s' rep tags,
  tcp_live_inv s -> s_state s = Established -> r_control r = CSyn -> r_payload r = [] ->
  r_ack_number r = Some (s_local_seq_no s) -> rb_len (s_tx_buffer s) < 2 ^ 31 ->
  u32 (r_seq_number r) -> r_seq_number r = seq_subn (tcp_window_start s) 1 ->
  tcp_process cx s ip r = Ok (s', rep, tags) ->
  (rep = None -> s' = s) /\ (s_challenge_ack_timer s <= cx_now cx -> rep <> None)).

Check (C02live_server_timer_plain_step : forall isn Dack st ev st',
  HSR isn Dack st -> HSR isn Dack st' -> inv_at SA st -> inv_at SA st' ->
  script_ev SA ev -> net_step st ev = Ok st' -> bplain st -> bplain st').

Check (C02live_server_leg_retransmission_step : forall isn Dack Dt Da C dk fa st ev st',
  0 <= Dt -> R3 isn Dack st -> R3 isn Dack st' -> Js isn Dt Da C dk fa st -> fair_ev fa st ev -> net_step st ev = Ok st' ->
  Qs isn Dack Dt Da C dk (fa_after Dt Da fa ev st') st' \/ Js isn Dt Da C dk (fa_after Dt Da fa ev st') st').

Check (C02live_server_established_after_ack_loss : forall Dt Da Dack ca cb st0, start_ok Dack ca cb st0 ->
  forall pre st evs st',
  net_run st0 pre = Ok st -> Forall (script_ev SA) pre ->
  s_state (net_sock st SA) = Established -> s_state (net_sock st SB) = SynReceived ->
  fresh (cx_isn (ep_cx (n_a st0))) st ->
  fair_schedule Dt Da st evs -> Forall (app_ev SA) evs -> net_run st evs = Ok st' -> TcpNetInv.small st' ->
  run_all syn_win_open st evs ->
  Z.max (net_now st SA) (cA st) + max_rto_us + 2 * Dt < net_now st' SA ->
  exists p1 p2 fa1 st1,
    evs = p1 ++ p2 /\ net_run st p1 = Ok st1 /\ net_run st1 p2 = Ok st' /\
    reg SA Dack st1 /\ reach st1 /\ opts_ok st1 /\
    dl_sync Da fa1 st1 /\ fair_run Dt Da fa1 st1 p2 /\
    net_now st1 SA <= Z.max (net_now st SA) (cA st) + max_rto_us + 2 * Dt).

Check (C02live_server_established_after_ack_loss_applies :
  exists st0 st st',
    start_ok 10000 ex_cfg_a ex_cfg_b st0 /\ net_run st0 srv_prefix = Ok st /\
    s_state (net_sock st SA) = Established /\ s_state (net_sock st SB) = SynReceived /\
    fair_schedule 5000 5000 st srv_suffix /\ net_run st srv_suffix = Ok st' /\
    exists p1 p2 st1, srv_suffix = p1 ++ p2 /\ net_run st p1 = Ok st1 /\ net_run st1 p2 = Ok st' /\
                      (forall z, s_state (net_sock st1 z) = Established) /\
                      net_now st1 SA <= Z.max (net_now st SA) (cA st) + max_rto_us + 2 * 5000).

Check (C02live_srv_prefix_is_lossy : In (NDrop SB 1) srv_prefix).
