(* Pins: full statements of the C03v16 theorems; a weakened theorem no longer type-checks here.
   Generated once by tools/mkpins.py from Props/C03v16.v and then committed: edit both or neither. *)
From SV Require Import Lib.Base Gen.Consts Model.Neighbor Model.Route Model.Meta Model.Nexthop.
From SV Require Import Proofs.NeighborProofs Proofs.RouteProofs Proofs.NexthopProofs Proofs.MetaProofs.
From SV Require Import Props.C16.
From SV Require Import Props.C03v16.

Check (C03_via_C16_cache_bounded : forall ether hw cap evs i tfr, 1 <= cap ->
  nh_run (nh_init ether hw cap) evs = Ok (i, tfr) ->
  Z.of_nat (length (c_storage (if_cache i))) <= cap /\ NoDup (map fst (c_storage (if_cache i)))).

Check (C03_via_C16_dispatch_no_panic : forall i dst tag now,
  gateways_unicast i -> ip_is_unspecified dst = false ->
  (if_ether i = true \/ match dst with V4 a => v4_is_multicast a = false | V6 _ => True end) ->
  nh_dispatch_ip i dst tag now <> Panic).
