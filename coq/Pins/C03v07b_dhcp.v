(* Pins: full statements of the C03v07b_dhcp theorems; a weakened theorem no longer type-checks here.
   Generated once by tools/mkpins.py from Props/C03v07b_dhcp.v and then committed: edit both or neither. *)
From SV Require Import Lib.Base Gen.Consts Gen.WireFields Model.WireBase Proofs.WireBaseProofs.
From SV Require Import Model.WireDhcpv4 Proofs.WireDhcpv4Proofs.
From SV Require Import Props.C07b_dhcp.
From SV Require Import Props.C03v07b_dhcp.

Check (C03_via_C07_dhcpw_accessors_safe : forall bs,
  bytes_ok bs = true -> dhcpw_check_len bs = Ok tt ->
  dhcpw_opcode bs <> Panic /\ dhcpw_hardware_type bs <> Panic /\ dhcpw_hardware_len bs <> Panic /\
  dhcpw_transaction_id bs <> Panic /\ dhcpw_client_hardware_address bs <> Panic /\
  dhcpw_hops bs <> Panic /\ dhcpw_secs bs <> Panic /\ dhcpw_magic_number bs <> Panic /\
  dhcpw_client_ip bs <> Panic /\ dhcpw_your_ip bs <> Panic /\ dhcpw_server_ip bs <> Panic /\
  dhcpw_relay_agent_ip bs <> Panic /\ dhcpw_flags bs <> Panic /\ dhcpw_options bs <> Panic /\
  dhcpw_get_sname bs <> Panic /\ dhcpw_get_boot_file bs <> Panic).

Check (C03_via_C07_dhcpw_opt_next_total : forall fuel buf,
  bytes_ok buf = true -> (length buf < fuel)%nat ->
  dhcpw_opt_next fuel buf = Ok None \/
  exists o rest, dhcpw_opt_next fuel buf = Ok (Some (o, rest)) /\
    (length rest + 2 <= length buf)%nat /\ bytes_ok rest = true /\
    dhcpw_opt_ok o = true /\ dhcpw_o_kind o <> wdhcp_OPT_PAD /\ dhcpw_o_kind o <> wdhcp_OPT_END).

Check (C03_via_C07_dhcpw_options_go_total : forall buf, bytes_ok buf = true ->
  exists l, dhcpw_options_go (S (length buf)) buf = Ok l /\
    Forall (fun o => dhcpw_opt_ok o = true /\ dhcpw_o_kind o <> wdhcp_OPT_PAD /\
                     dhcpw_o_kind o <> wdhcp_OPT_END) l).

Check (C03_via_C07_dhcpw_options_walk_total : forall bs,
  bytes_ok bs = true -> dhcpw_check_len bs = Ok tt ->
  exists l, dhcpw_options bs = Ok l /\
    Forall (fun o => dhcpw_opt_ok o = true /\ dhcpw_o_kind o <> wdhcp_OPT_PAD /\
                     dhcpw_o_kind o <> wdhcp_OPT_END) l).

Check (C03_via_C07_dhcpw_parse_total : forall bs, bytes_ok bs = true -> dhcpw_parse bs <> Panic).
