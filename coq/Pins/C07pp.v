(* Pins: full statements of the C07pp theorems; a weakened theorem no longer type-checks here.
   Generated once by tools/mkpins.py from Props/C07pp.v and then committed: edit both or neither. *)
From SV Require Import Lib.Base Gen.WireFields Model.WireBase Proofs.WireBaseProofs.
From SV Require Import Model.WirePretty Proofs.WirePrettyProofs.
From SV Require Import Props.C07pp.

Check (C07_pp_ethernet_total : forall sum_ok psum_ok bs,
  bytes_ok bs = true -> pp_ethernet sum_ok psum_ok bs <> Panic).

Check (C07_pp_arp_total : forall bs, bytes_ok bs = true -> pp_arp bs <> Panic).

Check (C07_pp_ipv4_total : forall sum_ok psum_ok bs,
  bytes_ok bs = true -> pp_ipv4 sum_ok psum_ok bs <> Panic).

Check (C07_pp_ipv6_total : forall sum_ok psum_ok bs,
  bytes_ok bs = true -> pp_ipv6 sum_ok psum_ok bs <> Panic).

Check (C07_pp_icmpv4_total : forall sum_ok psum_ok bs,
  bytes_ok bs = true -> pp_icmpv4 sum_ok psum_ok bs <> Panic).

Check (C07_pp_udp_total : forall bs, bytes_ok bs = true -> pp_udp bs <> Panic).

Check (C07_pp_tcp_total : forall bs, bytes_ok bs = true -> pp_tcp bs <> Panic).

Check (C07_pp_igmp_total : forall bs, pp_igmp bs <> Panic).

Check (C07_pp_ndopt_total : forall bs, bytes_ok bs = true -> pp_ndopt bs <> Panic).

Check (C07_pp_udp_in_ip_total : forall psum_ok is_v4 off bs,
  bytes_ok bs = true -> pp_udp_in_ip psum_ok is_v4 off bs <> Panic).

Check (C07_pp_tcp_in_ip_total : forall psum_ok off bs,
  bytes_ok bs = true -> pp_tcp_in_ip psum_ok off bs <> Panic).

Check (C07_pp_ipv4_recursion_shrinks : forall sum_ok psum_ok f g off bs,
  bytes_ok bs = true ->
  (forall o s, bytes_ok s = true -> (length s + 20 <= length bs)%nat -> f o s = g o s) ->
  pp_ipv4_with sum_ok psum_ok f off bs = pp_ipv4_with sum_ok psum_ok g off bs).

Check (C07_pp_icmpv4_recursion_shrinks : forall sum_ok f g off bs,
  bytes_ok bs = true ->
  (forall o s, bytes_ok s = true -> (length s + 8 <= length bs)%nat -> f o s = g o s) ->
  pp_icmpv4_with sum_ok f off bs = pp_icmpv4_with sum_ok g off bs).

Check (C07_pp_ipv6_recursion_shrinks : forall psum_ok f g off bs,
  bytes_ok bs = true ->
  (forall o s, bytes_ok s = true -> (length s + 40 <= length bs)%nat -> f o s = g o s) ->
  pp_ipv6_with psum_ok f off bs = pp_ipv6_with psum_ok g off bs).

Check (C07_pp_ethernet_recursion_shrinks : forall a1 a2 f1 f2 g1 g2 off bs,
  bytes_ok bs = true ->
  (forall o s, bytes_ok s = true -> (length s + 14 <= length bs)%nat ->
     a1 o s = a2 o s /\ f1 o s = f2 o s /\ g1 o s = g2 o s) ->
  pp_ethernet_with a1 f1 g1 off bs = pp_ethernet_with a2 f2 g2 off bs).

Check (C07_pp_ipv4_fuel_suffices : forall sum_ok psum_ok f1 f2 off bs,
  bytes_ok bs = true -> (length bs < f1)%nat -> (length bs < f2)%nat ->
  pp_ipv4_fuel sum_ok psum_ok f1 off bs = pp_ipv4_fuel sum_ok psum_ok f2 off bs).

Check (C07_pp_icmpv4_fuel_suffices : forall sum_ok psum_ok f1 f2 off bs,
  bytes_ok bs = true -> (length bs <= f1)%nat -> (length bs <= f2)%nat ->
  pp_icmpv4_fuel sum_ok psum_ok f1 off bs = pp_icmpv4_fuel sum_ok psum_ok f2 off bs).

Check (C07_pp_ipv6_fuel_suffices : forall sum_ok psum_ok f1 f2 off bs,
  bytes_ok bs = true -> (length bs <= f1)%nat -> (length bs <= f2)%nat ->
  pp_ipv6_fuel sum_ok psum_ok f1 off bs = pp_ipv6_fuel sum_ok psum_ok f2 off bs).

Check (C07_pp_ethernet_fuel_suffices : forall sum_ok psum_ok f1 f2 off bs,
  bytes_ok bs = true -> (length bs <= f1)%nat -> (length bs <= f2)%nat ->
  pp_ethernet_fuel sum_ok psum_ok f1 off bs = pp_ethernet_fuel sum_ok psum_ok f2 off bs).

Check (C07_pp_ethernet_reads_within_buffer : forall sum_ok psum_ok bs tr,
  bytes_ok bs = true -> pp_ethernet sum_ok psum_ok bs = Ok tr ->
  Forall (fun e => 0 <= pp_off e /\ 0 <= pp_len e /\ pp_off e + pp_len e <= blen bs) tr /\
  Z.of_nat (length tr) <= blen bs / 8 + 1).

Check (C07_pp_ipv4_reads_within_buffer : forall sum_ok psum_ok bs tr,
  bytes_ok bs = true -> pp_ipv4 sum_ok psum_ok bs = Ok tr ->
  Forall (fun e => 0 <= pp_off e /\ 0 <= pp_len e /\ pp_off e + pp_len e <= blen bs) tr /\
  Z.of_nat (length tr) <= blen bs / 8 + 1).

Check (C07_pp_ipv6_reads_within_buffer : forall sum_ok psum_ok bs tr,
  bytes_ok bs = true -> pp_ipv6 sum_ok psum_ok bs = Ok tr ->
  Forall (fun e => 0 <= pp_off e /\ 0 <= pp_len e /\ pp_off e + pp_len e <= blen bs) tr /\
  Z.of_nat (length tr) <= blen bs / 8 + 1).

Check (C07_pp_icmpv4_reads_within_buffer : forall sum_ok psum_ok bs tr,
  bytes_ok bs = true -> pp_icmpv4 sum_ok psum_ok bs = Ok tr ->
  Forall (fun e => 0 <= pp_off e /\ 0 <= pp_len e /\ pp_off e + pp_len e <= blen bs) tr /\
  Z.of_nat (length tr) <= blen bs / 8 + 1).

Check (C07_pp_leaf_printers_single : forall bs, bytes_ok bs = true ->
  (exists st info, pp_arp bs = Ok [mkPP pp_ARP 0 (blen bs) st info]) /\
  (exists st info, pp_udp bs = Ok [mkPP pp_UDP 0 (blen bs) st info]) /\
  (exists st info, pp_tcp bs = Ok [mkPP pp_TCP 0 (blen bs) st info]) /\
  (exists st info, pp_igmp bs = Ok [mkPP pp_IGMP 0 (blen bs) st info]) /\
  (exists st info, pp_ndopt bs = Ok [mkPP pp_NDOPT 0 (blen bs) st info])).

Check (C07_pp_ethernet_nested : forall sum_ok psum_ok bs,
  bytes_ok bs = true -> exists tr, pp_ethernet sum_ok psum_ok bs = Ok tr /\ pp_chain 0 (blen bs) tr).

Check (C07_pp_ipv4_nested : forall sum_ok psum_ok bs,
  bytes_ok bs = true -> exists tr, pp_ipv4 sum_ok psum_ok bs = Ok tr /\ pp_chain 0 (blen bs) tr).

Check (C07_pp_ipv6_nested : forall sum_ok psum_ok bs,
  bytes_ok bs = true -> exists tr, pp_ipv6 sum_ok psum_ok bs = Ok tr /\ pp_chain 0 (blen bs) tr).

Check (C07_pp_icmpv4_nested : forall sum_ok psum_ok bs,
  bytes_ok bs = true -> exists tr, pp_icmpv4 sum_ok psum_ok bs = Ok tr /\ pp_chain 0 (blen bs) tr).

Check (C07_pp_ethernet_compositional : forall sum_ok psum_ok bs,
  bytes_ok bs = true ->
  exists tr, pp_ethernet sum_ok psum_ok bs = Ok tr /\ pp_sound sum_ok psum_ok bs tr).

Check (C07_pp_ipv4_compositional : forall sum_ok psum_ok bs,
  bytes_ok bs = true ->
  exists tr, pp_ipv4 sum_ok psum_ok bs = Ok tr /\ pp_sound sum_ok psum_ok bs tr).

Check (C07_pp_ipv6_compositional : forall sum_ok psum_ok bs,
  bytes_ok bs = true ->
  exists tr, pp_ipv6 sum_ok psum_ok bs = Ok tr /\ pp_sound sum_ok psum_ok bs tr).

Check (C07_pp_icmpv4_compositional : forall sum_ok psum_ok bs,
  bytes_ok bs = true ->
  exists tr, pp_icmpv4 sum_ok psum_ok bs = Ok tr /\ pp_sound sum_ok psum_ok bs tr).

Check (C07_pp_example_doc_frame :
  pp_ethernet wb_plain_ok (fun _ => true) pp_example_doc_frame =
  Ok [mkPP pp_ETH 0 46 pp_ST_OK 2048; mkPP pp_IPV4 14 32 pp_ST_OK 1; mkPP pp_ICMPV4 34 12 1 4]).

Check (C07_pp_example_nested_icmp_error :
  pp_ethernet wb_plain_ok (fun _ => true) pp_example_nested_frame =
  Ok [mkPP pp_ETH 0 74 pp_ST_OK 2048; mkPP pp_IPV4 14 60 pp_ST_OK 1; mkPP pp_ICMPV4 34 40 3 0;
      mkPP pp_IPV4 42 32 pp_ST_OK 17; mkPP pp_UDP_IN_IP 62 12 pp_ST_OK 4]).

Check (C07_pp_example_truncated_frame :
  pp_ethernet wb_plain_ok (fun _ => true) (firstn 66 pp_example_nested_frame) =
  Ok [mkPP pp_ETH 0 66 pp_ST_OK 2048; mkPP pp_IPV4 14 52 pp_ST_ERR 0]).
