(* Pins: full statements of the C03loop theorems; a weakened theorem no longer type-checks here.
   Generated once by tools/mkpins.py from Props/C03loop.v and then committed: edit both or neither. *)
From SV Require Import Lib.Base Model.EgressLoop Proofs.EgressLoopProofs.
From SV Require Import Gen.Consts Model.DgramQueue Model.Dgram Proofs.DgramProofs Proofs.DgramLoop.
From SV Require Import Props.C03loop.

Check (C03_egress_loop_returns : forall (St : Type) (dispatch : St -> St * bool) (mu : St -> nat),
  (forall s s', dispatch s = (s', true) -> (mu s' < mu s)%nat) ->
  (forall s s', dispatch s = (s', false) -> (mu s' <= mu s)%nat) ->
  forall fuel ss, (total St mu ss < fuel)%nat ->
  exists r n, poll_loop St dispatch fuel ss = Some (r, n) /\ (n + total St mu r <= total St mu ss)%nat /\
              length r = length ss).

Check (C03_egress_loop_fuel_irrelevant : forall (St : Type) (dispatch : St -> St * bool) (mu : St -> nat),
  (forall s s', dispatch s = (s', true) -> (mu s' < mu s)%nat) ->
  (forall s s', dispatch s = (s', false) -> (mu s' <= mu s)%nat) ->
  forall f1 f2 ss, (total St mu ss < f1)%nat -> (total St mu ss < f2)%nat ->
  poll_loop St dispatch f1 ss = poll_loop St dispatch f2 ss).

Check (C03_egress_loop_example :
  poll_loop nat ex_dispatch 10 [2; 0; 3]%nat = Some ([0; 0; 0]%nat, 3%nat)).

Check (C03_egress_loop_shared_env_returns :
  forall (E St : Type) (dispatch : E -> St -> E * St * dres) (pre : E -> E)
         (Inv : St -> Prop) (mu : St -> nat),
  (forall e s e' s' r, Inv s -> dispatch e s = (e', s', r) -> Inv s') ->
  (forall e s e' s', Inv s -> dispatch e s = (e', s', RSent) -> (mu s' < mu s)%nat) ->
  (forall e s e' s' r, Inv s -> dispatch e s = (e', s', r) -> r <> RSent -> (mu s' <= mu s)%nat) ->
  forall fuel e ss, Forall Inv ss -> (total2 St mu ss < fuel)%nat ->
  exists e' r n, poll_loop2 E St dispatch pre fuel e ss = Some (e', r, n) /\
                 (n + total2 St mu r <= total2 St mu ss)%nat /\ length r = length ss /\ Forall Inv r).

Check (C03_egress_loop_shared_env_example :
  poll_loop2 nat nat ex_dispatch2 Nat.pred 10 4%nat [2; 0; 3]%nat = Some (0%nat, [1; 0; 2]%nat, 1%nat) /\
  poll_loop2 nat nat ex_dispatch2 Nat.pred 10 20%nat [2; 0; 3]%nat = Some (11%nat, [0; 0; 0]%nat, 3%nat)).

Check (C03_dgram_socket_set_egress_returns :
  forall (E : Type) (ev : env) (decide : E -> sock -> Z * E) (pre : E -> E) fuel e ss,
  Forall sock_wf ss -> (total2 sock dg_mu ss < fuel)%nat ->
  exists e' r n, poll_loop2 E sock (dg_dispatch E ev decide) pre fuel e ss = Some (e', r, n) /\
                 (n + total2 sock dg_mu r <= total2 sock dg_mu ss)%nat /\
                 length r = length ss /\ Forall sock_wf r).

Check (C03_egress_loop_mixed_set_returns :
  forall (E A B : Type) (dA : E -> A -> E * A * dres) (dB : E -> B -> E * B * dres)
         (InvA : A -> Prop) (InvB : B -> Prop) (muA : A -> nat) (muB : B -> nat),
  (forall e s e' s' r, InvA s -> dA e s = (e', s', r) -> InvA s') ->
  (forall e s e' s', InvA s -> dA e s = (e', s', RSent) -> (muA s' < muA s)%nat) ->
  (forall e s e' s' r, InvA s -> dA e s = (e', s', r) -> r <> RSent -> (muA s' <= muA s)%nat) ->
  (forall e s e' s' r, InvB s -> dB e s = (e', s', r) -> InvB s') ->
  (forall e s e' s', InvB s -> dB e s = (e', s', RSent) -> (muB s' < muB s)%nat) ->
  (forall e s e' s' r, InvB s -> dB e s = (e', s', r) -> r <> RSent -> (muB s' <= muB s)%nat) ->
  forall pre fuel e ss,
  Forall (sum_inv A B InvA InvB) ss -> (total2 (A + B) (sum_mu A B muA muB) ss < fuel)%nat ->
  exists e' r n, poll_loop2 E (A + B) (sum_dispatch E A B dA dB) pre fuel e ss = Some (e', r, n) /\
                 (n + total2 (A + B) (sum_mu A B muA muB) r <= total2 (A + B) (sum_mu A B muA muB) ss)%nat /\
                 length r = length ss /\ Forall (sum_inv A B InvA InvB) r).
