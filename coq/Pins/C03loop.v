(* Pins: full statements of the C03loop theorems; a weakened theorem no longer type-checks here.
   Generated once by tools/mkpins.py from Props/C03loop.v and then committed: edit both or neither. *)
From SV Require Import Lib.Base Model.EgressLoop Proofs.EgressLoopProofs.
From SV Require Import Props.C03loop.

Check (C03_egress_loop_returns : forall (St : Type) (dispatch : St -> St * bool) (mu : St -> nat),
  (forall s s', dispatch s = (s', true) -> (mu s' < mu s)%nat) ->
  (forall s s', dispatch s = (s', false) -> (mu s' <= mu s)%nat) ->
  forall fuel ss, (total St mu ss < fuel)%nat ->
  exists r n, poll_loop St dispatch fuel ss = Some (r, n) /\ (n + total St mu r <= total St mu ss)%nat /\
              length r = length ss).

Check (C03_egress_loop_fuel_irrelevant : forall (St : Type) (dispatch : St -> St * bool) (mu : St -> nat),
  (forall s s', dispatch s = (s', true) -> (mu s' < mu s)%nat) ->
  (forall s s', dispatch s = (s', false) -> (mu s' <= mu s)%nat) ->
  forall f1 f2 ss, (total St mu ss < f1)%nat -> (total St mu ss < f2)%nat ->
  poll_loop St dispatch f1 ss = poll_loop St dispatch f2 ss).

Check (C03_egress_loop_example :
  poll_loop nat ex_dispatch 10 [2; 0; 3]%nat = Some ([0; 0; 0]%nat, 3%nat)).
