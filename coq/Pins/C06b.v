(* Pins: full statements of the C06b theorems; a weakened theorem no longer type-checks here.
   Generated once by tools/mkpins.py from Props/C06b.v and then committed: edit both or neither. *)
From SV Require Import Lib.Base Gen.WireFields Model.WireBase Proofs.WireBaseProofs.
From SV Require Import Model.WireIgmp Proofs.WireIgmpProofs.
From SV Require Import Model.WireIpv6Frag Proofs.WireIpv6FragProofs.
From SV Require Import Model.WireIpv6Ext Proofs.WireIpv6ExtProofs.
From SV Require Import Model.WireIcmpv6Hdr Proofs.WireIcmpv6HdrProofs Model.WireMld Proofs.WireMldProofs.
From SV Require Import Props.C06b.

Check (C06_igmp_emit_no_panic : forall (sum_fill : list Z -> Z) r b,
  igmp_wf r = true -> blen b = igmp_buffer_len r -> igmp_emit sum_fill r b <> Panic).

Check (C06_igmp_emit_ignores_old_bytes : forall (sum_fill : list Z -> Z) r b1 b2,
  igmp_wf r = true -> blen b1 = igmp_buffer_len r -> blen b2 = igmp_buffer_len r ->
  igmp_emit sum_fill r b1 = igmp_emit sum_fill r b2).

Check (C06_igmp_roundtrip : forall (sum_fill : list Z -> Z) r b,
  igmp_wf r = true -> blen b = igmp_buffer_len r ->
  exists bs, igmp_emit sum_fill r b = Ok bs /\ blen bs = igmp_buffer_len r /\ igmp_parse bs = Ok r).

Check (C06_igmp_reparse : forall (sum_fill : list Z -> Z) bs r,
  bytes_ok bs = true -> igmp_parse bs = Ok r ->
  igmp_wf r = true /\
  forall b, blen b = igmp_buffer_len r ->
    exists bs', igmp_emit sum_fill r b = Ok bs' /\ igmp_parse bs' = Ok r).

Check (C06_v6frag_emit_no_panic : forall r b,
  v6frag_wf r = true -> blen b = v6frag_buffer_len r -> v6frag_emit r b <> Panic).

Check (C06_v6frag_emit_ignores_old_bytes : forall r b1 b2,
  v6frag_wf r = true -> blen b1 = v6frag_buffer_len r -> blen b2 = v6frag_buffer_len r ->
  v6frag_emit r b1 = v6frag_emit r b2).

Check (C06_v6frag_roundtrip : forall r b,
  v6frag_wf r = true -> blen b = v6frag_buffer_len r ->
  exists bs, v6frag_emit r b = Ok bs /\ blen bs = v6frag_buffer_len r /\ v6frag_parse bs = Ok r).

Check (C06_v6frag_reparse : forall bs r,
  bytes_ok bs = true -> v6frag_parse bs = Ok r ->
  v6frag_wf r = true /\
  forall b, blen b = v6frag_buffer_len r ->
    exists bs', v6frag_emit r b = Ok bs' /\ v6frag_parse bs' = Ok r).

Check (C06_v6ext_emit_no_panic : forall r b,
  v6ext_wf r = true -> blen b = v6ext_buffer_len r -> v6ext_emit r b <> Panic).

Check (C06_v6ext_emit_ignores_old_bytes : forall r b1 b2,
  v6ext_wf r = true -> blen b1 = v6ext_buffer_len r -> blen b2 = v6ext_buffer_len r ->
  v6ext_emit r b1 = v6ext_emit r b2).

Check (C06_v6ext_emit_frame : forall r h t,
  blen h = v6ext_buffer_len r -> v6ext_emit r (h ++ t) = omap (fun x => x ++ t) (v6ext_emit r h)).

Check (C06_v6ext_roundtrip : forall r b,
  v6ext_wf r = true -> blen b = v6ext_buffer_len r ->
  exists bs, v6ext_emit r b = Ok bs /\ blen bs = v6ext_buffer_len r /\
             forall rest, v6ext_parse (bs ++ v6ext_data r ++ rest) = Ok r).

Check (C06_v6ext_full_emit_no_panic : forall r b,
  v6ext_wf r = true -> blen b = v6ext_total_len r -> v6ext_emit_full r b <> Panic).

Check (C06_v6ext_full_emit_ignores_old_bytes : forall r b1 b2,
  v6ext_wf r = true -> blen b1 = v6ext_total_len r -> blen b2 = v6ext_total_len r ->
  v6ext_emit_full r b1 = v6ext_emit_full r b2).

Check (C06_v6ext_full_roundtrip : forall r b,
  v6ext_wf r = true -> blen b = v6ext_total_len r ->
  exists bs, v6ext_emit_full r b = Ok bs /\ blen bs = v6ext_total_len r /\ v6ext_parse bs = Ok r).

Check (C06_v6ext_reparse : forall bs r,
  bytes_ok bs = true -> v6ext_parse bs = Ok r ->
  v6ext_wf r = true /\
  forall b, blen b = v6ext_total_len r ->
    exists bs', v6ext_emit_full r b = Ok bs' /\ v6ext_parse bs' = Ok r).

Check (C06_mldrec_emit_no_panic : forall r b,
  mldrec_wf r = true -> blen b = mldrec_buffer_len r -> mldrec_emit r b <> Panic).

Check (C06_mldrec_emit_ignores_old_bytes : forall r b1 b2,
  mldrec_wf r = true -> blen b1 = mldrec_buffer_len r -> blen b2 = mldrec_buffer_len r ->
  mldrec_emit r b1 = mldrec_emit r b2).

Check (C06_mldrec_emit_frame : forall r h t,
  blen h = mldrec_buffer_len r -> mldrec_emit r (h ++ t) = omap (fun x => x ++ t) (mldrec_emit r h)).

Check (C06_mldrec_roundtrip : forall r b,
  mldrec_wf r = true -> blen b = mldrec_buffer_len r ->
  exists bs, mldrec_emit r b = Ok bs /\ blen bs = mldrec_buffer_len r /\
             mldrec_parse (bs ++ mldrec_payload r) = Ok r).

Check (C06_mldrec_reparse : forall bs r,
  bytes_ok bs = true ->
  mldrec_parse bs = Ok r -> ipv6_addr_is_multicast (mldrec_addr r) = true ->
  mldrec_wf r = true /\
  forall b, blen b = mldrec_buffer_len r ->
    exists bs', mldrec_emit r b = Ok bs' /\ mldrec_parse (bs' ++ mldrec_payload r) = Ok r).

Check (C06_mld_emit_spec : forall r b,
  mld_wf r = true -> blen b = mld_buffer_len r ->
  mld_emit r b = Ok (mld_bytes_ck r (nth 2 b 0) (nth 3 b 0))).

Check (C06_mld_emit_no_panic : forall (sum_fill : list Z -> Z) tx r b,
  mld_wf r = true -> blen b = mld_buffer_len r ->
  mld_emit r b <> Panic /\ mld_icmp_emit sum_fill tx r b <> Panic).

Check (C06_mld_emit_ignores_old_bytes : forall (sum_fill : list Z -> Z) tx r b1 b2,
  mld_wf r = true -> blen b1 = mld_buffer_len r -> blen b2 = mld_buffer_len r ->
  mld_icmp_emit sum_fill tx r b1 = mld_icmp_emit sum_fill tx r b2).

Check (C06_mld_roundtrip : forall (sum_fill : list Z -> Z) tx r b,
  mld_wf r = true -> blen b = mld_buffer_len r ->
  exists bs, mld_icmp_emit sum_fill tx r b = Ok bs /\ blen bs = mld_buffer_len r /\
             mld_parse bs = Ok (mld_canon r)).

Check (C06_mld_icmp_roundtrip : forall sum_ok sum_fill tx rx r b,
  icmp6h_cksum_link sum_ok sum_fill -> (rx = true -> tx = true) ->
  mld_wf r = true -> blen b = mld_buffer_len r ->
  exists bs, mld_icmp_emit sum_fill tx r b = Ok bs /\ mld_icmp_parse sum_ok rx bs = Ok (mld_canon r)).

Check (C06_mld_reparse : forall (sum_fill : list Z -> Z) tx bs r,
  bytes_ok bs = true -> mld_parse bs = Ok r ->
  mld_wf r = true /\
  forall b, blen b = mld_buffer_len r ->
    exists bs', mld_icmp_emit sum_fill tx r b = Ok bs' /\ mld_parse bs' = Ok r).
