(* Pins: full statements of the C03v10 theorems; a weakened theorem no longer type-checks here.
   Generated once by tools/mkpins.py from Props/C03v10.v and then committed: edit both or neither. *)
From SV Require Import Lib.Base Gen.Consts Gen.WireFields Model.Addr Model.Ingress Proofs.IngressProofs.
From SV Require Import Props.C10.
From SV Require Import Props.C03v10.

Check (C03_via_C10_ingress_and_reply_dispatch_never_panic : forall ifc socks p,
  wf_routes ifc ->
  exists res l, ing_process ifc socks p = Ok res /\ ing_ingress_emits_p ifc p res = Ok l).
