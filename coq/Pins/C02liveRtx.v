(* Pins: full statements of the C02liveRtx theorems; a weakened theorem no longer type-checks here.
   Generated once by tools/mkpins.py from Props/C02liveRtx.v and then committed: edit both or neither. *)
From SV Require Import Lib.Base Gen.Consts.
From SV Require Import Model.Seq32 Model.Assembler Model.TcpBuf Model.TcpTypes Model.Tcp Model.TcpNet.
From SV Require Import Proofs.TcpSendBase Proofs.TcpLiveBase Proofs.TcpLiveProofs Proofs.TcpLiveMore Proofs.TcpLiveProgress.
From SV Require Import Proofs.TcpNetBase.
From SV Require Import Proofs.TcpProgressBase Proofs.TcpProgressFrame Proofs.TcpProgressCtl Proofs.TcpProgressRecv Proofs.TcpProgressSend Proofs.TcpProgressNet Proofs.TcpProgressData Proofs.TcpProgressAck Proofs.TcpProgressAll Proofs.TcpProgressSafe Proofs.TcpProgressHs Proofs.TcpProgressHsD Proofs.TcpProgressHsNet Proofs.TcpProgressHsInit Proofs.TcpProgressHsLive Proofs.TcpProgressExample Proofs.TcpProgressWitness Proofs.TcpProgressSafeWitness Proofs.TcpProgressHsRtx Proofs.TcpProgressRtxWitness.
From SV Require Import Props.C02liveRtx.

Check (C02live_dispatch_keeps_plain_timer : forall cx s ok s' res tags,
  rb_len (s_tx_buffer s) = 0 -> plain (s_timer s) ->
  tcp_dispatch cx s ok = Ok (s', res, tags) -> plain (s_timer s')).

Check (C02live_process_keeps_plain_timer : forall cx s ip r s' reply tags,
  ctx_ok cx -> seg_ok r -> tcp_live_inv s -> rb_len (s_tx_buffer s) = 0 -> pc (s_timer s) ->
  tcp_process cx s ip r = Ok (s', reply, tags) -> pc (s_timer s')).

Check (C02live_undue_rto_survives_dispatch_any_state : forall cx s t ok s' res tags e,
  s_timeout s = None ->
  s_tuple s = Some t -> tu_local_addr t = cx_addr cx ->
  s_timer s = TRetransmit e -> cx_now cx < e ->
  tcp_dispatch cx s ok = Ok (s', res, tags) -> s_timer s' = TRetransmit e).

Check (C02live_syn_rto_transmits : forall cx s t e s' res tags,
  tcp_live_inv s -> (s_state s = SynSent \/ s_state s = SynReceived) -> s_timeout s = None ->
  s_tuple s = Some t -> tu_local_addr t = cx_addr cx ->
  s_timer s = TRetransmit e -> e <= cx_now cx -> 52 < cx_ip_mtu cx ->
  tcp_dispatch cx s true = Ok (s', res, tags) -> exists p, res = DSent p).

Check (C02live_handshake_timers_plain_step : forall isn Dack st ev st',
  HSR isn Dack st -> HSR isn Dack st' -> inv_at SA st -> inv_at SA st' ->
  script_ev SA ev -> net_step st ev = Ok st' -> hs_plain st -> hs_plain st').

Check (C02live_handshake_retransmission_step : forall isn Dack Dt Da T0 dk fa st ev st',
  0 <= Dt -> HSR isn Dack st -> HSR isn Dack st' -> Jr Dt Da T0 dk fa st -> fair_ev fa st ev -> net_step st ev = Ok st' ->
  Qh (fa_after Dt Da fa ev st') st' \/ Jr Dt Da T0 dk (fa_after Dt Da fa ev st') st').

Check (C02live_syn_established_after_loss : forall Dt Da Dack ca cb st0, start_ok Dack ca cb st0 ->
  forall pre st evs st',
  net_run st0 pre = Ok st -> Forall (script_ev SA) pre ->
  fair_schedule Dt Da st evs -> Forall (app_ev SA) evs -> net_run st evs = Ok st' -> TcpNetInv.small st' ->
  net_now st SA + max_rto_us + 2 * Dt < net_now st' SA ->
  exists p1 p2 st1, evs = p1 ++ p2 /\ net_run st p1 = Ok st1 /\ net_run st1 p2 = Ok st' /\
                    s_state (net_sock st1 SA) = Established).

Check (C02live_syn_established_after_loss_applies :
  exists st0 st st',
    start_ok 10000 ex_cfg_a ex_cfg_b st0 /\ net_run st0 rtx_prefix = Ok st /\
    s_state (net_sock st SA) = SynSent /\
    fair_schedule 5000 5000 st rtx_suffix /\ net_run st rtx_suffix = Ok st' /\
    exists p1 p2 st1, rtx_suffix = p1 ++ p2 /\ net_run st p1 = Ok st1 /\ net_run st1 p2 = Ok st' /\
                      s_state (net_sock st1 SA) = Established).

Check (C02live_rtx_prefix_is_lossy : In (NDrop SB 0) rtx_prefix).
