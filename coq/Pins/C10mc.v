(* Pins: full statements of the C10mc theorems; a weakened theorem no longer type-checks here.
   Generated once by tools/mkpins.py from Props/C10mc.v and then committed: edit both or neither. *)
From SV Require Import Lib.Base Gen.Consts Gen.WireFields Model.Addr Model.Ingress Model.WireIgmp Model.Multicast.
From SV Require Import Proofs.IngressProofs Proofs.MulticastProofs.
From SV Require Import Props.C10mc.

Check (C10mc_egress_packets_legal : forall st dev now st' dev' pkts,
  mc_inv st -> mc_multicast_egress st dev now = Ok (st', dev', pkts) ->
  Forall (fun p =>
    pk_hop p = 1 /\ ip_is_multicast (pk_dst p) = true /\
    match pk_kind p with
    | KIgmpReport _ g =>
        pk_dst p = V4 g /\ pk_ra p = false /\
        exists a, pk_src p = V4 a /\ ing_igmp_report_src (mc_iface st) = Some a /\ own (mc_iface st) (V4 a)
    | KIgmpLeave _ =>
        pk_dst p = V4 v4_MULTICAST_ALL_ROUTERS /\ pk_ra p = false /\
        exists a, pk_src p = V4 a /\ ing_igmp_report_src (mc_iface st) = Some a /\ own (mc_iface st) (V4 a)
    | KMldReport _ =>
        pk_dst p = V6 v6_LINK_LOCAL_ALL_MLDV2_ROUTERS /\ pk_ra p = true /\
        exists s, pk_src p = V6 s /\ s = ing_mld_report_src (mc_iface st) /\
          ((own (mc_iface st) (V6 s) /\ v6_is_link_local s = true) \/
           (s = 0 /\ first_link_local (mc_addrs st) = None))
    end) pkts).

Check (C10mc_source_unicast_or_required_unspec : forall st p,
  Forall (fun c => ip_is_unicast (c_addr c) = true) (mc_addrs st) -> c10_pkt_legal st p ->
  (own (mc_iface st) (pk_src p) /\ ip_is_unicast (pk_src p) = true) \/
  (exists recs, pk_kind p = KMldReport recs) /\ pk_src p = V6 0 /\ first_link_local (mc_addrs st) = None).

Check (C10mc_run_packets_legal : forall evs st,
  mc_inv st -> Forall (ev_ok (mc_medium st)) evs -> run_polls_legal st evs).

Check (C10mc_example_run :
  Forall (ev_ok MEth) ex_events /\
  exists st obs, mc_run (mc_new MEth 1486 1) ex_events = Ok (st, obs) /\
    map (fun o => length (obs_pkts o)) obs = [0; 0; 0; 0; 3; 0; 1; 0; 0; 1]%nat /\
    mc_igmp st = IgInactive /\ length (mc_groups st) = 2%nat /\
    mc_has_multicast_group st (V4 ex_g4) = false /\ mc_has_multicast_group st (V6 ex_g6) = true /\
    nth 6 obs ONone = OPkts [general_report IgmpV2 167772161 ex_g4]).
