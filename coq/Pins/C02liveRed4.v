(* Pins: full statements of the C02liveRed4 theorems; a weakened theorem no longer type-checks here.
   Generated once by tools/mkpins.py from Props/C02liveRed4.v and then committed: edit both or neither. *)
From SV Require Import Lib.Base Gen.Consts.
From SV Require Import Model.Seq32 Model.Assembler Model.TcpBuf Model.TcpTypes Model.Tcp Model.TcpNet.
From SV Require Import Proofs.TcpSendBase Proofs.TcpLiveBase Proofs.TcpLiveProofs Proofs.TcpLiveMore Proofs.TcpLiveProgress.
From SV Require Import Proofs.TcpNetBase.
From SV Require Import Proofs.TcpProgressBase Proofs.TcpProgressFrame Proofs.TcpProgressCtl Proofs.TcpProgressRecv Proofs.TcpProgressSend Proofs.TcpProgressNet Proofs.TcpProgressData Proofs.TcpProgressAck Proofs.TcpProgressAll Proofs.TcpProgressSafe Proofs.TcpProgressHs Proofs.TcpProgressHsD Proofs.TcpProgressHsNet Proofs.TcpProgressHsInit Proofs.TcpProgressHsLive Proofs.TcpProgressHsLive2 Proofs.TcpProgressZwp Proofs.TcpProgressExample Proofs.TcpProgressWitness Proofs.TcpProgressSafeWitness Proofs.TcpProgressZwDup Proofs.TcpProgressZw1 Proofs.TcpProgressZw1b Proofs.TcpProgressZw2 Proofs.TcpProgressZw3 Proofs.TcpProgressZwWitness Proofs.TcpProgressZw4 Proofs.TcpProgressZw5 Proofs.TcpProgressZw6 Proofs.TcpProgressZwWitness3 Proofs.TcpProgressZw7 Proofs.TcpProgressCl1 Proofs.TcpProgressCl2 Proofs.TcpProgressCl3 Proofs.TcpProgressCl4 Proofs.TcpProgressCl5 Proofs.TcpProgressCl6 Proofs.TcpProgressCl7 Proofs.TcpProgressCl8 Proofs.TcpProgressCl9 Proofs.TcpProgressCl10 Proofs.TcpProgressCl11 Proofs.TcpProgressCl12 Proofs.TcpProgressCl13 Proofs.TcpProgressCl14 Proofs.TcpProgressHsRtx Proofs.TcpProgressHsAll Proofs.TcpProgressHsSrv1 Proofs.TcpProgressHsSrv2 Proofs.TcpProgressCl15 Proofs.TcpProgressRtxWitness Proofs.TcpProgressHsSrvWitness Proofs.TcpProgressCl16 Proofs.TcpProgressCap Proofs.TcpProgressCapNet Proofs.TcpProgressCl19 Proofs.TcpProgressCl20 Proofs.TcpProgressSynWin Proofs.TcpProgressSynWinNet Proofs.TcpProgressCl21.
From SV Require Import Props.C02liveRed4.

Check (C02live_syn_win_open_from_net_init : forall Dack ca cb st0, start_ok Dack ca cb st0 -> cfg_rx ca cb ->
  forall pre st evs st',
  net_run st0 pre = Ok st -> Forall (script_ev SA) pre ->
  Forall (script_ev SA) evs -> net_run st evs = Ok st' -> TcpNetInv.small st' ->
  run_all syn_win_open st evs).

Check (C02live_handshake_completes_cfg : forall Dt Da Dack ca cb st0,
 start_ok Dack ca cb st0 -> cfg_rx ca cb ->
  forall evs st',
  fair_schedule Dt Da st0 evs -> Forall (app_ev SA) evs -> net_run st0 evs = Ok st' -> TcpNetInv.small st' ->
  net_now st0 SA + 3 * Dt < net_now st' SA ->
  exists pre post fa1 st1,
    evs = pre ++ post /\ net_run st0 pre = Ok st1 /\ net_run st1 post = Ok st' /\
    reg SA Dack st1 /\ reach st1 /\ opts_ok st1 /\
    dl_sync Da fa1 st1 /\ fair_run Dt Da fa1 st1 post /\
    net_now st1 SA <= net_now st0 SA + 3 * Dt).

Check (C02live_handshake_completes_after_loss_cfg : forall Dt Da Dack ca cb st0,
 start_ok Dack ca cb st0 -> cfg_rx ca cb ->
  forall pre st evs st',
  net_run st0 pre = Ok st -> Forall (script_ev SA) pre ->
  s_state (net_sock st SA) = SynSent ->
  fair_schedule Dt Da st evs -> Forall (app_ev SA) evs -> net_run st evs = Ok st' -> TcpNetInv.small st' ->
  net_now st SA + max_rto_us + 3 * Dt < net_now st' SA ->
  exists p1 p2 fa1 st1,
    evs = p1 ++ p2 /\ net_run st p1 = Ok st1 /\ net_run st1 p2 = Ok st' /\
    reg SA Dack st1 /\ reach st1 /\ opts_ok st1 /\
    dl_sync Da fa1 st1 /\ fair_run Dt Da fa1 st1 p2 /\
    net_now st1 SA <= net_now st SA + max_rto_us + 3 * Dt).

Check (C02live_server_established_after_ack_loss_cfg : forall Dt Da Dack ca cb st0,
 start_ok Dack ca cb st0 -> cfg_rx ca cb ->
  forall pre st evs st',
  net_run st0 pre = Ok st -> Forall (script_ev SA) pre ->
  s_state (net_sock st SA) = Established -> s_state (net_sock st SB) = SynReceived ->
  fresh (cx_isn (ep_cx (n_a st0))) st ->
  fair_schedule Dt Da st evs -> Forall (app_ev SA) evs -> net_run st evs = Ok st' -> TcpNetInv.small st' ->
  Z.max (net_now st SA) (cA st) + max_rto_us + 2 * Dt < net_now st' SA ->
  exists p1 p2 fa1 st1,
    evs = p1 ++ p2 /\ net_run st p1 = Ok st1 /\ net_run st1 p2 = Ok st' /\
    reg SA Dack st1 /\ reach st1 /\ opts_ok st1 /\
    dl_sync Da fa1 st1 /\ fair_run Dt Da fa1 st1 p2 /\
    net_now st1 SA <= Z.max (net_now st SA) (cA st) + max_rto_us + 2 * Dt).
