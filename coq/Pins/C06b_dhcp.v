(* Pins: full statements of the C06b_dhcp theorems; a weakened theorem no longer type-checks here.
   Generated once by tools/mkpins.py from Props/C06b_dhcp.v and then committed: edit both or neither. *)
From SV Require Import Lib.Base Gen.Consts Gen.WireFields Model.WireBase Proofs.WireBaseProofs.
From SV Require Import Model.WireDhcpv4 Proofs.WireDhcpv4Proofs.
From SV Require Import Props.C06b_dhcp.

Check (C06_dhcpw_wf_implies_wf_emit : forall r, dhcpw_wf r = true -> dhcpw_wf_emit r = true).

Check (C06_dhcpw_emit_spec : forall r b,
  dhcpw_wf_emit r = true -> blen b = dhcpw_buffer_len r ->
  dhcpw_emit r b = Ok (dhcpw_hdr r ++ dhcpw_opts_bytes (dhcpw_opts_of r) ++ [wdhcp_OPT_END])).

Check (C06_dhcpw_emit_no_panic : forall r b,
  dhcpw_wf_emit r = true -> blen b = dhcpw_buffer_len r -> dhcpw_emit r b <> Panic).

Check (C06_dhcpw_emit_ignores_old_bytes : forall r b1 b2,
  dhcpw_wf_emit r = true -> blen b1 = dhcpw_buffer_len r -> blen b2 = dhcpw_buffer_len r ->
  dhcpw_emit r b1 = dhcpw_emit r b2).

Check (C06_dhcpw_roundtrip : forall r b,
  dhcpw_wf r = true -> blen b = dhcpw_buffer_len r ->
  exists bs, dhcpw_emit r b = Ok bs /\ blen bs = dhcpw_buffer_len r /\ dhcpw_parse bs = Ok r).

Check (C06_dhcpw_roundtrip_additional : forall r b,
  dhcpw_wf_emit r = true ->
  forallb dhcpw_add_ok (dhcpw_r_additional_options r) = true -> blen b = dhcpw_buffer_len r ->
  exists bs, dhcpw_emit r b = Ok bs /\ blen bs = dhcpw_buffer_len r /\
             dhcpw_parse bs = Ok (dhcpw_clear_additional r)).

Check (C06_dhcpw_reparse : forall bs r,
  bytes_ok bs = true -> dhcpw_parse bs = Ok r ->
  dhcpw_wf r = true /\
  forall b, blen b = dhcpw_buffer_len r ->
    exists bs', dhcpw_emit r b = Ok bs' /\ dhcpw_parse bs' = Ok r).

Check (C06_dhcpw_ow_emit_ok : forall done buffer o,
  blen (dhcpw_o_data o) <= 255 -> 2 + blen (dhcpw_o_data o) <= blen buffer ->
  dhcpw_ow_emit (done, buffer) o =
    Ok (done ++ dhcpw_o_kind o :: blen (dhcpw_o_data o) :: dhcpw_o_data o,
        skipn (Z.to_nat (2 + blen (dhcpw_o_data o))) buffer)).

Check (C06_dhcpw_walk_of_written : forall l rest fuel,
  Forall (fun o => dhcpw_opt_ok o = true /\ dhcpw_o_kind o <> wdhcp_OPT_PAD /\
                   dhcpw_o_kind o <> wdhcp_OPT_END) l ->
  (length (dhcpw_opts_bytes l ++ wdhcp_OPT_END :: rest) < fuel)%nat ->
  dhcpw_options_go fuel (dhcpw_opts_bytes l ++ wdhcp_OPT_END :: rest) = Ok l).
