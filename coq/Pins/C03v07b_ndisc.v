(* Pins: full statements of the C03v07b_ndisc theorems; a weakened theorem no longer type-checks here.
   Generated once by tools/mkpins.py from Props/C03v07b_ndisc.v and then committed: edit both or neither. *)
From SV Require Import Lib.Base Gen.WireFields Model.WireBase Proofs.WireBaseProofs.
From SV Require Import Model.WireIpv6 Model.WireNdiscOpt Proofs.WireNdiscOptProofs.
From SV Require Import Model.WireIcmpv6Hdr Proofs.WireIcmpv6HdrProofs Model.WireNdisc Proofs.WireNdiscProofs.
From SV Require Import Props.C07b_ndisc.
From SV Require Import Props.C03v07b_ndisc.

Check (C03_via_C07_ndopt_accessors_safe : forall bs,
  bytes_ok bs = true -> ndopt_new_checked bs = Ok tt ->
  ndopt_option_type bs <> Panic /\ ndopt_data_len bs <> Panic /\ ndopt_data bs <> Panic /\
  ndopt_link_layer_addr bs <> Panic /\ ndopt_mtu bs <> Panic /\
  (ndopt_option_type bs = Ok ndopt_T_PREFIX ->
   ndopt_prefix_len bs <> Panic /\ ndopt_prefix_flags bs <> Panic /\ ndopt_valid_lifetime bs <> Panic /\
   ndopt_preferred_lifetime bs <> Panic /\ ndopt_prefix bs <> Panic)).

Check (C03_via_C07_ndopt_check_len_total : forall bs, ndopt_check_len bs <> Panic).

Check (C03_via_C07_ndopt_parse_total : forall bs, bytes_ok bs = true -> ndopt_parse bs <> Panic).

Check (C03_via_C07_ndisc_accessors_safe : forall bs,
  icmp6h_check_len bs = Ok tt ->
  (icmp6h_msg_type bs = Ok icmp6h_ROUTER_ADVERT ->
     ndisc_current_hop_limit bs <> Panic /\ ndisc_router_flags bs <> Panic /\ ndisc_router_lifetime bs <> Panic /\
     ndisc_reachable_time bs <> Panic /\ ndisc_retrans_time bs <> Panic) /\
  (icmp6h_msg_type bs = Ok icmp6h_NEIGHBOR_SOLICIT -> ndisc_target_addr bs <> Panic) /\
  (icmp6h_msg_type bs = Ok icmp6h_NEIGHBOR_ADVERT ->
     ndisc_neighbor_flags bs <> Panic /\ ndisc_target_addr bs <> Panic) /\
  (icmp6h_msg_type bs = Ok icmp6h_REDIRECT -> ndisc_target_addr bs <> Panic /\ ndisc_dest_addr bs <> Panic)).

Check (C03_via_C07_ndisc_parse_total : forall bs, bytes_ok bs = true -> ndisc_parse bs <> Panic).

Check (C03_via_C07_ndisc_icmp_parse_total : forall (sum_ok : list Z -> bool) rx bs,
  bytes_ok bs = true -> ndisc_icmp_parse sum_ok rx bs <> Panic).
