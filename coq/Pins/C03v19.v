(* Pins: full statements of the C03v19 theorems; a weakened theorem no longer type-checks here.
   Generated once by tools/mkpins.py from Props/C03v19.v and then committed: edit both or neither. *)
From SV Require Import Lib.Base Gen.Consts Gen.WireFields Model.WireDns Model.Dns Proofs.WireDnsProofs Proofs.DnsProofs.
From SV Require Import Props.C19.
From SV Require Import Props.C03v19.

Check (C03_via_C19_parse_name_terminates : forall packet bytes, nm_no_fuel (wdns_parse_name packet bytes)).

Check (C03_via_C19_parse_name_no_panic : forall packet bytes,
  Forall wdns_is_byte packet -> Forall wdns_is_byte bytes ->
  nm_no_panic (wdns_parse_name packet bytes)).

Check (C03_via_C19_wire_parsers_total : forall buffer,
  (wdns_question_parse buffer <> Panic /\ wdns_question_parse buffer <> Err wdns_E_FUEL) /\
  (wdns_record_parse buffer <> Panic /\ wdns_record_parse buffer <> Err wdns_E_FUEL) /\
  (wdns_parse_name_part buffer <> Panic /\ wdns_parse_name_part buffer <> Err wdns_E_FUEL)).

Check (C03_via_C19_process_total : forall cfg s dst_port pkt,
  0 <= c_max_name cfg -> sock_ok cfg s -> Forall wdns_is_byte pkt ->
  exists s', dns_process cfg s dst_port pkt = Ok s' /\ sock_ok cfg s' /\
             ds_servers s' = ds_servers s /\ length (ds_queries s') = length (ds_queries s)).

Check (C03_via_C19_step_total : forall cfg s ev,
  cfg_ok cfg -> sock_ok cfg s -> ev_ok ev ->
  sock_ok cfg (fst (dns_step cfg s ev)) /\
  match ev with
  | EvPoll _ => exists txs, snd (dns_step cfg s ev) = ObPoll txs false
  | EvRsp _ _ _ _ => exists acc, snd (dns_step cfg s ev) = ObRsp acc
  | _ => True
  end).
