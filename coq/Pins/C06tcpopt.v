(* Pins: full statements of the C06tcpopt theorems; a weakened theorem no longer type-checks here.
   Generated once by tools/mkpins.py from Props/C06tcpopt.v and then committed: edit both or neither. *)
From SV Require Import Lib.Base Gen.WireFields Gen.Consts Model.WireBase Model.WireTcp.
From SV Require Import Proofs.WireBaseProofs Proofs.WireBaseProofs2 Proofs.WireTcpProofs Proofs.WireTcpEmitProofs.
From SV Require Import Proofs.WireTcpParseProofs Proofs.WireTcpOptProofs.
From SV Require Import Props.C06tcpopt.

Check (C06_tcp_option_standalone_roundtrip : forall o b,
  tcp_opt_standalone_wf o -> bytes_ok b = true -> blen b = tcp_option_buffer_len o ->
  tcp_option_emit o b 0 (blen b) = Ok (tcp_option_bytes o, blen b) /\
  tcp_option_parse (tcp_option_bytes o) = Ok ([], o)).

Check (C06_tcp_option_unknown_roundtrip : forall k d b,
  tcp_opt_unknown_ok k d -> bytes_ok b = true -> blen b = 2 + blen d ->
  tcp_option_emit (OptUnknown k d) b 0 (blen b) = Ok ([k; 2 + blen d] ++ d, blen b) /\
  tcp_option_parse ([k; 2 + blen d] ++ d) = Ok ([], OptUnknown k d)).

Check (C06_tcp_option_sack_hole_refuted :
  exists o b bs n, tcp_option_emit o b 0 (blen b) = Ok (bs, n) /\ blen b = tcp_option_buffer_len o /\
    exists o', tcp_option_parse bs = Ok ([], o') /\ o' <> o).
