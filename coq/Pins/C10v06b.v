(* Pins: full statements of the C10v06b theorems; a weakened theorem no longer type-checks here.
   Generated once by tools/mkpins.py from Props/C10v06b.v and then committed: edit both or neither. *)
From SV Require Import Lib.Base Gen.WireFields Model.WireBase Proofs.WireBaseProofs.
From SV Require Import Model.WireIgmp Proofs.WireIgmpProofs.
From SV Require Import Model.WireIpv6Frag Proofs.WireIpv6FragProofs.
From SV Require Import Model.WireIpv6Ext Proofs.WireIpv6ExtProofs.
From SV Require Import Model.WireIcmpv6Hdr Proofs.WireIcmpv6HdrProofs Model.WireMld Proofs.WireMldProofs.
From SV Require Import Props.C06b.
From SV Require Import Props.C10v06b.

Check (C10_via_C06_igmp_emit_no_panic : forall (sum_fill : list Z -> Z) r b,
  igmp_wf r = true -> blen b = igmp_buffer_len r -> igmp_emit sum_fill r b <> Panic).

Check (C10_via_C06_igmp_roundtrip : forall (sum_fill : list Z -> Z) r b,
  igmp_wf r = true -> blen b = igmp_buffer_len r ->
  exists bs, igmp_emit sum_fill r b = Ok bs /\ blen bs = igmp_buffer_len r /\ igmp_parse bs = Ok r).

Check (C10_via_C06_v6frag_emit_no_panic : forall r b,
  v6frag_wf r = true -> blen b = v6frag_buffer_len r -> v6frag_emit r b <> Panic).

Check (C10_via_C06_v6frag_roundtrip : forall r b,
  v6frag_wf r = true -> blen b = v6frag_buffer_len r ->
  exists bs, v6frag_emit r b = Ok bs /\ blen bs = v6frag_buffer_len r /\ v6frag_parse bs = Ok r).

Check (C10_via_C06_v6ext_emit_no_panic : forall r b,
  v6ext_wf r = true -> blen b = v6ext_buffer_len r -> v6ext_emit r b <> Panic).

Check (C10_via_C06_v6ext_roundtrip : forall r b,
  v6ext_wf r = true -> blen b = v6ext_buffer_len r ->
  exists bs, v6ext_emit r b = Ok bs /\ blen bs = v6ext_buffer_len r /\
             forall rest, v6ext_parse (bs ++ v6ext_data r ++ rest) = Ok r).

Check (C10_via_C06_v6ext_full_emit_no_panic : forall r b,
  v6ext_wf r = true -> blen b = v6ext_total_len r -> v6ext_emit_full r b <> Panic).

Check (C10_via_C06_v6ext_full_roundtrip : forall r b,
  v6ext_wf r = true -> blen b = v6ext_total_len r ->
  exists bs, v6ext_emit_full r b = Ok bs /\ blen bs = v6ext_total_len r /\ v6ext_parse bs = Ok r).

Check (C10_via_C06_mldrec_emit_no_panic : forall r b,
  mldrec_wf r = true -> blen b = mldrec_buffer_len r -> mldrec_emit r b <> Panic).

Check (C10_via_C06_mldrec_roundtrip : forall r b,
  mldrec_wf r = true -> blen b = mldrec_buffer_len r ->
  exists bs, mldrec_emit r b = Ok bs /\ blen bs = mldrec_buffer_len r /\
             mldrec_parse (bs ++ mldrec_payload r) = Ok r).

Check (C10_via_C06_mld_emit_no_panic : forall (sum_fill : list Z -> Z) tx r b,
  mld_wf r = true -> blen b = mld_buffer_len r ->
  mld_emit r b <> Panic /\ mld_icmp_emit sum_fill tx r b <> Panic).

Check (C10_via_C06_mld_roundtrip : forall (sum_fill : list Z -> Z) tx r b,
  mld_wf r = true -> blen b = mld_buffer_len r ->
  exists bs, mld_icmp_emit sum_fill tx r b = Ok bs /\ blen bs = mld_buffer_len r /\
             mld_parse bs = Ok (mld_canon r)).

Check (C10_via_C06_mld_icmp_roundtrip : forall sum_ok sum_fill tx rx r b,
  icmp6h_cksum_link sum_ok sum_fill -> (rx = true -> tx = true) ->
  mld_wf r = true -> blen b = mld_buffer_len r ->
  exists bs, mld_icmp_emit sum_fill tx r b = Ok bs /\ mld_icmp_parse sum_ok rx bs = Ok (mld_canon r)).
