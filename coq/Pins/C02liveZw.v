(* Pins: full statements of the C02liveZw theorems; a weakened theorem no longer type-checks here.
   Generated once by tools/mkpins.py from Props/C02liveZw.v and then committed: edit both or neither. *)
From SV Require Import Lib.Base Gen.Consts.
From SV Require Import Model.Seq32 Model.Assembler Model.TcpBuf Model.TcpTypes Model.Tcp Model.TcpNet.
From SV Require Import Proofs.TcpSendBase Proofs.TcpLiveBase Proofs.TcpLiveProofs Proofs.TcpLiveMore Proofs.TcpLiveProgress.
From SV Require Import Proofs.TcpNetBase.
From SV Require Import Proofs.TcpProgressBase Proofs.TcpProgressExample Proofs.TcpProgressWitness Proofs.TcpProgressZwDup.
From SV Require Import Props.C02liveZw.

Check (C02live_once_runb_iff : forall Dt Da evs fa st,
  once_runb Dt Da fa st evs = true <-> once_run Dt Da fa st evs).

Check (C02live_zero_window_starved_by_redelivery :
  exists st0 st st',
    net_init zcfg_a zcfg_b = Ok st0 /\ net_run st0 zw_pre = Ok st /\ net_run st zw_suf = Ok st' /\
    fair_schedule 5000 5000 st zw_suf /\ ~ once_run 5000 5000 (fa_init 5000 5000 st) st zw_suf /\
    net_now st' SA = net_now st SA + 30000000 /\
    (forall z, s_state (net_sock st' z) = Established) /\
    rb_len (s_tx_buffer (net_sock st' SA)) = 4 /\ s_remote_win_len (net_sock st' SA) = 0 /\
    rx_len st' SB = 0 /\
    (exists W', 8 <= W' <= TcpRecvWindow.p30 /\
                tcp_window_end (net_sock st' SB) = seq_norm (tcp_window_start (net_sock st' SB) + W')) /\
    length (chan_to st' SB) = length (chan_to st SB)).
