(* Pins: full statements of the C02liveZw theorems; a weakened theorem no longer type-checks here.
   Generated once by tools/mkpins.py from Props/C02liveZw.v and then committed: edit both or neither. *)
From SV Require Import Lib.Base Gen.Consts.
From SV Require Import Model.Seq32 Model.Assembler Model.TcpBuf Model.TcpTypes Model.Tcp Model.TcpNet.
From SV Require Import Proofs.TcpSendBase Proofs.TcpLiveBase Proofs.TcpLiveProofs Proofs.TcpLiveMore Proofs.TcpLiveProgress.
From SV Require Import Proofs.TcpNetBase.
From SV Require Import Proofs.TcpProgressBase Proofs.TcpProgressFrame Proofs.TcpProgressCtl Proofs.TcpProgressRecv Proofs.TcpProgressSend Proofs.TcpProgressNet Proofs.TcpProgressData Proofs.TcpProgressAck Proofs.TcpProgressAll Proofs.TcpProgressSafe Proofs.TcpProgressZwp Proofs.TcpProgressExample Proofs.TcpProgressWitness Proofs.TcpProgressSafeWitness Proofs.TcpProgressZwDup Proofs.TcpProgressZw1 Proofs.TcpProgressZw2 Proofs.TcpProgressZw3 Proofs.TcpProgressZwWitness.
From SV Require Import Props.C02liveZw.

Check (C02live_once_runb_iff : forall Dt Da evs fa st,
  once_runb Dt Da fa st evs = true <-> once_run Dt Da fa st evs).

Check (C02live_zero_window_starved_by_redelivery :
  exists st0 st st',
    net_init zcfg_a zcfg_b = Ok st0 /\ net_run st0 zw_pre = Ok st /\ net_run st zw_suf = Ok st' /\
    fair_schedule 5000 5000 st zw_suf /\ ~ once_run 5000 5000 (fa_init 5000 5000 st) st zw_suf /\
    net_now st' SA = net_now st SA + 30000000 /\
    (forall z, s_state (net_sock st' z) = Established) /\
    rb_len (s_tx_buffer (net_sock st' SA)) = 4 /\ s_remote_win_len (net_sock st' SA) = 0 /\
    rx_len st' SB = 0 /\
    (exists W', 8 <= W' <= TcpRecvWindow.p30 /\
                tcp_window_end (net_sock st' SB) = seq_norm (tcp_window_start (net_sock st' SB) + W')) /\
    length (chan_to st' SB) = length (chan_to st SB)).

Check (C02live_reply_carries_current_window : forall cx s ip r s' rep tags,
  tcp_process cx s ip r = Ok (s', rep, tags) -> wsh s' rep).

Check (C02live_transmit_carries_current_window : forall cx s ok s' res tags t,
  s_state s = Established -> s_state s' = Established ->
  s_tuple s = Some t -> tu_local_addr t = cx_addr cx ->
  tcp_dispatch cx s ok = Ok (s', res, tags) ->
  forall p, res = DSent p -> r_window_len (snd p) = tcp_scaled_window s').

Check (C02live_sender_learns_advertised_window : forall cx s ip r s' reply tags,
  ctx_ok cx -> seg_ok r -> tcp_live_inv s ->
  s_state s = Established -> s_state s' = Established ->
  rb_len (s_tx_buffer s) < 2 ^ 31 ->
  tcp_process cx s ip r = Ok (s', reply, tags) ->
  core_eq s s' \/
  (r_control r <> CSyn /\ s_remote_win_len s' = shl (r_window_len r) (win_scale_of s r))).

Check (C02live_poll_at_not_after_armed_timer : forall cx s,
  s_tuple s <> None ->
  match tcp_poll_at cx s with
  | Ok PNow => True
  | Ok (PTime t) => match s_timer s with
                    | TRetransmit e | TZeroWindowProbe e _ => t <= e
                    | TFastRetransmit => False
                    | _ => True
                    end
  | Ok PIngress => match s_timer s with
                   | TRetransmit _ | TZeroWindowProbe _ _ | TFastRetransmit => False
                   | _ => True
                   end
  | _ => True
  end).

Check (C02live_zero_window_probe_timer_kept : forall cx s t ok s' res tags e d,
  tcp_live_inv s -> s_state s = Established -> s_timeout s = None ->
  s_tuple s = Some t -> tu_local_addr t = cx_addr cx ->
  s_remote_win_len s = 0 -> s_remote_last_seq s = s_local_seq_no s ->
  s_timer s = TZeroWindowProbe e d -> cx_now cx < e ->
  tcp_dispatch cx s ok = Ok (s', res, tags) ->
  s_timer s' = TZeroWindowProbe e d /\ s_remote_win_len s' = 0 /\
  forall p, res = DSent p -> repr_segment_len (snd p) = 0).

Check (C02live_zero_window_rto_arms_probe : forall cx s t ok s' res tags e,
  tcp_live_inv s -> s_state s = Established -> s_timeout s = None ->
  s_tuple s = Some t -> tu_local_addr t = cx_addr cx ->
  s_remote_win_len s = 0 -> 0 < rb_len (s_tx_buffer s) ->
  s_timer s = TRetransmit e -> e <= cx_now cx ->
  tcp_dispatch cx s ok = Ok (s', res, tags) ->
  (exists e' d', s_timer s' = TZeroWindowProbe e' d' /\ cx_now cx < e' <= cx_now cx + max_rto_us) /\
  s_remote_win_len s' = 0 /\ forall p, res = DSent p -> repr_segment_len (snd p) = 0).

Check (C02live_reliable_leads : forall (Dt Da : Z) (R : net -> Prop) (J Q : fair_aux -> net -> Prop) (x : side) (T : Z),
  (forall fa st, J fa st -> net_now st x <= T) ->
  (forall fa st ev st', R st -> R st' -> J fa st -> fair_ev fa st ev -> once_ev fa ev -> net_step st ev = Ok st' ->
     Q (fa_after Dt Da fa ev st') st' \/ J (fa_after Dt Da fa ev st') st') ->
  forall evs fa st st',
    J fa st -> run_all R st evs -> fair_run Dt Da fa st evs -> once_run Dt Da fa st evs ->
    net_run st evs = Ok st' -> T < net_now st' x ->
    exists pre post fa1 st1,
      evs = pre ++ post /\ net_run st pre = Ok st1 /\ net_run st1 post = Ok st' /\
      run_all R st1 post /\ fair_run Dt Da fa1 st1 post /\ once_run Dt Da fa1 st1 post /\ Q fa1 st1 /\
      exists fa0 st0 ev0, J fa0 st0 /\ R st0 /\ fair_ev fa0 st0 ev0 /\ net_step st0 ev0 = Ok st1 /\
                          fa1 = fa_after Dt Da fa0 ev0 st1).

Check (C02live_zero_window_deadline_step : forall x Dt Da u0 d0 dk T1 fa st ev st',
  0 <= Dt -> 0 <= Da ->
  zsafe x st -> zsafe x st' -> Z1 x Da u0 d0 dk T1 fa st -> fair_ev fa st ev -> once_ev fa ev -> net_step st ev = Ok st' ->
  (Qz x u0 d0 st' \/ JR x Da d0 (T1 + dk + Da) (fa_after Dt Da fa ev st') st' \/
   Z2 x Da u0 d0 dk (T1 + dk + Dt) (fa_after Dt Da fa ev st') st') \/
  Z1 x Da u0 d0 dk T1 (fa_after Dt Da fa ev st') st').

Check (C02live_zero_window_probe_in_flight_step : forall x Dt Da u0 d0 dk T2 fa st ev st',
  0 <= Dt -> 0 <= Da ->
  zsafe x st -> zsafe x st' -> Z2 x Da u0 d0 dk T2 fa st -> fair_ev fa st ev -> once_ev fa ev -> net_step st ev = Ok st' ->
  (Qz x u0 d0 st' \/ JR x Da d0 (T2 + Da) (fa_after Dt Da fa ev st') st' \/
   Z4 x Da u0 d0 dk (T2 - dk + Dt) (fa_after Dt Da fa ev st') st') \/
  Z2 x Da u0 d0 dk T2 (fa_after Dt Da fa ev st') st').

Check (C02live_zero_window_ack_in_flight_step : forall x Dt Da u0 d0 dk T4 fa st ev st',
  0 <= Da ->
  zsafe x st -> zsafe x st' -> Z4 x Da u0 d0 dk T4 fa st -> fair_ev fa st ev -> once_ev fa ev -> net_step st ev = Ok st' ->
  (Qz x u0 d0 st' \/ JR x Da d0 (T4 + dk + Da) (fa_after Dt Da fa ev st') st') \/
  Z4 x Da u0 d0 dk T4 (fa_after Dt Da fa ev st') st').

Check (C02live_zero_window_eventually_reopens : forall x Dt Da evs fa st st' u0 d0,
  0 <= Dt -> 0 <= Da ->
  NI st -> opts_ok st -> dl_sync Da fa st ->
  run_all (zsafe x) st evs -> fair_run Dt Da fa st evs -> once_run Dt Da fa st evs -> net_run st evs = Ok st' ->
  0 < txl x st -> s_remote_win_len (net_sock st x) = 0 -> wpos x fa st ->
  una_off (net_get st x) = u0 -> read_off (net_get st (side_other x)) = d0 ->
  net_now st x + 2 * max_rto_us + 2 * Dt + Da < net_now st' x ->
  exists pre post st1, evs = pre ++ post /\ net_run st pre = Ok st1 /\ net_run st1 post = Ok st' /\
                       Qz x u0 d0 st1).

Check (C02live_zero_window_safety_discharged : forall x Dack evs st st',
  reach st -> NI st -> opts_ok st -> reg x Dack st ->
  Forall (script_ev x) evs -> net_run st evs = Ok st' ->
  TcpNetInv.small st' -> wr_small x st' -> run_all (zextra x) st evs ->
  run_all (zsafe x) st evs).

Check (C02live_zero_window_reopens_from_established : forall x Dt Da Dack evs fa st st',
  reach st -> reg x Dack st -> opts_ok st ->
  0 <= Dt -> 0 <= Da -> dl_sync Da fa st ->
  fair_run Dt Da fa st evs -> once_run Dt Da fa st evs ->
  Forall (app_ev x) evs -> net_run st evs = Ok st' ->
  (forall z, l_len (ep_written (net_get st' z)) < 2 ^ 30) ->
  run_all (zextra x) st evs ->
  0 < txl x st -> s_remote_win_len (net_sock st x) = 0 -> wpos x fa st ->
  net_now st x + 2 * max_rto_us + 2 * Dt + Da < net_now st' x ->
  exists pre post st1, evs = pre ++ post /\ net_run st pre = Ok st1 /\ net_run st1 post = Ok st' /\
                       Qz x (una_off (net_get st x)) (read_off (net_get st (side_other x))) st1).

Check (C02live_zero_window_reopens_applies :
  exists st0 st st',
    net_init zcfg_a zcfg_b = Ok st0 /\ net_run st0 zww_prefix = Ok st /\ net_run st zww_suffix = Ok st' /\
    reach st /\ reg SA 10000 st /\ reliable_schedule 5000 5000 st zww_suffix /\ Forall (app_ev SA) zww_suffix /\
    run_all (zextra SA) st zww_suffix /\
    0 < txl SA st /\ s_remote_win_len (net_sock st SA) = 0 /\
    exists p1 p2 st1, zww_suffix = p1 ++ p2 /\ net_run st p1 = Ok st1 /\ net_run st1 p2 = Ok st' /\
                      Qz SA (una_off (net_get st SA)) (read_off (net_get st SB)) st1).
