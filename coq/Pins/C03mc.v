(* Pins: full statements of the C03mc theorems; a weakened theorem no longer type-checks here.
   Generated once by tools/mkpins.py from Props/C03mc.v and then committed: edit both or neither. *)
From SV Require Import Lib.Base Gen.Consts Gen.WireFields Model.Addr Model.Ingress Model.WireIgmp Model.Multicast.
From SV Require Import Proofs.IngressProofs Proofs.MulticastProofs.
From SV Require Import Props.C03mc.

Check (C03mc_inv_initial : forall m mtu seed, mc_inv (mc_new m mtu seed)).

Check (C03mc_step_total : forall st ev,
  mc_inv st -> ev_ok (mc_medium st) ev ->
  exists st' o, mc_step st ev = Ok (st', o) /\ mc_inv st' /\ mc_medium st' = mc_medium st).

Check (C03mc_run_total : forall evs st,
  mc_inv st -> Forall (ev_ok (mc_medium st)) evs ->
  exists st' obs, mc_run st evs = Ok (st', obs) /\ mc_inv st' /\ mc_medium st' = mc_medium st /\
                  length obs = length evs).

Check (C03mc_egress_total_and_bounded : forall st dev now,
  mc_inv st ->
  exists st' dev' pkts, mc_multicast_egress st dev now = Ok (st', dev', pkts) /\ mc_inv st' /\
    (Z.of_nat (length pkts) <= Z.of_nat (length (mc_groups st)) + 2 <= cfg_IFACE_MAX_MULTICAST_GROUP_COUNT + 2)).

Check (C03mc_loops_terminate : forall st dev acc fuel,
  mc_inv st ->
  ((count_state GJoining (mc_groups st) <= fuel)%nat ->
   exists r, mc_egress_joins fuel st dev acc = Ok r) /\
  ((count_state GLeaving (mc_groups st) <= fuel)%nat ->
   exists r, mc_egress_leaves fuel st dev acc = Ok r)).

Check (C03mc_query_responses_bounded : forall evs st st' obs,
  mc_inv st -> Forall is_poll evs -> mc_run st evs = Ok (st', obs) ->
  (length (filter is_igmp_response (flat_map obs_pkts obs)) + igmp_reports_left st' <= igmp_reports_left st)%nat /\
  (length (filter is_mld_response (flat_map obs_pkts obs)) + mld_reports_left st' <= mld_reports_left st)%nat).

Check (C03mc_mld_response_one_shot : forall st dev now st' dev' pkts,
  mc_inv st -> mc_multicast_egress st dev now = Ok (st', dev', pkts) ->
  match mc_mld st with
  | MlGeneral t | MlSpecific _ t => t <= now -> mc_mld st' = MlInactive
  | MlInactive => mc_mld st' = MlInactive
  end).

Check (C03mc_igmp_general_query_answered : forall b a t0 code,
  tbl_inv (mc_groups b) -> quiet b -> first_v4 (mc_addrs b) = Some a -> mc_medium b <> M154 ->
  wipv4_HEADER_LEN + snd wigmp_f_GROUP_ADDRESS <= mc_ip_mtu b -> mc_mld b = MlInactive ->
  0 <= code -> mc_v4_keys (mc_groups b) <> [] ->
  let keys4 := mc_v4_keys (mc_groups b) in
  let n := Z.of_nat (length keys4) in
  let ver := if code =? 0 then IgmpV1 else IgmpV2 in
  let mrt := igmp_max_resp_code_to_duration code in
  let interval := match ver with IgmpV1 => mc_IGMP_V1_INTERVAL | IgmpV2 => mrt / (n + 1) end in
  let st0 := mc_process_igmp_code b t0 v4_MULTICAST_ALL_SYSTEMS 0 code in
  exists l,
    mc_drive (S (length keys4)) st0 = Ok (mc_set_igmp b IgInactive, l) /\
    flat_map snd l = map (general_report ver a) keys4 /\
    length l = S (length keys4) /\
    Forall (fun e => t0 <= fst e <= t0 + (n + 1) * interval) l /\
    (ver = IgmpV2 -> Forall (fun e => fst e <= t0 + mrt) l)).

Check (C03mc_igmp_general_query_answered_example :
  (tbl_inv (mc_groups ex_quiet) /\ quiet ex_quiet /\ first_v4 (mc_addrs ex_quiet) = Some 167772161 /\
   mc_medium ex_quiet <> M154 /\ mc_mld ex_quiet = MlInactive) /\
  exists l,
  mc_drive 3 (mc_process_igmp_code ex_quiet 1000 v4_MULTICAST_ALL_SYSTEMS 0 90) = Ok (mc_set_igmp ex_quiet IgInactive, l) /\
  flat_map snd l = [general_report IgmpV2 167772161 ex_g4; general_report IgmpV2 167772161 (ex_g4 + 1)] /\
  map fst l = [3001000; 6001000; 9001000]).

Check (C03mc_ipv4_on_ieee802154_refuted :
  tbl_inv (mc_groups ex_154_v4) /\ ~ cfg_ok ex_154_v4 /\ mc_multicast_egress ex_154_v4 [true] 0 = Panic).
