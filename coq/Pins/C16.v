(* Pins: full statements of the C16 theorems; a weakened theorem no longer type-checks here.
   Generated once by tools/mkpins.py from Props/C16.v and then committed: edit both or neither. *)
From SV Require Import Lib.Base Gen.Consts Model.Neighbor Model.Route Model.Meta Model.Nexthop.
From SV Require Import Proofs.NeighborProofs Proofs.RouteProofs Proofs.NexthopProofs Proofs.MetaProofs.
From SV Require Import Props.C16.

Check (C16_cache_bounded : forall ether hw cap evs i tfr, 1 <= cap ->
  nh_run (nh_init ether hw cap) evs = Ok (i, tfr) ->
  Z.of_nat (length (c_storage (if_cache i))) <= cap /\ NoDup (map fst (c_storage (if_cache i)))).

Check (C16_invariant_preserved : forall evs i i' tfr log0,
  1 <= if_cap i -> cache_wf (if_cap i) (if_cache i) -> cache_inv log0 (if_cache i) ->
  nh_run i evs = Ok (i', tfr) ->
  if_cap i' = if_cap i /\ if_ether i' = if_ether i /\
  cache_wf (if_cap i) (if_cache i') /\ cache_inv (log0 ++ nh_log i evs) (if_cache i')).

Check (C16_unicast_uses_learned_addr : forall ether hw cap evs i tfr dst now i' fr h,
  1 <= cap ->
  nh_run (nh_init ether hw cap) evs = Ok (i, tfr) ->
  nh_is_broadcast i dst = false -> ip_is_multicast dst = false ->
  nh_lookup_hardware_addr i dst now = Ok (i', fr, DSend h) ->
  i' = i /\ fr = [] /\
  exists n, nh_route i dst now = Some n /\ next_hop_correct i dst now n /\
            learned_within_60s (nh_log (nh_init ether hw cap) evs) n h now).

Check (C16_fill_is_validated : forall evs i i' tfr k hw t, nh_run i evs = Ok (i', tfr) ->
  In (CFill k hw t) (nh_log i evs) ->
  exists evs1 f evs2 i1 tf1,
    evs = evs1 ++ EvRx t f :: evs2 /\ nh_run i evs1 = Ok (i1, tf1) /\ fill_cause i1 f k hw).

Check (C16_refresh_is_traffic : forall evs i i' tfr k hw t, nh_run i evs = Ok (i', tfr) ->
  In (CReset k hw t) (nh_log i evs) ->
  exists evs1 f evs2 i1 tf1,
    evs = evs1 ++ EvRx t f :: evs2 /\ nh_run i evs1 = Ok (i1, tf1) /\ refresh_cause i1 f k hw).

Check (C16_route_longest_unexpired : forall l a now g, route_lookup l a now = Some g ->
  exists r, In r l /\ rt_via r = g /\ route_live r a now = true /\
    forall r', In r' l -> route_live r' a now = true ->
               cidr_plen (rt_cidr r') <= cidr_plen (rt_cidr r)).

Check (C16_route_none : forall l a now, route_lookup l a now = None ->
  forall r, In r l -> route_live r a now = false).

Check (C16_no_guess : forall i dst tag now i' fr r,
  nh_dispatch_ip i dst tag now = Ok (i', fr, r) ->
  (exists h, r = DSend h /\ fr = [FIp h dst tag]) \/
  ((r = DNoRoute \/ r = DPending) /\
   (fr = [] \/
    exists n, nh_route i dst now = Some n /\ next_hop_correct i dst now n /\
              neigh_lookup (if_cache i) n now = NotFound /\
              match n with
              | V4 t => fr = [FArpReq ETH_BROADCAST t]
              | V6 t => exists hm, hw_multicast i (V6 (v6_solicited_node t)) = Some hm /\ fr = [FNs hm t]
              end))).

Check (C16_socket_keeps_data : forall i s now i' s' fr sent,
  sim_sock_egress i s now = Ok (i', s', fr, sent) ->
  (sent = true /\ exists dst tag rest h, sk_q s = (dst, tag) :: rest /\ sk_q s' = rest /\ fr = [FIp h dst tag]) \/
  (sent = false /\ sk_q s' = sk_q s /\ no_ip fr /\ (length (requests fr) <= 1)%nat) \/
  (sent = false /\ fr = [] /\ i' = i /\ exists dst tag rest, sk_q s = (dst, tag) :: rest /\ sk_q s' = rest /\
     ((sk_kind s < 2 /\ (exists a, dst = V4 a) /\ nh_has_ipv4_source i = false) \/
      (2 <= sk_kind s /\ ip_is_unspecified dst = true)))).

Check (C16_discovery_rate : forall ether hw cap evs i tfr a t1 b t2 c,
  nh_run (nh_init ether hw cap) evs = Ok (i, tfr) ->
  req_times tfr = a ++ t1 :: b ++ t2 :: c ->
  t1 + 1000000 <= t2).

Check (C16_discovery_not_before_silent_until : forall evs i i' tfr t, nh_run i evs = Ok (i', tfr) ->
  In t (req_times tfr) -> c_silent_until (if_cache i) <= t).

Check (C16_meta_backoff : forall t n now hn,
  fst (meta_egress_permitted (meta_neighbor_missing t n) now hn) = true ->
  hn n = true \/ t + 1000000 <= now).

Check (C16_socket_silenced : forall i s now n su,
  sk_meta s = Waiting n su -> nh_has_neighbor i now n = false -> now < su ->
  sim_sock_egress i s now = Ok (i, s, [], false)).

Check (C16_socket_failed_dispatch_waits : forall i s now i' s' fr dst tag rest,
  sim_sock_egress i s now = Ok (i', s', fr, false) ->
  sk_q s = (dst, tag) :: rest -> sk_q s' = sk_q s ->
  fst (meta_egress_permitted (sk_meta s) now (nh_has_neighbor i now)) = true ->
  sk_meta s' = meta_neighbor_missing now dst).

Check (C16_entry_expires : forall ether hw cap evs i tfr n now, 1 <= cap ->
  nh_run (nh_init ether hw cap) evs = Ok (i, tfr) ->
  (forall h t, In (CFill n h t) (nh_log (nh_init ether hw cap) evs) -> t + 60000000 <= now) ->
  (forall h t, In (CReset n h t) (nh_log (nh_init ether hw cap) evs) -> t + 60000000 <= now) ->
  forall h, neigh_lookup (if_cache i) n now <> Found h).

Check (C16_eviction_smallest_expiry : forall cap c k hw e x, cache_wf cap c ->
  In x (c_storage c) -> fst x <> k ->
  ~ In x (c_storage (neigh_fill_with_expiration cap c k hw e)) ->
  cap <= Z.of_nat (length (c_storage c)) /\
  forall y, In y (c_storage c) -> nb_expires (snd x) <= nb_expires (snd y)).

Check (C16_dispatch_no_panic : forall i dst tag now,
  gateways_unicast i -> ip_is_unspecified dst = false ->
  (if_ether i = true \/ match dst with V4 a => v4_is_multicast a = false | V6 _ => True end) ->
  nh_dispatch_ip i dst tag now <> Panic).

Check (C16_sim_refines_events : forall evs st st' tfr,
  sim_trace st evs = Ok (st', tfr) ->
  exists nevs, nh_run (sim_if st) nevs = Ok (sim_if st', tfr)).

Check (C16_sim_discovery_rate : forall ether hw cap rcap qcap kinds evs st tfr a t1 b t2 c,
  sim_trace (sim_init ether hw cap rcap qcap kinds) evs = Ok (st, tfr) ->
  req_times tfr = a ++ t1 :: b ++ t2 :: c ->
  t1 + 1000000 <= t2).

Check (C16_sim_cache_bounded : forall ether hw cap rcap qcap kinds evs st tfr, 1 <= cap ->
  sim_trace (sim_init ether hw cap rcap qcap kinds) evs = Ok (st, tfr) ->
  Z.of_nat (length (c_storage (if_cache (sim_if st)))) <= cap /\
  NoDup (map fst (c_storage (if_cache (sim_if st))))).

Check (C16_backpressure_keeps_everything : forall i s rest now b s1,
  bud_empty b = true -> sim_sock_wants_token i s now = Some s1 ->
  sim_socket_egress i (s :: rest) now b = Ok (i, s1 :: rest, [], false, b) /\
  sk_q s1 = sk_q s /\ sk_kind s1 = sk_kind s).

Check (C16_backpressure_ingress_waits : forall i rx now b, bud_empty b = true ->
  sim_ingress i rx now b = Ok (i, [], rx, b)).

Check (C16_set_hardware_addr : forall i hw,
  (hw_is_unicast i hw = true ->
     exists i', nh_set_hardware_addr i hw = Ok i' /\ if_hw i' = hw /\ if_cache i' = if_cache i /\
                if_addrs i' = if_addrs i /\ if_routes i' = if_routes i /\ if_cap i' = if_cap i) /\
  (hw_is_unicast i hw = false -> nh_set_hardware_addr i hw = Panic)).

Check (C16_example :
  exists i,
    nh_run (nh_init true EX_OWN 2) c16_example_evs =
      Ok (i, [ (0, FArpReq ETH_BROADCAST (ip4 10 0 0 2));
               (200, FIp 0x020000000102 (V4 (ip4 10 0 0 2)) 1);
               (1000000, FArpReq ETH_BROADCAST (ip4 10 0 0 253));
               (1000200, FIp 0x0200000001fd (V4 (ip4 8 8 8 8)) 2);
               (2000000, FArpRep 0x020000000103 (ip4 10 0 0 3));
               (2000002, FArpReq ETH_BROADCAST (ip4 10 0 0 2));
               (6000000, FArpReq ETH_BROADCAST (ip4 10 0 0 254));
               (61999999, FIp 0x020000000103 (V4 (ip4 10 0 0 3)) 5);
               (62000000, FArpReq ETH_BROADCAST (ip4 10 0 0 3)) ]) /\
    nh_log (nh_init true EX_OWN 2) c16_example_evs =
      [ CFlush; CFill (V4 (ip4 10 0 0 2)) 0x020000000102 100;
        CFill (V4 (ip4 10 0 0 253)) 0x0200000001fd 1000100;
        CFill (V4 (ip4 10 0 0 3)) 0x020000000103 2000000 ] /\
    length (c_storage (if_cache i)) = 2%nat /\
    gateways_unicast i).

Check (C16_example_sockets :
  exists st,
    sim_run (sim_init true EX_OWN 8 2 4 [0]) c16_example_sim =
      Ok (st, [ []; []; [FArpReq ETH_BROADCAST (ip4 10 0 0 2)]; [];
                [FArpReq ETH_BROADCAST (ip4 10 0 0 2)]; [];
                [FIp 0x020000000102 (V4 (ip4 10 0 0 2)) 7]; [] ]) /\
    sim_qlens st = [0]).

Check (C16_generated_constants :
  neigh_ENTRY_LIFETIME = 60000000 /\ neigh_SILENT_TIME = 1000000 /\
  meta_DISCOVERY_SILENT_TIME = 1000000 /\ 1 <= neigh_cap /\ 1 <= route_cap).
