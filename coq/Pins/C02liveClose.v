(* Pins: full statements of the C02liveClose theorems; a weakened theorem no longer type-checks here.
   Generated once by tools/mkpins.py from Props/C02liveClose.v and then committed: edit both or neither. *)
From SV Require Import Lib.Base Gen.Consts.
From SV Require Import Model.Seq32 Model.Assembler Model.TcpBuf Model.TcpTypes Model.Tcp Model.TcpNet.
From SV Require Import Proofs.TcpSendBase Proofs.TcpLiveBase Proofs.TcpLiveProofs Proofs.TcpLiveMore Proofs.TcpLiveProgress.
From SV Require Import Proofs.TcpNetBase.
From SV Require Import Proofs.TcpProgressBase Proofs.TcpProgressFrame Proofs.TcpProgressCtl Proofs.TcpProgressHs Proofs.TcpProgressHsD Proofs.TcpProgressCl1 Proofs.TcpProgressCl2.
From SV Require Import Props.C02liveClose.

Check (C02live_fin_received_in_order : forall cx s ip r s' rep tags,
  (s_state s = Established \/ s_state s = FinWait2) ->
  s_syn_unacked_in_fin_wait s = false -> rb_len (s_tx_buffer s) = 0 -> s_keep_alive s = None ->
  0 <= s_local_seq_no s < 4294967296 -> s_remote_last_seq s = s_local_seq_no s -> s_timer s = TIdle None ->
  r_control r = CFin -> r_payload r = [] -> r_seq_number r = tcp_window_start s ->
  r_ack_number r = Some (s_local_seq_no s) ->
  tcp_process cx s ip r = Ok (s', rep, tags) ->
  rep = None /\
  s_state s' = (if tcp_state_eqb (s_state s) Established then CloseWait else TimeWait) /\
  s_timer s' = (if tcp_state_eqb (s_state s) Established then TIdle None else TClose (cx_now cx + tcp_CLOSE_DELAY)) /\
  s_tuple s' = s_tuple s /\ s_tx_buffer s' = s_tx_buffer s /\
  s_local_seq_no s' = s_local_seq_no s /\ s_remote_last_seq s' = s_remote_last_seq s /\
  tcp_window_start s' = seq_add (tcp_window_start s) 1 /\ s_rx_fin_received s' = true /\
  s_remote_last_ack s' = s_remote_last_ack s /\ s_remote_last_win s' = s_remote_last_win s /\
  s_remote_win_shift s' = s_remote_win_shift s /\ s_rx_buffer s' = s_rx_buffer s /\
  auxf s' s /\ xpf s' s /\ rt_max_seq_sent (s_rtte s') = rt_max_seq_sent (s_rtte s)).

Check (C02live_ack_of_fin_received : forall cx s ip r s' rep tags,
  (s_state s = FinWait1 \/ s_state s = LastAck) ->
  s_syn_unacked_in_fin_wait s = false -> rb_len (s_tx_buffer s) = 0 -> s_keep_alive s = None ->
  0 <= s_local_seq_no s < 4294967296 ->
  (s_remote_last_seq s = s_local_seq_no s \/ s_remote_last_seq s = seq_add (s_local_seq_no s) 1) ->
  (timer_is_idle (s_timer s) = true \/ exists e, s_timer s = TRetransmit e) ->
  (r_control r = CNone \/ r_control r = CPsh) -> r_payload r = [] -> r_seq_number r = tcp_window_start s ->
  r_ack_number r = Some (seq_add (s_local_seq_no s) 1) ->
  tcp_process cx s ip r = Ok (s', rep, tags) ->
  rep = None /\
  s_state s' = (if tcp_state_eqb (s_state s) FinWait1 then FinWait2 else Closed) /\
  s_tuple s' = (if tcp_state_eqb (s_state s) FinWait1 then s_tuple s else None) /\
  s_timer s' = TIdle None /\ s_tx_buffer s' = s_tx_buffer s /\
  s_local_seq_no s' = seq_add (s_local_seq_no s) 1 /\ s_remote_last_seq s' = seq_add (s_local_seq_no s) 1 /\
  TcpRecvInv.rxv_eq s' s /\ auxf s' s /\ xpf s' s /\ rt_max_seq_sent (s_rtte s') = rt_max_seq_sent (s_rtte s)).

Check (C02live_fin_transmitted_and_retransmitted : forall cx s t s' res tags,
  ctl_sock cx s t -> (s_state s = FinWait1 \/ s_state s = LastAck) ->
  ((s_remote_last_seq s = s_local_seq_no s /\ s_timer s = TIdle None) \/
   (exists e, s_timer s = TRetransmit e /\ e <= cx_now cx)) ->
  tcp_dispatch cx s true = Ok (s', res, tags) ->
  exists p, res = DSent p /\ fin_sent cx s s' t p).

Check (C02live_ack_of_fin_transmitted : forall cx s t s' res tags,
  ctl_sock cx s t -> (s_state s = CloseWait \/ s_state s = TimeWait) ->
  s_remote_last_seq s = s_local_seq_no s ->
  (s_timer s = TIdle None \/ exists e, s_timer s = TClose e) ->
  tcp_ack_to_transmit s = true -> tcp_delayed_ack_expired s (cx_now cx) = true ->
  tcp_dispatch cx s true = Ok (s', res, tags) ->
  exists p, res = DSent p /\ ack_sent cx s s' t p).

Check (C02live_quiet_dispatch_and_time_wait_expiry : forall cx s t ok s' res tags,
  ctl_sock cx s t -> st_sync (s_state s) ->
  (s_remote_last_seq s = s_local_seq_no s \/ s_remote_last_seq s = seq_add (s_local_seq_no s) 1) ->
  want_fin (s_state s) && (s_remote_last_seq s =? s_local_seq_no s) = false ->
  timer_should_retransmit (s_timer s) (cx_now cx) = false ->
  timer_should_keep_alive (s_timer s) (cx_now cx) = false ->
  timer_should_zero_window_probe (s_timer s) (cx_now cx) = false ->
  tcp_ack_to_transmit s = false -> tcp_window_to_update s = Ok false ->
  tcp_dispatch cx s ok = Ok (s', res, tags) ->
  res = DNothing /\
  ((timer_should_close (s_timer s) (cx_now cx) = false /\ s' = dt_pre cx s) \/
   (timer_should_close (s_timer s) (cx_now cx) = true /\
    s' = upd_tuple (tcp_set_state (dt_pre cx s) Closed) None))).
