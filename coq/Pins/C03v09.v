(* Pins: full statements of the C03v09 theorems; a weakened theorem no longer type-checks here.
   Generated once by tools/mkpins.py from Props/C03v09.v and then committed: edit both or neither. *)
From SV Require Import Lib.Base Gen.Consts Model.DgramQueue Model.Dgram Proofs.DgramProofs.
From SV Require Import Props.C09.
From SV Require Import Props.C03v09.

Check (C03_via_C09_no_panic : forall ev s ops,
  sock_is_new s -> Forall op_args_ok ops -> is_panic (sock_run ev s ops) = false).
