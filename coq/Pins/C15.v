(* Pins: full statements of the C15 theorems; a weakened theorem no longer type-checks here.
   Generated once by tools/mkpins.py from Props/C15.v and then committed: edit both or neither. *)
From SV Require Import Lib.Base Gen.Consts Model.Assembler Proofs.AssemblerProofs.
From SV Require Import Props.C15.

Check (C15_invariant_all_sequences : forall n ops,
  1 <= n -> Forall op_args_ok ops ->
  let l := asm_run n asm_new ops in
  asm_wf l /\ Z.of_nat (length l) <= n /\
  Z.of_nat (length (asm_iter_data l)) <= n /\ ranges_canonical 0 false (asm_iter_data l)).

Check (C15_add_union : forall n l o s l',
  asm_wf l -> 0 <= o -> 0 <= s -> asm_add n l o s = (l', true) ->
  asm_wf l' /\ forall x, tracked l' x <-> tracked l x \/ o <= x < o + s).

Check (C15_add_refused_only_when_too_many : forall n l o s l',
  asm_wf l -> Z.of_nat (length l) <= n -> 0 <= o -> 0 <= s ->
  asm_add n l o s = (l', false) ->
  l' = l /\
  forall u, asm_wf u -> (forall x, tracked u x <-> tracked l x \/ o <= x < o + s) ->
            Z.of_nat (length u) > n).

Check (C15_add_accepts_when_fits : forall n l o s u,
  asm_wf l -> 0 <= o -> 0 <= s ->
  asm_wf u -> (forall x, tracked u x <-> tracked l x \/ o <= x < o + s) ->
  Z.of_nat (length u) <= n ->
  snd (asm_add n l o s) = true).

Check (C15_canonical : forall l1 l2,
  asm_wf l1 -> asm_wf l2 -> (forall x, amem 0 l1 x <-> amem 0 l2 x) -> l1 = l2).

Check (C15_remove_front : forall l l' r,
  asm_wf l -> asm_remove_front l = (l', r) ->
  asm_wf l' /\ 0 <= r /\
  (r = 0 -> l' = l /\ ~ tracked l 0) /\
  (0 < r -> (forall x, 0 <= x < r -> tracked l x) /\ ~ tracked l r /\
            forall x, tracked l' x <-> tracked l (x + r) /\ 0 <= x)).

Check (C15_add_then_remove_front : forall n l o s l' res,
  asm_wf l -> Z.of_nat (length l) <= n -> 1 <= n -> 0 <= o -> 0 <= s ->
  asm_atrf n l o s = (l', res) ->
  match res with
  | Some r =>
      exists u, asm_wf u /\ (forall x, tracked u x <-> tracked l x \/ o <= x < o + s) /\
                asm_remove_front u = (l', r)
  | None =>
      o <> 0 /\ l' = l /\
      forall u, asm_wf u -> (forall x, tracked u x <-> tracked l x \/ o <= x < o + s) ->
                Z.of_nat (length u) > n
  end).

Check (C15_atrf_offset0_never_fails : forall n l s,
  asm_wf l -> Z.of_nat (length l) <= n -> 1 <= n -> 0 <= s ->
  snd (asm_atrf n l 0 s) <> None).

Check (C15_clear : forall l, asm_clear l = asm_new /\ forall x, ~ tracked asm_new x).

Check (C15_example :
  let l := asm_run 4 asm_new c15_example_ops in
  asm_iter_data l = [(2, 4); (6, 7); (10, 13); (20, 25)] /\
  asm_wf l /\ Z.of_nat (length l) <= 4 /\
  snd (asm_add 4 l 15 1) = false /\
  asm_atrf 4 l 0 1 = ([mkContig 1 2; mkContig 2 1; mkContig 3 3; mkContig 7 5], Some 1) /\
  snd (asm_atrf 4 l 0 2) = Some 4).

Check (C15_configured_capacity : 1 <= cfg_ASSEMBLER_MAX_SEGMENT_COUNT).
