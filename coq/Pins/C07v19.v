(* Pins: full statements of the C07v19 theorems; a weakened theorem no longer type-checks here.
   Generated once by tools/mkpins.py from Props/C07v19.v and then committed: edit both or neither. *)
From SV Require Import Lib.Base Gen.Consts Gen.WireFields Model.WireDns Model.Dns Proofs.WireDnsProofs Proofs.DnsProofs.
From SV Require Import Props.C19.
From SV Require Import Props.C07v19.

Check (C07_via_C19_parse_name_terminates : forall packet bytes, nm_no_fuel (wdns_parse_name packet bytes)).

Check (C07_via_C19_parse_name_no_panic : forall packet bytes,
  Forall wdns_is_byte packet -> Forall wdns_is_byte bytes ->
  nm_no_panic (wdns_parse_name packet bytes)).

Check (C07_via_C19_wire_parsers_total : forall buffer,
  (wdns_question_parse buffer <> Panic /\ wdns_question_parse buffer <> Err wdns_E_FUEL) /\
  (wdns_record_parse buffer <> Panic /\ wdns_record_parse buffer <> Err wdns_E_FUEL) /\
  (wdns_parse_name_part buffer <> Panic /\ wdns_parse_name_part buffer <> Err wdns_E_FUEL)).
