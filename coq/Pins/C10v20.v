(* Pins: full statements of the C10v20 theorems; a weakened theorem no longer type-checks here.
   Generated once by tools/mkpins.py from Props/C10v20.v and then committed: edit both or neither. *)
From SV Require Import Lib.Base Gen.Consts Gen.WireFields Model.WireBase Model.WireSixFrag Model.WireNhc.
From SV Require Import Model.Assembler Model.LowpanFrag Model.WireIphc Model.Lowpan.
From SV Require Import Proofs.WireBaseProofs Proofs.AssemblerProofs Proofs.LowpanWireProofs Proofs.LowpanFragProofs.
From SV Require Import Proofs.LowpanIphcBitsProofs Proofs.LowpanIphcProofs Proofs.LowpanProofs.
From SV Require Import Props.C20.
From SV Require Import Props.C10v20.

Check (C10_via_C20_nhc_udp_roundtrip_verified : forall r src dst payload ck,
  nhc_ports_wf r = true -> is_arr 16 src = true -> is_arr 16 dst = true ->
  bytes_ok payload = true -> blen payload < 65528 ->
  nhc_udp_cksum src dst (np_src r) (np_dst r) payload = Ok ck ->
  nhc_udp_parse (nhc_udp_hdr_bytes r (nhc_ck_tx ck) ++ payload) src dst true = Ok r).

Check (C10_via_C20_frag_send_structure : forall ieee_len c chdr uhdr payload_length tag frames,
  5 <= ieee_len <= 21 -> 0 <= chdr <= uhdr -> lpf_needs_frag (blen c) ieee_len = true ->
  blen c <= lpf_BUFFER -> blen c + (uhdr - chdr) < 2048 ->
  lpf_send ieee_len c chdr uhdr payload_length tag = Ok frames ->
  let hd := uhdr - chdr in
  exists f1 fs, frames = f1 :: fs /\
    fr_hdr f1 = Some (SfFirst ((payload_length + lpf_IPV6_HDR) mod 65536) tag) /\
    fr_payload f1 = firstn (Z.to_nat (blen (fr_payload f1))) c /\
    0 < blen (fr_payload f1) < blen c /\ (blen (fr_payload f1) + hd) mod 8 = 0 /\
    (forall f, In f fs -> exists p n,
        fr_hdr f = Some (SfNext ((payload_length + lpf_IPV6_HDR) mod 65536) tag ((p + hd) / 8)) /\
        (p + hd) / 8 * 8 = p + hd /\ 0 <= (p + hd) / 8 < 256 /\ blen (fr_payload f1) <= p /\
        0 < n <= lpf_fn ieee_len /\ p + n <= blen c /\ (p + n < blen c -> n = lpf_fn ieee_len) /\
        fr_payload f = firstn (Z.to_nat n) (skipn (Z.to_nat p) c)) /\
    lpf_fn ieee_len mod 8 = 0 /\
    concat (map fr_payload frames) = c /\
    Forall (fun f => lpf_frame_len ieee_len f <= lpf_MAX_FRAME) frames).

Check (C10_via_C20_unfragmented_frame_fits : forall ieee_len c chdr uhdr payload_length tag,
  lpf_needs_frag (blen c) ieee_len = false ->
  lpf_send ieee_len c chdr uhdr payload_length tag = Ok [mkFrame None c] /\
  lpf_frame_len ieee_len (mkFrame None c) <= lpf_MAX_FRAME).

Check (C10_via_C20_iphc_roundtrip : forall r b ctx,
  iphc_repr_wf r = true -> bytes_ok b = true -> blen (iphc_bytes r) <= blen b ->
  iphc_buffer_len r = Ok (blen (iphc_bytes r)) /\
  iphc_emit r b = Ok (iphc_bytes r ++ skipn (Z.to_nat (blen (iphc_bytes r))) b) /\
  iphc_parse (iphc_bytes r ++ skipn (Z.to_nat (blen (iphc_bytes r))) b) (ir_ll_src r) (ir_ll_dst r) ctx = Ok r /\
  iphc_payload (iphc_bytes r ++ skipn (Z.to_nat (blen (iphc_bytes r))) b) = Ok (skipn (Z.to_nat (blen (iphc_bytes r))) b)).
