(* Pins: full statements of the C18 theorems; a weakened theorem no longer type-checks here.
   Generated once by tools/mkpins.py from Props/C18.v and then committed: edit both or neither. *)
From SV Require Import Lib.Base Gen.Consts Model.Dhcp Proofs.DhcpProofs.
From SV Require Import Props.C18.

Check (C18_invariant_all_histories : forall hw calls, Forall call_typed calls ->
  dhcp_inv hw (fst (dhcp_run hw calls)) (snd (dhcp_run hw calls))).

Check (C18_configured_only_by_valid_ack : forall hw calls, Forall call_typed calls ->
  forall c pk, snd (dhcp_poll (fst (dhcp_run hw calls))) = Some (EvConfigured c pk) ->
  exists calls1 calls2 t src sp dp r l,
    calls = calls1 ++ CProcess t src sp dp (Some r) :: calls2 /\
    ack_received_by hw calls1 (CProcess t src sp dp (Some r)) = Some (t, r, l) /\
    cfg_from_ack c r /\
    ack_clauses hw r /\
    (exists calls0 d calls01, calls1 = calls0 ++ d :: calls01 /\
        request_sent_by hw calls0 d = Some (r_transaction_id r) /\
        forall x d' y, calls01 = x ++ d' :: y -> request_sent_by hw (calls0 ++ d :: x) d' = None) /\
    (forall x d' y, calls2 = x ++ d' :: y ->
        ack_received_by hw (calls1 ++ CProcess t src sp dp (Some r) :: x) d' = None)).

Check (C18_ack_clauses_meaning : forall hw pre c t r l,
  ack_received_by hw pre c = Some (t, r, l) ->
  (exists src sp dp, c = CProcess t src sp dp (Some r)) /\
  (r_message_type r = MtAck /\
   r_client_hardware_address r = hw /\
   (exists sid, r_server_identifier r = Some sid) /\
   (exists mask p, r_subnet_mask r = Some mask /\ 0 <= p <= 32 /\ mask = ip_netmask p) /\
   ip_x_is_unicast (r_your_ip r) = true) /\
  m_last_req (snd (dhcp_run hw pre)) = Some (r_transaction_id r) /\
  l = dhcp_lease_duration r (m_max_lease (snd (dhcp_run hw pre)))).

Check (C18_lease_bound : forall hw calls, Forall call_typed calls ->
  forall cfg ra rb rbg e, ds_state (fst (dhcp_run hw calls)) = Renewing cfg ra rb rbg e ->
  exists calls1 calls2 t src sp dp r l,
    calls = calls1 ++ CProcess t src sp dp (Some r) :: calls2 /\
    ack_received_by hw calls1 (CProcess t src sp dp (Some r)) = Some (t, r, l) /\
    (forall x d' y, calls2 = x ++ d' :: y ->
        ack_received_by hw (calls1 ++ CProcess t src sp dp (Some r) :: x) d' = None) /\
    cfg_from_ack cfg r /\
    l = dhcp_lease_duration r (m_max_lease (snd (dhcp_run hw calls1))) /\
    e = t + l /\ dhcp_poll_at (fst (dhcp_run hw calls)) <= e).

Check (C18_expiry_deconfigures : forall s cfg ra rb rbg e mtu now xid emit s' res,
  ds_state s = Renewing cfg ra rb rbg e -> e <= now ->
  dhcp_dispatch mtu now xid emit s = Ok (s', res) ->
  (exists ra', ds_state s' = Discovering ra') /\
  snd (dhcp_poll s') = Some EvDeconfigured /\
  (0 <= now -> (forall f, emit f = true) -> exists f, res = DrSent f /\ tx_message_type f = MtDiscover)).

Check (C18_t1_t2_order_all_values : forall now r ml server c ra rb e,
  repr_typed r -> (forall m, ml = Some m -> 0 <= m) ->
  dhcp_parse_ack now r ml server = Ok (Some (c, ra, rb, e)) ->
  now <= ra /\ ra <= rb /\ rb <= e /\ e = now + dhcp_lease_duration r ml).

Check (C18_renew_before_rebind_before_expiry : forall hw calls, Forall call_typed calls ->
  forall cfg ra rb rbg e, ds_state (fst (dhcp_run hw calls)) = Renewing cfg ra rb rbg e ->
  (rbg = false -> ra <= rb /\ rb <= e) /\
  forall mtu now xid emit s' f,
    dhcp_dispatch mtu now xid emit (fst (dhcp_run hw calls)) = Ok (s', DrSent f) ->
    tx_message_type f = MtRequest ->
    now < e /\
    exists ra' rb', ds_state s' = Renewing cfg ra' rb' (rbg || (rb <=? now)) e /\
      if rbg || (rb <=? now)
      then tx_dst_addr f = ip_BROADCAST
      else ra <= now /\ now < rb /\ tx_dst_addr f = si_address (cf_server cfg) /\ ra' <= rb /\ rb' = rb).

Check (C18_solicits_at_bounded_intervals : forall hw calls, Forall call_typed calls ->
  let s := fst (dhcp_run hw calls) in let m := snd (dhcp_run hw calls) in
  dhcp_unconfigured s -> dhcp_poll_at s <= Z.max (m_clock m) (m_deadline m)).

Check (C18_solicit_when_due : forall s mtu now xid emit s' res,
  dhcp_unconfigured s -> retry_cfg_typed (ds_retry_config s) ->
  (match ds_state s with Requesting _ retry _ _ => 0 <= retry | _ => True end) ->
  dhcp_poll_at s <= now -> 0 <= now -> (forall f, emit f = true) ->
  dhcp_dispatch mtu now xid emit s = Ok (s', res) ->
  exists f, res = DrSent f /\ tx_client_ip f = 0 /\ tx_dst_addr f = ip_BROADCAST /\
    (tx_message_type f = MtDiscover \/ tx_message_type f = MtRequest) /\
    dhcp_unconfigured s' /\ dhcp_poll_at s' <= now + solicit_bound (ds_retry_config s)).

Check (C18_no_panic : forall hw calls c,
  Forall call_sane calls -> ports_ok hw [] calls ->
  call_sane c -> ports_match (fst (dhcp_run hw calls)) c ->
  dhcp_call_step hw (fst (dhcp_run hw calls)) c <> Panic).

Check (C18_dispatch_no_panic : forall hw calls mtu now xid emit,
  Forall call_sane calls -> ports_ok hw [] calls ->
  time_ok now -> dhcp_MAX_IPV4_HEADER_LEN + wudp_HEADER_LEN <= mtu ->
  dhcp_dispatch mtu now xid emit (fst (dhcp_run hw calls)) <> Panic).

Check (C18_shift_overflow_reachable :
  Forall call_typed ex_overflow_calls /\
  dhcp_call_step 1 (fst (dhcp_run 1 ex_overflow_calls)) (CDispatch 1500 0 78 true) = Panic).

Check (C18_iface_expiry_deconfigures_unless_silenced : forall xid_of hw mtu apply now i cfg ra rb rbg e i' obs,
  ds_state (if_sock i) = Renewing cfg ra rb rbg e -> e <= now ->
  if_rxq i = [] ->
  ~ dhif_silenced i now ->
  dhif_poll xid_of hw mtu apply now i = (i', obs) -> obs <> [ObPanic] ->
  In (ObEvent (Some EvDeconfigured)) obs).

Check (C18_iface_expiry_refuted_when_silenced :
  (exists cfg ra rb rbg, ds_state (if_sock ex_d14b_state) = Renewing cfg ra rb rbg 10002000) /\
  if_rxq ex_d14b_state = [] /\
  dhif_silenced ex_d14b_state 10002000 /\
  snd (dhif_poll ex_xid_of 1 1500 true 10002000 ex_d14b_state) = [ObEvent None; ObPollAt 10500000]).

Check (C18_reset_and_setters_never_extend_lease : forall s,
  ds_state (dhcp_reset s) = Discovering 0 /\
  (forall cfg ra rb rbg e, ds_state s = Renewing cfg ra rb rbg e ->
     snd (dhcp_poll (dhcp_reset s)) = Some EvDeconfigured) /\
  (forall sp cp, ds_state (dhcp_set_ports s sp cp) = ds_state s /\
                 ds_config_changed (dhcp_set_ports s sp cp) = ds_config_changed s) /\
  (forall m, ds_state (dhcp_set_max_lease_duration s m) = ds_state s /\
             ds_config_changed (dhcp_set_max_lease_duration s m) = ds_config_changed s) /\
  (forall c, ds_state (dhcp_set_retry_config s c) = ds_state s /\
             ds_config_changed (dhcp_set_retry_config s c) = ds_config_changed s) /\
  (forall b, ds_state (dhcp_set_ignore_naks s b) = ds_state s /\
             ds_config_changed (dhcp_set_ignore_naks s b) = ds_config_changed s) /\
  (ds_state (dhcp_set_receive_packet_buffer s) = ds_state s /\
   ds_config_changed (dhcp_set_receive_packet_buffer s) = ds_config_changed s)).

Check (C18_example :
  Forall call_typed ex_calls /\ Forall call_sane ex_calls /\ ports_ok 1 [] ex_calls /\
  map dhcp_ret_summary (dhcp_rets 1 dhcp_new ex_calls) =
    [ (1, 77, ip_BROADCAST); (20, 0, 0); (3, 77, ip_BROADCAST); (20, 0, 0); (10, ex_ip, 24);
      (0, 0, 0); (3, 79, ex_srv); (3, 80, ip_BROADCAST); (0, 0, 0); (1, 81, ip_BROADCAST); (11, 0, 0) ] /\
  m_ack (snd (dhcp_run 1 ex_calls)) = Some (2000, ex_ack, 10000000) /\
  m_last_req (snd (dhcp_run 1 ex_calls)) = Some 80).
