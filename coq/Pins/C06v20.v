(* Pins: full statements of the C06v20 theorems; a weakened theorem no longer type-checks here.
   Generated once by tools/mkpins.py from Props/C06v20.v and then committed: edit both or neither. *)
From SV Require Import Lib.Base Gen.Consts Gen.WireFields Model.WireBase Model.WireSixFrag Model.WireNhc.
From SV Require Import Model.Assembler Model.LowpanFrag Model.WireIphc Model.Lowpan.
From SV Require Import Proofs.WireBaseProofs Proofs.AssemblerProofs Proofs.LowpanWireProofs Proofs.LowpanFragProofs.
From SV Require Import Proofs.LowpanIphcBitsProofs Proofs.LowpanIphcProofs Proofs.LowpanProofs.
From SV Require Import Props.C20.
From SV Require Import Props.C06v20.

Check (C06_via_C20_frag_hdr_roundtrip : forall r b,
  sixfrag_wf r = true -> bytes_ok b = true -> sixfrag_buffer_len r <= blen b ->
  exists bs, sixfrag_emit r b = Ok bs /\ blen bs = blen b /\
             firstn (Z.to_nat (sixfrag_buffer_len r)) bs = sixfrag_bytes r /\
             skipn (Z.to_nat (sixfrag_buffer_len r)) bs = skipn (Z.to_nat (sixfrag_buffer_len r)) b /\
             sixfrag_parse bs = Ok r /\
             sixfrag_payload bs = Ok (skipn (Z.to_nat (sixfrag_buffer_len r)) b)).

Check (C06_via_C20_frag_hdr_emit_ignores_old_bytes : forall r b1 b2,
  sixfrag_wf r = true -> bytes_ok b1 = true -> bytes_ok b2 = true ->
  sixfrag_buffer_len r <= blen b1 -> sixfrag_buffer_len r <= blen b2 ->
  omap (firstn (Z.to_nat (sixfrag_buffer_len r))) (sixfrag_emit r b1) =
  omap (firstn (Z.to_nat (sixfrag_buffer_len r))) (sixfrag_emit r b2)).

Check (C06_via_C20_nhc_udp_roundtrip : forall r src dst payload b,
  nhc_ports_wf r = true -> is_arr 16 src = true -> is_arr 16 dst = true ->
  bytes_ok payload = true -> blen payload < 65528 ->
  bytes_ok b = true -> blen b = nhc_udp_header_len r + blen payload ->
  exists ck bs,
    nhc_udp_cksum src dst (np_src r) (np_dst r) payload = Ok ck /\
    nhc_udp_emit r src dst payload true b = Ok bs /\
    bs = nhc_udp_hdr_bytes r (nhc_ck_tx ck) ++ payload /\
    nhc_udp_parse bs src dst false = Ok r /\
    nhc_udp_payload bs = Ok payload /\
    nhc_udp_checksum bs = Ok (Some (nhc_ck_tx ck))).

Check (C06_via_C20_nhc_udp_emit_ignores_old_bytes : forall r src dst payload b1 b2,
  nhc_ports_wf r = true -> is_arr 16 src = true -> is_arr 16 dst = true ->
  bytes_ok payload = true -> blen payload < 65528 ->
  bytes_ok b1 = true -> bytes_ok b2 = true ->
  blen b1 = nhc_udp_header_len r + blen payload -> blen b2 = nhc_udp_header_len r + blen payload ->
  nhc_udp_emit r src dst payload true b1 = nhc_udp_emit r src dst payload true b2).

Check (C06_via_C20_iphc_roundtrip : forall r b ctx,
  iphc_repr_wf r = true -> bytes_ok b = true -> blen (iphc_bytes r) <= blen b ->
  iphc_buffer_len r = Ok (blen (iphc_bytes r)) /\
  iphc_emit r b = Ok (iphc_bytes r ++ skipn (Z.to_nat (blen (iphc_bytes r))) b) /\
  iphc_parse (iphc_bytes r ++ skipn (Z.to_nat (blen (iphc_bytes r))) b) (ir_ll_src r) (ir_ll_dst r) ctx = Ok r /\
  iphc_payload (iphc_bytes r ++ skipn (Z.to_nat (blen (iphc_bytes r))) b) = Ok (skipn (Z.to_nat (blen (iphc_bytes r))) b)).
