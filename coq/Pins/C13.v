(* Pins: full statements of the C13 theorems; a weakened theorem no longer type-checks here.
   Generated once by tools/mkpins.py from Props/C13.v and then committed: edit both or neither. *)
From SV Require Import Lib.Base Gen.Consts Model.PollAt Proofs.PollAtProofs.
From SV Require Import Props.C13.

Check (C13_iface_poll_at_is_least_deadline : forall socks en s now,
  match iface_poll_at false socks en s now with
  | Some m => In (Some m) (all_deadlines socks en s now) /\
              forall x, In (Some x) (all_deadlines socks en s now) -> m <= x
  | None => forall x, ~ In (Some x) (all_deadlines socks en s now)
  end).

Check (C13_slaac_early_poll_silent : forall cp cr s now now',
  now <= now' -> opt_future now' (slaac_poll_at s now) ->
  snd (slaac_poll cp cr s [] now') = false).

Check (C13_slaac_timer_not_delayed : forall cp cr s now now',
  now <= now' -> snd (slaac_poll cp cr s [] now') = true ->
  exists t, slaac_poll_at s now = Some t /\ t <= now').

Check (C13_slaac_no_spin : forall cp cr s ras now,
  opt_future now (slaac_poll_at (fst (slaac_poll cp cr s ras now)) now)).

Check (C13_slaac_solicitations_bounded : forall cp cr s ras now,
  slaac_counter_ok s ->
  let '(s', sent) := slaac_poll cp cr s ras now in
  slaac_counter_ok s' /\
  sl_num_solicitations s' = sl_num_solicitations s - (if sent then 1 else 0)).

Check (C13_iface_early_poll_silent : forall (comps : list (option Z * bool)) now',
  opt_future now' (opt_min_list (map fst comps)) ->
  Forall (comp_sound now') comps ->
  Forall (fun c => snd c = false) comps).

Check (C13_iface_no_spin : forall socks en s now,
  Forall (fun p => opt_future now (pollat_instant p)) socks ->
  (en = true -> opt_future now (slaac_poll_at s now)) ->
  opt_future now (iface_poll_at false socks en s now)).

Check (C13_poll_delay : forall pa now,
  match iface_poll_delay pa now with
  | Some d => 0 <= d /\ (0 < d <-> opt_future now pa /\ pa <> None) /\
              (forall t, pa = Some t -> now < t -> now + d = t)
  | None => pa = None
  end).

Check (C13_example :
  c13_example_run =
  [(0, true, Some 4000000); (4000000, true, Some 8000000); (8000000, true, None);
   (12000000, false, None); (13000000, false, Some 43000000)]).
