(* Pins: full statements of the C20 theorems; a weakened theorem no longer type-checks here.
   Generated once by tools/mkpins.py from Props/C20.v and then committed: edit both or neither. *)
From SV Require Import Lib.Base Gen.Consts Gen.WireFields Model.WireBase Model.WireSixFrag Model.WireNhc.
From SV Require Import Proofs.WireBaseProofs Proofs.LowpanWireProofs.
From SV Require Import Props.C20.

Check (C20_frag_hdr_roundtrip : forall r b,
  sixfrag_wf r = true -> bytes_ok b = true -> sixfrag_buffer_len r <= blen b ->
  exists bs, sixfrag_emit r b = Ok bs /\ blen bs = blen b /\
             firstn (Z.to_nat (sixfrag_buffer_len r)) bs = sixfrag_bytes r /\
             skipn (Z.to_nat (sixfrag_buffer_len r)) bs = skipn (Z.to_nat (sixfrag_buffer_len r)) b /\
             sixfrag_parse bs = Ok r /\
             sixfrag_payload bs = Ok (skipn (Z.to_nat (sixfrag_buffer_len r)) b)).

Check (C20_frag_hdr_emit_ignores_old_bytes : forall r b1 b2,
  sixfrag_wf r = true -> bytes_ok b1 = true -> bytes_ok b2 = true ->
  sixfrag_buffer_len r <= blen b1 -> sixfrag_buffer_len r <= blen b2 ->
  omap (firstn (Z.to_nat (sixfrag_buffer_len r))) (sixfrag_emit r b1) =
  omap (firstn (Z.to_nat (sixfrag_buffer_len r))) (sixfrag_emit r b2)).

Check (C20_frag_hdr_parse_no_panic : forall b,
  sixlowpan_dispatch b <> Panic /\ sixfrag_new_checked b <> Panic /\ sixfrag_parse b <> Panic).

Check (C20_frag_hdr_accessors_safe : forall b, sixfrag_new_checked b = Ok tt ->
  sixfrag_datagram_size b <> Panic /\ sixfrag_datagram_tag b <> Panic /\
  sixfrag_datagram_offset b <> Panic /\ sixfrag_is_first b <> Panic /\ sixfrag_payload b <> Panic).

Check (C20_nhc_udp_roundtrip : forall r src dst payload b,
  nhc_ports_wf r = true -> is_arr 16 src = true -> is_arr 16 dst = true ->
  bytes_ok payload = true -> blen payload < 65528 ->
  bytes_ok b = true -> blen b = nhc_udp_header_len r + blen payload ->
  exists ck bs,
    nhc_udp_cksum src dst (np_src r) (np_dst r) payload = Ok ck /\
    nhc_udp_emit r src dst payload true b = Ok bs /\
    bs = nhc_udp_hdr_bytes r (nhc_ck_tx ck) ++ payload /\
    nhc_udp_parse bs src dst false = Ok r /\
    nhc_udp_payload bs = Ok payload /\
    nhc_udp_checksum bs = Ok (Some (nhc_ck_tx ck))).

Check (C20_nhc_udp_emit_ignores_old_bytes : forall r src dst payload b1 b2,
  nhc_ports_wf r = true -> is_arr 16 src = true -> is_arr 16 dst = true ->
  bytes_ok payload = true -> blen payload < 65528 ->
  bytes_ok b1 = true -> bytes_ok b2 = true ->
  blen b1 = nhc_udp_header_len r + blen payload -> blen b2 = nhc_udp_header_len r + blen payload ->
  nhc_udp_emit r src dst payload true b1 = nhc_udp_emit r src dst payload true b2).

Check (C20_nhc_udp_roundtrip_verified : forall r src dst payload ck,
  nhc_ports_wf r = true -> is_arr 16 src = true -> is_arr 16 dst = true ->
  bytes_ok payload = true -> blen payload < 65528 ->
  nhc_udp_cksum src dst (np_src r) (np_dst r) payload = Ok ck ->
  nhc_udp_parse (nhc_udp_hdr_bytes r (nhc_ck_tx ck) ++ payload) src dst true = Ok r).

Check (C20_nhc_udp_parse_no_panic : forall b src dst rx, blen b < 65528 ->
  nhc_dispatch b <> Panic /\ nhc_udp_check_len b <> Panic /\ nhc_udp_parse b src dst rx <> Panic /\
  (nhc_udp_check_len b = Ok tt ->
     nhc_udp_src_port b <> Panic /\ nhc_udp_dst_port b <> Panic /\ nhc_udp_checksum b <> Panic /\
     nhc_udp_payload b <> Panic /\ nhc_udp_dispatch_field b <> Panic)).
