(* Pins: full statements of the C20 theorems; a weakened theorem no longer type-checks here.
   Generated once by tools/mkpins.py from Props/C20.v and then committed: edit both or neither. *)
From SV Require Import Lib.Base Gen.Consts Gen.WireFields Model.WireBase Model.WireSixFrag Model.WireNhc.
From SV Require Import Model.Assembler Model.LowpanFrag Model.WireIphc Model.Lowpan.
From SV Require Import Proofs.WireBaseProofs Proofs.AssemblerProofs Proofs.LowpanWireProofs Proofs.LowpanFragProofs.
From SV Require Import Proofs.LowpanIphcBitsProofs Proofs.LowpanIphcProofs Proofs.LowpanProofs.
From SV Require Import Props.C20.

Check (C20_frag_hdr_roundtrip : forall r b,
  sixfrag_wf r = true -> bytes_ok b = true -> sixfrag_buffer_len r <= blen b ->
  exists bs, sixfrag_emit r b = Ok bs /\ blen bs = blen b /\
             firstn (Z.to_nat (sixfrag_buffer_len r)) bs = sixfrag_bytes r /\
             skipn (Z.to_nat (sixfrag_buffer_len r)) bs = skipn (Z.to_nat (sixfrag_buffer_len r)) b /\
             sixfrag_parse bs = Ok r /\
             sixfrag_payload bs = Ok (skipn (Z.to_nat (sixfrag_buffer_len r)) b)).

Check (C20_frag_hdr_emit_ignores_old_bytes : forall r b1 b2,
  sixfrag_wf r = true -> bytes_ok b1 = true -> bytes_ok b2 = true ->
  sixfrag_buffer_len r <= blen b1 -> sixfrag_buffer_len r <= blen b2 ->
  omap (firstn (Z.to_nat (sixfrag_buffer_len r))) (sixfrag_emit r b1) =
  omap (firstn (Z.to_nat (sixfrag_buffer_len r))) (sixfrag_emit r b2)).

Check (C20_frag_hdr_parse_no_panic : forall b,
  sixlowpan_dispatch b <> Panic /\ sixfrag_new_checked b <> Panic /\ sixfrag_parse b <> Panic).

Check (C20_frag_hdr_accessors_safe : forall b, sixfrag_new_checked b = Ok tt ->
  sixfrag_datagram_size b <> Panic /\ sixfrag_datagram_tag b <> Panic /\
  sixfrag_datagram_offset b <> Panic /\ sixfrag_is_first b <> Panic /\ sixfrag_payload b <> Panic).

Check (C20_nhc_udp_roundtrip : forall r src dst payload b,
  nhc_ports_wf r = true -> is_arr 16 src = true -> is_arr 16 dst = true ->
  bytes_ok payload = true -> blen payload < 65528 ->
  bytes_ok b = true -> blen b = nhc_udp_header_len r + blen payload ->
  exists ck bs,
    nhc_udp_cksum src dst (np_src r) (np_dst r) payload = Ok ck /\
    nhc_udp_emit r src dst payload true b = Ok bs /\
    bs = nhc_udp_hdr_bytes r (nhc_ck_tx ck) ++ payload /\
    nhc_udp_parse bs src dst false = Ok r /\
    nhc_udp_payload bs = Ok payload /\
    nhc_udp_checksum bs = Ok (Some (nhc_ck_tx ck))).

Check (C20_nhc_udp_emit_ignores_old_bytes : forall r src dst payload b1 b2,
  nhc_ports_wf r = true -> is_arr 16 src = true -> is_arr 16 dst = true ->
  bytes_ok payload = true -> blen payload < 65528 ->
  bytes_ok b1 = true -> bytes_ok b2 = true ->
  blen b1 = nhc_udp_header_len r + blen payload -> blen b2 = nhc_udp_header_len r + blen payload ->
  nhc_udp_emit r src dst payload true b1 = nhc_udp_emit r src dst payload true b2).

Check (C20_nhc_udp_roundtrip_verified : forall r src dst payload ck,
  nhc_ports_wf r = true -> is_arr 16 src = true -> is_arr 16 dst = true ->
  bytes_ok payload = true -> blen payload < 65528 ->
  nhc_udp_cksum src dst (np_src r) (np_dst r) payload = Ok ck ->
  nhc_udp_parse (nhc_udp_hdr_bytes r (nhc_ck_tx ck) ++ payload) src dst true = Ok r).

Check (C20_nhc_udp_parse_no_panic : forall b src dst rx, blen b < 65528 ->
  nhc_dispatch b <> Panic /\ nhc_udp_check_len b <> Panic /\ nhc_udp_parse b src dst rx <> Panic /\
  (nhc_udp_check_len b = Ok tt ->
     nhc_udp_src_port b <> Panic /\ nhc_udp_dst_port b <> Panic /\ nhc_udp_checksum b <> Panic /\
     nhc_udp_payload b <> Panic /\ nhc_udp_dispatch_field b <> Panic)).

Check (C20_frag_send_structure : forall ieee_len c chdr uhdr payload_length tag frames,
  5 <= ieee_len <= 21 -> 0 <= chdr <= uhdr -> lpf_needs_frag (blen c) ieee_len = true ->
  blen c <= lpf_BUFFER -> blen c + (uhdr - chdr) < 2048 ->
  lpf_send ieee_len c chdr uhdr payload_length tag = Ok frames ->
  let hd := uhdr - chdr in
  exists f1 fs, frames = f1 :: fs /\
    fr_hdr f1 = Some (SfFirst ((payload_length + lpf_IPV6_HDR) mod 65536) tag) /\
    fr_payload f1 = firstn (Z.to_nat (blen (fr_payload f1))) c /\
    0 < blen (fr_payload f1) < blen c /\ (blen (fr_payload f1) + hd) mod 8 = 0 /\
    (forall f, In f fs -> exists p n,
        fr_hdr f = Some (SfNext ((payload_length + lpf_IPV6_HDR) mod 65536) tag ((p + hd) / 8)) /\
        (p + hd) / 8 * 8 = p + hd /\ 0 <= (p + hd) / 8 < 256 /\ blen (fr_payload f1) <= p /\
        0 < n <= lpf_fn ieee_len /\ p + n <= blen c /\ (p + n < blen c -> n = lpf_fn ieee_len) /\
        fr_payload f = firstn (Z.to_nat n) (skipn (Z.to_nat p) c)) /\
    lpf_fn ieee_len mod 8 = 0 /\
    concat (map fr_payload frames) = c /\
    Forall (fun f => lpf_frame_len ieee_len f <= lpf_MAX_FRAME) frames).

Check (C20_unfragmented_frame_fits : forall ieee_len c chdr uhdr payload_length tag,
  lpf_needs_frag (blen c) ieee_len = false ->
  lpf_send ieee_len c chdr uhdr payload_length tag = Ok [mkFrame None c] /\
  lpf_frame_len ieee_len (mkFrame None c) <= lpf_MAX_FRAME).

Check (C20_frag_offsets_consistent : forall ieee_len c D chdr uhdr payload_length tag dec1,
  5 <= ieee_len <= 21 -> 0 <= chdr <= uhdr -> lpf_needs_frag (blen c) ieee_len = true ->
  blen c <= lpf_BUFFER -> blen c + (uhdr - chdr) < 2048 ->
  skipn (Z.to_nat chdr) c = skipn (Z.to_nat uhdr) D -> chdr <= blen c -> uhdr <= blen D ->
  payload_length + lpf_IPV6_HDR = blen D ->
  chdr <= lpf_f1 ieee_len (uhdr - chdr) ->
  (forall n, blen D <= n ->
     dec1 n = Ok (firstn (Z.to_nat (lpf_f1 ieee_len (uhdr - chdr) + (uhdr - chdr))) D)) ->
  forall frames, lpf_send ieee_len c chdr uhdr payload_length tag = Ok frames ->
  forall fr, In fr frames -> exists rf, lpf_rx_of_frame dec1 fr = Some rf /\ piece_ok D tag rf).

Check (C20_reassembly_exact_or_nothing : forall D tag now timeout ll_src ll_dst fs ss,
  lpf_IPV6_HDR <= blen D ->
  Forall (slot_inv D (ll_src, ll_dst, blen D, tag)) ss -> Forall (piece_ok D tag) fs ->
  exists ss' ds, lpf_process_all now timeout ll_src ll_dst fs ss = Ok (ss', ds) /\
                 Forall (slot_inv D (ll_src, ll_dst, blen D, tag)) ss' /\ Forall (fun d => d = D) ds).

Check (C20_fresh_slots_satisfy_invariant : forall D k, Forall (slot_inv D k) lpf_slots_new).

Check (C20_lowpan_fragments_reassemble :
  forall ieee_len c D chdr uhdr payload_length tag dec1,
  5 <= ieee_len <= 21 -> 0 <= chdr <= uhdr -> lpf_needs_frag (blen c) ieee_len = true ->
  blen c <= lpf_BUFFER -> blen c + (uhdr - chdr) < 2048 ->
  skipn (Z.to_nat chdr) c = skipn (Z.to_nat uhdr) D -> chdr <= blen c -> uhdr <= blen D ->
  payload_length + lpf_IPV6_HDR = blen D ->
  chdr <= lpf_f1 ieee_len (uhdr - chdr) ->
  (forall n, blen D <= n ->
     dec1 n = Ok (firstn (Z.to_nat (lpf_f1 ieee_len (uhdr - chdr) + (uhdr - chdr))) D)) ->
  forall frames arrivals rfs now timeout ll_src ll_dst ss,
    lpf_send ieee_len c chdr uhdr payload_length tag = Ok frames ->
    incl arrivals frames ->
    map (lpf_rx_of_frame dec1) arrivals = map Some rfs ->
    lpf_IPV6_HDR <= blen D ->
    Forall (slot_inv D (ll_src, ll_dst, blen D, tag)) ss ->
    exists ss' ds, lpf_process_all now timeout ll_src ll_dst rfs ss = Ok (ss', ds) /\
                   Forall (slot_inv D (ll_src, ll_dst, blen D, tag)) ss' /\ Forall (fun d => d = D) ds).

Check (C20_configured_sizes : lpf_BUFFER + 48 < 2048 /\ 1 <= lpf_N /\ 1 <= lpf_SLOTS).

Check (C20_iphc_roundtrip : forall r b ctx,
  iphc_repr_wf r = true -> bytes_ok b = true -> blen (iphc_bytes r) <= blen b ->
  iphc_buffer_len r = Ok (blen (iphc_bytes r)) /\
  iphc_emit r b = Ok (iphc_bytes r ++ skipn (Z.to_nat (blen (iphc_bytes r))) b) /\
  iphc_parse (iphc_bytes r ++ skipn (Z.to_nat (blen (iphc_bytes r))) b) (ir_ll_src r) (ir_ll_dst r) ctx = Ok r /\
  iphc_payload (iphc_bytes r ++ skipn (Z.to_nat (blen (iphc_bytes r))) b) = Ok (skipn (Z.to_nat (blen (iphc_bytes r))) b)).

Check (C20_iphc_parse_no_panic : forall b lls lld ctx,
  iphc_ll_wf lls = true -> iphc_ll_wf lld = true ->
  iphc_parse b lls lld ctx <> Panic /\ iphc_check_len b <> Panic /\
  (iphc_check_len b = Ok tt -> iphc_payload b <> Panic /\ iphc_header_len b <> Panic)).

Check (C20_decompress_no_panic : forall ctx lls lld b total_len buflen,
  bytes_ok b = true -> blen b < 65528 -> iphc_ll_wf lls = true -> iphc_ll_wf lld = true ->
  lp_ctx_wf ctx ->
  lp_IPV6_HDR <= buflen -> (forall t, total_len = Some t -> lp_IPV6_HDR <= t) ->
  lp_sixlowpan_to_ipv6 ctx lls lld b total_len buflen <> Panic /\
  forall d, lp_sixlowpan_to_ipv6 ctx lls lld b total_len buflen = Ok d -> blen d <= buflen).

Check (C20_lowpan_roundtrip : forall d lls lld ctx c D buffer buflen,
  lp_dgram_wf d lls lld -> lp_compressed d lls lld = Ok c -> lp_ipv6_bytes d = Ok D ->
  bytes_ok buffer = true -> blen c <= blen buffer -> blen D <= buflen ->
  lp_ipv6_to_sixlowpan d lls lld buffer = Ok (c ++ skipn (Z.to_nat (blen c)) buffer) /\
  lp_sixlowpan_to_ipv6 ctx lls lld c None buflen = Ok D).

Check (C20_lowpan_roundtrip_fragmented : forall d lls lld ctx c D ieee_len tag chdr uhdr,
  lp_dgram_wf d lls lld -> lp_compressed d lls lld = Ok c -> lp_ipv6_bytes d = Ok D ->
  lp_compressed_packet_size d lls lld = Ok (blen c, chdr, uhdr) ->
  5 <= ieee_len <= 21 -> lpf_needs_frag (blen c) ieee_len = true -> blen c <= lpf_BUFFER ->
  forall frames arrivals rfs now timeout ll_src ll_dst ss,
    lpf_send ieee_len c chdr uhdr (lp_payload_len (ld_pl d)) tag = Ok frames ->
    incl arrivals frames ->
    map (lpf_rx_of_frame (fun buflen =>
           lp_sixlowpan_to_ipv6 ctx lls lld (firstn (Z.to_nat (lpf_f1 ieee_len (uhdr - chdr))) c)
                                (Some (blen D)) buflen)) arrivals = map Some rfs ->
    Forall (slot_inv D (ll_src, ll_dst, blen D, tag)) ss ->
    exists ss' ds, lpf_process_all now timeout ll_src ll_dst rfs ss = Ok (ss', ds) /\
                   Forall (slot_inv D (ll_src, ll_dst, blen D, tag)) ss' /\ Forall (fun x => x = D) ds).
