(* Pins: full statements of the C11 theorems; a weakened theorem no longer type-checks here.
   Generated once by tools/mkpins.py from Props/C11.v and then committed: edit both or neither. *)
From SV Require Import Lib.Base Gen.Consts Model.Addr Model.Ingress Proofs.IngressProofs.
From SV Require Import Props.C11.

Check (C11_ingress_total : forall ifc socks p,
  exists res, ing_process ifc socks p = Ok res).

Check (C11_foreign_not_delivered_not_answered : forall ifc socks p,
  ~ addressed_to_us ifc p ->
  exists res, ing_process ifc socks p = Ok res /\
    res_reply res = None /\
    (forall i, In i (res_deliv res) -> is_raw (nth i socks STcpClosed) = true)).

Check (C11_socket_gets_only_matching : forall ifc socks p res i,
  ing_process ifc socks p = Ok res -> In i (res_deliv res) ->
  (i < length socks)%nat /\ sock_matches ifc (nth i socks STcpClosed) p /\
  (is_raw (nth i socks STcpClosed) = false -> addressed_to_us ifc p)).

Check (C11_no_rst_or_icmp_error_to_bcast_mcast_dst_or_nonunicast_src : forall ifc socks p res r,
  ing_process ifc socks p = Ok res -> res_reply res = Some r -> rkind_is_error (r_kind r) = true ->
  ~ known_param_problem_to_multicast p r ->
  ~ is_bcast ifc (p_dst p) /\ ip_is_multicast (p_dst p) = false /\ ~ link_nonunicast ifc p /\
  ~ src_nonunicast ifc (p_src p) /\ r_dst r = p_src p).

Check (C11_known_param_problem_refuted :
  exists ifc socks p res r,
    ing_process ifc socks p = Ok res /\ res_reply res = Some r /\ rkind_is_error (r_kind r) = true /\
    known_param_problem_to_multicast p r /\ ip_is_multicast (p_dst p) = true).

Check (C11_no_error_about_error : forall ifc socks p res r,
  ing_process ifc socks p = Ok res -> res_reply res = Some r -> packet_is_error p ->
  rkind_is_error (r_kind r) = false).

Check (C11_tcp_to_nonunicast_never_changes_state : forall ifc socks p res,
  tcp_dst_nonunicast ifc (p_dst p) ->
  ing_process ifc socks p = Ok res ->
  (forall i, In i (res_deliv res) -> is_tcp_sock (nth i socks STcpClosed) = false) /\
  (forall i, In i (ing_changed socks p (res_deliv res)) -> is_tcp_sock (nth i socks STcpClosed) = false) /\
  (forall r, res_reply res = Some r -> r_kind r <> KRst)).

Check (C11_examples :
  ing_process ex_ifc ex_socks (ex_pkt eth_BROADCAST ex_peer4 ex_bcast4 (UTcp 40000 80 CtlSyn false 0)) = Ok res_none /\
  tcp_dst_nonunicast ex_ifc ex_bcast4 /\
  ing_process ex_ifc ex_socks (ex_pkt ex_mac ex_peer4 ex_own4 (UTcp 40000 80 CtlSyn false 0)) = Ok (mkRes [0%nat] None) /\
  ing_process ex_ifc ex_socks (ex_pkt ex_mac ex_peer4 ex_own4 (UTcp 40000 81 CtlSyn false 0))
    = Ok (mkRes [] (Some (mkReply KRst ex_own4 ex_peer4 40))) /\
  ing_process ex_ifc ex_socks (ex_pkt ex_mac ex_peer4 ex_own4 (UTcp 40000 81 CtlRst false 0)) = Ok res_none /\
  ing_process ex_ifc ex_socks (ex_pkt ex_mac ex_peer4 ex_own4 (UUdp 40000 5000 10)) = Ok (mkRes [1%nat] None) /\
  ing_process ex_ifc ex_socks (ex_pkt ex_mac ex_peer4 ex_own4 (UUdp 40000 9 10))
    = Ok (mkRes [] (Some (mkReply KPortUnreach ex_own4 ex_peer4 66))) /\
  ing_process ex_ifc ex_socks (ex_pkt eth_BROADCAST ex_peer4 ex_bcast4 (UUdp 40000 9 10)) = Ok res_none /\
  ing_process ex_ifc ex_socks (ex_pkt 56294136348673 ex_peer6 (V6 v6_LINK_LOCAL_ALL_NODES) (UUdp 40000 9 10)) = Ok res_none /\
  ing_process ex_ifc ex_socks (ex_pkt 56294136348673 ex_peer6 (V6 v6_LINK_LOCAL_ALL_NODES) (UIcmp (IEchoReq 7 8)))
    = Ok (mkRes [2%nat] (Some (mkReply KEchoReply (V6 338288524927261089654018896841347694593) ex_peer6 56))) /\
  ing_process ex_ifc ex_socks (ex_pkt 2199023255705 ex_peer4 ex_own4 (UUdp 40000 5000 10)) = Ok res_none /\
  ~ addressed_to_us ex_ifc (ex_pkt 2199023255705 ex_peer4 ex_own4 (UUdp 40000 5000 10)) /\
  ing_process ex_ifc ex_socks (ex_pkt ex_mac ex_peer4 (V4 167772238) (UUdp 40000 5000 10)) = Ok res_none /\
  ing_process ex_ifc ex_socks (ex_pkt ex_mac ex_peer4 ex_own4 (UIcmp (IErr 3 (QUdp 9) 48))) = Ok res_none /\
  packet_is_error (ex_pkt ex_mac ex_peer4 ex_own4 (UIcmp (IErr 3 (QUdp 9) 48)))).
