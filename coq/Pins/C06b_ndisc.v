(* Pins: full statements of the C06b_ndisc theorems; a weakened theorem no longer type-checks here.
   Generated once by tools/mkpins.py from Props/C06b_ndisc.v and then committed: edit both or neither. *)
From SV Require Import Lib.Base Gen.WireFields Model.WireBase Proofs.WireBaseProofs.
From SV Require Import Model.WireIpv6 Model.WireNdiscOpt Proofs.WireNdiscOptProofs.
From SV Require Import Props.C06b_ndisc.

Check (C06_ndopt_emit_no_panic : forall r b,
  ndopt_wf r = true -> blen b = ndopt_buffer_len r -> ndopt_emit r b <> Panic).

Check (C06_ndopt_emit_ignores_old_bytes : forall r b1 b2,
  ndopt_wf r = true -> blen b1 = ndopt_buffer_len r -> blen b2 = ndopt_buffer_len r ->
  ndopt_emit r b1 = ndopt_emit r b2).

Check (C06_ndopt_emit_frame : forall r h t,
  ndopt_wf r = true -> blen h = ndopt_buffer_len r ->
  ndopt_emit r (h ++ t) = omap (fun x => x ++ t) (ndopt_emit r h)).

Check (C06_ndopt_roundtrip : forall r b,
  ndopt_wf r = true -> blen b = ndopt_buffer_len r ->
  exists bs, ndopt_emit r b = Ok bs /\ blen bs = ndopt_buffer_len r /\ ndopt_parse bs = Ok r).

Check (C06_ndopt_reparse : forall bs r,
  bytes_ok bs = true -> ndopt_parse bs = Ok r ->
  ndopt_wf r = true /\
  forall b, blen b = ndopt_buffer_len r ->
    exists bs', ndopt_emit r b = Ok bs' /\ ndopt_parse bs' = Ok r).
