(* Pins: full statements of the C06b_ndisc theorems; a weakened theorem no longer type-checks here.
   Generated once by tools/mkpins.py from Props/C06b_ndisc.v and then committed: edit both or neither. *)
From SV Require Import Lib.Base Gen.WireFields Model.WireBase Proofs.WireBaseProofs.
From SV Require Import Model.WireIpv6 Model.WireNdiscOpt Proofs.WireNdiscOptProofs.
From SV Require Import Model.WireIcmpv6Hdr Proofs.WireIcmpv6HdrProofs Model.WireNdisc Proofs.WireNdiscProofs.
From SV Require Import Props.C06b_ndisc.

Check (C06_ndopt_emit_no_panic : forall r b,
  ndopt_wf r = true -> blen b = ndopt_buffer_len r -> ndopt_emit r b <> Panic).

Check (C06_ndopt_emit_ignores_old_bytes : forall r b1 b2,
  ndopt_wf r = true -> blen b1 = ndopt_buffer_len r -> blen b2 = ndopt_buffer_len r ->
  ndopt_emit r b1 = ndopt_emit r b2).

Check (C06_ndopt_emit_frame : forall r h t,
  ndopt_wf r = true -> blen h = ndopt_buffer_len r ->
  ndopt_emit r (h ++ t) = omap (fun x => x ++ t) (ndopt_emit r h)).

Check (C06_ndopt_roundtrip : forall r b,
  ndopt_wf r = true -> blen b = ndopt_buffer_len r ->
  exists bs, ndopt_emit r b = Ok bs /\ blen bs = ndopt_buffer_len r /\ ndopt_parse bs = Ok r).

Check (C06_ndopt_reparse : forall bs r,
  bytes_ok bs = true -> ndopt_parse bs = Ok r ->
  ndopt_wf r = true /\
  forall b, blen b = ndopt_buffer_len r ->
    exists bs', ndopt_emit r b = Ok bs' /\ ndopt_parse bs' = Ok r).

Check (C06_ndisc_raw_emit_no_panic : forall r b,
  ndisc_wf r = true -> blen b = ndisc_buffer_len r -> ndisc_emit r b <> Panic).

Check (C06_ndisc_emit_no_panic : forall (sum_fill : list Z -> Z) tx r b,
  ndisc_wf r = true -> blen b = ndisc_buffer_len r -> ndisc_icmp_emit sum_fill tx r b <> Panic).

Check (C06_ndisc_emit_ignores_old_bytes : forall (sum_fill : list Z -> Z) tx r b1 b2,
  ndisc_wf r = true -> blen b1 = ndisc_buffer_len r -> blen b2 = ndisc_buffer_len r ->
  ndisc_icmp_emit sum_fill tx r b1 = ndisc_icmp_emit sum_fill tx r b2).

Check (C06_ndisc_roundtrip : forall (sum_fill : list Z -> Z) tx r b,
  ndisc_wf r = true -> blen b = ndisc_buffer_len r ->
  exists bs, ndisc_icmp_emit sum_fill tx r b = Ok bs /\ blen bs = ndisc_buffer_len r /\
             ndisc_parse bs = Ok r).

Check (C06_ndisc_icmp_roundtrip : forall (sum_ok : list Z -> bool) (sum_fill : list Z -> Z) tx rx r b,
  icmp6h_cksum_link sum_ok sum_fill -> (rx = true -> tx = true) ->
  ndisc_wf r = true -> blen b = ndisc_buffer_len r ->
  exists bs, ndisc_icmp_emit sum_fill tx r b = Ok bs /\ ndisc_icmp_parse sum_ok rx bs = Ok r).

Check (C06_ndisc_reparse : forall (sum_fill : list Z -> Z) tx bs r,
  bytes_ok bs = true -> ndisc_parse bs = Ok r ->
  ndisc_wf r = true /\
  forall b, blen b = ndisc_buffer_len r ->
    exists bs', ndisc_icmp_emit sum_fill tx r b = Ok bs' /\ ndisc_parse bs' = Ok r).
