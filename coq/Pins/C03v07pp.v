(* Pins: full statements of the C03v07pp theorems; a weakened theorem no longer type-checks here.
   Generated once by tools/mkpins.py from Props/C03v07pp.v and then committed: edit both or neither. *)
From SV Require Import Lib.Base Gen.WireFields Model.WireBase Proofs.WireBaseProofs.
From SV Require Import Model.WirePretty Proofs.WirePrettyProofs.
From SV Require Import Props.C07pp.
From SV Require Import Props.C03v07pp.

Check (C03_via_C07_pp_ethernet_total : forall sum_ok psum_ok bs,
  bytes_ok bs = true -> pp_ethernet sum_ok psum_ok bs <> Panic).

Check (C03_via_C07_pp_arp_total : forall bs, bytes_ok bs = true -> pp_arp bs <> Panic).

Check (C03_via_C07_pp_ipv4_total : forall sum_ok psum_ok bs,
  bytes_ok bs = true -> pp_ipv4 sum_ok psum_ok bs <> Panic).

Check (C03_via_C07_pp_ipv6_total : forall sum_ok psum_ok bs,
  bytes_ok bs = true -> pp_ipv6 sum_ok psum_ok bs <> Panic).

Check (C03_via_C07_pp_icmpv4_total : forall sum_ok psum_ok bs,
  bytes_ok bs = true -> pp_icmpv4 sum_ok psum_ok bs <> Panic).

Check (C03_via_C07_pp_udp_total : forall bs, bytes_ok bs = true -> pp_udp bs <> Panic).

Check (C03_via_C07_pp_tcp_total : forall bs, bytes_ok bs = true -> pp_tcp bs <> Panic).

Check (C03_via_C07_pp_igmp_total : forall bs, pp_igmp bs <> Panic).

Check (C03_via_C07_pp_ndopt_total : forall bs, bytes_ok bs = true -> pp_ndopt bs <> Panic).

Check (C03_via_C07_pp_udp_in_ip_total : forall psum_ok is_v4 off bs,
  bytes_ok bs = true -> pp_udp_in_ip psum_ok is_v4 off bs <> Panic).

Check (C03_via_C07_pp_tcp_in_ip_total : forall psum_ok off bs,
  bytes_ok bs = true -> pp_tcp_in_ip psum_ok off bs <> Panic).
