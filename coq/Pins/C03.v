(* Pins: full statements of the C03 theorems; a weakened theorem no longer type-checks here.
   Generated once by tools/mkpins.py from Props/C03.v and then committed: edit both or neither. *)
From SV Require Import Lib.Base Gen.Consts Model.Glue Proofs.GlueProofs.
From SV Require Import Props.C03.

Check (C03_icmpv4_error_quote_total : forall len,
  0 <= len ->
  exists n, glue_quote_v4 len = Ok n /\ n = Z.min len (wipv4_MIN_MTU - 2 * wipv4_HEADER_LEN - 8) /\
            0 <= n <= len /\ glue_error_size wipv4_HEADER_LEN n <= wipv4_MIN_MTU).

Check (C03_icmpv6_error_quote_total : forall len,
  0 <= len ->
  exists n, glue_quote_v6 len = Ok n /\ n = Z.min len (wipv6_MIN_MTU - 2 * wipv6_HEADER_LEN - 8) /\
            0 <= n <= len /\ glue_error_size wipv6_HEADER_LEN n <= wipv6_MIN_MTU).

Check (C03_hopbyhop_total : forall len l unknown mc,
  0 <= len -> 0 <= l ->
  match glue_process_hopbyhop len l unknown mc with
  | Panic => False
  | Err _ => len < (l + 1) * 8
  | Ok (HbhContinue r) => r = len - (l + 1) * 8 /\ 0 <= r
  | Ok HbhDiscard => True
  | Ok (HbhDiscardNotify q) => 0 <= q <= len /\ glue_error_size wipv6_HEADER_LEN q <= wipv6_MIN_MTU
  end).

Check (C03_glue_example :
  glue_quote_v6 1500 = Ok 1192 /\ glue_quote_v4 1500 = Ok 528 /\ glue_quote_v4 10 = Ok 10 /\
  glue_process_hopbyhop 108 0 [128] false = Ok (HbhDiscardNotify 108) /\
  glue_process_hopbyhop 108 0 [192] true = Ok HbhDiscard /\
  glue_process_hopbyhop 108 0 [30] false = Ok (HbhContinue 100) /\
  glue_process_hopbyhop 7 0 [] false = Err 1).
