(* Pins: full statements of the C14 theorems; a weakened theorem no longer type-checks here.
   Generated once by tools/mkpins.py from Props/C14.v and then committed: edit both or neither. *)
From SV Require Import Lib.Base Model.Ring Proofs.RingProofs.
From SV Require Import Props.C14.

Check (C14_ring_invariant_all_sequences : forall (A : Type) (store : list A) (ops : list (ring_op A)),
  Forall (@ring_op_ok A) ops ->
  let r := fst (ring_run (ring_new store) ops) in
  ring_inv r /\ ring_capacity r = zlen store /\ 0 <= ring_len r <= zlen store /\
  ring_len r = zlen (ring_abs r)).

Check (C14_ring_step_refines_queue : forall (A : Type) (r : ring A) (op : ring_op A),
  ring_inv r -> ring_op_ok op ->
  match ring_step r op with
  | Ok (r', out) => ring_inv r' /\ qs_step (ring_view r) op = Ok (ring_view r', out)
  | Err e => qs_step (ring_view r) op = Err e
  | Panic => qs_step (ring_view r) op = Panic
  end).

Check (C14_ring_refines_queue : forall (A : Type) (ops : list (ring_op A)) (r : ring A),
  ring_inv r -> Forall (@ring_op_ok A) ops ->
  ring_inv (fst (ring_run r ops)) /\
  qs_run (ring_view r) ops = (ring_view (fst (ring_run r ops)), snd (ring_run r ops))).

Check (C14_ring_fifo : forall (A : Type) (ops : list (ring_op A)) (r : ring A),
  ring_inv r -> Forall (@ring_op_ok A) ops ->
  ring_abs r ++ fst (ring_hist r ops) = snd (ring_hist r ops) ++ ring_abs (fst (ring_run r ops)) /\
  ring_capacity (fst (ring_run r ops)) = ring_capacity r /\
  zlen (ring_abs (fst (ring_run r ops))) <= ring_capacity r).

Check (C14_ring_panics_only_documented : forall (A : Type) (r : ring A) (op : ring_op A),
  ring_inv r -> ring_op_ok op ->
  (ring_step r op = Panic <->
   match op with
   | ROEnqManyWith _ k => ring_contiguous_window (ring_reset_if_empty r) < k
   | RODeqManyWith k => Z.min (ring_len r) (ring_capacity r - r_read r) < k
   | ROEnqUnalloc n => ring_window r < n
   | RODeqAlloc n => ring_len r < n
   | _ => False
   end)).

Check (C14_ring_no_underflow : forall (A : Type) (r : ring A), ring_inv r ->
  0 <= ring_window r /\ 0 <= ring_capacity r - r_read r /\
  (forall i, 0 <= i <= ring_capacity r -> 0 <= ring_capacity r - ring_get_idx r i) /\
  0 <= ring_contiguous_window r).

Check (C14_ring_random_access : forall (A : Type) (r r1 : ring A) off d n,
  ring_inv r -> 0 <= off ->
  ring_write_unallocated r off d = Ok (r1, n) ->
  ring_inv r1 /\ ring_abs r1 = ring_abs r /\
  n = (if ring_window r <? off then 0 else Z.min (zlen d) (ring_window r - off)) /\
  (off <= ring_window r ->
     q_fr (ring_view r1) = put (q_fr (ring_view r)) off (firstn (Z.to_nat n) d)) /\
  forall r2, off = 0 -> ring_enqueue_unallocated r1 n = Ok r2 ->
     ring_inv r2 /\ ring_abs r2 = ring_abs r ++ firstn (Z.to_nat n) d).

Check (C14_ring_example :
  let r := fst (ring_run (ring_new [0; 0; 0; 0]) c14_ring_example_ops) in
  r = mkRing [5; 9; 3; 4] 2 3 /\ ring_abs r = [3; 4; 5] /\ q_fr (ring_view r) = [9] /\
  ring_inv r /\ ring_contiguous_window r = 1 /\
  Forall (@ring_op_ok Z) c14_ring_example_ops).
