(* Pins: full statements of the C14 theorems; a weakened theorem no longer type-checks here.
   Generated once by tools/mkpins.py from Props/C14.v and then committed: edit both or neither. *)
From SV Require Import Lib.Base Model.Ring Proofs.RingProofs.
From SV Require Import Model.PacketBuf Proofs.PacketBufProofs.
From SV Require Import Props.C14.

Check (C14_ring_invariant_all_sequences : forall (A : Type) (store : list A) (ops : list (ring_op A)),
  Forall (@ring_op_ok A) ops ->
  let r := fst (ring_run (ring_new store) ops) in
  ring_inv r /\ ring_capacity r = zlen store /\ 0 <= ring_len r <= zlen store /\
  ring_len r = zlen (ring_abs r)).

Check (C14_ring_step_refines_queue : forall (A : Type) (r : ring A) (op : ring_op A),
  ring_inv r -> ring_op_ok op ->
  match ring_step r op with
  | Ok (r', out) => ring_inv r' /\ qs_step (ring_view r) op = Ok (ring_view r', out)
  | Err e => qs_step (ring_view r) op = Err e
  | Panic => qs_step (ring_view r) op = Panic
  end).

Check (C14_ring_refines_queue : forall (A : Type) (ops : list (ring_op A)) (r : ring A),
  ring_inv r -> Forall (@ring_op_ok A) ops ->
  ring_inv (fst (ring_run r ops)) /\
  qs_run (ring_view r) ops = (ring_view (fst (ring_run r ops)), snd (ring_run r ops))).

Check (C14_ring_fifo : forall (A : Type) (ops : list (ring_op A)) (r : ring A),
  ring_inv r -> Forall (@ring_op_ok A) ops ->
  ring_abs r ++ fst (ring_hist r ops) = snd (ring_hist r ops) ++ ring_abs (fst (ring_run r ops)) /\
  ring_capacity (fst (ring_run r ops)) = ring_capacity r /\
  zlen (ring_abs (fst (ring_run r ops))) <= ring_capacity r).

Check (C14_ring_panics_only_documented : forall (A : Type) (r : ring A) (op : ring_op A),
  ring_inv r -> ring_op_ok op ->
  (ring_step r op = Panic <->
   match op with
   | ROEnqManyWith _ k => ring_contiguous_window (ring_reset_if_empty r) < k
   | RODeqManyWith k => Z.min (ring_len r) (ring_capacity r - r_read r) < k
   | ROEnqUnalloc n => ring_window r < n
   | RODeqAlloc n => ring_len r < n
   | _ => False
   end)).

Check (C14_ring_no_underflow : forall (A : Type) (r : ring A), ring_inv r ->
  0 <= ring_window r /\ 0 <= ring_capacity r - r_read r /\
  (forall i, 0 <= i <= ring_capacity r -> 0 <= ring_capacity r - ring_get_idx r i) /\
  0 <= ring_contiguous_window r).

Check (C14_ring_random_access : forall (A : Type) (r r1 : ring A) off d n,
  ring_inv r -> 0 <= off ->
  ring_write_unallocated r off d = Ok (r1, n) ->
  ring_inv r1 /\ ring_abs r1 = ring_abs r /\
  n = (if ring_window r <? off then 0 else Z.min (zlen d) (ring_window r - off)) /\
  (off <= ring_window r ->
     q_fr (ring_view r1) = put (q_fr (ring_view r)) off (firstn (Z.to_nat n) d)) /\
  forall r2, off = 0 -> ring_enqueue_unallocated r1 n = Ok r2 ->
     ring_inv r2 /\ ring_abs r2 = ring_abs r ++ firstn (Z.to_nat n) d).

Check (C14_ring_example :
  let r := fst (ring_run (ring_new [0; 0; 0; 0]) c14_ring_example_ops) in
  r = mkRing [5; 9; 3; 4] 2 3 /\ ring_abs r = [3; 4; 5] /\ q_fr (ring_view r) = [9] /\
  ring_inv r /\ ring_contiguous_window r = 1 /\
  Forall (@ring_op_ok Z) c14_ring_example_ops).

Check (C14_pb_invariant_all_sequences : forall (H : Type) mcap pcap (ops : list (pb_op H)) b,
  Forall (@pb_op_ok H) ops -> pb_run (pb_new H mcap pcap) ops = Some b ->
  pb_inv b).

Check (C14_pb_refines_queue : forall (H : Type) (b : pbuf H) (op : pb_op H),
  pb_inv b -> pb_op_ok op ->
  match pb_step b op with
  | Ok (b', out) => pb_inv b' /\ pq_rel (pb_abs b) op out (pb_abs b')
  | Err _ => False
  | Panic => match op with POEnqInf max _ _ k => max < k | _ => False end
  end).

Check (C14_pb_enqueue : forall (H : Type) (b : pbuf H) size h w, pb_inv b -> 0 <= size ->
  exists b' res, pb_enqueue b size h w = Ok (b', res) /\
    (res = None <-> exists b1, pb_make_room b size = Ok (b1, true)) /\
    match res with
    | None => b' = b
    | Some old => zlen old = size /\ pb_inv b' /\ pb_abs b' = pb_abs b ++ [(h, overlay w old)]
    end).

Check (C14_pb_enqueue_with_infallible : forall (H : Type) (b : pbuf H) max h (f : list Z -> list Z * Z),
  pb_inv b -> 0 <= max -> (forall buf, 0 <= snd (f buf)) ->
  (exists b' res, pb_enqueue_with_infallible b max h f = Ok (b', res) /\
     (res = None <-> exists b1, pb_make_room b max = Ok (b1, true)) /\
     match res with
     | None => b' = b
     | Some (k, seen) =>
         zlen seen = max /\ k = snd (f seen) /\ pb_inv b' /\
         exists pl, zlen pl = k /\ pb_abs b' = pb_abs b ++ [(h, pl)] /\
           (k <= max -> pl = firstn (Z.to_nat k) (overlay (fst (f seen)) seen))
     end) \/
  (pb_enqueue_with_infallible b max h f = Panic /\
   exists seen, zlen seen = max /\ max < snd (f seen))).

Check (C14_pb_refused_unchanged : forall (H : Type) (b b' : pbuf H) size h,
  pb_inv b -> 0 <= size ->
  (forall w, pb_enqueue b size h w = Ok (b', None) -> b' = b) /\
  (forall f, (forall buf, 0 <= snd (f buf)) ->
     pb_enqueue_with_infallible b size h f = Ok (b', None) -> b' = b)).

Check (C14_pb_dequeue : forall (H : Type) (b : pbuf H), pb_inv b ->
  exists b' res, pb_dequeue b = Ok (b', res) /\ pb_inv b' /\
    match res with
    | None => pb_abs b = [] /\ pb_abs b' = []
    | Some (h, p) => pb_abs b = (h, p) :: pb_abs b'
    end).

Check (C14_pb_dequeue_with : forall (H : Type) (b : pbuf H) (f : H -> list Z -> bool), pb_inv b ->
  exists b' res, pb_dequeue_with b f = Ok (b', res) /\ pb_inv b' /\
    match res with
    | None => pb_abs b = [] /\ pb_abs b' = []
    | Some (h, p, acc) =>
        acc = f h p /\
        exists rest, pb_abs b = (h, p) :: rest /\
                     pb_abs b' = if acc then rest else (h, p) :: rest
    end).

Check (C14_pb_dequeue_with_decline_unchanged : forall (H : Type) (b b' : pbuf H) f res,
  pb_inv b -> (forall h p, f h p = false) ->
  pb_dequeue_with b f = Ok (b', res) -> pb_inv b' /\ pb_abs b' = pb_abs b).

Check (C14_pb_peek : forall (H : Type) (b : pbuf H), pb_inv b ->
  exists b' res, pb_peek b = Ok (b', res) /\ pb_inv b' /\ pb_abs b' = pb_abs b /\
    match res with
    | None => pb_abs b = []
    | Some (h, p) => exists rest, pb_abs b = (h, p) :: rest
    end).

Check (C14_pb_reset : forall (H : Type) (b : pbuf H), pb_inv b ->
  pb_inv (pb_reset b) /\ pb_abs (pb_reset b) = []).

Check (C14_pb_empty_accepts : forall (H : Type) (b : pbuf H) size h, pb_inv b -> pb_abs b = [] ->
  1 <= pb_packet_capacity b -> 0 <= size <= pb_payload_capacity b ->
  (forall w, exists b' old, pb_enqueue b size h w = Ok (b', Some old) /\
     pb_inv b' /\ pb_abs b' = [(h, overlay w old)] /\ zlen old = size) /\
  (forall f, (forall buf, 0 <= snd (f buf) <= size) ->
     exists b' k seen, pb_enqueue_with_infallible b size h f = Ok (b', Some (k, seen)) /\
       pb_inv b' /\ zlen seen = size /\ k = snd (f seen) /\
       pb_abs b' = [(h, firstn (Z.to_nat k) (overlay (fst (f seen)) seen))])).

Check (C14_pb_example :
  exists b, pb_run (pb_new Z 4 16) c14_pb_example_ops = Some b /\
    ring_abs (pb_meta b) = [pm_packet 8 2; pm_padding Z 2; pm_packet 4 3] /\
    r_read (pb_payload b) = 6 /\ r_len (pb_payload b) = 14 /\
    pb_abs b = [(2, [11; 12; 13; 14; 15; 16; 17; 18]); (3, [21; 22; 23; 24])] /\
    pb_inv b /\ Forall (@pb_op_ok Z) c14_pb_example_ops).
