(* Pins: full statements of the C10v06b_ndisc theorems; a weakened theorem no longer type-checks here.
   Generated once by tools/mkpins.py from Props/C10v06b_ndisc.v and then committed: edit both or neither. *)
From SV Require Import Lib.Base Gen.WireFields Model.WireBase Proofs.WireBaseProofs.
From SV Require Import Model.WireIpv6 Model.WireNdiscOpt Proofs.WireNdiscOptProofs.
From SV Require Import Model.WireIcmpv6Hdr Proofs.WireIcmpv6HdrProofs Model.WireNdisc Proofs.WireNdiscProofs.
From SV Require Import Props.C06b_ndisc.
From SV Require Import Props.C10v06b_ndisc.

Check (C10_via_C06_ndopt_emit_no_panic : forall r b,
  ndopt_wf r = true -> blen b = ndopt_buffer_len r -> ndopt_emit r b <> Panic).

Check (C10_via_C06_ndopt_roundtrip : forall r b,
  ndopt_wf r = true -> blen b = ndopt_buffer_len r ->
  exists bs, ndopt_emit r b = Ok bs /\ blen bs = ndopt_buffer_len r /\ ndopt_parse bs = Ok r).

Check (C10_via_C06_ndisc_raw_emit_no_panic : forall r b,
  ndisc_wf r = true -> blen b = ndisc_buffer_len r -> ndisc_emit r b <> Panic).

Check (C10_via_C06_ndisc_emit_no_panic : forall (sum_fill : list Z -> Z) tx r b,
  ndisc_wf r = true -> blen b = ndisc_buffer_len r -> ndisc_icmp_emit sum_fill tx r b <> Panic).

Check (C10_via_C06_ndisc_roundtrip : forall (sum_fill : list Z -> Z) tx r b,
  ndisc_wf r = true -> blen b = ndisc_buffer_len r ->
  exists bs, ndisc_icmp_emit sum_fill tx r b = Ok bs /\ blen bs = ndisc_buffer_len r /\
             ndisc_parse bs = Ok r).

Check (C10_via_C06_ndisc_icmp_roundtrip : forall (sum_ok : list Z -> bool) (sum_fill : list Z -> Z) tx rx r b,
  icmp6h_cksum_link sum_ok sum_fill -> (rx = true -> tx = true) ->
  ndisc_wf r = true -> blen b = ndisc_buffer_len r ->
  exists bs, ndisc_icmp_emit sum_fill tx r b = Ok bs /\ ndisc_icmp_parse sum_ok rx bs = Ok r).
