(* Pins: full statements of the C10v08 theorems; a weakened theorem no longer type-checks here.
   Generated once by tools/mkpins.py from Props/C10v08.v and then committed: edit both or neither. *)
From SV Require Import Lib.Base Gen.WireFields Model.Checksum Proofs.ChecksumProofs.
From SV Require Import Props.C08.
From SV Require Import Props.C10v08.

Check (C10_via_C08_fill_then_verify_ipv4 : forall dbg be p, bytes p ->
  snd wipv4_f_CHECKSUM <= ipv4_hl p <= Z.of_nat (length p) ->
  exists p', cksum_ipv4_fill dbg be p = Ok p' /\ length p' = length p /\ bytes p' /\
             cksum_ipv4_verify dbg be p' = Ok true).

Check (C10_via_C08_fill_then_verify_icmpv4 : forall dbg be p, bytes p ->
  snd wicmpv4_f_CHECKSUM <= Z.of_nat (length p) <= cksum_max_len ->
  exists p', cksum_icmpv4_fill dbg be p = Ok p' /\ length p' = length p /\ bytes p' /\
             cksum_icmpv4_verify dbg be p' = Ok true).

Check (C10_via_C08_fill_then_verify_icmpv6 : forall dbg be src dst p, bytes p -> v6_ok src -> v6_ok dst ->
  snd wicmpv6_f_CHECKSUM <= Z.of_nat (length p) <= cksum_max_len ->
  exists p', cksum_icmpv6_fill dbg be src dst p = Ok p' /\ length p' = length p /\ bytes p' /\
             cksum_icmpv6_verify dbg be src dst p' = Ok true).

Check (C10_via_C08_fill_then_verify_tcp : forall dbg be src dst p, bytes p ->
  addr_ok src -> addr_ok dst -> same_family src dst ->
  snd wtcp_f_CHECKSUM <= Z.of_nat (length p) <= cksum_max_len ->
  exists p', cksum_tcp_fill dbg be src dst p = Ok p' /\ length p' = length p /\ bytes p' /\
             cksum_tcp_verify dbg be src dst p' = Ok true).

Check (C10_via_C08_fill_then_verify_udp : forall dbg be src dst p, bytes p ->
  addr_ok src -> addr_ok dst -> same_family src dst ->
  snd wudp_f_CHECKSUM <= udp_len p <= Z.of_nat (length p) ->
  exists p', cksum_udp_fill dbg be src dst p = Ok p' /\ length p' = length p /\ bytes p' /\
             cksum_udp_checksum p' = Ok (udp_ck p') /\ udp_ck p' <> 0 /\
             cksum_udp_verify dbg be src dst p' = Ok true).
