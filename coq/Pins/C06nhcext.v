(* Pins: full statements of the C06nhcext theorems; a weakened theorem no longer type-checks here.
   Generated once by tools/mkpins.py from Props/C06nhcext.v and then committed: edit both or neither. *)
From SV Require Import Lib.Base Gen.Consts Gen.WireFields Model.WireBase Model.WireNhc Model.WireNhcExt.
From SV Require Import Proofs.WireBaseProofs Proofs.LowpanWireProofs Proofs.LowpanProofs Proofs.WireNhcExtProofs.
From SV Require Import Props.C06nhcext.

Check (C06_nhc_ext_roundtrip : forall r b,
  nhc_ext_repr_wf r = true -> bytes_ok b = true -> nhc_ext_buffer_len r + ne_length r <= blen b ->
  exists bs,
    nhc_ext_emit r b = Ok bs /\
    bs = nhc_ext_hdr_bytes r ++ skipn (Z.to_nat (nhc_ext_buffer_len r)) b /\
    nhc_ext_new_checked bs = Ok tt /\
    nhc_ext_repr_parse bs = Ok r /\
    nhc_ext_payload bs = Ok (firstn (Z.to_nat (ne_length r)) (skipn (Z.to_nat (nhc_ext_buffer_len r)) b))).

Check (C06_nhc_ext_emit_no_panic : forall r b,
  nhc_ext_repr_wf r = true -> bytes_ok b = true -> nhc_ext_buffer_len r <= blen b ->
  nhc_ext_emit r b <> Panic /\ exists bs, nhc_ext_emit r b = Ok bs /\ blen bs = blen b).

Check (C06_nhc_ext_emit_ignores_old_bytes : forall r b1 b2,
  nhc_ext_repr_wf r = true -> bytes_ok b1 = true -> bytes_ok b2 = true ->
  blen b1 = nhc_ext_buffer_len r -> blen b2 = nhc_ext_buffer_len r ->
  nhc_ext_emit r b1 = nhc_ext_emit r b2 /\ nhc_ext_emit r b1 = Ok (nhc_ext_hdr_bytes r)).

Check (C06_nhc_ext_emit_keeps_tail : forall r b bs,
  nhc_ext_repr_wf r = true -> bytes_ok b = true -> nhc_ext_buffer_len r <= blen b ->
  nhc_ext_emit r b = Ok bs ->
  skipn (Z.to_nat (nhc_ext_buffer_len r)) bs = skipn (Z.to_nat (nhc_ext_buffer_len r)) b).

Check (C06_nhc_ext_reparse : forall b r,
  bytes_ok b = true -> nhc_ext_repr_parse b = Ok r ->
  nhc_ext_repr_wf r = true /\
  exists bs, nhc_ext_emit r b = Ok bs /\ nhc_ext_repr_parse bs = Ok r /\ blen bs = blen b /\
    skipn (Z.to_nat (nhc_ext_buffer_len r)) bs = skipn (Z.to_nat (nhc_ext_buffer_len r)) b).

Check (C06_nhc_ext_header_only_refused : forall r b,
  nhc_ext_repr_wf r = true -> bytes_ok b = true -> blen b = nhc_ext_buffer_len r -> 0 < ne_length r ->
  exists bs, nhc_ext_emit r b = Ok bs /\ nhc_ext_repr_parse bs = Err 0).

Check (C06_nhc_ext_repr_parse_total : forall b, bytes_ok b = true -> nhc_ext_repr_parse b <> Panic).
