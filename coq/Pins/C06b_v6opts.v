(* Pins: full statements of the C06b_v6opts theorems; a weakened theorem no longer type-checks here.
   Generated once by tools/mkpins.py from Props/C06b_v6opts.v and then committed: edit both or neither. *)
From SV Require Import Lib.Base Gen.Consts Gen.WireFields Model.WireBase Proofs.WireBaseProofs.
From SV Require Import Model.WireIpv6Opt Proofs.WireIpv6OptProofs.
From SV Require Import Model.WireIpv6Hbh Proofs.WireIpv6HbhProofs.
From SV Require Import Model.WireIpv6Routing Proofs.WireIpv6RoutingProofs.
From SV Require Import Props.C06b_v6opts.

Check (C06_v6opt_emit_no_panic : forall r b,
  v6opt_wf r = true -> blen b = v6opt_buffer_len r -> v6opt_emit r b <> Panic).

Check (C06_v6opt_emit_ignores_old_bytes : forall r b1 b2,
  v6opt_wf r = true -> blen b1 = v6opt_buffer_len r -> blen b2 = v6opt_buffer_len r ->
  v6opt_emit r b1 = v6opt_emit r b2).

Check (C06_v6opt_roundtrip : forall r b,
  v6opt_wf r = true -> blen b = v6opt_buffer_len r ->
  exists bs, v6opt_emit r b = Ok bs /\ blen bs = v6opt_buffer_len r /\ v6opt_parse bs = Ok r /\
             forall rest, v6opt_parse (bs ++ rest) = Ok r).

Check (C06_v6opt_reparse : forall bs r,
  bytes_ok bs = true -> v6opt_parse bs = Ok r ->
  v6opt_wf r = true /\
  forall b, blen b = v6opt_buffer_len r ->
    exists bs', v6opt_emit r b = Ok bs' /\ v6opt_parse bs' = Ok r).

Check (C06_v6opt_iter_bytes : forall opts,
  forallb v6opt_wf opts = true -> v6opt_iter (v6opt_bytes_list opts) = map Ok opts).

Check (C06_v6hbh_emit_no_panic : forall r b,
  v6hbh_wf r = true -> blen b = v6hbh_buffer_len r -> v6hbh_emit r b <> Panic).

Check (C06_v6hbh_emit_ignores_old_bytes : forall r b1 b2,
  v6hbh_wf r = true -> blen b1 = v6hbh_buffer_len r -> blen b2 = v6hbh_buffer_len r ->
  v6hbh_emit r b1 = v6hbh_emit r b2).

Check (C06_v6hbh_roundtrip : forall r b,
  v6hbh_wf r = true -> blen b = v6hbh_buffer_len r ->
  exists bs, v6hbh_emit r b = Ok bs /\ blen bs = v6hbh_buffer_len r /\ v6hbh_parse bs = Ok r).

Check (C06_v6hbh_reparse : forall bs r,
  bytes_ok bs = true -> v6hbh_parse bs = Ok r ->
  v6hbh_wf r = true /\
  forall b, blen b = v6hbh_buffer_len r ->
    exists bs', v6hbh_emit r b = Ok bs' /\ v6hbh_parse bs' = Ok r).

Check (C06_v6hbh_mldv2_router_alert_ok :
  v6hbh_mldv2_router_alert = Ok (mkV6Hbh [V6OptRouterAlert 0]) /\ v6hbh_wf (mkV6Hbh [V6OptRouterAlert 0]) = true).

Check (C06_v6hbh_push_padn_option_ok : forall r n,
  v6hbh_wf r = true -> is_u8 n = true ->
  Z.of_nat (length (v6hbh_opts r)) < cfg_IPV6_HBH_MAX_OPTIONS ->
  exists r', v6hbh_push_padn_option r n = Ok r' /\ v6hbh_wf r' = true /\
             v6hbh_buffer_len r' = v6hbh_buffer_len r + (n + 2)).

Check (C06_v6rt_emit_no_panic : forall r b,
  v6rt_wf r = true -> blen b = v6rt_buffer_len r -> v6rt_emit r b <> Panic).

Check (C06_v6rt_emit_ignores_old_bytes : forall r b1 b2,
  v6rt_wf r = true -> blen b1 = v6rt_buffer_len r -> blen b2 = v6rt_buffer_len r ->
  v6rt_emit r b1 = v6rt_emit r b2).

Check (C06_v6rt_roundtrip : forall r b,
  v6rt_wf r = true -> blen b = v6rt_buffer_len r ->
  exists bs, v6rt_emit r b = Ok bs /\ blen bs = v6rt_buffer_len r /\ v6rt_parse bs = Ok r).

Check (C06_v6rt_reparse : forall bs r,
  bytes_ok bs = true -> v6rt_parse bs = Ok r ->
  v6rt_wf r = true /\
  forall b, blen b = v6rt_buffer_len r ->
    exists bs', v6rt_emit r b = Ok bs' /\ v6rt_parse bs' = Ok r).
