(* Pins: full statements of the C03v04 theorems; a weakened theorem no longer type-checks here.
   Generated once by tools/mkpins.py from Props/C03v04.v and then committed: edit both or neither. *)
From SV Require Import Lib.Base Gen.Consts.
From SV Require Import Model.Seq32 Model.Assembler Model.TcpBuf Model.TcpTypes Model.Tcp.
From SV Require Import Proofs.AssemblerProofs Proofs.TcpRecvBase Proofs.TcpRecvWindow Proofs.TcpRecvPayload Proofs.TcpRecvInv Proofs.TcpRecvProcess Proofs.TcpRecvStep Proofs.TcpRecvSync Proofs.TcpRecvDispatch Proofs.TcpRecvTrace Proofs.TcpRecvTheorems Proofs.TcpRecvExample.
From SV Require Import Props.C04.
From SV Require Import Props.C03v04.

Check (C03_via_C04_process_rx_no_panic : forall (S : nat -> Z -> Z) (F : nat -> option Z),
  (forall e f, F e = Some f -> 0 <= f) ->
  forall s g cx ip r,
  rx_reach S F s g -> ev_ok S F g s (EvSegment ip r) -> tcp_accepts s ip r = true ->
  tcp_process_window cx s ip r <> Panic /\
  (forall n, tcp_recv_slice s n <> Panic) /\
  tcp_last_scaled_window s <> Panic /\
  (forall t2 s2 payload off s7,
     tcp_process_window cx s ip r = Ok (Cont t2 (s2, payload, off)) ->
     s_rx_buffer s7 = s_rx_buffer s -> s_assembler s7 = s_assembler s ->
     tcp_process_payload cx s7 ip r payload off <> Panic)).
