(* Pins: full statements of the C10v06 theorems; a weakened theorem no longer type-checks here.
   Generated once by tools/mkpins.py from Props/C10v06.v and then committed: edit both or neither. *)
From SV Require Import Lib.Base Gen.WireFields Model.WireBase Proofs.WireBaseProofs.
From SV Require Import Model.WireEth Proofs.WireEthProofs.
From SV Require Import Model.WireArp Proofs.WireArpProofs.
From SV Require Import Model.WireUdp Proofs.WireUdpProofs.
From SV Require Import Model.WireIpv4 Proofs.WireIpv4Proofs.
From SV Require Import Model.WireIpv6 Proofs.WireIpv6Proofs.
From SV Require Import Model.WireIcmpv4 Proofs.WireIcmpv4Proofs.
From SV Require Import Model.WireIcmpv6 Proofs.WireIcmpv6Proofs.
From SV Require Import Model.WireTcp Proofs.WireTcpProofs Proofs.WireTcpEmitProofs.
From SV Require Import Proofs.WireTcpParseProofs Proofs.WireTcpReparseProofs.
From SV Require Import Props.C06.
From SV Require Import Props.C10v06.

Check (C10_via_C06_eth_emit_no_panic : forall r b,
  eth_wf r = true -> blen b = eth_buffer_len r -> eth_emit r b <> Panic).

Check (C10_via_C06_eth_roundtrip : forall r b,
  eth_wf r = true -> blen b = eth_buffer_len r ->
  exists bs, eth_emit r b = Ok bs /\ blen bs = eth_buffer_len r /\
             forall payload, eth_parse (bs ++ payload) = Ok r).

Check (C10_via_C06_arp_emit_no_panic : forall r b,
  arp_wf r = true -> blen b = arp_buffer_len r -> arp_emit r b <> Panic).

Check (C10_via_C06_arp_roundtrip : forall r b,
  arp_wf r = true -> blen b = arp_buffer_len r ->
  exists bs, arp_emit r b = Ok bs /\ blen bs = arp_buffer_len r /\ arp_parse bs = Ok r).

Check (C10_via_C06_udp_emit_no_panic : forall (sum_ok : list Z -> bool) sum_fill tx r payload b,
  udp_wf r payload = true -> blen b = udp_buffer_len r payload ->
  udp_emit sum_fill tx r payload b <> Panic).

Check (C10_via_C06_udp_roundtrip : forall sum_ok sum_fill is_v4 tx rx r payload b,
  udp_cksum_link sum_ok sum_fill -> udp_wf r payload = true ->
  (rx = true -> tx = true \/ is_v4 = true) ->
  blen b = udp_buffer_len r payload ->
  exists bs, udp_emit sum_fill tx r payload b = Ok bs /\ blen bs = udp_buffer_len r payload /\
             udp_parse sum_ok is_v4 rx bs = Ok r /\ udp_payload bs = Ok payload).

Check (C10_via_C06_ipv4_emit_no_panic : forall (sum_ok : list Z -> bool) sum_fill tx r b,
  ipv4_wf r = true -> blen b = ipv4_buffer_len r -> ipv4_emit sum_fill tx r b <> Panic).

Check (C10_via_C06_ipv4_roundtrip : forall sum_ok sum_fill tx rx r b,
  ipv4_cksum_link sum_ok sum_fill -> ipv4_wf r = true -> (rx = true -> tx = true) ->
  blen b = ipv4_buffer_len r ->
  exists bs, ipv4_emit sum_fill tx r b = Ok bs /\ blen bs = ipv4_buffer_len r /\
    forall payload, blen payload = ipv4_payload_len r ->
      ipv4_parse sum_ok rx (bs ++ payload) = Ok r /\ ipv4_payload (bs ++ payload) = Ok payload).

Check (C10_via_C06_ipv6_emit_no_panic : forall r b,
  ipv6_wf r = true -> blen b = ipv6_buffer_len r -> ipv6_emit r b <> Panic).

Check (C10_via_C06_ipv6_roundtrip : forall r b,
  ipv6_wf r = true -> blen b = ipv6_buffer_len r ->
  exists bs, ipv6_emit r b = Ok bs /\ blen bs = ipv6_buffer_len r /\
    forall payload, blen payload = ipv6_payload_len r ->
      ipv6_parse (bs ++ payload) = Ok r /\ ipv6_payload (bs ++ payload) = Ok payload).

Check (C10_via_C06_icmpv4_emit_no_panic : forall (sum_ok : list Z -> bool) sum_fill tx tx4 r b,
  icmpv4_wf r = true -> blen b = icmpv4_buffer_len r -> icmpv4_emit sum_fill tx tx4 r b <> Panic).

Check (C10_via_C06_icmpv4_roundtrip : forall sum_ok sum_fill tx tx4 rx r b,
  icmpv4_cksum_link sum_ok sum_fill -> icmpv4_wf r = true -> (rx = true -> tx = true) ->
  blen b = icmpv4_buffer_len r ->
  exists bs, icmpv4_emit sum_fill tx tx4 r b = Ok bs /\ blen bs = icmpv4_buffer_len r /\
             icmpv4_parse sum_ok rx bs = Ok r).

Check (C10_via_C06_icmpv6_emit_no_panic : forall (sum_ok : list Z -> bool) sum_fill tx r b,
  icmpv6_wf r = true -> blen b = icmpv6_buffer_len r -> icmpv6_emit sum_fill tx r b <> Panic).

Check (C10_via_C06_icmpv6_roundtrip : forall sum_ok sum_fill tx rx r b,
  icmpv6_cksum_link sum_ok sum_fill -> icmpv6_wf r = true -> (rx = true -> tx = true) ->
  blen b = icmpv6_buffer_len r ->
  exists bs, icmpv6_emit sum_fill tx r b = Ok bs /\ blen bs = icmpv6_buffer_len r /\
             icmpv6_parse sum_ok rx bs = Ok r).

Check (C10_via_C06_tcp_emit_no_panic : forall sum_fill tx r b,
  tcp_wf r = true -> blen b = tcp_buffer_len r -> tcp_emit sum_fill tx r b <> Panic).

Check (C10_via_C06_tcp_roundtrip : forall sum_ok sum_fill tx rx r b,
  tcp_cksum_link sum_ok sum_fill -> tcp_wf r = true -> (rx = true -> tx = true) ->
  blen b = tcp_buffer_len r ->
  exists bs, tcp_emit sum_fill tx r b = Ok bs /\ blen bs = tcp_buffer_len r /\ tcp_parse sum_ok rx bs = Ok r).
