(* Pins: full statements of the C02liveRed12 theorems; a weakened theorem no longer type-checks here.
   Generated once by tools/mkpins.py from Props/C02liveRed12.v and then committed: edit both or neither. *)
From SV Require Import Lib.Base Gen.Consts.
From SV Require Import Model.Seq32 Model.Assembler Model.TcpBuf Model.TcpTypes Model.Tcp Model.TcpNet.
From SV Require Import Proofs.TcpSendBase Proofs.TcpLiveBase Proofs.TcpLiveProofs Proofs.TcpLiveMore Proofs.TcpLiveProgress.
From SV Require Import Proofs.TcpNetBase.
From SV Require Import Proofs.TcpProgressBase Proofs.TcpProgressFrame Proofs.TcpProgressCtl Proofs.TcpProgressRecv Proofs.TcpProgressSend Proofs.TcpProgressNet Proofs.TcpProgressData Proofs.TcpProgressAck Proofs.TcpProgressAll Proofs.TcpProgressSafe Proofs.TcpProgressHs Proofs.TcpProgressHsD Proofs.TcpProgressHsNet Proofs.TcpProgressHsInit Proofs.TcpProgressHsLive Proofs.TcpProgressHsLive2 Proofs.TcpProgressZwp Proofs.TcpProgressExample Proofs.TcpProgressWitness Proofs.TcpProgressSafeWitness Proofs.TcpProgressZwDup Proofs.TcpProgressZw1 Proofs.TcpProgressZw1b Proofs.TcpProgressZw2 Proofs.TcpProgressZw3 Proofs.TcpProgressZwWitness Proofs.TcpProgressZw4 Proofs.TcpProgressZw5 Proofs.TcpProgressZw6 Proofs.TcpProgressZwWitness3 Proofs.TcpProgressZw7 Proofs.TcpProgressCl1 Proofs.TcpProgressCl2 Proofs.TcpProgressCl3 Proofs.TcpProgressCl4 Proofs.TcpProgressCl5 Proofs.TcpProgressCl6 Proofs.TcpProgressCl7 Proofs.TcpProgressCl8 Proofs.TcpProgressCl9 Proofs.TcpProgressCl10 Proofs.TcpProgressCl11 Proofs.TcpProgressCl12 Proofs.TcpProgressCl13 Proofs.TcpProgressCl14 Proofs.TcpProgressHsRtx Proofs.TcpProgressHsAll Proofs.TcpProgressHsSrv1 Proofs.TcpProgressHsSrv2 Proofs.TcpProgressCl15 Proofs.TcpProgressRtxWitness Proofs.TcpProgressHsSrvWitness Proofs.TcpProgressCl16 Proofs.TcpProgressCap Proofs.TcpProgressCapNet Proofs.TcpProgressCl19 Proofs.TcpProgressCl20 Proofs.TcpProgressSynWin Proofs.TcpProgressSynWinNet Proofs.TcpProgressCl21 Proofs.TcpProgressSr Proofs.TcpProgressSrNet Proofs.TcpProgressCl22 Proofs.TcpProgressCl23 Proofs.TcpProgressAdt Proofs.TcpProgressAdtNet Proofs.TcpProgressCl24 Proofs.TcpProgressRla Proofs.TcpProgressRlaNet Proofs.TcpProgressCl25.
From SV Require Import Props.C02liveRed12.

Check (C02live_quiesce_close_after_fault_prefix_min3 : forall Dt Da Dack ca cb st0 (n : nat),
  forall pre st evsD evsQ evs1 evs2 stD stQ stC st_m st',
  start_ok Dack ca cb st0 -> cfg_rx ca cb -> 2 * Dt < tcp_RTTE_MIN_RTO * 1000 -> 0 <= Dack ->
  (* the fault prefix: any run of the one-way workload - drops, duplicates, reordering, any clock - that ends
     with both sockets ESTABLISHED *)
  net_run st0 pre = Ok st -> Forall (script_ev SA) pre ->
  (forall z, s_state (net_sock st z) = Established) ->
  (* from there on delivery is reliable *)
  reliable_schedule Dt Da st (evsD ++ evsQ ++ NClose SA :: evs1 ++ NClose SB :: evs2) ->
  (* A may go on writing, B reads *)
  Forall (app_ev SA) evsD -> net_run st evsD = Ok stD ->
  (* the applications neither write nor close *)
  Forall qev evsQ -> net_run stD evsQ = Ok stQ ->
  (forall z, l_len (ep_written (net_get stQ z)) < 2 ^ 30) ->
  run_all qregime4 stD evsQ ->
  (l_len (ep_written (net_get stD SA)) - una_off (net_get stD SA)) +
  (l_len (ep_written (net_get stD SA)) - read_off (net_get stD SB)) <= Z.of_nat n ->
  net_now stD SA + Z.of_nat n * Wz Dt Da + 2 * Dt + Dack < net_now stQ SA ->
  (* A closes; B closes in CLOSE-WAIT *)
  net_step stQ (NClose SA) = Ok stC ->
  Forall (cl_ev SA false) evs1 -> net_run stC evs1 = Ok st_m -> net_now stQ SA + 2 * Dt < net_now st_m SA ->
  net_run st_m (NClose SB :: evs2) = Ok st' ->
  net_now st_m SA + 3 * Dt + tcp_CLOSE_DELAY < net_now st' SA ->
  (exists p1 p2 sta,
     evsQ = p1 ++ p2 /\ net_run stD p1 = Ok sta /\ net_run sta p2 = Ok stQ /\
     una_off (net_get sta SA) = l_len (ep_written (net_get stD SA)) /\
     read_off (net_get sta SB) = l_len (ep_written (net_get stD SA))) /\
  (exists pre2 post st_c,
     evs2 = pre2 ++ post /\ net_run st_m (NClose SB :: pre2) = Ok st_c /\ net_run st_c post = Ok st' /\
     both_closed st_c)).

Check (C02live_server_quiesce_close_after_fault_prefix_min3 : forall Dt Da Dack ca cb st0 (n : nat),
  forall pre st evsH evsQ evs1 evs2 stD stQ stC st_m st',
  start_ok Dack ca cb st0 -> cfg_rx ca cb -> 2 * Dt < tcp_RTTE_MIN_RTO * 1000 -> 0 <= Dack ->
  (* the fault prefix: everything A transmitted since its SYN is lost *)
  net_run st0 pre = Ok st -> Forall (script_ev SA) pre ->
  s_state (net_sock st SA) = Established -> s_state (net_sock st SB) = SynReceived ->
  fresh (cx_isn (ep_cx (n_a st0))) st ->
  reliable_schedule Dt Da st (evsH ++ evsQ ++ NClose SA :: evs1 ++ NClose SB :: evs2) ->
  (* the handshake completes; A writes, B reads *)
  Forall (app_ev SA) evsH -> net_run st evsH = Ok stD ->
  Z.max (net_now st SA) (cA st) + max_rto_us + 2 * Dt < net_now stD SA ->
  (* the applications neither write nor close *)
  Forall qev evsQ -> net_run stD evsQ = Ok stQ ->
  (forall z, l_len (ep_written (net_get stQ z)) < 2 ^ 30) ->
  run_all qregime4 stD evsQ ->
  (l_len (ep_written (net_get stD SA)) - una_off (net_get stD SA)) +
  (l_len (ep_written (net_get stD SA)) - read_off (net_get stD SB)) <= Z.of_nat n ->
  net_now stD SA + Z.of_nat n * Wz Dt Da + 2 * Dt + Dack < net_now stQ SA ->
  (* A closes; B closes in CLOSE-WAIT *)
  net_step stQ (NClose SA) = Ok stC ->
  Forall (cl_ev SA false) evs1 -> net_run stC evs1 = Ok st_m -> net_now stQ SA + 2 * Dt < net_now st_m SA ->
  net_run st_m (NClose SB :: evs2) = Ok st' ->
  net_now st_m SA + 3 * Dt + tcp_CLOSE_DELAY < net_now st' SA ->
  (exists h1 h2 sth,
     evsH = h1 ++ h2 /\ net_run st h1 = Ok sth /\ net_run sth h2 = Ok stD /\
     (forall z, s_state (net_sock sth z) = Established) /\
     net_now sth SA <= Z.max (net_now st SA) (cA st) + max_rto_us + 2 * Dt) /\
  (exists p1 p2 sta,
     evsQ = p1 ++ p2 /\ net_run stD p1 = Ok sta /\ net_run sta p2 = Ok stQ /\
     una_off (net_get sta SA) = l_len (ep_written (net_get stD SA)) /\
     read_off (net_get sta SB) = l_len (ep_written (net_get stD SA))) /\
  (exists pre2 post st_c,
     evs2 = pre2 ++ post /\ net_run st_m (NClose SB :: pre2) = Ok st_c /\ net_run st_c post = Ok st' /\
     both_closed st_c)).
