(* Pins: full statements of the C06dns theorems; a weakened theorem no longer type-checks here.
   Generated once by tools/mkpins.py from Props/C06dns.v and then committed: edit both or neither. *)
From SV Require Import Lib.Base Gen.Consts Gen.WireFields Model.WireDns Proofs.WireDnsProofs.
From SV Require Import Model.WireBase Proofs.WireBaseProofs Model.WireSixFrag Model.WireNhc Proofs.LowpanWireProofs.
From SV Require Import Proofs.WireDnsEmitProofs.
From SV Require Import Props.C06dns.

Check (C06_dns_repr_emit_exact : forall r buf,
  0 <= rp_flags r < 65536 ->
  wdns_len buf = wdns_repr_buffer_len r ->
  wdns_repr_emit r buf = Ok (wdns_repr_bytes r)).

Check (C06_dns_repr_roundtrip : forall r buf,
  wdns_repr_wf r -> wdns_len buf = wdns_repr_buffer_len r ->
  exists b,
    wdns_repr_emit r buf = Ok b /\ b = wdns_repr_bytes r /\
    wdns_check_len b = Ok tt /\
    wdns_transaction_id b = Ok (rp_transaction_id r) /\
    wdns_flags b = Ok (Z.land (rp_flags r) wdns_FLAGS_ALL) /\
    wdns_opcode b = Ok (rp_opcode r) /\
    wdns_question_count b = Ok 1 /\ wdns_answer_record_count b = Ok 0 /\
    wdns_authority_record_count b = Ok 0 /\ wdns_additional_record_count b = Ok 0 /\
    (do pl <- wdns_payload b; wdns_question_parse pl) = Ok ([], rp_question r)).

Check (C06_dns_flags_word : forall f o, 0 <= o < 16 ->
  Z.land (wdns_flags_word f o) wdns_FLAGS_ALL = Z.land f wdns_FLAGS_ALL /\
  Z.land (Z.shiftr (wdns_flags_word f o) 11) 15 = o /\
  0 <= wdns_flags_word f o < 65536).

Check (C06_dns_name_part_app : forall name rest p,
  wdns_parse_name_part name = Ok ([], p) -> wdns_parse_name_part (name ++ rest) = Ok (rest, p)).
