(* Pins: full statements of the C08nhc theorems; a weakened theorem no longer type-checks here.
   Generated once by tools/mkpins.py from Props/C08nhc.v and then committed: edit both or neither. *)
From SV Require Import Lib.Base Gen.Consts Gen.WireFields Model.WireBase Model.WireSixFrag Model.WireNhc.
From SV Require Import Proofs.WireBaseProofs Proofs.LowpanWireProofs Proofs.NhcCksumProofs.
From SV Require Import Props.C08nhc.

Check (C08_nhc_udp_parse_enforces : forall b src dst r c,
  nhc_udp_parse b src dst true = Ok r -> nhc_udp_checksum b = Ok (Some c) ->
  exists payload,
    nhc_udp_payload b = Ok payload /\ c <> 0 /\
    wb_cksum_combine (nhc_udp_sum_words src dst (np_src r) (np_dst r) payload ++ [c]) = 65535).

Check (C08_nhc_udp_emitted_verifies : forall r src dst payload ck,
  nhc_ports_wf r = true -> is_arr 16 src = true -> is_arr 16 dst = true ->
  bytes_ok payload = true -> blen payload < 65528 ->
  nhc_udp_cksum src dst (np_src r) (np_dst r) payload = Ok ck ->
  nhc_udp_parse (nhc_udp_hdr_bytes r (nhc_ck_tx ck) ++ payload) src dst true = Ok r).

Check (C08_nhc_ck_tx_range : forall ck, 0 <= ck < 65536 -> 0 < nhc_ck_tx ck < 65536).

Check (C08_nhc_udp_elided_unverified_refuted :
  exists b src dst r, nhc_udp_checksum b = Ok None /\ nhc_udp_parse b src dst true = Ok r).
