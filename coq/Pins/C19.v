(* Pins: full statements of the C19 theorems; a weakened theorem no longer type-checks here.
   Generated once by tools/mkpins.py from Props/C19.v and then committed: edit both or neither. *)
From SV Require Import Lib.Base Gen.Consts Gen.WireFields Model.WireDns Model.Dns Proofs.WireDnsProofs Proofs.DnsProofs.
From SV Require Import Props.C19.

Check (C19_parse_name_terminates : forall packet bytes, nm_no_fuel (wdns_parse_name packet bytes)).

Check (C19_parse_name_measure : forall fuel packet bytes,
  (2 * length packet + length bytes < fuel)%nat -> nm_no_fuel (wdns_parse_name_go fuel packet bytes)).

Check (C19_parse_name_no_panic : forall packet bytes,
  Forall wdns_is_byte packet -> Forall wdns_is_byte bytes ->
  nm_no_panic (wdns_parse_name packet bytes)).

Check (C19_wire_parsers_total : forall buffer,
  (wdns_question_parse buffer <> Panic /\ wdns_question_parse buffer <> Err wdns_E_FUEL) /\
  (wdns_record_parse buffer <> Panic /\ wdns_record_parse buffer <> Err wdns_E_FUEL) /\
  (wdns_parse_name_part buffer <> Panic /\ wdns_parse_name_part buffer <> Err wdns_E_FUEL)).

Check (C19_process_total : forall cfg s dst_port pkt,
  0 <= c_max_name cfg -> sock_ok cfg s -> Forall wdns_is_byte pkt ->
  exists s', dns_process cfg s dst_port pkt = Ok s' /\ sock_ok cfg s' /\
             ds_servers s' = ds_servers s /\ length (ds_queries s') = length (ds_queries s)).

Check (C19_step_total : forall cfg s ev,
  cfg_ok cfg -> sock_ok cfg s -> ev_ok ev ->
  sock_ok cfg (fst (dns_step cfg s ev)) /\
  match ev with
  | EvPoll _ => exists txs, snd (dns_step cfg s ev) = ObPoll txs false
  | EvRsp _ _ _ _ => exists acc, snd (dns_step cfg s ev) = ObRsp acc
  | _ => True
  end).

Check (C19_reachable_ok : forall cfg servers n owned evs,
  cfg_ok cfg -> Forall ev_ok evs -> sock_ok cfg (dns_run cfg (dns_new cfg servers n owned) evs)).

Check (C19_completed_step : forall cfg s ev h addrs,
  ev_ok ev ->
  nth_error (ds_queries (fst (dns_step cfg s ev))) h = Some (Some (QCompleted addrs)) ->
  nth_error (ds_queries s) h = Some (Some (QCompleted addrs)) \/
  exists src sp dp pkt pq,
    ev = EvRsp src sp dp pkt /\ nth_error (ds_queries s) h = Some (Some (QPending pq)) /\
    dns_source_ok s src sp /\ dp = pq_port pq /\ dns_header_ok pkt (pq_txid pq) /\
    dns_answer_matches cfg pkt pq addrs).

Check (C19_completed_implies_match : forall cfg servers n owned evs h addrs,
  Forall ev_ok evs ->
  nth_error (ds_queries (dns_run cfg (dns_new cfg servers n owned) evs)) h = Some (Some (QCompleted addrs)) ->
  exists evs1 src sp dp pkt evs2 pq,
    evs = evs1 ++ EvRsp src sp dp pkt :: evs2 /\
    let s1 := dns_run cfg (dns_new cfg servers n owned) evs1 in
    nth_error (ds_queries s1) h = Some (Some (QPending pq)) /\
    dns_source_ok s1 src sp /\ dp = pq_port pq /\ dns_header_ok pkt (pq_txid pq) /\
    dns_answer_matches cfg pkt pq addrs).

Check (C19_completed_original_question : forall cfg servers n owned evs h addrs,
  cfg_ok cfg -> Forall ev_ok evs ->
  nth_error (ds_queries (dns_run cfg (dns_new cfg servers n owned) evs)) h = Some (Some (QCompleted addrs)) ->
  exists evs0 evq evm src sp dp pkt evs2 pq0 pq,
    evs = (evs0 ++ evq :: evm) ++ EvRsp src sp dp pkt :: evs2 /\
    ((exists name t tx pt, evq = EvQuery name t tx pt) \/ (exists raw t m tx pt, evq = EvQueryRaw raw t m tx pt)) /\
    nth_error (ds_queries (dns_run cfg (dns_new cfg servers n owned) (evs0 ++ [evq]))) h = Some (Some (QPending pq0)) /\
    pq_timeout_at pq0 = None /\
    nth_error (ds_queries (dns_run cfg (dns_new cfg servers n owned) (evs0 ++ evq :: evm))) h = Some (Some (QPending pq)) /\
    dns_qid pq = dns_qid pq0 /\
    dns_source_ok (dns_run cfg (dns_new cfg servers n owned) (evs0 ++ evq :: evm)) src sp /\
    dp = pq_port pq0 /\ dns_header_ok pkt (pq_txid pq0) /\
    dns_answer_matches cfg pkt pq addrs).

Check (C19_response_never_rewrites_query : forall cfg s src sp dp pkt s' acc h pq pq',
  dns_ingress cfg s src sp dp pkt = Ok (s', acc) ->
  nth_error (ds_queries s) h = Some (Some (QPending pq)) ->
  nth_error (ds_queries s') h = Some (Some (QPending pq')) -> pq' = pq).

Check (C19_query_identity_stable : forall cfg s ev h pq pq',
  cfg_ok cfg -> sock_ok cfg s ->
  nth_error (ds_queries s) h = Some (Some (QPending pq)) ->
  nth_error (ds_queries (fst (dns_step cfg s ev))) h = Some (Some (QPending pq')) ->
  dns_qid pq' = dns_qid pq).

Check (C19_on_chain_from_records : forall pkt head rs addrs a,
  dns_on_chain pkt head rs addrs -> In a addrs ->
  exists r, In r rs /\ (r_data r = RdA a \/ r_data r = RdAaaa a)).

Check (C19_nonmatching_ignored : forall cfg s src sp dp pkt s' acc h pq,
  dns_ingress cfg s src sp dp pkt = Ok (s', acc) ->
  nth_error (ds_queries s) h = Some (Some (QPending pq)) ->
  ~ (dns_source_ok s src sp /\ dp = pq_port pq /\ dns_header_ok pkt (pq_txid pq)) ->
  nth_error (ds_queries s') h = Some (Some (QPending pq))).

Check (C19_rejected_changes_nothing : forall cfg s src sp dp pkt s' acc,
  dns_ingress cfg s src sp dp pkt = Ok (s', acc) ->
  ~ dns_source_ok s src sp \/ (forall txid, ~ dns_header_ok pkt txid) ->
  s' = s).

Check (C19_wrong_question_ignored : forall cfg s src sp dp pkt s' acc h pq,
  dns_ingress cfg s src sp dp pkt = Ok (s', acc) ->
  nth_error (ds_queries s) h = Some (Some (QPending pq)) ->
  ~ dns_question_matches pkt pq ->
  nth_error (ds_queries s') h = Some (Some (QPending pq)) \/
  ((dns_source_ok s src sp /\ dp = pq_port pq /\ dns_header_ok pkt (pq_txid pq)) /\
   wdns_rcode pkt = Ok wdns_RCODE_NXDOMAIN /\
   nth_error (ds_queries s') h = Some (Some QFailure))).

Check (C19_other_slots_untouched : forall cfg s src sp dp pkt s' acc h,
  dns_ingress cfg s src sp dp pkt = Ok (s', acc) ->
  (forall pq, nth_error (ds_queries s) h <> Some (Some (QPending pq))) ->
  nth_error (ds_queries s') h = nth_error (ds_queries s) h).

Check (C19_query_terminates : forall cfg evs s now0 h pq N t0 t_last,
  cfg_ok cfg -> sock_ok cfg s ->
  nth_error (ds_queries s) h = Some (Some (QPending pq)) ->
  pq_timeout_at pq = None -> pq_server_idx pq = 0 ->
  dns_nsrv (pq_mdns pq) (ds_servers s) <= N ->
  Forall (dns_servers_le cfg (pq_mdns pq) N) evs ->
  dns_sched cfg h (pq_port pq) (pq_txid pq) s now0 evs ->
  dns_ghost None now0 evs = (Some t0, t_last) ->
  t0 + N * dns_RETRANSMIT_TIMEOUT <= t_last ->
  nth_error (ds_queries (dns_run cfg s evs)) h = Some (Some QFailure)).

Check (C19_query_terminates_any_servers : forall cfg evs s now0 h pq t0 t_last,
  cfg_ok cfg -> sock_ok cfg s -> 0 <= c_max_servers cfg ->
  Z.of_nat (length (ds_servers s)) <= c_max_servers cfg ->
  nth_error (ds_queries s) h = Some (Some (QPending pq)) ->
  pq_timeout_at pq = None -> pq_server_idx pq = 0 ->
  dns_sched cfg h (pq_port pq) (pq_txid pq) s now0 evs ->
  dns_ghost None now0 evs = (Some t0, t_last) ->
  t0 + dns_max_nsrv cfg (pq_mdns pq) * dns_RETRANSMIT_TIMEOUT <= t_last ->
  nth_error (ds_queries (dns_run cfg s evs)) h = Some (Some QFailure)).

Check (C19_hop_limit_legal : forall cfg servers n owned evs,
  Forall ev_ok evs ->
  1 <= dns_tx_hop (dns_run cfg (dns_new cfg servers n owned) evs) <= 255).

Check (C19_set_hop_limit_zero_panics : forall s, dns_set_hop_limit s (Some 0) = (s, Panic)).

Check (C19_start_query_fresh : forall cfg s name t txid port s' h,
  dns_start_query cfg s name t txid port = (s', Ok h) ->
  exists raw mdns,
    nth_error (ds_queries s') h =
    Some (Some (QPending (mkPending raw t port txid None 0 dns_RETRANSMIT_DELAY 0 mdns))) /\
    ds_servers s' = ds_servers s).

Check (C19_poll_at_covers_deadline : forall s h pq,
  nth_error (ds_queries s) h = Some (Some (QPending pq)) ->
  exists d, dns_poll_at s = Some d /\ d <= dns_pq_deadline pq).

Check (C19_poll_no_spin : forall cfg s now s' txs hang d,
  cfg_ok cfg -> sock_ok cfg s -> dns_poll cfg s now = Ok (s', txs, hang) ->
  dns_poll_at s' = Some d -> now < d).

Check (C19_poll_is_one_dispatch_each : forall cfg s now,
  cfg_ok cfg -> sock_ok cfg s ->
  exists txs,
    dns_poll cfg s now =
    Ok (mkSock (ds_servers s) (map (dns_done_slot cfg (ds_servers s) now) (ds_queries s)) (ds_owned s) (ds_hop_limit s), txs, false)).

Check (C19_dispatch_backoff_failover : forall cfg servers now pq,
  cfg_ok cfg -> pq_ok cfg pq ->
  let pq2 := dns_pq2 now pq in
  let srv := dns_eff_servers servers pq in
  exists r, dns_dispatch_query cfg servers now true pq = Ok r /\
    ( (r = DqContinue QFailure /\
       (Z.of_nat (length srv) <= pq_server_idx pq2 \/
        exists dst, nth_error srv (Z.to_nat (pq_server_idx pq2)) = Some dst /\
                    (dns_is_unspecified dst = true \/
                     (pq_retransmit_at pq2 <= now /\ dns_get_source_address cfg dst = false))))
   \/ (r = DqContinue (QPending pq2) /\ pq_server_idx pq2 < Z.of_nat (length srv) /\ now < pq_retransmit_at pq2 /\
       exists dst, nth_error srv (Z.to_nat (pq_server_idx pq2)) = Some dst /\ dns_is_unspecified dst = false)
   \/ (exists tx dst, r = DqEmit (QPending (dns_pq_sent now pq2)) tx /\
         pq_server_idx pq2 < Z.of_nat (length srv) /\ pq_retransmit_at pq2 <= now /\
         nth_error srv (Z.to_nat (pq_server_idx pq2)) = Some dst /\ dns_is_unspecified dst = false /\
         tx_dst_addr tx = dst /\ tx_src_port tx = pq_port pq /\
         tx_dst_port tx = (if pq_mdns pq then dns_MDNS_DNS_PORT else dns_DNS_PORT)) )).

Check (C19_constants :
  dns_RETRANSMIT_TIMEOUT = 10 * 1000000 /\ dns_RETRANSMIT_DELAY = 1000000 /\
  dns_MAX_RETRANSMIT_DELAY = 10 * 1000000 /\ dns_DNS_PORT = 53 /\ dns_MDNS_DNS_PORT = 5353 /\
  wdns_f_HEADER_END = 12 /\ wdns_CLASS_IN = 1 /\
  (forall b, cfg_ok (dns_cfg_default b)) /\ 1 <= cfg_DNS_MAX_RESULT_COUNT /\ 1 <= cfg_DNS_MAX_SERVER_COUNT).

Check (C19_example_names :
  wdns_parse_name wdns_example_response [192; 33] = NmLabel [99] (NmLabel [98] NmEnd) /\
  wdns_parse_name wdns_example_response [192; 12] = NmLabel [97] (NmLabel [98] NmEnd) /\
  wdns_parse_name [192; 0] [192; 0] = NmErr /\
  wdns_parse_name [192; 2; 192; 0] [192; 2; 192; 0] = NmErr /\
  wdns_parse_name [192; 2; 1; 97; 0] [192; 2; 1; 97; 0] = NmLabel [97] NmEnd).

Check (C19_example :
  nth_error (ds_queries (dns_run c19_cfg c19_started [EvRsp c19_server 53 50000 wdns_example_response])) 0
    = Some (Some (QCompleted [[1; 2; 3; 4]])) /\
  dns_run c19_cfg c19_started [EvRsp [10; 0; 0; 99] 53 50000 wdns_example_response] = c19_started /\
  dns_run c19_cfg c19_started [EvRsp c19_server 54 50000 wdns_example_response] = c19_started /\
  dns_run c19_cfg c19_started [EvRsp c19_server 53 50001 wdns_example_response] = c19_started /\
  dns_run c19_cfg c19_started [EvRsp c19_server 53 50000 (18 :: 53 :: skipn 2 wdns_example_response)] = c19_started /\
  dns_run_obs c19_cfg c19_s0
    [EvQuery [97; 46; 98] 1 4660 50000; EvPoll 0; EvPoll 1000000; EvPoll 3000000; EvPoll 7000000; EvPoll 10000000]
    = [Some 0; Some 1000000; Some 3000000; Some 7000000; Some 10000000; None] /\
  nth_error (ds_queries (dns_run c19_cfg c19_started
     [EvPoll 1000000; EvPoll 3000000; EvPoll 7000000; EvPoll 10000000])) 0 = Some (Some QFailure)).

Check (C19_example_servers :
  nth_error (ds_queries (dns_run c19_cfg c19_started [EvServers []; EvPoll 1000000])) 0 = Some (Some QFailure) /\
  (exists pl, snd (dns_step c19_cfg (dns_run c19_cfg c19_started [EvServers [[10; 0; 0; 11]]]) (EvPoll 1000000))
              = ObPoll [mkTx [10; 0; 0; 11] 50000 53 pl] false) /\
  dns_run_obs c19_cfg c19_started [EvServers [[10; 0; 0; 11]]; EvPoll 1000000; EvPoll 3000000; EvPoll 7000000; EvPoll 10000000]
    = [Some 1000000; Some 3000000; Some 7000000; Some 10000000; None] /\
  dns_run c19_cfg c19_started [EvServers [[10; 0; 0; 11]]; EvRsp c19_server 53 50000 wdns_example_response]
    = dns_run c19_cfg c19_started [EvServers [[10; 0; 0; 11]]] /\
  ds_servers (dns_run c19_cfg c19_started [EvServers [[10; 0; 0; 11]; [10; 0; 0; 12]]]) = [[10; 0; 0; 11]] /\
  dns_step c19_cfg c19_started (EvHop (Some 0)) = (c19_started, ObHop Panic) /\
  dns_tx_hop c19_started = 64 /\
  dns_tx_hop (dns_run c19_cfg c19_started [EvHop (Some 7)]) = 7).

Check (C19_example_cname_twostep :
  dns_run c19_cfg c19_started [EvRsp c19_server 53 50000 c19_rsp_cname_cut] = c19_started /\
  dns_run c19_cfg c19_started [EvRsp c19_server 53 50000 c19_rsp_cname_cut;
                               EvRsp c19_server 53 50000 c19_rsp_other_question] = c19_started /\
  (exists st, dns_process_query c19_cfg c19_rsp_cname_cut
                (mkPending [1; 97; 1; 98; 0] 1 50000 4660 (Some 10000000) 1000000 2000000 0 false) = Ok (QPending st))).
