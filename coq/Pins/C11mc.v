(* Pins: full statements of the C11mc theorems; a weakened theorem no longer type-checks here.
   Generated once by tools/mkpins.py from Props/C11mc.v and then committed: edit both or neither. *)
From SV Require Import Lib.Base Gen.Consts Gen.WireFields Model.Addr Model.Ingress Model.WireIgmp Model.Multicast.
From SV Require Import Proofs.IngressProofs Proofs.MulticastProofs.
From SV Require Import Props.C11mc.

Check (C11mc_has_group_iff_joined : forall st g,
  tbl_inv (mc_groups st) -> (mc_has_multicast_group st g = true <-> joined (mc_iface st) g)).

Check (C11mc_has_group_exactly : forall st g,
  tbl_inv (mc_groups st) ->
  (mc_has_multicast_group st g = true <->
   (exists s, In (g, s) (mc_groups st) /\ s <> GLeaving) \/
   g = V4 v4_MULTICAST_ALL_SYSTEMS \/ g = V6 v6_LINK_LOCAL_ALL_NODES \/
   exists b pl, In (mkCidr (V6 b) pl) (mc_addrs st) /\ b <> v6_LOCALHOST /\ g = V6 (v6_solicited_node b))).

Check (C11mc_join_ok_member : forall st g,
  tbl_inv (mc_groups st) -> snd (mc_join st g) = mc_OK ->
  ip_is_multicast g = true /\ mc_state_has (mc_groups (fst (mc_join st g))) g = true).

Check (C11mc_join_unaddressable : forall st g,
  ip_is_multicast g = false -> mc_join st g = (st, mc_UNADDRESSABLE)).

Check (C11mc_join_other_groups_untouched : forall st g h,
  h <> g -> mc_get h (mc_groups (fst (mc_join st g))) = mc_get h (mc_groups st)).

Check (C11mc_join_full_table_fails : forall st g,
  ip_is_multicast g = true -> mc_get g (mc_groups st) = None ->
  Z.of_nat (length (mc_groups st)) >= cfg_IFACE_MAX_MULTICAST_GROUP_COUNT ->
  mc_join st g = (st, mc_GROUP_TABLE_FULL)).

Check (C11mc_join_fails_only_when_full : forall st g,
  snd (mc_join st g) = mc_GROUP_TABLE_FULL ->
  fst (mc_join st g) = st /\ mc_get g (mc_groups st) = None /\
  Z.of_nat (length (mc_groups st)) >= cfg_IFACE_MAX_MULTICAST_GROUP_COUNT).

Check (C11mc_table_bounded : forall evs st st' obs,
  mc_inv st -> Forall (ev_ok (mc_medium st)) evs -> mc_run st evs = Ok (st', obs) ->
  Z.of_nat (length (mc_groups st')) <= cfg_IFACE_MAX_MULTICAST_GROUP_COUNT /\ NoDup (keys (mc_groups st'))).

Check (C11mc_leave_then_egress : forall st g dev now st' dev' pkts,
  mc_inv st -> ip_is_multicast g = true ->
  let st1 := fst (mc_leave st g) in
  snd (mc_leave st g) = mc_OK /\
  mc_state_has (mc_groups st1) g = false /\
  (mc_multicast_egress st1 dev now = Ok (st', dev', pkts) ->
   mc_state_has (mc_groups st') g = false /\
   (forallb (fun b => b) dev = true ->
    (count_state GJoining (mc_groups st1) + count_state GLeaving (mc_groups st1) <= length dev)%nat ->
    mc_get g (mc_groups st') = None))).

Check (C11mc_leave_other_groups_untouched : forall st g h,
  NoDup (keys (mc_groups st)) -> h <> g ->
  mc_get h (mc_groups (fst (mc_leave st g))) = mc_get h (mc_groups st)).

Check (C11mc_egress_preserves_membership : forall st dev now st' dev' pkts,
  mc_inv st -> mc_multicast_egress st dev now = Ok (st', dev', pkts) ->
  forall g, mc_has_multicast_group st' g = mc_has_multicast_group st g).

Check (C11mc_reports_only_for_members : forall st dev now st' dev' pkts,
  mc_inv st -> mc_multicast_egress st dev now = Ok (st', dev', pkts) ->
  Forall (pkt_groups_ok st) pkts /\ Forall (pkt_groups_ok st') pkts).
