(* Pins: full statements of the C02liveZw3 theorems; a weakened theorem no longer type-checks here.
   Generated once by tools/mkpins.py from Props/C02liveZw3.v and then committed: edit both or neither. *)
From SV Require Import Lib.Base Gen.Consts.
From SV Require Import Model.Seq32 Model.Assembler Model.TcpBuf Model.TcpTypes Model.Tcp Model.TcpNet.
From SV Require Import Proofs.TcpSendBase Proofs.TcpLiveBase Proofs.TcpLiveProofs Proofs.TcpLiveMore Proofs.TcpLiveProgress.
From SV Require Import Proofs.TcpNetBase.
From SV Require Import Proofs.TcpProgressBase Proofs.TcpProgressFrame Proofs.TcpProgressCtl Proofs.TcpProgressRecv Proofs.TcpProgressSend Proofs.TcpProgressNet Proofs.TcpProgressData Proofs.TcpProgressAck Proofs.TcpProgressAll Proofs.TcpProgressSafe Proofs.TcpProgressZwp Proofs.TcpProgressExample Proofs.TcpProgressWitness Proofs.TcpProgressSafeWitness Proofs.TcpProgressZwDup Proofs.TcpProgressZw1 Proofs.TcpProgressZw1b Proofs.TcpProgressZw2 Proofs.TcpProgressZw3 Proofs.TcpProgressZwWitness Proofs.TcpProgressZw4 Proofs.TcpProgressZw5 Proofs.TcpProgressZwWitness2.
From SV Require Import Props.C02liveZw3.

Check (C02live_round_without_open_window : forall x Dt Da Dack evs fa st st' u0 d0,
  0 <= Dt -> 0 <= Da ->
  NI st -> opts_ok st -> dl_sync Da fa st -> dlb Dt fa st ->
  run_all (zsafe2 x Dack) st evs -> fair_run Dt Da fa st evs -> once_run Dt Da fa st evs -> net_run st evs = Ok st' ->
  una_off (net_get st x) = u0 -> read_off (net_get st (side_other x)) = d0 ->
  (0 < txl x st \/ d0 < rcv_off (net_get st (side_other x))) ->
  net_now st x + Wz Dt Da < net_now st' x ->
  exists pre post fa1 st1,
    evs = pre ++ post /\ net_run st pre = Ok st1 /\ net_run st1 post = Ok st' /\
    run_all (zsafe2 x Dack) st1 post /\ fair_run Dt Da fa1 st1 post /\ once_run Dt Da fa1 st1 post /\
    NI st1 /\ opts_ok st1 /\ dl_sync Da fa1 st1 /\ dlb Dt fa1 st1 /\
    G x u0 d0 st1 /\ net_now st1 x <= net_now st x + Wz Dt Da).

Check (C02live_all_written_bytes_eventually_delivered_zero_windows : forall x Dt Da Dack n evs fa st st' L0,
  0 <= Dt -> 0 <= Da ->
  NI st -> opts_ok st -> dl_sync Da fa st -> dlb Dt fa st ->
  run_all (zsafe2 x Dack) st evs -> fair_run Dt Da fa st evs -> once_run Dt Da fa st evs -> net_run st evs = Ok st' ->
  L0 <= l_len (ep_written (net_get st x)) ->
  Z.max 0 (L0 - una_off (net_get st x)) + Z.max 0 (L0 - read_off (net_get st (side_other x))) <= Z.of_nat n ->
  net_now st x + Z.of_nat n * Wz Dt Da < net_now st' x ->
  exists pre post st1, evs = pre ++ post /\ net_run st pre = Ok st1 /\ net_run st1 post = Ok st' /\
                       L0 <= read_off (net_get st1 (side_other x))).

Check (C02live_zero_window_regime_discharged : forall x Dack evs st st',
  reach st -> NI st -> opts_ok st -> reg x Dack st ->
  Forall (script_ev x) evs -> net_run st evs = Ok st' ->
  TcpNetInv.small st' -> wr_small x st' -> run_all (zextra x) st evs ->
  run_all (zsafe2 x Dack) st evs).

Check (C02live_delivery_zero_windows_included : forall x Dt Da Dack n evs st st' L0,
  reach st -> reg x Dack st ->
  reliable_schedule Dt Da st evs ->
  Forall (app_ev x) evs -> net_run st evs = Ok st' ->
  (forall z, l_len (ep_written (net_get st' z)) < 2 ^ 30) ->
  run_all (zextra x) st evs ->
  L0 <= l_len (ep_written (net_get st x)) ->
  Z.max 0 (L0 - una_off (net_get st x)) + Z.max 0 (L0 - read_off (net_get st (side_other x))) <= Z.of_nat n ->
  net_now st x + Z.of_nat n * Wz Dt Da < net_now st' x ->
  exists pre post st1, evs = pre ++ post /\ net_run st pre = Ok st1 /\ net_run st1 post = Ok st' /\
                       L0 <= read_off (net_get st1 (side_other x))).

Check (C02live_delivery_zero_windows_applies :
  exists st0 st st',
    net_init zcfg_a zcfg_b = Ok st0 /\ net_run st0 zww_prefix = Ok st /\ net_run st zwd_suffix = Ok st' /\
    reach st /\ reg SA 10000 st /\ reliable_schedule 5000 5000 st zwd_suffix /\ Forall (app_ev SA) zwd_suffix /\
    run_all (zextra SA) st zwd_suffix /\ s_remote_win_len (net_sock st SA) = 0 /\
    exists p1 p2 st1, zwd_suffix = p1 ++ p2 /\ net_run st p1 = Ok st1 /\ net_run st1 p2 = Ok st' /\
                      12 <= read_off (net_get st1 SB)).
