(* Pins: full statements of the C02liveSafe theorems; a weakened theorem no longer type-checks here.
   Generated once by tools/mkpins.py from Props/C02liveSafe.v and then committed: edit both or neither. *)
From SV Require Import Lib.Base Gen.Consts.
From SV Require Import Model.Seq32 Model.Assembler Model.TcpBuf Model.TcpTypes Model.Tcp Model.TcpNet.
From SV Require Import Proofs.TcpSendBase Proofs.TcpLiveBase Proofs.TcpLiveProofs Proofs.TcpLiveMore Proofs.TcpLiveProgress.
From SV Require Import Proofs.TcpNetBase.
From SV Require Import Proofs.TcpProgressBase Proofs.TcpProgressFrame Proofs.TcpProgressCtl Proofs.TcpProgressRecv Proofs.TcpProgressSend Proofs.TcpProgressNet Proofs.TcpProgressData Proofs.TcpProgressAck Proofs.TcpProgressAll Proofs.TcpProgressSafe Proofs.TcpProgressHs Proofs.TcpProgressHsD Proofs.TcpProgressHsNet Proofs.TcpProgressHsInit Proofs.TcpProgressExample Proofs.TcpProgressWitness Proofs.TcpProgressSafeWitness.
From SV Require Import Props.C02liveSafe.

Check (C02live_no_keep_alive_deadline : forall cx s ev s' out tags,
  run_ev ev -> tcp_step cx s ev = Ok (s', out, tags) ->
  s_keep_alive s = None -> noka (s_timer s) -> s_keep_alive s' = None /\ noka (s_timer s')).

Check (C02live_process_reply_shape : forall cx s ip r s' rep tags,
  tcp_process cx s ip r = Ok (s', rep, tags) -> reply_shape ip r s s' rep).

Check (C02live_established_stays : forall cx s ip r s' rep tags,
  s_state s = Established -> r_control r <> CFin -> r_control r <> CRst ->
  tcp_process cx s ip r = Ok (s', rep, tags) -> stf s' s).

Check (C02live_established_transmits : forall cx s ok s' res tags t,
  s_state s = Established -> s_state s' = Established ->
  s_tuple s = Some t -> tu_local_addr t = cx_addr cx ->
  s_keep_alive s = None -> noka (s_timer s) ->
  tcp_dispatch cx s ok = Ok (s', res, tags) ->
  s_tuple s' = Some t /\
  forall p, res = DSent p ->
    ip_src (fst p) = tu_local_addr t /\ ip_dst (fst p) = tu_remote_addr t /\
    r_src_port (snd p) = tu_local_port t /\ r_dst_port (snd p) = tu_remote_port t /\
    (r_control (snd p) = CNone \/ r_control (snd p) = CPsh) /\
    (TcpSendBase.rb_wf (s_tx_buffer s) -> rb_len (s_tx_buffer s) = 0 ->
     r_control (snd p) = CNone /\ r_payload (snd p) = [] /\ r_seq_number (snd p) = tcp_send_next_seq s')).

Check (C02live_network_invariant_reached : forall x st,
  reach st -> TcpNetInv.small st -> (forall z, ep_closed (net_get st z) = false) -> inv_at x st).

Check (C02live_regime_gives_safety : forall x Dack st,
  NI st -> reg x Dack st -> inv_at x st -> win_open x st -> wr_small x st -> safe3 x Dack st).

Check (C02live_regime_step : forall x Dack st ev st',
  NI st -> opts_ok st -> reg x Dack st -> inv_at x st -> inv_at x st' -> script_ev x ev ->
  net_step st ev = Ok st' -> reg x Dack st').

Check (C02live_safety_discharged : forall x Dack evs st st',
  reach st -> NI st -> opts_ok st -> reg x Dack st ->
  Forall (script_ev x) evs -> net_run st evs = Ok st' ->
  TcpNetInv.small st' -> wr_small x st' -> run_all (win_open x) st evs ->
  run_all (safe3 x Dack) st evs).

Check (C02live_delivery_from_established : forall x Dt Da Dack n m evs st st' L0,
  reach st -> reg x Dack st ->
  fair_schedule Dt Da st evs -> 0 <= Dack ->
  Forall (app_ev x) evs -> net_run st evs = Ok st' ->
  (forall z, l_len (ep_written (net_get st' z)) < 2 ^ 30) ->
  run_all (win_open x) st evs ->
  L0 <= l_len (ep_written (net_get st x)) ->
  L0 - una_off (net_get st x) <= Z.of_nat n ->
  L0 - read_off (net_get st (side_other x)) <= Z.of_nat m ->
  net_now st x + Z.of_nat n * W3 Dt Dack + Z.of_nat m * Da < net_now st' x ->
  exists pre post st1, evs = pre ++ post /\ net_run st pre = Ok st1 /\ net_run st1 post = Ok st' /\
                       L0 <= read_off (net_get st1 (side_other x))).

Check (C02live_discharge_applies :
  exists st0 st st',
    net_init ex_cfg_a ex_cfg_b = Ok st0 /\ net_run st0 wit_prefix = Ok st /\ net_run st wit_suffix = Ok st' /\
    reach st /\ reg SA 10000 st /\ fair_schedule 5000 5000 st wit_suffix /\ Forall (app_ev SA) wit_suffix /\
    run_all (win_open SA) st wit_suffix /\
    exists p1 p2 st1, wit_suffix = p1 ++ p2 /\ net_run st p1 = Ok st1 /\ net_run st1 p2 = Ok st' /\
                      5 <= read_off (net_get st1 SB)).
