(* Pins: full statements of the C04 theorems; a weakened theorem no longer type-checks here.
   Generated once by tools/mkpins.py from Props/C04.v and then committed: edit both or neither. *)
From SV Require Import Lib.Base Gen.Consts.
From SV Require Import Model.Seq32 Model.Assembler Model.TcpBuf Model.TcpTypes Model.Tcp.
From SV Require Import Proofs.AssemblerProofs Proofs.TcpRecvBase Proofs.TcpRecvWindow Proofs.TcpRecvPayload Proofs.TcpRecvInv Proofs.TcpRecvProcess Proofs.TcpRecvStep Proofs.TcpRecvSync Proofs.TcpRecvDispatch Proofs.TcpRecvTrace Proofs.TcpRecvTheorems Proofs.TcpRecvExample.
From SV Require Import Props.C04.

Check (C04_step_inv : forall (S : nat -> Z -> Z) (F : nat -> option Z),
  (forall e f, F e = Some f -> 0 <= f) ->
  forall cx g s ev s' out tags,
  ginv S F g s -> ev_ok S F g s ev -> tcp_step cx s ev = Ok (s', out, tags) ->
  step_post S F g s ev (ghost_step cx g s ev s' out) s' out).

Check (C04_rx_invariant_preserved : forall (S : nat -> Z -> Z) (F : nat -> option Z),
  (forall e f, F e = Some f -> 0 <= f) ->
  forall s g, rx_reach S F s g -> ginv S F g s).

Check (C04_rx_invariant_all_sequences : forall (S : nat -> Z -> Z) (F : nat -> option Z),
  (forall e f, F e = Some f -> 0 <= f) ->
  forall rxs txs cc ts s0 evs,
  tcp_new rxs txs cc ts = Ok s0 -> admissible S F s0 g_init evs ->
  let '(s, g) := run_events s0 g_init evs (ev_ok S F) in ginv S F g s).

Check (C04_rx_delivered_prefix : forall (S : nat -> Z -> Z) (F : nat -> option Z),
  (forall e f, F e = Some f -> 0 <= f) ->
  forall s g, rx_reach S F s g -> g_irs g <> None ->
  l_len (g_delivered g) = g_consumed g /\
  forall j, 0 <= j < g_consumed g -> znth (g_delivered g) j = S (g_epoch g) j).

Check (C04_rx_recv_next : forall (S : nat -> Z -> Z) (F : nat -> option Z),
  (forall e f, F e = Some f -> 0 <= f) ->
  forall s g cx n s' b tags,
  rx_reach S F s g -> 0 <= n -> tcp_step cx s (EvRecv n) = Ok (s', OBytes b, tags) ->
  forall j, 0 <= j < l_len b -> znth b j = S (g_epoch g) (g_consumed g + j)).

Check (C04_rx_never_beyond_advertised : forall (S : nat -> Z -> Z) (F : nat -> option Z),
  (forall e f, F e = Some f -> 0 <= f) ->
  forall s g cx ip r s' out tags,
  rx_reach S F s g -> ev_ok S F g s (EvSegment ip r) ->
  tcp_step cx s (EvSegment ip r) = Ok (s', out, tags) ->
  forall i, rb_len (s_rx_buffer s) + adv_width s <= i < rb_cap (s_rx_buffer s) ->
            znth (rb_store (s_rx_buffer s')) (rb_get_idx (s_rx_buffer s) i) = rb_cell (s_rx_buffer s) i).

Check (C04_ack_never_ahead : forall (S : nat -> Z -> Z) (F : nat -> option Z),
  (forall e f, F e = Some f -> 0 <= f) ->
  forall s g cx ev s' out tags p,
  rx_reach S F s g -> ev_ok S F g s ev -> tcp_step cx s ev = Ok (s', out, tags) ->
  emitted out = Some p ->
  ack_ok F (ghost_step cx g s ev s' out) s' p).

Check (C04_finished_only_when_complete : forall (S : nat -> Z -> Z) (F : nat -> option Z),
  (forall e f, F e = Some f -> 0 <= f) ->
  forall s g cx n s' tags,
  rx_reach S F s g -> 0 <= n -> tcp_step cx s (EvRecv n) = Ok (s', OErr 2, tags) ->
  F (g_epoch g) = Some (g_consumed g) /\ l_len (g_delivered g) = g_consumed g /\
  forall j, 0 <= j < g_consumed g -> znth (g_delivered g) j = S (g_epoch g) j).

Check (C04_process_rx_no_panic : forall (S : nat -> Z -> Z) (F : nat -> option Z),
  (forall e f, F e = Some f -> 0 <= f) ->
  forall s g cx ip r,
  rx_reach S F s g -> ev_ok S F g s (EvSegment ip r) -> tcp_accepts s ip r = true ->
  tcp_process_window cx s ip r <> Panic /\
  (forall n, tcp_recv_slice s n <> Panic) /\
  tcp_last_scaled_window s <> Panic /\
  (forall t2 s2 payload off s7,
     tcp_process_window cx s ip r = Ok (Cont t2 (s2, payload, off)) ->
     s_rx_buffer s7 = s_rx_buffer s -> s_assembler s7 = s_assembler s ->
     tcp_process_payload cx s7 ip r payload off <> Panic)).

Check (C04_segment_in_window_sound : forall WS W d len,
  0 <= W <= p30 -> 0 <= len <= p30 -> -2147483648 <= d < 2147483648 ->
  fst (tcp_segment_in_window (seq_norm WS) (seq_norm (WS + W)) (seq_norm (WS + d))
                             (seq_norm (WS + d + len))) = true ->
  in_window_Z W d len).

Check (C04_process_synced : forall (S : Z -> Z) (F : option Z) have irs c s cx ip r s' rep tags,
  rx_synced S F have irs c s -> seg_ok S F c s r ->
  tcp_process cx s ip r = Ok (s', rep, tags) ->
  reply_ok s' rep /\
  (rx_synced S F (have_seg have c s r) irs c s' \/
   (rx_unsynced s' /\ s_state s' = Listen /\ rep = None /\ c = 0 /\
    rb_len (s_rx_buffer s) = 0 /\ s_rx_fin_received s = false)) /\
  beyond_untouched s' s /\
  (s_rx_fin_received s' = true -> s_rx_fin_received s = true \/ r_control r = CFin) /\
  wsq c s <= wsq c s').

Check (C04_example_reachable :
  exists g, rx_reach ex_S ex_F ex_s5 g /\ g_irs g = Some 1000 /\ g_consumed g = 0 /\ g_epoch g = 1%nat).

Check (C04_example_state :
  s_assembler ex_s5 = [mkContig 4 3] /\ rb_len (s_rx_buffer ex_s5) = 0 /\
  s_remote_last_ack ex_s5 = Some 1001 /\ s_state ex_s5 = Established /\
  map (rb_cell (s_rx_buffer ex_s5)) [4; 5; 6] = [ex_S 1 4; ex_S 1 5; ex_S 1 6]).

Check (C04_configured_assembler_capacity : 1 <= cfg_ASSEMBLER_MAX_SEGMENT_COUNT).
