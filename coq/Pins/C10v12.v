(* Pins: full statements of the C10v12 theorems; a weakened theorem no longer type-checks here.
   Generated once by tools/mkpins.py from Props/C10v12.v and then committed: edit both or neither. *)
From SV Require Import Lib.Base Gen.Consts Gen.WireFields Model.Assembler Proofs.AssemblerProofs.
From SV Require Import Model.Frag4 Model.Reasm Model.Egress Proofs.Frag4Proofs Proofs.ReasmProofs.
From SV Require Import Props.C12.
From SV Require Import Props.C10v12.

Check (C10_via_C12_fragments_cover_exactly : forall ip_mtu ident fr0 P,
  f4_hdr + 8 <= ip_mtu -> fr_finished fr0 = true ->
  ip_mtu < f4_hdr + zlen P -> f4_hdr + zlen P <= zlen (fr_buffer fr0) ->
  let frs := f4_fragment_datagram ip_mtu ident fr0 P in
  concat (map p_payload frs) = P /\
  offsets_consistent 0 frs /\
  mf_all_but_last frs /\
  Forall (fun p => p_ident p = ident) frs /\
  Forall (fun p => f4_hdr + zlen (p_payload p) <= ip_mtu) frs /\
  Forall (fun p => p_offset p mod 8 = 0) frs /\
  (2 <= length frs)%nat).

Check (C10_via_C12_fragments_cover_exactly_mtu68 : forall m mtu ident fr0 P,
  68 <= mtu -> fr_finished fr0 = true ->
  zlen (fr_buffer fr0) = cfg_FRAGMENTATION_BUFFER_SIZE ->
  f4_ip_mtu m mtu < f4_hdr + zlen P -> f4_hdr + zlen P <= cfg_FRAGMENTATION_BUFFER_SIZE ->
  let frs := f4_fragment_datagram (f4_ip_mtu m mtu) ident fr0 P in
  concat (map p_payload frs) = P /\
  offsets_consistent 0 frs /\
  mf_all_but_last frs /\
  Forall (fun p => p_ident p = ident) frs /\
  Forall (fun p => f4_hdr + zlen (p_payload p) <= f4_ip_mtu m mtu) frs /\
  Forall (fun p => p_offset p mod 8 = 0) frs /\
  (2 <= length frs)%nat).

Check (C10_via_C12_small_datagram_whole : forall ip_mtu ident fr P,
  f4_hdr + zlen P <= ip_mtu ->
  f4_dispatch_ip ip_mtu ident fr P = (fr, [mkPkt 0 0 false P], DipSent)).
