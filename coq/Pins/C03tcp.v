(* Pins: full statements of the C03tcp theorems; a weakened theorem no longer type-checks here.
   Generated once by tools/mkpins.py from Props/C03tcp.v and then committed: edit both or neither. *)
From SV Require Import Lib.Base Gen.Consts.
From SV Require Import Model.Seq32 Model.Assembler Model.TcpBuf Model.TcpTypes Model.Tcp.
From SV Require Import Proofs.TcpSendBase Proofs.TcpSendInv Proofs.TcpLiveBase Proofs.TcpLiveProofs.
From SV Require Import Proofs.TcpBurstBase Proofs.TcpBurstStep Proofs.TcpBurstEmit Proofs.TcpBurstProofs.
From SV Require Import Model.EgressLoop Proofs.EgressLoopProofs Proofs.TcpBurstLoop.
From SV Require Import Proofs.TcpBurstExamples Proofs.TcpBurstInv.
From SV Require Import Proofs.AssemblerProofs Proofs.TcpRecvBase Proofs.TcpRecvWindow Proofs.TcpRecvPayload Proofs.TcpRecvInv Proofs.TcpBurstRx.
From SV Require Import Proofs.TcpSendTrace.
From SV Require Import Props.C03tcp.

Check (C03_tcp_burst_step : forall cx s s' p tags,
  binv cx s -> tcp_dispatch cx s true = Ok (s', DSent p, tags) ->
  mu cx s' < mu cx s /\ (s_tuple s' = None \/ binv cx s')).

Check (C03_tcp_burst_measure_bounds : forall cx s,
  binv cx s -> 0 <= mu cx s <= burst_bound cx s).

Check (C03_tcp_egress_burst_terminates : forall cx s n s',
  binv cx s -> burst_run cx s n s' ->
  Z.of_nat n <= mu cx s /\ mu cx s <= burst_bound cx s).

Check (C03_tcp_poll_egress_returns : forall fuel cx s budget s' sent tags fin,
  binv cx s ->
  iface_poll_egress fuel cx s budget = Ok (s', sent, tags, fin) ->
  Z.of_nat (length sent) <= mu cx s /\ mu cx s <= burst_bound cx s /\
  (burst_bound cx s < Z.of_nat fuel -> fin = true)).

Check (C03_tcp_ingress_reply_bounded : forall cx s ip r s' reply tags,
  iface_tcp_ingress cx s ip r = Ok (s', reply, tags) ->
  (length (replies reply) <= 1)%nat /\
  forall p, reply = Some p ->
    r_payload (snd p) = [] /\ (r_control (snd p) = CNone \/ r_control (snd p) = CRst)).

Check (C03_tcp_burst_example :
  binv (bx_cx 1000 1500) ex1 /\
  s_state ex1 = Established /\ rb_len (s_tx_buffer ex1) = 200 /\ s_remote_mss ex1 = 48 /\
  mu (bx_cx 1000 1500) ex1 = 7 /\ burst_bound (bx_cx 1000 1500) ex1 = 11 /\
  ex1_poll = Some ([48; 48; 48; 48; 8], true, 1)).

Check (C03_tcp_burst_keep_alive_zero_refuted :
  exists cx s, binv_core cx s /\ mtu_ok cx /\ s_keep_alive s = Some 0 /\
               forall n, exists s', burst_run cx s n s').

Check (C03_tcp_burst_small_mtu_refuted :
  exists cx s, binv_core cx s /\ ka_pos s /\ cx_ip_mtu cx = 52 /\ emss cx s = 0 /\
               forall n, exists s', burst_run cx s n s').

Check (C03_tcp_burst_reachable_inv : forall s, burst_reach s ->
  tcp_live_inv s /\ (exists g, inv g s) /\ sinv s).

Check (C03_tcp_burst_sinv_step : forall cx s ev s' out tags,
  TcpLiveProofs.ctx_ok cx -> ev_ok ev -> tcp_live_inv s -> sinv13 s ->
  tcp_step cx s ev = Ok (s', out, tags) -> sinv13 s').

Check (C03_tcp_poll_egress_returns_reachable : forall fuel cx s budget s' sent tags fin,
  burst_reach s -> TcpSendInv.ctx_ok cx -> mtu_ok cx -> rx_ok s -> ka_pos s ->
  iface_poll_egress fuel cx s budget = Ok (s', sent, tags, fin) ->
  Z.of_nat (length sent) <= burst_bound cx s /\
  (burst_bound cx s < Z.of_nat fuel -> fin = true)).

Check (C03_tcp_rx_ok_of_synced : forall S F have irs c s,
  rx_synced S F have irs c s -> rx_ok s).

Check (C03_tcp_rx_ok_of_unsynced : forall s, rx_unsynced s -> rx_ok s).

Check (C03_tcp_silent_step : forall cx s e s' out tags,
  binv cx s -> tcp_dispatch cx s e = Ok (s', out, tags) -> (forall p, out <> DSent p) ->
  mu cx s' <= mu cx s /\ (s_tuple s' = None \/ binv cx s')).

Check (C03_tcp_socket_set_egress_returns :
  forall (E : Type) (can_emit : E -> socket -> bool * E) (exhausted : E -> socket -> bool)
         (pre : E -> E) (cx : ctx) fuel e ss,
  Forall (sock_inv cx) ss -> (sum_bound cx ss < fuel)%nat ->
  exists e' r n,
    poll_loop2 E socket (tcp_dispatch2 E can_emit exhausted cx) pre fuel e ss = Some (e', r, n) /\
    (n <= sum_bound cx ss)%nat /\ length r = length ss /\ Forall (sock_inv cx) r).

Check (C03_tcp_socket_set_example :
  Forall (sock_inv (bx_cx 1000 1500)) set3 /\
  sum_bound (bx_cx 1000 1500) set3 = 28%nat /\
  set3_poll 100 = Some (90%nat, 5%nat, [1; 0; 1]) /\
  set3_poll 3 = Some (0%nat, 2%nat, [4; 0; 5])).
