(* Pins: full statements of the C09 theorems; a weakened theorem no longer type-checks here.
   Generated once by tools/mkpins.py from Props/C09.v and then committed: edit both or neither. *)
From SV Require Import Lib.Base Gen.Consts Model.DgramQueue Model.Dgram Proofs.DgramProofs.
From SV Require Import Props.C09.

Check (C09_tx_at_most_once_in_order_unmodified : forall ev s ops s' rs,
  sock_is_new s -> Forall op_args_ok ops -> sock_run ev s ops = Ok (s', rs) ->
  let '(accepted, taken) := ghost_tx (tx_hdr s) (combine ops rs) in
  accepted = taken ++ tx_pending s' /\
  Forall (evt_local (sock_kind s)) (combine ops rs)).

Check (C09_tx_exactly_once_when_emit_ok : forall ev s0 ops s rs,
  sock_is_new s0 -> Forall op_args_ok ops -> sock_run ev s0 ops = Ok (s, rs) ->
  let '(accepted, taken) := ghost_tx (tx_hdr s0) (combine ops rs) in
  accepted = taken ++ tx_pending s /\
  exists s' rs',
    sock_run ev s (repeat (OpDispatch EMIT_OK) (length (tx_pending s))) = Ok (s', rs') /\
    tx_pending s' = [] /\ rx_pending s' = rx_pending s /\
    rs' = map (fun x => SR_Dispatch (Some x) (sock_prepare ev s (fst x) (snd x)) 0) (tx_pending s)).

Check (C09_interface_emit : forall ev p st na res st' na' res' c,
  if_respond ev p (st, na, res) = Ok ((st', na', res'), c) ->
  (c = EMIT_OK ->
     (pkt_total_len p <= if_mtu st /\ if_out st' = if_out st ++ [FO_Pkt p] /\ if_frag st' = if_frag st) \/
     (pkt_total_len p > if_mtu st /\ a_ver (p_dst p) = 4 /\ pkt_total_len p <= cfg_FRAGMENTATION_BUFFER_SIZE /\
      if_out st' = if_out st ++ [FO_Frag 0 (if_max_frag st) true] /\
      if_frag st' = Some (FO_Pkt p, pkt_total_len p, if_max_frag st + wipv4_HEADER_LEN)) \/
     (pkt_total_len p > if_mtu st /\
      (a_ver (p_dst p) <> 4 \/ cfg_FRAGMENTATION_BUFFER_SIZE < pkt_total_len p) /\
      if_out st' = if_out st /\ if_frag st' = if_frag st)) /\
  (c <> EMIT_OK ->
     if_frag st' = if_frag st /\
     (if_out st' = if_out st \/ exists k a, if_out st' = if_out st ++ [FO_Aux k a]))).

Check (C09_fragment_train_completes : forall fuel st f len sent,
  if_frag st = Some (f, len, sent) -> if_budget st = None -> 0 < if_max_frag st ->
  sent < len -> (Z.to_nat (len - sent) <= fuel)%nat ->
  let st' := ipv4_egress_n fuel st in
  if_frag_finished st' = true /\
  if_out st' = if_out st ++ frag_train fuel (if_max_frag st) len sent ++ [f]).

Check (C09_fragments_before_next_datagram : forall ev p st na res st' na' res' c o0,
  if_respond ev p (st, na, res) = Ok ((st', na', res'), c) ->
  wire_coherent o0 st -> 0 < if_max_frag st -> if_max_frag st + wipv4_HEADER_LEN <= if_mtu st ->
  (if_frag_finished st = false -> c = EMIT_BUSY /\ st' = st) /\
  (c = EMIT_OK -> if_frag_finished st = true) /\
  wire_coherent o0 st' /\
  exists o', wire_scan o0 (if_out st') = Some o').

Check (C09_ipv4_egress_keeps_wire_order : forall st o0,
  wire_coherent o0 st -> 0 < if_max_frag st -> wire_coherent o0 (if_ipv4_egress st)).

Check (C09_rx_exactly_once_whole_or_not_at_all : forall ev s ops s' rs,
  sock_is_new s -> Forall op_args_ok ops -> sock_run ev s ops = Ok (s', rs) ->
  let '(stored, consumed) := ghost_rx (combine ops rs) in
  stored = consumed ++ rx_pending s' /\
  Forall (evt_local (sock_kind s)) (combine ops rs)).

Check (C09_rx_metadata_correct : forall ev s src sport dst payload,
  sock_wf s -> sock_kind s = 1 ->
  exists s' ok, sock_step ev s (OpProcess (ArrUdp src sport dst payload)) = Ok (s', SR_Process ok) /\
    tx_pending s' = tx_pending s /\
    rx_pending s' = if ok then rx_pending s ++ [(mkDM src sport (Some dst), payload)] else rx_pending s).

Check (C09_truncated_is_error_not_short_data : forall ev s cap m d rest,
  sock_wf s -> rx_pending s = (m, d) :: rest ->
  exists s' rr,
    sock_step ev s (OpRecvSlice cap) = Ok (s', SR_Recv rr) /\ rx_pending s' = rest /\
    (if cap <? zlen d then rr = RR_Trunc (zlen d) (Some (m, d)) else rr = RR_Ok (zlen d) m d) /\
    (forall s2 r2, sock_step ev s (OpPeekSlice cap) = Ok (s2, r2) ->
       r2 = SR_NA \/
       (rx_pending s2 = (m, d) :: rest /\
        r2 = SR_Recv (if cap <? zlen d then RR_Trunc (zlen d) None else RR_Ok (zlen d) m d)))).

Check (C09_no_merge_no_split : forall ev s ops s' rs,
  sock_is_new s -> Forall op_args_ok ops -> sock_run ev s ops = Ok (s', rs) ->
  let '(stored, consumed) := ghost_rx (combine ops rs) in
  forall i x, nth_error consumed i = Some x -> nth_error stored i = Some x).

Check (C09_first_matching_udp_socket_only : forall ev src sport dst dport payload ss ss' handled,
  if_process_udp ev ss src sport dst dport payload = Ok (ss', handled) ->
  udp_demux ev src sport dst dport payload ss ss' handled).

Check (C09_step_spec : forall ev s op, sock_wf s -> op_args_ok op ->
  exists s' r, sock_step ev s op = Ok (s', r) /\ sock_wf s' /\ step_rel ev s op r s').

Check (C09_reachable_wf : forall ev s ops s' rs,
  sock_is_new s -> Forall op_args_ok ops -> sock_run ev s ops = Ok (s', rs) -> sock_wf s').

Check (C09_no_panic : forall ev s ops,
  sock_is_new s -> Forall op_args_ok ops -> is_panic (sock_run ev s ops) = false).

Check (C09_queue_enqueue : forall q size h data,
  pq_wf q -> 0 <= size -> Z.of_nat (length data) = size ->
  exists q' b, pq_enqueue q size h data = Ok (q', b) /\
    (if b then enq_result q size h data q' else same_packets q q')).

Check (C09_queue_dequeue : forall q, pq_wf q ->
  exists q' r, pq_dequeue q = Ok (q', r) /\ pq_wf q' /\
    q_mcap q' = q_mcap q /\ q_pcap q' = q_pcap q /\
    match r with
    | None => pq_packets q = [] /\ pq_packets q' = []
    | Some x => pq_packets q = x :: pq_packets q'
    end).

Check (C09_example_tx :
  match sock_run ex_env ex_sock ex_ops with
  | Ok (s', rs) =>
      map (fun r => match r with SR_Code c => c | SR_Dispatch _ (Some p) c => 100 + c + 10 * zlen (p_payload p)
                               | SR_Dispatch _ None c => 200 + c | _ => -1 end) rs
        = [0; 0; 0; 150; 0; 2; 122; 120; 140; 200] /\
      ghost_tx (tx_hdr ex_sock) (combine ex_ops rs) =
        ([(ex_m, [1;2;3;4;5]); (ex_m, [6;7]); (ex_m, [8;9;10;11])],
         [(ex_m, [1;2;3;4;5]); (ex_m, [6;7]); (ex_m, [8;9;10;11])]) /\
      tx_pending s' = []
  | _ => False
  end /\
  match sock_run ex_env ex_sock (firstn 5 ex_ops) with
  | Ok (s', _) => map (fun it => (match it_hdr it with Some _ => 1 | None => 0 end, it_size it)) (q_items (sock_tx s'))
                  = [(1, 2); (0, 1); (1, 4)] /\ q_read (sock_tx s') = 5 /\ q_len (sock_tx s') = 7
  | _ => False
  end).

Check (C09_example_rx :
  match sock_run ex_env (SUdp (udp_new (pq_new 3 8) (pq_new 1 8))) ex_rx_ops with
  | Ok (s', rs) =>
      map (fun r => match r with
                    | SR_Recv (RR_Ok n m d) => (1, n, a_id (dm_addr m), match dm_local m with Some a => a_id a | None => -1 end)
                    | SR_Recv (RR_Trunc n (Some _)) => (2, n, 0, 0)
                    | SR_Recv (RR_Trunc n None) => (3, n, 0, 0)
                    | SR_Recv (RR_Err e) => (4, e, 0, 0)
                    | SR_Process true => (5, 0, 0, 0)
                    | SR_Process false => (6, 0, 0, 0)
                    | _ => (0, 0, 0, 0) end) rs
      = [(0,0,0,0); (5,0,0,0); (5,0,0,0); (1,5,3,1); (5,0,0,0); (6,0,0,0); (3,2,0,0); (2,2,0,0); (1,4,3,1); (4,3,0,0)]
  | _ => False
  end).

Check (C09_constants :
  wudp_HEADER_LEN = 8 /\ wipv4_HEADER_LEN = 20 /\ wipv6_HEADER_LEN = 40 /\ wicmpv4_HEADER_END = 8 /\
  neigh_SILENT_TIME_ms = 1000 /\ neigh_ENTRY_LIFETIME_ms = 60000 /\ meta_DISCOVERY_SILENT_TIME_ms = 1000 /\
  0 < cfg_FRAGMENTATION_BUFFER_SIZE).
