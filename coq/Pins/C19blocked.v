(* Pins: full statements of the C19blocked theorems; a weakened theorem no longer type-checks here.
   Generated once by tools/mkpins.py from Props/C19blocked.v and then committed: edit both or neither. *)
From SV Require Import Lib.Base Gen.Consts Gen.WireFields Model.WireDns Model.Dns Proofs.WireDnsProofs Proofs.DnsProofs.
From SV Require Import Proofs.DnsBlockedProofs.
From SV Require Import Props.C19blocked.

Check (C19_dispatch_emit_failure : forall cfg servers now pq,
  match dns_dispatch_query cfg servers now true pq with
  | Ok (DqEmit _ _) => dns_dispatch_query cfg servers now false pq = Ok (DqEmitErr (QPending (dns_pq2 now pq)))
  | x => dns_dispatch_query cfg servers now false pq = x
  end).

Check (C19_attempt_arms_timeout : forall now pq,
  exists t, pq_timeout_at (dns_pq2 now pq) = Some t /\ now < t).

Check (C19_blocked_failover : forall now now' pq,
  pq_timeout_at pq = None -> now + dns_RETRANSMIT_TIMEOUT <= now' ->
  pq_server_idx (dns_pq2 now' (dns_pq2 now pq)) = pq_server_idx pq + 1).

Check (C19_blocked_query_fails : forall cfg servers now now' pq b,
  pq_timeout_at pq = None -> now + dns_RETRANSMIT_TIMEOUT <= now' ->
  Z.of_nat (length (dns_eff_servers servers pq)) <= pq_server_idx pq + 1 ->
  dns_dispatch_query cfg servers now' b (dns_pq2 now pq) = Ok (DqContinue QFailure)).
