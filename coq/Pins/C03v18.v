(* Pins: full statements of the C03v18 theorems; a weakened theorem no longer type-checks here.
   Generated once by tools/mkpins.py from Props/C03v18.v and then committed: edit both or neither. *)
From SV Require Import Lib.Base Gen.Consts Model.Dhcp Proofs.DhcpProofs.
From SV Require Import Props.C18.
From SV Require Import Props.C03v18.

Check (C03_via_C18_no_panic : forall hw calls c,
  Forall call_sane calls -> ports_ok hw [] calls ->
  call_sane c -> ports_match (fst (dhcp_run hw calls)) c ->
  dhcp_call_step hw (fst (dhcp_run hw calls)) c <> Panic).
