(* Pins: full statements of the C02liveClose2 theorems; a weakened theorem no longer type-checks here.
   Generated once by tools/mkpins.py from Props/C02liveClose2.v and then committed: edit both or neither. *)
From SV Require Import Lib.Base Gen.Consts.
From SV Require Import Model.Seq32 Model.Assembler Model.TcpBuf Model.TcpTypes Model.Tcp Model.TcpNet.
From SV Require Import Proofs.TcpSendBase Proofs.TcpLiveBase Proofs.TcpLiveProofs Proofs.TcpLiveMore Proofs.TcpLiveProgress.
From SV Require Import Proofs.TcpNetBase.
From SV Require Import Proofs.TcpProgressBase Proofs.TcpProgressFrame Proofs.TcpProgressCtl Proofs.TcpProgressRecv Proofs.TcpProgressSend Proofs.TcpProgressNet Proofs.TcpProgressData Proofs.TcpProgressAck Proofs.TcpProgressAll Proofs.TcpProgressSafe Proofs.TcpProgressHs Proofs.TcpProgressHsD Proofs.TcpProgressExample Proofs.TcpProgressWitness Proofs.TcpProgressSafeWitness Proofs.TcpProgressZwDup Proofs.TcpProgressZw1 Proofs.TcpProgressZw2 Proofs.TcpProgressZwWitness Proofs.TcpProgressCl1 Proofs.TcpProgressCl2 Proofs.TcpProgressCl3 Proofs.TcpProgressCl4 Proofs.TcpProgressCl5 Proofs.TcpProgressCl6 Proofs.TcpProgressCl7 Proofs.TcpProgressCl8.
From SV Require Import Props.C02liveClose2.

Check (C02live_fin_eventually_acked : forall tA X Y MA MB Dt Da dk,
  0 <= Dt -> 2 * Dt < tcp_RTTE_MIN_RTO * 1000 -> tuple_nz tA ->
  0 <= X < 4294967296 -> 0 <= Y < 4294967296 ->
  match MB with Some m => seq_gt m Y = false | None => True end ->
  forall T0 evs fa st st',
  close_start tA X Y MA MB Da dk T0 fa st -> Forall (cl_ev SA false) evs ->
  fair_run Dt Da fa st evs -> once_run Dt Da fa st evs -> net_run st evs = Ok st' ->
  T0 + 2 * Dt < net_now st' SA ->
  exists pre post st1,
    evs = pre ++ post /\ net_run st pre = Ok st1 /\ net_run st1 post = Ok st' /\
    net_now st1 SA <= T0 + 2 * Dt /\ fin_acked tA X Y MB Da dk (fa_run Dt Da fa st pre) st1).

Check (C02live_close_wait_stable : forall tA X Y MB Dt Da dk evs fa st st',
  fin_acked tA X Y MB Da dk fa st -> Forall (cl_ev SA false) evs ->
  fair_run Dt Da fa st evs -> once_run Dt Da fa st evs -> net_run st evs = Ok st' ->
  fin_acked tA X Y MB Da dk (fa_run Dt Da fa st evs) st').

Check (C02live_b_closes : forall tA X Y MB Dt Da dk,
  mlim MB Y ->
  forall fa st st',
  fin_acked tA X Y MB Da dk fa st -> fair_ev fa st (NClose SB) -> net_step st (NClose SB) = Ok st' ->
  J SB true (mirror tA) Y (seq_add X 1) (Some (seq_add X 1)) Dt Da (- dk) (net_now st SB)
    (fa_after Dt Da fa (NClose SB) st') st').

Check (C02live_last_ack_eventually_closed : forall tA X Y Dt Da dk,
  0 <= Dt -> 2 * Dt < tcp_RTTE_MIN_RTO * 1000 -> tuple_nz tA -> 0 <= Y < 4294967296 ->
  forall T0 evs fa st st',
  J SB true (mirror tA) Y (seq_add X 1) (Some (seq_add X 1)) Dt Da (- dk) T0 fa st ->
  fair_run Dt Da fa st evs -> once_run Dt Da fa st evs -> net_run st evs = Ok st' ->
  T0 + 2 * Dt < net_now st' SB ->
  exists pre post st1 ec,
    evs = pre ++ post /\ net_run st pre = Ok st1 /\ net_run st1 post = Ok st' /\
    fair_run Dt Da (fa_run Dt Da fa st pre) st1 post /\ once_run Dt Da (fa_run Dt Da fa st pre) st1 post /\
    ec <= T0 - dk + Dt + tcp_CLOSE_DELAY /\ last_acked tA X Y Da dk ec (fa_run Dt Da fa st pre) st1).

Check (C02live_time_wait_expires : forall a ta una ws M Dt Da dk ec evs fa st st',
  J3 a ta una ws M Da dk ec fa st ->
  fair_run Dt Da fa st evs -> once_run Dt Da fa st evs -> net_run st evs = Ok st' ->
  ec < net_now st' a ->
  exists pre post st1,
    evs = pre ++ post /\ net_run st pre = Ok st1 /\ net_run st1 post = Ok st' /\
    Q3 a (fa_run Dt Da fa st pre) st1).

Check (C02live_orderly_close_completes : forall tA X Y MA MB Dt Da dk,
  0 <= Dt -> 2 * Dt < tcp_RTTE_MIN_RTO * 1000 -> tuple_nz tA ->
  0 <= X < 4294967296 -> 0 <= Y < 4294967296 ->
  match MB with Some m => seq_gt m Y = false | None => True end -> mlim MB Y ->
  forall T0 evs1 evs2 fa st st_m st',
  close_start tA X Y MA MB Da dk T0 fa st -> Forall (cl_ev SA false) evs1 ->
  fair_run Dt Da fa st (evs1 ++ NClose SB :: evs2) -> once_run Dt Da fa st (evs1 ++ NClose SB :: evs2) ->
  net_run st evs1 = Ok st_m -> T0 + 2 * Dt < net_now st_m SA ->
  net_run st_m (NClose SB :: evs2) = Ok st' ->
  net_now st_m SA + 3 * Dt + tcp_CLOSE_DELAY < net_now st' SA ->
  exists pre post st_c,
    evs2 = pre ++ post /\ net_run st_m (NClose SB :: pre) = Ok st_c /\ net_run st_c post = Ok st' /\
    both_closed st_c).

Check (C02live_orderly_close_reliable : forall tA X Y MA MB Dt Da dk,
  0 <= Dt -> 2 * Dt < tcp_RTTE_MIN_RTO * 1000 -> tuple_nz tA ->
  0 <= X < 4294967296 -> 0 <= Y < 4294967296 ->
  match MB with Some m => seq_gt m Y = false | None => True end -> mlim MB Y ->
  forall T0 evs1 evs2 st st_m st',
  reliable_schedule Dt Da st (evs1 ++ NClose SB :: evs2) ->
  close_start tA X Y MA MB Da dk T0 (fa_init Dt Da st) st -> Forall (cl_ev SA false) evs1 ->
  net_run st evs1 = Ok st_m -> T0 + 2 * Dt < net_now st_m SA ->
  net_run st_m (NClose SB :: evs2) = Ok st' ->
  net_now st_m SA + 3 * Dt + tcp_CLOSE_DELAY < net_now st' SA ->
  exists pre post st_c,
    evs2 = pre ++ post /\ net_run st_m (NClose SB :: pre) = Ok st_c /\ net_run st_c post = Ok st' /\
    both_closed st_c).

Check (C02live_orderly_close_applies :
  exists st0 st_r st_s st_m st' tA X Y MA MB dk,
    net_init zcfg_a zcfg_b = Ok st0 /\ net_run st0 clw_prefix = Ok st_r /\
    reliable_schedule 5000 5000 st_r ([] ++ clw_evs1 ++ NClose SB :: clw_evs2) /\
    net_run st_r [] = Ok st_s /\
    close_start tA X Y MA MB 5000 dk 1000000 (fa_run 5000 5000 (fa_init 5000 5000 st_r) st_r []) st_s /\
    net_run st_s clw_evs1 = Ok st_m /\ net_run st_m (NClose SB :: clw_evs2) = Ok st' /\
    exists pre post st_c,
      clw_evs2 = pre ++ post /\ net_run st_m (NClose SB :: pre) = Ok st_c /\ net_run st_c post = Ok st' /\
      both_closed st_c).
