(* Pins: full statements of the C03v07b_ieee154 theorems; a weakened theorem no longer type-checks here.
   Generated once by tools/mkpins.py from Props/C03v07b_ieee154.v and then committed: edit both or neither. *)
From SV Require Import Lib.Base Gen.WireFields Model.WireBase Proofs.WireBaseProofs.
From SV Require Import Model.WireIeee802154 Proofs.WireIeee802154Proofs.
From SV Require Import Props.C07b_ieee154.
From SV Require Import Props.C03v07b_ieee154.

Check (C03_via_C07_f154_accessors_safe : forall bs,
  f154_check_len bs = Ok tt ->
  f154_frame_type bs <> Panic /\ f154_security_enabled bs <> Panic /\ f154_frame_pending bs <> Panic /\
  f154_ack_request bs <> Panic /\ f154_pan_id_compression bs <> Panic /\
  f154_sequence_number_suppression bs <> Panic /\ f154_ie_present bs <> Panic /\
  f154_dst_addressing_mode bs <> Panic /\ f154_frame_version bs <> Panic /\
  f154_src_addressing_mode bs <> Panic /\ f154_sequence_number bs <> Panic /\
  f154_dst_pan_id bs <> Panic /\ f154_dst_addr bs <> Panic /\ f154_src_pan_id bs <> Panic /\
  f154_src_addr bs <> Panic /\ f154_mac_header bs <> Panic /\ f154_payload bs <> Panic /\
  (f154_security_enabled bs = Ok true ->
   f154_security_level bs <> Panic /\ f154_key_identifier_mode bs <> Panic /\
   f154_frame_counter_suppressed bs <> Panic /\ f154_frame_counter bs <> Panic /\
   f154_key_source bs <> Panic /\ f154_key_index bs <> Panic /\
   f154_message_integrity_code bs <> Panic)).

Check (C03_via_C07_f154_parse_total : forall bs, f154_parse bs <> Panic).

Check (C03_via_C07_f154_check_len_no_panic : forall bs, f154_check_len bs <> Panic).

Check (C03_via_C07_f154_new_checked_no_panic : forall bs, f154_new_checked bs <> Panic).
