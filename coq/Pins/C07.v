(* Pins: full statements of the C07 theorems; a weakened theorem no longer type-checks here.
   Generated once by tools/mkpins.py from Props/C07.v and then committed: edit both or neither. *)
From SV Require Import Lib.Base Gen.WireFields Model.WireBase Proofs.WireBaseProofs.
From SV Require Import Model.WireEth Proofs.WireEthProofs.
From SV Require Import Model.WireArp Proofs.WireArpProofs.
From SV Require Import Model.WireUdp Proofs.WireUdpProofs.
From SV Require Import Props.C07.

Check (C07_eth_accessors_safe : forall bs,
  eth_check_len bs = Ok tt ->
  eth_dst_addr bs <> Panic /\ eth_src_addr bs <> Panic /\ eth_ethertype bs <> Panic /\
  eth_payload bs <> Panic).

Check (C07_eth_parse_total : forall bs, eth_parse bs <> Panic).

Check (C07_arp_accessors_safe : forall bs,
  bytes_ok bs = true -> arp_check_len bs = Ok tt ->
  arp_hardware_type bs <> Panic /\ arp_protocol_type bs <> Panic /\
  arp_hardware_len bs <> Panic /\ arp_protocol_len bs <> Panic /\ arp_operation bs <> Panic /\
  arp_source_hardware_addr bs <> Panic /\ arp_source_protocol_addr bs <> Panic /\
  arp_target_hardware_addr bs <> Panic /\ arp_target_protocol_addr bs <> Panic).

Check (C07_arp_parse_total : forall bs, bytes_ok bs = true -> arp_parse bs <> Panic).

Check (C07_udp_accessors_safe : forall sum_ok (sum_fill : list Z -> Z) is_v4 bs,
  bytes_ok bs = true -> udp_check_len bs = Ok tt ->
  udp_src_port bs <> Panic /\ udp_dst_port bs <> Panic /\ udp_len bs <> Panic /\
  udp_checksum bs <> Panic /\ udp_payload bs <> Panic /\ udp_verify_checksum sum_ok is_v4 bs <> Panic).

Check (C07_udp_parse_total : forall sum_ok (sum_fill : list Z -> Z) is_v4 rx bs,
  bytes_ok bs = true -> udp_parse sum_ok is_v4 rx bs <> Panic).
