(* Pins: full statements of the C02liveClose4 theorems; a weakened theorem no longer type-checks here.
   Generated once by tools/mkpins.py from Props/C02liveClose4.v and then committed: edit both or neither. *)
From SV Require Import Lib.Base Gen.Consts.
From SV Require Import Model.Seq32 Model.Assembler Model.TcpBuf Model.TcpTypes Model.Tcp Model.TcpNet.
From SV Require Import Proofs.TcpSendBase Proofs.TcpLiveBase Proofs.TcpLiveProofs Proofs.TcpLiveMore Proofs.TcpLiveProgress.
From SV Require Import Proofs.TcpNetBase.
From SV Require Import Proofs.TcpProgressBase Proofs.TcpProgressFrame Proofs.TcpProgressCtl Proofs.TcpProgressRecv Proofs.TcpProgressSend Proofs.TcpProgressNet Proofs.TcpProgressData Proofs.TcpProgressAck Proofs.TcpProgressAll Proofs.TcpProgressSafe Proofs.TcpProgressHs Proofs.TcpProgressHsD Proofs.TcpProgressHsNet Proofs.TcpProgressHsInit Proofs.TcpProgressHsLive Proofs.TcpProgressHsLive2 Proofs.TcpProgressZwp Proofs.TcpProgressExample Proofs.TcpProgressWitness Proofs.TcpProgressSafeWitness Proofs.TcpProgressZwDup Proofs.TcpProgressZw1 Proofs.TcpProgressZw1b Proofs.TcpProgressZw2 Proofs.TcpProgressZw3 Proofs.TcpProgressZwWitness Proofs.TcpProgressZw4 Proofs.TcpProgressZw5 Proofs.TcpProgressZw6 Proofs.TcpProgressZwWitness3 Proofs.TcpProgressZw7 Proofs.TcpProgressCl1 Proofs.TcpProgressCl2 Proofs.TcpProgressCl3 Proofs.TcpProgressCl4 Proofs.TcpProgressCl5 Proofs.TcpProgressCl6 Proofs.TcpProgressCl7 Proofs.TcpProgressCl8 Proofs.TcpProgressCl9 Proofs.TcpProgressCl10 Proofs.TcpProgressCl11 Proofs.TcpProgressCl12 Proofs.TcpProgressCl13 Proofs.TcpProgressCl14.
From SV Require Import Props.C02liveClose4.

Check (C02live_all_written_acked_and_read : forall x Dt Da Dack n evs fa st st' L,
  0 <= Dt -> 0 <= Da ->
  NI st -> opts_ok st -> dl_sync Da fa st -> dlb Dt fa st ->
  run_all (zsafe2 x Dack) st evs -> fair_run Dt Da fa st evs -> once_run Dt Da fa st evs -> net_run st evs = Ok st' ->
  Forall nosend evs -> l_len (ep_written (net_get st x)) = L ->
  (L - una_off (net_get st x)) + (L - read_off (net_get st (side_other x))) <= Z.of_nat n ->
  net_now st x + Z.of_nat n * Wz Dt Da < net_now st' x ->
  exists pre post st1, evs = pre ++ post /\ net_run st pre = Ok st1 /\ net_run st1 post = Ok st' /\
                       una_off (net_get st1 x) = L /\ read_off (net_get st1 (side_other x)) = L /\
                       net_now st1 x <= net_now st x + Z.of_nat n * Wz Dt Da).

Check (C02live_connection_becomes_quiet : forall Dt Da Dack dk tA X Y,
  0 <= Dt -> 0 <= Dack ->
  forall evs fa st st',
  K0 Dt Da dk tA X Y fa st -> Rest Dt Da Dack fa st evs st' ->
  net_now st SA + 2 * Dt + Dack < net_now st' SA ->
  Reach Dt Da Dack (Qd Dt Da dk tA X Y) (net_now st SA + 2 * Dt + Dack) fa st evs st').

Check (C02live_quiet_is_close_start : forall Dt Da Dack dk tA X Y fa st st',
  QR Dack st -> Qd Dt Da dk tA X Y fa st -> fair_ev fa st (NClose SA) -> net_step st (NClose SA) = Ok st' ->
  let MA := rt_max_seq_sent (s_rtte (net_sock st SA)) in let MB := rt_max_seq_sent (s_rtte (net_sock st SB)) in
  close_start tA X Y MA MB Da dk (net_now st SA) (fa_after Dt Da fa (NClose SA) st') st' /\
  tuple_nz tA /\ 0 <= X < 4294967296 /\ 0 <= Y < 4294967296 /\
  match MB with Some m => seq_gt m Y = false | None => True end /\ mlim MB Y).
