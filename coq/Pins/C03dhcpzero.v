(* Pins: full statements of the C03dhcpzero theorems; a weakened theorem no longer type-checks here.
   Generated once by tools/mkpins.py from Props/C03dhcpzero.v and then committed: edit both or neither. *)
From SV Require Import Lib.Base Gen.Consts Gen.WireFields Model.Dhcp Proofs.DhcpZeroTimeout.
From SV Require Import Props.C03dhcpzero.

Check (C03_dhcp_zero_timeout_never_quiet_refuted :
  let s0 := dhcp_set_retry_config dhcp_new dhcp_zero_cfg in
  let now := 1000000 in
  match dhcp_dispatch 1500 now 7 (fun _ => true) s0 with
  | Ok (s1, DrSent _) =>
      match dhcp_dispatch 1500 now 8 (fun _ => true) s1 with
      | Ok (s2, DrSent _) =>
          ds_state s2 = ds_state s1 /\ ds_retry_config s2 = ds_retry_config s1 /\ ds_state s1 = Discovering now
      | _ => False
      end
  | _ => False
  end).
