(* Pins: full statements of the C05 theorems; a weakened theorem no longer type-checks here.
   Generated once by tools/mkpins.py from Props/C05.v and then committed: edit both or neither. *)
From SV Require Import Lib.Base Gen.Consts.
From SV Require Import Model.Seq32 Model.Assembler Model.TcpBuf Model.TcpTypes Model.Tcp.
From SV Require Import Proofs.TcpSendBase Proofs.TcpSendInv Proofs.TcpSendAck Proofs.TcpSendProc.
From SV Require Import Proofs.TcpSendApi Proofs.TcpSendDisp Proofs.TcpSendDisp2 Proofs.TcpSendDisp3.
From SV Require Import Proofs.TcpSendTrace Proofs.TcpSendProps Proofs.TcpSendReply Proofs.TcpSendKa.
From SV Require Import Props.C05.

Check (C05_invariant_initially : forall rxs txs cc ts s,
  tcp_new rxs txs cc ts = Ok s -> l_len txs <= 2 ^ 30 -> inv ghost0 s).

Check (C05_tx_invariant_preserved : forall cx g s ev s' out tags,
  inv g s -> ctx_ok cx -> tx_ev_ok ev ->
  tcp_step cx s ev = Ok (s', out, tags) ->
  exists g', inv g' s' /\ ghost_rel g g').

Check (C05_process_preserves : forall cx g s ip r s' reply tags,
  inv g s -> ctx_ok cx -> repr_ok r ->
  tcp_process cx s ip r = Ok (s', reply, tags) ->
  exists g', inv g' s' /\ ghost_rel g g' /\ learned s r s' /\ proc_ghost cx g s r g' s').

Check (C05_send_appends : forall g s data s' n,
  inv g s -> tcp_send_slice s data = Ok (s', n) ->
  inv (g_send g (l_take n data)) s' /\ 0 <= n <= l_len data /\
  rb_len (s_tx_buffer s') = rb_len (s_tx_buffer s) + n /\ tcp_may_send s = true).

Check (C05_invariant_all_histories : forall evs g s s' outs,
  inv g s -> Forall (fun ce => ctx_ok (fst ce) /\ tx_ev_ok (snd ce)) evs ->
  tcp_run s evs = Ok (s', outs) -> exists g', inv g' s').

Check (C05_all_histories_all_segments : forall evs g s,
  inv g s -> Forall (fun ce => ctx_ok (fst ce) /\ tx_ev_ok (snd ce)) evs -> hist_ok g s evs).

Check (C05_tx_payload_is_stream : forall cx g s e s' tags p,
  inv g s -> ctx_ok cx -> tcp_dispatch cx s e = Ok (s', DSent p, tags) -> ~ In 245 tags ->
  0 < l_len (r_payload (snd p)) ->
  exists k, r_seq_number (snd p) = sq (g_iss g + 1 + k) /\ g_acked g <= k /\
            k + l_len (r_payload (snd p)) <= l_len (g_stream g) /\
            r_payload (snd p) = l_slice k (l_len (r_payload (snd p))) (g_stream g)).

Check (C05_retransmission_same_bytes : forall g g' k n,
  same_epoch g g' -> 0 <= k -> 0 <= n -> k + n <= l_len (g_stream g) ->
  l_slice k n (g_stream g') = l_slice k n (g_stream g)).

Check (C05_tx_within_window : forall cx g s e s' tags p,
  inv g s -> ctx_ok cx -> tcp_dispatch cx s e = Ok (s', DSent p, tags) -> ~ In 245 tags ->
  0 < l_len (r_payload (snd p)) ->
  exists k, r_seq_number (snd p) = sq (g_iss g + 1 + k) /\
    (k + l_len (r_payload (snd p)) <= g_acked g + s_remote_win_len s \/
     (l_len (r_payload (snd p)) = 1 /\ s_remote_win_len s = 0 /\
      exists s1, frame s s1 /\ timer_should_zero_window_probe (s_timer s1) (cx_now cx) = true))).

Check (C05_tx_within_mss_mtu : forall cx g s e s' tags p,
  inv g s -> ctx_ok cx -> tcp_dispatch cx s e = Ok (s', DSent p, tags) -> ~ In 245 tags ->
  0 < l_len (r_payload (snd p)) ->
  l_len (r_payload (snd p)) <= s_remote_mss s /\
  wipv4_HEADER_LEN + ip_payload_len (fst p) <= cx_ip_mtu cx).

Check (C05_mss_of_syn : forall s r,
  s_remote_mss (tcp_apply_mss s r) =
  match r_max_seg_size r with
  | Some m => if m =? 0 then s_remote_mss s else Z.max m tcp_MIN_REMOTE_MSS
  | None => s_remote_mss s
  end).

Check (C05_reset_forgets : forall s,
  s_remote_win_len (tcp_reset s) = 0 /\ s_remote_mss (tcp_reset s) = tcp_DEFAULT_MSS).

Check (C05_window_mss_learned_only_from_segments : forall cx g s ip r s' reply tags,
  inv g s -> ctx_ok cx -> repr_ok r -> iface_tcp_ingress cx s ip r = Ok (s', reply, tags) ->
  learned s r s').

Check (C05_dispatch_keeps_learned : forall cx g s e s' res tags,
  inv g s -> ctx_ok cx -> tcp_dispatch cx s e = Ok (s', res, tags) ->
  (s_remote_win_len s' = s_remote_win_len s /\ s_remote_mss s' = s_remote_mss s /\
   s_remote_win_shift s' = s_remote_win_shift s) \/ s' = tcp_reset s).

Check (C05_tx_new_data_contiguous : forall cx g s e s' tags p,
  inv g s -> ctx_ok cx -> tcp_dispatch cx s e = Ok (s', DSent p, tags) -> ~ In 245 tags ->
  0 < l_len (r_payload (snd p)) ->
  exists k, r_seq_number (snd p) = sq (g_iss g + 1 + k) /\ 1 + k <= g_hw g).

Check (C05_fin_after_all_data : forall cx g s e s' tags p,
  inv g s -> ctx_ok cx -> tcp_dispatch cx s e = Ok (s', DSent p, tags) -> ~ In 245 tags ->
  r_control (snd p) = CFin ->
  g_fin g = true /\
  exists k, r_seq_number (snd p) = sq (g_iss g + 1 + k) /\
            k + l_len (r_payload (snd p)) = l_len (g_stream g)).

Check (C05_fin_freezes_stream : forall g g', same_epoch g g' -> g_fin g = true ->
  g_fin g' = true /\ g_stream g' = g_stream g).

Check (C05_keep_alive_below_una : forall cx g s e s' p tags,
  inv g s -> ctx_ok cx -> 52 < cx_ip_mtu cx -> TcpLiveProofs.tcp_live_inv s ->
  tcp_dispatch cx s e = Ok (s', DSent p, tags) ->
  In 245 tags ->
  g_phase g <> PSyn /\ exists u, 0 <= u < g_una g /\ r_seq_number (snd p) = sq (g_iss g + u)).

Check (C05_syn_window_unscaled : forall cx g s e s' tags p,
  inv g s -> ctx_ok cx -> tcp_dispatch cx s e = Ok (s', DSent p, tags) -> ~ In 245 tags ->
  r_control (snd p) = CSyn ->
  l_len (r_payload (snd p)) = 0 /\ r_seq_number (snd p) = sq (g_iss g) /\
  r_window_len (snd p) = u16_try (rb_window (s_rx_buffer s))).

Check (C05_window_scaled_as_negotiated : forall cx g s e s' res tags p,
  inv g s -> ctx_ok cx -> tcp_dispatch cx s e = Ok (s', res, tags) -> disp_pkt res = Some p ->
  r_control (snd p) <> CSyn ->
  r_window_len (snd p) = u16_try (shr (rb_window (s_rx_buffer s)) (s_remote_win_shift s))).

Check (C05_replies_carry_no_data : forall cx s ip r s' o tags,
  iface_tcp_ingress cx s ip r = Ok (s', o, tags) -> reply_shape o).

Check (C05_dispatch_no_panic : forall cx g s e,
  inv g s -> ctx_ok cx -> (exists o, tcp_last_scaled_window s = Ok o) ->
  exists res, tcp_dispatch cx s e = Ok res).

Check (C05_size_for_any_cwnd : forall win_limit eff cwnd flight size,
  0 <= win_limit -> 0 <= eff ->
  size = Z.min (Z.min win_limit eff) (sat_sub cwnd flight) ->
  0 <= size /\ size <= win_limit /\ size <= eff).

Check (C05_any_controller : forall g s c, inv g s -> inv g (upd_congestion_controller s c)).

Check (C05_example :
    s_state ex_s = Established /\ rb_len (s_tx_buffer ex_s) = 11 /\
    s_local_seq_no ex_s = 1005 /\ s_remote_last_seq ex_s = 1013 /\ s_remote_win_len ex_s = 4 /\
    s_remote_mss ex_s = 100 /\
    (exists g, inv g ex_s) /\
    (exists s' tags, tcp_dispatch (ex_cx 4000) ex_s true = Ok (s', DNothing, tags)) /\
    (exists s' p tags, tcp_dispatch (ex_cx 2000000) ex_s true = Ok (s', DSent p, tags) /\
                       r_seq_number (snd p) = 1005 /\ r_payload (snd p) = [15; 16; 17; 18])).
