(* Pins: full statements of the C12 theorems; a weakened theorem no longer type-checks here.
   Generated once by tools/mkpins.py from Props/C12.v and then committed: edit both or neither. *)
From SV Require Import Lib.Base Gen.Consts Gen.WireFields Model.Assembler Proofs.AssemblerProofs.
From SV Require Import Model.Frag4 Model.Reasm Model.Egress Proofs.Frag4Proofs Proofs.ReasmProofs.
From SV Require Import Props.C12.

Check (C12_fragments_cover_exactly : forall ip_mtu ident fr0 P,
  f4_hdr + 8 <= ip_mtu -> fr_finished fr0 = true ->
  ip_mtu < f4_hdr + zlen P -> f4_hdr + zlen P <= zlen (fr_buffer fr0) ->
  let frs := f4_fragment_datagram ip_mtu ident fr0 P in
  concat (map p_payload frs) = P /\
  offsets_consistent 0 frs /\
  mf_all_but_last frs /\
  Forall (fun p => p_ident p = ident) frs /\
  Forall (fun p => f4_hdr + zlen (p_payload p) <= ip_mtu) frs /\
  Forall (fun p => p_offset p mod 8 = 0) frs /\
  (2 <= length frs)%nat).

Check (C12_fragments_cover_exactly_mtu68 : forall m mtu ident fr0 P,
  68 <= mtu -> fr_finished fr0 = true ->
  zlen (fr_buffer fr0) = cfg_FRAGMENTATION_BUFFER_SIZE ->
  f4_ip_mtu m mtu < f4_hdr + zlen P -> f4_hdr + zlen P <= cfg_FRAGMENTATION_BUFFER_SIZE ->
  let frs := f4_fragment_datagram (f4_ip_mtu m mtu) ident fr0 P in
  concat (map p_payload frs) = P /\
  offsets_consistent 0 frs /\
  mf_all_but_last frs /\
  Forall (fun p => p_ident p = ident) frs /\
  Forall (fun p => f4_hdr + zlen (p_payload p) <= f4_ip_mtu m mtu) frs /\
  Forall (fun p => p_offset p mod 8 = 0) frs /\
  (2 <= length frs)%nat).

Check (C12_small_datagram_whole : forall ip_mtu ident fr P,
  f4_hdr + zlen P <= ip_mtu ->
  f4_dispatch_ip ip_mtu ident fr P = (fr, [mkPkt 0 0 false P], DipSent)).

Check (C12_reassembly_exact_or_nothing : forall k P n timeout slots arr,
  Forall (fun tf => fi_key (snd tf) = k -> piece P (snd tf)) arr ->
  Forall2 (fun tf r => fi_key (snd tf) = k -> r = None \/ r = Some P)
          arr (snd (rs_run n timeout (pas_new slots) arr))).

Check (C12_sender_receiver_exact_or_nothing : forall ip_mtu ident fr0 P k n timeout slots arr,
  f4_hdr + 8 <= ip_mtu -> fr_finished fr0 = true ->
  ip_mtu < f4_hdr + zlen P -> f4_hdr + zlen P <= zlen (fr_buffer fr0) ->
  (forall tf, In tf arr -> fi_key (snd tf) = k ->
     exists p, In p (f4_fragment_datagram ip_mtu ident fr0 P) /\ snd tf = to_frag_in k p) ->
  Forall2 (fun tf r => fi_key (snd tf) = k -> r = None \/ r = Some P)
          arr (snd (rs_run n timeout (pas_new slots) arr))).

Check (C12_reassembly_delivers_if_gaps_fit : forall k P n timeout s0 t0 f0 rest,
  0 < zlen P -> 0 <= timeout ->
  set_ok k P s0 ->
  (forall j, (j < length s0)%nat -> pa_key (nth j s0 pa_new) <> Some k) ->
  (exists j, (j < length s0)%nat /\ pa_key (nth j s0 pa_new) = None) ->
  fi_key f0 = k ->
  Forall (fun tf => fi_key (snd tf) = k -> piece P (snd tf)) ((t0, f0) :: rest) ->
  Forall (fun tf => fst tf <= t0 + timeout) rest ->
  gaps_fit n k [] ((t0, f0) :: rest) ->
  (forall x, 0 <= x < zlen P ->
     Exists (fun tf => fi_key (snd tf) = k /\ covers (snd tf) x) ((t0, f0) :: rest)) ->
  Exists (fun tf => fi_key (snd tf) = k /\ fi_mf (snd tf) = false) ((t0, f0) :: rest) ->
  In (Some P) (snd (rs_run n timeout s0 ((t0, f0) :: rest)))).

Check (C12_reassembly_delivers_fresh : forall k P n timeout slots t0 f0 rest,
  0 < zlen P -> 0 <= timeout -> (1 <= slots)%nat ->
  fi_key f0 = k ->
  Forall (fun tf => fi_key (snd tf) = k -> piece P (snd tf)) ((t0, f0) :: rest) ->
  Forall (fun tf => fst tf <= t0 + timeout) rest ->
  gaps_fit n k [] ((t0, f0) :: rest) ->
  (forall x, 0 <= x < zlen P ->
     Exists (fun tf => fi_key (snd tf) = k /\ covers (snd tf) x) ((t0, f0) :: rest)) ->
  Exists (fun tf => fi_key (snd tf) = k /\ fi_mf (snd tf) = false) ((t0, f0) :: rest) ->
  In (Some P) (snd (rs_run n timeout (pas_new slots) ((t0, f0) :: rest)))).

Check (C12_back_to_back_not_mixed : forall ip_mtu bufsize id0 nsocks ops,
  f4_hdr + 8 <= ip_mtu ->
  let '(st, out) := eg_run ip_mtu (eg_init bufsize id0 nsocks) ops in
  exists done cur,
    filter frame_is_fragment out = concat done ++ cur /\
    Forall (fun t => exists ident d, In d (ops_payloads ops) /\
                       ltrain_ok ip_mtu ident (fst d) 0 t (snd d)) done /\
    ((fr_finished (eg_fr st) = true /\ cur = []) \/
     (exists d, In d (ops_payloads ops) /\ fr_finished (eg_fr st) = false /\
        eg_hw st = fst d /\ Forall (fun f => fst f = fst d) cur /\
        forall fuel, (length (snd d) <= fuel)%nat ->
          train_ok ip_mtu (fr_ident (eg_fr st)) 0
                   (map snd cur ++ f4_drain fuel ip_mtu (eg_fr st)) (snd d)))).

Check (C12_no_socket_packet_inside_train : forall ip_mtu bufsize id0 nsocks ops,
  f4_hdr + 8 <= ip_mtu ->
  let '(st, out) := eg_run ip_mtu (eg_init bufsize id0 nsocks) ops in
  wire_ok (ops_replies ops) false out /\
  train_state false out = negb (fr_finished (eg_fr st))).

Check (C12_dropped_packet_changes_nothing : forall ip_mtu ident fr hwst d,
  let '(fr', hw', out, r) := eg_dispatch_ip ip_mtu ident fr hwst d in
  Forall (fun f => fst f = fst d) out /\
  (r <> DipFragStarted -> fr' = fr /\ hw' = hwst) /\
  (r = DipFragStarted -> hw' = fst d) /\
  (fr_finished fr = false -> r <> DipFragStarted)).

Check (C12_train_ok_means : forall ip_mtu ident frs off data,
  train_ok ip_mtu ident off frs data ->
  concat (map p_payload frs) = data /\
  offsets_consistent off frs /\
  mf_all_but_last frs /\
  Forall (fun p => p_ident p = ident) frs /\
  Forall (fun p => f4_hdr + zlen (p_payload p) <= ip_mtu) frs /\
  Forall (fun p => p_offset p mod 8 = 0) frs \/ off mod 8 <> 0).

Check (C12_busy_fragmenter_not_overwritten : forall ip_mtu ident fr P,
  fr_finished fr = false ->
  fst (fst (f4_dispatch_ip ip_mtu ident fr P)) = fr /\
  filter p_is_fragment (snd (fst (f4_dispatch_ip ip_mtu ident fr P))) = []).

Check (C12_socket_datagram_kept_while_busy : forall ip_mtu B,
  f4_hdr + 8 <= ip_mtu -> forall socks fr hwst id b,
  zlen (fr_buffer fr) = B ->
  let '(fr', _, _, _, socks', out, _) := eg_socket_egress ip_mtu fr hwst id b socks in
  zlen (fr_buffer fr') = B /\ Forall2 (dequeued_ok ip_mtu B out) socks socks').

Check (C12_pending_fragment_first : forall ip_mtu st b P off,
  f4_hdr + 8 <= ip_mtu -> fr_progress (eg_fr st) P off -> bud_has b = true ->
  let '(_, _, out, _) := eg_poll_egress ip_mtu st b in
  exists rest, out = (eg_hw st, snd (f4_dispatch_ipv4_frag ip_mtu (eg_fr st))) :: rest).

Check (C12_example_three_fragments :
  map (fun p => (p_offset p, p_mf p, zlen (p_payload p)))
      (f4_fragment_datagram 576 42 (fr_new cfg_FRAGMENTATION_BUFFER_SIZE) (repeat 1 1208)) =
  [(0, true, 552); (552, true, 552); (1104, false, 104)]).

Check (C12_example_two_datagrams_back_to_back :
  map (fun f => (fst f, p_ident (snd f), p_offset (snd f), p_mf (snd f), zlen (p_payload (snd f)),
                 hd 0 (p_payload (snd f))))
      (snd (eg_run 576 (eg_init cfg_FRAGMENTATION_BUFFER_SIZE 7 1) c12_d8_ops)) =
  [(1, 7, 0, true, 552, 17); (1, 7, 552, true, 552, 17); (1, 7, 1104, false, 104, 17);
   (1, 8, 0, true, 552, 34); (1, 8, 552, true, 552, 34); (1, 8, 1104, false, 104, 34)]).

Check (C12_example_two_neighbours :
  map (fun f => (fst f, p_ident (snd f), p_offset (snd f), p_mf (snd f), zlen (p_payload (snd f)),
                 hd 0 (p_payload (snd f))))
      (snd (eg_run 562 (eg_init cfg_FRAGMENTATION_BUFFER_SIZE 7 1) c12_two_neighbours_ops)) =
  [(1, 7, 0, true, 536, 17); (1, 7, 536, true, 536, 17); (1, 7, 1072, false, 336, 17)]).

Check (C12_example_small_datagram_does_not_overtake :
  map (fun f => (p_is_fragment (snd f), p_offset (snd f), zlen (p_payload (snd f)), hd 0 (p_payload (snd f))))
      (snd (eg_run 576 (eg_init cfg_FRAGMENTATION_BUFFER_SIZE 7 1) c12_overtake_ops)) =
  [(true, 0, 552, 17); (true, 552, 552, 17); (true, 1104, 304, 17);
   (true, 0, 552, 34); (true, 552, 552, 34); (true, 1104, 104, 34); (false, 0, 18, 51)]).

Check (C12_example_permuted_duplicate :
  map (fun f => (fi_offset f, fi_mf f, zlen (fi_payload f))) c12_ex_frags =
    [(0, true, 552); (552, true, 552); (1104, false, 104)] /\
  snd (rs_run cfg_ASSEMBLER_MAX_SEGMENT_COUNT 60000
              (pas_new (Z.to_nat cfg_REASSEMBLY_BUFFER_COUNT)) c12_ex_arrival) =
    [None; None; None; Some c12_ex_payload] /\
  gaps_fit cfg_ASSEMBLER_MAX_SEGMENT_COUNT c12_ex_key [] c12_ex_arrival).

Check (C12_example_expired :
  match c12_ex_frags with
  | [a; b; c] =>
      snd (rs_run cfg_ASSEMBLER_MAX_SEGMENT_COUNT 60000 (pas_new 1) [(0, c); (1, a); (60001, b)])
        = [None; None; None] /\
      snd (rs_run cfg_ASSEMBLER_MAX_SEGMENT_COUNT 60000 (pas_new 1) [(0, c); (1, a); (60000, b)])
        = [None; None; Some c12_ex_payload]
  | _ => False
  end).

Check (C12_configured_constants :
  phy_IPV4_FRAGMENT_PAYLOAD_ALIGNMENT = 8 /\ wipv4_HEADER_LEN = 20 /\ weth_f_PAYLOAD = 14 /\
  f4_hdr + 8 <= wipv4_MIN_MTU /\
  f4_hdr + 8 <= cfg_FRAGMENTATION_BUFFER_SIZE <= 65535 /\
  1 <= cfg_ASSEMBLER_MAX_SEGMENT_COUNT /\ 1 <= cfg_REASSEMBLY_BUFFER_COUNT).
