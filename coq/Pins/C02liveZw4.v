(* Pins: full statements of the C02liveZw4 theorems; a weakened theorem no longer type-checks here.
   Generated once by tools/mkpins.py from Props/C02liveZw4.v and then committed: edit both or neither. *)
From SV Require Import Lib.Base Gen.Consts.
From SV Require Import Model.Seq32 Model.Assembler Model.TcpBuf Model.TcpTypes Model.Tcp Model.TcpNet.
From SV Require Import Proofs.TcpSendBase Proofs.TcpLiveBase Proofs.TcpLiveProofs Proofs.TcpLiveMore Proofs.TcpLiveProgress.
From SV Require Import Proofs.TcpNetBase.
From SV Require Import Proofs.TcpProgressBase Proofs.TcpProgressFrame Proofs.TcpProgressCtl Proofs.TcpProgressRecv Proofs.TcpProgressSend Proofs.TcpProgressNet Proofs.TcpProgressData Proofs.TcpProgressAck Proofs.TcpProgressAll Proofs.TcpProgressSafe Proofs.TcpProgressHs Proofs.TcpProgressHsD Proofs.TcpProgressHsNet Proofs.TcpProgressHsInit Proofs.TcpProgressHsLive Proofs.TcpProgressHsLive2 Proofs.TcpProgressZwp Proofs.TcpProgressExample Proofs.TcpProgressWitness Proofs.TcpProgressSafeWitness Proofs.TcpProgressZwDup Proofs.TcpProgressZw1 Proofs.TcpProgressZw1b Proofs.TcpProgressZw2 Proofs.TcpProgressZw3 Proofs.TcpProgressZwWitness Proofs.TcpProgressZw4 Proofs.TcpProgressZw5 Proofs.TcpProgressZw6 Proofs.TcpProgressZwWitness3.
From SV Require Import Props.C02liveZw4.

Check (C02live_handshake_completes_reliable : forall Dt Da Dack ca cb st0, start_ok Dack ca cb st0 ->
  forall evs st',
  reliable_schedule Dt Da st0 evs -> Forall (app_ev SA) evs -> net_run st0 evs = Ok st' -> TcpNetInv.small st' ->
  run_all syn_win_open st0 evs ->
  net_now st0 SA + 3 * Dt < net_now st' SA ->
  exists pre post fa1 st1,
    evs = pre ++ post /\ net_run st0 pre = Ok st1 /\ net_run st1 post = Ok st' /\
    reg SA Dack st1 /\ reach st1 /\ opts_ok st1 /\
    dl_sync Da fa1 st1 /\ dlb Dt fa1 st1 /\ fair_run Dt Da fa1 st1 post /\ once_run Dt Da fa1 st1 post /\
    net_now st1 SA <= net_now st0 SA + 3 * Dt).

Check (C02live_delivery_zero_windows_in_progress : forall x Dt Da Dack n evs fa st st' L0,
  reach st -> reg x Dack st -> opts_ok st ->
  0 <= Dt -> 0 <= Da -> dl_sync Da fa st -> dlb Dt fa st ->
  fair_run Dt Da fa st evs -> once_run Dt Da fa st evs ->
  Forall (app_ev x) evs -> net_run st evs = Ok st' ->
  (forall z, l_len (ep_written (net_get st' z)) < 2 ^ 30) ->
  run_all (zextra x) st evs ->
  L0 <= l_len (ep_written (net_get st x)) ->
  Z.max 0 (L0 - una_off (net_get st x)) + Z.max 0 (L0 - read_off (net_get st (side_other x))) <= Z.of_nat n ->
  net_now st x + Z.of_nat n * Wz Dt Da < net_now st' x ->
  exists pre post st1, evs = pre ++ post /\ net_run st pre = Ok st1 /\ net_run st1 post = Ok st' /\
                       L0 <= read_off (net_get st1 (side_other x))).

Check (C02live_transfer_from_net_init_zero_windows : forall Dt Da Dack ca cb st0 evs st',
  start_ok Dack ca cb st0 ->
  reliable_schedule Dt Da st0 evs -> Forall (app_ev SA) evs -> net_run st0 evs = Ok st' ->
  (forall z, l_len (ep_written (net_get st' z)) < 2 ^ 30) ->
  run_all (zregime Dack) st0 evs ->
  net_now st0 SA + 3 * Dt < net_now st' SA ->
  exists pre post st1,
    evs = pre ++ post /\ net_run st0 pre = Ok st1 /\ net_run st1 post = Ok st' /\
    (forall z, s_state (net_sock st1 z) = Established) /\ net_now st1 SA <= net_now st0 SA + 3 * Dt /\
    forall L0 n,
      L0 <= l_len (ep_written (net_get st1 SA)) ->
      Z.max 0 (L0 - una_off (net_get st1 SA)) + Z.max 0 (L0 - read_off (net_get st1 SB)) <= Z.of_nat n ->
      net_now st1 SA + Z.of_nat n * Wz Dt Da < net_now st' SA ->
      exists p1 p2 st2, post = p1 ++ p2 /\ net_run st1 p1 = Ok st2 /\ net_run st2 p2 = Ok st' /\
                        L0 <= read_off (net_get st2 SB)).

Check (C02live_transfer_from_net_init_zero_windows_applies :
  exists st0 st' pre post st1,
    start_ok 10000 zcfg_a zcfg_b st0 /\ reliable_schedule 5000 5000 st0 zw_full_sched /\
    run_all (zregime 10000) st0 zw_full_sched /\
    net_run st0 zw_full_sched = Ok st' /\ zw_full_sched = pre ++ post /\ net_run st0 pre = Ok st1 /\
    net_run st1 post = Ok st' /\ (forall z, s_state (net_sock st1 z) = Established) /\
    net_now st1 SA <= net_now st0 SA + 3 * 5000).
