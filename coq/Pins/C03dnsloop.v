(* Pins: full statements of the C03dnsloop theorems; a weakened theorem no longer type-checks here.
   Generated once by tools/mkpins.py from Props/C03dnsloop.v and then committed: edit both or neither. *)
From SV Require Import Lib.Base Gen.Consts Gen.WireFields Model.WireDns Model.Dns Model.EgressLoop.
From SV Require Import Proofs.WireDnsProofs Proofs.DnsProofs Proofs.DnsBlockedProofs Proofs.EgressLoopProofs Proofs.DnsLoop.
From SV Require Import Props.C03dnsloop.

Check (C03_dns_dispatch_step : forall cfg now, cfg_ok cfg ->
  forall (E : Type) (decide : E -> dns_sock -> (bool * bool) * E) e s e' s' r,
  sock_ok cfg s -> dnsl_dispatch cfg now E decide e s = (e', s', r) ->
  sock_ok cfg s' /\ (r = RSent -> (dnsl_mu now s' < dnsl_mu now s)%nat) /\
  (r <> RSent -> (dnsl_mu now s' <= dnsl_mu now s)%nat)).

Check (C03_dns_socket_set_egress_returns : forall cfg now, cfg_ok cfg ->
  forall (E : Type) (decide : E -> dns_sock -> (bool * bool) * E) (pre : E -> E) fuel e ss,
  Forall (sock_ok cfg) ss -> (total2 dns_sock (dnsl_mu now) ss < fuel)%nat ->
  exists e' r n, poll_loop2 E dns_sock (dnsl_dispatch cfg now E decide) pre fuel e ss = Some (e', r, n) /\
                 (n + total2 dns_sock (dnsl_mu now) r <= total2 dns_sock (dnsl_mu now) ss)%nat /\
                 length r = length ss /\ Forall (sock_ok cfg) r).
