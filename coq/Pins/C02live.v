(* Pins: full statements of the C02live theorems; a weakened theorem no longer type-checks here.
   Generated once by tools/mkpins.py from Props/C02live.v and then committed: edit both or neither. *)
From SV Require Import Lib.Base Gen.Consts.
From SV Require Import Model.Seq32 Model.Assembler Model.TcpBuf Model.TcpTypes Model.Tcp Model.TcpNet.
From SV Require Import Proofs.TcpSendBase Proofs.TcpLiveBase Proofs.TcpLiveProofs Proofs.TcpLiveMore Proofs.TcpLiveProgress.
From SV Require Import Proofs.TcpNetBase.
From SV Require Import Proofs.TcpProgressBase Proofs.TcpProgressFrame Proofs.TcpProgressRecv Proofs.TcpProgressSend Proofs.TcpProgressNet Proofs.TcpProgressData Proofs.TcpProgressAck Proofs.TcpProgressAll Proofs.TcpProgressZwp Proofs.TcpProgressExample Proofs.TcpProgressWitness.
From SV Require Import Props.C02live.

Check (C02live_fair_runb_sound : forall Dt Da evs fa st,
  fair_runb Dt Da fa st evs = true -> fair_run Dt Da fa st evs).

Check (C02live_fair_schedule_example :
  exists st0 st,
    net_init ex_cfg_a ex_cfg_b = Ok st0 /\ fair_schedule 5000 5000 st0 ex_sched /\
    net_run st0 ex_sched = Ok st /\
    ep_written (n_a st) = [1;2;3;4;5] /\ ep_read (n_b st) = [1;2;3;4;5] /\
    ep_finished (n_b st) = true /\ ep_finished (n_a st) = true /\
    s_state (net_sock st SA) = Closed /\ s_state (net_sock st SB) = Closed).

Check (C02live_fair_leads : forall (Dt Da : Z) (R : net -> Prop) (J Q : fair_aux -> net -> Prop) (x : side) (T : Z),
  (forall fa st, J fa st -> net_now st x <= T) ->
  (forall fa st ev st', R st -> R st' -> J fa st -> fair_ev fa st ev -> net_step st ev = Ok st' ->
     Q (fa_after Dt Da fa ev st') st' \/ J (fa_after Dt Da fa ev st') st') ->
  forall evs fa st st',
    J fa st -> run_all R st evs -> fair_run Dt Da fa st evs -> net_run st evs = Ok st' ->
    T < net_now st' x ->
    exists pre post fa1 st1,
      evs = pre ++ post /\ net_run st pre = Ok st1 /\ net_run st1 post = Ok st' /\
      run_all R st1 post /\ fair_run Dt Da fa1 st1 post /\ Q fa1 st1).

Check (C02live_run_invariant : forall st ev st',
  NI st -> net_step st ev = Ok st' -> NI st').

Check (C02live_delayed_ack_bounded : forall cx s ev s' out tags,
  run_ev ev -> tcp_step cx s ev = Ok (s', out, tags) ->
  delack_bounded (cx_now cx) s -> delack_bounded (cx_now cx) s').

Check (C02live_options_invariant : forall st ev st',
  opts_ok st -> net_step st ev = Ok st' -> opts_ok st').

Check (C02live_receiver_accepts_in_order : forall cx s ip r s' rep tags W,
  s_state s = Established -> rcv_wf s ->
  tcp_window_end s = seq_norm (tcp_window_start s + W) -> 0 < W <= TcpRecvWindow.p30 ->
  r_seq_number r = tcp_window_start s ->
  0 < l_len (r_payload r) <= TcpRecvWindow.p30 ->
  (r_control r = CNone \/ r_control r = CPsh) ->
  r_ack_number r = Some (s_local_seq_no s) ->
  0 <= s_local_seq_no s < 4294967296 -> 0 <= rb_len (s_tx_buffer s) < 2147483648 ->
  tcp_process cx s ip r = Ok (s', rep, tags) ->
  exists m, Z.min W (l_len (r_payload r)) <= m /\
    rb_len (s_rx_buffer s') = rb_len (s_rx_buffer s) + m /\
    rb_cap (s_rx_buffer s') = rb_cap (s_rx_buffer s) /\
    s_remote_seq_no s' = s_remote_seq_no s /\ s_state s' = Established /\
    s_rx_fin_received s' = s_rx_fin_received s /\ s_remote_win_shift s' = s_remote_win_shift s /\
    ((exists p, rep = Some p /\ r_ack_number (snd p) = Some (tcp_window_start s') /\
                r_control (snd p) = CNone /\ r_payload (snd p) = [] /\
                s_remote_last_ack s' = Some (tcp_window_start s'))
     \/ (rep = None /\ s_remote_last_ack s' = s_remote_last_ack s /\
         s_remote_last_win s' = s_remote_last_win s))).

Check (C02live_receiver_never_moves_back : forall cx s ip r s' rep tags,
  s_state s = Established -> rcv_wf s -> adv_ok s ->
  l_len (r_payload r) <= TcpRecvWindow.p30 -> 0 <= r_seq_number r < 4294967296 ->
  (r_control r = CNone \/ r_control r = CPsh) ->
  r_ack_number r = Some (s_local_seq_no s) ->
  0 <= s_local_seq_no s < 4294967296 -> 0 <= rb_len (s_tx_buffer s) < 2147483648 ->
  tcp_process cx s ip r = Ok (s', rep, tags) ->
  rcv_wf s' /\ rb_len (s_rx_buffer s) <= rb_len (s_rx_buffer s') /\
  rb_cap (s_rx_buffer s') = rb_cap (s_rx_buffer s) /\
  s_remote_seq_no s' = s_remote_seq_no s /\ s_state s' = Established /\
  s_rx_fin_received s' = s_rx_fin_received s /\
  pure_ack_of s' rep /\
  (rep = None -> s_remote_last_ack s' = s_remote_last_ack s)).

Check (C02live_stale_data_acked_at_once : forall cx s ip r s' rep tags W d,
  s_state s = Established ->
  0 <= W <= TcpRecvWindow.p30 -> tcp_window_end s = seq_norm (tcp_window_start s + W) ->
  r_seq_number r = seq_norm (tcp_window_start s + d) -> -2147483648 <= d < 2147483648 ->
  0 < l_len (r_payload r) <= TcpRecvWindow.p30 ->
  ~ TcpRecvWindow.in_window_Z W d (l_len (r_payload r)) ->
  (r_control r = CNone \/ r_control r = CPsh) ->
  r_ack_number r = Some (s_local_seq_no s) ->
  0 <= s_local_seq_no s < 4294967296 -> 0 <= rb_len (s_tx_buffer s) < 2147483648 ->
  tcp_process cx s ip r = Ok (s', rep, tags) ->
  exists p, rep = Some p /\ pure_ack_of s' (Some p) /\ rcv_same s' s).

Check (C02live_established_transmits_carry_rcv_nxt : forall cx s ok s' res tags t,
  s_state s = Established -> s_tuple s = Some t -> tu_local_addr t = cx_addr cx ->
  tcp_dispatch cx s ok = Ok (s', res, tags) ->
  (forall p, res = DSent p \/ res = DEmitFailed p ->
     r_ack_number (snd p) = Some (tcp_window_start s) /\ r_window_len (snd p) = tcp_scaled_window s /\
     r_control (snd p) <> CSyn) /\
  (tcp_ack_to_transmit s = true -> tcp_delayed_ack_expired s (cx_now cx) = true -> ok = true ->
   exists p, res = DSent p)).

Check (C02live_fast_retransmit_from_snd_una : forall cx s s' res tags,
  tcp_live_inv s -> s_state s = Established ->
  s_timer s = TFastRetransmit ->
  0 < rb_len (s_tx_buffer s) -> 0 < s_remote_win_len s ->
  s_timeout s = None ->
  (forall t, s_tuple s = Some t -> tu_local_addr t = cx_addr cx) ->
  mss_ok cx s ->
  tcp_dispatch cx s true = Ok (s', res, tags) ->
  exists ip repr,
    res = DSent (ip, repr) /\
    r_seq_number repr = s_local_seq_no s /\ 0 < repr_segment_len repr /\
    (exists e', s_timer s' = TRetransmit e' /\ cx_now cx < e' <= cx_now cx + max_rto_us) /\
    s_local_seq_no s' = s_local_seq_no s /\ s_state s' = s_state s).

Check (C02live_idle_transmit_from_snd_una : forall cx s s' res tags,
  tcp_live_inv s -> tcp_need s ->
  timer_is_idle (s_timer s) = true -> s_remote_last_seq s = s_local_seq_no s ->
  s_timeout s = None ->
  (forall t, s_tuple s = Some t -> tu_local_addr t = cx_addr cx) ->
  (0 < rb_len (s_tx_buffer s) -> s_remote_win_len s <> 0) ->
  mss_ok cx s ->
  tcp_dispatch cx s true = Ok (s', res, tags) ->
  exists ip repr,
    res = DSent (ip, repr) /\
    r_seq_number repr = s_local_seq_no s /\ 0 < repr_segment_len repr /\
    (exists e', s_timer s' = TRetransmit e' /\ cx_now cx < e' <= cx_now cx + max_rto_us) /\
    s_local_seq_no s' = s_local_seq_no s /\ s_state s' = s_state s).

Check (C02live_undue_rto_survives_dispatch : forall cx s t ok s' res tags e,
  tcp_live_inv s -> s_state s = Established -> s_timeout s = None ->
  s_tuple s = Some t -> tu_local_addr t = cx_addr cx ->
  s_timer s = TRetransmit e -> cx_now cx < e ->
  tcp_dispatch cx s ok = Ok (s', res, tags) -> s_timer s' = TRetransmit e).

Check (C02live_poll_at_bounded_by_rto_deadline : forall cx s,
  tcp_live_inv s -> tcp_need s ->
  timer_is_zero_window_probe (s_timer s) = false ->
  (0 < rb_len (s_tx_buffer s) -> s_remote_win_len s <> 0) ->
  match tcp_poll_at cx s with
  | Ok Tcp.PNow => True
  | Ok (Tcp.PTime t) => exists e, s_timer s = TRetransmit e /\ t <= e
  | Ok Tcp.PIngress => False
  | _ => True
  end).

Check (C02live_sender_progress_or_deadline_kept : forall cx s ip r s' reply tags,
  ctx_ok cx -> seg_ok r -> tcp_live_inv s ->
  s_state s = Established -> s_state s' = Established ->
  timer_is_zero_window_probe (s_timer s) = false ->
  rb_len (s_tx_buffer s) < 2 ^ 31 ->
  tcp_process cx s ip r = Ok (s', reply, tags) ->
  rb_len (s_tx_buffer s') < rb_len (s_tx_buffer s) \/
  (s_local_seq_no s' = s_local_seq_no s /\ s_tx_buffer s' = s_tx_buffer s /\
   (s_timer s' = s_timer s \/ s_timer s' = TFastRetransmit \/ timer_is_idle (s_timer s') = true \/
    timer_is_zero_window_probe (s_timer s') = true))).

Check (C02live_retransmission_eventually_delivered_partial : forall x Dt Da evs fa st st' u0,
  0 <= Dt ->
  NI st -> opts_ok st -> dl_sync Da fa st ->
  run_all (oneway_safe x) st evs -> fair_run Dt Da fa st evs -> net_run st evs = Ok st' ->
  0 < txl x st -> una_off (net_get st x) = u0 -> rcv_off (net_get st (side_other x)) = u0 ->
  net_now st x + max_rto_us + Dt < net_now st' x ->
  exists pre post st1, evs = pre ++ post /\ net_run st pre = Ok st1 /\ net_run st1 post = Ok st' /\
                       Qf x u0 st1).

Check (C02live_receiver_accepts_retransmission : forall cx s ip r s' rep tags W k,
  s_state s = Established -> rcv_wf s ->
  tcp_window_end s = seq_norm (tcp_window_start s + W) -> 0 <= W <= TcpRecvWindow.p30 ->
  r_seq_number r = seq_norm (tcp_window_start s - k) -> 0 <= k <= TcpRecvWindow.p30 ->
  0 < l_len (r_payload r) <= TcpRecvWindow.p30 ->
  (r_control r = CNone \/ r_control r = CPsh) ->
  r_ack_number r = Some (s_local_seq_no s) ->
  0 <= s_local_seq_no s < 4294967296 -> 0 <= rb_len (s_tx_buffer s) < 2147483648 ->
  tcp_process cx s ip r = Ok (s', rep, tags) ->
  s_remote_seq_no s' = s_remote_seq_no s /\ s_state s' = Established /\
  s_rx_fin_received s' = s_rx_fin_received s /\
  ((exists p, rep = Some p /\ pure_ack_of s' (Some p) /\
              rb_len (s_rx_buffer s) <= rb_len (s_rx_buffer s') /\
              (0 < W -> k = 0 -> rb_len (s_rx_buffer s) < rb_len (s_rx_buffer s')))
   \/ (rep = None /\ s_remote_last_ack s' = s_remote_last_ack s /\
       exists m, 1 <= m /\ rb_len (s_rx_buffer s') = rb_len (s_rx_buffer s) + m))).

Check (C02live_poll_at_while_ack_owed : forall cx s,
  s_tuple s <> None -> tcp_ack_to_transmit s = true ->
  match tcp_poll_at cx s with
  | Ok Tcp.PNow => True
  | Ok (Tcp.PTime t) => exists t0, s_ack_delay_timer s = ADWaiting t0 /\ t <= t0
  | Ok Tcp.PIngress => False
  | _ => True
  end).

Check (C02live_ack_of_new_data_accepted : forall cx s ip r s' reply tags d W,
  ctx_ok cx -> seg_ok r -> tcp_live_inv s -> s_state s = Established ->
  r_control r = CNone -> r_payload r = [] ->
  r_seq_number r = tcp_window_start s ->
  tcp_window_end s = seq_norm (tcp_window_start s + W) -> 0 <= W <= 2 ^ 30 ->
  r_ack_number r = Some (sq (s_local_seq_no s + d)) ->
  0 < d <= rb_len (s_tx_buffer s) -> rb_len (s_tx_buffer s) < 2 ^ 30 ->
  tcp_process cx s ip r = Ok (s', reply, tags) ->
  rb_len (s_tx_buffer s') = rb_len (s_tx_buffer s) - d).

Check (C02live_ack_eventually_advances_snd_una_partial : forall x Dt Da Dack evs fa st st' u0,
  0 <= Dt -> 0 <= Dack ->
  NI st -> opts_ok st -> dl_sync Da fa st ->
  run_all (safe3 x Dack) st evs -> fair_run Dt Da fa st evs -> net_run st evs = Ok st' ->
  0 < txl x st -> una_off (net_get st x) = u0 ->
  net_now st x + max_rto_us + 2 * Dt + Dack < net_now st' x ->
  exists pre post fa1 st1,
    evs = pre ++ post /\ net_run st pre = Ok st1 /\ net_run st1 post = Ok st' /\
    run_all (safe3 x Dack) st1 post /\ fair_run Dt Da fa1 st1 post /\
    NI st1 /\ opts_ok st1 /\ dl_sync Da fa1 st1 /\
    Qg x u0 st1 /\ net_now st1 x <= net_now st x + max_rto_us + 2 * Dt + Dack).

Check (C02live_all_written_bytes_eventually_acked_partial : forall x Dt Da Dack n evs fa st st' L0,
  0 <= Dt -> 0 <= Dack ->
  NI st -> opts_ok st -> dl_sync Da fa st ->
  run_all (safe3 x Dack) st evs -> fair_run Dt Da fa st evs -> net_run st evs = Ok st' ->
  L0 <= l_len (ep_written (net_get st x)) ->
  L0 - una_off (net_get st x) <= Z.of_nat n ->
  net_now st x + Z.of_nat n * W3 Dt Dack < net_now st' x ->
  exists pre post st1, evs = pre ++ post /\ net_run st pre = Ok st1 /\ net_run st1 post = Ok st' /\
                       L0 <= una_off (net_get st1 x) /\ L0 <= rcv_off (net_get st1 (side_other x))).

Check (C02live_run_invariant_initial : forall ca cb st,
  cc_ok (c_cc ca) -> cc_ok (c_cc cb) -> 0 <= c_now ca -> 0 <= c_now cb ->
  net_init ca cb = Ok st -> NI st).

Check (C02live_all_written_bytes_eventually_delivered_partial : forall x Dt Da Dack n m evs fa st st' L0,
  0 <= Dt -> 0 <= Dack -> 0 <= Da ->
  NI st -> opts_ok st -> dl_sync Da fa st ->
  run_all (safe3 x Dack) st evs -> fair_run Dt Da fa st evs -> net_run st evs = Ok st' ->
  L0 <= l_len (ep_written (net_get st x)) ->
  L0 - una_off (net_get st x) <= Z.of_nat n ->
  L0 - read_off (net_get st (side_other x)) <= Z.of_nat m ->
  net_now st x + Z.of_nat n * W3 Dt Dack + Z.of_nat m * Da < net_now st' x ->
  exists pre post st1, evs = pre ++ post /\ net_run st pre = Ok st1 /\ net_run st1 post = Ok st' /\
                       L0 <= read_off (net_get st1 (side_other x))).

Check (C02live_composition_hypotheses_satisfiable :
  exists st0 st st',
    net_init ex_cfg_a ex_cfg_b = Ok st0 /\ net_run st0 wit_prefix = Ok st /\
    NI st /\ opts_ok st /\ dl_sync 5000 (fa_init 5000 5000 st) st /\
    run_all (safe3 SA 10000) st wit_suffix /\ fair_run 5000 5000 (fa_init 5000 5000 st) st wit_suffix /\
    net_run st wit_suffix = Ok st' /\
    5 <= l_len (ep_written (net_get st SA)) /\ 5 - una_off (net_get st SA) <= Z.of_nat 5 /\
    5 - read_off (net_get st SB) <= Z.of_nat 5 /\ 0 <= 5000 /\ 0 <= 5000 /\ 0 <= 10000 /\
    net_now st SA + Z.of_nat 5 * W3 5000 10000 + Z.of_nat 5 * 5000 < net_now st' SA).

Check (C02live_witness_prefix_is_lossy : In (NDrop SB 2) wit_prefix).

Check (C02live_composition_applies :
  exists st0 st st',
    net_init ex_cfg_a ex_cfg_b = Ok st0 /\ net_run st0 wit_prefix = Ok st /\ net_run st wit_suffix = Ok st' /\
    exists pre post st1, wit_suffix = pre ++ post /\ net_run st pre = Ok st1 /\ net_run st1 post = Ok st' /\
                         5 <= read_off (net_get st1 SB)).

Check (C02live_zero_window_update_due_partial : forall cx s,
  s_tuple s <> None -> tcp_window_to_update s = Ok true ->
  match tcp_poll_at cx s with Ok Tcp.PNow => True | Ok _ => False | _ => True end).

Check (C02live_zero_window_update_learned_partial : forall cx s ip r s' reply tags d W,
  ctx_ok cx -> seg_ok r -> tcp_live_inv s -> s_state s = Established ->
  r_control r = CNone -> r_payload r = [] ->
  r_seq_number r = tcp_window_start s ->
  tcp_window_end s = seq_norm (tcp_window_start s + W) -> 0 <= W <= 2 ^ 30 ->
  r_ack_number r = Some (sq (s_local_seq_no s + d)) ->
  0 <= d <= rb_len (s_tx_buffer s) -> rb_len (s_tx_buffer s) < 2 ^ 30 ->
  0 < r_window_len r ->
  tcp_process cx s ip r = Ok (s', reply, tags) ->
  s_remote_win_len s' = shl (r_window_len r) (win_scale_of s r) /\ 0 < s_remote_win_len s' /\
  rb_len (s_tx_buffer s') = rb_len (s_tx_buffer s) - d).

Check (C02live_zero_window_probe_sent_partial : forall cx s e d0 s' res tags,
  tcp_live_inv s -> s_state s = Established ->
  s_timer s = TZeroWindowProbe e d0 -> e <= cx_now cx -> 0 < d0 ->
  s_remote_win_len s = 0 -> 0 < rb_len (s_tx_buffer s) ->
  s_remote_last_seq s = s_local_seq_no s ->
  s_timeout s = None ->
  (forall t, s_tuple s = Some t -> tu_local_addr t = cx_addr cx) ->
  mss_ok cx s ->
  tcp_dispatch cx s true = Ok (s', res, tags) ->
  exists ip repr,
    res = DSent (ip, repr) /\
    r_seq_number repr = s_local_seq_no s /\ l_len (r_payload repr) = 1 /\
    (exists e' d', s_timer s' = TZeroWindowProbe e' d' /\ cx_now cx < e' <= cx_now cx + max_rto_us) /\
    s_local_seq_no s' = s_local_seq_no s /\ s_state s' = s_state s).
