(* Pins: full statements of the C07b_ndisc theorems; a weakened theorem no longer type-checks here.
   Generated once by tools/mkpins.py from Props/C07b_ndisc.v and then committed: edit both or neither. *)
From SV Require Import Lib.Base Gen.WireFields Model.WireBase Proofs.WireBaseProofs.
From SV Require Import Model.WireIpv6 Model.WireNdiscOpt Proofs.WireNdiscOptProofs.
From SV Require Import Props.C07b_ndisc.

Check (C07_ndopt_accessors_safe : forall bs,
  bytes_ok bs = true -> ndopt_new_checked bs = Ok tt ->
  ndopt_option_type bs <> Panic /\ ndopt_data_len bs <> Panic /\ ndopt_data bs <> Panic /\
  ndopt_link_layer_addr bs <> Panic /\ ndopt_mtu bs <> Panic /\
  (ndopt_option_type bs = Ok ndopt_T_PREFIX ->
   ndopt_prefix_len bs <> Panic /\ ndopt_prefix_flags bs <> Panic /\ ndopt_valid_lifetime bs <> Panic /\
   ndopt_preferred_lifetime bs <> Panic /\ ndopt_prefix bs <> Panic)).

Check (C07_ndopt_check_len_total : forall bs, ndopt_check_len bs <> Panic).

Check (C07_ndopt_parse_total : forall bs, bytes_ok bs = true -> ndopt_parse bs <> Panic).
