(* Pins: full statements of the C02liveHs theorems; a weakened theorem no longer type-checks here.
   Generated once by tools/mkpins.py from Props/C02liveHs.v and then committed: edit both or neither. *)
From SV Require Import Lib.Base Gen.Consts.
From SV Require Import Model.Seq32 Model.Assembler Model.TcpBuf Model.TcpTypes Model.Tcp Model.TcpNet.
From SV Require Import Proofs.TcpSendBase Proofs.TcpLiveBase Proofs.TcpLiveProofs Proofs.TcpLiveMore Proofs.TcpLiveProgress.
From SV Require Import Proofs.TcpNetBase.
From SV Require Import Proofs.TcpProgressBase Proofs.TcpProgressFrame Proofs.TcpProgressCtl Proofs.TcpProgressRecv Proofs.TcpProgressSend Proofs.TcpProgressNet Proofs.TcpProgressData Proofs.TcpProgressAck Proofs.TcpProgressAll Proofs.TcpProgressSafe Proofs.TcpProgressHs Proofs.TcpProgressHsD Proofs.TcpProgressHsNet Proofs.TcpProgressHsInit Proofs.TcpProgressHsLive Proofs.TcpProgressExample Proofs.TcpProgressWitness Proofs.TcpProgressSafeWitness.
From SV Require Import Props.C02liveHs.

Check (C02live_listen_accepts_syn : forall cx s ip r s' rep tags,
  s_state s = Listen -> r_control r = CSyn -> r_ack_number r = None ->
  tcp_process cx s ip r = Ok (s', rep, tags) ->
  s_state s' = SynReceived /\
  s_tuple s' = Some (mkTuple (ip_dst ip) (r_dst_port r) (ip_src ip) (r_src_port r)) /\
  s_local_seq_no s' = cx_isn cx /\ s_remote_last_seq s' = cx_isn cx /\
  s_tx_buffer s' = s_tx_buffer s /\
  s_remote_seq_no s' = seq_add (r_seq_number r) 1 /\ s_rx_buffer s' = s_rx_buffer s /\
  s_remote_last_ack s' = None /\ rep = None /\
  rt_max_seq_sent (s_rtte s') = rt_max_seq_sent (s_rtte s)).

Check (C02live_synrecv_ack_no_rst : forall cx s ip r s' rep tags,
  s_state s = SynReceived -> (r_control r = CNone \/ r_control r = CPsh) ->
  r_ack_number r = Some (seq_add (s_local_seq_no s) 1) ->
  tcp_process cx s ip r = Ok (s', rep, tags) ->
  s_tuple s' = s_tuple s /\ s_tx_buffer s' = s_tx_buffer s /\
  (s_remote_last_ack s <> None -> s_remote_last_ack s' <> None) /\
  rt_max_seq_sent (s_rtte s') = rt_max_seq_sent (s_rtte s) /\
  ((s_state s' = SynReceived /\ s_local_seq_no s' = s_local_seq_no s /\
    fst (tcp_segment_in_window (tcp_window_start s) (tcp_window_end s) (r_seq_number r)
                               (seq_add (r_seq_number r) (l_len (r_payload r)))) = false) \/
   (s_state s' = Established /\ s_local_seq_no s' = seq_add (s_local_seq_no s) 1)) /\
  reply_ack ip r s' rep).

Check (C02live_synsent_synack_establishes : forall cx s ip r s' rep tags,
  s_state s = SynSent -> r_control r = CSyn ->
  r_ack_number r = Some (seq_add (s_local_seq_no s) 1) ->
  tcp_process cx s ip r = Ok (s', rep, tags) ->
  s_state s' = Established /\ s_tuple s' = s_tuple s /\ s_tx_buffer s' = s_tx_buffer s /\
  s_local_seq_no s' = seq_add (s_local_seq_no s) 1 /\
  s_remote_seq_no s' = seq_add (r_seq_number r) 1 /\ s_rx_buffer s' = s_rx_buffer s /\
  s_remote_last_ack s' = Some (r_seq_number r) /\ rep = None /\
  rt_max_seq_sent (s_rtte s') = rt_max_seq_sent (s_rtte s) /\
  s_remote_last_seq s' = seq_add (s_local_seq_no s) 1 /\ s_ack_delay_timer s' = s_ack_delay_timer s).

Check (C02live_handshake_transmits : forall cx s t ok s' res tags,
  tcp_live_inv s -> (s_state s = SynSent \/ s_state s = SynReceived) -> s_timeout s = None ->
  s_tuple s = Some t -> tu_local_addr t = cx_addr cx ->
  tcp_dispatch cx s ok = Ok (s', res, tags) ->
  (rt_max_seq_sent (s_rtte s) <> None -> rt_max_seq_sent (s_rtte s') <> None) /\
  (s_state s = SynReceived -> s_remote_last_ack s <> None -> s_remote_last_ack s' <> None) /\
  forall p, res = DSent p ->
    ip_src (fst p) = tu_local_addr t /\ ip_dst (fst p) = tu_remote_addr t /\
    r_src_port (snd p) = tu_local_port t /\ r_dst_port (snd p) = tu_remote_port t /\
    r_control (snd p) = CSyn /\ r_seq_number (snd p) = s_local_seq_no s /\
    r_ack_number (snd p) = (if tcp_state_eqb (s_state s) SynSent then None else Some (tcp_window_start s)) /\
    rt_max_seq_sent (s_rtte s') <> None /\ (s_state s = SynReceived -> s_remote_last_ack s' <> None) /\
    r_payload (snd p) = []).

Check (C02live_handshake_init : forall ca cb st0 isn Dack,
  net_init ca cb = Ok st0 -> net_started st0 = true ->
  cfg_plain ca -> cfg_plain cb -> c_addr ca <> 0 ->
  match c_ack_delay cb with Some d => 0 <= d <= Dack | None => True end ->
  pre_hs isn Dack st0 /\ opts_ok st0).

Check (C02live_handshake_step : forall isn Dack st ev st',
  NI st -> opts_ok st -> hs_view isn st -> pre_hs isn Dack st ->
  script_ev SA ev -> net_step st ev = Ok st' ->
  hs_view isn st' -> inv_at SA st' ->
  pre_hs isn Dack st' \/ reg SA Dack st').

Check (C02live_established_gives_regime : forall Dack ca cb st0 pre st,
  start_ok Dack ca cb st0 -> Forall (script_ev SA) pre -> net_run st0 pre = Ok st -> TcpNetInv.small st ->
  (forall z, s_state (net_sock st z) = Established) ->
  reg SA Dack st /\ opts_ok st /\ reach st).

Check (C02live_delivery_from_net_init : forall Dt Da Dack ca cb st0 n m pre evs st st' L0,
  start_ok Dack ca cb st0 ->
  Forall (app_ev SA) pre -> net_run st0 pre = Ok st ->
  (forall z, s_state (net_sock st z) = Established) ->
  fair_schedule Dt Da st evs -> 0 <= Dack ->
  Forall (app_ev SA) evs -> net_run st evs = Ok st' ->
  (forall z, l_len (ep_written (net_get st' z)) < 2 ^ 30) ->
  run_all (win_open SA) st evs ->
  L0 <= l_len (ep_written (net_get st SA)) ->
  L0 - una_off (net_get st SA) <= Z.of_nat n ->
  L0 - read_off (net_get st SB) <= Z.of_nat m ->
  net_now st SA + Z.of_nat n * W3 Dt Dack + Z.of_nat m * Da < net_now st' SA ->
  exists p1 p2 st1, evs = p1 ++ p2 /\ net_run st p1 = Ok st1 /\ net_run st1 p2 = Ok st' /\
                    L0 <= read_off (net_get st1 SB)).

Check (C02live_delivery_from_net_init_applies :
  exists st0 st st',
    start_ok 10000 ex_cfg_a ex_cfg_b st0 /\ net_run st0 wit_prefix = Ok st /\ net_run st wit_suffix = Ok st' /\
    exists p1 p2 st1, wit_suffix = p1 ++ p2 /\ net_run st p1 = Ok st1 /\ net_run st1 p2 = Ok st' /\
                      5 <= read_off (net_get st1 SB)).

Check (C02live_syn_poll_now : forall cx s,
  s_tuple s <> None -> (s_state s = SynSent \/ s_state s = SynReceived) ->
  s_remote_last_seq s = s_local_seq_no s -> 52 < cx_ip_mtu cx ->
  tcp_poll_at cx s = Ok PNow).

Check (C02live_syn_dispatch_emits : forall cx s t s' res tags,
  tcp_live_inv s -> (s_state s = SynSent \/ s_state s = SynReceived) -> s_timeout s = None ->
  s_tuple s = Some t -> tu_local_addr t = cx_addr cx ->
  s_remote_last_seq s = s_local_seq_no s -> 52 < cx_ip_mtu cx ->
  tcp_dispatch cx s true = Ok (s', res, tags) -> exists p, res = DSent p).

Check (C02live_handshake_run_safe : forall Dack ca cb st0, start_ok Dack ca cb st0 ->
  forall evs pre st1 st,
  net_run st0 pre = Ok st1 -> hs_inv (cx_isn (ep_cx (n_a st0))) Dack st1 -> opts_ok st1 ->
  Forall (script_ev SA) evs -> net_run st1 evs = Ok st -> TcpNetInv.small st ->
  run_all (HSR (cx_isn (ep_cx (n_a st0))) Dack) st1 evs).

Check (C02live_handshake_phase_step : forall isn Dack Dt Da T0 dk fa st ev st',
  0 <= Dt -> HSR isn Dack st -> HSR isn Dack st' -> Jh Dt Da T0 dk fa st -> fair_ev fa st ev -> net_step st ev = Ok st' ->
  Qh (fa_after Dt Da fa ev st') st' \/ Jh Dt Da T0 dk (fa_after Dt Da fa ev st') st').

Check (C02live_syn_eventually_established : forall Dt Da Dack ca cb st0 evs st',
  start_ok Dack ca cb st0 -> fair_schedule Dt Da st0 evs ->
  Forall (app_ev SA) evs -> net_run st0 evs = Ok st' -> TcpNetInv.small st' ->
  net_now st0 SA + 2 * Dt < net_now st' SA ->
  exists pre post st1, evs = pre ++ post /\ net_run st0 pre = Ok st1 /\ net_run st1 post = Ok st' /\
                       s_state (net_sock st1 SA) = Established).
