(* Pins: full statements of the C02cubic theorems; a weakened theorem no longer type-checks here.
   Generated once by tools/mkpins.py from Props/C02cubic.v and then committed: edit both or neither. *)
From SV Require Import Lib.Base Gen.Consts.
From SV Require Import Model.Cubic Proofs.CubicProofs.
From SV Require Import Props.C02cubic.

Check (C02_cubic_initial : cubic_inv cubic_new).

Check (C02_cubic_window_ge_mss : forall dbg evs c',
  Forall cubic_ev_ok evs -> cubic_run dbg cubic_new evs = Ok c' ->
  0 < cb_mss c' <= cubic_window c').

Check (C02_cubic_window_ge_mss_from : forall dbg evs c c',
  cubic_inv c -> Forall cubic_ev_ok evs -> cubic_run dbg c evs = Ok c' ->
  0 < cb_mss c' <= cubic_window c').

Check (C02_cubic_release_never_panics : forall evs,
  Forall cubic_ev_ok evs -> exists c', cubic_run false cubic_new evs = Ok c').

Check (C02_cubic_debug_never_panics : forall M W S T evs,
  cubic_DEFAULT_MSS <= M -> 64 * cubic_DEFAULT_MSS <= W ->
  Z.max (W + 3 * M) S + T * M <= cubic_usize_max ->
  Forall cubic_ev_ok evs -> Forall (cubic_ev_bounded M W S) evs -> Forall (cubic_ev_small T) evs ->
  exists c', cubic_run true cubic_new evs = Ok c').

Check (C02_cubic_window_le_bounds : forall dbg M W S evs c',
  cubic_DEFAULT_MSS <= M -> 64 * cubic_DEFAULT_MSS <= W ->
  Forall cubic_ev_ok evs -> Forall (cubic_ev_bounded M W S) evs ->
  cubic_run dbg cubic_new evs = Ok c' ->
  cubic_window c' <= Z.max (W + 3 * M) S).

Check (C02_cubic_unrepaired_set_mss_refuted :
  exists c1, cubic_on_rto true cubic_new 1000000 1 (Some 0) = Ok c1 /\
  let c2 := cubic_set_mss_unrepaired c1 1460 in
  cubic_window c2 = 1024 /\ cb_mss c2 = 1460).

Check (C02_cubic_unrepaired_fr_exit_refuted :
  exists c1, cubic_on_loss true (cubic_set_mss cubic_new 536) 0 1072 None (Some 750) = Ok c1 /\
  cb_in_fast_recovery c1 = true /\
  let c2 := cubic_fr_exit_unrepaired (cubic_set_mss c1 1460) in
  cubic_window c2 = 1072 /\ cb_mss c2 = 1460).
