(* Pins: full statements of the C06b_ieee154 theorems; a weakened theorem no longer type-checks here.
   Generated once by tools/mkpins.py from Props/C06b_ieee154.v and then committed: edit both or neither. *)
From SV Require Import Lib.Base Gen.WireFields Model.WireBase Proofs.WireBaseProofs.
From SV Require Import Model.WireIeee802154 Proofs.WireIeee802154Proofs.
From SV Require Import Props.C06b_ieee154.

Check (C06_f154_emit_no_panic : forall r b,
  f154_wf r = true -> blen b = f154_buffer_len r -> f154_emit r b <> Panic).

Check (C06_f154_emit_ignores_old_bytes : forall r b1 b2,
  f154_wf r = true -> blen b1 = f154_buffer_len r -> blen b2 = f154_buffer_len r ->
  f154_emit r b1 = f154_emit r b2).

Check (C06_f154_roundtrip : forall r b,
  f154_wf r = true -> blen b = f154_buffer_len r ->
  exists bs, f154_emit r b = Ok bs /\ blen bs = f154_buffer_len r /\ f154_parse bs = Ok r).

Check (C06_f154_emit_spec : forall r b,
  f154_wf r = true -> blen b = f154_buffer_len r -> f154_emit r b = Ok (f154_bytes r)).

Check (C06_f154_reparse_partial : forall bs r raw,
  bytes_ok bs = true -> f154_parse bs = Ok r -> f154_fc bs = Ok raw -> f154_emittable raw = true ->
  f154_wf r = true /\
  forall b, blen b = f154_buffer_len r ->
    exists bs', f154_emit r b = Ok bs' /\ f154_parse bs' = Ok r).

Check (C06_f154_wf_table : forall ver dm sm c,
  f154_known_mode dm = true -> f154_known_mode sm = true ->
  f154_layout_ok ver dm sm c =
  (((ver =? 0) || (ver =? 1)) && negb (dm =? 0) && (negb (sm =? 0) || c)) ||
  ((ver =? 2) && (((dm =? 0) && (sm =? 0) && c) ||
                  (negb (dm =? 0) && negb (sm =? 0) && negb ((dm =? 3) && (sm =? 3)))))).

Check (C06_f154_reparse_refuted_dst_absent :
  let bs := [0; 144; 7; 205; 171; 52; 18] in
  exists r, bytes_ok bs = true /\ f154_new_checked bs = Ok tt /\ f154_parse bs = Ok r /\
    f154_wf r = false /\
    exists bs', f154_emit r (repeat 0 (Z.to_nat (f154_buffer_len r))) = Ok bs' /\ f154_parse bs' <> Ok r).

Check (C06_f154_reparse_refuted_security :
  let bs := [105; 220; 50; 205; 171; 191; 155; 21; 6; 0; 75; 18; 0; 199; 217; 181; 20; 0; 75; 18; 0;
             5; 49; 1; 0; 0; 62; 232; 251; 133; 228; 204; 244; 72; 144; 254; 86; 102; 247; 28; 101;
             158; 249; 147; 200; 52; 46] in
  exists r, bytes_ok bs = true /\ f154_new_checked bs = Ok tt /\ f154_parse bs = Ok r /\
    f154_wf r = false /\
    exists bs', f154_emit r (repeat 0 (Z.to_nat (f154_buffer_len r))) = Ok bs' /\ f154_parse bs' = Err 0).

Check (C06_f154_emit_old_bytes_refuted_no_addressing :
  let bs := [2; 0; 9; 0; 0] in
  exists r, f154_new_checked bs = Ok tt /\ f154_parse bs = Ok r /\ f154_wf r = false /\
    f154_buffer_len r = 7 /\
    f154_emit r [0; 0; 0; 0; 0; 0; 0] <> f154_emit r [255; 255; 255; 255; 255; 255; 255]).

Check (C06_f154_wf_example :
  f154_wf (mkF154 1 false false true (Some 1) true 2 (Some 43981) (Some (F154Short [255; 255])) None
             (Some (F154Ext [199; 217; 181; 20; 0; 75; 18; 0]))) = true).
