(* Pins: full statements of the C01 theorems; a weakened theorem no longer type-checks here.
   Generated once by tools/mkpins.py from Props/C01.v and then committed: edit both or neither. *)
From SV Require Import Lib.Base Gen.Consts.
From SV Require Import Model.Seq32 Model.Assembler Model.TcpBuf Model.TcpTypes Model.Tcp Model.TcpNet.
From SV Require Import Proofs.TcpNetBase Proofs.TcpNetContract Proofs.TcpNetTx Proofs.TcpNetCompose Proofs.TcpNetInv Proofs.TcpNetProofs.
From SV Require Import Props.C01.

Check (C01_channel_subset_of_emitted : forall ca cb st0 evs st,
  net_init ca cb = Ok st0 -> net_run st0 evs = Ok st ->
  forall x, incl (ep_out (net_get st x)) (ep_sent (net_get st x))).

Check (C01_e2e_prefix : forall ca cb st0 evs st,
  cfg_ok ca -> cfg_ok cb -> net_init ca cb = Ok st0 ->
  net_run st0 evs = Ok st -> run_age st0 evs ->
  prefix (ep_read (n_b st)) (ep_written (n_a st)) /\ prefix (ep_read (n_a st)) (ep_written (n_b st))).

Check (C01_e2e_finished_complete : forall ca cb st0 evs st,
  cfg_ok ca -> cfg_ok cb -> net_init ca cb = Ok st0 ->
  net_run st0 evs = Ok st -> run_age st0 evs ->
  (ep_finished (n_b st) = true -> ep_read (n_b st) = ep_written (n_a st)) /\
  (ep_finished (n_a st) = true -> ep_read (n_a st) = ep_written (n_b st))).

Check (C01_seg_age_implied_below_2GiB : forall ca cb st0 evs st,
  cfg_ok ca -> cfg_ok cb -> net_init ca cb = Ok st0 -> net_run st0 evs = Ok st ->
  l_len (ep_written (n_a st)) < 2147483647 /\ l_len (ep_written (n_b st)) < 2147483647 ->
  run_age st0 evs).

Check (C01_e2e_below_2GiB : forall ca cb st0 evs st,
  cfg_ok ca -> cfg_ok cb -> net_init ca cb = Ok st0 -> net_run st0 evs = Ok st ->
  l_len (ep_written (n_a st)) < 2147483647 /\ l_len (ep_written (n_b st)) < 2147483647 ->
  (prefix (ep_read (n_b st)) (ep_written (n_a st)) /\ prefix (ep_read (n_a st)) (ep_written (n_b st))) /\
  (ep_finished (n_b st) = true -> ep_read (n_b st) = ep_written (n_a st)) /\
  (ep_finished (n_a st) = true -> ep_read (n_a st) = ep_written (n_b st))).

Check (C01_example_adversarial_schedule :
  ex_view (ex_run ex_schedule) =
    Some ([1;2;3;4;5;6;7;8;9;10;11;12;13;14;15], [1;2;3;4;5], false) /\
  ex_view (ex_run ex_schedule_2) =
    Some ([1;2;3;4;5;6;7;8;9;10;11;12;13;14;15], [1;2;3;4;5;6;7;8;9;10;11;12;13;14;15], true) /\
  cfg_ok ex_cfg_a /\ cfg_ok ex_cfg_b).
