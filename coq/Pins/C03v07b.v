(* Pins: full statements of the C03v07b theorems; a weakened theorem no longer type-checks here.
   Generated once by tools/mkpins.py from Props/C03v07b.v and then committed: edit both or neither. *)
From SV Require Import Lib.Base Gen.WireFields Model.WireBase Proofs.WireBaseProofs.
From SV Require Import Model.WireIgmp Proofs.WireIgmpProofs.
From SV Require Import Model.WireIpv6Frag Proofs.WireIpv6FragProofs.
From SV Require Import Model.WireIpv6Ext Proofs.WireIpv6ExtProofs.
From SV Require Import Model.WireIcmpv6Hdr Proofs.WireIcmpv6HdrProofs Model.WireMld Proofs.WireMldProofs.
From SV Require Import Props.C07b.
From SV Require Import Props.C03v07b.

Check (C03_via_C07_igmp_accessors_safe : forall sum_ok bs,
  igmp_check_len bs = Ok tt ->
  igmp_msg_type bs <> Panic /\ igmp_max_resp_code bs <> Panic /\ igmp_checksum bs <> Panic /\
  igmp_group_addr bs <> Panic /\ igmp_verify_checksum sum_ok bs <> Panic).

Check (C03_via_C07_igmp_parse_total : forall bs, igmp_parse bs <> Panic).

Check (C03_via_C07_v6frag_accessors_safe : forall bs,
  v6frag_check_len bs = Ok tt ->
  v6frag_frag_offset bs <> Panic /\ v6frag_more_frags bs <> Panic /\ v6frag_ident_ bs <> Panic).

Check (C03_via_C07_v6frag_parse_total : forall bs, v6frag_parse bs <> Panic).

Check (C03_via_C07_v6ext_accessors_safe : forall bs,
  bytes_ok bs = true -> v6ext_check_len bs = Ok tt ->
  v6ext_next_header bs <> Panic /\ v6ext_header_len bs <> Panic /\ v6ext_payload bs <> Panic).

Check (C03_via_C07_v6ext_parse_total : forall bs, bytes_ok bs = true -> v6ext_parse bs <> Panic).

Check (C03_via_C07_icmp6h_check_len_total : forall bs, icmp6h_check_len bs <> Panic).

Check (C03_via_C07_mld_accessors_safe : forall bs, icmp6h_check_len bs = Ok tt ->
  (icmp6h_msg_type bs = Ok icmp6h_MLD_QUERY ->
     mld_max_resp_code bs <> Panic /\ mld_mcast_addr bs <> Panic /\ mld_s_flag bs <> Panic /\
     mld_qrv bs <> Panic /\ mld_qqic bs <> Panic /\ mld_num_srcs bs <> Panic) /\
  (icmp6h_msg_type bs = Ok icmp6h_MLD_REPORT -> mld_nr_mcast_addr_rcrds bs <> Panic) /\
  icmp6h_payload bs <> Panic).

Check (C03_via_C07_mld_parse_total : forall bs, mld_parse bs <> Panic).

Check (C03_via_C07_mld_icmp_parse_total : forall sum_ok rx bs, mld_icmp_parse sum_ok rx bs <> Panic).

Check (C03_via_C07_mldrec_accessors_safe : forall bs, mldrec_check_len bs = Ok tt ->
  mldrec_record_type bs <> Panic /\ mldrec_aux_data_len bs <> Panic /\ mldrec_num_srcs_ bs <> Panic /\
  mldrec_mcast_addr bs <> Panic /\ mldrec_payload_ bs <> Panic).

Check (C03_via_C07_mldrec_parse_total : forall bs, mldrec_parse bs <> Panic).
