(* Pins: full statements of the C10v06b_ieee154 theorems; a weakened theorem no longer type-checks here.
   Generated once by tools/mkpins.py from Props/C10v06b_ieee154.v and then committed: edit both or neither. *)
From SV Require Import Lib.Base Gen.WireFields Model.WireBase Proofs.WireBaseProofs.
From SV Require Import Model.WireIeee802154 Proofs.WireIeee802154Proofs.
From SV Require Import Props.C06b_ieee154.
From SV Require Import Props.C10v06b_ieee154.

Check (C10_via_C06_f154_emit_no_panic : forall r b,
  f154_wf r = true -> blen b = f154_buffer_len r -> f154_emit r b <> Panic).

Check (C10_via_C06_f154_roundtrip : forall r b,
  f154_wf r = true -> blen b = f154_buffer_len r ->
  exists bs, f154_emit r b = Ok bs /\ blen bs = f154_buffer_len r /\ f154_parse bs = Ok r).
