(* Pins: full statements of the C02liveHs2 theorems; a weakened theorem no longer type-checks here.
   Generated once by tools/mkpins.py from Props/C02liveHs2.v and then committed: edit both or neither. *)
From SV Require Import Lib.Base Gen.Consts.
From SV Require Import Model.Seq32 Model.Assembler Model.TcpBuf Model.TcpTypes Model.Tcp Model.TcpNet.
From SV Require Import Proofs.TcpSendBase Proofs.TcpLiveBase Proofs.TcpLiveProofs Proofs.TcpLiveMore Proofs.TcpLiveProgress.
From SV Require Import Proofs.TcpNetBase.
From SV Require Import Proofs.TcpProgressBase Proofs.TcpProgressFrame Proofs.TcpProgressCtl Proofs.TcpProgressRecv Proofs.TcpProgressSend Proofs.TcpProgressNet Proofs.TcpProgressData Proofs.TcpProgressAck Proofs.TcpProgressAll Proofs.TcpProgressSafe Proofs.TcpProgressHs Proofs.TcpProgressHsD Proofs.TcpProgressHs2 Proofs.TcpProgressHsNet Proofs.TcpProgressHsInit Proofs.TcpProgressHsLive Proofs.TcpProgressHsLive2 Proofs.TcpProgressExample Proofs.TcpProgressWitness Proofs.TcpProgressSafeWitness Proofs.TcpProgressFullWitness.
From SV Require Import Props.C02liveHs2.

Check (C02live_established_first_segment_seq : forall cx s t ok s' res tags,
  tcp_live_inv s -> s_state s = Established -> s_timeout s = None ->
  s_tuple s = Some t -> tu_local_addr t = cx_addr cx ->
  s_keep_alive s = None -> noka (s_timer s) ->
  s_remote_last_seq s = s_local_seq_no s -> tcp_send_next_seq s = s_local_seq_no s ->
  tcp_dispatch cx s ok = Ok (s', res, tags) ->
  forall p, res = DSent p -> r_seq_number (snd p) = s_local_seq_no s).

Check (C02live_established_ack_of_una : forall cx s ip r s' rep tags,
  tcp_live_inv s -> s_state s = Established -> r_control r <> CFin -> r_control r <> CRst ->
  r_payload r = [] -> r_ack_number r = Some (s_local_seq_no s) ->
  rb_len (s_tx_buffer s) < 2 ^ 31 ->
  tcp_process cx s ip r = Ok (s', rep, tags) ->
  s_local_seq_no s' = s_local_seq_no s /\
  (s_remote_last_seq s = s_local_seq_no s -> s_remote_last_seq s' = s_local_seq_no s) /\
  rt_max_seq_sent (s_rtte s') = rt_max_seq_sent (s_rtte s) /\
  s_ack_delay_timer s' = s_ack_delay_timer s /\
  (rep = None -> s_remote_last_ack s' = s_remote_last_ack s) /\
  reply_ack ip r s' rep).

Check (C02live_synrecv_in_window_establishes : forall cx s ip r s' rep tags W,
  s_state s = SynReceived -> (r_control r = CNone \/ r_control r = CPsh) ->
  r_ack_number r = Some (seq_add (s_local_seq_no s) 1) ->
  r_seq_number r = tcp_window_start s ->
  tcp_window_end s = seq_norm (tcp_window_start s + W) -> 0 <= W <= TcpRecvWindow.p30 ->
  0 <= l_len (r_payload r) <= TcpRecvWindow.p30 -> (0 < W \/ r_payload r = []) ->
  tcp_process cx s ip r = Ok (s', rep, tags) -> s_state s' = Established).

Check (C02live_handshake_last_leg_step : forall isn Dack Dt Da T3 dk fa st ev st',
  0 <= Dt -> R2 isn Dack st -> R2 isn Dack st' -> Jg isn Dt Da T3 dk fa st -> fair_ev fa st ev -> net_step st ev = Ok st' ->
  Qg Dack (fa_after Dt Da fa ev st') st' \/ Jg isn Dt Da T3 dk (fa_after Dt Da fa ev st') st').

Check (C02live_handshake_completes : forall Dt Da Dack ca cb st0, start_ok Dack ca cb st0 ->
  forall evs st',
  fair_schedule Dt Da st0 evs -> Forall (app_ev SA) evs -> net_run st0 evs = Ok st' -> TcpNetInv.small st' ->
  run_all syn_win_open st0 evs ->
  net_now st0 SA + 3 * Dt < net_now st' SA ->
  exists pre post fa1 st1,
    evs = pre ++ post /\ net_run st0 pre = Ok st1 /\ net_run st1 post = Ok st' /\
    reg SA Dack st1 /\ reach st1 /\ opts_ok st1 /\
    dl_sync Da fa1 st1 /\ fair_run Dt Da fa1 st1 post /\
    net_now st1 SA <= net_now st0 SA + 3 * Dt).

Check (C02live_regime_run : forall x Dack evs st st',
  reach st -> NI st -> opts_ok st -> reg x Dack st ->
  Forall (script_ev x) evs -> net_run st evs = Ok st' -> TcpNetInv.small st' ->
  run_all (reg x Dack) st evs).

Check (C02live_transfer_from_net_init : forall Dt Da Dack ca cb st0 evs st',
  start_ok Dack ca cb st0 -> 0 <= Dack ->
  fair_schedule Dt Da st0 evs -> Forall (app_ev SA) evs -> net_run st0 evs = Ok st' ->
  (forall z, l_len (ep_written (net_get st' z)) < 2 ^ 30) ->
  run_all (open_regime Dack) st0 evs ->
  net_now st0 SA + 3 * Dt < net_now st' SA ->
  exists pre post st1,
    evs = pre ++ post /\ net_run st0 pre = Ok st1 /\ net_run st1 post = Ok st' /\
    (forall z, s_state (net_sock st1 z) = Established) /\ net_now st1 SA <= net_now st0 SA + 3 * Dt /\
    forall L0 n m,
      L0 <= l_len (ep_written (net_get st1 SA)) ->
      L0 - una_off (net_get st1 SA) <= Z.of_nat n ->
      L0 - read_off (net_get st1 SB) <= Z.of_nat m ->
      net_now st1 SA + Z.of_nat n * W3 Dt Dack + Z.of_nat m * Da < net_now st' SA ->
      exists p1 p2 st2, post = p1 ++ p2 /\ net_run st1 p1 = Ok st2 /\ net_run st2 p2 = Ok st' /\
                        L0 <= read_off (net_get st2 SB)).

Check (C02live_transfer_from_net_init_applies :
  exists st0 st' pre post st1,
    start_ok 10000 ex_cfg_a ex_cfg_b st0 /\ fair_schedule 10000 5000 st0 full_sched /\
    net_run st0 full_sched = Ok st' /\ full_sched = pre ++ post /\ net_run st0 pre = Ok st1 /\
    net_run st1 post = Ok st' /\ (forall z, s_state (net_sock st1 z) = Established) /\
    net_now st1 SA <= net_now st0 SA + 3 * 10000).
