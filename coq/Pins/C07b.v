(* Pins: full statements of the C07b theorems; a weakened theorem no longer type-checks here.
   Generated once by tools/mkpins.py from Props/C07b.v and then committed: edit both or neither. *)
From SV Require Import Lib.Base Gen.WireFields Model.WireBase Proofs.WireBaseProofs.
From SV Require Import Model.WireIgmp Proofs.WireIgmpProofs.
From SV Require Import Model.WireIpv6Frag Proofs.WireIpv6FragProofs.
From SV Require Import Model.WireIpv6Ext Proofs.WireIpv6ExtProofs.
From SV Require Import Props.C07b.

Check (C07_igmp_accessors_safe : forall sum_ok bs,
  igmp_check_len bs = Ok tt ->
  igmp_msg_type bs <> Panic /\ igmp_max_resp_code bs <> Panic /\ igmp_checksum bs <> Panic /\
  igmp_group_addr bs <> Panic /\ igmp_verify_checksum sum_ok bs <> Panic).

Check (C07_igmp_parse_total : forall bs, igmp_parse bs <> Panic).

Check (C07_igmp_mant_exp_fuel : forall k m e, 0 <= e ->
  igmp_mant_exp (Z.to_nat (8 - e) + k) m e = igmp_mant_exp (Z.to_nat (8 - e)) m e).

Check (C07_v6frag_accessors_safe : forall bs,
  v6frag_check_len bs = Ok tt ->
  v6frag_frag_offset bs <> Panic /\ v6frag_more_frags bs <> Panic /\ v6frag_ident_ bs <> Panic).

Check (C07_v6frag_parse_total : forall bs, v6frag_parse bs <> Panic).

Check (C07_v6ext_accessors_safe : forall bs,
  bytes_ok bs = true -> v6ext_check_len bs = Ok tt ->
  v6ext_next_header bs <> Panic /\ v6ext_header_len bs <> Panic /\ v6ext_payload bs <> Panic).

Check (C07_v6ext_parse_total : forall bs, bytes_ok bs = true -> v6ext_parse bs <> Panic).
