(* Pins: full statements of the C10v06b_dhcp theorems; a weakened theorem no longer type-checks here.
   Generated once by tools/mkpins.py from Props/C10v06b_dhcp.v and then committed: edit both or neither. *)
From SV Require Import Lib.Base Gen.Consts Gen.WireFields Model.WireBase Proofs.WireBaseProofs.
From SV Require Import Model.WireDhcpv4 Proofs.WireDhcpv4Proofs.
From SV Require Import Props.C06b_dhcp.
From SV Require Import Props.C10v06b_dhcp.

Check (C10_via_C06_dhcpw_emit_no_panic : forall r b,
  dhcpw_wf_emit r = true -> blen b = dhcpw_buffer_len r -> dhcpw_emit r b <> Panic).

Check (C10_via_C06_dhcpw_roundtrip : forall r b,
  dhcpw_wf r = true -> blen b = dhcpw_buffer_len r ->
  exists bs, dhcpw_emit r b = Ok bs /\ blen bs = dhcpw_buffer_len r /\ dhcpw_parse bs = Ok r).

Check (C10_via_C06_dhcpw_roundtrip_additional : forall r b,
  dhcpw_wf_emit r = true ->
  forallb dhcpw_add_ok (dhcpw_r_additional_options r) = true -> blen b = dhcpw_buffer_len r ->
  exists bs, dhcpw_emit r b = Ok bs /\ blen bs = dhcpw_buffer_len r /\
             dhcpw_parse bs = Ok (dhcpw_clear_additional r)).
