(* Pins: full statements of the C03v20 theorems; a weakened theorem no longer type-checks here.
   Generated once by tools/mkpins.py from Props/C03v20.v and then committed: edit both or neither. *)
From SV Require Import Lib.Base Gen.Consts Gen.WireFields Model.WireBase Model.WireSixFrag Model.WireNhc.
From SV Require Import Model.Assembler Model.LowpanFrag Model.WireIphc Model.Lowpan.
From SV Require Import Proofs.WireBaseProofs Proofs.AssemblerProofs Proofs.LowpanWireProofs Proofs.LowpanFragProofs.
From SV Require Import Proofs.LowpanIphcBitsProofs Proofs.LowpanIphcProofs Proofs.LowpanProofs.
From SV Require Import Props.C20.
From SV Require Import Props.C03v20.

Check (C03_via_C20_frag_hdr_parse_no_panic : forall b,
  sixlowpan_dispatch b <> Panic /\ sixfrag_new_checked b <> Panic /\ sixfrag_parse b <> Panic).

Check (C03_via_C20_nhc_udp_parse_no_panic : forall b src dst rx, blen b < 65528 ->
  nhc_dispatch b <> Panic /\ nhc_udp_check_len b <> Panic /\ nhc_udp_parse b src dst rx <> Panic /\
  (nhc_udp_check_len b = Ok tt ->
     nhc_udp_src_port b <> Panic /\ nhc_udp_dst_port b <> Panic /\ nhc_udp_checksum b <> Panic /\
     nhc_udp_payload b <> Panic /\ nhc_udp_dispatch_field b <> Panic)).

Check (C03_via_C20_iphc_parse_no_panic : forall b lls lld ctx,
  iphc_ll_wf lls = true -> iphc_ll_wf lld = true ->
  iphc_parse b lls lld ctx <> Panic /\ iphc_check_len b <> Panic /\
  (iphc_check_len b = Ok tt -> iphc_payload b <> Panic /\ iphc_header_len b <> Panic)).

Check (C03_via_C20_decompress_no_panic : forall ctx lls lld b total_len buflen,
  bytes_ok b = true -> blen b < 65528 -> iphc_ll_wf lls = true -> iphc_ll_wf lld = true ->
  lp_ctx_wf ctx ->
  lp_IPV6_HDR <= buflen -> (forall t, total_len = Some t -> lp_IPV6_HDR <= t) ->
  lp_sixlowpan_to_ipv6 ctx lls lld b total_len buflen <> Panic /\
  forall d, lp_sixlowpan_to_ipv6 ctx lls lld b total_len buflen = Ok d -> blen d <= buflen).
