(* Pins: full statements of the C03v07 theorems; a weakened theorem no longer type-checks here.
   Generated once by tools/mkpins.py from Props/C03v07.v and then committed: edit both or neither. *)
From SV Require Import Lib.Base Gen.WireFields Model.WireBase Proofs.WireBaseProofs.
From SV Require Import Model.WireEth Proofs.WireEthProofs.
From SV Require Import Model.WireArp Proofs.WireArpProofs.
From SV Require Import Model.WireUdp Proofs.WireUdpProofs.
From SV Require Import Model.WireIpv4 Proofs.WireIpv4Proofs.
From SV Require Import Model.WireIpv6 Proofs.WireIpv6Proofs.
From SV Require Import Model.WireIcmpv4 Proofs.WireIcmpv4Proofs.
From SV Require Import Model.WireIcmpv6 Proofs.WireIcmpv6Proofs.
From SV Require Import Model.WireTcp Proofs.WireTcpProofs.
From SV Require Import Props.C07.
From SV Require Import Props.C03v07.

Check (C03_via_C07_eth_accessors_safe : forall bs,
  eth_check_len bs = Ok tt ->
  eth_dst_addr bs <> Panic /\ eth_src_addr bs <> Panic /\ eth_ethertype bs <> Panic /\
  eth_payload bs <> Panic).

Check (C03_via_C07_eth_parse_total : forall bs, eth_parse bs <> Panic).

Check (C03_via_C07_arp_accessors_safe : forall bs,
  bytes_ok bs = true -> arp_check_len bs = Ok tt ->
  arp_hardware_type bs <> Panic /\ arp_protocol_type bs <> Panic /\
  arp_hardware_len bs <> Panic /\ arp_protocol_len bs <> Panic /\ arp_operation bs <> Panic /\
  arp_source_hardware_addr bs <> Panic /\ arp_source_protocol_addr bs <> Panic /\
  arp_target_hardware_addr bs <> Panic /\ arp_target_protocol_addr bs <> Panic).

Check (C03_via_C07_arp_parse_total : forall bs, bytes_ok bs = true -> arp_parse bs <> Panic).

Check (C03_via_C07_udp_accessors_safe : forall sum_ok (sum_fill : list Z -> Z) is_v4 bs,
  bytes_ok bs = true -> udp_check_len bs = Ok tt ->
  udp_src_port bs <> Panic /\ udp_dst_port bs <> Panic /\ udp_len bs <> Panic /\
  udp_checksum bs <> Panic /\ udp_payload bs <> Panic /\ udp_verify_checksum sum_ok is_v4 bs <> Panic).

Check (C03_via_C07_udp_parse_total : forall sum_ok (sum_fill : list Z -> Z) is_v4 rx bs,
  bytes_ok bs = true -> udp_parse sum_ok is_v4 rx bs <> Panic).

Check (C03_via_C07_ipv4_accessors_safe : forall sum_ok (sum_fill : list Z -> Z) bs,
  bytes_ok bs = true -> ipv4_check_len bs = Ok tt ->
  ipv4_version bs <> Panic /\ ipv4_header_len bs <> Panic /\ ipv4_dscp bs <> Panic /\
  ipv4_ecn bs <> Panic /\ ipv4_total_len bs <> Panic /\ ipv4_ident bs <> Panic /\
  ipv4_dont_frag bs <> Panic /\ ipv4_more_frags bs <> Panic /\ ipv4_frag_offset bs <> Panic /\
  ipv4_hop_limit_ bs <> Panic /\ ipv4_next_header bs <> Panic /\ ipv4_checksum bs <> Panic /\
  ipv4_src_addr bs <> Panic /\ ipv4_dst_addr bs <> Panic /\ ipv4_payload bs <> Panic /\
  ipv4_verify_checksum sum_ok bs <> Panic).

Check (C03_via_C07_ipv4_parse_total : forall sum_ok (sum_fill : list Z -> Z) rx bs,
  bytes_ok bs = true -> ipv4_parse sum_ok rx bs <> Panic).

Check (C03_via_C07_ipv6_accessors_safe : forall bs,
  bytes_ok bs = true -> ipv6_check_len bs = Ok tt ->
  ipv6_version bs <> Panic /\ ipv6_traffic_class bs <> Panic /\ ipv6_flow_label bs <> Panic /\
  ipv6_payload_len_ bs <> Panic /\ ipv6_total_len bs <> Panic /\ ipv6_next_header bs <> Panic /\
  ipv6_hop_limit_ bs <> Panic /\ ipv6_src_addr bs <> Panic /\ ipv6_dst_addr bs <> Panic /\
  ipv6_payload bs <> Panic).

Check (C03_via_C07_ipv6_parse_total : forall bs, bytes_ok bs = true -> ipv6_parse bs <> Panic).

Check (C03_via_C07_icmpv4_accessors_safe : forall (sum_ok : list Z -> bool) (sum_fill : list Z -> Z) bs,
  icmpv4_check_len bs = Ok tt ->
  icmpv4_msg_type bs <> Panic /\ icmpv4_msg_code bs <> Panic /\ icmpv4_checksum bs <> Panic /\
  icmpv4_echo_ident bs <> Panic /\ icmpv4_echo_seq_no bs <> Panic /\ icmpv4_header_len bs <> Panic /\
  icmpv4_data bs <> Panic).

Check (C03_via_C07_icmpv4_parse_total : forall sum_ok (sum_fill : list Z -> Z) rx bs,
  bytes_ok bs = true -> icmpv4_parse sum_ok rx bs <> Panic).

Check (C03_via_C07_icmpv6_accessors_safe : forall (sum_ok : list Z -> bool) (sum_fill : list Z -> Z) bs,
  icmpv6_check_len bs = Ok tt ->
  icmpv6_msg_type bs <> Panic /\ icmpv6_msg_code bs <> Panic /\ icmpv6_checksum bs <> Panic /\
  icmpv6_echo_ident bs <> Panic /\ icmpv6_echo_seq_no bs <> Panic /\
  icmpv6_pkt_too_big_mtu bs <> Panic /\ icmpv6_param_problem_ptr bs <> Panic /\
  icmpv6_header_len bs <> Panic /\ icmpv6_payload bs <> Panic).

Check (C03_via_C07_icmpv6_parse_total : forall sum_ok (sum_fill : list Z -> Z) rx bs,
  bytes_ok bs = true -> icmpv6_parse sum_ok rx bs <> Panic).

Check (C03_via_C07_tcp_option_parse_total : forall buf,
  bytes_ok buf = true ->
  tcp_option_parse buf <> Panic /\
  forall rest o, tcp_option_parse buf = Ok (rest, o) ->
    (length rest < length buf)%nat /\ bytes_ok rest = true).

Check (C03_via_C07_tcp_walk_terminates : forall (A : Type) (step : A -> tcp_option -> A * bool) fuel opts acc,
  bytes_ok opts = true -> (length opts <= fuel)%nat -> tcp_walk step fuel opts acc <> Panic).

Check (C03_via_C07_tcp_accessors_safe : forall (sum_ok : list Z -> bool) (sum_fill : list Z -> Z) bs,
  bytes_ok bs = true -> tcp_check_len bs = Ok tt ->
  tcp_src_port bs <> Panic /\ tcp_dst_port bs <> Panic /\ tcp_seq_number bs <> Panic /\
  tcp_ack_number bs <> Panic /\ tcp_fin bs <> Panic /\ tcp_syn bs <> Panic /\ tcp_rst bs <> Panic /\
  tcp_psh bs <> Panic /\ tcp_ack_ bs <> Panic /\ tcp_urg bs <> Panic /\ tcp_ece bs <> Panic /\
  tcp_cwr bs <> Panic /\ tcp_ns bs <> Panic /\ tcp_header_len_ bs <> Panic /\
  tcp_window_len bs <> Panic /\ tcp_checksum bs <> Panic /\ tcp_urgent_at bs <> Panic /\
  tcp_options bs <> Panic /\ tcp_payload_ bs <> Panic /\ tcp_segment_len bs <> Panic /\
  tcp_options_summary bs <> Panic /\ tcp_selective_ack_permitted bs <> Panic /\
  tcp_selective_ack_ranges bs <> Panic).

Check (C03_via_C07_tcp_parse_total : forall sum_ok (sum_fill : list Z -> Z) rx bs,
  bytes_ok bs = true -> tcp_parse sum_ok rx bs <> Panic).
