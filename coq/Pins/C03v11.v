(* Pins: full statements of the C03v11 theorems; a weakened theorem no longer type-checks here.
   Generated once by tools/mkpins.py from Props/C03v11.v and then committed: edit both or neither. *)
From SV Require Import Lib.Base Gen.Consts Model.Addr Model.Ingress Proofs.IngressProofs.
From SV Require Import Props.C11.
From SV Require Import Props.C03v11.

Check (C03_via_C11_ingress_total : forall ifc socks p,
  exists res, ing_process ifc socks p = Ok res).
