(* Pins: full statements of the C13b theorems; a weakened theorem no longer type-checks here.
   Generated once by tools/mkpins.py from Props/C13b.v and then committed: edit both or neither. *)
From SV Require Import Lib.Base Gen.Consts.
From SV Require Import Model.PollAt Proofs.PollAtProofs.
From SV Require Import Model.Seq32 Model.Assembler Model.TcpBuf Model.TcpTypes Model.Tcp.
From SV Require Import Proofs.TcpSendBase Proofs.TcpLiveBase Proofs.TcpLiveProofs Proofs.TcpLiveMore.
From SV Require Import Proofs.TcpLiveProgress.
From SV Require Import Lib.Base Gen.Consts Gen.WireFields Model.WireDns Model.Dns Proofs.WireDnsProofs Proofs.DnsProofs.
From SV Require Import Lib.Base Gen.Consts Model.Dhcp Proofs.DhcpProofs.
From SV Require Import Lib.Base Gen.Consts Model.Neighbor Model.Route Model.Meta Model.Nexthop.
From SV Require Import Proofs.NeighborProofs Proofs.RouteProofs Proofs.NexthopProofs Proofs.MetaProofs.
From SV Require Import Props.C02 Props.C19 Props.C18 Props.C16.
From SV Require Import Props.C13b.

Check (C13_C02_tcp_early_poll_silent : forall cx s emit_ok p s' res tags,
  tcp_poll_at cx s = Ok p ->
  (p = Tcp.PIngress \/ exists t, p = Tcp.PTime t /\ cx_now cx < t) ->
  tcp_dispatch cx s emit_ok = Ok (s', res, tags) ->
  emitted res = false /\ (s' = s \/ s' = tcp_reset s)).

Check (C13_C02_tcp_no_spin : forall cx s emit_ok s' tags p,
  tcp_reachable s ->
  tcp_dispatch cx s emit_ok = Ok (s', DNothing, tags) ->
  tcp_poll_at cx s' = Ok p ->
  p = Tcp.PIngress \/ exists t, p = Tcp.PTime t /\ cx_now cx < t).

Check (C13_C02_tcp_comp_sound : forall cx s emit_ok p s' res tags,
  0 <= cx_now cx ->
  tcp_poll_at cx s = Ok p ->
  tcp_dispatch cx s emit_ok = Ok (s', res, tags) ->
  comp_sound (cx_now cx) (pollat_instant (tcp_to_pollat p), emitted res)).

Check (C13_C02_tcp_future_after_idle_dispatch : forall cx s emit_ok s' tags p,
  tcp_reachable s ->
  tcp_dispatch cx s emit_ok = Ok (s', DNothing, tags) ->
  tcp_poll_at cx s' = Ok p ->
  opt_future (cx_now cx) (pollat_instant (tcp_to_pollat p))).

Check (C13_C19_poll_at_covers_deadline : forall s h pq,
  nth_error (ds_queries s) h = Some (Some (QPending pq)) ->
  exists d, dns_poll_at s = Some d /\ d <= dns_pq_deadline pq).

Check (C13_C19_poll_no_spin : forall cfg s now s' txs hang d,
  cfg_ok cfg -> sock_ok cfg s -> dns_poll cfg s now = Ok (s', txs, hang) ->
  dns_poll_at s' = Some d -> now < d).

Check (C13_C18_lease_bound : forall hw calls, Forall call_typed calls ->
  forall cfg ra rb rbg e, ds_state (fst (dhcp_run hw calls)) = Renewing cfg ra rb rbg e ->
  exists calls1 calls2 t src sp dp r l,
    calls = calls1 ++ CProcess t src sp dp (Some r) :: calls2 /\
    ack_received_by hw calls1 (CProcess t src sp dp (Some r)) = Some (t, r, l) /\
    (forall x d' y, calls2 = x ++ d' :: y ->
        ack_received_by hw (calls1 ++ CProcess t src sp dp (Some r) :: x) d' = None) /\
    cfg_from_ack cfg r /\
    l = dhcp_lease_duration r (m_max_lease (snd (dhcp_run hw calls1))) /\
    e = t + l /\ dhcp_poll_at (fst (dhcp_run hw calls)) <= e).

Check (C13_C18_expiry_deconfigures : forall s cfg ra rb rbg e mtu now xid emit s' res,
  ds_state s = Renewing cfg ra rb rbg e -> e <= now ->
  dhcp_dispatch mtu now xid emit s = Ok (s', res) ->
  (exists ra', ds_state s' = Discovering ra') /\
  snd (dhcp_poll s') = Some EvDeconfigured /\
  (0 <= now -> (forall f, emit f = true) -> exists f, res = DrSent f /\ tx_message_type f = MtDiscover)).

Check (C13_C18_solicit_when_due : forall s mtu now xid emit s' res,
  dhcp_unconfigured s -> retry_cfg_typed (ds_retry_config s) ->
  (match ds_state s with Requesting _ retry _ _ => 0 <= retry | _ => True end) ->
  dhcp_poll_at s <= now -> 0 <= now -> (forall f, emit f = true) ->
  dhcp_dispatch mtu now xid emit s = Ok (s', res) ->
  exists f, res = DrSent f /\ tx_client_ip f = 0 /\ tx_dst_addr f = ip_BROADCAST /\
    (tx_message_type f = MtDiscover \/ tx_message_type f = MtRequest) /\
    dhcp_unconfigured s' /\ dhcp_poll_at s' <= now + solicit_bound (ds_retry_config s)).

Check (C13_C16_meta_backoff : forall t n now hn,
  fst (meta_egress_permitted (meta_neighbor_missing t n) now hn) = true ->
  hn n = true \/ t + 1000000 <= now).

Check (C13_C16_socket_silenced : forall i s now n su,
  sk_meta s = Waiting n su -> nh_has_neighbor i now n = false -> now < su ->
  sim_sock_egress i s now = Ok (i, s, [], false)).

Check (C13_C16_socket_failed_dispatch_waits : forall i s now i' s' fr dst tag rest,
  sim_sock_egress i s now = Ok (i', s', fr, false) ->
  sk_q s = (dst, tag) :: rest -> sk_q s' = sk_q s ->
  fst (meta_egress_permitted (sk_meta s) now (nh_has_neighbor i now)) = true ->
  sk_meta s' = meta_neighbor_missing now dst).
