(* Pins: full statements of the C03v07b_v6opts theorems; a weakened theorem no longer type-checks here.
   Generated once by tools/mkpins.py from Props/C03v07b_v6opts.v and then committed: edit both or neither. *)
From SV Require Import Lib.Base Gen.Consts Gen.WireFields Model.WireBase Proofs.WireBaseProofs.
From SV Require Import Model.WireIpv6Opt Proofs.WireIpv6OptProofs.
From SV Require Import Model.WireIpv6Hbh Proofs.WireIpv6HbhProofs.
From SV Require Import Model.WireIpv6Routing Proofs.WireIpv6RoutingProofs.
From SV Require Import Props.C07b_v6opts.
From SV Require Import Props.C03v07b_v6opts.

Check (C03_via_C07_v6opt_accessors_safe : forall bs,
  bytes_ok bs = true -> v6opt_check_len bs = Ok tt ->
  v6opt_option_type bs <> Panic /\
  (forall t, v6opt_option_type bs = Ok t -> v6opt_failure_type t <> Panic) /\
  (v6opt_option_type bs <> Ok v6opt_T_PAD1 -> v6opt_data_len bs <> Panic /\ v6opt_data bs <> Panic)).

Check (C03_via_C07_v6opt_check_len_total : forall bs, v6opt_check_len bs <> Panic).

Check (C03_via_C07_v6opt_parse_total : forall bs, bytes_ok bs = true -> v6opt_parse bs <> Panic).

Check (C03_via_C07_v6opt_failure_type_total : forall v, 0 <= v < 256 -> v6opt_failure_type v <> Panic).

Check (C03_via_C07_v6opt_iter_no_panic : forall data, bytes_ok data = true -> ~ In Panic (v6opt_iter data)).

Check (C03_via_C07_v6hbh_accessors_safe : forall bs, v6hbh_check_len bs = Ok tt -> v6hbh_options bs <> Panic).

Check (C03_via_C07_v6hbh_parse_total : forall bs, bytes_ok bs = true -> v6hbh_parse bs <> Panic).

Check (C03_via_C07_v6rt_accessors_safe : forall bs,
  v6rt_check_len bs = Ok tt ->
  v6rt_routing_type bs <> Panic /\ v6rt_segments_left bs <> Panic /\
  (v6rt_routing_type bs = Ok v6rt_T_TYPE2 -> v6rt_home_address bs <> Panic) /\
  (v6rt_routing_type bs = Ok v6rt_T_RPL ->
     v6rt_cmpr_i bs <> Panic /\ v6rt_cmpr_e bs <> Panic /\ v6rt_pad bs <> Panic /\ v6rt_addresses bs <> Panic)).

Check (C03_via_C07_v6rt_parse_total : forall bs, v6rt_parse bs <> Panic).
