(* Pins: full statements of the C07v20 theorems; a weakened theorem no longer type-checks here.
   Generated once by tools/mkpins.py from Props/C07v20.v and then committed: edit both or neither. *)
From SV Require Import Lib.Base Gen.Consts Gen.WireFields Model.WireBase Model.WireSixFrag Model.WireNhc.
From SV Require Import Model.Assembler Model.LowpanFrag Model.WireIphc Model.Lowpan.
From SV Require Import Proofs.WireBaseProofs Proofs.AssemblerProofs Proofs.LowpanWireProofs Proofs.LowpanFragProofs.
From SV Require Import Proofs.LowpanIphcBitsProofs Proofs.LowpanIphcProofs Proofs.LowpanProofs.
From SV Require Import Props.C20.
From SV Require Import Props.C07v20.

Check (C07_via_C20_frag_hdr_parse_no_panic : forall b,
  sixlowpan_dispatch b <> Panic /\ sixfrag_new_checked b <> Panic /\ sixfrag_parse b <> Panic).

Check (C07_via_C20_frag_hdr_accessors_safe : forall b, sixfrag_new_checked b = Ok tt ->
  sixfrag_datagram_size b <> Panic /\ sixfrag_datagram_tag b <> Panic /\
  sixfrag_datagram_offset b <> Panic /\ sixfrag_is_first b <> Panic /\ sixfrag_payload b <> Panic).

Check (C07_via_C20_nhc_udp_parse_no_panic : forall b src dst rx, blen b < 65528 ->
  nhc_dispatch b <> Panic /\ nhc_udp_check_len b <> Panic /\ nhc_udp_parse b src dst rx <> Panic /\
  (nhc_udp_check_len b = Ok tt ->
     nhc_udp_src_port b <> Panic /\ nhc_udp_dst_port b <> Panic /\ nhc_udp_checksum b <> Panic /\
     nhc_udp_payload b <> Panic /\ nhc_udp_dispatch_field b <> Panic)).

Check (C07_via_C20_iphc_parse_no_panic : forall b lls lld ctx,
  iphc_ll_wf lls = true -> iphc_ll_wf lld = true ->
  iphc_parse b lls lld ctx <> Panic /\ iphc_check_len b <> Panic /\
  (iphc_check_len b = Ok tt -> iphc_payload b <> Panic /\ iphc_header_len b <> Panic)).
