(* Pins: full statements of the C10v06b_v6opts theorems; a weakened theorem no longer type-checks here.
   Generated once by tools/mkpins.py from Props/C10v06b_v6opts.v and then committed: edit both or neither. *)
From SV Require Import Lib.Base Gen.Consts Gen.WireFields Model.WireBase Proofs.WireBaseProofs.
From SV Require Import Model.WireIpv6Opt Proofs.WireIpv6OptProofs.
From SV Require Import Model.WireIpv6Hbh Proofs.WireIpv6HbhProofs.
From SV Require Import Model.WireIpv6Routing Proofs.WireIpv6RoutingProofs.
From SV Require Import Props.C06b_v6opts.
From SV Require Import Props.C10v06b_v6opts.

Check (C10_via_C06_v6opt_emit_no_panic : forall r b,
  v6opt_wf r = true -> blen b = v6opt_buffer_len r -> v6opt_emit r b <> Panic).

Check (C10_via_C06_v6opt_roundtrip : forall r b,
  v6opt_wf r = true -> blen b = v6opt_buffer_len r ->
  exists bs, v6opt_emit r b = Ok bs /\ blen bs = v6opt_buffer_len r /\ v6opt_parse bs = Ok r /\
             forall rest, v6opt_parse (bs ++ rest) = Ok r).

Check (C10_via_C06_v6hbh_emit_no_panic : forall r b,
  v6hbh_wf r = true -> blen b = v6hbh_buffer_len r -> v6hbh_emit r b <> Panic).

Check (C10_via_C06_v6hbh_roundtrip : forall r b,
  v6hbh_wf r = true -> blen b = v6hbh_buffer_len r ->
  exists bs, v6hbh_emit r b = Ok bs /\ blen bs = v6hbh_buffer_len r /\ v6hbh_parse bs = Ok r).

Check (C10_via_C06_v6rt_emit_no_panic : forall r b,
  v6rt_wf r = true -> blen b = v6rt_buffer_len r -> v6rt_emit r b <> Panic).

Check (C10_via_C06_v6rt_roundtrip : forall r b,
  v6rt_wf r = true -> blen b = v6rt_buffer_len r ->
  exists bs, v6rt_emit r b = Ok bs /\ blen bs = v6rt_buffer_len r /\ v6rt_parse bs = Ok r).
