(* Pins: full statements of the C20live theorems; a weakened theorem no longer type-checks here.
   Generated once by tools/mkpins.py from Props/C20live.v and then committed: edit both or neither. *)
From SV Require Import Lib.Base Gen.Consts Gen.WireFields Model.WireBase Model.WireSixFrag Model.WireNhc.
From SV Require Import Model.WireIphc Model.Assembler Model.LowpanFrag Model.Lowpan Model.LowpanLive.
From SV Require Import Proofs.WireBaseProofs Proofs.AssemblerProofs Proofs.LowpanWireProofs Proofs.LowpanFragProofs.
From SV Require Import Proofs.LowpanIphcBitsProofs Proofs.LowpanIphcProofs Proofs.LowpanProofs Proofs.LowpanLiveProofs.
From SV Require Import Props.C20live.

Check (C20live_poll_is_event_step : forall ctx timeout a ss, lp_ctx_wf ctx -> arrival_wf a ->
  lpl_poll ctx timeout a ss = ev_step timeout (lpl_ev_of ctx a) ss /\
  ev_tame (lpl_ev_of ctx a) /\ ev_time (lpl_ev_of ctx a) = ar_time a).

Check (C20live_poll_on_fragment_is_event_step : forall ctx timeout a ss,
  sixlowpan_dispatch (ar_payload a) = Ok 0 ->
  lpl_poll ctx timeout a ss = ev_step timeout (lpl_ev_of ctx a) ss).

Check (C20live_run_is_event_run : forall ctx timeout, lp_ctx_wf ctx -> forall arr ss,
  Forall arrival_frag_or_wf arr ->
  lpl_run ctx timeout arr ss = ev_run timeout (map (lpl_ev_of ctx) arr) ss).

Check (C20live_fragment_octets_parse_back : forall ctx t lls lld h pl, sixfrag_wf h = true ->
  lpl_ev_of ctx (mkArrival t lls lld (sixfrag_bytes h ++ pl)) =
  EvFrag t (lpl_ll_bytes lls) (lpl_ll_bytes lld)
    (mkRxFrag h pl (fun buflen => lp_sixlowpan_to_ipv6 ctx lls lld pl (Some (lpf_hdr_size h)) buflen))).

Check (C20live_frame_octets : forall f h txbuf, fr_hdr f = Some h -> sixfrag_wf h = true ->
  bytes_ok txbuf = true -> blen txbuf = lpl_txbuf_len f ->
  lpl_frame_octets f txbuf = Ok (sixfrag_bytes h ++ fr_payload f)).

Check (C20live_fresh_state : forall D k, kstate D k lpf_slots_new None).

Check (C20live_mixed_exact_or_nothing : forall D tag src dst timeout evs ss st,
  lpf_IPV6_HDR <= blen D -> let k := (src, dst, blen D, tag) in
  kstate D k ss st -> Forall (ev_ok D k tag) evs ->
  exists ss' rs st', ev_run timeout evs ss = Ok (ss', rs) /\ kstate D k ss' st' /\
    Forall2 (fun e r => ev_is k e -> r = None \/ r = Some D) evs rs /\
    (st = None -> delivered_only_when_complete D k [] evs rs)).

Check (C20live_two_datagrams_not_mixed : forall D1 tag1 src1 dst1 D2 tag2 src2 dst2 timeout evs ss st1 st2,
  lpf_IPV6_HDR <= blen D1 -> lpf_IPV6_HDR <= blen D2 ->
  let k1 := (src1, dst1, blen D1, tag1) in let k2 := (src2, dst2, blen D2, tag2) in
  kstate D1 k1 ss st1 -> kstate D2 k2 ss st2 ->
  Forall (ev_ok D1 k1 tag1) evs -> Forall (ev_ok D2 k2 tag2) evs ->
  exists ss' rs, ev_run timeout evs ss = Ok (ss', rs) /\
    Forall2 (fun e r => (ev_is k1 e -> r = None \/ r = Some D1) /\ (ev_is k2 e -> r = None \/ r = Some D2)) evs rs).

Check (C20live_incomplete_delivers_nothing : forall D tag src dst timeout evs ss,
  lpf_IPV6_HDR <= blen D -> let k := (src, dst, blen D, tag) in
  kstate D k ss None -> Forall (ev_ok D k tag) evs -> ~ k_complete D k evs ->
  exists ss' rs st', ev_run timeout evs ss = Ok (ss', rs) /\ kstate D k ss' st' /\
    Forall2 (fun e r => ev_is k e -> r = None) evs rs).

Check (C20live_timeout_delivers_nothing : forall D tag src dst timeout e rest ss u tot texp,
  lpf_IPV6_HDR <= blen D -> let k := (src, dst, blen D, tag) in
  kstate D k ss (Some (u, tot, texp)) -> Forall (ev_ok D k tag) (e :: rest) ->
  texp < ev_time e -> ~ k_complete D k (e :: rest) ->
  exists ss' rs st', ev_run timeout (e :: rest) ss = Ok (ss', rs) /\ kstate D k ss' st' /\
    Forall2 (fun e r => ev_is k e -> r = None) (e :: rest) rs).

Check (C20live_reassembly_delivers_at_completion : forall D tag src dst timeout pre a post ss,
  lpf_IPV6_HDR <= blen D -> 0 <= timeout -> let k := (src, dst, blen D, tag) in
  kstate D k ss None -> Forall (ev_ok D k tag) (pre ++ a :: post) ->
  let e0 := hd a pre in
  ev_is k e0 -> (exists j, (j < length ss)%nat /\ slot_avail (ev_time e0) (nth j ss lpf_slot_new)) ->
  Forall (fun e => ev_time e <= ev_time e0 + timeout) (pre ++ [a]) ->
  gaps_fit lpf_N D k asm_new (pre ++ [a]) ->
  ev_is k a -> k_complete D k (pre ++ [a]) -> ~ k_complete D k pre ->
  exists ss' rs_pre rs_post st',
    ev_run timeout (pre ++ a :: post) ss = Ok (ss', rs_pre ++ Some D :: rs_post) /\
    kstate D k ss' st' /\ length rs_pre = length pre /\
    Forall2 (fun e r => ev_is k e -> r = None) pre rs_pre /\
    Forall2 (fun e r => ev_is k e -> r = None \/ r = Some D) post rs_post /\
    delivered_only_when_complete D k [] post rs_post).

Check (C20live_in_order_fits : forall n D k, 1 <= n -> forall evs e, 0 <= e -> prefix_order D k e evs ->
  gaps_fit n D k (prefix_asm e) evs).

Check (C20live_few_fragments_fit : forall n D k tag evs u, asm_wf u -> Forall (ev_ok D k tag) evs ->
  Z.of_nat (length u + kcount D k evs) <= n -> gaps_fit n D k u evs).

Check (C20live_overflow_not_recorded : forall D tag f u tot texp, piece_ok D tag f ->
  kabs_inv D (Some (u, tot, texp)) ->
  lpf_N < Z.of_nat (length (asm_add_unb u (fst (frag_span D f)) (snd (frag_span D f)))) ->
  fst (asm_add lpf_N u (fst (frag_span D f)) (snd (frag_span D f))) = u).

Check (C20live_tiles_are_pieces : forall d lls lld ctx c D chdr uhdr tag,
  lp_dgram_wf d lls lld -> lp_compressed d lls lld = Ok c -> lp_ipv6_bytes d = Ok D ->
  lp_compressed_packet_size d lls lld = Ok (blen c, chdr, uhdr) ->
  (forall k1, chdr <= k1 <= blen c ->
     piece_ok D tag (mkRxFrag (SfFirst (blen D) tag) (firstn (Z.to_nat k1) c)
                              (fun n => lp_sixlowpan_to_ipv6 ctx lls lld (firstn (Z.to_nat k1) c) (Some (blen D)) n))) /\
  (forall p n dec, chdr <= p -> 0 <= n -> p + n <= blen c -> (p + (uhdr - chdr)) mod 8 = 0 ->
     piece_ok D tag (mkRxFrag (SfNext (blen D) tag ((p + (uhdr - chdr)) / 8))
                              (firstn (Z.to_nat n) (skipn (Z.to_nat p) c)) dec))).

Check (C20live_end_to_end_exact_or_nothing : forall d lls lld ctx c D tag,
  lp_dgram_wf d lls lld -> lp_compressed d lls lld = Ok c -> lp_ipv6_bytes d = Ok D ->
  lp_ctx_wf ctx -> 0 <= tag < 65536 ->
  lpf_needs_frag (blen c) (lpf_ieee_len (lpl_ll_bytes lld) (lpl_ll_bytes lls)) = true -> blen c <= lpf_BUFFER ->
  forall fill txfill timeout, 0 <= fill < 256 -> 0 <= txfill < 256 ->
  forall octs, lpl_tx_octets d lls lld tag fill txfill = Ok octs ->
  forall arr ss st, let k := (lpl_ll_bytes lls, lpl_ll_bytes lld, blen D, tag) in
  kstate D k ss st -> Forall (e2e_arrival_ok lls lld ctx D tag octs) arr ->
  exists ss' rs st', lpl_run ctx timeout arr ss = Ok (ss', rs) /\ kstate D k ss' st' /\
    Forall2 (fun a r => ev_is k (lpl_ev_of ctx a) -> r = None \/ r = Some D) arr rs).

Check (C20live_end_to_end_delivers : forall d lls lld ctx c D tag,
  lp_dgram_wf d lls lld -> lp_compressed d lls lld = Ok c -> lp_ipv6_bytes d = Ok D ->
  lp_ctx_wf ctx -> 0 <= tag < 65536 ->
  lpf_needs_frag (blen c) (lpf_ieee_len (lpl_ll_bytes lld) (lpl_ll_bytes lls)) = true -> blen c <= lpf_BUFFER ->
  forall fill txfill timeout, 0 <= fill < 256 -> 0 <= txfill < 256 ->
  forall octs, lpl_tx_octets d lls lld tag fill txfill = Ok octs ->
  forall pre a post ss, let k := (lpl_ll_bytes lls, lpl_ll_bytes lld, blen D, tag) in
  0 <= timeout -> kstate D k ss None -> Forall (e2e_arrival_ok lls lld ctx D tag octs) (pre ++ a :: post) ->
  let ev := lpl_ev_of ctx in
  let a0 := hd a pre in
  ev_is k (ev a0) -> (exists j, (j < length ss)%nat /\ slot_avail (ar_time a0) (nth j ss lpf_slot_new)) ->
  Forall (fun x => ar_time x <= ar_time a0 + timeout) (pre ++ [a]) ->
  gaps_fit lpf_N D k asm_new (map ev (pre ++ [a])) ->
  ev_is k (ev a) -> k_complete D k (map ev (pre ++ [a])) -> ~ k_complete D k (map ev pre) ->
  exists ss' rs_pre rs_post st',
    lpl_run ctx timeout (pre ++ a :: post) ss = Ok (ss', rs_pre ++ Some D :: rs_post) /\
    kstate D k ss' st' /\ length rs_pre = length pre /\
    Forall2 (fun x r => ev_is k (ev x) -> r = None) pre rs_pre /\
    Forall2 (fun x r => ev_is k (ev x) -> r = None \/ r = Some D) post rs_post).

Check (C20live_end_to_end_delivers_all_frames : forall d lls lld ctx c D tag,
  lp_dgram_wf d lls lld -> lp_compressed d lls lld = Ok c -> lp_ipv6_bytes d = Ok D ->
  lp_ctx_wf ctx -> 0 <= tag < 65536 ->
  lpf_needs_frag (blen c) (lpf_ieee_len (lpl_ll_bytes lld) (lpl_ll_bytes lls)) = true -> blen c <= lpf_BUFFER ->
  forall fill txfill timeout, 0 <= fill < 256 -> 0 <= txfill < 256 ->
  forall octs, lpl_tx_octets d lls lld tag fill txfill = Ok octs ->
  forall pre a post ss, let k := (lpl_ll_bytes lls, lpl_ll_bytes lld, blen D, tag) in
  0 <= timeout -> kstate D k ss None -> Forall (e2e_arrival_ok lls lld ctx D tag octs) (pre ++ a :: post) ->
  let a0 := hd a pre in
  e2e_sender lls lld octs a0 ->
  (exists j, (j < length ss)%nat /\ slot_avail (ar_time a0) (nth j ss lpf_slot_new)) ->
  Forall (fun x => ar_time x <= ar_time a0 + timeout) (pre ++ [a]) ->
  gaps_fit lpf_N D k asm_new (map (lpl_ev_of ctx) (pre ++ [a])) ->
  e2e_sender lls lld octs a ->
  (forall o, In o octs -> exists x, In x (pre ++ [a]) /\ e2e_sender lls lld octs x /\ ar_payload x = o) ->
  (forall x, In x pre -> e2e_sender lls lld octs x -> ar_payload x <> ar_payload a) ->
  exists ss' rs_pre rs_post st',
    lpl_run ctx timeout (pre ++ a :: post) ss = Ok (ss', rs_pre ++ Some D :: rs_post) /\
    kstate D k ss' st' /\ length rs_pre = length pre /\
    Forall2 (fun x r => ev_is k (lpl_ev_of ctx x) -> r = None) pre rs_pre /\
    Forall2 (fun x r => ev_is k (lpl_ev_of ctx x) -> r = None \/ r = Some D) post rs_post).

Check (C20live_end_to_end_in_order : forall d lls lld ctx c D tag,
  lp_dgram_wf d lls lld -> lp_compressed d lls lld = Ok c -> lp_ipv6_bytes d = Ok D ->
  lp_ctx_wf ctx -> 0 <= tag < 65536 ->
  lpf_needs_frag (blen c) (lpf_ieee_len (lpl_ll_bytes lld) (lpl_ll_bytes lls)) = true -> blen c <= lpf_BUFFER ->
  forall fill txfill timeout, 0 <= fill < 256 -> 0 <= txfill < 256 ->
  forall octs, lpl_tx_octets d lls lld tag fill txfill = Ok octs ->
  forall arr ss, let k := (lpl_ll_bytes lls, lpl_ll_bytes lld, blen D, tag) in
  0 <= timeout -> kstate D k ss None ->
  map ar_payload arr = octs -> Forall (fun a => ar_lls a = lls /\ ar_lld a = lld) arr ->
  let t0 := match arr with [] => 0 | a :: _ => ar_time a end in
  (exists j, (j < length ss)%nat /\ slot_avail t0 (nth j ss lpf_slot_new)) ->
  Forall (fun a => ar_time a <= t0 + timeout) arr ->
  exists ss' st', lpl_run ctx timeout arr ss = Ok (ss', repeat None (length arr - 1) ++ [Some D]) /\
                  kstate D k ss' st').

Check (C20live_end_to_end_in_order_fresh : forall d lls lld ctx c D tag fill txfill timeout octs arr,
  lp_dgram_wf d lls lld -> lp_compressed d lls lld = Ok c -> lp_ipv6_bytes d = Ok D -> lp_ctx_wf ctx ->
  0 <= tag < 65536 -> 0 <= fill < 256 -> 0 <= txfill < 256 -> 0 <= timeout ->
  lpf_needs_frag (blen c) (lpf_ieee_len (lpl_ll_bytes lld) (lpl_ll_bytes lls)) = true -> blen c <= lpf_BUFFER ->
  lpl_tx_octets d lls lld tag fill txfill = Ok octs ->
  map ar_payload arr = octs -> Forall (fun a => ar_lls a = lls /\ ar_lld a = lld) arr ->
  Forall (fun a => ar_time a <= match arr with a0 :: _ => ar_time a0 | [] => 0 end + timeout) arr ->
  exists ss', lpl_run ctx timeout arr lpf_slots_new = Ok (ss', repeat None (length arr - 1) ++ [Some D])).

Check (C20live_end_to_end_unfragmented : forall d lls lld ctx c D tag fill txfill timeout t ss,
  lp_dgram_wf d lls lld -> lp_compressed d lls lld = Ok c -> lp_ipv6_bytes d = Ok D ->
  0 <= fill < 256 ->
  lpf_needs_frag (blen c) (lpf_ieee_len (lpl_ll_bytes lld) (lpl_ll_bytes lls)) = false ->
  lpl_tx_octets d lls lld tag fill txfill = Ok [c] /\
  lpl_poll ctx timeout (mkArrival t lls lld c) ss = Ok (lpf_remove_expired t ss, Some D)).

Check (C20live_example_run :
  omap snd (ev_run 60000 (lpl_ex_pre ++ [lpl_ex_a]) lpf_slots_new) = Ok [None; None; None; None; None; Some lpl_ex_D]).

Check (C20live_example_hypotheses :
  lpf_IPV6_HDR <= blen lpl_ex_D /\
  kstate lpl_ex_D lpl_ex_k lpf_slots_new None /\
  Forall (ev_ok lpl_ex_D lpl_ex_k 7) (lpl_ex_pre ++ [lpl_ex_a]) /\
  ev_is lpl_ex_k (hd lpl_ex_a lpl_ex_pre) /\
  (exists j, (j < length lpf_slots_new)%nat /\ slot_avail (ev_time (hd lpl_ex_a lpl_ex_pre)) (nth j lpf_slots_new lpf_slot_new)) /\
  Forall (fun e => ev_time e <= ev_time (hd lpl_ex_a lpl_ex_pre) + 60000) (lpl_ex_pre ++ [lpl_ex_a]) /\
  gaps_fit lpf_N lpl_ex_D lpl_ex_k asm_new (lpl_ex_pre ++ [lpl_ex_a]) /\
  ev_is lpl_ex_k lpl_ex_a /\ k_complete lpl_ex_D lpl_ex_k (lpl_ex_pre ++ [lpl_ex_a]) /\
  ~ k_complete lpl_ex_D lpl_ex_k lpl_ex_pre).
