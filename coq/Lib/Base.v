(* Common imports and tactic settings for the whole development (stdlib only). *)
From Coq Require Export List ZArith Lia Bool.
From Coq Require Export ZifyBool ZifyNat.
Export ListNotations.
Global Open Scope Z_scope.

(* lia handles Z.div / Z.modulo through their Euclidean-division equations. *)
Ltac Zify.zify_post_hook ::= Z.div_mod_to_equations.

Global Arguments Z.add : simpl never.
Global Arguments Z.sub : simpl never.
Global Arguments Z.mul : simpl never.
Global Arguments Z.div : simpl never.
Global Arguments Z.modulo : simpl never.
Global Arguments Z.pow : simpl never.
Global Arguments Z.ltb : simpl never.
Global Arguments Z.leb : simpl never.
Global Arguments Z.eqb : simpl never.
Global Arguments Z.gtb : simpl never.
Global Arguments Z.geb : simpl never.
Global Arguments Z.of_nat : simpl never.
Global Arguments Z.to_nat : simpl never.
Global Arguments Z.min : simpl never.
Global Arguments Z.max : simpl never.

(* Rust outcome of a call: a value, a recoverable error, or a panic. *)
Inductive outcome (A : Type) : Type :=
| Ok (a : A)
| Err (e : Z)
| Panic.
Arguments Ok {A} a.
Arguments Err {A} e.
Arguments Panic {A}.

Definition obind {A B} (x : outcome A) (f : A -> outcome B) : outcome B :=
  match x with Ok a => f a | Err e => Err e | Panic => Panic end.
Notation "'do' x <- m ; k" := (obind m (fun x => k))
  (at level 200, x name, m at level 100, k at level 200, right associativity).
Notation "'do' ' p <- m ; k" := (obind m (fun x => match x with p => k end))
  (at level 200, p pattern, m at level 100, k at level 200, right associativity).

Definition is_panic {A} (x : outcome A) : bool :=
  match x with Panic => true | _ => false end.

(* destruct the scrutinee of the first if/match in the goal, remembering the equation *)
Ltac case_if :=
  match goal with
  | |- context [if ?b then _ else _] => destruct b eqn:?
  end.
Ltac case_if_in H :=
  match type of H with
  | context [if ?b then _ else _] => destruct b eqn:?
  end.
