(* Lemmas about Repr::parse of an emitted TCP segment (property C06: round trip). *)
From SV Require Import Lib.Base Gen.WireFields Gen.Consts Model.WireBase Model.WireTcp.
From SV Require Import Proofs.WireBaseProofs Proofs.WireBaseProofs2 Proofs.WireTcpProofs Proofs.WireTcpEmitProofs.

(* ---------- slices in the middle of a three-part buffer ---------- *)
Lemma wb_sub_mid h m t lo hi : lo = blen h -> hi = blen h + blen m -> wb_sub (h ++ m ++ t) lo hi = Ok m.
Proof.
  intros -> ->. pose proof (blen_nonneg h). pose proof (blen_nonneg m).
  rewrite wb_sub_app_r by lia. replace (blen h - blen h) with 0 by lia.
  replace (blen h + blen m - blen h) with (blen m) by lia.
  rewrite wb_sub_app_l by lia. change m with ([] ++ m) at 1. apply wb_sub_tail; reflexivity.
Qed.

Lemma wb_sub_opt_sub l lo hi :
  wb_sub_opt l lo hi = match wb_sub l lo hi with Ok s => Some s | _ => None end.
Proof. unfold wb_sub_opt, wb_sub. case_if; reflexivity. Qed.

(* ---------- TcpOption::parse of an emitted option ---------- *)
Definition tcp_opt_vals_ok (o : tcp_option) : Prop :=
  match o with
  | OptMss v => 0 <= v < 65536
  | OptWs v => 0 <= v < 256
  | OptTs a c => 0 <= a < 4294967296 /\ 0 <= c < 4294967296
  | OptSackRange r0 r1 r2 => is_u32_pair r0 = true /\ is_u32_pair r1 = true /\ is_u32_pair r2 = true
  | _ => True
  end.

Lemma nth_error_app_cells (a b : Z) l rest : nth_error ((a :: b :: l) ++ rest) 1 = Some b.
Proof. reflexivity. Qed.

Ltac opt_parse_tac :=
  unfold tcp_option_parse; cbn [tcp_option_bytes tcp_sack_bytes app];
  unfold be_enc2, be_enc4; cbn [app nth_error];
  unfold wtcp_OPT_END, wtcp_OPT_NOP, wtcp_OPT_MSS, wtcp_OPT_WS, wtcp_OPT_SACKPERM, wtcp_OPT_SACKRNG, wtcp_OPT_TSTAMP;
  zfold; cbn [andb orb negb].

(* evaluate reads whose operand is an explicit list of cells *)
Ltac cstep :=
  repeat (match goal with
  | |- context [wb_get_be (?a :: ?h) ?lo ?hi ?n] => heval (wb_get_be (a :: h) lo hi n)
  | |- context [wb_get_u8 (?a :: ?h) ?i] => heval (wb_get_u8 (a :: h) i)
  end; cbn [omap obind]).

Lemma tcp_option_parse_bytes o rest : tcp_opt_emittable o -> tcp_opt_vals_ok o ->
  tcp_option_parse (tcp_option_bytes o ++ rest) = Ok (rest, o).
Proof.
  intros He Hv. pose proof (blen_nonneg rest) as Hr.
  destruct o as [| |v|v| |[[l0 r0]|] [[l1 r1]|] [[l2 r2]|]|a c|k d]; cbn [tcp_opt_emittable tcp_opt_vals_ok] in *;
    try tauto; opt_parse_tac; unfold tcp_sack_count; zfold; cbn [andb orb negb];
    rewrite wb_sub_opt_sub; refold_tail rest.
  - (* Mss *) hstep. cbn [obind]. cstep. rewrite be_dec_cells2 by lia. cbn [obind].
    rewrite wb_from_tail by (autorewrite with blen; zfold; lia). reflexivity.
  - (* Ws *) hstep. cbn [obind]. cstep.
    rewrite wb_from_tail by (autorewrite with blen; zfold; lia). reflexivity.
  - (* SackPerm *) hstep. cbn [obind].
    rewrite wb_from_tail by (autorewrite with blen; zfold; lia). reflexivity.
  - (* 3 ranges *) destruct Hv as (V0 & V1 & V2). cbn [is_u32_pair] in *. bsplit.
    hstep. cbn [obind]. unfold tcp_sack_slot. autorewrite with blen. zfold. zbool. cstep.
    rewrite !be_dec_cells4 by lia. cbn [obind].
    rewrite wb_from_tail by (autorewrite with blen; zfold; lia). reflexivity.
  - (* 2 ranges *) destruct Hv as (V0 & V1 & V2). cbn [is_u32_pair] in *. bsplit.
    hstep. cbn [obind]. unfold tcp_sack_slot. autorewrite with blen. zfold. zbool. cstep.
    rewrite !be_dec_cells4 by lia. cbn [obind].
    rewrite wb_from_tail by (autorewrite with blen; zfold; lia). reflexivity.
  - (* 1 range *) destruct Hv as (V0 & V1 & V2). cbn [is_u32_pair] in *. bsplit.
    hstep. cbn [obind]. unfold tcp_sack_slot. autorewrite with blen. zfold. zbool. cstep.
    rewrite !be_dec_cells4 by lia. cbn [obind].
    rewrite wb_from_tail by (autorewrite with blen; zfold; lia). reflexivity.
  - (* Ts *) destruct Hv. hstep. cbn [obind]. cstep.
    rewrite !be_dec_cells4 by lia. cbn [obind].
    rewrite wb_from_tail by (autorewrite with blen; zfold; lia). reflexivity.
Qed.

(* ---------- the option walk over emitted options ---------- *)
Lemma tcp_option_bytes_cons o : tcp_opt_emittable o -> exists x l, tcp_option_bytes o = x :: l.
Proof.
  destruct o as [| |v|v| |[[l0 r0]|] [[l1 r1]|] [[l2 r2]|]|a c|k d]; cbn [tcp_opt_emittable]; try tauto; intros _;
    cbn [tcp_option_bytes]; eexists; eexists; reflexivity.
Qed.

Lemma tcp_walk_step {A} (step : A -> tcp_option -> A * bool) f o R acc :
  tcp_opt_emittable o -> tcp_opt_vals_ok o ->
  tcp_walk step (S f) (tcp_option_bytes o ++ R) acc =
  (let (acc', c) := step acc o in if c then tcp_walk step f R acc' else Ok acc').
Proof.
  intros He Hv. pose proof (tcp_option_parse_bytes o R He Hv) as Hp.
  destruct (tcp_option_bytes_cons o He) as (x & l & E). rewrite E in *.
  cbn [app tcp_walk] in *. rewrite Hp. reflexivity.
Qed.

(* "the walk over [l] from [acc] yields [res]", for every sufficient fuel *)
Definition tcp_walks {A} (step : A -> tcp_option -> A * bool) (l : list Z) (acc res : A) : Prop :=
  forall f, (length l <= f)%nat -> tcp_walk step f l acc = Ok res.

Lemma tcp_walks_opt {A} (step : A -> tcp_option -> A * bool) o R acc acc' res :
  tcp_opt_emittable o -> tcp_opt_vals_ok o -> step acc o = (acc', true) ->
  tcp_walks step R acc' res -> tcp_walks step (tcp_option_bytes o ++ R) acc res.
Proof.
  intros He Hv Hs HR f Hf.
  destruct (tcp_option_bytes_cons o He) as (x & l & E).
  destruct f as [|f]; [rewrite E in Hf; cbn in Hf; lia|].
  rewrite tcp_walk_step by assumption. rewrite Hs. apply HR.
  rewrite E in Hf. cbn [app length] in Hf. rewrite app_length in Hf. lia.
Qed.

Lemma tcp_walks_pad {A} (step : A -> tcp_option -> A * bool) n acc :
  (forall a, step a OptEnd = (a, false)) -> tcp_walks step (repeat 0 n) acc acc.
Proof.
  intros Hs f Hf. destruct n as [|n]; cbn [repeat] in *.
  - destruct f; reflexivity.
  - destruct f as [|f]; [cbn in Hf; lia|]. cbn [tcp_walk]. unfold tcp_option_parse. unfold wtcp_OPT_END. zfold.
    change (0 :: repeat 0 n) with ([0] ++ repeat 0 n). rewrite wb_from_tail by reflexivity.
    cbn [obind fst snd]. rewrite Hs. reflexivity.
Qed.

Definition tcp_oo_step (acc : tcp_optsum) (oo : option tcp_option) : tcp_optsum :=
  match oo with Some o => fst (tcp_optsum_step true acc o) | None => acc end.

Lemma tcp_walks_oo oo R acc res :
  (forall o, oo = Some o -> tcp_opt_emittable o /\ tcp_opt_vals_ok o) ->
  tcp_walks (tcp_optsum_step true) R (tcp_oo_step acc oo) res ->
  tcp_walks (tcp_optsum_step true) (tcp_oo_bytes oo ++ R) acc res.
Proof.
  intros H HR. destruct oo as [o|]; cbn [tcp_oo_bytes tcp_oo_step app] in *; [|assumption].
  destruct (H o eq_refl) as (He & Hv).
  eapply tcp_walks_opt; try eassumption.
  destruct o as [| |v|v| |r0 r1 r2|a c|k d]; cbn [tcp_opt_emittable] in He; try tauto; reflexivity.
Qed.

Definition tcp_optsum_of (r : tcp_repr) : tcp_optsum :=
  mkOptSum (tcp_mss r) (tcp_wscale r) (tcp_sack_permitted r) (tcp_sack0 r) (tcp_sack1 r) (tcp_sack2 r) (tcp_ts r).

Lemma tcp_wf_vals r : tcp_wf r = true ->
  (forall o, tcp_opt_mss r = Some o -> tcp_opt_vals_ok o) /\
  (forall o, tcp_opt_ws r = Some o -> tcp_opt_vals_ok o) /\
  (forall o, tcp_opt_sack r = Some o -> tcp_opt_vals_ok o) /\
  (forall o, tcp_opt_ts r = Some o -> tcp_opt_vals_ok o).
Proof.
  unfold tcp_wf. intros H. bsplit.
  unfold tcp_opt_mss, tcp_opt_ws, tcp_opt_sack, tcp_opt_ts.
  repeat split; intros o X.
  - destruct (tcp_mss r); [|discriminate]. injection X as <-. cbn. bsplit. lia.
  - destruct (tcp_wscale r); [|discriminate]. injection X as <-. cbn. bsplit. lia.
  - destruct (tcp_sack_permitted r); [injection X as <-; exact I|].
    match type of X with (if ?c then _ else _) = _ => destruct c end; [|discriminate].
    injection X as <-. cbn [tcp_opt_vals_ok]. auto.
  - destruct (tcp_ts r) as [[a c]|]; [|discriminate]. injection X as <-. cbn [is_u32_pair tcp_opt_vals_ok] in *.
    bsplit. lia.
Qed.

Lemma tcp_walk_opts r : tcp_wf r = true ->
  tcp_walks (tcp_optsum_step true) (tcp_opts_bytes r ++ tcp_pad r) tcp_optsum_default (tcp_optsum_of r).
Proof.
  intros Hwf. destruct (tcp_wf_opts r Hwf) as (E1 & E2 & E3 & E4 & _).
  destruct (tcp_wf_vals r Hwf) as (V1 & V2 & V3 & V4).
  unfold tcp_opts_bytes. rewrite <- !app_assoc.
  apply tcp_walks_oo; [auto|]. apply tcp_walks_oo; [auto|]. apply tcp_walks_oo; [auto|].
  apply tcp_walks_oo; [auto|].
  assert (Hacc : tcp_oo_step (tcp_oo_step (tcp_oo_step (tcp_oo_step tcp_optsum_default (tcp_opt_mss r))
                   (tcp_opt_ws r)) (tcp_opt_sack r)) (tcp_opt_ts r) = tcp_optsum_of r).
  { unfold tcp_wf in Hwf. bsplit.
    unfold tcp_opt_mss, tcp_opt_ws, tcp_opt_sack, tcp_opt_ts, tcp_optsum_of, tcp_sack_ok, tcp_sack_prefix in *.
    destruct r as [sp dp ctl sq ak win ws mss sackp s0 s1 s2 ts pl];
      cbn [tcp_mss tcp_wscale tcp_sack_permitted tcp_sack0 tcp_sack1 tcp_sack2 tcp_ts tcp_ack] in *.
    destruct ws as [w|].
    - assert (Hw : (w >? 14) = false) by (bsplit; lia).
      destruct mss, sackp, ak, s0, s1, s2, ts as [[? ?]|]; cbn [andb orb negb] in *; try discriminate;
        cbn; rewrite ?Hw; reflexivity.
    - destruct mss, sackp, ak, s0, s1, s2, ts as [[? ?]|]; cbn [andb orb negb] in *; try discriminate;
        cbn; reflexivity. }
  rewrite Hacc. unfold tcp_pad. apply tcp_walks_pad. reflexivity.
Qed.

(* ---------- the flag bits of an emitted header ---------- *)
Lemma tcp_flags_decode r : tcp_wf r = true ->
  let V := tcp_flags_word r in
  negb (Z.land V 2 =? 0) = (tcp_control r =? 2) /\ negb (Z.land V 1 =? 0) = (tcp_control r =? 3) /\
  negb (Z.land V 4 =? 0) = (tcp_control r =? 4) /\ negb (Z.land V 8 =? 0) = (tcp_control r =? 1) /\
  negb (Z.land V 16 =? 0) = (if tcp_ack r then true else false).
Proof.
  intros Hwf. destruct (tcp_wf_opts r Hwf) as (_ & _ & _ & _ & Hhl & Hmod & _).
  assert (Hctl : 0 <= tcp_control r <= 4) by (unfold tcp_wf in Hwf; bsplit; lia).
  unfold tcp_flags_word, tcp_ctl_mask. cbv zeta.
  remember (tcp_repr_header_len r) as hl. remember (tcp_control r) as ctl.
  assert (Hq : hl / 4 = 5 \/ hl / 4 = 6 \/ hl / 4 = 7 \/ hl / 4 = 8 \/ hl / 4 = 9 \/ hl / 4 = 10 \/
               hl / 4 = 11 \/ hl / 4 = 12 \/ hl / 4 = 13 \/ hl / 4 = 14 \/ hl / 4 = 15) by lia.
  assert (Hc : ctl = 0 \/ ctl = 1 \/ ctl = 2 \/ ctl = 3 \/ ctl = 4) by lia.
  repeat destruct Hq as [Hq | Hq]; rewrite Hq; repeat destruct Hc as [Hc | Hc]; rewrite Hc;
    destruct (tcp_ack r); cbv; repeat split.
Qed.

Section Parse.
Variable sum_ok : list Z -> bool.
Variable sum_fill : list Z -> Z.

(* link to C08: a filled-in checksum verifies, and is a u16 *)
Definition tcp_cksum_link : Prop :=
  (forall d, 0 <= sum_fill d < 65536) /\
  (forall r, tcp_wf r = true -> sum_ok (tcp_bytes sum_fill true r) = true).

Lemma tcp_parse_bytes tx rx r : tcp_cksum_link -> tcp_wf r = true -> (rx = true -> tx = true) ->
  tcp_parse sum_ok rx (tcp_bytes sum_fill tx r) = Ok r.
Proof.
  intros (Hrange & Hlink) Hwf Hmode.
  assert (Hok : rx = true -> sum_ok (tcp_bytes sum_fill tx r) = true).
  { intros Hrx. rewrite (Hmode Hrx). apply Hlink; assumption. }
  assert (Hg : wb_guard (negb (rx && negb (tcp_verify_checksum sum_ok (tcp_bytes sum_fill tx r)))) = Ok tt).
  { unfold tcp_verify_checksum. destruct rx; [rewrite (Hok eq_refl)|]; reflexivity. }
  assert (Hck : 0 <= tcp_ck sum_fill tx r < 65536) by (unfold tcp_ck; destruct tx; [apply Hrange | lia]).
  pose proof (tcp_bytes_len sum_fill tx r Hwf) as Hlen.
  destruct (tcp_wf_opts r Hwf) as (E1 & E2 & E3 & E4 & Hhl & Hmod & Hol & L1 & L2 & L3 & L4).
  destruct (tcp_flags_word_facts r Hwf) as (HV & HVhl).
  destruct (tcp_flags_decode r Hwf) as (Fsyn & Ffin & Frst & Fpsh & Fack).
  pose proof (tcp_walk_opts r Hwf) as Hwalk.
  unfold tcp_parse. rewrite Hg. clear Hg Hok Hlink Hmode.
  unfold tcp_buffer_len in Hlen. pose proof (blen_nonneg (tcp_payload r)) as Hpl.
  assert (Hob : blen (tcp_opts_bytes r ++ tcp_pad r) = tcp_repr_header_len r - 20).
  { unfold tcp_opts_bytes, tcp_pad. rewrite !blen_app, blen_repeat, !tcp_oo_bytes_len by assumption.
    unfold tcp_opts_len in *. lia. }
  revert Hlen Hck. unfold tcp_bytes, tcp_with_ck. generalize (tcp_ck sum_fill tx r). intros ck Hlen Hck.
  assert (Hsh : forall X, tcp_hdr16 r ++ be_enc2 ck ++ be_enc2 0 ++ tcp_opts_bytes r ++ tcp_pad r ++ X =
                (tcp_hdr16 r ++ be_enc2 ck ++ be_enc2 0) ++ (tcp_opts_bytes r ++ tcp_pad r) ++ X)
    by (intros X; rewrite <- !app_assoc; reflexivity).
  rewrite Hsh in *. clear Hsh.
  remember (tcp_opts_bytes r ++ tcp_pad r) as OP eqn:EOP.
  unfold tcp_hdr16, tcp_optsum_of in *.
  remember (tcp_flags_word r) as V eqn:EV. remember (tcp_repr_header_len r) as hl eqn:Ehl.
  destruct r as [sp dp ctl sq ak win ws mss sackp s0 s1 s2 ts pl];
    cbn [tcp_sport tcp_dport tcp_seq tcp_window tcp_control tcp_ack tcp_payload tcp_mss tcp_wscale
         tcp_sack_permitted tcp_sack0 tcp_sack1 tcp_sack2 tcp_ts] in *.
  assert (Hf : 0 <= sp < 65536 /\ sp <> 0 /\ 0 <= dp < 65536 /\ dp <> 0 /\ 0 <= ctl <= 4 /\ 0 <= sq < 4294967296 /\
               0 <= win < 65536 /\ match ak with Some a => 0 <= a < 4294967296 | None => True end).
  { unfold tcp_wf in Hwf. cbn [tcp_sport tcp_dport tcp_seq tcp_window tcp_control tcp_ack] in Hwf.
    destruct ak; unfold is_u32 in *; bsplit; repeat split; try lia. }
  destruct Hf as (Hsp & Hsp0 & Hdp & Hdp0 & Hctl & Hsq & Hwin & Hak).
  clear Hwf E1 E2 E3 E4 L1 L2 L3 L4 Hol.
  unfold tcp_ackv in *. cbn [tcp_ack] in *.
  set (ackv := match ak with Some a => a | None => 0 end) in *.
  assert (Hackv : 0 <= ackv < 4294967296) by (unfold ackv; destruct ak; lia).
  assert (Hav : forall a, ak = Some a -> ackv = a) by (intros a ->; reflexivity).
  clearbody ackv. clear EV Ehl EOP Hak.
  pose proof (blen_nonneg OP) as HOP.
  match goal with |- context [?hd ++ OP ++ pl] =>
    let v := eval cbv [be_enc2 be_enc4 app] in hd in change hd with v in * end.
  unfold tcp_check_len, tcp_src_port, tcp_dst_port, tcp_syn, tcp_fin, tcp_rst, tcp_psh, tcp_ack_, tcp_flag,
    tcp_header_len_, tcp_flags, tcp_ack_number, tcp_seq_number, tcp_window_len, tcp_options, tcp_payload_,
    wb_get_u16, wb_get_u32, wtcp_FLG_SYN, wtcp_FLG_FIN, wtcp_FLG_RST, wtcp_FLG_PSH, wtcp_FLG_ACK.
  zfold.
  match goal with |- context [blen (?hd ++ OP ++ pl) <? 20] =>
    assert (Hb : blen (hd ++ OP ++ pl) = hl + blen pl) by (rewrite !blen_app; change (blen hd) with 20; lia) end.
  rewrite Hb. zbool.
  assert (Zsp : (sp =? 0) = false) by (apply Z.eqb_neq; assumption).
  assert (Zdp : (dp =? 0) = false) by (apply Z.eqb_neq; assumption).
  repeat (hstep; rewrite ?(be_dec_cells2 V), ?(be_dec_cells2 sp), ?(be_dec_cells2 dp), ?(be_dec_cells2 win),
            ?(be_dec_cells4 sq), ?(be_dec_cells4 ackv), ?HVhl, ?Zsp, ?Zdp by lia; cbn [negb wb_guard obind]).
  replace (hl + blen pl <? hl) with false by (symmetry; apply Z.ltb_ge; lia).
  replace (hl <? 20) with false by (symmetry; apply Z.ltb_ge; lia). cbn [orb obind].
  rewrite Fsyn, Ffin, Frst, Fpsh, Fack. clear Fsyn Ffin Frst Fpsh Fack.
  unfold tcp_header_len_, tcp_flags, wb_get_u16. zfold.
  hstep. rewrite (be_dec_cells2 V), HVhl by lia. cbn [obind].
  rewrite wb_sub_mid by (try reflexivity; change (blen _) with 20 at 1; lia).
  assert (Hc : ctl = 0 \/ ctl = 1 \/ ctl = 2 \/ ctl = 3 \/ ctl = 4) by lia.
  rewrite app_assoc. rewrite wb_from_tail by (rewrite blen_app; change (blen _) with 20 at 1; lia).
  destruct Hc as [-> | [-> | [-> | [-> | ->]]]]; zfold; cbn [obind];
    (destruct ak as [a|]; [rewrite (Hav a eq_refl)|]; cbn [obind];
     rewrite (Hwalk (length OP) (le_n _));
     cbn [obind os_mss os_ws os_sack_permitted os_sack0 os_sack1 os_sack2 os_ts]; reflexivity).
Qed.

Lemma tcp_roundtrip tx rx r b : tcp_cksum_link -> tcp_wf r = true -> (rx = true -> tx = true) ->
  blen b = tcp_buffer_len r ->
  exists bs, tcp_emit sum_fill tx r b = Ok bs /\ blen bs = tcp_buffer_len r /\ tcp_parse sum_ok rx bs = Ok r.
Proof.
  intros Hl Hwf Hmode Hb. exists (tcp_bytes sum_fill tx r).
  split; [apply tcp_emit_spec; assumption|]. split; [apply tcp_bytes_len; assumption|].
  apply tcp_parse_bytes; assumption.
Qed.

End Parse.
