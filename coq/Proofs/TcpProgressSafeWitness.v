(* C02 (liveness half): NON-VACUITY of oneway_delivery_from_established (Proofs/TcpProgressSafe.v).
   [regb] decides the regime invariant [reg] on concrete states, [run_winb] the residual run premise
   [win_open].  The Example is the run of Proofs/TcpProgressWitness.v: from net_init, a prefix with a
   real loss (A's data segment is dropped), then a fair suffix.  Every premise of the theorem holds on
   it; its conclusion - all 5 octets are handed to B's application inside the run - follows. *)
From SV Require Import Lib.Base Gen.Consts.
From SV Require Import Model.Seq32 Model.Assembler Model.TcpBuf Model.TcpTypes Model.Tcp Model.TcpNet.
From SV Require Import Proofs.TcpSendBase Proofs.TcpLiveBase Proofs.TcpLiveProofs Proofs.TcpLiveMore
  Proofs.TcpLiveProgress.
From SV Require Import Proofs.TcpNetBase.
From SV Require Proofs.TcpNetInv.
From SV Require Import Proofs.TcpProgressBase Proofs.TcpProgressFrame Proofs.TcpProgressCtl Proofs.TcpProgressRecv
  Proofs.TcpProgressSend Proofs.TcpProgressNet Proofs.TcpProgressData Proofs.TcpProgressAck
  Proofs.TcpProgressAll Proofs.TcpProgressSafe Proofs.TcpProgressExample Proofs.TcpProgressWitness.
From SV Require Import Proofs.TcpProgressHsNet Proofs.TcpProgressHsInit.

Section RegDec.
Variable x : side.
Notation y := (side_other x).
Variable Dack : Z.

Definition tuple_eqb (a b : tuple) : bool :=
  (tu_local_addr a =? tu_local_addr b) && (tu_local_port a =? tu_local_port b) &&
  (tu_remote_addr a =? tu_remote_addr b) && (tu_remote_port a =? tu_remote_port b).

Lemma tuple_eqb_eq a b : tuple_eqb a b = true -> a = b.
Proof.
  unfold tuple_eqb. intros H. apply andb_true_iff in H. destruct H as (H & H4).
  apply andb_true_iff in H. destruct H as (H & H3). apply andb_true_iff in H. destruct H as (H1 & H2).
  destruct a, b; cbn in *. f_equal; lia.
Qed.

Definition sent_tob (t : tuple) (p : packet) : bool :=
  (ip_dst (fst p) =? tu_local_addr t) && (ip_src (fst p) =? tu_remote_addr t) &&
  (r_dst_port (snd p) =? tu_local_port t) && (r_src_port (snd p) =? tu_remote_port t) &&
  negb (control_eqb (r_control (snd p)) CRst).

Lemma control_neq a b : control_eqb a b = false -> a <> b.
Proof. destruct a, b; cbn; congruence. Qed.

Lemma sent_tob_sound t p : sent_tob t p = true -> sent_to t (fst p) (snd p) /\ r_control (snd p) <> CRst.
Proof.
  unfold sent_tob. intros H. apply andb_true_iff in H. destruct H as (H & H5).
  apply andb_true_iff in H. destruct H as (H & H4). apply andb_true_iff in H. destruct H as (H & H3).
  apply andb_true_iff in H. destruct H as (H1 & H2).
  split; [unfold sent_to; repeat split; lia|]. apply control_neq. apply negb_true_iff. exact H5.
Qed.

Definition nokab (t : timer) : bool := match t with TIdle (Some _) => false | _ => true end.
Lemma nokab_sound t : nokab t = true -> noka t.
Proof. destruct t as [[k|]| | | |]; cbn; intros; try exact I. discriminate. Qed.

Definition xchanb (p : packet) : bool :=
  (control_eqb (r_control (snd p)) CSyn && negb (is_some (r_ack_number (snd p)))) ||
  (negb (control_eqb (r_control (snd p)) CSyn) && is_some (r_ack_number (snd p))).

Definition ychanb (sx : socket) (q : packet) : bool :=
  control_eqb (r_control (snd q)) CSyn ||
  (control_eqb (r_control (snd q)) CNone && (match r_payload (snd q) with [] => true | _ => false end) &&
   (r_seq_number (snd q) =? tcp_window_start sx)).

Definition regb (st : net) : bool :=
  match s_tuple (net_sock st x), s_tuple (net_sock st y) with
  | Some t, Some ty =>
      tcp_state_eqb (s_state (net_sock st x)) Established && tcp_state_eqb (s_state (net_sock st y)) Established &&
      negb (ep_closed (net_get st x)) && negb (ep_closed (net_get st y)) &&
      (match ep_written (net_get st y) with [] => true | _ => false end) &&
      tuple_eqb ty (mirror t) &&
      (tu_local_addr t =? cx_addr (ep_cx (net_get st x))) && (tu_remote_addr t =? cx_addr (ep_cx (net_get st y))) &&
      negb (tu_local_addr t =? 0) && negb (tu_remote_addr t =? 0) &&
      negb (tu_local_port t =? 0) && negb (tu_remote_port t =? 0) &&
      forallb (sent_tob t) (chan_to st x) && forallb (sent_tob ty) (chan_to st y) &&
      forallb xchanb (chan_to st y) && forallb (ychanb (net_sock st x)) (chan_to st x) &&
      is_some (s_remote_last_ack (net_sock st y)) &&
      nokab (s_timer (net_sock st x)) && nokab (s_timer (net_sock st y)) &&
      (match s_ack_delay (net_sock st y) with Some d => (0 <=? d) && (d <=? Dack) | None => true end)
  | _, _ => false
  end.

Lemma regb_sound st : regb st = true -> reg x Dack st.
Proof.
  unfold regb. destruct (s_tuple (net_sock st x)) as [t|] eqn:Et; [|discriminate].
  destruct (s_tuple (net_sock st y)) as [ty|] eqn:Ety; [|discriminate]. intros H.
  apply andb_true_iff in H; destruct H as (H & Q20).
  apply andb_true_iff in H; destruct H as (H & Q19).
  apply andb_true_iff in H; destruct H as (H & Q18).
  apply andb_true_iff in H; destruct H as (H & Q17).
  apply andb_true_iff in H; destruct H as (H & Q16).
  apply andb_true_iff in H; destruct H as (H & Q15).
  apply andb_true_iff in H; destruct H as (H & Q14).
  apply andb_true_iff in H; destruct H as (H & Q13).
  apply andb_true_iff in H; destruct H as (H & Q12).
  apply andb_true_iff in H; destruct H as (H & Q11).
  apply andb_true_iff in H; destruct H as (H & Q10).
  apply andb_true_iff in H; destruct H as (H & Q9).
  apply andb_true_iff in H; destruct H as (H & Q8).
  apply andb_true_iff in H; destruct H as (H & Q7).
  apply andb_true_iff in H; destruct H as (H & Q6).
  apply andb_true_iff in H; destruct H as (H & Q5).
  apply andb_true_iff in H; destruct H as (H & Q4).
  apply andb_true_iff in H; destruct H as (H & Q3).
  apply andb_true_iff in H; destruct H as (Q1 & Q2).
  apply tuple_eqb_eq in Q6. subst ty.
  assert (Hnz : tuple_nz t).
  { unfold tuple_nz. apply negb_true_iff in Q9, Q10, Q11, Q12. repeat split; lia. }
  assert (Hnzm : tuple_nz (mirror t)).
  { destruct Hnz as (A & B & C0 & D). unfold tuple_nz, mirror. cbn. auto. }
  constructor.
  - intros z. destruct (side_cases x z) as [-> | ->]; apply tcp_state_eqb_eq; assumption.
  - intros z. destruct (side_cases x z) as [-> | ->]; apply negb_true_iff; assumption.
  - destruct (ep_written (net_get st y)); [reflexivity | discriminate].
  - intros z. destruct (side_cases x z) as [-> | ->].
    + exists t. split; [exact Et|]. split; [exact Ety|]. split; [lia | exact Hnz].
    + exists (mirror t). split; [exact Ety|]. rewrite side_other_inv, mirror_mirror.
      split; [exact Et|]. split; [unfold mirror; cbn; lia | exact Hnzm].
  - intros z p tz Hin Htz. destruct (side_cases x z) as [-> | ->].
    + rewrite Et in Htz. inversion Htz; subst tz. apply sent_tob_sound.
      rewrite forallb_forall in Q13. apply Q13. exact Hin.
    + rewrite Ety in Htz. inversion Htz; subst tz. apply sent_tob_sound.
      rewrite forallb_forall in Q14. apply Q14. exact Hin.
  - intros p Hin. rewrite forallb_forall in Q15. specialize (Q15 p Hin). unfold xchanb in Q15.
    apply orb_true_iff in Q15. destruct Q15 as [Q | Q]; apply andb_true_iff in Q; destruct Q as (A & B).
    + left. split; [apply control_eqb_eq; exact A|]. destruct (r_ack_number (snd p)); [discriminate | reflexivity].
    + right. split; [apply control_neq; apply negb_true_iff; exact A|].
      destruct (r_ack_number (snd p)); [discriminate | discriminate].
  - intros q Hin. rewrite forallb_forall in Q16. specialize (Q16 q Hin). unfold ychanb in Q16.
    apply orb_true_iff in Q16. destruct Q16 as [Q | Q].
    + left. apply control_eqb_eq. exact Q.
    + apply andb_true_iff in Q. destruct Q as (Q & C0). apply andb_true_iff in Q. destruct Q as (A & B).
      right. split; [apply control_eqb_eq; exact A|].
      split; [destruct (r_payload (snd q)); [reflexivity | discriminate] | lia].
  - destruct (s_remote_last_ack (net_sock st y)); [discriminate | discriminate].
  - intros z. destruct (side_cases x z) as [-> | ->]; apply nokab_sound; assumption.
  - destruct (s_ack_delay (net_sock st y)); [lia | exact I].
Qed.

Definition win_openb (st : net) : bool :=
  (0 <? s_remote_win_len (net_sock st x)) && adv_Wb (net_sock st y) 1.

Lemma win_openb_sound st : win_openb st = true -> win_open x st.
Proof.
  unfold win_openb. intros H. apply andb_true_iff in H. destruct H as (H1 & H2).
  split; [lia|]. destruct (adv_Wb_sound _ _ H2) as (W & HW & E). exists W. split; [lia | exact E].
Qed.

Fixpoint run_winb (st : net) (evs : list net_event) : bool :=
  win_openb st &&
  match evs with
  | [] => true
  | ev :: rest => match net_step st ev with Ok st' => run_winb st' rest | _ => true end
  end.

Lemma run_winb_sound evs : forall st, run_winb st evs = true -> run_all (win_open x) st evs.
Proof.
  induction evs as [|ev r IH]; intros st H; cbn [run_winb run_all] in *;
    apply andb_true_iff in H; destruct H as (H1 & H2); (split; [apply win_openb_sound; exact H1|]); [exact I|].
  destruct (net_step st ev); try exact I. apply IH. exact H2.
Qed.

Definition app_evb (ev : net_event) : bool :=
  match ev with NClose _ => false | NSend z _ => side_eqb z x | _ => true end.

Lemma app_evb_sound evs : forallb app_evb evs = true -> Forall (app_ev x) evs.
Proof.
  induction evs as [|ev r IH]; cbn [forallb]; intros H; [constructor|].
  apply andb_true_iff in H. destruct H as (H1 & H2). constructor; [|exact (IH H2)].
  destruct ev; cbn [app_evb app_ev] in *; try exact I; try discriminate. apply side_eqb_true. exact H1.
Qed.

End RegDec.

(* ---------------------------------------------------------------------------------------- *)
(* the witness                                                                               *)
(* ---------------------------------------------------------------------------------------- *)
Definition dis_check (ca cb : ep_config) (pre suf : list net_event) (Dt Da Dack L : Z) (n m : nat) : bool :=
  match net_init ca cb with
  | Ok st0 =>
      match net_run st0 pre with
      | Ok st =>
          regb SA Dack st && opts_okb st && fair_runb Dt Da (fa_init Dt Da st) st suf &&
          run_winb SA st suf && forallb (app_evb SA) suf &&
          (L <=? l_len (ep_written (net_get st SA))) && (L - una_off (net_get st SA) <=? Z.of_nat n) &&
          (L - read_off (net_get st SB) <=? Z.of_nat m) && (0 <=? Dt) && (0 <=? Da) && (0 <=? Dack) &&
          match net_run st suf with
          | Ok st' => (net_now st SA + Z.of_nat n * W3 Dt Dack + Z.of_nat m * Da <? net_now st' SA) &&
                      (l_len (ep_written (net_get st' SA)) <? 2 ^ 30) && (l_len (ep_written (net_get st' SB)) <? 2 ^ 30)
          | _ => false
          end
      | _ => false
      end
  | _ => false
  end.

Lemma dis_package ca cb pre suf Dt Da Dack L n m :
  cfg_good ca -> cfg_good cb ->
  dis_check ca cb pre suf Dt Da Dack L n m = true ->
  exists st0 st st',
    net_init ca cb = Ok st0 /\ net_run st0 pre = Ok st /\ net_run st suf = Ok st' /\
    reach st /\ reg SA Dack st /\ fair_schedule Dt Da st suf /\ Forall (app_ev SA) suf /\
    run_all (win_open SA) st suf /\
    exists p1 p2 st1, suf = p1 ++ p2 /\ net_run st p1 = Ok st1 /\ net_run st1 p2 = Ok st' /\
                      L <= read_off (net_get st1 SB).
Proof.
  intros Ga Gb H. unfold dis_check in H.
  destruct (net_init ca cb) as [st0|e|] eqn:Ei; try discriminate.
  destruct (net_run st0 pre) as [st|e|] eqn:Ep; try discriminate.
  apply andb_true_iff in H. destruct H as (H & Hend).
  apply andb_true_iff in H. destruct H as (H & Hd3).
  apply andb_true_iff in H. destruct H as (H & Hd2).
  apply andb_true_iff in H. destruct H as (H & Hd1).
  apply andb_true_iff in H. destruct H as (H & Hm).
  apply andb_true_iff in H. destruct H as (H & Hu).
  apply andb_true_iff in H. destruct H as (H & Hw).
  apply andb_true_iff in H. destruct H as (H & Happ).
  apply andb_true_iff in H. destruct H as (H & Hwin).
  apply andb_true_iff in H. destruct H as (H & Hf).
  apply andb_true_iff in H. destruct H as (Hreg & Ho).
  destruct (net_run st suf) as [st'|e|] eqn:Es; try discriminate.
  apply andb_true_iff in Hend. destruct Hend as (Hend & Hsb).
  apply andb_true_iff in Hend. destruct Hend as (Hclk & Hsa).
  assert (Hre : reach st) by (exists ca, cb, st0, pre; auto).
  pose proof (regb_sound SA Dack st Hreg) as HG.
  assert (Hfs : fair_schedule Dt Da st suf).
  { split; [lia|]. split; [lia|]. split; [apply opts_okb_sound; exact Ho | apply fair_runb_sound; exact Hf]. }
  pose proof (app_evb_sound SA suf Happ) as Ha.
  pose proof (run_winb_sound SA suf st Hwin) as Hwo.
  exists st0, st, st'. split; [first [reflexivity | exact Ei]|]. split; [first [reflexivity | exact Ep]|].
  split; [first [reflexivity | exact Es]|].
  repeat (split; [assumption|]).
  apply (oneway_delivery_from_established SA Dt Da Dack n m suf st st' L Hre HG Hfs ltac:(lia) Ha Es); try lia; try assumption.
  - intros z. destruct z; cbn [net_get] in *; lia.
  - cbn [side_other]. lia.
Qed.

Lemma dis_check_ok : dis_check ex_cfg_a ex_cfg_b wit_prefix wit_suffix 5000 5000 10000 5 5 5 = true.
Proof. vm_compute. reflexivity. Qed.

Lemma ex_cfg_good : cfg_good ex_cfg_a /\ cfg_good ex_cfg_b.
Proof.
  destruct ex_cfg_cc as (C1 & C2 & C3 & C4).
  unfold cfg_good, TcpNetInv.cfg_ok. split; (split; [split; [vm_compute; discriminate | split; [cbn; lia | assumption]] | assumption]).
Qed.

(* the discharged theorem applies to a run that starts after a real loss: no safety hypothesis on
   the run is assumed, the regime invariant is checked in the start state only *)
Theorem discharge_applies :
  exists st0 st st',
    net_init ex_cfg_a ex_cfg_b = Ok st0 /\ net_run st0 wit_prefix = Ok st /\ net_run st wit_suffix = Ok st' /\
    reach st /\ reg SA 10000 st /\ fair_schedule 5000 5000 st wit_suffix /\ Forall (app_ev SA) wit_suffix /\
    run_all (win_open SA) st wit_suffix /\
    exists p1 p2 st1, wit_suffix = p1 ++ p2 /\ net_run st p1 = Ok st1 /\ net_run st1 p2 = Ok st' /\
                      5 <= read_off (net_get st1 SB).
Proof. destruct ex_cfg_good as (Ga & Gb). exact (dis_package _ _ _ _ _ _ _ _ _ _ Ga Gb dis_check_ok). Qed.

(* ---------------------------------------------------------------------------------------- *)
(* the same run under the theorem from net_init: no premise on the handshake-completed state   *)
(* ---------------------------------------------------------------------------------------- *)
Definition init_check (ca cb : ep_config) (pre suf : list net_event) (Dt Da Dack L : Z) (n m : nat) : bool :=
  match net_init ca cb with
  | Ok st0 =>
      net_started st0 && forallb (app_evb SA) pre &&
      match net_run st0 pre with
      | Ok st =>
          tcp_state_eqb (s_state (net_sock st SA)) Established && tcp_state_eqb (s_state (net_sock st SB)) Established &&
          opts_okb st && fair_runb Dt Da (fa_init Dt Da st) st suf &&
          run_winb SA st suf && forallb (app_evb SA) suf &&
          (L <=? l_len (ep_written (net_get st SA))) && (L - una_off (net_get st SA) <=? Z.of_nat n) &&
          (L - read_off (net_get st SB) <=? Z.of_nat m) && (0 <=? Dt) && (0 <=? Da) && (0 <=? Dack) &&
          match net_run st suf with
          | Ok st' => (net_now st SA + Z.of_nat n * W3 Dt Dack + Z.of_nat m * Da <? net_now st' SA) &&
                      (l_len (ep_written (net_get st' SA)) <? 2 ^ 30) && (l_len (ep_written (net_get st' SB)) <? 2 ^ 30)
          | _ => false
          end
      | _ => false
      end
  | _ => false
  end.

Lemma init_package ca cb pre suf Dt Da Dack L n m :
  cfg_good ca -> cfg_good cb -> cfg_plain ca -> cfg_plain cb -> c_addr ca <> 0 ->
  match c_ack_delay cb with Some d => 0 <= d <= Dack | None => True end ->
  init_check ca cb pre suf Dt Da Dack L n m = true ->
  exists st0 st st',
    start_ok Dack ca cb st0 /\ net_run st0 pre = Ok st /\ net_run st suf = Ok st' /\
    exists p1 p2 st1, suf = p1 ++ p2 /\ net_run st p1 = Ok st1 /\ net_run st1 p2 = Ok st' /\
                      L <= read_off (net_get st1 SB).
Proof.
  intros Ga Gb Pa Pb Haddr Hdel H. unfold init_check in H.
  destruct (net_init ca cb) as [st0|e|] eqn:Ei; try discriminate.
  apply andb_true_iff in H. destruct H as (H & Hrest).
  apply andb_true_iff in H. destruct H as (Hst & Hpa).
  destruct (net_run st0 pre) as [st|e|] eqn:Ep; try discriminate.
  apply andb_true_iff in Hrest. destruct Hrest as (H & Hend).
  apply andb_true_iff in H. destruct H as (H & Hd3).
  apply andb_true_iff in H. destruct H as (H & Hd2).
  apply andb_true_iff in H. destruct H as (H & Hd1).
  apply andb_true_iff in H. destruct H as (H & Hm).
  apply andb_true_iff in H. destruct H as (H & Hu).
  apply andb_true_iff in H. destruct H as (H & Hw).
  apply andb_true_iff in H. destruct H as (H & Happ).
  apply andb_true_iff in H. destruct H as (H & Hwin).
  apply andb_true_iff in H. destruct H as (H & Hf).
  apply andb_true_iff in H. destruct H as (H & Ho).
  apply andb_true_iff in H. destruct H as (Hea & Heb).
  destruct (net_run st suf) as [st'|e|] eqn:Es; try discriminate.
  apply andb_true_iff in Hend. destruct Hend as (Hend & Hsb).
  apply andb_true_iff in Hend. destruct Hend as (Hclk & Hsa).
  assert (Hstart : start_ok Dack ca cb st0) by (unfold start_ok; auto 10).
  assert (Hfs : fair_schedule Dt Da st suf).
  { split; [lia|]. split; [lia|]. split; [apply opts_okb_sound; exact Ho | apply fair_runb_sound; exact Hf]. }
  assert (Hest : forall z, s_state (net_sock st z) = Established).
  { intros z. destruct z; apply tcp_state_eqb_eq; assumption. }
  exists st0, st, st'. split; [exact Hstart|]. split; [first [reflexivity | exact Ep]|].
  split; [first [reflexivity | exact Es]|].
  apply (oneway_delivery_from_net_init Dt Da Dack ca cb st0 n m pre suf st st' L Hstart
           (app_evb_sound SA pre Hpa) Ep Hest Hfs ltac:(lia) (app_evb_sound SA suf Happ) Es); try lia.
  - intros z. destruct z; cbn [net_get] in *; lia.
  - exact (run_winb_sound SA suf st Hwin).
Qed.

Lemma init_check_ok : init_check ex_cfg_a ex_cfg_b wit_prefix wit_suffix 5000 5000 10000 5 5 5 = true.
Proof. vm_compute. reflexivity. Qed.

(* from net_init: a lossy prefix that completes the handshake, then a fair suffix *)
Theorem delivery_from_net_init_applies :
  exists st0 st st',
    start_ok 10000 ex_cfg_a ex_cfg_b st0 /\ net_run st0 wit_prefix = Ok st /\ net_run st wit_suffix = Ok st' /\
    exists p1 p2 st1, wit_suffix = p1 ++ p2 /\ net_run st p1 = Ok st1 /\ net_run st1 p2 = Ok st' /\
                      5 <= read_off (net_get st1 SB).
Proof.
  destruct ex_cfg_good as (Ga & Gb).
  apply (init_package ex_cfg_a ex_cfg_b wit_prefix wit_suffix 5000 5000 10000 5 5 5 Ga Gb); try exact init_check_ok.
  - split; reflexivity.
  - split; reflexivity.
  - cbn. lia.
  - cbn. unfold tcp_ACK_DELAY_DEFAULT. lia.
Qed.
