(* Lemmas about Model/WireIpv6Frag.v (properties C06, C07). *)
From SV Require Import Lib.Base Gen.WireFields Model.WireBase Model.WireIpv6Frag
  Proofs.WireBaseProofs Proofs.Wire2Kit.

Definition v6frag_m (more : bool) : Z := if more then 1 else 0.

Definition v6frag_bytes (r : v6frag_repr) : list Z :=
  be_enc2 (v6frag_offset r * 8 + v6frag_m (v6frag_more r)) ++ be_enc4 (v6frag_ident r).

(* ---------- the bit fields of octets 0..1: finite table ----------
   off = the 13-bit offset, e = the old bit 0 of octet 1 (all that clear_reserved +
   set_frag_offset keep of the old contents), m = the more-fragments flag. *)
Definition v6frag_raw (off e : Z) : Z := Z.lor (Z.shiftl (Z.land off 8191) 3) e.
Definition v6frag_tab_hi (off e m : Z) : bool :=
  (v6frag_raw off e / 256) mod 256 =? ((off * 8 + m) / 256) mod 256.
Definition v6frag_tab_lo (off e m : Z) : bool :=
  Z.lor (Z.land (v6frag_raw off e mod 256) 254) (Z.land m 1) =? (off * 8 + m) mod 256.

Lemma v6frag_table_hi :
  forallb (fun x => forallb (fun y => forallb (v6frag_tab_hi x y) (ztab 2)) (ztab 2)) (ztab 8192) = true.
Proof. vm_compute. reflexivity. Qed.
Lemma v6frag_table_lo :
  forallb (fun x => forallb (fun y => forallb (v6frag_tab_lo x y) (ztab 2)) (ztab 2)) (ztab 8192) = true.
Proof. vm_compute. reflexivity. Qed.

Lemma v6frag_m_range more : 0 <= v6frag_m more < 2.
Proof. destruct more; cbn; lia. Qed.

(* ---------- C06 ---------- *)

Lemma v6frag_emit_spec r b : v6frag_wf r = true -> blen b = v6frag_buffer_len r ->
  v6frag_emit r b = Ok (v6frag_bytes r).
Proof.
  intros Hwf Hb. unfold v6frag_wf in Hwf. bsplit.
  destruct r as [off more id]; cbn [v6frag_offset v6frag_more v6frag_ident] in *.
  apply (blen_length _ 6) in Hb. cells Hb.
  unfold v6frag_bytes; cbn [v6frag_offset v6frag_more v6frag_ident].
  set (m := v6frag_m more). assert (Hm : 0 <= m < 2) by apply v6frag_m_range.
  match goal with |- ?l = _ =>
    let v := eval cbv - [Z.div Z.modulo Z.land Z.lor Z.shiftl Z.shiftr] in l in change l with v end.
  change (if more then 1 else 0) with m.
  rewrite <- (Z.land_assoc c0 249 7). change (Z.land 249 7) with 1.
  pose proof (land_1_range c0) as He. generalize dependent (Z.land c0 1). intros e He.
  unfold be_enc2, be_enc4. cbn [app].
  f_equal. f_equal; [|f_equal].
  - apply Z.eqb_eq.
    exact (tab3 8192 2 2 v6frag_tab_hi v6frag_table_hi off e m ltac:(lia) ltac:(lia) ltac:(lia)).
  - apply Z.eqb_eq.
    exact (tab3 8192 2 2 v6frag_tab_lo v6frag_table_lo off e m ltac:(lia) ltac:(lia) ltac:(lia)).
Qed.

Lemma v6frag_bytes_len r : blen (v6frag_bytes r) = v6frag_buffer_len r.
Proof. reflexivity. Qed.

Lemma v6frag_emit_no_panic r b : v6frag_wf r = true -> blen b = v6frag_buffer_len r ->
  v6frag_emit r b <> Panic.
Proof. intros; rewrite v6frag_emit_spec by assumption; discriminate. Qed.

Lemma v6frag_emit_ignores_old_bytes r b1 b2 : v6frag_wf r = true ->
  blen b1 = v6frag_buffer_len r -> blen b2 = v6frag_buffer_len r ->
  v6frag_emit r b1 = v6frag_emit r b2.
Proof. intros; rewrite !v6frag_emit_spec by assumption; reflexivity. Qed.

Lemma v6frag_parse_bytes r : v6frag_wf r = true -> v6frag_parse (v6frag_bytes r) = Ok r.
Proof.
  intros Hwf. unfold v6frag_wf in Hwf. bsplit.
  destruct r as [off more id]; cbn [v6frag_offset v6frag_more v6frag_ident] in *.
  unfold v6frag_bytes; cbn [v6frag_offset v6frag_more v6frag_ident].
  pose proof (v6frag_m_range more) as Hm.
  remember (off * 8 + v6frag_m more) as X eqn:HX.
  match goal with |- ?l = _ =>
    let v := eval cbv - [Z.div Z.modulo Z.land Z.lor Z.shiftl Z.shiftr be_dec Z.eqb] in l in change l with v end.
  rewrite be_dec_cells2, be_dec_cells4 by lia.
  rewrite Z.shiftr_div_pow2 by lia. change (2 ^ 3) with 8.
  change 1 with (Z.ones 1) at 1. rewrite Z.land_ones by lia. change (2 ^ 1) with 2.
  f_equal. f_equal; [lia|].
  destruct more; cbn [v6frag_m] in *; [apply Z.eqb_eq | apply Z.eqb_neq]; lia.
Qed.

Lemma v6frag_roundtrip r b : v6frag_wf r = true -> blen b = v6frag_buffer_len r ->
  exists bs, v6frag_emit r b = Ok bs /\ blen bs = v6frag_buffer_len r /\ v6frag_parse bs = Ok r.
Proof.
  intros Hwf Hb. exists (v6frag_bytes r). split; [apply v6frag_emit_spec; assumption|].
  split; [apply v6frag_bytes_len | apply v6frag_parse_bytes; assumption].
Qed.

(* ---------- C07 ---------- *)

Lemma v6frag_check_len_inv bs : v6frag_check_len bs = Ok tt -> 6 <= blen bs.
Proof. unfold v6frag_check_len. zfold. case_if; [discriminate|]. bsplit. lia. Qed.

Lemma v6frag_accessors_safe bs : v6frag_check_len bs = Ok tt ->
  v6frag_frag_offset bs <> Panic /\ v6frag_more_frags bs <> Panic /\ v6frag_ident_ bs <> Panic.
Proof.
  intros H. apply v6frag_check_len_inv in H.
  unfold v6frag_frag_offset, v6frag_more_frags, v6frag_ident_, wb_get_u16, wb_get_u32. zfold.
  repeat split.
  - apply obind_nopanic; [apply wb_get_be_nopanic; lia | discriminate].
  - apply obind_nopanic; [apply wb_get_u8_nopanic; lia | discriminate].
  - apply wb_get_be_nopanic; lia.
Qed.

Lemma v6frag_parse_total bs : v6frag_parse bs <> Panic.
Proof.
  unfold v6frag_parse. destruct (v6frag_check_len bs) as [[]| |] eqn:E; cbn [obind]; try discriminate.
  - destruct (v6frag_accessors_safe bs E) as (A1 & A2 & A3). nopanic.
  - revert E. unfold v6frag_check_len. case_if; discriminate.
Qed.

Lemma v6frag_parse_wf bs r : bytes_ok bs = true -> v6frag_parse bs = Ok r -> v6frag_wf r = true.
Proof.
  intros Hb H. unfold v6frag_parse in H.
  destruct (v6frag_check_len bs) as [[]| |] eqn:E; cbn [obind] in H; try discriminate.
  apply v6frag_check_len_inv in E.
  destruct (wb_get_u16_ok' bs wv6frag_f_FR_OF_M) as (v & Hv & Rv); try (zfold; lia); try assumption.
  destruct (wb_get_u32_ok' bs wv6frag_f_IDENT) as (i & Hi & Ri); try (zfold; lia); try assumption.
  unfold v6frag_frag_offset, v6frag_more_frags, v6frag_ident_ in H. rewrite Hv, Hi in H. cbn [obind] in H.
  destruct (wb_get_u8 bs wv6frag_f_M); cbn [obind] in H; try discriminate.
  injection H as <-. unfold v6frag_wf, is_u32; cbn [v6frag_offset v6frag_ident].
  pose proof (shiftr_range v 3 65536 Rv ltac:(lia)).
  rewrite Z.shiftr_div_pow2 in * by lia. change (2 ^ 3) with 8 in *. zbool. reflexivity.
Qed.

Lemma v6frag_reparse bs r : bytes_ok bs = true -> v6frag_parse bs = Ok r ->
  v6frag_wf r = true /\
  forall b, blen b = v6frag_buffer_len r ->
    exists bs', v6frag_emit r b = Ok bs' /\ v6frag_parse bs' = Ok r.
Proof.
  intros Hb H. pose proof (v6frag_parse_wf bs r Hb H) as Hwf. split; [assumption|].
  intros b Hlen. destruct (v6frag_roundtrip r b Hwf Hlen) as (bs' & He & _ & Hp). eauto.
Qed.
