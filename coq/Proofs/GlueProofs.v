(* Lemmas about Model/Glue.v (property C03: ingress glue arithmetic never panics). *)
From SV Require Import Lib.Base Gen.Consts Model.Glue.

Lemma glue_quote_v4_spec len :
  0 <= len ->
  exists n, glue_quote_v4 len = Ok n /\ n = Z.min len (wipv4_MIN_MTU - 2 * wipv4_HEADER_LEN - 8) /\
            0 <= n <= len /\ glue_error_size wipv4_HEADER_LEN n <= wipv4_MIN_MTU.
Proof.
  intros Hlen. unfold glue_quote_v4, glue_quote, glue_icmp_reply_payload_len, g_usub, g_slice_ok,
    glue_error_size, wipv4_MIN_MTU, wipv4_HEADER_LEN. cbn [obind].
  replace (576 - 20 * 2 <? 0) with false by reflexivity. cbn [obind].
  replace (576 - 20 * 2 - 8 <? 0) with false by reflexivity. cbn [obind].
  destruct ((0 <=? Z.min len (576 - 20 * 2 - 8)) && (Z.min len (576 - 20 * 2 - 8) <=? len)) eqn:H; [|lia].
  eexists. split; [reflexivity|]. lia.
Qed.

Lemma glue_quote_v6_spec len :
  0 <= len ->
  exists n, glue_quote_v6 len = Ok n /\ n = Z.min len (wipv6_MIN_MTU - 2 * wipv6_HEADER_LEN - 8) /\
            0 <= n <= len /\ glue_error_size wipv6_HEADER_LEN n <= wipv6_MIN_MTU.
Proof.
  intros Hlen. unfold glue_quote_v6, glue_quote, glue_icmp_reply_payload_len, g_usub, g_slice_ok,
    glue_error_size, wipv6_MIN_MTU, wipv6_HEADER_LEN. cbn [obind].
  replace (1280 - 40 * 2 <? 0) with false by reflexivity. cbn [obind].
  replace (1280 - 40 * 2 - 8 <? 0) with false by reflexivity. cbn [obind].
  destruct ((0 <=? Z.min len (1280 - 40 * 2 - 8)) && (Z.min len (1280 - 40 * 2 - 8) <=? len)) eqn:H; [|lia].
  eexists. split; [reflexivity|]. lia.
Qed.

Lemma hbh_walk_spec unknown mc len :
  0 <= len ->
  match hbh_walk unknown mc len with
  | None => True
  | Some v => v = Ok HbhDiscard \/
              exists q, v = Ok (HbhDiscardNotify q) /\ 0 <= q <= len /\
                        glue_error_size wipv6_HEADER_LEN q <= wipv6_MIN_MTU
  end.
Proof.
  intros Hlen. induction unknown as [|t rest IH]; cbn [hbh_walk]; [exact I|].
  destruct (glue_quote_v6_spec len Hlen) as (n & Hq & _ & Hn & Hfit).
  destruct (hbh_failure t) as [|p|p]; [exact IH| |].
  - destruct p as [p|p|]; try destruct p; try destruct mc;
      try (left; reflexivity);
      try (right; exists n; rewrite Hq; cbn [obind]; split; [reflexivity | split; assumption]).
  - destruct mc; [left; reflexivity|].
    right; exists n; rewrite Hq; cbn [obind]; split; [reflexivity | split; assumption].
Qed.

Lemma c03_hopbyhop_total len l unknown mc :
  0 <= len -> 0 <= l ->
  match glue_process_hopbyhop len l unknown mc with
  | Panic => False
  | Err _ => len < (l + 1) * 8
  | Ok (HbhContinue r) => r = len - (l + 1) * 8 /\ 0 <= r
  | Ok HbhDiscard => True
  | Ok (HbhDiscardNotify q) => 0 <= q <= len /\ glue_error_size wipv6_HEADER_LEN q <= wipv6_MIN_MTU
  end.
Proof.
  intros Hlen Hl. unfold glue_process_hopbyhop.
  destruct (len <? (l + 1) * 8) eqn:Hc; [lia|].
  pose proof (hbh_walk_spec unknown mc len Hlen) as Hw.
  destruct (hbh_walk unknown mc len) as [v|].
  - destruct Hw as [-> | (q & -> & Hq)]; [exact I | exact Hq].
  - unfold g_slice_ok.
    destruct ((2 + ((l + 1) * 8 - 2) <=? len) && (len <=? len)) eqn:Hs; [|lia].
    cbn [obind]. lia.
Qed.

(* non-vacuity: a 1500-byte offending IPv6 payload is quoted up to 1192 bytes; an 8-byte
   hop-by-hop header with an unknown "discard and notify" option in front of 100 bytes *)
Lemma c03_glue_example :
  glue_quote_v6 1500 = Ok 1192 /\ glue_quote_v4 1500 = Ok 528 /\ glue_quote_v4 10 = Ok 10 /\
  glue_process_hopbyhop 108 0 [128] false = Ok (HbhDiscardNotify 108) /\
  glue_process_hopbyhop 108 0 [192] true = Ok HbhDiscard /\
  glue_process_hopbyhop 108 0 [30] false = Ok (HbhContinue 100) /\
  glue_process_hopbyhop 7 0 [] false = Err 1.
Proof. vm_compute. repeat split; reflexivity. Qed.
