(* C04: the theorems.  Every event of [tcp_step] preserves the receiver invariant with its ghost
   ([step_inv]); hence it holds after every finite sequence of admissible events from a freshly
   created socket ([rx_reach], [run_events]), for every receive-buffer capacity (<= 2^30, larger
   ones are refused by Socket::new), window-scale shift, initial sequence number and peer stream. *)
From SV Require Import Lib.Base Gen.Consts.
From SV Require Import Model.Seq32 Model.Assembler Model.TcpBuf Model.TcpTypes Model.Tcp.
From SV Require Import Proofs.AssemblerProofs Proofs.TcpRecvBase Proofs.TcpRecvWindow
  Proofs.TcpRecvPayload Proofs.TcpRecvInv Proofs.TcpRecvProcess Proofs.TcpRecvStep
  Proofs.TcpRecvSync Proofs.TcpRecvDispatch Proofs.TcpRecvTrace.

Section Theorems.
  Variable S : nat -> Z -> Z.
  Variable F : nat -> option Z.
  Hypothesis F_nonneg : forall e f, F e = Some f -> 0 <= f.

  Notation ginv := (ginv S F).
  Notation ev_ok := (ev_ok S F).
  Notation ack_ok := (ack_ok F).
  Notation step_post := (step_post S F).

  (* ------------------------------------------------------------------------------------ *)
  (* one event                                                                             *)
  (* ------------------------------------------------------------------------------------ *)
  Theorem step_inv cx g s ev s' out tags :
    ginv g s -> ev_ok g s ev -> tcp_step cx s ev = Ok (s', out, tags) ->
    step_post g s ev (ghost_step cx g s ev s' out) s' out.
  Proof.
    intros Hinv Hev H. unfold step_post.
    destruct (ginv_wf S F _ _ Hinv) as (Hwf & Hcap & Hsh).
    assert (Hsame : forall g0 s0, ginv g0 s0 -> forall out0, emitted out0 = None ->
              forall ev0, (forall n, ev0 <> EvRecv n) -> (forall ip r, ev0 <> EvSegment ip r) ->
              ginv g0 s0 /\
              (forall p, emitted out0 = Some p -> ack_ok g0 s0 p) /\
              (forall n, ev0 = EvRecv n -> out0 = OErr 2 ->
                 exists irs, g_irs g = Some irs /\ F (g_epoch g) = Some (g_consumed g)) /\
              (forall ip r, ev0 = EvSegment ip r -> beyond_untouched s0 s)).
    { intros g0 s0 Hg out0 He ev0 Hn1 Hn2. split; [exact Hg|]. split; [intros p Hp; congruence|].
      split; [intros n E; exfalso; exact (Hn1 n E) | intros ip r E; exfalso; exact (Hn2 ip r E)]. }
    destruct ev; cbn [tcp_step] in H.
    - (* listen *)
      destruct (tcp_listen s ep) as [s1|e|] eqn:Hl; [| |discriminate]; inversion H; subst; clear H;
        cbn [ghost_step]; (apply Hsame; [|reflexivity|discriminate|discriminate]); [|exact Hinv].
      destruct (listen_unsynced s ep s' Hwf Hcap Hl) as [(-> & Hst) | Hu].
      + unfold ginv, g_unsync in *. cbn [g_irs g_consumed g_delivered].
        destruct (g_irs g).
        * destruct Hinv as ((_ & _ & _ & _ & Hso) & _). unfold st_ok in Hso. rewrite Hst in Hso. contradiction.
        * destruct Hinv as (Hu & _). split; [exact Hu|]. split; reflexivity.
      + unfold ginv, g_unsync. cbn [g_irs g_consumed g_delivered]. split; [exact Hu|]. split; reflexivity.
    - (* connect *)
      destruct (tcp_connect cx s remote_addr remote_port local) as [s1|e|] eqn:Hc; [| |discriminate];
        inversion H; subst; clear H; cbn [ghost_step];
        (apply Hsame; [|reflexivity|discriminate|discriminate]); [|exact Hinv].
      pose proof (connect_unsynced _ _ _ _ _ _ Hwf Hcap Hc) as Hu.
      unfold ginv, g_unsync. cbn [g_irs g_consumed g_delivered]. split; [exact Hu|]. split; reflexivity.
    - (* close *)
      inversion H; subst; clear H. cbn [ghost_step].
      apply Hsame; [|reflexivity|discriminate|discriminate].
      eapply (step_view S F); [exact Hinv | apply close_view|]. right. right. apply close_state.
    - (* abort *)
      inversion H; subst; clear H. cbn [ghost_step].
      apply Hsame; [|reflexivity|discriminate|discriminate].
      destruct (abort_view s) as (Hv & Hst).
      eapply (step_view S F); [exact Hinv | exact Hv|]. right. left. exact Hst.
    - (* send *)
      destruct (tcp_send_slice s data) as [(s1, n)|e|] eqn:Hs; [| |discriminate]; inversion H; subst; clear H;
        cbn [ghost_step]; (apply Hsame; [|reflexivity|discriminate|discriminate]); [|exact Hinv].
      destruct (send_slice_frame _ _ _ _ Hs) as (Hv & Hst).
      eapply (step_view S F); [exact Hinv | exact Hv|]. left. exact Hst.
    - (* recv *)
      destruct (step_recv S F g s n s' out tags cx Hinv Hev) as (H1 & H2 & H3); [cbn [tcp_step]; exact H|].
      split; [exact H1|]. split; [intros p Hp; congruence|]. split.
      + intros n0 _ Ho. exact (H3 Ho).
      + intros ip r E. discriminate.
    - (* peek *)
      destruct (tcp_peek s n) as [l|e|]; [| |discriminate]; inversion H; subst; clear H; cbn [ghost_step];
        (apply Hsame; [exact Hinv|reflexivity|discriminate|discriminate]).
    - (* peek_slice *)
      destruct (tcp_peek_slice s n) as [l|e|]; [| |discriminate]; inversion H; subst; clear H; cbn [ghost_step];
        (apply Hsame; [exact Hinv|reflexivity|discriminate|discriminate]).
    - (* set_timeout *)
      inversion H; subst; clear H. cbn [ghost_step].
      apply Hsame; [|reflexivity|discriminate|discriminate].
      eapply (step_view S F); [exact Hinv| |left]; unfold tcp_set_timeout, rxv_eq; rproj; repeat split; reflexivity.
    - (* set_keep_alive *)
      inversion H; subst; clear H. cbn [ghost_step].
      apply Hsame; [|reflexivity|discriminate|discriminate].
      destruct (set_keep_alive_frame s d) as (Hv & Hst).
      eapply (step_view S F); [exact Hinv | exact Hv | left; exact Hst].
    - (* set_ack_delay *)
      inversion H; subst; clear H. cbn [ghost_step].
      apply Hsame; [|reflexivity|discriminate|discriminate].
      eapply (step_view S F); [exact Hinv| |left]; unfold tcp_set_ack_delay, rxv_eq; rproj; repeat split; reflexivity.
    - (* set_nagle *)
      inversion H; subst; clear H. cbn [ghost_step].
      apply Hsame; [|reflexivity|discriminate|discriminate].
      eapply (step_view S F); [exact Hinv| |left]; unfold tcp_set_nagle_enabled, rxv_eq; rproj; repeat split; reflexivity.
    - (* set_hop_limit *)
      apply obind_ok_inv in H. destruct H as (s1 & Hh & H). inversion H; subst; clear H. cbn [ghost_step].
      apply Hsame; [|reflexivity|discriminate|discriminate].
      destruct (set_hop_limit_frame _ _ _ Hh) as (Hv & Hst).
      eapply (step_view S F); [exact Hinv | exact Hv | left; exact Hst].
    - (* segment *)
      apply obind_ok_inv in H. destruct H as (((s1 & rep) & tg) & Hi & H). inversion H; subst; clear H.
      destruct (step_segment S F F_nonneg cx g s ip r s' rep tags Hinv Hev Hi) as (H1 & H2 & H3).
      split; [exact H1|]. split.
      + intros p Hp. apply H2. destruct rep; inversion Hp; reflexivity.
      + split; [intros n E; discriminate | intros ip0 r0 _; exact H3].
    - (* dispatch *)
      apply obind_ok_inv in H. destruct H as (((s1 & res) & tg) & Hd & H). inversion H; subst; clear H.
      destruct (step_dispatch S F cx g s emit_ok s' res tags Hinv Hd) as (H1 & H2).
      split; [exact H1|]. split; [exact H2|].
      split; [intros n E; discriminate | intros ip r E; discriminate].
  Qed.

  (* ------------------------------------------------------------------------------------ *)
  (* every finite sequence of events                                                       *)
  (* ------------------------------------------------------------------------------------ *)

  Lemma new_unsynced rxs txs cc ts s : tcp_new rxs txs cc ts = Ok s -> ginv g_init s.
  Proof.
    unfold tcp_new. intros H.
    destruct (Z.gtb_spec (rb_cap (rb_new rxs)) (2 ^ 30)); [discriminate|]. inversion H; subst; clear H.
    unfold ginv, g_init. cbn [g_irs g_consumed g_delivered]. split; [|split; reflexivity].
    unfold rx_unsynced, misc_ok, lwb. rproj. cbn [s_rx_buffer s_assembler s_rx_fin_received s_state
      s_remote_last_win s_remote_win_shift].
    split; [apply rb_new_wf|]. split; [rewrite <- p30_val; assumption|].
    split; [reflexivity|]. split; [reflexivity|]. split; [reflexivity|].
    split; [|exact I]. split; [lia|]. split; [apply win_shift_nonneg|].
    pose proof (l_len_nonneg rxs). unfold shl, rb_new. cbn [rb_cap]. lia.
  Qed.

  (* reachable (socket, ghost) pairs: a fresh socket, then any admissible event with any context *)
  Inductive rx_reach : socket -> ghost -> Prop :=
  | reach_new rxs txs cc ts s : tcp_new rxs txs cc ts = Ok s -> rx_reach s g_init
  | reach_step s g cx ev s' out tags :
      rx_reach s g -> ev_ok g s ev -> tcp_step cx s ev = Ok (s', out, tags) ->
      rx_reach s' (ghost_step cx g s ev s' out).

  (* I1-I6 hold in every reachable state *)
  Theorem rx_invariant_preserved s g : rx_reach s g -> ginv g s.
  Proof.
    induction 1 as [rxs txs cc ts s Hn | s g cx ev s' out tags Hr IH Hev Hs].
    - eapply new_unsynced. exact Hn.
    - exact (proj1 (step_inv cx g s ev s' out tags IH Hev Hs)).
  Qed.

  (* the same over explicit event lists: run the model, updating the ghost; [None] = an event
     was not admissible or the model returned Err/Panic *)
  Fixpoint run_events (s : socket) (g : ghost) (evs : list (ctx * event)) (ok : ghost -> socket -> event -> Prop)
    : socket * ghost :=
    match evs with
    | [] => (s, g)
    | (cx, ev) :: rest =>
        match tcp_step cx s ev with
        | Ok (s', out, _) => run_events s' (ghost_step cx g s ev s' out) rest ok
        | _ => (s, g)
        end
    end.

  Fixpoint admissible (s : socket) (g : ghost) (evs : list (ctx * event)) : Prop :=
    match evs with
    | [] => True
    | (cx, ev) :: rest =>
        ev_ok g s ev /\
        match tcp_step cx s ev with
        | Ok (s', out, _) => admissible s' (ghost_step cx g s ev s' out) rest
        | _ => True
        end
    end.

  Theorem rx_invariant_all_sequences rxs txs cc ts s0 evs :
    tcp_new rxs txs cc ts = Ok s0 -> admissible s0 g_init evs ->
    let '(s, g) := run_events s0 g_init evs ev_ok in ginv g s.
  Proof.
    intros Hn. pose proof (new_unsynced _ _ _ _ _ Hn) as H0. clear Hn.
    revert s0 H0. generalize g_init. induction evs as [|(cx, ev) rest IH]; intros g s Hg Ha; cbn [run_events].
    - exact Hg.
    - destruct Ha as (Hev & Ha). destruct (tcp_step cx s ev) as [((s', out), tags)|e|] eqn:Hs; try exact Hg.
      apply IH; [|exact Ha]. exact (proj1 (step_inv cx g s ev s' out tags Hg Hev Hs)).
  Qed.

  (* --- the C04 statements about any step from any reachable state --- *)

  (* everything recv ever returned, concatenated, is the peer's stream from offset 0: each octet
     once, in order ([g_delivered] is extended by exactly the octets of every successful recv, see
     [ghost_step]; [g_consumed] is their number) *)
  Theorem rx_delivered_prefix s g :
    rx_reach s g -> g_irs g <> None ->
    l_len (g_delivered g) = g_consumed g /\
    forall j, 0 <= j < g_consumed g -> znth (g_delivered g) j = S (g_epoch g) j.
  Proof.
    intros Hr Hne. pose proof (rx_invariant_preserved _ _ Hr) as Hinv. unfold TcpRecvTrace.ginv in Hinv.
    destruct (g_irs g); [|congruence]. exact (proj2 Hinv).
  Qed.

  (* and each recv hands out the next octets of the stream *)
  Theorem rx_recv_next s g cx n s' b tags :
    rx_reach s g -> 0 <= n -> tcp_step cx s (EvRecv n) = Ok (s', OBytes b, tags) ->
    forall j, 0 <= j < l_len b -> znth b j = S (g_epoch g) (g_consumed g + j).
  Proof.
    intros Hr Hn Hs j Hj. pose proof (rx_invariant_preserved _ _ Hr) as Hinv.
    cbn [tcp_step] in Hs. destruct (tcp_recv_slice s n) as [(s1, b1)|e|] eqn:Hrs; inversion Hs; subst; clear Hs.
    unfold TcpRecvTrace.ginv in Hinv. destruct (g_irs g) as [irs|].
    - destruct Hinv as (Hsy & _).
      destruct (recv_slice_synced _ _ _ _ _ _ _ _ _ Hsy Hn Hrs) as (Hb & _). apply Hb. exact Hj.
    - destruct Hinv as (Hu & _). rewrite (recv_unsynced s n Hu) in Hrs. discriminate.
  Qed.

  (* a segment never writes a storage cell of the ring at or beyond the right edge advertised
     last (cells addressed through the read pointer before the segment; the only other thing a
     segment can do to the ring is to clear it: RST in SYN-RECEIVED of a listener) *)
  Theorem rx_never_beyond_advertised s g cx ip r s' out tags :
    rx_reach s g -> ev_ok g s (EvSegment ip r) -> tcp_step cx s (EvSegment ip r) = Ok (s', out, tags) ->
    forall i, rb_len (s_rx_buffer s) + adv_width s <= i < rb_cap (s_rx_buffer s) ->
              znth (rb_store (s_rx_buffer s')) (rb_get_idx (s_rx_buffer s) i) = rb_cell (s_rx_buffer s) i.
  Proof.
    intros Hr Hev Hs. pose proof (rx_invariant_preserved _ _ Hr) as Hinv.
    destruct (step_inv cx g s _ s' out tags Hinv Hev Hs) as (_ & _ & _ & Hb).
    exact (Hb ip r eq_refl).
  Qed.

  (* every ACK number sent is irs + 1 + (number of octets received contiguously from offset 0),
     plus one exactly when the FIN has been received after all of them; every acknowledged octet
     arrived in some segment *)
  Theorem ack_never_ahead s g cx ev s' out tags p :
    rx_reach s g -> ev_ok g s ev -> tcp_step cx s ev = Ok (s', out, tags) -> emitted out = Some p ->
    ack_ok (ghost_step cx g s ev s' out) s' p.
  Proof.
    intros Hr Hev Hs Hp. pose proof (rx_invariant_preserved _ _ Hr) as Hinv.
    destruct (step_inv cx g s ev s' out tags Hinv Hev Hs) as (_ & Ha & _). exact (Ha p Hp).
  Qed.

  (* recv reports Finished only when every octet before the peer's FIN has been delivered *)
  Theorem finished_only_when_complete s g cx n s' tags :
    rx_reach s g -> 0 <= n -> tcp_step cx s (EvRecv n) = Ok (s', OErr 2, tags) ->
    F (g_epoch g) = Some (g_consumed g) /\ l_len (g_delivered g) = g_consumed g /\
    forall j, 0 <= j < g_consumed g -> znth (g_delivered g) j = S (g_epoch g) j.
  Proof.
    intros Hr Hn Hs. pose proof (rx_invariant_preserved _ _ Hr) as Hinv.
    destruct (step_inv cx g s (EvRecv n) s' _ tags Hinv Hn Hs) as (_ & _ & Hf & _).
    destruct (Hf n eq_refl eq_refl) as (irs & Hi & HF). split; [exact HF|].
    apply (rx_delivered_prefix s g Hr). congruence.
  Qed.

  (* the receive path does not panic on a segment the socket accepts (process is only called on
     those): the window phase, the payload phase (whatever the phases in between did to the rest of
     the socket), recv and last_scaled_window *)
  Theorem process_rx_no_panic s g cx ip r :
    rx_reach s g -> ev_ok g s (EvSegment ip r) -> tcp_accepts s ip r = true ->
    tcp_process_window cx s ip r <> Panic /\
    (forall n, tcp_recv_slice s n <> Panic) /\
    tcp_last_scaled_window s <> Panic /\
    (forall t2 s2 payload off s7,
       tcp_process_window cx s ip r = Ok (Cont t2 (s2, payload, off)) ->
       s_rx_buffer s7 = s_rx_buffer s -> s_assembler s7 = s_assembler s ->
       tcp_process_payload cx s7 ip r payload off <> Panic).
  Proof.
    intros Hr (Hsq & Hseg) Hacc. pose proof (rx_invariant_preserved _ _ Hr) as Hinv.
    assert (Hrecv : forall n, tcp_recv_slice s n <> Panic).
    { intros n. unfold tcp_recv_slice. destruct (tcp_recv_error_check s) as [[]|e|] eqn:E; cbn [obind]; try discriminate.
      all: try (destruct (rb_dequeue_slice (s_rx_buffer s) n); cbv beta iota; discriminate).
      exfalso. unfold tcp_recv_error_check in E.
      destruct (negb (tcp_may_recv s)); [destruct (s_rx_fin_received s)|]; discriminate. }
    assert (Hlsw : tcp_last_scaled_window s <> Panic).
    { unfold tcp_last_scaled_window. destruct (s_remote_last_ack s) as [a|]; [|discriminate].
      cbv zeta. destruct (seq_lt _ _) eqn:E; [discriminate|].
      unfold seq_sub. unfold seq_lt in E. rewrite E. cbn [obind]. discriminate. }
    unfold TcpRecvTrace.ginv in Hinv. destruct (g_irs g) as [irs|] eqn:Eg.
    - destruct Hinv as (Hs & _).
      pose proof (synced_window_start _ _ _ _ _ _ Hs) as Hws.
      destruct (synced_window_end _ _ _ _ _ _ Hs) as (W & Hwe & HW & _).
      pose proof Hs as (Hb & _ & _ & _ & Hsto).
      pose proof Hb as (Hwf & Hcap & _). pose proof Hwf as (Hl0 & _).
      destruct Hseg as (Hn & _ & Hnear).
      set (d := seg_d s r) in *. set (n := l_len (r_payload r)) in *.
      pose proof (l_len_nonneg (r_payload r)) as Hn0. fold n in Hn0.
      assert (Hd : -2147483648 <= d < 2147483648) by apply seq_sdiff_range.
      assert (Hseq : r_seq_number r = seq_norm (irs + 1 + wsq (g_consumed g) s + d)).
      { rewrite (seq_norm_of_sdiff (r_seq_number r) (tcp_window_start s) Hsq). fold (seg_d s r). fold d.
        rewrite Hws. change (seq_norm (seq_norm (irs + 1 + wsq (g_consumed g) s) + d))
          with (seq_add (seq_norm (irs + 1 + wsq (g_consumed g) s)) d). apply seq_add_norm. }
      assert (HWp : 0 <= W <= p30) by (unfold rb_window in HW; lia).
      assert (Hst_ok : match s_state s with Listen | SynSent => False | _ => True end).
      { unfold st_ok in Hsto. destruct (s_state s); tauto. }
      pose proof (process_window_spec cx s ip r _ W d Hws Hwe Hseq HWp
                    ltac:(unfold p30; fold n; lia) Hd Hst_ok) as Hspec. cbv zeta in Hspec.
      split; [intros E; rewrite E in Hspec; exact Hspec|]. split; [exact Hrecv|]. split; [exact Hlsw|].
      intros t2 s2 payload off s7 Hw Hrx7 Hasm7. rewrite Hw in Hspec.
      destruct Hspec as (Hinw & _ & Hoff & Hpayload). fold n in Hinw, Hpayload.
      pose proof (in_window_Z_near W d n ltac:(lia) Hn0 Hinw) as (Hnear1 & Hnear2 & Hnear3).
      assert (Hnr : seg_near s r).
      { unfold seg_near. fold d. unfold in_window_Z in Hinw. unfold p30 in *. lia. }
      destruct (Hnear Hnr) as (Hbytes & HFseg & _). unfold seg_q in *. fold d in Hbytes, HFseg.
      assert (Hpl : l_len payload = trim_len W d n).
      { rewrite Hpayload. unfold trim_lo, trim_len. apply l_slice_len; fold n; lia. }
      destruct Hs as (_ & (_ & Hfin) & _).
      assert (Hnofin : 0 < l_len payload -> s_rx_fin_received s = false).
      { intros Hpos. destruct (s_rx_fin_received s) eqn:Efin; [|reflexivity]. exfalso.
        pose proof (Hfin eq_refl) as HF1.
        assert (0 < n) by (unfold trim_len in Hpl; lia).
        specialize (HFseg ltac:(lia) ltac:(unfold trim_len in Hpl; lia) _ HF1). unfold wsq, finz in HFseg. rewrite Efin in HFseg. cbn [b2z] in HFseg.
        unfold trim_len in Hpl. lia. }
      pose proof (payload_synced (S (g_epoch g)) (F (g_epoch g)) (g_have g)
                    (have_seg (g_have g) (g_consumed g) s r) (g_consumed g) s7 cx ip r payload off
                    (tcp_process_payload cx s7 ip r payload off) W) as Hps.
      rewrite Hrx7, Hasm7 in Hps.
      destruct Hps as (s8 & rep & tg & E & _); try reflexivity; try assumption.
      + intros k Hk. left. exact Hk.
      + subst off. unfold trim_off. lia.
      + subst off. rewrite Hpl. unfold trim_off, trim_len. lia.
      + lia.
      + intros j Hj. pose proof (Hnofin ltac:(lia)) as Efin.
        assert (Hwsq : wsq (g_consumed g) s = g_consumed g + rb_len (s_rx_buffer s))
          by (unfold wsq, finz; rewrite Efin; cbn [b2z]; lia).
        rewrite Hpayload. rewrite Hpl in Hj. unfold trim_lo, trim_len, trim_off in *.
        rewrite l_slice_znth by lia. rewrite Hbytes by lia. subst off. split.
        * f_equal. lia.
        * right. split; [exact Hnr|]. unfold seg_q. fold d. fold n. lia.
      + intros Hpos f Hf. pose proof (Hnofin Hpos) as Efin.
        assert (Hwsq : wsq (g_consumed g) s = g_consumed g + rb_len (s_rx_buffer s))
          by (unfold wsq, finz; rewrite Efin; cbn [b2z]; lia).
        assert (0 < n) by (unfold trim_len in Hpl; lia).
        specialize (HFseg ltac:(lia) ltac:(unfold trim_len in Hpl; lia) f Hf). subst off. rewrite Hpl. unfold trim_off, trim_len. lia.
      + rewrite E. discriminate.
    - destruct Hinv as (Hu & _). pose proof Hu as (_ & _ & _ & _ & _ & _ & Hst).
      destruct (s_state s) eqn:Est; try contradiction.
      + exfalso. exact (accepts_not_closed _ _ _ Hacc Est).
      + split; [rewrite (window_unsynced cx s ip r (or_introl Est)); discriminate|].
        split; [exact Hrecv|]. split; [exact Hlsw|].
        intros t2 s2 payload off s7 Hw _ _. rewrite (window_unsynced cx s ip r (or_introl Est)) in Hw.
        inversion Hw; subst. rewrite payload_nil. discriminate.
      + split; [rewrite (window_unsynced cx s ip r (or_intror Est)); discriminate|].
        split; [exact Hrecv|]. split; [exact Hlsw|].
        intros t2 s2 payload off s7 Hw _ _. rewrite (window_unsynced cx s ip r (or_intror Est)) in Hw.
        inversion Hw; subst. rewrite payload_nil. discriminate.
  Qed.

  (* ------------------------------------------------------------------------------------ *)
  (* facts used by the C01 composition (not part of the pinned statements)                  *)
  (* ------------------------------------------------------------------------------------ *)

  Lemma ginv_have g s :
    ginv g s -> g_irs g <> None -> forall k, 0 <= k < rcv_count g s -> g_have g k.
  Proof.
    unfold TcpRecvTrace.ginv, rcv_count. destruct (g_irs g); [|congruence].
    intros (((_ & _ & _ & _ & _ & _ & _ & Hh & _) & _) & _) _. exact Hh.
  Qed.

  (* a new epoch starts only by a SYN, and irs is that SYN's sequence number *)
  Lemma sync_only_by_syn cx g s ip r s' out tags :
    ginv g s -> ev_ok g s (EvSegment ip r) -> tcp_step cx s (EvSegment ip r) = Ok (s', out, tags) ->
    g_irs g = None -> g_irs (ghost_step cx g s (EvSegment ip r) s' out) <> None ->
    r_control r = CSyn /\ g_irs (ghost_step cx g s (EvSegment ip r) s' out) = Some (r_seq_number r) /\
    g_consumed (ghost_step cx g s (EvSegment ip r) s' out) = 0.
  Proof.
    intros Hinv (Hsq & _) Hs Hg Hne. cbn [ghost_step] in *. rewrite Hg in *.
    destruct (is_state s' SynReceived || is_state s' Established) eqn:Et; [|congruence].
    cbn [g_irs g_consumed]. split; [|split; reflexivity].
    cbn [tcp_step] in Hs. apply obind_ok_inv in Hs. destruct Hs as (((s1 & rep) & tg) & Hi & Hs).
    inversion Hs; subst; clear Hs.
    unfold TcpRecvTrace.ginv in Hinv. rewrite Hg in Hinv. destruct Hinv as (Hu & _).
    assert (Hcontra : match s_state s' with SynReceived | Established => False | _ => True end -> False).
    { intros Hm. unfold is_state in Et. destruct (s_state s'); try contradiction; discriminate. }
    destruct (ingress_cases cx s ip r s' rep tags Hi) as [(-> & _) | Hp].
    - exfalso. apply Hcontra. destruct Hu as (_ & _ & _ & _ & _ & _ & Hst).
      destruct (s_state s); try contradiction; exact I.
    - destruct (process_unsynced (S 0%nat) (F 0%nat) (F_nonneg _) s cx ip r s' rep tags Hu Hsq Hp)
        as (_ & _ & _ & [(_ & Hst) | (Hc & _)]); [exfalso; exact (Hcontra Hst) | exact Hc].
  Qed.

  Lemma l_len_zero_nil (l : list Z) : l_len l = 0 -> l = [].
  Proof. rewrite l_len_spec. destruct l; [reflexivity|]. cbn [length]. lia. Qed.

  (* a segment un-synchronises the socket (RST in SYN-RECEIVED of a listener) only before anything
     was delivered *)
  Lemma segment_unsync_empty cx g s ip r s' out tags :
    ginv g s -> ev_ok g s (EvSegment ip r) -> tcp_step cx s (EvSegment ip r) = Ok (s', out, tags) ->
    g_irs g <> None -> g_irs (ghost_step cx g s (EvSegment ip r) s' out) = None ->
    g_consumed g = 0 /\ g_delivered g = [].
  Proof.
    intros Hinv (Hsq & Hseg) Hs Hg Hn. cbn [ghost_step] in Hn.
    unfold TcpRecvTrace.ginv in Hinv. destruct (g_irs g) as [irs|] eqn:Eg; [|congruence].
    destruct Hinv as (Hsy & (Hdl & _)).
    destruct (is_state s' Listen) eqn:El; [|cbn [g_irs] in Hn; discriminate].
    apply is_state_true in El.
    cbn [tcp_step] in Hs. apply obind_ok_inv in Hs. destruct Hs as (((s1 & rep) & tg) & Hi & Hs).
    inversion Hs; subst; clear Hs.
    assert (Hc0 : g_consumed g = 0).
    { destruct (ingress_cases cx s ip r s' rep tags Hi) as [(-> & _) | Hp].
      - exfalso. destruct Hsy as (_ & _ & _ & _ & Hst). unfold st_ok in Hst. rewrite El in Hst. exact Hst.
      - destruct (process_synced _ _ _ _ _ _ _ _ _ _ _ _ Hsy Hseg Hp) as (_ & [Hs' | (_ & _ & _ & Hc & _)] & _).
        + exfalso. destruct Hs' as (_ & _ & _ & _ & Hst). unfold st_ok in Hst. rewrite El in Hst. exact Hst.
        + exact Hc. }
    split; [exact Hc0|]. apply l_len_zero_nil. rewrite Hdl. exact Hc0.
  Qed.

  (* rx_fin_received becomes true only by a segment carrying FIN *)
  Lemma fin_only_from_fin cx g s ev s' out tags :
    ginv g s -> ev_ok g s ev -> tcp_step cx s ev = Ok (s', out, tags) ->
    s_rx_fin_received s' = true ->
    s_rx_fin_received s = true \/ exists ip r, ev = EvSegment ip r /\ r_control r = CFin.
  Proof.
    intros Hinv Hev H Hf. destruct (ginv_wf S F _ _ Hinv) as (Hwf & Hcap & Hsh).
    assert (Hun : forall s0, rx_unsynced s0 -> s_rx_fin_received s0 = true -> False).
    { intros s0 (_ & _ & _ & _ & E & _) E'. congruence. }
    assert (Hv : forall s0, rxv_eq s0 s -> s_rx_fin_received s0 = true -> s_rx_fin_received s = true).
    { intros s0 (_ & _ & E & _) E'. congruence. }
    destruct ev; cbn [tcp_step] in H.
    - destruct (tcp_listen s ep) as [s1|e|] eqn:Hl; [| |discriminate]; inversion H; subst; clear H;
        [|left; exact Hf].
      destruct (listen_unsynced s ep s' Hwf Hcap Hl) as [(-> & _) | Hu]; [left; exact Hf|].
      exfalso. exact (Hun _ Hu Hf).
    - destruct (tcp_connect cx s remote_addr remote_port local) as [s1|e|] eqn:Hc; [| |discriminate];
        inversion H; subst; clear H; [|left; exact Hf].
      exfalso. exact (Hun _ (connect_unsynced _ _ _ _ _ _ Hwf Hcap Hc) Hf).
    - inversion H; subst. left. exact (Hv _ (close_view s) Hf).
    - inversion H; subst. left. exact (Hv _ (proj1 (abort_view s)) Hf).
    - destruct (tcp_send_slice s data) as [(s1, n)|e|] eqn:Hs; [| |discriminate]; inversion H; subst; clear H;
        [|left; exact Hf].
      left. exact (Hv _ (proj1 (send_slice_frame _ _ _ _ Hs)) Hf).
    - destruct (tcp_recv_slice s n) as [(s1, b)|e|] eqn:Hr; [| |discriminate]; inversion H; subst; clear H;
        [|left; exact Hf].
      left. unfold tcp_recv_slice in Hr. destruct (tcp_recv_error_check s) as [[]|e|]; cbn [obind] in Hr; try discriminate.
      destruct (rb_dequeue_slice (s_rx_buffer s) n) as (rx', b'). inversion Hr; subst. rproj. exact Hf.
    - destruct (tcp_peek s n) as [l|e|]; [| |discriminate]; inversion H; subst; left; exact Hf.
    - destruct (tcp_peek_slice s n) as [l|e|]; [| |discriminate]; inversion H; subst; left; exact Hf.
    - inversion H; subst. left. unfold tcp_set_timeout in Hf. rproj. exact Hf.
    - inversion H; subst. left. exact (Hv _ (proj1 (set_keep_alive_frame s d)) Hf).
    - inversion H; subst. left. unfold tcp_set_ack_delay in Hf. rproj. exact Hf.
    - inversion H; subst. left. unfold tcp_set_nagle_enabled in Hf. rproj. exact Hf.
    - apply obind_ok_inv in H. destruct H as (s1 & Hh & H). inversion H; subst; clear H.
      left. exact (Hv _ (proj1 (set_hop_limit_frame _ _ _ Hh)) Hf).
    - apply obind_ok_inv in H. destruct H as (((s1 & rep) & tg) & Hi & H). inversion H; subst; clear H.
      destruct Hev as (Hsq & Hseg).
      destruct (ingress_cases cx s ip r s' rep tags Hi) as [(-> & _) | Hp]; [left; exact Hf|].
      unfold TcpRecvTrace.ginv in Hinv. destruct (g_irs g) as [irs|].
      + destruct Hinv as (Hsy & _).
        destruct (process_synced _ _ _ _ _ _ _ _ _ _ _ _ Hsy Hseg Hp) as (_ & _ & _ & Hfin & _).
        destruct (Hfin Hf) as [Hl | Hr]; [left; exact Hl | right; exists ip, r; split; [reflexivity | exact Hr]].
      + destruct Hinv as (Hu & _).
        destruct (process_unsynced (S 0%nat) (F 0%nat) (F_nonneg _) s cx ip r s' rep tags Hu Hsq Hp)
          as (_ & _ & Hff & _). congruence.
    - apply obind_ok_inv in H. destruct H as (((s1 & res) & tg) & Hd & H). inversion H; subst; clear H.
      destruct (dispatch_spec cx s emit_ok s' res tags Hwf Hsh Hd)
        as [(_ & -> & _) | (_ & (_ & _ & E & _) & _)].
      + exfalso. exact (Hun _ (reset_unsynced s Hwf Hcap) Hf).
      + left. congruence.
  Qed.
  (* the pre-state of an un-synchronising segment: nothing received yet *)
  Lemma segment_unsync_pre cx g s ip r s' out tags :
    ginv g s -> ev_ok g s (EvSegment ip r) -> tcp_step cx s (EvSegment ip r) = Ok (s', out, tags) ->
    g_irs g <> None -> g_irs (ghost_step cx g s (EvSegment ip r) s' out) = None ->
    rcv_count g s = 0 /\ s_rx_fin_received s = false.
  Proof.
    intros Hinv (Hsq & Hseg) Hs Hg Hn. cbn [ghost_step] in Hn.
    unfold TcpRecvTrace.ginv in Hinv. destruct (g_irs g) as [irs|] eqn:Eg; [|congruence].
    destruct Hinv as (Hsy & _).
    destruct (is_state s' Listen) eqn:El; [|cbn [g_irs] in Hn; discriminate].
    apply is_state_true in El.
    cbn [tcp_step] in Hs. apply obind_ok_inv in Hs. destruct Hs as (((s1 & rep) & tg) & Hi & Hs).
    inversion Hs; subst; clear Hs.
    destruct (ingress_cases cx s ip r s' rep tags Hi) as [(-> & _) | Hp].
    - exfalso. destruct Hsy as (_ & _ & _ & _ & Hst). unfold st_ok in Hst. rewrite El in Hst. exact Hst.
    - destruct (process_synced _ _ _ _ _ _ _ _ _ _ _ _ Hsy Hseg Hp) as (_ & [Hs' | (_ & _ & _ & Hc & Hl & Hf)] & _).
      + exfalso. destruct Hs' as (_ & _ & _ & _ & Hst). unfold st_ok in Hst. rewrite El in Hst. exact Hst.
      + unfold rcv_count. split; [lia | exact Hf].
  Qed.

  (* RCV.NXT (as a sequence offset) never decreases while the connection stays synchronised *)
  Lemma rcv_nxt_mono cx g s ev s' out tags :
    ginv g s -> ev_ok g s ev -> tcp_step cx s ev = Ok (s', out, tags) ->
    g_irs g <> None -> g_irs (ghost_step cx g s ev s' out) <> None ->
    rcv_count g s + b2z (s_rx_fin_received s)
    <= rcv_count (ghost_step cx g s ev s' out) s' + b2z (s_rx_fin_received s').
  Proof.
    intros Hinv Hev H Hg Hg'. destruct (ginv_wf S F _ _ Hinv) as (Hwf & Hcap & Hsh).
    unfold rcv_count.
    assert (Hv : forall s0, rxv_eq s0 s ->
              g_consumed g + rb_len (s_rx_buffer s) + b2z (s_rx_fin_received s)
              <= g_consumed g + rb_len (s_rx_buffer s0) + b2z (s_rx_fin_received s0)).
    { intros s0 (_ & E2 & E3 & _). rewrite E2, E3. lia. }
    destruct ev; cbn [tcp_step] in H.
    - destruct (tcp_listen s ep) as [s1|e|] eqn:Hl; [| |discriminate]; inversion H; subst; clear H;
        cbn [ghost_step] in *; [exfalso; apply Hg'; reflexivity | lia].
    - destruct (tcp_connect cx s remote_addr remote_port local) as [s1|e|] eqn:Hc; [| |discriminate];
        inversion H; subst; clear H; cbn [ghost_step] in *; [exfalso; apply Hg'; reflexivity | lia].
    - inversion H; subst. cbn [ghost_step]. exact (Hv _ (close_view s)).
    - inversion H; subst. cbn [ghost_step]. exact (Hv _ (proj1 (abort_view s))).
    - destruct (tcp_send_slice s data) as [(s1, n)|e|] eqn:Hs; [| |discriminate]; inversion H; subst; clear H;
        cbn [ghost_step]; [|lia]. exact (Hv _ (proj1 (send_slice_frame _ _ _ _ Hs))).
    - destruct (tcp_recv_slice s n) as [(s1, b)|e|] eqn:Hr; [| |discriminate]; inversion H; subst; clear H;
        cbn [ghost_step g_consumed]; [|lia].
      unfold TcpRecvTrace.ginv in Hinv. destruct (g_irs g) as [irs|]; [|congruence].
      destruct Hinv as (Hsy & _). pose proof Hsy as (Hb & _).
      unfold tcp_recv_slice in Hr. destruct (tcp_recv_error_check s) as [[]|e|]; cbn [obind] in Hr; try discriminate.
      destruct (rb_dequeue_slice (s_rx_buffer s) n) as (rx', b') eqn:Hd. inversion Hr; subst. rproj.
      destruct (dequeue_buf_inv _ _ _ _ _ _ n rx' b Hb Hev Hd) as (_ & _ & Hl' & _). cbv zeta in Hl'. lia.
    - destruct (tcp_peek s n) as [l|e|]; [| |discriminate]; inversion H; subst; cbn [ghost_step]; lia.
    - destruct (tcp_peek_slice s n) as [l|e|]; [| |discriminate]; inversion H; subst; cbn [ghost_step]; lia.
    - inversion H; subst. cbn [ghost_step]. unfold tcp_set_timeout. rproj. lia.
    - inversion H; subst. cbn [ghost_step]. exact (Hv _ (proj1 (set_keep_alive_frame s d))).
    - inversion H; subst. cbn [ghost_step]. unfold tcp_set_ack_delay. rproj. lia.
    - inversion H; subst. cbn [ghost_step]. unfold tcp_set_nagle_enabled. rproj. lia.
    - apply obind_ok_inv in H. destruct H as (s1 & Hh & H). inversion H; subst; clear H.
      cbn [ghost_step]. exact (Hv _ (proj1 (set_hop_limit_frame _ _ _ Hh))).
    - apply obind_ok_inv in H. destruct H as (((s1 & rep) & tg) & Hi & H). inversion H; subst; clear H.
      destruct Hev as (Hsq & Hseg). cbn [ghost_step] in *.
      unfold TcpRecvTrace.ginv in Hinv. destruct (g_irs g) as [irs|] eqn:Eg; [|congruence].
      destruct Hinv as (Hsy & _).
      destruct (is_state s' Listen) eqn:El; [exfalso; apply Hg'; reflexivity|]. cbn [g_consumed].
      destruct (ingress_cases cx s ip r s' rep tags Hi) as [(-> & _) | Hp]; [lia|].
      destruct (process_synced _ _ _ _ _ _ _ _ _ _ _ _ Hsy Hseg Hp) as (_ & _ & _ & _ & Hm).
      unfold wsq, finz in Hm. exact Hm.
    - apply obind_ok_inv in H. destruct H as (((s1 & res) & tg) & Hd & H). inversion H; subst; clear H.
      cbn [ghost_step] in *.
      destruct (dispatch_spec cx s emit_ok s' res tags Hwf Hsh Hd)
        as [(Hr & _) | (Hr & (_ & E2 & E3 & _) & _)]; rewrite Hr in *.
      + exfalso. apply Hg'. reflexivity.
      + rewrite E2, E3. lia.
  Qed.
End Theorems.
