(* Lemmas about Model/WireEth.v (properties C06, C07). *)
From SV Require Import Lib.Base Gen.WireFields Model.WireBase Model.WireEth Proofs.WireBaseProofs.

(* the octets emit produces *)
Definition eth_bytes (r : eth_repr) : list Z := eth_dst r ++ eth_src r ++ be_enc2 (eth_type r).

Lemma eth_wf_inv r : eth_wf r = true ->
  length (eth_src r) = 6%nat /\ length (eth_dst r) = 6%nat /\ 0 <= eth_type r < 65536 /\
  bytes_ok (eth_src r) = true /\ bytes_ok (eth_dst r) = true.
Proof.
  unfold eth_wf. intros H. bsplit. repeat split; try lia; try assumption; apply blen_length; assumption.
Qed.

Lemma eth_emit_spec r b : eth_wf r = true -> blen b = eth_buffer_len r ->
  eth_emit r b = Ok (eth_bytes r).
Proof.
  intros Hwf Hb. apply eth_wf_inv in Hwf. destruct Hwf as (Hs & Hd & _).
  destruct r as [s d t]; cbn [eth_src eth_dst eth_type] in *.
  apply (blen_length _ 14) in Hb.
  cells Hs. cells Hd. cells Hb. reflexivity.
Qed.

Lemma eth_bytes_len r : eth_wf r = true -> blen (eth_bytes r) = eth_buffer_len r.
Proof.
  intros Hwf. apply eth_wf_inv in Hwf. destruct Hwf as (Hs & Hd & _).
  unfold eth_bytes, blen. rewrite !app_length, Hs, Hd. reflexivity.
Qed.

Lemma eth_emit_no_panic r b : eth_wf r = true -> blen b = eth_buffer_len r -> eth_emit r b <> Panic.
Proof. intros; rewrite eth_emit_spec by assumption; discriminate. Qed.

Lemma eth_emit_ignores_old_bytes r b1 b2 : eth_wf r = true ->
  blen b1 = eth_buffer_len r -> blen b2 = eth_buffer_len r -> eth_emit r b1 = eth_emit r b2.
Proof. intros; rewrite !eth_emit_spec by assumption; reflexivity. Qed.

(* emitting into a longer buffer (frame followed by payload space) leaves the rest untouched *)
Lemma eth_emit_frame r h t : blen h = eth_buffer_len r ->
  eth_emit r (h ++ t) = omap (fun x => x ++ t) (eth_emit r h).
Proof.
  intros Hb. unfold eth_buffer_len in Hb. zfold_in Hb.
  pose proof (blen_nonneg t).
  unfold eth_emit, eth_buffer_len, eth_HEADER_LEN, wb_assert. rewrite blen_app. zfold. zbool. cbn [obind].
  unfold eth_set_src_addr, eth_set_dst_addr, eth_set_ethertype, wb_set_field, wb_put_u16.
  rewrite wb_set_slice_app_l by (zfold; lia). apply obind_omap_tail. intros h1 E1.
  apply wb_set_slice_len in E1.
  rewrite wb_set_slice_app_l by (zfold; lia). apply obind_omap_tail. intros h2 E2.
  apply wb_set_slice_len in E2.
  apply wb_put_be_app_l. zfold; lia.
Qed.

Lemma eth_parse_bytes r p : eth_wf r = true -> eth_parse (eth_bytes r ++ p) = Ok r.
Proof.
  intros Hwf. pose proof (eth_bytes_len r Hwf) as Hl. apply eth_wf_inv in Hwf.
  destruct Hwf as (Hs & Hd & Ht & _).
  destruct r as [s d ty]; cbn [eth_src eth_dst eth_type] in *.
  unfold eth_parse, eth_check_len, eth_src_addr, eth_dst_addr, eth_ethertype, wb_field, wb_get_u16.
  rewrite blen_app, Hl. pose proof (blen_nonneg p). unfold eth_buffer_len. zfold. zbool. cbn [obind].
  rewrite !wb_sub_app_l, wb_get_be_app_l by (rewrite Hl; unfold eth_buffer_len; zfold; lia).
  cells Hs. cells Hd.
  transitivity (Ok (mkEth [c; c0; c1; c2; c3; c4] [c5; c6; c7; c8; c9; c10] (be_dec (be_enc2 ty))));
    [reflexivity|]. rewrite be_dec_enc2 by lia. reflexivity.
Qed.

Lemma eth_roundtrip r b : eth_wf r = true -> blen b = eth_buffer_len r ->
  exists bs, eth_emit r b = Ok bs /\ blen bs = eth_buffer_len r /\
             forall payload, eth_parse (bs ++ payload) = Ok r.
Proof.
  intros Hwf Hb. exists (eth_bytes r). split; [apply eth_emit_spec; assumption|].
  split; [apply eth_bytes_len; assumption|]. intros p; apply eth_parse_bytes; assumption.
Qed.

Lemma eth_parse_wf bs r : bytes_ok bs = true -> eth_parse bs = Ok r -> eth_wf r = true.
Proof.
  intros Hb H. unfold eth_parse in H. obind_inv H. injection H as <-.
  unfold eth_src_addr, eth_dst_addr, eth_ethertype, wb_field, wb_get_u16, wb_get_be, wb_arr in *.
  obind_inv E0. obind_inv E1. obind_inv E2.
  destruct (blen v3 =? 6) eqn:L3; [|discriminate]. injection E0 as <-.
  destruct (blen v4 =? 6) eqn:L4; [|discriminate]. injection E1 as <-.
  pose proof (wb_sub_bytes _ _ _ _ Hb E3). pose proof (wb_sub_bytes _ _ _ _ Hb E4).
  pose proof (wb_sub_bytes _ _ _ _ Hb E5) as Hv5.
  apply wb_sub_inv in E5. destruct E5 as (_ & _ & _ & L5). revert L5 E2. zfold. intros L5 E2.
  apply (blen_length _ 2) in L5. cells L5.
  revert E2. zfold. cbn [firstn]. unfold blen; cbn [length]. zfold. intros E2. injection E2 as <-.
  unfold eth_wf, is_arr; cbn [eth_src eth_dst eth_type]. rewrite L3, L4, H, H0. cbn [andb].
  cbn [bytes_ok forallb] in Hv5. bsplit.
  unfold is_u16. rewrite be_dec2. zbool. reflexivity.
Qed.

Lemma eth_reparse bs r : bytes_ok bs = true -> eth_parse bs = Ok r ->
  eth_wf r = true /\
  forall b, blen b = eth_buffer_len r ->
    exists bs', eth_emit r b = Ok bs' /\ forall payload, eth_parse (bs' ++ payload) = Ok r.
Proof.
  intros Hb H. pose proof (eth_parse_wf _ _ Hb H) as Hwf. split; [assumption|].
  intros b Hl. destruct (eth_roundtrip r b Hwf Hl) as (bs' & He & _ & Hp). eauto.
Qed.

(* ---------- C07 ---------- *)

Lemma eth_check_len_inv bs : eth_check_len bs = Ok tt -> eth_HEADER_LEN <= blen bs.
Proof. unfold eth_check_len. destruct (blen bs <? eth_HEADER_LEN) eqn:E; [discriminate|]. bsplit. lia. Qed.

Lemma eth_accessors_safe bs : eth_check_len bs = Ok tt ->
  eth_dst_addr bs <> Panic /\ eth_src_addr bs <> Panic /\ eth_ethertype bs <> Panic /\
  eth_payload bs <> Panic.
Proof.
  intros H. apply eth_check_len_inv in H. unfold eth_HEADER_LEN in H. revert H. zfold. intros H.
  unfold eth_dst_addr, eth_src_addr, eth_ethertype, eth_payload, wb_field, wb_get_u16, wb_arr.
  repeat split.
  - rewrite wb_sub_ok by (zfold; lia). cbn [obind]. rewrite blen_firstn by (rewrite blen_skipn; zfold; lia).
    zfold. discriminate.
  - rewrite wb_sub_ok by (zfold; lia). cbn [obind]. rewrite blen_firstn by (rewrite blen_skipn; zfold; lia).
    zfold. discriminate.
  - apply wb_get_be_nopanic; zfold; lia.
  - apply wb_from_nopanic; zfold; lia.
Qed.

Lemma eth_parse_total bs : eth_parse bs <> Panic.
Proof.
  unfold eth_parse. destruct (eth_check_len bs) as [[]| |] eqn:E; cbn [obind]; try discriminate.
  - destruct (eth_accessors_safe bs E) as (Hd & Hs & Ht & _).
    destruct (eth_src_addr bs); cbn [obind]; try discriminate; [|congruence].
    destruct (eth_dst_addr bs); cbn [obind]; try discriminate; [|congruence].
    destruct (eth_ethertype bs); cbn [obind]; try discriminate; congruence.
  - unfold eth_check_len in E. destruct (blen bs <? eth_HEADER_LEN); discriminate.
Qed.
