(* Lemmas about the TcpSeqNumber model (Model/Seq32.v). *)
From SV Require Import Lib.Base Model.Seq32.

Lemma seq_modulus_val : seq_modulus = 4294967296.
Proof. reflexivity. Qed.
Lemma seq_half_val : seq_half = 2147483648.
Proof. reflexivity. Qed.

Ltac seq_unfold :=
  unfold seq_lt, seq_le, seq_gt, seq_ge, seq_eqb, seq_max, seq_min, seq_sub, seq_sdiff, seq_add, seq_subn,
         seq_norm in *;
  rewrite ?seq_modulus_val, ?seq_half_val in *.

Definition seq_wf (a : Z) : Prop := 0 <= a < seq_modulus.

Lemma seq_add_wf : forall a n, seq_wf (seq_add a n).
Proof. intros. unfold seq_wf. seq_unfold. lia. Qed.

Lemma seq_subn_wf : forall a n, seq_wf (seq_subn a n).
Proof. intros. unfold seq_wf. seq_unfold. lia. Qed.

Lemma seq_sdiff_range : forall a b, - seq_half <= seq_sdiff a b < seq_half.
Proof.
  intros. seq_unfold. destruct (Z.ltb_spec ((a - b) mod 4294967296) 2147483648); lia.
Qed.

Lemma seq_sdiff_self : forall a, seq_sdiff a a = 0.
Proof. intros. seq_unfold. replace (a - a) with 0 by lia. reflexivity. Qed.

(* the signed difference is the difference modulo 2^32 *)
Lemma seq_sdiff_mod : forall a b, (seq_sdiff a b) mod seq_modulus = (a - b) mod seq_modulus.
Proof.
  intros. seq_unfold. destruct (Z.ltb_spec ((a - b) mod 4294967296) 2147483648); lia.
Qed.

(* `a - b` succeeds exactly when b is at most 2^31-1 behind-or-equal a, and then a = b + d *)
Lemma seq_sub_ok : forall a b d,
  seq_sub a b = Ok d -> 0 <= d < seq_half /\ (b + d) mod seq_modulus = a mod seq_modulus.
Proof.
  intros a b d H. seq_unfold.
  destruct (Z.ltb_spec ((a - b) mod 4294967296) 2147483648);
  match type of H with (if ?c then _ else _) = _ => destruct (Z.ltb_spec0 (if c then 0 else 1) 0) end;
  repeat match type of H with context [?x <? ?y] => destruct (Z.ltb_spec x y) end;
  inversion H; subst; lia.
Qed.

Lemma seq_sub_ok_add : forall a b d,
  seq_wf a -> seq_sub a b = Ok d -> a = seq_add b d.
Proof.
  intros a b d Ha H. apply seq_sub_ok in H. unfold seq_wf in Ha. seq_unfold. lia.
Qed.

Lemma seq_sub_panic_iff : forall a b, seq_sub a b = Panic <-> seq_lt a b = true.
Proof.
  intros. unfold seq_sub, seq_lt. destruct (Z.ltb_spec (seq_sdiff a b) 0); split; intros; congruence.
Qed.

Lemma seq_ge_not_lt : forall a b, seq_ge a b = negb (seq_lt a b).
Proof. intros. unfold seq_ge, seq_lt. lia. Qed.

Lemma seq_gt_not_le : forall a b, seq_gt a b = negb (seq_le a b).
Proof. intros. unfold seq_gt, seq_le. lia. Qed.

(* a >= b (signed view) implies b <= a *)
Lemma seq_ge_le_swap : forall a b, seq_ge a b = true -> seq_le b a = true.
Proof.
  intros a b. seq_unfold.
  destruct (Z.ltb_spec ((a - b) mod 4294967296) 2147483648);
  destruct (Z.ltb_spec ((b - a) mod 4294967296) 2147483648); lia.
Qed.

(* Transfer to unbounded offsets: numbers within 2^31 of each other compare like integers. *)
Lemma seq_sdiff_offsets : forall base x y,
  - seq_half <= x - y < seq_half -> seq_sdiff (seq_add base x) (seq_add base y) = x - y.
Proof.
  intros. seq_unfold.
  destruct (Z.ltb_spec (((base + x) mod 4294967296 - (base + y) mod 4294967296) mod 4294967296) 2147483648); lia.
Qed.

Lemma seq_lt_offsets : forall base x y,
  - seq_half <= x - y < seq_half -> seq_lt (seq_add base x) (seq_add base y) = (x <? y).
Proof. intros. unfold seq_lt. rewrite seq_sdiff_offsets by assumption. lia. Qed.

Lemma seq_le_offsets : forall base x y,
  - seq_half <= x - y < seq_half -> seq_le (seq_add base x) (seq_add base y) = (x <=? y).
Proof. intros. unfold seq_le. rewrite seq_sdiff_offsets by assumption. lia. Qed.

Lemma seq_add_add : forall a x y, seq_add (seq_add a x) y = seq_add a (x + y).
Proof. intros. seq_unfold. lia. Qed.

Lemma seq_add_0 : forall a, seq_wf a -> seq_add a 0 = a.
Proof. intros a H. unfold seq_wf in H. seq_unfold. lia. Qed.

Lemma seq_sdiff_add0_r : forall a b, seq_sdiff a (seq_add b 0) = seq_sdiff a b.
Proof.
  intros. seq_unfold.
  replace ((a - (b + 0) mod 4294967296) mod 4294967296) with ((a - b) mod 4294967296) by lia.
  reflexivity.
Qed.
Lemma seq_lt_add0_r : forall a b, seq_lt a (seq_add b 0) = seq_lt a b.
Proof. intros. unfold seq_lt. now rewrite seq_sdiff_add0_r. Qed.
