(* DNS resolver sockets in the egress loop of Interface::poll (property C03, loop clause): for EVERY set of
   well-formed DNS sockets, at a fixed `now`, with every environment and every oracle deciding per dispatch
   whether the emit closure succeeds / the device is exhausted, the loop of Model/EgressLoop.v returns.
   Measure: the number of pending queries a dispatch at `now` would try to transmit (`due`); a successful
   emit schedules the query's retransmission after `now`, a failed one or a fail-over never makes more
   queries due.  Uses the per-query case analysis of Proofs/DnsProofs.v (dns_dispatch_query_spec) and the
   emit-failure relation of Proofs/DnsBlockedProofs.v. *)
From SV Require Import Lib.Base Gen.Consts Gen.WireFields Model.WireDns Model.Dns Model.EgressLoop.
From SV Require Import Proofs.WireDnsProofs Proofs.DnsProofs Proofs.DnsBlockedProofs Proofs.EgressLoopProofs.

Section DnsLoop.
  Variable cfg : dns_cfg.
  Variable now : Z.
  Hypothesis Hcfg : cfg_ok cfg.

  (* a pending query is `due` when a dispatch at [now] would try to transmit it *)
  Definition dnsl_due (q : option dns_qstate) : bool :=
    match q with Some (QPending pq) => pq_retransmit_at (dns_pq2 now pq) <=? now | _ => false end.

  Lemma dnsl_pq2_idem pq : pq_retransmit_at (dns_pq2 now (dns_pq2 now pq)) = pq_retransmit_at (dns_pq2 now pq).
  Proof.
    destruct (dns_pq2_timeout_armed now pq) as (t & Et & Lt).
    unfold dns_pq2 at 1. rewrite Et. replace (t <=? now) with false by (symmetry; apply Z.leb_gt; lia). reflexivity.
  Qed.

  Lemma dnsl_sent_not_due pq : pq_ok cfg pq ->
    dnsl_due (Some (QPending (dns_pq_sent now (dns_pq2 now pq)))) = false.
  Proof.
    intros Hq. pose proof (pq_ok_pq2 cfg now pq Hq) as (_ & _ & Hd & _). pose proof dns_consts_pos as (P1 & _ & _).
    destruct (dns_pq2_timeout_armed now pq) as (t & Et & Lt).
    unfold dnsl_due. unfold dns_pq2 at 1. unfold dns_pq_sent at 1. cbn [pq_timeout_at dns_pq_with_timers]. rewrite Et.
    replace (t <=? now) with false by (symmetry; apply Z.leb_gt; lia).
    cbn [pq_retransmit_at dns_pq_with_timers dns_pq_sent]. apply Z.leb_gt. lia.
  Qed.

  Lemma dnsl_query servers b pq r : pq_ok cfg pq -> dns_dispatch_query cfg servers now b pq = Ok r ->
    slot_ok cfg (Some (dq_state r)) /\
    match r with
    | DqEmit st _ => dnsl_due (Some (QPending pq)) = true /\ dnsl_due (Some st) = false
    | DqContinue st | DqEmitErr st => dnsl_due (Some st) = true -> dnsl_due (Some (QPending pq)) = true
    end.
  Proof.
    intros Hq H.
    destruct (dns_dispatch_query_spec cfg servers now pq Hcfg Hq) as (r' & E & C). cbv zeta in C.
    pose proof (pq_ok_pq2 cfg now pq Hq) as Hq2.
    assert (Hpend : dnsl_due (Some (QPending (dns_pq2 now pq))) = true -> dnsl_due (Some (QPending pq)) = true).
    { unfold dnsl_due. rewrite dnsl_pq2_idem. auto. }
    destruct b.
    - rewrite E in H. injection H as <-.
      destruct C as [[-> _]|[[-> (_ & Hlt & _)]|(tx & dst & -> & _ & Hle & _)]]; cbn [dq_state].
      + split; [exact I|]. cbn [dnsl_due]. discriminate.
      + split; [exact Hq2|]. exact Hpend.
      + split; [apply pq_ok_sent; exact Hq2|]. split; [unfold dnsl_due; apply Z.leb_le; exact Hle | apply dnsl_sent_not_due; exact Hq].
    - pose proof (dns_dispatch_query_emit_fail cfg servers now pq) as F. rewrite E in F.
      destruct C as [[-> _]|[[-> (_ & Hlt & _)]|(tx & dst & -> & _ & Hle & _)]]; rewrite F in H; injection H as <-; cbn [dq_state].
      + split; [exact I|]. cbn [dnsl_due]. discriminate.
      + split; [exact Hq2|]. exact Hpend.
      + split; [exact Hq2|]. exact Hpend.
  Qed.

  Definition dnsl_count (qs : list (option dns_qstate)) : nat := length (filter dnsl_due qs).

  Lemma dnsl_count_cons q qs : dnsl_count (q :: qs) = ((if dnsl_due q then 1 else 0) + dnsl_count qs)%nat.
  Proof. unfold dnsl_count. cbn [filter]. destruct (dnsl_due q); reflexivity. Qed.

  Lemma dnsl_slots servers b : forall qs qs' res, Forall (slot_ok cfg) qs ->
    dns_dispatch_slots cfg servers now b qs = Ok (qs', res) ->
    Forall (slot_ok cfg) qs' /\ (dnsl_count qs' <= dnsl_count qs)%nat /\
    (forall tx, res = DrEmit tx -> (dnsl_count qs' < dnsl_count qs)%nat).
  Proof.
    induction qs as [|q rest IH]; intros qs' res Hok H.
    - cbn [dns_dispatch_slots] in H. injection H as <- <-. split; [constructor|]. split; [lia|]. discriminate.
    - inversion Hok as [|? ? Hq Hrest]; subst.
      assert (Pass : forall (q0 : option dns_qstate), slot_ok cfg q0 -> dnsl_due q0 = false \/ True ->
        (do '(rest', res0) <- dns_dispatch_slots cfg servers now b rest; Ok (q0 :: rest', res0)) = Ok (qs', res) ->
        Forall (slot_ok cfg) qs' /\ (dnsl_count qs' <= dnsl_count (q0 :: rest))%nat /\
        (forall tx, res = DrEmit tx -> (dnsl_count qs' < dnsl_count (q0 :: rest))%nat)).
      { intros q0 Hq0 _ H0.
        destruct (dns_dispatch_slots cfg servers now b rest) as [[rest' res0]| |] eqn:E; cbn [obind] in H0; try discriminate H0.
        injection H0 as <- <-. destruct (IH rest' res0 Hrest eq_refl) as (A & B & C).
        split; [constructor; assumption|]. rewrite !dnsl_count_cons. split; [lia|]. intros tx Etx. specialize (C tx Etx). lia. }
      destruct q as [[pq|addrs|]|]; cbn [dns_dispatch_slots] in H.
      + destruct (dns_dispatch_query cfg servers now b pq) as [r| |] eqn:Er; cbn [obind] in H; try discriminate H.
        destruct (dnsl_query servers b pq r Hq Er) as (Hs & Hd).
        destruct r as [st|st tx|st]; cbn [dq_state] in Hs.
        * destruct (dns_dispatch_slots cfg servers now b rest) as [[rest' res0]| |] eqn:E; cbn [obind] in H; try discriminate H.
          injection H as <- <-. destruct (IH rest' res0 Hrest eq_refl) as (A & B & C).
          split; [constructor; assumption|]. rewrite !dnsl_count_cons.
          assert (X : ((if dnsl_due (Some st) then 1 else 0) <= (if dnsl_due (Some (QPending pq)) then 1 else 0))%nat).
          { destruct (dnsl_due (Some st)); [rewrite (Hd eq_refl); lia | destruct (dnsl_due (Some (QPending pq))); lia]. }
          split; [lia|]. intros tx Etx. specialize (C tx Etx). lia.
        * injection H as <- <-. destruct Hd as (D1 & D2).
          split; [constructor; assumption|]. rewrite !dnsl_count_cons, D1, D2. split; [lia|]. intros; lia.
        * injection H as <- <-.
          split; [constructor; assumption|]. rewrite !dnsl_count_cons.
          assert (X : ((if dnsl_due (Some st) then 1 else 0) <= (if dnsl_due (Some (QPending pq)) then 1 else 0))%nat).
          { destruct (dnsl_due (Some st)); [rewrite (Hd eq_refl); lia | destruct (dnsl_due (Some (QPending pq))); lia]. }
          split; [lia|]. discriminate.
      + apply (Pass (Some (QCompleted addrs)) Hq (or_intror I) H).
      + apply (Pass (Some QFailure) Hq (or_intror I) H).
      + apply (Pass None Hq (or_intror I) H).
  Qed.

  (* the socket in the shared-environment loop: [decide] fixes, per dispatch, whether the emit closure succeeds
     and, if it does not, whether that is device exhaustion (the pass breaks) or a refused dispatch *)
  Variable E : Type.
  Variable decide : E -> dns_sock -> (bool * bool) * E.

  Definition dnsl_dispatch (e : E) (s : dns_sock) : E * dns_sock * dres :=
    let '((ok, exh), e') := decide e s in
    match dns_dispatch cfg s now ok with
    | Ok (s', DrEmit _) => (e', s', RSent)
    | Ok (s', DrNone) => (e', s', RSilent)
    | Ok (s', DrErr) => (e', s', if exh then RExhausted else RSilent)
    | _ => (e', s, RSilent)
    end.

  Definition dnsl_mu (s : dns_sock) : nat := dnsl_count (ds_queries s).

  Lemma dnsl_step e s e' s' r : sock_ok cfg s -> dnsl_dispatch e s = (e', s', r) ->
    sock_ok cfg s' /\ (r = RSent -> (dnsl_mu s' < dnsl_mu s)%nat) /\ (r <> RSent -> (dnsl_mu s' <= dnsl_mu s)%nat).
  Proof.
    intros Hs H. unfold dnsl_dispatch in H. destruct (decide e s) as [[ok exh] e1].
    unfold dns_dispatch in H.
    destruct (dns_dispatch_slots cfg (ds_servers s) now ok (ds_queries s)) as [[qs res]| |] eqn:Es; cbn [obind] in H.
    - destruct (dnsl_slots (ds_servers s) ok (ds_queries s) qs res Hs Es) as (A & B & C).
      destruct res as [|tx|]; injection H as <- <- <-; unfold sock_ok, dnsl_mu; cbn [ds_queries].
      + split; [exact A|]. split; [discriminate | intros _; exact B].
      + split; [exact A|]. split; [intros _; exact (C tx eq_refl) | intros X; exfalso; apply X; reflexivity].
      + split; [exact A|]. split; [destruct exh; discriminate | intros _; exact B].
    - injection H as <- <- <-. split; [exact Hs|]. split; [discriminate | intros _; lia].
    - injection H as <- <- <-. split; [exact Hs|]. split; [discriminate | intros _; lia].
  Qed.

  Variable pre : E -> E.

  Theorem dns_socket_set_egress_returns fuel e ss :
    Forall (sock_ok cfg) ss -> (total2 dns_sock dnsl_mu ss < fuel)%nat ->
    exists e' r n, poll_loop2 E dns_sock dnsl_dispatch pre fuel e ss = Some (e', r, n) /\
                   (n + total2 dns_sock dnsl_mu r <= total2 dns_sock dnsl_mu ss)%nat /\
                   length r = length ss /\ Forall (sock_ok cfg) r.
  Proof.
    apply (poll_loop2_returns E dns_sock dnsl_dispatch pre (sock_ok cfg) dnsl_mu).
    - intros e0 s e' s' r Hs H. exact (proj1 (dnsl_step e0 s e' s' r Hs H)).
    - intros e0 s e' s' Hs H. exact (proj1 (proj2 (dnsl_step e0 s e' s' RSent Hs H)) eq_refl).
    - intros e0 s e' s' r Hs H Hr. exact (proj2 (proj2 (dnsl_step e0 s e' s' r Hs H)) Hr).
  Qed.
End DnsLoop.
