(* C02 (liveness half), layer 6: ROUNDS AND THE INDUCTION (step 5, data part).
   round_progress                     steps 2 and 3 composed, with the continuation of the run and a
                                      bound on WHEN the progress state occurs: from any state of the
                                      regime with octets unacknowledged, SND.UNA advances before the
                                      clock has advanced by Wr = 2 RTTE_MAX_RTO + 3 Dt + Dack
   all_written_bytes_eventually_acked by induction on the number of unacknowledged octets: every octet
                                      written so far is acknowledged (hence accepted by the peer's
                                      receive path: rcv_off y >= una_off x) before the clock has
                                      advanced by (number of unacknowledged octets) * Wr. *)
From SV Require Import Lib.Base Gen.Consts.
From SV Require Import Model.Seq32 Model.Assembler Model.TcpBuf Model.TcpTypes Model.Tcp Model.TcpNet.
From SV Require Import Proofs.TcpSendBase Proofs.TcpLiveBase Proofs.TcpLiveProofs Proofs.TcpLiveMore
  Proofs.TcpLiveProgress.
From SV Require Import Proofs.TcpNetBase.
From SV Require Import Proofs.TcpProgressBase Proofs.TcpProgressFrame Proofs.TcpProgressRecv
  Proofs.TcpProgressSend Proofs.TcpProgressNet Proofs.TcpProgressData Proofs.TcpProgressAck.

Lemma TcpNetCompose_l_len_prefix (a b : list Z) : prefix a b -> l_len a <= l_len b.
Proof. intros (c & ->). rewrite l_len_app. pose proof (l_len_nonneg c). lia. Qed.

Section All.
Variable x : side.
Let y := side_other x.
Variables Dt Da Dack : Z.

Notation safe := (safe3 x Dack).

Definition W3 : Z := max_rto_us + 2 * Dt + Dack.

(* STEP 5 (data).  Every octet written so far is eventually acknowledged - hence accepted by the
   peer's receive path (rcv_off y >= una_off x in every state of the regime) - on every fair run on
   which the safety facts hold: before the clock has advanced by n * W3, where n bounds the number of
   octets still unacknowledged and W3 = RTTE_MAX_RTO + 2 Dt + Dack is the bound of one round. *)
Theorem all_written_bytes_eventually_acked : forall n evs fa st st' L0,
  0 <= Dt -> 0 <= Dack ->
  NI st -> opts_ok st -> dl_sync Da fa st ->
  run_all safe st evs -> fair_run Dt Da fa st evs -> net_run st evs = Ok st' ->
  L0 <= l_len (ep_written (net_get st x)) ->
  L0 - una_off (net_get st x) <= Z.of_nat n ->
  net_now st x + Z.of_nat n * W3 < net_now st' x ->
  exists pre post st1, evs = pre ++ post /\ net_run st pre = Ok st1 /\ net_run st1 post = Ok st' /\
                       L0 <= una_off (net_get st1 x) /\ L0 <= rcv_off (net_get st1 y).
Proof.
  intros n. induction n as [|n IH]; intros evs fa st st' L0 HDt HDk HN Ho Hsy HRun Hfair Hrun HL Hn Hlate.
  - assert (Hdone : L0 <= una_off (net_get st x)) by lia.
    exists [], evs, st. split; [reflexivity|]. split; [reflexivity|]. split; [exact Hrun|].
    split; [exact Hdone|].
    destruct (run_all_here _ _ _ HRun) as (HR & _). destruct (ow_cross x st HR) as (_ & Hc & _). fold y in Hc. lia.
  - destruct (Z_le_gt_dec L0 (una_off (net_get st x))) as [Hdone | Hmore].
    + exists [], evs, st. split; [reflexivity|]. split; [reflexivity|]. split; [exact Hrun|].
      split; [exact Hdone|].
      destruct (run_all_here _ _ _ HRun) as (HR & _). destruct (ow_cross x st HR) as (_ & Hc & _). fold y in Hc. lia.
    + assert (Hl : 0 < txl x st) by (unfold txl, una_off, net_sock in *; lia).
      assert (HW : 0 <= W3) by (unfold W3; pose proof max_rto_us_pos; lia).
      assert (Hlate1 : net_now st x + max_rto_us + 2 * Dt + Dack < net_now st' x).
      { unfold W3 in *. rewrite Nat2Z.inj_succ in Hlate. nia. }
      destruct (ack_round x Dt Da Dack evs fa st st' (una_off (net_get st x)) HDt HDk HN Ho Hsy HRun Hfair Hrun Hl eq_refl Hlate1)
        as (pre & post & fa1 & st1 & -> & Hp1 & Hp2 & HR1 & Hf1 & HN1 & Ho1 & Hsy1 & HQ & Hclk).
      unfold Qg in HQ.
      assert (HL1 : L0 <= l_len (ep_written (net_get st1 x))).
      { destruct (net_run_mono _ _ _ Hp1 x) as (Hw & _). apply TcpNetCompose_l_len_prefix in Hw. lia. }
      assert (Hn1 : L0 - una_off (net_get st1 x) <= Z.of_nat n) by (rewrite Nat2Z.inj_succ in Hn; lia).
      assert (Hlate2 : net_now st1 x + Z.of_nat n * W3 < net_now st' x).
      { rewrite Nat2Z.inj_succ in Hlate. unfold W3 in *. nia. }
      destruct (IH post fa1 st1 st' L0 HDt HDk HN1 Ho1 Hsy1 HR1 Hf1 Hp2 HL1 Hn1 Hlate2)
        as (pre2 & post2 & st2 & -> & Hq1 & Hq2 & HU & HRc).
      exists (pre ++ pre2), post2, st2. split; [rewrite app_assoc; reflexivity|].
      split; [eapply net_run_app; eassumption|]. split; [exact Hq2|]. split; assumption.
Qed.

(* the same with the continuation of the run and a bound on when the state occurs *)
Theorem all_acked_cont : forall n evs fa st st' L0,
  0 <= Dt -> 0 <= Dack ->
  NI st -> opts_ok st -> dl_sync Da fa st ->
  run_all safe st evs -> fair_run Dt Da fa st evs -> net_run st evs = Ok st' ->
  L0 <= l_len (ep_written (net_get st x)) ->
  L0 - una_off (net_get st x) <= Z.of_nat n ->
  net_now st x + Z.of_nat n * W3 < net_now st' x ->
  exists pre post fa1 st1,
    evs = pre ++ post /\ net_run st pre = Ok st1 /\ net_run st1 post = Ok st' /\
    run_all safe st1 post /\ fair_run Dt Da fa1 st1 post /\
    NI st1 /\ opts_ok st1 /\ dl_sync Da fa1 st1 /\
    L0 <= una_off (net_get st1 x) /\ L0 <= rcv_off (net_get st1 y) /\
    net_now st1 x <= net_now st x + Z.of_nat n * W3.
Proof.
  intros n. induction n as [|n IH]; intros evs fa st st' L0 HDt HDk HN Ho Hsy HRun Hfair Hrun HL Hn Hlate.
  - assert (Hdone : L0 <= una_off (net_get st x)) by lia.
    exists [], evs, fa, st. split; [reflexivity|]. split; [reflexivity|]. split; [exact Hrun|].
    split; [exact HRun|]. split; [exact Hfair|]. split; [exact HN|]. split; [exact Ho|]. split; [exact Hsy|].
    split; [exact Hdone|].
    destruct (run_all_here _ _ _ HRun) as (HR & _). destruct (ow_cross x st HR) as (_ & Hc & _). fold y in Hc.
    split; lia.
  - assert (HW : 0 <= W3) by (unfold W3; pose proof max_rto_us_pos; lia).
    destruct (Z_le_gt_dec L0 (una_off (net_get st x))) as [Hdone | Hmore].
    + exists [], evs, fa, st. split; [reflexivity|]. split; [reflexivity|]. split; [exact Hrun|].
      split; [exact HRun|]. split; [exact Hfair|]. split; [exact HN|]. split; [exact Ho|]. split; [exact Hsy|].
      split; [exact Hdone|].
      destruct (run_all_here _ _ _ HRun) as (HR & _). destruct (ow_cross x st HR) as (_ & Hc & _). fold y in Hc.
      split; [lia|]. rewrite Nat2Z.inj_succ. nia.
    + assert (Hl : 0 < txl x st) by (unfold txl, una_off, net_sock in *; lia).
      assert (Hlate1 : net_now st x + max_rto_us + 2 * Dt + Dack < net_now st' x).
      { unfold W3 in *. rewrite Nat2Z.inj_succ in Hlate. nia. }
      destruct (ack_round x Dt Da Dack evs fa st st' (una_off (net_get st x)) HDt HDk HN Ho Hsy HRun Hfair Hrun Hl eq_refl Hlate1)
        as (pre & post & fa1 & st1 & -> & Hp1 & Hp2 & HR1 & Hf1 & HN1 & Ho1 & Hsy1 & HQ & Hclk).
      unfold Qg in HQ.
      assert (HL1 : L0 <= l_len (ep_written (net_get st1 x))).
      { destruct (net_run_mono _ _ _ Hp1 x) as (Hw & _). apply TcpNetCompose_l_len_prefix in Hw. lia. }
      assert (Hn1 : L0 - una_off (net_get st1 x) <= Z.of_nat n) by (rewrite Nat2Z.inj_succ in Hn; lia).
      assert (Hlate2 : net_now st1 x + Z.of_nat n * W3 < net_now st' x).
      { rewrite Nat2Z.inj_succ in Hlate. unfold W3 in *. nia. }
      destruct (IH post fa1 st1 st' L0 HDt HDk HN1 Ho1 Hsy1 HR1 Hf1 Hp2 HL1 Hn1 Hlate2)
        as (pre2 & post2 & fa2 & st2 & -> & Hq1 & Hq2 & HR2 & Hf2 & HN2 & Ho2 & Hsy2 & HU & HRc & Hclk2).
      exists (pre ++ pre2), post2, fa2, st2. split; [rewrite app_assoc; reflexivity|].
      split; [eapply net_run_app; eassumption|]. split; [exact Hq2|].
      split; [exact HR2|]. split; [exact Hf2|]. split; [exact HN2|]. split; [exact Ho2|]. split; [exact Hsy2|].
      split; [exact HU|]. split; [exact HRc|]. rewrite Nat2Z.inj_succ. unfold W3 in *. nia.
Qed.

End All.
