(* C02 (liveness half), layer 6: ROUNDS AND THE INDUCTION (step 5, data part).
   round_progress                     steps 2 and 3 composed, with the continuation of the run and a
                                      bound on WHEN the progress state occurs: from any state of the
                                      regime with octets unacknowledged, SND.UNA advances before the
                                      clock has advanced by Wr = 2 RTTE_MAX_RTO + 3 Dt + Dack
   all_written_bytes_eventually_acked by induction on the number of unacknowledged octets: every octet
                                      written so far is acknowledged (hence accepted by the peer's
                                      receive path: rcv_off y >= una_off x) before the clock has
                                      advanced by (number of unacknowledged octets) * Wr. *)
From SV Require Import Lib.Base Gen.Consts.
From SV Require Import Model.Seq32 Model.Assembler Model.TcpBuf Model.TcpTypes Model.Tcp Model.TcpNet.
From SV Require Import Proofs.TcpSendBase Proofs.TcpLiveBase Proofs.TcpLiveProofs Proofs.TcpLiveMore
  Proofs.TcpLiveProgress.
From SV Require Import Proofs.TcpNetBase.
From SV Require Import Proofs.TcpProgressBase Proofs.TcpProgressFrame Proofs.TcpProgressRecv
  Proofs.TcpProgressSend Proofs.TcpProgressNet Proofs.TcpProgressData Proofs.TcpProgressAck.

Lemma TcpNetCompose_l_len_prefix (a b : list Z) : prefix a b -> l_len a <= l_len b.
Proof. intros (c & ->). rewrite l_len_app. pose proof (l_len_nonneg c). lia. Qed.

Section All.
Variable x : side.
Let y := side_other x.
Variables Dt Da Dack : Z.

Notation safe := (safe3 x Dack).

Definition W3 : Z := max_rto_us + 2 * Dt + Dack.

(* STEP 5 (data).  Every octet written so far is eventually acknowledged - hence accepted by the
   peer's receive path (rcv_off y >= una_off x in every state of the regime) - on every fair run on
   which the safety facts hold: before the clock has advanced by n * W3, where n bounds the number of
   octets still unacknowledged and W3 = RTTE_MAX_RTO + 2 Dt + Dack is the bound of one round. *)
Theorem all_written_bytes_eventually_acked : forall n evs fa st st' L0,
  0 <= Dt -> 0 <= Dack ->
  NI st -> opts_ok st -> dl_sync Da fa st ->
  run_all safe st evs -> fair_run Dt Da fa st evs -> net_run st evs = Ok st' ->
  L0 <= l_len (ep_written (net_get st x)) ->
  L0 - una_off (net_get st x) <= Z.of_nat n ->
  net_now st x + Z.of_nat n * W3 < net_now st' x ->
  exists pre post st1, evs = pre ++ post /\ net_run st pre = Ok st1 /\ net_run st1 post = Ok st' /\
                       L0 <= una_off (net_get st1 x) /\ L0 <= rcv_off (net_get st1 y).
Proof.
  intros n. induction n as [|n IH]; intros evs fa st st' L0 HDt HDk HN Ho Hsy HRun Hfair Hrun HL Hn Hlate.
  - assert (Hdone : L0 <= una_off (net_get st x)) by lia.
    exists [], evs, st. split; [reflexivity|]. split; [reflexivity|]. split; [exact Hrun|].
    split; [exact Hdone|].
    destruct (run_all_here _ _ _ HRun) as (HR & _). destruct (ow_cross x st HR) as (_ & Hc & _). fold y in Hc. lia.
  - destruct (Z_le_gt_dec L0 (una_off (net_get st x))) as [Hdone | Hmore].
    + exists [], evs, st. split; [reflexivity|]. split; [reflexivity|]. split; [exact Hrun|].
      split; [exact Hdone|].
      destruct (run_all_here _ _ _ HRun) as (HR & _). destruct (ow_cross x st HR) as (_ & Hc & _). fold y in Hc. lia.
    + assert (Hl : 0 < txl x st) by (unfold txl, una_off, net_sock in *; lia).
      assert (HW : 0 <= W3) by (unfold W3; pose proof max_rto_us_pos; lia).
      assert (Hlate1 : net_now st x + max_rto_us + 2 * Dt + Dack < net_now st' x).
      { unfold W3 in *. rewrite Nat2Z.inj_succ in Hlate. nia. }
      destruct (ack_round x Dt Da Dack evs fa st st' (una_off (net_get st x)) HDt HDk HN Ho Hsy HRun Hfair Hrun Hl eq_refl Hlate1)
        as (pre & post & fa1 & st1 & -> & Hp1 & Hp2 & HR1 & Hf1 & HN1 & Ho1 & Hsy1 & HQ & Hclk).
      unfold Qg in HQ.
      assert (HL1 : L0 <= l_len (ep_written (net_get st1 x))).
      { destruct (net_run_mono _ _ _ Hp1 x) as (Hw & _). apply TcpNetCompose_l_len_prefix in Hw. lia. }
      assert (Hn1 : L0 - una_off (net_get st1 x) <= Z.of_nat n) by (rewrite Nat2Z.inj_succ in Hn; lia).
      assert (Hlate2 : net_now st1 x + Z.of_nat n * W3 < net_now st' x).
      { rewrite Nat2Z.inj_succ in Hlate. unfold W3 in *. nia. }
      destruct (IH post fa1 st1 st' L0 HDt HDk HN1 Ho1 Hsy1 HR1 Hf1 Hp2 HL1 Hn1 Hlate2)
        as (pre2 & post2 & st2 & -> & Hq1 & Hq2 & HU & HRc).
      exists (pre ++ pre2), post2, st2. split; [rewrite app_assoc; reflexivity|].
      split; [eapply net_run_app; eassumption|]. split; [exact Hq2|]. split; assumption.
Qed.

(* the same with the continuation of the run and a bound on when the state occurs *)
Theorem all_acked_cont : forall n evs fa st st' L0,
  0 <= Dt -> 0 <= Dack ->
  NI st -> opts_ok st -> dl_sync Da fa st ->
  run_all safe st evs -> fair_run Dt Da fa st evs -> net_run st evs = Ok st' ->
  L0 <= l_len (ep_written (net_get st x)) ->
  L0 - una_off (net_get st x) <= Z.of_nat n ->
  net_now st x + Z.of_nat n * W3 < net_now st' x ->
  exists pre post fa1 st1,
    evs = pre ++ post /\ net_run st pre = Ok st1 /\ net_run st1 post = Ok st' /\
    run_all safe st1 post /\ fair_run Dt Da fa1 st1 post /\
    NI st1 /\ opts_ok st1 /\ dl_sync Da fa1 st1 /\
    L0 <= una_off (net_get st1 x) /\ L0 <= rcv_off (net_get st1 y) /\
    net_now st1 x <= net_now st x + Z.of_nat n * W3.
Proof.
  intros n. induction n as [|n IH]; intros evs fa st st' L0 HDt HDk HN Ho Hsy HRun Hfair Hrun HL Hn Hlate.
  - assert (Hdone : L0 <= una_off (net_get st x)) by lia.
    exists [], evs, fa, st. split; [reflexivity|]. split; [reflexivity|]. split; [exact Hrun|].
    split; [exact HRun|]. split; [exact Hfair|]. split; [exact HN|]. split; [exact Ho|]. split; [exact Hsy|].
    split; [exact Hdone|].
    destruct (run_all_here _ _ _ HRun) as (HR & _). destruct (ow_cross x st HR) as (_ & Hc & _). fold y in Hc.
    split; lia.
  - assert (HW : 0 <= W3) by (unfold W3; pose proof max_rto_us_pos; lia).
    destruct (Z_le_gt_dec L0 (una_off (net_get st x))) as [Hdone | Hmore].
    + exists [], evs, fa, st. split; [reflexivity|]. split; [reflexivity|]. split; [exact Hrun|].
      split; [exact HRun|]. split; [exact Hfair|]. split; [exact HN|]. split; [exact Ho|]. split; [exact Hsy|].
      split; [exact Hdone|].
      destruct (run_all_here _ _ _ HRun) as (HR & _). destruct (ow_cross x st HR) as (_ & Hc & _). fold y in Hc.
      split; [lia|]. rewrite Nat2Z.inj_succ. nia.
    + assert (Hl : 0 < txl x st) by (unfold txl, una_off, net_sock in *; lia).
      assert (Hlate1 : net_now st x + max_rto_us + 2 * Dt + Dack < net_now st' x).
      { unfold W3 in *. rewrite Nat2Z.inj_succ in Hlate. nia. }
      destruct (ack_round x Dt Da Dack evs fa st st' (una_off (net_get st x)) HDt HDk HN Ho Hsy HRun Hfair Hrun Hl eq_refl Hlate1)
        as (pre & post & fa1 & st1 & -> & Hp1 & Hp2 & HR1 & Hf1 & HN1 & Ho1 & Hsy1 & HQ & Hclk).
      unfold Qg in HQ.
      assert (HL1 : L0 <= l_len (ep_written (net_get st1 x))).
      { destruct (net_run_mono _ _ _ Hp1 x) as (Hw & _). apply TcpNetCompose_l_len_prefix in Hw. lia. }
      assert (Hn1 : L0 - una_off (net_get st1 x) <= Z.of_nat n) by (rewrite Nat2Z.inj_succ in Hn; lia).
      assert (Hlate2 : net_now st1 x + Z.of_nat n * W3 < net_now st' x).
      { rewrite Nat2Z.inj_succ in Hlate. unfold W3 in *. nia. }
      destruct (IH post fa1 st1 st' L0 HDt HDk HN1 Ho1 Hsy1 HR1 Hf1 Hp2 HL1 Hn1 Hlate2)
        as (pre2 & post2 & fa2 & st2 & -> & Hq1 & Hq2 & HR2 & Hf2 & HN2 & Ho2 & Hsy2 & HU & HRc & Hclk2).
      exists (pre ++ pre2), post2, fa2, st2. split; [rewrite app_assoc; reflexivity|].
      split; [eapply net_run_app; eassumption|]. split; [exact Hq2|].
      split; [exact HR2|]. split; [exact Hf2|]. split; [exact HN2|]. split; [exact Ho2|]. split; [exact Hsy2|].
      split; [exact HU|]. split; [exact HRc|]. rewrite Nat2Z.inj_succ. unfold W3 in *. nia.
Qed.

(* ---------------------------------------------------------------------------------------- *)
(* delivery to the peer APPLICATION: what the receive path has accepted is read               *)
(* ---------------------------------------------------------------------------------------- *)
Definition read_off (e : endpoint) : Z := l_len (ep_read e).

Definition Jr (L0 r0 T : Z) (fa : fair_aux) (st : net) : Prop :=
  NI st /\ opts_ok st /\ dl_sync Da fa st /\
  read_off (net_get st y) = r0 /\ r0 < rcv_off (net_get st y) /\ L0 <= rcv_off (net_get st y) /\
  net_now st y <= T /\ (exists t, fa_rd fa y = Some t /\ t <= T).

Definition Qr (L0 r0 : Z) (st : net) : Prop :=
  r0 < read_off (net_get st y) /\ L0 <= rcv_off (net_get st y).

Lemma rx_is_diff st : rx_len st y = rcv_off (net_get st y) - read_off (net_get st y).
Proof. unfold rx_len, rcv_off, read_off, net_sock. lia. Qed.

Lemma Jr_step L0 r0 T fa st ev st' :
  oneway_safe x st -> oneway_safe x st' -> Jr L0 r0 T fa st -> fair_ev fa st ev -> net_step st ev = Ok st' ->
  Qr L0 r0 st' \/ Jr L0 r0 T (fa_after Dt Da fa ev st') st'.
Proof.
  intros HR HR' (HN & Ho & Hsy & Hrd & Hrc & HL & Hclk & t & Ht & HtT) Hfe H.
  pose proof (NI_step _ _ _ HN H) as HN'. pose proof (opts_step _ _ _ Ho H) as Ho'.
  pose proof (fa_after_sync Dt Da _ _ _ _ Hsy Hfe H) as Hsy'.
  (* what the step does to y's logs *)
  assert (Hy : (r0 < read_off (net_get st' y) /\ rcv_off (net_get st y) <= rcv_off (net_get st' y)) \/
               (read_off (net_get st' y) = r0 /\ rcv_off (net_get st y) <= rcv_off (net_get st' y) /\
                (forall z n, ev = NRecv z n -> side_eqb z y && (0 <? n) = false))).
  { destruct (net_step_kind _ _ _ H) as [w ev0 e' Hse He E | to i E1 _ E | d E1 E | w isn ts E1 E | to i Hd].
    - destruct (side_cases x w) as [Ew | Ew]; subst w st'.
      + right. rewrite net_get_set_other. split; [exact Hrd|]. split; [apply Z.le_refl|].
        intros z n E. subst ev. cbn [sock_event] in Hse. destruct Hse as (-> & _).
        rewrite side_eqb_other. reflexivity.
      + change (side_other x) with y in He, Hse |- *. rewrite net_get_set_same.
        pose proof (y_event_mono x _ _ _ _ HN HR Hse He) as Hm.
        destruct (ep_step_spec _ _ _ He) as (s' & out & tags & Hs & Hk & _ & _ & _ & _ & Hrd' & _).
        destruct ev; cbn [sock_event] in Hse; try contradiction.
        * destruct Hse as (_ & p & _ & ->). right. unfold read_off. rewrite Hrd'. cbn [log_read].
          split; [exact Hrd|]. split; [exact Hm|]. intros; discriminate.
        * destruct Hse as (_ & ->). right. unfold read_off. rewrite Hrd'. cbn [log_read].
          split; [exact Hrd|]. split; [exact Hm|]. intros; discriminate.
        * destruct Hse as (_ & ->). right. unfold read_off. rewrite Hrd'. cbn [log_read].
          split; [exact Hrd|]. split; [exact Hm|]. intros; discriminate.
        * (* recv *)
          destruct Hse as (-> & ->).
          destruct (ow_rcv x st HR) as (_ & _ & Hrxwf & _). fold y in Hrxwf.
          pose proof (ow_est x st HR y) as Hst. unfold net_sock in *.
          cbn [tcp_step] in Hs. unfold tcp_recv_slice, tcp_recv_error_check, tcp_may_recv in Hs.
          rewrite Hst in Hs. cbn [negb obind] in Hs.
          destruct (rb_dequeue_slice (s_rx_buffer (ep_sock (net_get st y))) (Z.max 0 n)) as (rx, b) eqn:Ed.
          assert (Hn0 : 0 <= Z.max 0 n) by lia.
          destruct (TcpRecvBase.rb_dequeue_slice_spec _ _ _ _ Hrxwf Hn0 Ed) as (Hkk & _). cbv zeta in Hkk.
          assert (Eo : out = OBytes b) by (inversion Hs; reflexivity). subst out.
          unfold read_off in *. rewrite Hrd'. cbn [log_read]. rewrite TcpSendBase.l_len_app.
          pose proof (rx_is_diff st) as Hdiff. unfold rx_len, net_sock, read_off in Hdiff.
          destruct (Z.ltb_spec 0 n) as [Hpos | Hnp].
          -- left. split; [lia | exact Hm].
          -- right. split; [lia|]. split; [exact Hm|].
             intros z n0 E. inversion E; subst. rewrite side_eqb_refl. cbn [andb].
             destruct (Z.ltb_spec 0 n0); [lia | reflexivity].
        * destruct Hse as (_ & ->). right. unfold read_off. rewrite Hrd'. cbn [log_read].
          split; [exact Hrd|]. split; [exact Hm|]. intros; discriminate.
    - subst st' ev. right. split; [exact Hrd|]. split; [apply Z.le_refl|]. intros; discriminate.
    - subst st' ev. right. destruct (tick_same st d y) as (E1 & _ & E3 & _).
      unfold read_off, rcv_off. rewrite E1, E3. split; [exact Hrd|]. split; [apply Z.le_refl|]. intros; discriminate.
    - subst st' ev. right. destruct (rand_same st w isn ts y) as (E1 & _ & E3 & _).
      unfold read_off, rcv_off. rewrite E1, E3. split; [exact Hrd|]. split; [apply Z.le_refl|]. intros; discriminate.
    - exfalso. destruct Hd as [-> | ->]; exact Hfe. }
  destruct Hy as [(Hq & Hm) | (Hr' & Hm & Hnr)]; [left; split; [exact Hq | lia]|].
  right. split; [exact HN'|]. split; [exact Ho'|]. split; [exact Hsy'|].
  split; [exact Hr'|]. split; [lia|]. split; [lia|].
  split.
  { rewrite (net_step_now _ _ _ y H). destruct ev; try lia.
    destruct Hfe as (Hd0 & Hperm). destruct (Z.eq_dec d 0) as [-> | Hnz]; [lia|].
    destruct (Hperm ltac:(lia) y) as (_ & _ & Hrdl). specialize (Hrdl t Ht). lia. }
  exists t. split; [|exact HtT].
  cbn [fa_after fa_rd].
  assert (Hne : (rx_len st' y =? 0) = false) by (apply Z.eqb_neq; rewrite rx_is_diff; lia).
  rewrite Hne, Ht.
  destruct ev; try reflexivity. rewrite (Hnr _ _ eq_refl). reflexivity.
Qed.

(* one read: while octets are queued the application reads at least one within Da *)
Theorem read_round : forall evs fa st st' L0 r0,
  0 <= Da ->
  NI st -> opts_ok st -> dl_sync Da fa st ->
  run_all safe st evs -> fair_run Dt Da fa st evs -> net_run st evs = Ok st' ->
  read_off (net_get st y) = r0 -> r0 < rcv_off (net_get st y) -> L0 <= rcv_off (net_get st y) ->
  net_now st y + Da < net_now st' y ->
  exists pre post fa1 st1,
    evs = pre ++ post /\ net_run st pre = Ok st1 /\ net_run st1 post = Ok st' /\
    run_all safe st1 post /\ fair_run Dt Da fa1 st1 post /\
    NI st1 /\ opts_ok st1 /\ dl_sync Da fa1 st1 /\
    Qr L0 r0 st1 /\ net_now st1 y <= net_now st y + Da.
Proof.
  intros evs fa st st' L0 r0 HDa HN Ho Hsy HRun Hfair Hrun Hrd Hrc HL Hlate.
  set (T := net_now st y + Da).
  assert (HJ : Jr L0 r0 T fa st).
  { split; [exact HN|]. split; [exact Ho|]. split; [exact Hsy|]. split; [exact Hrd|].
    split; [exact Hrc|]. split; [exact HL|]. split; [unfold T; lia|].
    destruct Hsy as (_ & Hr). specialize (Hr y). pose proof (rx_is_diff st) as Hd.
    destruct (fa_rd fa y) as [t|]; [|lia]. exists t. split; [reflexivity|]. unfold T. lia. }
  destruct (fair_leads_under_last Dt Da safe (Jr L0 r0 T) (fun _ st => Qr L0 r0 st) y T
              ltac:(intros fa0 st0 (_ & _ & _ & _ & _ & _ & A & _); exact A)
              ltac:(intros fa0 st0 ev0 st0' R0 R0' J0 F0 S0; exact (Jr_step _ _ _ _ _ _ _ (proj1 R0) (proj1 R0') J0 F0 S0))
              evs fa st st' HJ HRun Hfair Hrun ltac:(unfold T; lia))
    as (pre & post & fa1 & st1 & E & Hp1 & Hp2 & HR1 & Hf1 & HQ & fa0 & st0 & ev0 & HJ0 & _ & Hfe0 & Hs0 & ->).
  destruct HJ0 as (HN0 & Ho0 & Hsy0 & Hrd0 & _ & _ & Hclk0 & _).
  exists pre, post, (fa_after Dt Da fa0 ev0 st1), st1.
  split; [exact E|]. split; [exact Hp1|]. split; [exact Hp2|]. split; [exact HR1|]. split; [exact Hf1|].
  split; [exact (NI_step _ _ _ HN0 Hs0)|]. split; [exact (opts_step _ _ _ Ho0 Hs0)|].
  split; [exact (fa_after_sync Dt Da _ _ _ _ Hsy0 Hfe0 Hs0)|]. split; [exact HQ|].
  rewrite (net_step_now _ _ _ y Hs0). destruct ev0; try (unfold T in *; lia).
  exfalso. destruct HQ as (HQ & _).
  rewrite (net_step_tick _ _ _ Hs0) in HQ. destruct (tick_same st0 d y) as (_ & _ & E3 & _).
  unfold read_off in *. rewrite E3 in HQ. lia.
Qed.

(* everything the receive path has accepted (up to offset L0) reaches the application *)
Theorem all_accepted_eventually_read : forall m evs fa st st' L0,
  0 <= Da ->
  NI st -> opts_ok st -> dl_sync Da fa st ->
  run_all safe st evs -> fair_run Dt Da fa st evs -> net_run st evs = Ok st' ->
  L0 <= rcv_off (net_get st y) ->
  L0 - read_off (net_get st y) <= Z.of_nat m ->
  net_now st y + Z.of_nat m * Da < net_now st' y ->
  exists pre post st1, evs = pre ++ post /\ net_run st pre = Ok st1 /\ net_run st1 post = Ok st' /\
                       L0 <= read_off (net_get st1 y).
Proof.
  intros m. induction m as [|m IH]; intros evs fa st st' L0 HDa HN Ho Hsy HRun Hfair Hrun HL Hm Hlate.
  - exists [], evs, st. split; [reflexivity|]. split; [reflexivity|]. split; [exact Hrun | lia].
  - destruct (Z_le_gt_dec L0 (read_off (net_get st y))) as [Hdone | Hmore].
    + exists [], evs, st. split; [reflexivity|]. split; [reflexivity|]. split; [exact Hrun | exact Hdone].
    + assert (Hlate1 : net_now st y + Da < net_now st' y) by (rewrite Nat2Z.inj_succ in Hlate; nia).
      destruct (read_round evs fa st st' L0 (read_off (net_get st y)) HDa HN Ho Hsy HRun Hfair Hrun eq_refl
                  ltac:(lia) HL Hlate1)
        as (pre & post & fa1 & st1 & -> & Hp1 & Hp2 & HR1 & Hf1 & HN1 & Ho1 & Hsy1 & (HQ & HL1) & Hclk).
      assert (Hm1 : L0 - read_off (net_get st1 y) <= Z.of_nat m) by (rewrite Nat2Z.inj_succ in Hm; lia).
      assert (Hlate2 : net_now st1 y + Z.of_nat m * Da < net_now st' y) by (rewrite Nat2Z.inj_succ in Hlate; nia).
      destruct (IH post fa1 st1 st' L0 HDa HN1 Ho1 Hsy1 HR1 Hf1 Hp2 HL1 Hm1 Hlate2)
        as (pre2 & post2 & st2 & -> & Hq1 & Hq2 & HU).
      exists (pre ++ pre2), post2, st2. split; [rewrite app_assoc; reflexivity|].
      split; [eapply net_run_app; eassumption|]. split; assumption.
Qed.

(* STEP 5, the property's own words for the data part: every octet accepted by send (up to the L0
   octets written so far) is eventually DELIVERED TO THE PEER APPLICATION - on every fair run on which
   the safety facts hold, before the clock has advanced by n * W3 + m * Da, with n bounding the
   octets still unacknowledged and m the octets the peer application has still to read. *)
Theorem all_written_bytes_eventually_delivered : forall n m evs fa st st' L0,
  0 <= Dt -> 0 <= Dack -> 0 <= Da ->
  NI st -> opts_ok st -> dl_sync Da fa st ->
  run_all safe st evs -> fair_run Dt Da fa st evs -> net_run st evs = Ok st' ->
  L0 <= l_len (ep_written (net_get st x)) ->
  L0 - una_off (net_get st x) <= Z.of_nat n ->
  L0 - read_off (net_get st y) <= Z.of_nat m ->
  net_now st x + Z.of_nat n * W3 + Z.of_nat m * Da < net_now st' x ->
  exists pre post st1, evs = pre ++ post /\ net_run st pre = Ok st1 /\ net_run st1 post = Ok st' /\
                       L0 <= read_off (net_get st1 y).
Proof.
  intros n m evs fa st st' L0 HDt HDk HDa HN Ho Hsy HRun Hfair Hrun HL Hn Hm Hlate.
  assert (HmDa : 0 <= Z.of_nat m * Da) by nia.
  destruct (all_acked_cont n evs fa st st' L0 HDt HDk HN Ho Hsy HRun Hfair Hrun HL Hn ltac:(lia))
    as (pre & post & fa1 & st1 & -> & Hp1 & Hp2 & HR1 & Hf1 & HN1 & Ho1 & Hsy1 & _ & HRc & Hclk).
  assert (Hrd1 : read_off (net_get st y) <= read_off (net_get st1 y)).
  { destruct (net_run_mono _ _ _ Hp1 y) as (_ & Hr & _). apply TcpNetCompose_l_len_prefix in Hr. exact Hr. }
  assert (Hsk : net_now st' y - net_now st' x = net_now st1 y - net_now st1 x) by apply (net_run_skew2 _ _ _ y x Hp2).
  destruct (all_accepted_eventually_read m post fa1 st1 st' L0 HDa HN1 Ho1 Hsy1 HR1 Hf1 Hp2 HRc ltac:(lia) ltac:(lia))
    as (pre2 & post2 & st2 & -> & Hq1 & Hq2 & HU).
  exists (pre ++ pre2), post2, st2. split; [rewrite app_assoc; reflexivity|].
  split; [eapply net_run_app; eassumption|]. split; assumption.
Qed.

End All.
