(* Termination of the abstract egress loop (property C03, "Interface::poll never fails to return"). *)
From SV Require Import Lib.Base Model.EgressLoop.

Section LoopProofs.
  Variable St : Type.
  Variable dispatch : St -> St * bool.
  (* burst measure of one component at the (fixed) instant of this poll *)
  Variable mu : St -> nat.
  (* an emitting dispatch strictly decreases it, a silent one does not increase it *)
  Hypothesis mu_emit : forall s s', dispatch s = (s', true) -> (mu s' < mu s)%nat.
  Hypothesis mu_idle : forall s s', dispatch s = (s', false) -> (mu s' <= mu s)%nat.

  Definition total (ss : list St) : nat := fold_right (fun s a => (mu s + a)%nat) O ss.

  Lemma pass_total ss ss' e :
    egress_pass St dispatch ss = (ss', e) ->
    (total ss' <= total ss)%nat /\ (e = true -> total ss' < total ss)%nat /\ length ss' = length ss.
  Proof.
    revert ss' e; induction ss as [|s rest IH]; intros ss' e H; cbn [egress_pass] in H.
    - inversion H; subst. cbn. split; [lia|]. split; [discriminate | reflexivity].
    - destruct (dispatch s) as (s1, e1) eqn:Hd.
      destruct (egress_pass St dispatch rest) as (r1, e2) eqn:Hr.
      inversion H; subst; clear H.
      destruct (IH r1 e2 eq_refl) as (Hle & Hlt & Hlen).
      cbn [total fold_right length]. fold (total r1). fold (total rest).
      destruct e1.
      + pose proof (mu_emit s s1 Hd). split; [lia|]. split; [intros _; lia | congruence].
      + pose proof (mu_idle s s1 Hd). split; [lia|]. split; [|congruence].
        cbn [orb]. intros He2. specialize (Hlt He2). lia.
  Qed.

  (* with fuel above the total measure the loop returns, after at most [total ss] emitting passes,
     and the measure it leaves behind has dropped by at least the number of emitting passes *)
  Lemma poll_loop_returns : forall fuel ss,
    (total ss < fuel)%nat ->
    exists r n, poll_loop St dispatch fuel ss = Some (r, n) /\ (n + total r <= total ss)%nat /\
                length r = length ss.
  Proof.
    induction fuel as [|f IH]; intros ss Hf; [lia|].
    cbn [poll_loop].
    destruct (egress_pass St dispatch ss) as (ss', e) eqn:Hp.
    destruct (pass_total ss ss' e Hp) as (Hle & Hlt & Hlen).
    destruct e.
    - specialize (Hlt eq_refl).
      destruct (IH ss' ltac:(lia)) as (r & n & Hr & Hn & Hl).
      rewrite Hr. exists r, (S n). split; [reflexivity|]. split; [lia | congruence].
    - exists ss', O. split; [reflexivity|]. split; [lia | exact Hlen].
  Qed.

  (* fuel never decides: more fuel gives the same answer *)
  Lemma poll_loop_fuel_irrelevant : forall f1 f2 ss,
    (total ss < f1)%nat -> (total ss < f2)%nat ->
    poll_loop St dispatch f1 ss = poll_loop St dispatch f2 ss.
  Proof.
    induction f1 as [|f1 IH]; intros f2 ss H1 H2; [lia|].
    destruct f2 as [|f2]; [lia|]. cbn [poll_loop].
    destruct (egress_pass St dispatch ss) as (ss', e) eqn:Hp.
    destruct (pass_total ss ss' e Hp) as (Hle & Hlt & _).
    destruct e; [|reflexivity]. specialize (Hlt eq_refl).
    rewrite (IH f2 ss'); [reflexivity | lia | lia].
  Qed.
End LoopProofs.

(* non-vacuity: three components that emit 2, 0 and 3 packets; the loop makes 3 emitting passes *)
Definition ex_dispatch (k : nat) : nat * bool := match k with O => (O, false) | S k' => (k', true) end.
Lemma egress_loop_example :
  poll_loop nat ex_dispatch 10 [2; 0; 3]%nat = Some ([0; 0; 0]%nat, 3%nat).
Proof. vm_compute. reflexivity. Qed.
