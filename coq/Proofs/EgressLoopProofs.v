(* Termination of the abstract egress loop (property C03, "Interface::poll never fails to return"). *)
From SV Require Import Lib.Base Model.EgressLoop.

Section LoopProofs.
  Variable St : Type.
  Variable dispatch : St -> St * bool.
  (* burst measure of one component at the (fixed) instant of this poll *)
  Variable mu : St -> nat.
  (* an emitting dispatch strictly decreases it, a silent one does not increase it *)
  Hypothesis mu_emit : forall s s', dispatch s = (s', true) -> (mu s' < mu s)%nat.
  Hypothesis mu_idle : forall s s', dispatch s = (s', false) -> (mu s' <= mu s)%nat.

  Definition total (ss : list St) : nat := fold_right (fun s a => (mu s + a)%nat) O ss.

  Lemma pass_total ss ss' e :
    egress_pass St dispatch ss = (ss', e) ->
    (total ss' <= total ss)%nat /\ (e = true -> total ss' < total ss)%nat /\ length ss' = length ss.
  Proof.
    revert ss' e; induction ss as [|s rest IH]; intros ss' e H; cbn [egress_pass] in H.
    - inversion H; subst. cbn. split; [lia|]. split; [discriminate | reflexivity].
    - destruct (dispatch s) as (s1, e1) eqn:Hd.
      destruct (egress_pass St dispatch rest) as (r1, e2) eqn:Hr.
      inversion H; subst; clear H.
      destruct (IH r1 e2 eq_refl) as (Hle & Hlt & Hlen).
      cbn [total fold_right length]. fold (total r1). fold (total rest).
      destruct e1.
      + pose proof (mu_emit s s1 Hd). split; [lia|]. split; [intros _; lia | congruence].
      + pose proof (mu_idle s s1 Hd). split; [lia|]. split; [|congruence].
        cbn [orb]. intros He2. specialize (Hlt He2). lia.
  Qed.

  (* with fuel above the total measure the loop returns, after at most [total ss] emitting passes,
     and the measure it leaves behind has dropped by at least the number of emitting passes *)
  Lemma poll_loop_returns : forall fuel ss,
    (total ss < fuel)%nat ->
    exists r n, poll_loop St dispatch fuel ss = Some (r, n) /\ (n + total r <= total ss)%nat /\
                length r = length ss.
  Proof.
    induction fuel as [|f IH]; intros ss Hf; [lia|].
    cbn [poll_loop].
    destruct (egress_pass St dispatch ss) as (ss', e) eqn:Hp.
    destruct (pass_total ss ss' e Hp) as (Hle & Hlt & Hlen).
    destruct e.
    - specialize (Hlt eq_refl).
      destruct (IH ss' ltac:(lia)) as (r & n & Hr & Hn & Hl).
      rewrite Hr. exists r, (S n). split; [reflexivity|]. split; [lia | congruence].
    - exists ss', O. split; [reflexivity|]. split; [lia | exact Hlen].
  Qed.

  (* fuel never decides: more fuel gives the same answer *)
  Lemma poll_loop_fuel_irrelevant : forall f1 f2 ss,
    (total ss < f1)%nat -> (total ss < f2)%nat ->
    poll_loop St dispatch f1 ss = poll_loop St dispatch f2 ss.
  Proof.
    induction f1 as [|f1 IH]; intros f2 ss H1 H2; [lia|].
    destruct f2 as [|f2]; [lia|]. cbn [poll_loop].
    destruct (egress_pass St dispatch ss) as (ss', e) eqn:Hp.
    destruct (pass_total ss ss' e Hp) as (Hle & Hlt & _).
    destruct e; [|reflexivity]. specialize (Hlt eq_refl).
    rewrite (IH f2 ss'); [reflexivity | lia | lia].
  Qed.
End LoopProofs.

(* non-vacuity: three components that emit 2, 0 and 3 packets; the loop makes 3 emitting passes *)
Definition ex_dispatch (k : nat) : nat * bool := match k with O => (O, false) | S k' => (k', true) end.
Lemma egress_loop_example :
  poll_loop nat ex_dispatch 10 [2; 0; 3]%nat = Some ([0; 0; 0]%nat, 3%nat).
Proof. vm_compute. reflexivity. Qed.

(* ---- the loop with a shared environment, an invariant and the break on an exhausted device ---- *)
Section Loop2Proofs.
  Variable E St : Type.
  Variable dispatch : E -> St -> E * St * dres.
  Variable pre : E -> E.
  Variable Inv : St -> Prop.
  Variable mu : St -> nat.
  Hypothesis inv_step : forall e s e' s' r, Inv s -> dispatch e s = (e', s', r) -> Inv s'.
  Hypothesis mu_sent : forall e s e' s', Inv s -> dispatch e s = (e', s', RSent) -> (mu s' < mu s)%nat.
  Hypothesis mu_else : forall e s e' s' r, Inv s -> dispatch e s = (e', s', r) -> r <> RSent ->
                                          (mu s' <= mu s)%nat.

  Definition total2 (ss : list St) : nat := fold_right (fun s a => (mu s + a)%nat) O ss.

  Lemma pass2_total : forall ss e e' ss' b,
    Forall Inv ss -> egress_pass2 E St dispatch e ss = (e', ss', b) ->
    Forall Inv ss' /\ (total2 ss' <= total2 ss)%nat /\ (b = true -> total2 ss' < total2 ss)%nat /\
    length ss' = length ss.
  Proof.
    induction ss as [|s rest IH]; intros e e' ss' b HI H; cbn [egress_pass2] in H.
    - inversion H; subst. cbn. split; [constructor|]. split; [lia|]. split; [discriminate | reflexivity].
    - inversion HI as [|? ? Hs Hrest]; subst.
      destruct (dispatch e s) as ((e1, s1), r) eqn:Hd.
      pose proof (inv_step _ _ _ _ _ Hs Hd) as Hs1.
      destruct r.
      + destruct (egress_pass2 E St dispatch e1 rest) as ((e2, r1), b2) eqn:Hr.
        inversion H; subst; clear H.
        destruct (IH _ _ _ _ Hrest Hr) as (HI' & Hle & _ & Hlen).
        pose proof (mu_sent _ _ _ _ Hs Hd).
        cbn [total2 fold_right length]. fold (total2 r1). fold (total2 rest).
        split; [constructor; assumption|]. split; [lia|]. split; [intros _; lia | congruence].
      + destruct (egress_pass2 E St dispatch e1 rest) as ((e2, r1), b2) eqn:Hr.
        inversion H; subst; clear H.
        destruct (IH _ _ _ _ Hrest Hr) as (HI' & Hle & Hlt & Hlen).
        pose proof (mu_else _ _ _ _ _ Hs Hd ltac:(discriminate)).
        cbn [total2 fold_right length]. fold (total2 r1). fold (total2 rest).
        split; [constructor; assumption|]. split; [lia|].
        split; [intros Hb; specialize (Hlt Hb); lia | congruence].
      + inversion H; subst; clear H.
        pose proof (mu_else _ _ _ _ _ Hs Hd ltac:(discriminate)).
        cbn [total2 fold_right length]. fold (total2 rest).
        split; [constructor; assumption|]. split; [lia|]. split; [discriminate | reflexivity].
  Qed.

  Lemma poll_loop2_returns : forall fuel e ss,
    Forall Inv ss -> (total2 ss < fuel)%nat ->
    exists e' r n, poll_loop2 E St dispatch pre fuel e ss = Some (e', r, n) /\
                   (n + total2 r <= total2 ss)%nat /\ length r = length ss /\ Forall Inv r.
  Proof.
    induction fuel as [|f IH]; intros e ss HI Hf; [lia|].
    cbn [poll_loop2].
    destruct (egress_pass2 E St dispatch (pre e) ss) as ((e1, ss'), b) eqn:Hp.
    destruct (pass2_total _ _ _ _ _ HI Hp) as (HI' & Hle & Hlt & Hlen).
    destruct b.
    - specialize (Hlt eq_refl).
      destruct (IH e1 ss' HI' ltac:(lia)) as (e2 & r & n & Hr & Hn & Hl & HIr).
      rewrite Hr. exists e2, r, (S n). split; [reflexivity|]. split; [lia|]. split; [congruence | exact HIr].
    - exists e1, ss', O. split; [reflexivity|]. split; [lia|]. split; [exact Hlen | exact HI'].
  Qed.
End Loop2Proofs.

(* non-vacuity for the second loop: environment = device transmit budget (refilled by nothing, one
   token eaten by the interface itself before each pass); components emit 2, 0 and 3 packets *)
Definition ex_dispatch2 (budget : nat) (k : nat) : nat * nat * dres :=
  match k with
  | O => (budget, O, RSilent)
  | S k' => match budget with O => (O, k, RExhausted) | S b' => (b', k', RSent) end
  end.
Lemma egress_loop2_example :
  poll_loop2 nat nat ex_dispatch2 Nat.pred 10 4%nat [2; 0; 3]%nat = Some (0%nat, [1; 0; 2]%nat, 1%nat) /\
  poll_loop2 nat nat ex_dispatch2 Nat.pred 10 20%nat [2; 0; 3]%nat = Some (11%nat, [0; 0; 0]%nat, 3%nat).
Proof. vm_compute. split; reflexivity. Qed.

(* ---- mixed socket sets: the hypotheses of [poll_loop2_returns] are closed under sums of component
        kinds, so sets mixing several socket kinds need no further argument ---- *)
Section SumComponents.
  Variable E A B : Type.
  Variable dA : E -> A -> E * A * dres.
  Variable dB : E -> B -> E * B * dres.
  Variable InvA : A -> Prop.
  Variable InvB : B -> Prop.
  Variable muA : A -> nat.
  Variable muB : B -> nat.

  Definition sum_dispatch (e : E) (s : A + B) : E * (A + B) * dres :=
    match s with
    | inl a => let '(e', a', r) := dA e a in (e', inl a', r)
    | inr b => let '(e', b', r) := dB e b in (e', inr b', r)
    end.
  Definition sum_inv (s : A + B) : Prop := match s with inl a => InvA a | inr b => InvB b end.
  Definition sum_mu (s : A + B) : nat := match s with inl a => muA a | inr b => muB b end.

  Hypothesis invA : forall e s e' s' r, InvA s -> dA e s = (e', s', r) -> InvA s'.
  Hypothesis sentA : forall e s e' s', InvA s -> dA e s = (e', s', RSent) -> (muA s' < muA s)%nat.
  Hypothesis elseA : forall e s e' s' r, InvA s -> dA e s = (e', s', r) -> r <> RSent -> (muA s' <= muA s)%nat.
  Hypothesis invB : forall e s e' s' r, InvB s -> dB e s = (e', s', r) -> InvB s'.
  Hypothesis sentB : forall e s e' s', InvB s -> dB e s = (e', s', RSent) -> (muB s' < muB s)%nat.
  Hypothesis elseB : forall e s e' s' r, InvB s -> dB e s = (e', s', r) -> r <> RSent -> (muB s' <= muB s)%nat.

  Lemma sum_inv_step : forall e s e' s' r, sum_inv s -> sum_dispatch e s = (e', s', r) -> sum_inv s'.
  Proof.
    intros e [a|b] e' s' r HI H; cbn [sum_dispatch] in H.
    - destruct (dA e a) as ((e1, a1), r1) eqn:Hd. inversion H; subst. exact (invA _ _ _ _ _ HI Hd).
    - destruct (dB e b) as ((e1, b1), r1) eqn:Hd. inversion H; subst. exact (invB _ _ _ _ _ HI Hd).
  Qed.
  Lemma sum_mu_sent : forall e s e' s', sum_inv s -> sum_dispatch e s = (e', s', RSent) ->
    (sum_mu s' < sum_mu s)%nat.
  Proof.
    intros e [a|b] e' s' HI H; cbn [sum_dispatch] in H.
    - destruct (dA e a) as ((e1, a1), r1) eqn:Hd. inversion H; subst. exact (sentA _ _ _ _ HI Hd).
    - destruct (dB e b) as ((e1, b1), r1) eqn:Hd. inversion H; subst. exact (sentB _ _ _ _ HI Hd).
  Qed.
  Lemma sum_mu_else : forall e s e' s' r, sum_inv s -> sum_dispatch e s = (e', s', r) -> r <> RSent ->
    (sum_mu s' <= sum_mu s)%nat.
  Proof.
    intros e [a|b] e' s' r HI H Hr; cbn [sum_dispatch] in H.
    - destruct (dA e a) as ((e1, a1), r1) eqn:Hd. inversion H; subst. exact (elseA _ _ _ _ _ HI Hd Hr).
    - destruct (dB e b) as ((e1, b1), r1) eqn:Hd. inversion H; subst. exact (elseB _ _ _ _ _ HI Hd Hr).
  Qed.

  Theorem mixed_set_returns : forall pre fuel e ss,
    Forall sum_inv ss -> (total2 (A + B) sum_mu ss < fuel)%nat ->
    exists e' r n, poll_loop2 E (A + B) sum_dispatch pre fuel e ss = Some (e', r, n) /\
                   (n + total2 (A + B) sum_mu r <= total2 (A + B) sum_mu ss)%nat /\
                   length r = length ss /\ Forall sum_inv r.
  Proof.
    intros pre fuel e ss HI Hf.
    exact (poll_loop2_returns E (A + B) sum_dispatch pre sum_inv sum_mu
             sum_inv_step sum_mu_sent sum_mu_else fuel e ss HI Hf).
  Qed.
End SumComponents.
