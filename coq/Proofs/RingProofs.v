(* Proofs about Model/Ring.v: the ring buffer refines the list-queue machine [qs_*].
   Technique: every list equation is proved by extensionality on [nth_error] (lemmas
   [nth_error_*_if] turn firstn/skipn/++/cons into nested conditionals) followed by case
   analysis and lia; index arithmetic modulo the (variable) capacity is first rewritten into
   the linear case split [wrap] by [mod_wrap]. *)
From SV Require Import Lib.Base Model.Ring.
Set Implicit Arguments.

(* ------------------------------------------------------------------------------------ *)
(* lists by extensionality                                                               *)
(* ------------------------------------------------------------------------------------ *)
Section ListExt.
Context {A : Type}.
Implicit Types l : list A.

Lemma nth_error_ext : forall l1 l2, (forall i, nth_error l1 i = nth_error l2 i) -> l1 = l2.
Proof.
  induction l1; destruct l2; intros H; auto.
  - specialize (H 0%nat); discriminate.
  - specialize (H 0%nat); discriminate.
  - f_equal.
    + specialize (H 0%nat). simpl in H. congruence.
    + apply IHl1. intro i. apply (H (S i)).
Qed.

Lemma nth_error_firstn_if : forall n l i,
  nth_error (firstn n l) i = if (i <? n)%nat then nth_error l i else None.
Proof.
  induction n; intros l i.
  - simpl. destruct i; reflexivity.
  - destruct l; simpl.
    + destruct i; simpl; try reflexivity. destruct (Nat.ltb (S i) (S n)); reflexivity.
    + destruct i; simpl; auto. rewrite IHn. reflexivity.
Qed.

Lemma nth_error_skipn_add : forall k l i, nth_error (skipn k l) i = nth_error l (k + i).
Proof.
  induction k; intros l i; simpl; auto.
  destruct l; simpl; auto. destruct i; reflexivity.
Qed.

Lemma nth_error_app_if : forall l1 l2 i,
  nth_error (l1 ++ l2) i =
  if (i <? length l1)%nat then nth_error l1 i else nth_error l2 (i - length l1).
Proof.
  intros. destruct (Nat.ltb_spec i (length l1)).
  - apply nth_error_app1; auto.
  - apply nth_error_app2; auto.
Qed.

Lemma nth_error_cons_if : forall x l i,
  nth_error (x :: l) i = if (i =? 0)%nat then Some x else nth_error l (i - 1).
Proof. intros. destruct i; simpl; auto. rewrite Nat.sub_0_r. reflexivity. Qed.

Lemma nth_error_nil_any : forall i, nth_error (@nil A) i = None.
Proof. destruct i; reflexivity. Qed.
End ListExt.

Ltac nth_norm :=
  repeat (rewrite ?nth_error_firstn_if, ?nth_error_skipn_add, ?nth_error_app_if,
            ?nth_error_cons_if, ?nth_error_nil_any, ?firstn_length, ?skipn_length, ?app_length;
          cbn [length]).
Ltac nat_cases :=
  repeat match goal with
  | |- context [(?a <? ?b)%nat] => destruct (Nat.ltb_spec a b)
  | |- context [(?a =? ?b)%nat] => destruct (Nat.eqb_spec a b)
  end.
Ltac nth_leaf :=
  first [ reflexivity
        | exfalso; lia
        | f_equal; lia
        | apply nth_error_None; lia
        | symmetry; apply nth_error_None; lia ].
(* prove an equation between lists built from firstn/skipn/++/cons over base lists *)
Ltac list_ext :=
  apply nth_error_ext; let i := fresh "i" in intro i; nth_norm; nat_cases; nth_leaf.

(* ------------------------------------------------------------------------------------ *)
(* Z-indexed helpers                                                                      *)
(* ------------------------------------------------------------------------------------ *)
Lemma mod_wrap : forall c x, 0 < c -> 0 <= x < 2 * c -> x mod c = wrap c x.
Proof.
  intros. unfold wrap. destruct (Z.leb_spec c x).
  - assert (E : x = (x - c) + 1 * c) by lia. rewrite E at 1.
    rewrite Z.mod_add by lia. apply Z.mod_small. lia.
  - apply Z.mod_small; lia.
Qed.

Section ZList.
Context {A : Type}.
Implicit Types l d w : list A.

Lemma zlen_nonneg : forall l, 0 <= zlen l.
Proof. unfold zlen; lia. Qed.

Lemma overlay_length : forall w old, length (overlay w old) = length old.
Proof. intros. unfold overlay. rewrite app_length, firstn_length, skipn_length. lia. Qed.

Lemma slice_length : forall l lo n, 0 <= lo -> 0 <= n -> lo + n <= zlen l ->
  length (slice l lo n) = Z.to_nat n.
Proof. intros. unfold slice, zlen in *. rewrite firstn_length, skipn_length. lia. Qed.

Lemma put_length : forall l lo d, 0 <= lo -> lo + zlen d <= zlen l ->
  length (put l lo d) = length l.
Proof.
  intros. unfold put, zlen in *. rewrite !app_length, firstn_length, skipn_length. lia.
Qed.

Lemma rotl_length : forall k l, length (rotl k l) = length l.
Proof. intros. unfold rotl. rewrite app_length, firstn_length, skipn_length. lia. Qed.

Lemma in_range_true : forall l lo n, 0 <= lo -> 0 <= n -> lo + n <= zlen l -> in_range l lo n = true.
Proof. intros. unfold in_range. lia. Qed.
End ZList.

(* ------------------------------------------------------------------------------------ *)
(* the rotated (logical) view of the storage                                             *)
(* ------------------------------------------------------------------------------------ *)
Definition pidx (c read j : Z) : Z := if 0 <? c then wrap c (read + j) else 0.

Section Rot.
Context {A : Type}.
Implicit Types store l d : list A.

(* reading a non-wrapping physical range = reading the logical range *)
Lemma rot_slice : forall store read j n,
  0 <= read < Z.max 1 (zlen store) -> 0 <= j -> 0 <= n -> j + n <= zlen store ->
  pidx (zlen store) read j + n <= zlen store ->
  slice store (pidx (zlen store) read j) n = slice (rotl read store) j n.
Proof.
  intros store read j n Hr Hj Hn Hjn Hp. unfold pidx, wrap, slice, rotl, zlen in *.
  destruct (Z.ltb_spec 0 (Z.of_nat (length store))).
  - destruct (Z.leb_spec (Z.of_nat (length store)) (read + j)); list_ext.
  - destruct store; [|simpl in *; lia]. list_ext.
Qed.

(* writing a non-wrapping physical range = writing the logical range *)
Lemma rot_put : forall store read j d,
  0 <= read < Z.max 1 (zlen store) -> 0 <= j -> j + zlen d <= zlen store ->
  pidx (zlen store) read j + zlen d <= zlen store ->
  rotl read (put store (pidx (zlen store) read j) d) = put (rotl read store) j d.
Proof.
  intros store read j d Hr Hj Hjn Hp. unfold pidx, wrap, put, rotl, zlen in *.
  destruct (Z.ltb_spec 0 (Z.of_nat (length store))).
  - destruct (Z.leb_spec (Z.of_nat (length store)) (read + j)); list_ext.
  - destruct store; [|simpl in *; lia]. destruct d; [|simpl in *; lia]. list_ext.
Qed.

(* advancing the read position by k = rotating the logical view by k *)
Lemma rot_rot : forall store read k,
  0 <= read < Z.max 1 (zlen store) -> 0 <= k <= zlen store ->
  rotl (pidx (zlen store) read k) store = rotl k (rotl read store).
Proof.
  intros store read k Hr Hk. unfold pidx, wrap, rotl, zlen in *.
  destruct (Z.ltb_spec 0 (Z.of_nat (length store))).
  - destruct (Z.leb_spec (Z.of_nat (length store)) (read + k)); list_ext.
  - destruct store; [|simpl in *; lia]. list_ext.
Qed.

(* resetting the read position to 0 *)
Lemma rot_reset : forall store read,
  0 <= read < Z.max 1 (zlen store) ->
  rotl 0 store = rotl (zlen store - read) (rotl read store).
Proof.
  intros store read Hr. unfold rotl, zlen in *. list_ext.
Qed.
End Rot.
