(* Proofs about Model/Ring.v: the ring buffer refines the list-queue machine [qs_*].
   Technique: every list equation is proved by extensionality on [nth_error] (lemmas
   [nth_error_*_if] turn firstn/skipn/++/cons into nested conditionals) followed by case
   analysis and lia; index arithmetic modulo the (variable) capacity is first rewritten into
   the linear case split [wrap] by [mod_wrap]. *)
From SV Require Import Lib.Base Model.Ring.
Set Implicit Arguments.

(* ------------------------------------------------------------------------------------ *)
(* lists by extensionality                                                               *)
(* ------------------------------------------------------------------------------------ *)
Section ListExt.
Context {A : Type}.
Implicit Types l : list A.

Lemma nth_error_ext : forall l1 l2, (forall i, nth_error l1 i = nth_error l2 i) -> l1 = l2.
Proof.
  induction l1; destruct l2; intros H; auto.
  - specialize (H 0%nat); discriminate.
  - specialize (H 0%nat); discriminate.
  - f_equal.
    + specialize (H 0%nat). simpl in H. congruence.
    + apply IHl1. intro i. apply (H (S i)).
Qed.

Lemma nth_error_firstn_if : forall n l i,
  nth_error (firstn n l) i = if (i <? n)%nat then nth_error l i else None.
Proof.
  induction n; intros l i.
  - simpl. destruct i; reflexivity.
  - destruct l; simpl.
    + destruct i; simpl; try reflexivity. destruct (Nat.ltb (S i) (S n)); reflexivity.
    + destruct i; simpl; auto. rewrite IHn. reflexivity.
Qed.

Lemma nth_error_skipn_add : forall k l i, nth_error (skipn k l) i = nth_error l (k + i).
Proof.
  induction k; intros l i; simpl; auto.
  destruct l; simpl; auto. destruct i; reflexivity.
Qed.

Lemma nth_error_app_if : forall l1 l2 i,
  nth_error (l1 ++ l2) i =
  if (i <? length l1)%nat then nth_error l1 i else nth_error l2 (i - length l1).
Proof.
  intros. destruct (Nat.ltb_spec i (length l1)).
  - apply nth_error_app1; auto.
  - apply nth_error_app2; auto.
Qed.

Lemma nth_error_cons_if : forall x l i,
  nth_error (x :: l) i = if (i =? 0)%nat then Some x else nth_error l (i - 1).
Proof. intros. destruct i; simpl; auto. rewrite Nat.sub_0_r. reflexivity. Qed.

Lemma nth_error_nil_any : forall i, nth_error (@nil A) i = None.
Proof. destruct i; reflexivity. Qed.
End ListExt.

Ltac nth_norm :=
  repeat (rewrite ?nth_error_firstn_if, ?nth_error_skipn_add, ?nth_error_app_if,
            ?nth_error_cons_if, ?nth_error_nil_any, ?firstn_length, ?skipn_length, ?app_length;
          cbn [length]).
Ltac nat_cases :=
  repeat match goal with
  | |- context [(?a <? ?b)%nat] => destruct (Nat.ltb_spec a b)
  | |- context [(?a =? ?b)%nat] => destruct (Nat.eqb_spec a b)
  end.
Ltac nth_leaf :=
  first [ reflexivity
        | exfalso; lia
        | f_equal; lia
        | apply nth_error_None; lia
        | symmetry; apply nth_error_None; lia
        | etransitivity; [apply nth_error_None; lia | symmetry; apply nth_error_None; lia] ].
(* prove an equation between lists built from firstn/skipn/++/cons over base lists *)
Ltac list_ext :=
  apply nth_error_ext; let i := fresh "i" in intro i; nth_norm; nat_cases; nth_leaf.

(* ------------------------------------------------------------------------------------ *)
(* Z-indexed helpers                                                                      *)
(* ------------------------------------------------------------------------------------ *)
Lemma mod_wrap : forall c x, 0 < c -> 0 <= x < 2 * c -> x mod c = wrap c x.
Proof.
  intros. unfold wrap. destruct (Z.leb_spec c x).
  - assert (E : x = (x - c) + 1 * c) by lia. rewrite E at 1.
    rewrite Z.mod_add by lia. apply Z.mod_small. lia.
  - apply Z.mod_small; lia.
Qed.

Section ZList.
Context {A : Type}.
Implicit Types l d w : list A.

Lemma zlen_nonneg : forall l, 0 <= zlen l.
Proof. unfold zlen; lia. Qed.

Lemma overlay_length : forall w old, length (overlay w old) = length old.
Proof. intros. unfold overlay. rewrite app_length, firstn_length, skipn_length. lia. Qed.

Lemma slice_length : forall l lo n, 0 <= lo -> 0 <= n -> lo + n <= zlen l ->
  length (slice l lo n) = Z.to_nat n.
Proof. intros. unfold slice, zlen in *. rewrite firstn_length, skipn_length. lia. Qed.

Lemma put_length : forall l lo d, 0 <= lo -> lo + zlen d <= zlen l ->
  length (put l lo d) = length l.
Proof.
  intros. unfold put, zlen in *. rewrite !app_length, firstn_length, skipn_length. lia.
Qed.

Lemma rotl_length : forall k l, length (rotl k l) = length l.
Proof. intros. unfold rotl. rewrite app_length, firstn_length, skipn_length. lia. Qed.

Lemma in_range_true : forall l lo n, 0 <= lo -> 0 <= n -> lo + n <= zlen l -> in_range l lo n = true.
Proof. intros. unfold in_range. lia. Qed.
End ZList.


(* ------------------------------------------------------------------------------------ *)
(* the rotated (logical) view of the storage: nat-level list algebra                      *)
(* ------------------------------------------------------------------------------------ *)
Section RotNat.
Context {A : Type}.
Implicit Types store l d : list A.
Definition rotn (r : nat) l := skipn r l ++ firstn r l.
Definition putn l (lo : nat) d := firstn lo l ++ d ++ skipn (lo + length d) l.

Lemma rotn_length : forall r l, length (rotn r l) = length l.
Proof. intros. unfold rotn. rewrite app_length, firstn_length, skipn_length. lia. Qed.
Lemma putn_length : forall l lo d, (lo + length d <= length l)%nat -> length (putn l lo d) = length l.
Proof. intros. unfold putn. rewrite !app_length, firstn_length, skipn_length. lia. Qed.

Lemma nth_error_rotn : forall r l i, (r <= length l)%nat ->
  nth_error (rotn r l) i =
  if (i <? length l - r)%nat then nth_error l (r + i)
  else if (i <? length l)%nat then nth_error l (i - (length l - r)) else None.
Proof. intros. unfold rotn. nth_norm. nat_cases; nth_leaf. Qed.

Lemma nth_error_putn : forall l lo d i, (lo + length d <= length l)%nat ->
  nth_error (putn l lo d) i =
  if (i <? lo)%nat then nth_error l i
  else if (i <? lo + length d)%nat then nth_error d (i - lo) else nth_error l i.
Proof. intros. unfold putn. nth_norm. nat_cases; nth_leaf. Qed.

Ltac rot_ext :=
  apply nth_error_ext; let i := fresh "i" in intro i;
  repeat (first [ rewrite nth_error_rotn by (rewrite ?putn_length, ?rotn_length by lia; lia)
                | rewrite nth_error_putn by (rewrite ?putn_length, ?rotn_length by lia; lia)
                | rewrite putn_length by (rewrite ?rotn_length; lia)
                | rewrite rotn_length ]);
  nth_norm; nat_cases; nth_leaf.

Lemma rotn_slice1 : forall store r j n, (r + j + n <= length store)%nat ->
  firstn n (skipn (r + j) store) = firstn n (skipn j (rotn r store)).
Proof. intros. unfold rotn. list_ext. Qed.
Lemma rotn_slice2 : forall store r j n,
  (r <= length store)%nat -> (length store <= r + j)%nat -> (j + n <= length store)%nat ->
  firstn n (skipn (r + j - length store) store) = firstn n (skipn j (rotn r store)).
Proof. intros. unfold rotn. list_ext. Qed.
Lemma rotn_put1 : forall store r j d, (r + j + length d <= length store)%nat ->
  rotn r (putn store (r + j) d) = putn (rotn r store) j d.
Proof. intros. rot_ext. Qed.
Lemma rotn_put2 : forall store r j d,
  (r <= length store)%nat -> (length store <= r + j)%nat -> (j + length d <= length store)%nat ->
  rotn r (putn store (r + j - length store) d) = putn (rotn r store) j d.
Proof. intros. rot_ext. Qed.
Lemma rotn_rotn1 : forall store r k, (r + k <= length store)%nat ->
  rotn (r + k) store = rotn k (rotn r store).
Proof. intros. unfold rotn. list_ext. Qed.
Lemma rotn_rotn2 : forall store r k,
  (r <= length store)%nat -> (length store <= r + k)%nat -> (k <= length store)%nat ->
  rotn (r + k - length store) store = rotn k (rotn r store).
Proof. intros. unfold rotn. list_ext. Qed.
Lemma rotn_reset : forall store r, (r <= length store)%nat ->
  rotn 0 store = rotn (length store - r) (rotn r store).
Proof. intros. unfold rotn. list_ext. Qed.
End RotNat.

(* ------------------------------------------------------------------------------------ *)
(* the same at Z indices                                                                  *)
(* ------------------------------------------------------------------------------------ *)
Definition pidx (c read j : Z) : Z := if 0 <? c then wrap c (read + j) else 0.

Section Rot.
Context {A : Type}.
Implicit Types store l d : list A.

Lemma rotl_rotn : forall k l, rotl k l = rotn (Z.to_nat k) l.
Proof. reflexivity. Qed.
Lemma put_putn : forall l lo d, put l lo d = putn l (Z.to_nat lo) d.
Proof. reflexivity. Qed.

Lemma slice_nil : forall lo n, slice (@nil A) lo n = [].
Proof. intros. unfold slice. rewrite skipn_nil, firstn_nil. reflexivity. Qed.

(* reading a non-wrapping physical range = reading the logical range *)
Lemma rot_slice : forall store read j n,
  0 <= read < Z.max 1 (zlen store) -> 0 <= j -> 0 <= n -> j + n <= zlen store ->
  pidx (zlen store) read j + n <= zlen store ->
  slice store (pidx (zlen store) read j) n = slice (rotl read store) j n.
Proof.
  intros store read j n Hr Hj Hn Hjn Hp. unfold pidx, wrap, slice in *. rewrite rotl_rotn.
  unfold zlen in *.
  destruct (Z.ltb_spec 0 (Z.of_nat (length store))).
  - destruct (Z.leb_spec (Z.of_nat (length store)) (read + j)).
    + replace (Z.to_nat (read + j - Z.of_nat (length store)))
        with (Z.to_nat read + Z.to_nat j - length store)%nat by lia.
      apply rotn_slice2; lia.
    + replace (Z.to_nat (read + j)) with (Z.to_nat read + Z.to_nat j)%nat by lia.
      apply rotn_slice1; lia.
  - destruct store; [|simpl in *; lia]. unfold rotn.
    rewrite !skipn_nil, !firstn_nil. simpl. rewrite !skipn_nil, !firstn_nil. reflexivity.
Qed.

Lemma rot_put : forall store read j d,
  0 <= read < Z.max 1 (zlen store) -> 0 <= j -> j + zlen d <= zlen store ->
  pidx (zlen store) read j + zlen d <= zlen store ->
  rotl read (put store (pidx (zlen store) read j) d) = put (rotl read store) j d.
Proof.
  intros store read j d Hr Hj Hjn Hp. unfold pidx, wrap in *. rewrite !rotl_rotn, !put_putn.
  unfold zlen in *.
  destruct (Z.ltb_spec 0 (Z.of_nat (length store))).
  - destruct (Z.leb_spec (Z.of_nat (length store)) (read + j)).
    + replace (Z.to_nat (read + j - Z.of_nat (length store)))
        with (Z.to_nat read + Z.to_nat j - length store)%nat by lia.
      apply rotn_put2; lia.
    + replace (Z.to_nat (read + j)) with (Z.to_nat read + Z.to_nat j)%nat by lia.
      apply rotn_put1; lia.
  - destruct store; [|simpl in *; lia]. destruct d; [|simpl in *; lia].
    replace (Z.to_nat read) with 0%nat by (simpl in *; lia).
    replace (Z.to_nat j) with 0%nat by (simpl in *; lia). reflexivity.
Qed.

Lemma rot_rot : forall store read k,
  0 <= read < Z.max 1 (zlen store) -> 0 <= k <= zlen store ->
  rotl (pidx (zlen store) read k) store = rotl k (rotl read store).
Proof.
  intros store read k Hr Hk. unfold pidx, wrap in *. rewrite !rotl_rotn. unfold zlen in *.
  destruct (Z.ltb_spec 0 (Z.of_nat (length store))).
  - destruct (Z.leb_spec (Z.of_nat (length store)) (read + k)).
    + replace (Z.to_nat (read + k - Z.of_nat (length store)))
        with (Z.to_nat read + Z.to_nat k - length store)%nat by lia.
      apply rotn_rotn2; lia.
    + replace (Z.to_nat (read + k)) with (Z.to_nat read + Z.to_nat k)%nat by lia.
      apply rotn_rotn1; lia.
  - destruct store; [|simpl in *; lia]. unfold rotn.
    rewrite !skipn_nil, !firstn_nil. simpl. rewrite ?skipn_nil, ?firstn_nil. reflexivity.
Qed.

Lemma rot_reset : forall store read,
  0 <= read < Z.max 1 (zlen store) ->
  rotl 0 store = rotl (zlen store - read) (rotl read store).
Proof.
  intros store read Hr. rewrite !rotl_rotn. unfold zlen in *.
  replace (Z.to_nat (Z.of_nat (length store) - read)) with (length store - Z.to_nat read)%nat by lia.
  apply rotn_reset. lia.
Qed.

Lemma rotl_0 : forall l, rotl 0 l = l.
Proof. intros. unfold rotl. simpl. apply app_nil_r. Qed.
End Rot.

(* ------------------------------------------------------------------------------------ *)
(* list algebra on q ++ fr                                                                *)
(* ------------------------------------------------------------------------------------ *)
Section AppAlg.
Context {A : Type}.
Implicit Types q fr l d : list A.

Lemma to_nat_zlen : forall l, Z.to_nat (zlen l) = length l.
Proof. intros. unfold zlen. lia. Qed.

Lemma putn_app_at : forall q fr o d, (o + length d <= length fr)%nat ->
  putn (q ++ fr) (length q + o) d = q ++ putn fr o d.
Proof. intros. unfold putn. list_ext. Qed.
Lemma slicen_app_at : forall q fr o n,
  firstn n (skipn (length q + o) (q ++ fr)) = firstn n (skipn o fr).
Proof. intros. list_ext. Qed.
Lemma slicen_app_l : forall q fr o n, (o + n <= length q)%nat ->
  firstn n (skipn o (q ++ fr)) = firstn n (skipn o q).
Proof. intros. list_ext. Qed.
Lemma rotn_app : forall q fr k, (k <= length q)%nat ->
  rotn k (q ++ fr) = skipn k q ++ fr ++ firstn k q.
Proof. intros. unfold rotn. list_ext. Qed.

Lemma put_app_at : forall q fr o d, 0 <= o -> o + zlen d <= zlen fr ->
  put (q ++ fr) (zlen q + o) d = q ++ put fr o d.
Proof.
  intros. rewrite !put_putn. unfold zlen in *.
  replace (Z.to_nat (Z.of_nat (length q) + o)) with (length q + Z.to_nat o)%nat by lia.
  apply putn_app_at. lia.
Qed.
Lemma slice_app_at : forall q fr o n, 0 <= o ->
  slice (q ++ fr) (zlen q + o) n = slice fr o n.
Proof.
  intros. unfold slice, zlen.
  replace (Z.to_nat (Z.of_nat (length q) + o)) with (length q + Z.to_nat o)%nat by lia.
  apply slicen_app_at.
Qed.
Lemma slice_app_l : forall q fr o n, 0 <= o -> 0 <= n -> o + n <= zlen q ->
  slice (q ++ fr) o n = slice q o n.
Proof. intros. unfold slice, zlen in *. apply slicen_app_l. lia. Qed.
Lemma rotl_app : forall q fr k, 0 <= k <= zlen q ->
  rotl k (q ++ fr) = skipn (Z.to_nat k) q ++ fr ++ firstn (Z.to_nat k) q.
Proof. intros. rewrite rotl_rotn. apply rotn_app. unfold zlen in *. lia. Qed.

Lemma slice_0 : forall l n, slice l 0 n = firstn (Z.to_nat n) l.
Proof. reflexivity. Qed.
Lemma put_0 : forall l d, put l 0 d = d ++ skipn (length d) l.
Proof. reflexivity. Qed.

Lemma firstn_app_exact : forall q fr, firstn (length q) (q ++ fr) = q.
Proof. intros. list_ext. Qed.
Lemma skipn_app_exact : forall q fr, skipn (length q) (q ++ fr) = fr.
Proof. intros. list_ext. Qed.

Lemma elem_at_slice : forall l i x rest, 0 <= i -> skipn (Z.to_nat i) l = x :: rest ->
  elem_at l i = Ok x.
Proof.
  intros l i x rest Hi H. unfold elem_at. destruct (Z.ltb_spec i 0); [lia|].
  replace (Z.to_nat i) with (Z.to_nat i + 0)%nat by lia.
  rewrite <- nth_error_skipn_add, H. reflexivity.
Qed.
End AppAlg.

(* ------------------------------------------------------------------------------------ *)
(* invariant, representation, simulation of the primitive operations                     *)
(* ------------------------------------------------------------------------------------ *)
Section Refine.
Variable A : Type.
Implicit Types r : ring A.
Implicit Types s : qs A.
Implicit Types q fr : list A.

Definition ring_inv r : Prop :=
  0 <= r_len r <= ring_capacity r /\ 0 <= r_read r < Z.max 1 (ring_capacity r).

Definition qs_wf s : Prop := 0 <= q_pos s < Z.max 1 (qs_cap s).

(* r represents the queue q with scratch area fr *)
Definition rep r q fr : Prop :=
  ring_inv r /\ rotl (r_read r) (r_store r) = q ++ fr /\ zlen q = r_len r.

Lemma rep_view : forall r q fr, rep r q fr -> ring_view r = mkQs q fr (r_read r).
Proof.
  intros r q fr (Hi & HL & Hq). unfold ring_view. rewrite HL, <- Hq, to_nat_zlen.
  rewrite firstn_app_exact, skipn_app_exact. reflexivity.
Qed.

Lemma view_rep : forall r, ring_inv r -> rep r (q_q (ring_view r)) (q_fr (ring_view r)).
Proof.
  intros r Hi. split; [exact Hi|]. unfold ring_view; simpl. split.
  - rewrite firstn_skipn. reflexivity.
  - destruct Hi as ((H0 & H1) & _). unfold zlen, ring_capacity in *.
    rewrite firstn_length, rotl_length. unfold zlen in *. lia.
Qed.

Lemma rep_cap : forall r q fr, rep r q fr -> zlen q + zlen fr = ring_capacity r.
Proof.
  intros r q fr (Hi & HL & Hq). unfold ring_capacity, zlen.
  rewrite <- (rotl_length (r_read r) (r_store r)), HL, app_length. lia.
Qed.

Lemma mk_rep : forall store read len q fr,
  0 <= read < Z.max 1 (zlen store) -> rotl read store = q ++ fr -> zlen q = len ->
  rep (mkRing store read len) q fr.
Proof.
  intros. unfold rep, ring_inv, ring_capacity; simpl. repeat split; auto; try lia.
  - pose proof (zlen_nonneg q). lia.
  - unfold zlen in *. rewrite <- (rotl_length read store), H0, app_length. lia.
Qed.

Lemma get_idx_pidx : forall r i, ring_inv r -> 0 <= i <= ring_capacity r ->
  ring_get_idx r i = pidx (ring_capacity r) (r_read r) i.
Proof.
  intros r i (Hl & Hr) Hi. unfold ring_get_idx, pidx.
  destruct (Z.ltb_spec 0 (ring_capacity r)); auto. apply mod_wrap; lia.
Qed.

Lemma get_idx_unchecked_pidx : forall r i, ring_inv r -> 0 < ring_capacity r ->
  0 <= i <= ring_capacity r ->
  ring_get_idx_unchecked r i = Ok (pidx (ring_capacity r) (r_read r) i).
Proof.
  intros r i (Hl & Hr) Hc Hi. unfold ring_get_idx_unchecked, pidx.
  destruct (Z.eqb_spec (ring_capacity r) 0); [lia|].
  destruct (Z.ltb_spec 0 (ring_capacity r)); [|lia]. f_equal. apply mod_wrap; lia.
Qed.

Lemma pidx_range : forall c read i, 0 <= read < Z.max 1 c -> 0 <= i <= c ->
  0 <= pidx c read i < Z.max 1 c.
Proof.
  intros. unfold pidx, wrap. destruct (Z.ltb_spec 0 c); [|lia].
  destruct (Z.leb_spec c (read + i)); lia.
Qed.

Definition sim {R} (x : outcome (ring A * R)) (y : outcome (qs A * R)) : Prop :=
  match x with
  | Ok (r', o) => ring_inv r' /\ y = Ok (ring_view r', o)
  | Err e => y = Err e
  | Panic => y = Panic
  end.

Lemma qs_idx_pidx : forall q fr pos i,
  qs_idx (mkQs q fr pos) i = pidx (zlen q + zlen fr) pos i.
Proof. reflexivity. Qed.

Lemma zlen_cons : forall (x : A) l, zlen (x :: l) = 1 + zlen l.
Proof. intros. unfold zlen. simpl. lia. Qed.
Lemma zlen_app : forall (l1 l2 : list A), zlen (l1 ++ l2) = zlen l1 + zlen l2.
Proof. intros. unfold zlen. rewrite app_length. lia. Qed.
Lemma zlen_nil : zlen (@nil A) = 0.
Proof. reflexivity. Qed.
Lemma zlen_put : forall (l : list A) lo d, 0 <= lo -> lo + zlen d <= zlen l -> zlen (put l lo d) = zlen l.
Proof. intros. unfold zlen. rewrite put_length; auto. Qed.

Lemma sim_enqueue_one_with' : forall R r q fr (f : Z -> A -> outcome (A * bool * R)),
  rep r q fr -> sim (ring_enqueue_one_with r f) (qs_enqueue_one_with (mkQs q fr (r_read r)) f).
Proof.
  intros R r q fr f Hrep. pose proof (rep_cap Hrep) as Hc. destruct Hrep as (Hi & HL & Hq).
  pose proof Hi as Hi'. unfold ring_inv in Hi'.
  unfold ring_enqueue_one_with, qs_enqueue_one_with, ring_is_full, ring_window, ring_len.
  cbn [q_fr q_q q_pos]. unfold qs_len; cbn [q_q].
  pose proof (zlen_nonneg q).
  destruct fr as [|old fr'].
  - rewrite zlen_nil in Hc.
    destruct (Z.eqb_spec (ring_capacity r - r_len r) 0); [|lia]. reflexivity.
  - rewrite zlen_cons in Hc. pose proof (zlen_nonneg fr').
    destruct (Z.eqb_spec (ring_capacity r - r_len r) 0); [lia|].
    rewrite get_idx_unchecked_pidx by (auto; lia). cbn [obind].
    rewrite qs_idx_pidx, zlen_cons, Hc, Hq.
    unfold ring_capacity in *.
    set (idx := pidx (zlen (r_store r)) (r_read r) (r_len r)).
    assert (Hidx : 0 <= idx < Z.max 1 (zlen (r_store r))) by (apply pidx_range; lia).
    assert (Hs : slice (r_store r) idx 1 = [old]).
    { unfold idx. rewrite rot_slice by (try fold idx; lia).
      rewrite HL, <- Hq, <- (Z.add_0_r (zlen q)), slice_app_at by lia. reflexivity. }
    assert (He : elem_at (r_store r) idx = Ok old).
    { unfold slice in Hs. destruct (skipn (Z.to_nat idx) (r_store r)) eqn:E; [discriminate|].
      simpl in Hs. inversion Hs; subst. eapply elem_at_slice; eauto. lia. }
    rewrite He. cbn [obind]. destruct (f idx old) as [[[new ok] res]| |]; cbn [obind sim]; auto.
    assert (HL' : rotl (r_read r) (put (r_store r) idx [new]) = q ++ new :: fr').
    { unfold idx. rewrite rot_put by (try fold idx; rewrite ?zlen_cons, ?zlen_nil; lia).
      rewrite HL, <- Hq, <- (Z.add_0_r (zlen q)), put_app_at;
        [reflexivity|lia|rewrite ?zlen_cons, ?zlen_nil; lia]. }
    assert (Hpl : zlen (put (r_store r) idx [new]) = zlen (r_store r))
      by (apply zlen_put; rewrite ?zlen_cons, ?zlen_nil; lia).
    destruct ok.
    + assert (Hrep : rep (mkRing (put (r_store r) idx [new]) (r_read r) (r_len r + 1)) (q ++ [new]) fr').
      { apply mk_rep.
        - rewrite Hpl. lia.
        - rewrite HL', <- app_assoc. reflexivity.
        - rewrite zlen_app, zlen_cons, zlen_nil. lia. }
      split; [apply Hrep|]. rewrite (rep_view Hrep). reflexivity.
    + assert (Hrep : rep (mkRing (put (r_store r) idx [new]) (r_read r) (r_len r)) q (new :: fr')).
      { apply mk_rep; auto. rewrite Hpl. lia. }
      split; [apply Hrep|]. rewrite (rep_view Hrep). reflexivity.
Qed.

Lemma pidx_0 : forall c read, 0 < c -> 0 <= read < c -> pidx c read 0 = read.
Proof.
  intros. unfold pidx, wrap. destruct (Z.ltb_spec 0 c); [|lia].
  destruct (Z.leb_spec c (read + 0)); lia.
Qed.

Lemma rotl_1_cons : forall (x : A) l, rotl 1 (x :: l) = l ++ [x].
Proof. reflexivity. Qed.

Lemma sim_dequeue_one_with' : forall R r q fr (f : Z -> A -> outcome (bool * R)),
  rep r q fr -> sim (ring_dequeue_one_with r f) (qs_dequeue_one_with (mkQs q fr (r_read r)) f).
Proof.
  intros R r q fr f Hrep. pose proof (rep_cap Hrep) as Hc. pose proof (rep_view Hrep) as Hv.
  destruct Hrep as (Hi & HL & Hq).
  pose proof Hi as Hi'. unfold ring_inv in Hi'.
  unfold ring_dequeue_one_with, qs_dequeue_one_with, ring_is_empty, ring_len.
  cbn [q_fr q_q q_pos]. pose proof (zlen_nonneg fr).
  destruct q as [|x q'].
  - rewrite zlen_nil in Hq. destruct (Z.eqb_spec (r_len r) 0); [|lia]. reflexivity.
  - rewrite zlen_cons in Hq, Hc. pose proof (zlen_nonneg q').
    destruct (Z.eqb_spec (r_len r) 0); [lia|].
    rewrite get_idx_unchecked_pidx by (auto; lia). cbn [obind].
    unfold ring_capacity in *.
    assert (Hs : slice (r_store r) (r_read r) 1 = [x]).
    { transitivity (slice (r_store r) (pidx (zlen (r_store r)) (r_read r) 0) 1);
        [rewrite pidx_0 by lia; reflexivity|].
      rewrite rot_slice by (rewrite ?pidx_0 by lia; lia).
      rewrite HL. reflexivity. }
    assert (He : elem_at (r_store r) (r_read r) = Ok x).
    { unfold slice in Hs. destruct (skipn (Z.to_nat (r_read r)) (r_store r)) eqn:E; [discriminate|].
      simpl in Hs. inversion Hs; subst. eapply elem_at_slice; eauto. lia. }
    rewrite He. cbn [obind].
    destruct (f (r_read r) x) as [[ok res]| |]; cbn [obind sim]; auto.
    destruct ok.
    + rewrite qs_idx_pidx, zlen_cons, Hc.
      set (idx := pidx (zlen (r_store r)) (r_read r) 1).
      assert (Hidx : 0 <= idx < Z.max 1 (zlen (r_store r))) by (apply pidx_range; lia).
      assert (Hrep : rep (mkRing (r_store r) idx (r_len r - 1)) q' (fr ++ [x])).
      { apply mk_rep; try lia.
        unfold idx. rewrite rot_rot by lia. rewrite HL.
        change ((x :: q') ++ fr) with (x :: (q' ++ fr)). rewrite rotl_1_cons, app_assoc.
        reflexivity. }
      split; [apply Hrep|]. rewrite (rep_view Hrep). reflexivity.
    + split; auto. rewrite Hv. reflexivity.
Qed.

(* the empty-ring reset of read_at *)
Definition ring_reset_if_empty r : ring A :=
  if r_len r =? 0 then mkRing (r_store r) 0 (r_len r) else r.

Lemma rep_reset : forall r q fr, rep r q fr ->
  exists fr1, rep (ring_reset_if_empty r) q fr1 /\
    qs_reset_if_empty (mkQs q fr (r_read r)) = mkQs q fr1 (r_read (ring_reset_if_empty r)) /\
    r_len (ring_reset_if_empty r) = r_len r /\
    zlen (r_store (ring_reset_if_empty r)) = zlen (r_store r).
Proof.
  intros r q fr Hrep. pose proof (rep_cap Hrep) as Hc. destruct Hrep as (Hi & HL & Hq).
  pose proof Hi as Hi'. unfold ring_inv, ring_capacity in *.
  unfold ring_reset_if_empty, qs_reset_if_empty, qs_len, qs_cap. cbn [q_q q_fr q_pos].
  rewrite Hq. destruct (Z.eqb_spec (r_len r) 0).
  - exists (rotl (zlen q + zlen fr - r_read r) fr).
    destruct q; [|rewrite zlen_cons in Hq; pose proof (zlen_nonneg q); lia].
    rewrite zlen_nil in *. simpl app in *.
    split; [|split; [|split]]; cbn [r_read r_len r_store]; auto.
    + apply mk_rep; try lia; [|rewrite zlen_nil; lia]. simpl app.
      rewrite (rot_reset (r_store r) (read:=r_read r)) by lia.
      rewrite HL, Hc. reflexivity.
    + rewrite e. reflexivity.
  - exists fr. split; [|split; [|split]]; auto. split; [|split]; auto.
Qed.

Definition cb_nonneg3 {R} (f : list A -> outcome (list A * Z * R)) : Prop :=
  forall buf new k res, f buf = Ok (new, k, res) -> 0 <= k.
Definition cb_nonneg2 {R} (f : list A -> outcome (Z * R)) : Prop :=
  forall buf k res, f buf = Ok (k, res) -> 0 <= k.

Lemma zlen_overlay : forall (w old : list A), zlen (overlay w old) = zlen old.
Proof. intros. unfold zlen. rewrite overlay_length. reflexivity. Qed.
Lemma zlen_firstn : forall (l : list A) n, 0 <= n <= zlen l -> zlen (firstn (Z.to_nat n) l) = n.
Proof. intros. unfold zlen in *. rewrite firstn_length. lia. Qed.
Lemma zlen_skipn : forall (l : list A) n, 0 <= n <= zlen l -> zlen (skipn (Z.to_nat n) l) = zlen l - n.
Proof. intros. unfold zlen in *. rewrite skipn_length. lia. Qed.

Lemma sim_enqueue_many_with' : forall R r q fr (f : list A -> outcome (list A * Z * R)),
  cb_nonneg3 f -> rep r q fr ->
  sim (ring_enqueue_many_with r f) (qs_enqueue_many_with (mkQs q fr (r_read r)) f).
Proof.
  intros R r q fr f Hf Hrep0.
  destruct (rep_reset Hrep0) as (fr1 & Hrep & Hs1 & Hlen1 & Hst1).
  unfold ring_enqueue_many_with, qs_enqueue_many_with. rewrite Hs1.
  fold (ring_reset_if_empty r). set (r1 := ring_reset_if_empty r) in *. clearbody r1.
  clear Hs1 Hrep0 Hlen1 Hst1 fr r. rename fr1 into fr, r1 into r.
  pose proof (rep_cap Hrep) as Hc. destruct Hrep as (Hi & HL & Hq).
  pose proof Hi as Hi'. unfold ring_inv in Hi'.
  pose proof (zlen_nonneg q). pose proof (zlen_nonneg fr).
  cbn [q_q q_fr q_pos].
  unfold ring_contiguous_window, qs_contiguous_window, ring_window, ring_len, qs_window, qs_len, qs_cap.
  cbn [q_q q_fr q_pos]. rewrite get_idx_pidx by (auto; lia). rewrite qs_idx_pidx, Hc, Hq.
  unfold ring_capacity in *.
  set (wa := pidx (zlen (r_store r)) (r_read r) (r_len r)).
  assert (Hwa : 0 <= wa < Z.max 1 (zlen (r_store r))) by (apply pidx_range; lia).
  replace (zlen fr) with (zlen (r_store r) - r_len r) by lia.
  set (m := Z.min (zlen (r_store r) - r_len r) (zlen (r_store r) - wa)).
  assert (Hm : 0 <= m) by lia.
  rewrite in_range_true by lia. cbn [negb].
  assert (Hold : slice (r_store r) wa m = firstn (Z.to_nat m) fr).
  { unfold wa. rewrite rot_slice by (try fold wa; lia).
    rewrite HL, <- Hq, <- (Z.add_0_r (zlen q)), slice_app_at by lia. reflexivity. }
  rewrite Hold. set (old := firstn (Z.to_nat m) fr).
  assert (Hzo : zlen old = m) by (apply zlen_firstn; lia).
  destruct (f old) as [[[new size] res]| |] eqn:Ef; cbn [obind sim]; auto.
  pose proof (Hf _ _ _ _ Ef) as Hsz.
  destruct (Z.ltb_spec m size); cbn [sim]; auto.
  set (nw := overlay new old).
  assert (Hnw : zlen nw = m) by (unfold nw; rewrite zlen_overlay; auto).
  assert (Hrep : rep (mkRing (put (r_store r) wa nw) (r_read r) (r_len r + size))
                     (q ++ firstn (Z.to_nat size) nw)
                     (skipn (Z.to_nat size) nw ++ skipn (Z.to_nat m) fr)).
  { apply mk_rep.
    - rewrite zlen_put by lia. lia.
    - unfold wa. rewrite rot_put by (try fold wa; lia).
      rewrite HL, <- Hq, <- (Z.add_0_r (zlen q)), put_app_at by lia.
      rewrite put_0. rewrite <- app_assoc. f_equal.
      rewrite app_assoc, firstn_skipn. f_equal. f_equal. unfold zlen in Hnw. lia.
    - rewrite zlen_app, zlen_firstn by lia. lia. }
  split; [apply Hrep|]. rewrite (rep_view Hrep). reflexivity.
Qed.
Lemma slice_nil_store : forall (l : list A) lo n, zlen l = 0 -> slice l lo n = [].
Proof.
  intros. destruct l; [apply slice_nil|]. rewrite zlen_cons in H. pose proof (zlen_nonneg l). lia.
Qed.

(* moving the read position forward by k <= len *)
Lemma rep_advance : forall r q fr k, rep r q fr -> 0 <= k <= r_len r ->
  rep (mkRing (r_store r) (pidx (ring_capacity r) (r_read r) k) (r_len r - k))
      (skipn (Z.to_nat k) q) (fr ++ firstn (Z.to_nat k) q).
Proof.
  intros r q fr k Hrep Hk. pose proof (rep_cap Hrep) as Hc. destruct Hrep as (Hi & HL & Hq).
  unfold ring_inv, ring_capacity in *. pose proof (zlen_nonneg fr).
  apply mk_rep.
  - apply pidx_range; lia.
  - rewrite rot_rot by lia. rewrite HL, rotl_app by lia. reflexivity.
  - rewrite zlen_skipn by lia. lia.
Qed.

Lemma sim_dequeue_many_with' : forall R r q fr (f : list A -> outcome (Z * R)),
  cb_nonneg2 f -> rep r q fr ->
  sim (ring_dequeue_many_with r f) (qs_dequeue_many_with (mkQs q fr (r_read r)) f).
Proof.
  intros R r q fr f Hf Hrep. pose proof (rep_cap Hrep) as Hc.
  pose proof (fun k => @rep_advance r q fr k Hrep) as Hadv.
  destruct Hrep as (Hi & HL & Hq).
  pose proof Hi as Hi'. unfold ring_inv in Hi'.
  pose proof (zlen_nonneg q). pose proof (zlen_nonneg fr).
  unfold ring_dequeue_many_with, qs_dequeue_many_with, ring_len, qs_len, qs_cap.
  cbn [q_q q_fr q_pos]. rewrite Hc, Hq. unfold ring_capacity in *.
  set (m := Z.min (r_len r) (zlen (r_store r) - r_read r)).
  assert (Hm : 0 <= m) by lia.
  rewrite in_range_true by lia. cbn [negb].
  assert (Hseen : slice (r_store r) (r_read r) m = firstn (Z.to_nat m) q).
  { destruct (Z.eq_dec (zlen (r_store r)) 0) as [E|E].
    - rewrite slice_nil_store by auto. replace m with 0 by lia. reflexivity.
    - transitivity (slice (r_store r) (pidx (zlen (r_store r)) (r_read r) 0) m);
        [rewrite pidx_0 by lia; reflexivity|].
      rewrite rot_slice by (rewrite ?pidx_0 by lia; lia).
      rewrite HL, slice_app_l by lia. reflexivity. }
  rewrite Hseen.
  destruct (f (firstn (Z.to_nat m) q)) as [[size res]| |] eqn:Ef; cbn [obind sim]; auto.
  pose proof (Hf _ _ _ Ef) as Hsz.
  destruct (Z.ltb_spec m size); cbn [sim]; auto.
  assert (Hrd : (if 0 <? zlen (r_store r) then (r_read r + size) mod zlen (r_store r) else 0)
                = pidx (zlen (r_store r)) (r_read r) size).
  { unfold pidx. destruct (Z.ltb_spec 0 (zlen (r_store r))); auto. apply mod_wrap; lia. }
  rewrite Hrd. specialize (Hadv size ltac:(lia)).
  split; [apply Hadv|]. rewrite (rep_view Hadv). cbn [r_read].
  rewrite qs_idx_pidx, Hc. reflexivity.
Qed.

Lemma min_if : forall a b, (if a <? b then a else b) = Z.min b a.
Proof. intros. destruct (Z.ltb_spec a b); lia. Qed.

Lemma put_nil_0 : forall (l : list A), put l 0 [] = l.
Proof. reflexivity. Qed.
Lemma slice_len0 : forall (l : list A) lo, slice l lo 0 = [].
Proof. reflexivity. Qed.
Lemma overlay_nil : forall (w : list A), overlay w [] = [].
Proof. intros. unfold overlay. simpl. apply skipn_nil. Qed.

Lemma sim_get_unallocated' : forall r q fr offset size w,
  0 <= offset -> 0 <= size -> rep r q fr ->
  sim (ring_get_unallocated r offset size w)
      (qs_get_unallocated (mkQs q fr (r_read r)) offset size w).
Proof.
  intros r q fr offset size w Ho Hsz Hrep. pose proof (rep_cap Hrep) as Hc.
  pose proof (rep_view Hrep) as Hv.
  destruct Hrep as (Hi & HL & Hq).
  pose proof Hi as Hi'. unfold ring_inv in Hi'.
  pose proof (zlen_nonneg q). pose proof (zlen_nonneg fr).
  unfold ring_get_unallocated, ring_unallocated_range, qs_get_unallocated, ring_window, ring_len,
    qs_window, qs_len, qs_cap.
  cbn [q_q q_fr q_pos]. rewrite qs_idx_pidx, Hc, Hq.
  replace (zlen fr) with (ring_capacity r - r_len r) by lia.
  destruct (Z.ltb_spec (ring_capacity r - r_len r) offset).
  - rewrite in_range_true by (unfold ring_capacity in *; lia). cbn [negb sim].
    rewrite !slice_len0, !overlay_nil, !put_nil_0.
    split; [|rewrite <- Hv; destruct r; reflexivity]. destruct r; exact Hi.
  - rewrite get_idx_pidx by (auto; lia). rewrite !min_if. unfold ring_capacity in *.
    set (st := pidx (zlen (r_store r)) (r_read r) (r_len r + offset)).
    assert (Hst : 0 <= st < Z.max 1 (zlen (r_store r))) by (apply pidx_range; lia).
    set (n := Z.min (Z.min size (zlen (r_store r) - r_len r - offset)) (zlen (r_store r) - st)).
    assert (Hn : 0 <= n) by lia.
    replace (Z.min (zlen (r_store r) - st) (Z.min (zlen (r_store r) - r_len r - offset) size))
      with n by lia.
    rewrite in_range_true by lia. cbn [negb sim].
    assert (Hold : slice (r_store r) st n = slice fr offset n).
    { unfold st. rewrite rot_slice by (try fold st; lia).
      rewrite HL, <- Hq, slice_app_at by lia. reflexivity. }
    rewrite Hold. set (old := slice fr offset n).
    assert (Hzo : zlen old = n).
    { unfold old, zlen. rewrite slice_length; unfold zlen in *; lia. }
    assert (Hrep : rep (mkRing (put (r_store r) st (overlay w old)) (r_read r) (r_len r))
                       q (put fr offset (overlay w old))).
    { apply mk_rep; auto.
      - rewrite zlen_put by (rewrite ?zlen_overlay; lia). lia.
      - unfold st. rewrite rot_put by (try fold st; rewrite ?zlen_overlay; lia).
        rewrite HL, <- Hq, put_app_at by (rewrite ?zlen_overlay; lia). reflexivity. }
    split; [apply Hrep|]. rewrite (rep_view Hrep). reflexivity.
Qed.

Lemma sim_enqueue_unallocated' : forall r q fr count, 0 <= count -> rep r q fr ->
  match ring_enqueue_unallocated r count with
  | Ok r' => ring_inv r' /\
             qs_enqueue_unallocated (mkQs q fr (r_read r)) count = Ok (ring_view r')
  | Err e => False
  | Panic => qs_enqueue_unallocated (mkQs q fr (r_read r)) count = Panic
  end.
Proof.
  intros r q fr count Hcnt Hrep. pose proof (rep_cap Hrep) as Hc. destruct Hrep as (Hi & HL & Hq).
  pose proof Hi as Hi'. unfold ring_inv in Hi'.
  pose proof (zlen_nonneg q). pose proof (zlen_nonneg fr).
  unfold ring_enqueue_unallocated, qs_enqueue_unallocated, ring_window, ring_len, qs_window.
  cbn [q_q q_fr q_pos]. replace (zlen fr) with (ring_capacity r - r_len r) by lia.
  destruct (Z.ltb_spec (ring_capacity r - r_len r) count); auto.
  assert (Hrep : rep (mkRing (r_store r) (r_read r) (r_len r + count))
                     (q ++ firstn (Z.to_nat count) fr) (skipn (Z.to_nat count) fr)).
  { apply mk_rep; try (unfold ring_capacity in *; lia).
    - rewrite HL, <- app_assoc, firstn_skipn. reflexivity.
    - rewrite zlen_app, zlen_firstn by lia. lia. }
  split; [apply Hrep|]. rewrite (rep_view Hrep). reflexivity.
Qed.

Lemma sim_get_allocated' : forall r q fr offset size,
  0 <= offset -> 0 <= size -> rep r q fr ->
  ring_get_allocated r offset size = qs_get_allocated (mkQs q fr (r_read r)) offset size.
Proof.
  intros r q fr offset size Ho Hsz Hrep. pose proof (rep_cap Hrep) as Hc.
  destruct Hrep as (Hi & HL & Hq).
  pose proof Hi as Hi'. unfold ring_inv in Hi'.
  pose proof (zlen_nonneg q). pose proof (zlen_nonneg fr).
  unfold ring_get_allocated, qs_get_allocated, qs_len, qs_cap.
  cbn [q_q q_fr q_pos]. rewrite qs_idx_pidx, Hc, Hq.
  destruct (Z.ltb_spec (r_len r) offset); auto.
  rewrite get_idx_pidx by (auto; lia). rewrite !min_if. unfold ring_capacity in *.
  set (st := pidx (zlen (r_store r)) (r_read r) offset).
  assert (Hst : 0 <= st < Z.max 1 (zlen (r_store r))) by (apply pidx_range; lia).
  set (n := Z.min (Z.min size (r_len r - offset)) (zlen (r_store r) - st)).
  assert (Hn : 0 <= n) by lia.
  replace (Z.min (zlen (r_store r) - st) (Z.min (r_len r - offset) size)) with n by lia.
  rewrite in_range_true by lia. cbn [negb]. f_equal.
  unfold st. rewrite rot_slice by (try fold st; lia).
  rewrite HL, slice_app_l by lia. reflexivity.
Qed.

Lemma sim_dequeue_allocated' : forall r q fr count, 0 <= count -> rep r q fr ->
  match ring_dequeue_allocated r count with
  | Ok r' => ring_inv r' /\
             qs_dequeue_allocated (mkQs q fr (r_read r)) count = Ok (ring_view r')
  | Err e => False
  | Panic => qs_dequeue_allocated (mkQs q fr (r_read r)) count = Panic
  end.
Proof.
  intros r q fr count Hcnt Hrep. pose proof (rep_cap Hrep) as Hc.
  pose proof (fun k => @rep_advance r q fr k Hrep) as Hadv.
  destruct Hrep as (Hi & HL & Hq).
  pose proof Hi as Hi'. unfold ring_inv in Hi'.
  unfold ring_dequeue_allocated, qs_dequeue_allocated, ring_len, qs_len.
  cbn [q_q q_fr q_pos]. rewrite Hq.
  destruct (Z.ltb_spec (r_len r) count); auto.
  rewrite get_idx_pidx by (auto; lia).
  specialize (Hadv count ltac:(lia)).
  split; [apply Hadv|]. rewrite (rep_view Hadv). unfold qs_dequeue_n. cbn [r_read q_q q_fr q_pos].
  rewrite qs_idx_pidx, Hc. reflexivity.
Qed.

Lemma sim_clear' : forall r q fr, rep r q fr ->
  ring_inv (ring_clear r) /\ ring_view (ring_clear r) = qs_clear (mkQs q fr (r_read r)).
Proof.
  intros r q fr Hrep. pose proof (rep_cap Hrep) as Hc. destruct Hrep as (Hi & HL & Hq).
  pose proof Hi as Hi'. unfold ring_inv, ring_capacity in Hi'.
  assert (Hrep : rep (ring_clear r) [] (rotl (zlen (r_store r) - r_read r) (q ++ fr))).
  { unfold ring_clear. apply mk_rep; try lia; [|reflexivity]. simpl app.
    rewrite (rot_reset (r_store r) (read:=r_read r)) by lia. rewrite HL. reflexivity. }
  split; [apply Hrep|]. rewrite (rep_view Hrep). unfold qs_clear, qs_cap. cbn [q_q q_fr q_pos].
  unfold ring_capacity in Hc. rewrite Hc. reflexivity.
Qed.
(* ---------- the same lemmas stated on [ring_view] ---------- *)
Lemma view_eta : forall r,
  ring_view r = mkQs (q_q (ring_view r)) (q_fr (ring_view r)) (r_read r).
Proof. reflexivity. Qed.

Lemma view_wf : forall r, ring_inv r -> qs_wf (ring_view r).
Proof.
  intros r Hi. pose proof (rep_cap (view_rep Hi)) as Hc. unfold qs_wf, qs_cap.
  rewrite Hc. cbn [ring_view q_pos]. apply Hi.
Qed.

Lemma sim_enqueue_one_with : forall R r (f : Z -> A -> outcome (A * bool * R)),
  ring_inv r -> sim (ring_enqueue_one_with r f) (qs_enqueue_one_with (ring_view r) f).
Proof. intros. rewrite view_eta. apply sim_enqueue_one_with'. apply view_rep; auto. Qed.
Lemma sim_dequeue_one_with : forall R r (f : Z -> A -> outcome (bool * R)),
  ring_inv r -> sim (ring_dequeue_one_with r f) (qs_dequeue_one_with (ring_view r) f).
Proof. intros. rewrite view_eta. apply sim_dequeue_one_with'. apply view_rep; auto. Qed.
Lemma sim_enqueue_many_with : forall R r (f : list A -> outcome (list A * Z * R)),
  cb_nonneg3 f -> ring_inv r ->
  sim (ring_enqueue_many_with r f) (qs_enqueue_many_with (ring_view r) f).
Proof. intros. rewrite view_eta. apply sim_enqueue_many_with'; auto. apply view_rep; auto. Qed.
Lemma sim_dequeue_many_with : forall R r (f : list A -> outcome (Z * R)),
  cb_nonneg2 f -> ring_inv r ->
  sim (ring_dequeue_many_with r f) (qs_dequeue_many_with (ring_view r) f).
Proof. intros. rewrite view_eta. apply sim_dequeue_many_with'; auto. apply view_rep; auto. Qed.
Lemma sim_get_unallocated : forall r offset size w, 0 <= offset -> 0 <= size -> ring_inv r ->
  sim (ring_get_unallocated r offset size w) (qs_get_unallocated (ring_view r) offset size w).
Proof. intros. rewrite view_eta. apply sim_get_unallocated'; auto. apply view_rep; auto. Qed.
Lemma sim_get_allocated : forall r offset size, 0 <= offset -> 0 <= size -> ring_inv r ->
  ring_get_allocated r offset size = qs_get_allocated (ring_view r) offset size.
Proof. intros. rewrite view_eta. apply sim_get_allocated'; auto. apply view_rep; auto. Qed.
Lemma sim_clear : forall r, ring_inv r ->
  ring_inv (ring_clear r) /\ ring_view (ring_clear r) = qs_clear (ring_view r).
Proof. intros. rewrite (view_eta r). apply sim_clear'. apply view_rep; auto. Qed.

Lemma sim_bind : forall R R2 (x : outcome (ring A * R)) (y : outcome (qs A * R))
  (k : ring A * R -> outcome (ring A * R2)) (k' : qs A * R -> outcome (qs A * R2)),
  sim x y ->
  (forall r' o, ring_inv r' -> sim (k (r', o)) (k' (ring_view r', o))) ->
  sim (obind x k) (obind y k').
Proof.
  intros R R2 x y k k' H Hk. destruct x as [[r' o]| |]; cbn [sim obind] in *.
  - destruct H as (Hi & ->). cbn [obind]. apply Hk; auto.
  - subst. reflexivity.
  - subst. reflexivity.
Qed.
End Refine.

(* ------------------------------------------------------------------------------------ *)
(* list lemmas used at the specification level                                            *)
(* ------------------------------------------------------------------------------------ *)
Section ZListMore.
Context {A : Type}.
Implicit Types l x y d buf old : list A.

Lemma firstn_firstn_z : forall l a b, 0 <= a <= b ->
  firstn (Z.to_nat a) (firstn (Z.to_nat b) l) = firstn (Z.to_nat a) l.
Proof. intros. rewrite firstn_firstn. f_equal. lia. Qed.

Lemma skipn_firstn_app_n : forall l (a b : nat), (a <= b <= length l)%nat ->
  skipn a (firstn b l) ++ skipn b l = skipn a l.
Proof. intros. list_ext. Qed.
Lemma skipn_firstn_app_z : forall l a b, 0 <= a <= b -> b <= zlen l ->
  skipn (Z.to_nat a) (firstn (Z.to_nat b) l) ++ skipn (Z.to_nat b) l = skipn (Z.to_nat a) l.
Proof. intros. apply skipn_firstn_app_n. unfold zlen in *. lia. Qed.

Lemma firstn_add_n : forall l (a b : nat),
  firstn a l ++ firstn b (skipn a l) = firstn (a + b) l.
Proof.
  intros l a. revert l. induction a; intros l b; simpl; auto.
  destruct l; simpl.
  - rewrite firstn_nil. reflexivity.
  - f_equal. apply IHa.
Qed.
Lemma firstn_add_z : forall l a b, 0 <= a -> 0 <= b ->
  firstn (Z.to_nat a) l ++ firstn (Z.to_nat b) (skipn (Z.to_nat a) l) = firstn (Z.to_nat (a + b)) l.
Proof. intros. rewrite firstn_add_n. f_equal. lia. Qed.

Lemma skipn_skipn_n : forall l (a b : nat), skipn b (skipn a l) = skipn (a + b) l.
Proof. intros. list_ext. Qed.
Lemma skipn_skipn_z : forall l a b, 0 <= a -> 0 <= b ->
  skipn (Z.to_nat b) (skipn (Z.to_nat a) l) = skipn (Z.to_nat (a + b)) l.
Proof. intros. rewrite skipn_skipn_n. f_equal. lia. Qed.

Lemma firstn_app_len : forall x y a, zlen x = a -> firstn (Z.to_nat a) (x ++ y) = x.
Proof. intros. subst. rewrite to_nat_zlen. apply firstn_app_exact. Qed.
Lemma skipn_app_len : forall x y a, zlen x = a -> skipn (Z.to_nat a) (x ++ y) = y.
Proof. intros. subst. rewrite to_nat_zlen. apply skipn_app_exact. Qed.

Lemma overlay_short : forall d buf, (length d <= length buf)%nat ->
  overlay d buf = d ++ skipn (length d) buf.
Proof. intros. unfold overlay. rewrite firstn_all2 by lia. reflexivity. Qed.
Lemma overlay_same : forall x old, length x = length old -> overlay x old = x.
Proof.
  intros. unfold overlay. rewrite firstn_all2 by lia. rewrite H, skipn_all. apply app_nil_r.
Qed.
Lemma rotl_all : forall l, rotl (zlen l) l = l.
Proof.
  intros. unfold rotl. rewrite to_nat_zlen, skipn_all, firstn_all. reflexivity.
Qed.
Lemma zlen_rotl : forall l k, zlen (rotl k l) = zlen l.
Proof. intros. unfold zlen. rewrite rotl_length. reflexivity. Qed.
Lemma zlen_slice : forall l lo n, 0 <= lo -> 0 <= n -> lo + n <= zlen l -> zlen (slice l lo n) = n.
Proof. intros. unfold zlen in *. rewrite slice_length; unfold zlen; lia. Qed.
Lemma slice_add : forall l lo a b, 0 <= lo -> 0 <= a -> 0 <= b ->
  slice l lo a ++ slice l (lo + a) b = slice l lo (a + b).
Proof.
  intros. unfold slice.
  replace (Z.to_nat (lo + a)) with (Z.to_nat lo + Z.to_nat a)%nat by lia.
  rewrite <- skipn_skipn_n, firstn_add_n. f_equal. lia.
Qed.
Lemma putn_putn : forall l (o : nat) d1 d2, (o + length d1 + length d2 <= length l)%nat ->
  putn (putn l o d1) (o + length d1) d2 = putn l o (d1 ++ d2).
Proof. intros. unfold putn. list_ext. Qed.
Lemma put_put : forall l o d1 d2, 0 <= o -> o + zlen d1 + zlen d2 <= zlen l ->
  put (put l o d1) (o + zlen d1) d2 = put l o (d1 ++ d2).
Proof.
  intros. rewrite !put_putn. unfold zlen in *.
  replace (Z.to_nat (o + Z.of_nat (length d1))) with (Z.to_nat o + length d1)%nat by lia.
  apply putn_putn. lia.
Qed.

Lemma two_piece : forall c pos j a n,
  0 <= pos < Z.max 1 c -> 0 <= j -> 0 <= a -> j + a <= c -> 0 <= n ->
  let s1 := Z.min (Z.min n a) (c - pidx c pos j) in
  let s2 := Z.min (Z.min (n - s1) (a - s1)) (c - pidx c pos (j + s1)) in
  s1 + s2 = Z.min n a /\ 0 <= s1 /\ 0 <= s2.
Proof.
  intros. subst s1 s2. unfold pidx, wrap.
  destruct (Z.ltb_spec 0 c).
  - destruct (Z.leb_spec c (pos + j));
      destruct (Z.leb_spec c (pos + (j + Z.min (Z.min n a) (c - (pos + j - c)))));
      destruct (Z.leb_spec c (pos + (j + Z.min (Z.min n a) (c - (pos + j))))); lia.
  - lia.
Qed.
End ZListMore.

(* ------------------------------------------------------------------------------------ *)
(* derived operations at the specification level: composites = closed formulas            *)
(* ------------------------------------------------------------------------------------ *)
Section QsAlg.
Variable A : Type.
Implicit Types s : qs A.

Lemma reset_facts : forall s, qs_wf s ->
  let s1 := qs_reset_if_empty s in
  q_q s1 = q_q s /\ zlen (q_fr s1) = zlen (q_fr s) /\ qs_wf s1 /\ (qs_len s = 0 -> q_pos s1 = 0).
Proof.
  intros s Hwf. unfold qs_reset_if_empty. destruct (Z.eqb_spec (qs_len s) 0).
  - cbn [q_q q_fr q_pos]. rewrite zlen_rotl. split; [|split; [|split]]; auto.
    unfold qs_wf, qs_cap in *. cbn [q_q q_fr q_pos]. rewrite ?zlen_rotl. lia.
  - split; [|split; [|split]]; auto. lia.
Qed.

Lemma reset_idem : forall s, qs_len s = 0 -> q_pos s = 0 -> qs_reset_if_empty s = s.
Proof.
  intros [q fr pos] Hl Hp. unfold qs_reset_if_empty, qs_len, qs_cap in *. cbn [q_q q_fr q_pos] in *.
  subst pos. rewrite Hl. simpl. rewrite Z.sub_0_r, Z.add_0_l, rotl_all. reflexivity.
Qed.

Lemma cw_range : forall s, qs_wf s -> 0 <= qs_contiguous_window s <= qs_window s.
Proof.
  intros s Hwf. unfold qs_contiguous_window.
  change (qs_idx s (qs_len s)) with (pidx (qs_cap s) (q_pos s) (qs_len s)).
  unfold qs_window, qs_wf, qs_cap, qs_len in *.
  pose proof (zlen_nonneg (q_q s)). pose proof (zlen_nonneg (q_fr s)).
  pose proof (@pidx_range (zlen (q_q s) + zlen (q_fr s)) (q_pos s) (zlen (q_q s))). lia.
Qed.

Lemma qsc_enqueue_many : forall s size w, 0 <= size -> qs_wf s ->
  (do x <- qs_enqueue_many_with s (fun buf =>
            let size := Z.min size (zlen buf) in
            let ret := slice buf 0 size in
            Ok (overlay w ret ++ skipn (Z.to_nat size) buf, size, ret));
   let '(s', (_, ret)) := x in Ok (s', ret)) = qs_enqueue_many s size w.
Proof.
  intros s size w Hsz Hwf. unfold qs_enqueue_many_with, qs_enqueue_many.
  destruct (reset_facts Hwf) as (Hq1 & Hfr1 & Hwf1 & _).
  set (s1 := qs_reset_if_empty s) in *. pose proof (cw_range Hwf1) as Hm.
  set (m := qs_contiguous_window s1) in *. unfold qs_window in Hm.
  set (old := firstn (Z.to_nat m) (q_fr s1)).
  assert (Hzo : zlen old = m) by (apply zlen_firstn; lia).
  cbn [obind]. cbv zeta. rewrite Hzo. set (n := Z.min size m).
  destruct (Z.ltb_spec m n); [lia|].
  assert (Hret : slice old 0 n = firstn (Z.to_nat n) (q_fr s1)).
  { rewrite slice_0. unfold old. apply firstn_firstn_z. lia. }
  rewrite Hret. set (ret := firstn (Z.to_nat n) (q_fr s1)).
  assert (Hzr : zlen ret = n) by (apply zlen_firstn; lia).
  assert (Hzov : zlen (overlay w ret) = n) by (rewrite zlen_overlay; auto).
  rewrite overlay_same.
  2:{ rewrite app_length, skipn_length. unfold zlen in *. lia. }
  rewrite firstn_app_len, skipn_app_len by auto.
  unfold old. rewrite skipn_firstn_app_z by lia. reflexivity.
Qed.

Lemma qsc_dequeue_many : forall s size, 0 <= size -> qs_wf s ->
  (do x <- qs_dequeue_many_with s (fun buf =>
            let size := Z.min size (zlen buf) in Ok (size, slice buf 0 size));
   let '(s', (_, ret)) := x in Ok (s', ret)) = qs_dequeue_many s size.
Proof.
  intros s size Hsz Hwf. unfold qs_dequeue_many_with, qs_dequeue_many, qs_dequeue_n.
  unfold qs_wf, qs_cap, qs_len in *.
  pose proof (zlen_nonneg (q_q s)). pose proof (zlen_nonneg (q_fr s)).
  set (m := Z.min (zlen (q_q s)) (zlen (q_q s) + zlen (q_fr s) - q_pos s)).
  assert (Hm : 0 <= m <= zlen (q_q s)) by lia.
  cbn [obind]. cbv zeta. rewrite zlen_firstn by lia. set (n := Z.min size m).
  destruct (Z.ltb_spec m n); [lia|].
  rewrite slice_0, firstn_firstn_z by lia. reflexivity.
Qed.
Lemma overlay_long : forall (w old : list A), (length old <= length w)%nat ->
  overlay w old = firstn (length old) w.
Proof. intros. unfold overlay. rewrite skipn_all2 by lia. apply app_nil_r. Qed.

Lemma pidx_pidx : forall c pos a b, 0 <= pos < Z.max 1 c -> 0 <= a -> 0 <= b -> a + b <= c ->
  pidx c (pidx c pos a) b = pidx c pos (a + b).
Proof.
  intros. unfold pidx, wrap. destruct (Z.ltb_spec 0 c); auto.
  destruct (Z.leb_spec c (pos + a)); destruct (Z.leb_spec c (pos + (a + b)));
    match goal with |- context [?x <=? ?y] => destruct (Z.leb_spec x y) end; lia.
Qed.

Lemma pidx_0_wf : forall c pos, 0 <= pos < Z.max 1 c -> pidx c pos 0 = pos.
Proof.
  intros. unfold pidx, wrap. destruct (Z.ltb_spec 0 c); [|lia].
  destruct (Z.leb_spec c (pos + 0)); lia.
Qed.

(* one greedy enqueue step: as many elements of [data] as fit contiguously *)
Lemma greedy_enqueue : forall T s (data : list A) (res : Z -> T), qs_wf s ->
  qs_enqueue_many_with s (fun buf =>
      let size := Z.min (zlen buf) (zlen data) in
      Ok (overlay (firstn (Z.to_nat size) data) buf, size, res size))
  = let s1 := qs_reset_if_empty s in
    let n := Z.min (qs_contiguous_window s1) (zlen data) in
    Ok (mkQs (q_q s1 ++ firstn (Z.to_nat n) data) (skipn (Z.to_nat n) (q_fr s1)) (q_pos s1),
        (n, res n)).
Proof.
  intros T s data res Hwf. unfold qs_enqueue_many_with.
  destruct (reset_facts Hwf) as (Hq1 & Hfr1 & Hwf1 & _).
  set (s1 := qs_reset_if_empty s) in *. pose proof (cw_range Hwf1) as Hm.
  set (m := qs_contiguous_window s1) in *. unfold qs_window in Hm.
  set (old := firstn (Z.to_nat m) (q_fr s1)).
  assert (Hzo : zlen old = m) by (apply zlen_firstn; lia).
  pose proof (zlen_nonneg data).
  cbn [obind]. cbv zeta. rewrite Hzo. set (n := Z.min m (zlen data)).
  destruct (Z.ltb_spec m n); [lia|].
  assert (Hzd : zlen (firstn (Z.to_nat n) data) = n) by (apply zlen_firstn; lia).
  rewrite (overlay_short (firstn (Z.to_nat n) data) old) by (unfold zlen in *; lia).
  replace (length (firstn (Z.to_nat n) data)) with (Z.to_nat n) by (unfold zlen in *; lia).
  rewrite overlay_same.
  2:{ rewrite app_length, skipn_length. unfold zlen in *. lia. }
  rewrite firstn_app_len, skipn_app_len by auto.
  unfold old. rewrite skipn_firstn_app_z by lia. reflexivity.
Qed.

Lemma qsc_enqueue_slice : forall s (data : list A), qs_wf s ->
  (do x1 <- qs_enqueue_many_with s (fun buf =>
            let size := Z.min (zlen buf) (zlen data) in
            Ok (overlay (firstn (Z.to_nat size) data) buf, size, skipn (Z.to_nat size) data));
   let '(s1, (size_1, data1)) := x1 in
   do x2 <- qs_enqueue_many_with s1 (fun buf =>
            let size := Z.min (zlen buf) (zlen data1) in
            Ok (overlay (firstn (Z.to_nat size) data1) buf, size, tt));
   let '(s2, (size_2, _)) := x2 in
   Ok (s2, size_1 + size_2)) = qs_enqueue_slice s data.
Proof.
  intros s data Hwf.
  rewrite (greedy_enqueue data (fun size => skipn (Z.to_nat size) data) Hwf).
  destruct (reset_facts Hwf) as (Hq1 & Hfr1 & Hwf1 & Hp1).
  unfold qs_enqueue_slice.
  set (s1 := qs_reset_if_empty s) in *. pose proof (cw_range Hwf1) as Hm.
  cbv zeta. cbn [obind].
  set (n1 := Z.min (qs_contiguous_window s1) (zlen data)).
  pose proof (zlen_nonneg data). pose proof (zlen_nonneg (q_q s1)). pose proof (zlen_nonneg (q_fr s1)).
  unfold qs_window in *.
  assert (Hn1 : 0 <= n1 <= zlen (q_fr s1)) by lia.
  set (sA := mkQs (q_q s1 ++ firstn (Z.to_nat n1) data) (skipn (Z.to_nat n1) (q_fr s1)) (q_pos s1)).
  assert (HcapA : qs_cap sA = qs_cap s1).
  { unfold qs_cap, sA. cbn [q_q q_fr]. rewrite zlen_app, zlen_firstn, zlen_skipn by lia. lia. }
  assert (HwfA : qs_wf sA) by (unfold qs_wf in *; rewrite HcapA; exact Hwf1).
  pose proof (greedy_enqueue (skipn (Z.to_nat n1) data) (fun _ => tt) HwfA) as G.
  cbv zeta in G. rewrite G. clear G.
  assert (HresetA : qs_reset_if_empty sA = sA).
  { destruct (Z.eq_dec (qs_len sA) 0) as [E|E];
      [|unfold qs_reset_if_empty; destruct (Z.eqb_spec (qs_len sA) 0); [lia|reflexivity]].
    apply reset_idem; auto. unfold sA; cbn [q_pos].
    apply Hp1. unfold qs_len, sA in *. cbn [q_q] in E. rewrite zlen_app in E.
    rewrite zlen_firstn in E by lia. rewrite <- Hq1. unfold qs_len. lia. }
  cbv zeta. rewrite HresetA. cbn [obind].
  set (n2 := Z.min (qs_contiguous_window sA) (zlen (skipn (Z.to_nat n1) data))).
  assert (Harith : n1 + n2 = Z.min (zlen data) (zlen (q_fr s1)) /\ 0 <= n2).
  { pose proof (@two_piece (qs_cap s1) (q_pos s1) (zlen (q_q s1)) (zlen (q_fr s1)) (zlen data)) as T.
    cbv zeta in T.
    assert (E1 : n1 = Z.min (Z.min (zlen data) (zlen (q_fr s1)))
                        (qs_cap s1 - pidx (qs_cap s1) (q_pos s1) (zlen (q_q s1)))).
    { unfold n1, qs_contiguous_window, qs_window, qs_len.
      change (qs_idx s1 (zlen (q_q s1))) with (pidx (qs_cap s1) (q_pos s1) (zlen (q_q s1))). lia. }
    assert (E2 : n2 = Z.min (Z.min (zlen data - n1) (zlen (q_fr s1) - n1))
                        (qs_cap s1 - pidx (qs_cap s1) (q_pos s1) (zlen (q_q s1) + n1))).
    { unfold n2, qs_contiguous_window, qs_window, qs_len.
      change (qs_idx sA (zlen (q_q sA))) with (pidx (qs_cap sA) (q_pos sA) (zlen (q_q sA))).
      rewrite HcapA. unfold sA. cbn [q_q q_fr q_pos].
      rewrite zlen_app, zlen_firstn, !zlen_skipn by lia. lia. }
    rewrite <- E1 in T. rewrite <- E2 in T. unfold qs_wf, qs_cap in *.
    destruct T; try lia. }
  destruct Harith as (Hsum & Hn2).
  unfold sA. cbn [q_q q_fr q_pos]. rewrite <- Hsum.
  rewrite <- app_assoc, firstn_add_z, skipn_skipn_z by lia. reflexivity.
Qed.

Lemma greedy_dequeue : forall s n, 0 <= n -> qs_wf s ->
  qs_dequeue_many_with s (fun buf =>
      let size := Z.min (zlen buf) n in Ok (size, slice buf 0 size))
  = let k := Z.min (Z.min (qs_len s) (qs_cap s - q_pos s)) n in
    Ok (qs_dequeue_n s k, (k, firstn (Z.to_nat k) (q_q s))).
Proof.
  intros s n Hn Hwf. unfold qs_dequeue_many_with, qs_dequeue_n.
  unfold qs_wf, qs_cap, qs_len in *.
  pose proof (zlen_nonneg (q_q s)). pose proof (zlen_nonneg (q_fr s)).
  set (m := Z.min (zlen (q_q s)) (zlen (q_q s) + zlen (q_fr s) - q_pos s)).
  assert (Hm : 0 <= m <= zlen (q_q s)) by lia.
  cbn [obind]. cbv zeta. rewrite zlen_firstn by lia. set (k := Z.min m n).
  destruct (Z.ltb_spec m k); [lia|].
  rewrite slice_0, firstn_firstn_z by lia. reflexivity.
Qed.

Lemma qsc_dequeue_slice : forall s n, 0 <= n -> qs_wf s ->
  (do x1 <- qs_dequeue_many_with s (fun buf =>
            let size := Z.min (zlen buf) n in Ok (size, slice buf 0 size));
   let '(s1, (size_1, d1)) := x1 in
   do x2 <- qs_dequeue_many_with s1 (fun buf =>
            let size := Z.min (zlen buf) (n - size_1) in Ok (size, slice buf 0 size));
   let '(s2, (size_2, d2)) := x2 in
   Ok (s2, (size_1 + size_2, d1 ++ d2))) = qs_dequeue_slice s n.
Proof.
  intros s n Hn Hwf. rewrite (greedy_dequeue Hn Hwf). cbv zeta. cbn [obind].
  pose proof (zlen_nonneg (q_q s)). pose proof (zlen_nonneg (q_fr s)).
  pose proof Hwf as Hwf'. unfold qs_wf, qs_cap in Hwf'.
  set (k1 := Z.min (Z.min (qs_len s) (qs_cap s - q_pos s)) n).
  assert (Hk1 : 0 <= k1 <= zlen (q_q s)) by (unfold k1, qs_len, qs_cap; lia).
  set (sA := qs_dequeue_n s k1).
  assert (HcapA : qs_cap sA = qs_cap s).
  { unfold qs_cap, sA, qs_dequeue_n. cbn [q_q q_fr].
    rewrite zlen_app, zlen_firstn, zlen_skipn by lia. lia. }
  assert (HposA : q_pos sA = pidx (qs_cap s) (q_pos s) k1) by reflexivity.
  assert (HwfA : qs_wf sA).
  { unfold qs_wf. rewrite HcapA, HposA. apply pidx_range; unfold qs_cap; lia. }
  pose proof (@greedy_dequeue sA (n - k1) ltac:(lia) HwfA) as G.
  cbv zeta in G. rewrite G. clear G. cbn [obind].
  set (k2 := Z.min (Z.min (qs_len sA) (qs_cap sA - q_pos sA)) (n - k1)).
  assert (HlenA : qs_len sA = qs_len s - k1).
  { unfold qs_len, sA, qs_dequeue_n. cbn [q_q]. rewrite zlen_skipn by lia. lia. }
  assert (Harith : k1 + k2 = Z.min n (qs_len s) /\ 0 <= k2).
  { pose proof (@two_piece (qs_cap s) (q_pos s) 0 (qs_len s) n) as T. cbv zeta in T.
    rewrite pidx_0_wf in T by (unfold qs_cap; lia). rewrite !Z.add_0_l in T.
    assert (E1 : k1 = Z.min (Z.min n (qs_len s)) (qs_cap s - q_pos s)) by (unfold k1; lia).
    assert (E2 : k2 = Z.min (Z.min (n - k1) (qs_len s - k1))
                        (qs_cap s - pidx (qs_cap s) (q_pos s) k1)).
    { unfold k2. rewrite HcapA, HposA, HlenA. lia. }
    rewrite <- E1 in T. rewrite <- E2 in T. unfold qs_len, qs_cap in *. destruct T; lia. }
  destruct Harith as (Hsum & Hk2).
  unfold qs_dequeue_slice. rewrite <- Hsum.
  assert (Hk2' : k2 <= zlen (q_q s) - k1) by (unfold qs_len in *; lia).
  unfold qs_dequeue_n at 1. unfold sA at 1 2 3 4. unfold qs_dequeue_n at 1 2 3. cbn [q_q q_fr q_pos].
  rewrite skipn_skipn_z, <- app_assoc, firstn_add_z by lia.
  change (qs_idx (qs_dequeue_n s k1) k2) with (pidx (qs_cap sA) (q_pos sA) k2).
  rewrite HcapA, HposA, pidx_pidx by (unfold qs_cap; lia).
  unfold sA, qs_dequeue_n. cbn [q_q]. rewrite firstn_add_z by lia. reflexivity.
Qed.
Lemma qs_eta : forall s, mkQs (q_q s) (q_fr s) (q_pos s) = s.
Proof. destruct s; reflexivity. Qed.

(* one get_unallocated whose slice is completely overwritten with the head of [data] *)
Lemma get_unallocated_write : forall s offset (data : list A), 0 <= offset -> qs_wf s ->
  qs_get_unallocated s offset (zlen data) data =
  let n := if qs_window s <? offset then 0
           else Z.min (Z.min (zlen data) (qs_window s - offset))
                      (qs_cap s - pidx (qs_cap s) (q_pos s) (qs_len s + offset)) in
  let off := if qs_window s <? offset then 0 else offset in
  Ok (mkQs (q_q s) (put (q_fr s) off (firstn (Z.to_nat n) data)) (q_pos s), slice (q_fr s) off n).
Proof.
  intros s offset data Ho Hwf. unfold qs_get_unallocated. cbv zeta.
  change (qs_idx s (qs_len s + offset)) with (pidx (qs_cap s) (q_pos s) (qs_len s + offset)).
  pose proof (zlen_nonneg data). pose proof (zlen_nonneg (q_q s)). pose proof (zlen_nonneg (q_fr s)).
  unfold qs_window, qs_wf, qs_cap, qs_len in *.
  destruct (Z.ltb_spec (zlen (q_fr s)) offset).
  - rewrite slice_len0, overlay_nil. reflexivity.
  - pose proof (@pidx_range (zlen (q_q s) + zlen (q_fr s)) (q_pos s) (zlen (q_q s) + offset)
                  ltac:(lia) ltac:(lia)) as Hp.
    set (n := Z.min (Z.min (zlen data) (zlen (q_fr s) - offset))
                    (zlen (q_q s) + zlen (q_fr s) - pidx (zlen (q_q s) + zlen (q_fr s)) (q_pos s) (zlen (q_q s) + offset))).
    assert (Hn : 0 <= n) by lia.
    assert (Hzs : zlen (slice (q_fr s) offset n) = n) by (apply zlen_slice; lia).
    rewrite overlay_long by (unfold zlen in *; lia).
    replace (length (slice (q_fr s) offset n)) with (Z.to_nat n) by (unfold zlen in *; lia).
    reflexivity.
Qed.

Lemma qsc_write_unallocated : forall s offset (data : list A), 0 <= offset -> qs_wf s ->
  (do x1 <- qs_get_unallocated s offset (zlen data) data;
   let '(s1, old1) := x1 in
   let size_1 := zlen old1 in
   let offset := offset + size_1 in
   let data := skipn (Z.to_nat size_1) data in
   do x2 <- qs_get_unallocated s1 offset (zlen data) data;
   let '(s2, old2) := x2 in
   Ok (s2, size_1 + zlen old2)) = qs_write_unallocated s offset data.
Proof.
  intros s offset data Ho Hwf. rewrite (get_unallocated_write data Ho Hwf). cbv zeta. cbn [obind].
  unfold qs_write_unallocated.
  pose proof (zlen_nonneg data). pose proof (zlen_nonneg (q_q s)). pose proof (zlen_nonneg (q_fr s)).
  pose proof Hwf as Hwf'. unfold qs_wf, qs_cap in Hwf'.
  destruct (Z.ltb_spec (qs_window s) offset) as [Hlt|Hge].
  - (* offset beyond the window: both calls hand out the empty slice *)
    rewrite slice_len0. change (zlen (@nil A)) with 0. rewrite Z.add_0_r.
    change (Z.to_nat 0) with 0%nat. cbn [skipn firstn]. rewrite put_nil_0, qs_eta.
    pose proof (get_unallocated_write data Ho Hwf) as G. cbv zeta in G. rewrite G. clear G.
    destruct (Z.ltb_spec (qs_window s) offset); [|lia]. cbn [obind].
    change (Z.to_nat 0) with 0%nat. cbn [firstn]. rewrite slice_len0, put_nil_0, qs_eta. reflexivity.
  - unfold qs_window in *.
    set (c := qs_cap s) in *. set (len := qs_len s) in *. set (w := zlen (q_fr s)) in *.
    set (n1 := Z.min (Z.min (zlen data) (w - offset)) (c - pidx c (q_pos s) (len + offset))).
    pose proof (@pidx_range c (q_pos s) (len + offset) ltac:(unfold c, qs_cap; lia)
                  ltac:(unfold c, len, w, qs_cap, qs_len in *; lia)) as Hp.
    assert (Hn1 : 0 <= n1 <= w - offset) by (unfold c, qs_cap in *; lia).
    rewrite zlen_slice by (fold w; lia).
    set (sA := mkQs (q_q s) (put (q_fr s) offset (firstn (Z.to_nat n1) data)) (q_pos s)).
    assert (Hzd1 : zlen (firstn (Z.to_nat n1) data) = n1) by (apply zlen_firstn; lia).
    assert (HfrA : zlen (q_fr sA) = w).
    { unfold sA. cbn [q_fr]. rewrite zlen_put by (fold w; lia). reflexivity. }
    assert (HcapA : qs_cap sA = c) by (unfold qs_cap in *; rewrite HfrA; reflexivity).
    assert (HwfA : qs_wf sA) by (unfold qs_wf; rewrite HcapA; exact Hwf).
    pose proof (@get_unallocated_write sA (offset + n1) (skipn (Z.to_nat n1) data)
                  ltac:(lia) HwfA) as G.
    cbv zeta in G. rewrite G. clear G. unfold qs_window. rewrite HfrA, HcapA.
    destruct (Z.ltb_spec w (offset + n1)); [lia|]. cbn [obind].
    change (qs_len sA) with len. change (q_pos sA) with (q_pos s).
    rewrite zlen_skipn by lia.
    set (n2 := Z.min (Z.min (zlen data - n1) (w - (offset + n1)))
                     (c - pidx c (q_pos s) (len + (offset + n1)))).
    pose proof (@two_piece c (q_pos s) (len + offset) (w - offset) (zlen data)) as T. cbv zeta in T.
    fold n1 in T. replace (w - offset - n1) with (w - (offset + n1)) in T by lia.
    replace (len + offset + n1) with (len + (offset + n1)) in T by lia. fold n2 in T.
    destruct T as (Hsum & _ & Hn2); try (unfold c, len, w, qs_cap, qs_len in *; lia).
    rewrite zlen_slice by (rewrite ?HfrA; lia).
    unfold sA. cbn [q_q q_fr q_pos].
    rewrite <- Hsum. f_equal. f_equal. f_equal.
    rewrite <- Hzd1 at 2. rewrite put_put.
    + rewrite firstn_add_z by lia. reflexivity.
    + lia.
    + rewrite Hzd1, zlen_firstn by (rewrite zlen_skipn by lia; lia). fold w. lia.
Qed.

Lemma qsc_read_allocated : forall s offset n, 0 <= offset -> 0 <= n -> qs_wf s ->
  (do s1 <- qs_get_allocated s offset n;
   let offset := offset + zlen s1 in
   do s2 <- qs_get_allocated s offset (n - zlen s1);
   Ok (zlen s1 + zlen s2, s1 ++ s2)) = qs_read_allocated s offset n.
Proof.
  intros s offset n Ho Hn Hwf. unfold qs_get_allocated, qs_read_allocated.
  pose proof (zlen_nonneg (q_q s)). pose proof (zlen_nonneg (q_fr s)).
  pose proof Hwf as Hwf'. unfold qs_wf, qs_cap in Hwf'.
  destruct (Z.ltb_spec (qs_len s) offset) as [Hlt|Hge].
  - cbn [obind]. change (zlen (@nil A)) with 0. rewrite Z.add_0_r.
    destruct (Z.ltb_spec (qs_len s) offset); [|lia]. reflexivity.
  - cbn [obind].
    change (qs_idx s offset) with (pidx (qs_cap s) (q_pos s) offset).
    set (c := qs_cap s) in *. set (len := qs_len s) in *.
    set (n1 := Z.min (Z.min n (len - offset)) (c - pidx c (q_pos s) offset)).
    pose proof (@pidx_range c (q_pos s) offset ltac:(unfold c, qs_cap; lia)
                  ltac:(unfold c, len, qs_cap, qs_len in *; lia)) as Hp.
    assert (Hn1 : 0 <= n1 <= len - offset) by (unfold c, qs_cap in *; lia).
    rewrite zlen_slice by (unfold len, qs_len in *; lia).
    destruct (Z.ltb_spec len (offset + n1)); [lia|]. cbn [obind].
    change (qs_idx s (offset + n1)) with (pidx c (q_pos s) (offset + n1)).
    set (n2 := Z.min (Z.min (n - n1) (len - (offset + n1))) (c - pidx c (q_pos s) (offset + n1))).
    pose proof (@two_piece c (q_pos s) offset (len - offset) n) as T. cbv zeta in T.
    fold n1 in T. replace (len - offset - n1) with (len - (offset + n1)) in T by lia. fold n2 in T.
    destruct T as (Hsum & _ & Hn2); try (unfold c, len, qs_cap, qs_len in *; lia).
    rewrite zlen_slice by (unfold len, qs_len in *; lia).
    rewrite slice_add by lia. rewrite Hsum. reflexivity.
Qed.
End QsAlg.

(* ------------------------------------------------------------------------------------ *)
(* derived operations of the ring, the step function, whole runs                          *)
(* ------------------------------------------------------------------------------------ *)
Section RefineDerived.
Variable A : Type.
Implicit Types r : ring A.
Implicit Types s : qs A.

(* the slot after the last element *)
Lemma enq_slot_facts : forall r q old fr', rep r q (old :: fr') ->
  let idx := pidx (zlen (r_store r)) (r_read r) (r_len r) in
  ring_is_full r = false /\ ring_get_idx_unchecked r (r_len r) = Ok idx /\
  elem_at (r_store r) idx = Ok old /\ 0 <= idx < Z.max 1 (zlen (r_store r)) /\
  forall new, rotl (r_read r) (put (r_store r) idx [new]) = q ++ new :: fr' /\
              zlen (put (r_store r) idx [new]) = zlen (r_store r).
Proof.
  intros r q old fr' Hrep idx. pose proof (rep_cap Hrep) as Hc. destruct Hrep as (Hi & HL & Hq).
  pose proof Hi as Hi'. unfold ring_inv in Hi'.
  pose proof (zlen_nonneg q). rewrite zlen_cons in Hc. pose proof (zlen_nonneg fr').
  assert (Hfull : ring_is_full r = false).
  { unfold ring_is_full, ring_window, ring_len.
    destruct (Z.eqb_spec (ring_capacity r - r_len r) 0); [lia|reflexivity]. }
  assert (Hgi : ring_get_idx_unchecked r (r_len r) = Ok idx)
    by (rewrite get_idx_unchecked_pidx by (auto; lia); reflexivity).
  unfold ring_capacity in *.
  assert (Hidx : 0 <= idx < Z.max 1 (zlen (r_store r))) by (apply pidx_range; lia).
  assert (Hs : slice (r_store r) idx 1 = [old]).
  { unfold idx. rewrite rot_slice by (try fold idx; lia).
    rewrite HL, <- Hq, <- (Z.add_0_r (zlen q)), slice_app_at by lia. reflexivity. }
  assert (He : elem_at (r_store r) idx = Ok old).
  { unfold slice in Hs. destruct (skipn (Z.to_nat idx) (r_store r)) eqn:E; [discriminate|].
    simpl in Hs. inversion Hs; subst. eapply elem_at_slice; eauto. lia. }
  split; [|split; [|split; [|split]]]; auto.
  intro new. split.
  - unfold idx. rewrite rot_put by (try fold idx; rewrite ?zlen_cons, ?zlen_nil; lia).
    rewrite HL, <- Hq, <- (Z.add_0_r (zlen q)), put_app_at;
      [reflexivity|lia|rewrite ?zlen_cons, ?zlen_nil; lia].
  - apply zlen_put; rewrite ?zlen_cons, ?zlen_nil; lia.
Qed.

(* enqueue_one hands out a reference to the slot after the last element; reading it gives the
   stale content, writing through it sets the new last element *)
Lemma enqueue_one_ref : forall r q fr, rep r q fr ->
  match ring_enqueue_one r with
  | Err e => e = E_FULL /\ fr = []
  | Panic => False
  | Ok (r1, slot) =>
      exists old fr', fr = old :: fr' /\ slot = qs_idx (mkQs q fr (r_read r)) (zlen q) /\
        r_read r1 = r_read r /\
        ring_ref_read r1 slot = Ok old /\ rep r1 (q ++ [old]) fr' /\
        forall v, rep (ring_ref_write r1 slot v) (q ++ [v]) fr'
  end.
Proof.
  intros r q fr Hrep. pose proof (rep_cap Hrep) as Hc.
  destruct fr as [|old fr'].
  - destruct Hrep as (Hi & HL & Hq). rewrite zlen_nil in Hc.
    unfold ring_enqueue_one, ring_enqueue_one_with, ring_is_full, ring_window, ring_len.
    destruct (Z.eqb_spec (ring_capacity r - r_len r) 0); [|lia]. auto.
  - destruct (enq_slot_facts Hrep) as (Hfull & Hgi & He & Hidx & Hput).
    pose proof Hrep as (Hi & HL & Hq). pose proof Hi as Hi'. unfold ring_inv, ring_capacity in Hi'.
    unfold ring_enqueue_one, ring_enqueue_one_with. rewrite Hfull, Hgi. cbn [obind].
    rewrite He. cbn [obind].
    set (idx := pidx (zlen (r_store r)) (r_read r) (r_len r)) in *.
    exists old, fr'. split; [reflexivity|]. split.
    { rewrite qs_idx_pidx, Hc, Hq. reflexivity. }
    split; [reflexivity|].
    destruct (Hput old) as (HL1 & Hz1).
    (* the ring with the stale value written back, still of length len *)
    assert (Hrep' : rep (mkRing (put (r_store r) idx [old]) (r_read r) (r_len r)) q (old :: fr')).
    { apply mk_rep; auto. rewrite Hz1. lia. }
    destruct (enq_slot_facts Hrep') as (_ & _ & He' & _ & Hput'). cbn [r_store r_read r_len] in *.
    rewrite Hz1 in He', Hput'. fold idx in He', Hput'.
    split; [exact He'|]. split.
    + apply mk_rep.
      * rewrite Hz1. lia.
      * rewrite HL1, <- app_assoc. reflexivity.
      * rewrite zlen_app, zlen_cons, zlen_nil. lia.
    + intro v. destruct (Hput' v) as (HL2 & Hz2). unfold ring_ref_write. cbn [r_store r_read r_len].
      apply mk_rep.
      * rewrite Hz2. lia.
      * rewrite HL2, <- app_assoc. reflexivity.
      * rewrite zlen_app, zlen_cons, zlen_nil. lia.
Qed.
Ltac cb_nonneg :=
  let H := fresh in
  intros ? ? ? ? H || intros ? ? ? H; cbv zeta in H; inversion H; subst;
  repeat match goal with |- context [zlen ?l] => pose proof (zlen_nonneg l); generalize dependent (zlen l); intros end;
  lia.

Lemma sim_enqueue_many : forall r size w, 0 <= size -> ring_inv r ->
  sim (ring_enqueue_many r size w) (qs_enqueue_many (ring_view r) size w).
Proof.
  intros r size w Hsz Hi. rewrite <- qsc_enqueue_many by (auto; apply view_wf; auto).
  unfold ring_enqueue_many. apply sim_bind.
  - apply sim_enqueue_many_with; auto.
    intros buf new k res H. cbv zeta in H. inversion H. pose proof (zlen_nonneg buf). lia.
  - intros r' [a ret] Hi'. cbn [sim]. auto.
Qed.

Lemma sim_dequeue_many : forall r size, 0 <= size -> ring_inv r ->
  sim (ring_dequeue_many r size) (qs_dequeue_many (ring_view r) size).
Proof.
  intros r size Hsz Hi. rewrite <- qsc_dequeue_many by (auto; apply view_wf; auto).
  unfold ring_dequeue_many. apply sim_bind.
  - apply sim_dequeue_many_with; auto.
    intros buf k res H. cbv zeta in H. inversion H. pose proof (zlen_nonneg buf). lia.
  - intros r' [a ret] Hi'. cbn [sim]. auto.
Qed.

Lemma sim_enqueue_slice : forall r data, ring_inv r ->
  sim (ring_enqueue_slice r data) (qs_enqueue_slice (ring_view r) data).
Proof.
  intros r data Hi. rewrite <- qsc_enqueue_slice by (apply view_wf; auto).
  unfold ring_enqueue_slice. apply sim_bind.
  - apply sim_enqueue_many_with; auto.
    intros buf new k res H. cbv zeta in H. inversion H.
    pose proof (zlen_nonneg buf). pose proof (zlen_nonneg data). lia.
  - intros r1 [size_1 data1] Hi1. apply sim_bind.
    + apply sim_enqueue_many_with; auto.
      intros buf new k res H. cbv zeta in H. inversion H.
      pose proof (zlen_nonneg buf). pose proof (zlen_nonneg data1). lia.
    + intros r2 [size_2 u] Hi2. cbn [sim]. auto.
Qed.

Lemma sim_dequeue_slice : forall r n, 0 <= n -> ring_inv r ->
  sim (ring_dequeue_slice r n) (qs_dequeue_slice (ring_view r) n).
Proof.
  intros r n Hn Hi. rewrite <- qsc_dequeue_slice by (auto; apply view_wf; auto).
  unfold ring_dequeue_slice.
  (* the second callback needs 0 <= n - size_1, which holds because size_1 <= n *)
  set (f1 := fun buf : list A => let size := Z.min (zlen buf) n in Ok (size, slice buf 0 size)).
  assert (Hcb : cb_nonneg2 f1).
  { intros buf k res H. unfold f1 in H. cbv zeta in H. inversion H. pose proof (zlen_nonneg buf). lia. }
  pose proof (sim_dequeue_many_with Hcb Hi) as S1.
  destruct (ring_dequeue_many_with r f1) as [[r1 [size_1 d1]]| |] eqn:E1; cbn [sim] in S1.
  - destruct S1 as (Hi1 & S1). rewrite S1. cbn [obind].
    assert (Hs1 : size_1 <= n).
    { unfold ring_dequeue_many_with in E1.
      destruct (negb _); [discriminate|]. unfold f1 in E1. cbv zeta in E1. cbn [obind] in E1.
      destruct (_ <? _) in E1; [discriminate|]. inversion E1. lia. }
    apply sim_bind.
    + apply sim_dequeue_many_with; auto.
      intros buf k res H. cbv zeta in H. inversion H. pose proof (zlen_nonneg buf). lia.
    + intros r2 [size_2 d2] Hi2. cbn [sim]. auto.
  - rewrite S1. reflexivity.
  - rewrite S1. reflexivity.
Qed.

Lemma sim_write_unallocated : forall r offset data, 0 <= offset -> ring_inv r ->
  sim (ring_write_unallocated r offset data) (qs_write_unallocated (ring_view r) offset data).
Proof.
  intros r offset data Ho Hi. rewrite <- qsc_write_unallocated by (auto; apply view_wf; auto).
  unfold ring_write_unallocated. apply sim_bind.
  - apply sim_get_unallocated; auto. apply zlen_nonneg.
  - intros r1 old1 Hi1. cbv zeta. apply sim_bind.
    + apply sim_get_unallocated; auto; [pose proof (zlen_nonneg old1); lia | apply zlen_nonneg].
    + intros r2 old2 Hi2. cbn [sim]. auto.
Qed.

Lemma sim_read_allocated : forall r offset n, 0 <= offset -> 0 <= n -> ring_inv r ->
  ring_read_allocated r offset n = qs_read_allocated (ring_view r) offset n.
Proof.
  intros r offset n Ho Hn Hi. rewrite <- qsc_read_allocated by (auto; apply view_wf; auto).
  unfold ring_read_allocated. rewrite sim_get_allocated by auto.
  destruct (qs_get_allocated (ring_view r) offset n) as [s1| |] eqn:E; cbn [obind]; auto.
  cbv zeta.
  assert (Hz : zlen s1 <= n).
  { unfold qs_get_allocated in E. destruct (_ <? _) in E.
    - inversion E. rewrite zlen_nil. lia.
    - inversion E. unfold zlen, slice. rewrite firstn_length. lia. }
  rewrite sim_get_allocated; auto; pose proof (zlen_nonneg s1); lia.
Qed.
Definition ring_op_ok (op : ring_op A) : Prop :=
  match op with
  | ROEnqManyWith _ k => 0 <= k
  | ROEnqMany size _ => 0 <= size
  | RODeqManyWith k => 0 <= k
  | RODeqMany size => 0 <= size
  | RODeqSlice n => 0 <= n
  | ROGetUnalloc off size _ => 0 <= off /\ 0 <= size
  | ROWrUnalloc off _ => 0 <= off
  | ROEnqUnalloc n => 0 <= n
  | ROGetAlloc off size => 0 <= off /\ 0 <= size
  | RORdAlloc off n => 0 <= off /\ 0 <= n
  | RODeqAlloc n => 0 <= n
  | _ => True
  end.

Lemma status_eq : forall r, ring_inv r -> ring_status r = qs_status (ring_view r).
Proof.
  intros r Hi. pose proof (view_rep Hi) as Hrep. pose proof (rep_cap Hrep) as Hc.
  destruct Hrep as (_ & _ & Hq).
  unfold ring_status, qs_status, ring_is_empty, ring_is_full, qs_is_empty, qs_is_full,
    ring_contiguous_window, qs_contiguous_window, ring_window, ring_len, qs_window, qs_len.
  pose proof Hi as Hi'. unfold ring_inv in Hi'.
  rewrite get_idx_pidx by (auto; lia).
  change (qs_idx (ring_view r) (zlen (q_q (ring_view r))))
    with (pidx (qs_cap (ring_view r)) (r_read r) (zlen (q_q (ring_view r)))).
  unfold qs_cap. rewrite Hc, Hq.
  replace (zlen (q_fr (ring_view r))) with (ring_capacity r - r_len r) by lia.
  reflexivity.
Qed.

Theorem ring_step_refines : forall r op, ring_inv r -> ring_op_ok op ->
  sim (ring_step r op) (qs_step (ring_view r) op).
Proof.
  intros r op Hi Hok. destruct op; cbn [ring_step qs_step ring_op_ok] in *.
  - (* enqueue_one *)
    pose proof (enqueue_one_ref (view_rep Hi)) as H. rewrite <- view_eta in H.
    destruct (ring_enqueue_one r) as [[r1 slot]|e|]; cbn [obind].
    + destruct H as (old & fr' & Hfr & Hslot & Hrd & Hrr & _ & Hw).
      rewrite Hrr. cbn [obind]. unfold qs_enqueue_one_with. rewrite Hfr. cbn [obind sim].
      specialize (Hw (wr w old)). split; [apply Hw|]. rewrite (rep_view Hw).
      unfold ring_ref_write. cbn [r_read]. rewrite Hrd. reflexivity.
    + destruct H as (-> & Hfr). unfold qs_enqueue_one_with. rewrite Hfr. reflexivity.
    + contradiction.
  - (* enqueue_one_with *)
    apply sim_bind; [apply sim_enqueue_one_with; auto|].
    intros r1 old Hi1. cbn [sim]. auto.
  - (* dequeue_one *)
    apply sim_bind; [apply sim_dequeue_one_with; auto|].
    intros r1 [i v] Hi1. cbn [sim]. auto.
  - apply sim_bind; [apply sim_dequeue_one_with; auto|].
    intros r1 v Hi1. cbn [sim]. auto.
  - (* enqueue_many_with *)
    apply sim_bind.
    + apply sim_enqueue_many_with; auto. intros buf new k0 res H. inversion H. subst. auto.
    + intros r1 [size buf] Hi1. cbn [sim]. auto.
  - apply sim_bind; [apply sim_enqueue_many; auto|].
    intros r1 old Hi1. cbn [sim]. auto.
  - apply sim_bind; [apply sim_enqueue_slice; auto|].
    intros r1 n Hi1. cbn [sim]. auto.
  - apply sim_bind.
    + apply sim_dequeue_many_with; auto. intros buf k0 res H. inversion H. subst. auto.
    + intros r1 [size buf] Hi1. cbn [sim]. auto.
  - apply sim_bind; [apply sim_dequeue_many; auto|].
    intros r1 buf Hi1. cbn [sim]. auto.
  - apply sim_bind; [apply sim_dequeue_slice; auto|].
    intros r1 [k d] Hi1. cbn [sim]. auto.
  - destruct Hok. apply sim_bind; [apply sim_get_unallocated; auto|].
    intros r1 old Hi1. cbn [sim]. auto.
  - apply sim_bind; [apply sim_write_unallocated; auto|].
    intros r1 n Hi1. cbn [sim]. auto.
  - (* enqueue_unallocated *)
    pose proof (sim_enqueue_unallocated' Hok (view_rep Hi)) as H. rewrite <- view_eta in H.
    destruct (ring_enqueue_unallocated r n) as [r1|e|]; cbn [obind sim].
    + destruct H as (Hi1 & ->). cbn [obind]. auto.
    + contradiction.
    + rewrite H. reflexivity.
  - (* get_allocated *)
    destruct Hok. rewrite sim_get_allocated by auto.
    destruct (qs_get_allocated (ring_view r) off size); cbn [obind sim]; auto.
  - destruct Hok. rewrite sim_read_allocated by auto.
    destruct (qs_read_allocated (ring_view r) off n) as [[k d]| |]; cbn [obind sim]; auto.
  - pose proof (sim_dequeue_allocated' Hok (view_rep Hi)) as H. rewrite <- view_eta in H.
    destruct (ring_dequeue_allocated r n) as [r1|e|]; cbn [obind sim].
    + destruct H as (Hi1 & ->). cbn [obind]. auto.
    + contradiction.
    + rewrite H. reflexivity.
  - destruct (sim_clear Hi) as (Hi1 & Hv). cbn [sim]. rewrite Hv. auto.
Qed.

(* every run: same observations as the list queue, invariant kept *)
Theorem ring_run_refines : forall ops r, ring_inv r -> Forall ring_op_ok ops ->
  ring_inv (fst (ring_run r ops)) /\
  qs_run (ring_view r) ops = (ring_view (fst (ring_run r ops)), snd (ring_run r ops)).
Proof.
  induction ops as [|op ops IH]; intros r Hi Hok.
  - cbn. auto.
  - inversion Hok as [|? ? Hop Hops]; subst.
    pose proof (@ring_step_refines r op Hi Hop) as Hs.
    cbn [ring_run qs_run]. destruct (ring_step r op) as [[r1 [ns es]]|e|]; cbn [sim] in Hs.
    + destruct Hs as (Hi1 & ->). destruct (IH r1 Hi1 Hops) as (Hi2 & Hrun).
      rewrite Hrun. destruct (ring_run r1 ops) as [r2 outs]. cbn [fst snd] in *.
      rewrite status_eq by auto. auto.
    + rewrite Hs. destruct (IH r Hi Hops) as (Hi2 & Hrun).
      rewrite Hrun. destruct (ring_run r ops) as [r2 outs]. cbn [fst snd] in *. auto.
    + rewrite Hs. cbn [fst snd]. auto.
Qed.
End RefineDerived.

(* ------------------------------------------------------------------------------------ *)
(* consequences read off the list-queue machine                                           *)
(* ------------------------------------------------------------------------------------ *)
Section QueueFacts.
Variable A : Type.
Implicit Types r : ring A.
Implicit Types s : qs A.

(* elements an operation appends to / removes from the front of the queue, as determined by its
   arguments and observable result (enqueue_unallocated commits scratch contents; dequeue_allocated
   and clear discard without returning) *)
Definition qs_enq s (op : ring_op A) (out : list Z * list A) : list A :=
  match op with
  | ROEnqOne w => map (wr w) (snd out)
  | ROEnqOneWith w acc => if acc then map (wr w) (snd out) else []
  | ROEnqManyWith w k => firstn (Z.to_nat k) (overlay w (snd out))
  | ROEnqMany _ w => overlay w (snd out)
  | ROEnqSlice d => firstn (Z.to_nat (hd 0 (fst out))) d
  | ROEnqUnalloc n => firstn (Z.to_nat n) (q_fr s)
  | _ => []
  end.
Definition qs_deq s (op : ring_op A) (out : list Z * list A) : list A :=
  match op with
  | RODeqOne => snd out
  | RODeqOneWith acc => if acc then snd out else []
  | RODeqManyWith k => firstn (Z.to_nat k) (snd out)
  | RODeqMany _ => snd out
  | RODeqSlice _ => snd out
  | RODeqAlloc n => firstn (Z.to_nat n) (q_q s)
  | ROClear => q_q s
  | _ => []
  end.

Lemma app_nil_r' : forall (l : list A), l = l ++ [].
Proof. intros. rewrite app_nil_r. reflexivity. Qed.

Lemma qs_step_fifo : forall s op s' out, qs_wf s -> ring_op_ok op ->
  qs_step s op = Ok (s', out) ->
  q_q s ++ qs_enq s op out = qs_deq s op out ++ q_q s' /\ qs_cap s' = qs_cap s.
Proof.
  intros s op s' out Hwf Hok Hst.
  pose proof (zlen_nonneg (q_q s)). pose proof (zlen_nonneg (q_fr s)).
  destruct op; cbn [qs_step ring_op_ok qs_enq qs_deq] in *.
  - (* enqueue_one *)
    unfold qs_enqueue_one_with in Hst. destruct (q_fr s) as [|old fr'] eqn:Efr; [discriminate|].
    cbn [obind] in Hst. inversion Hst; subst. cbn [snd map q_q]. split; [reflexivity|].
    unfold qs_cap. cbn [q_q q_fr]. rewrite Efr, zlen_app, !zlen_cons, zlen_nil. lia.
  - unfold qs_enqueue_one_with in Hst. destruct (q_fr s) as [|old fr'] eqn:Efr; [discriminate|].
    cbn [obind] in Hst. inversion Hst; subst. cbn [snd map].
    unfold qs_cap. destruct acc; cbn [q_q q_fr]; rewrite ?app_nil_r, Efr, ?zlen_app, !zlen_cons, ?zlen_nil;
      split; auto; lia.
  - unfold qs_dequeue_one_with in Hst. destruct (q_q s) as [|x q'] eqn:Eq; [discriminate|].
    cbn [obind] in Hst. inversion Hst; subst. cbn [snd q_q]. rewrite app_nil_r. split; [reflexivity|].
    unfold qs_cap. cbn [q_q q_fr]. rewrite Eq, zlen_app, !zlen_cons, zlen_nil. lia.
  - unfold qs_dequeue_one_with in Hst. destruct (q_q s) as [|x q'] eqn:Eq; [discriminate|].
    cbn [obind] in Hst. inversion Hst; subst. cbn [snd]. rewrite app_nil_r.
    unfold qs_cap. destruct acc; cbn [q_q q_fr]; rewrite ?Eq, ?zlen_app, ?zlen_cons, ?zlen_nil;
      split; auto; lia.
  - (* enqueue_many_with *)
    unfold qs_enqueue_many_with in Hst. cbn [obind] in Hst.
    destruct (reset_facts Hwf) as (Hq1 & Hfr1 & Hwf1 & _).
    set (s1 := qs_reset_if_empty s) in *. pose proof (cw_range Hwf1) as Hm.
    set (m := qs_contiguous_window s1) in *. unfold qs_window in Hm.
    destruct (Z.ltb_spec m k); [discriminate|]. inversion Hst; subst. cbn [snd q_q].
    rewrite Hq1.
    rewrite (overlay_same (overlay w (firstn (Z.to_nat m) (q_fr s1))) (firstn (Z.to_nat m) (q_fr s1)))
      by (rewrite overlay_length; reflexivity).
    split; [reflexivity|]. unfold qs_cap. cbn [q_q q_fr].
    assert (Hzo : zlen (firstn (Z.to_nat m) (q_fr s1)) = m) by (apply zlen_firstn; lia).
    rewrite !zlen_app, zlen_firstn, !zlen_skipn by (rewrite ?zlen_overlay; lia).
    rewrite zlen_overlay, Hzo. lia.
  - (* enqueue_many *)
    unfold qs_enqueue_many in Hst. inversion Hst; subst. cbn [snd q_q].
    destruct (reset_facts Hwf) as (Hq1 & Hfr1 & Hwf1 & _).
    set (s1 := qs_reset_if_empty s) in *. pose proof (cw_range Hwf1) as Hm. unfold qs_window in Hm.
    rewrite Hq1. split; [reflexivity|]. unfold qs_cap. cbn [q_q q_fr].
    rewrite zlen_app, zlen_overlay, zlen_firstn, zlen_skipn by lia. lia.
  - unfold qs_enqueue_slice in Hst. inversion Hst; subst. cbn [snd fst hd q_q].
    destruct (reset_facts Hwf) as (Hq1 & Hfr1 & Hwf1 & _).
    set (s1 := qs_reset_if_empty s) in *. pose proof (zlen_nonneg d). unfold qs_window.
    rewrite Hq1. split; [reflexivity|]. unfold qs_cap. cbn [q_q q_fr].
    rewrite zlen_app, zlen_firstn, zlen_skipn by lia. lia.
  - (* dequeue_many_with *)
    unfold qs_dequeue_many_with in Hst. cbn [obind] in Hst.
    set (m := Z.min (qs_len s) (qs_cap s - q_pos s)) in *.
    assert (Hm : 0 <= m <= zlen (q_q s)) by (unfold m, qs_wf, qs_cap, qs_len in *; lia).
    destruct (Z.ltb_spec m k); [discriminate|]. inversion Hst; subst. cbn [snd q_q].
    rewrite app_nil_r, firstn_firstn_z, firstn_skipn by lia. split; [reflexivity|].
    unfold qs_cap. cbn [q_q q_fr]. rewrite zlen_app, zlen_firstn, zlen_skipn by lia. lia.
  - unfold qs_dequeue_many, qs_dequeue_n in Hst. inversion Hst; subst. cbn [snd q_q].
    set (n := Z.min size (Z.min (qs_len s) (qs_cap s - q_pos s))).
    assert (Hn : 0 <= n <= zlen (q_q s)) by (unfold n, qs_wf, qs_cap, qs_len in *; lia).
    rewrite app_nil_r, firstn_skipn. split; [reflexivity|].
    unfold qs_cap. cbn [q_q q_fr]. rewrite zlen_app, zlen_firstn, zlen_skipn by lia. lia.
  - unfold qs_dequeue_slice, qs_dequeue_n in Hst. inversion Hst; subst. cbn [snd q_q].
    set (k := Z.min n (qs_len s)).
    assert (Hk : 0 <= k <= zlen (q_q s)) by (unfold k, qs_len in *; lia).
    rewrite app_nil_r, firstn_skipn. split; [reflexivity|].
    unfold qs_cap. cbn [q_q q_fr]. rewrite zlen_app, zlen_firstn, zlen_skipn by lia. lia.
  - (* get_unallocated *)
    destruct Hok as (Ho & Hsz). unfold qs_get_unallocated in Hst. inversion Hst; subst. cbn [q_q].
    rewrite app_nil_r. split; [reflexivity|]. unfold qs_cap. cbn [q_q q_fr]. f_equal.
    unfold qs_window.
    change (qs_idx s (qs_len s + off)) with (pidx (qs_cap s) (q_pos s) (qs_len s + off)).
    destruct (Z.ltb_spec (zlen (q_fr s)) off).
    + rewrite slice_len0, overlay_nil, put_nil_0. reflexivity.
    + pose proof (@pidx_range (qs_cap s) (q_pos s) (qs_len s + off) Hwf
                    ltac:(unfold qs_cap, qs_len; lia)) as Hp.
      apply zlen_put; [lia|]. rewrite zlen_overlay, zlen_slice; unfold qs_cap in *; lia.
  - unfold qs_write_unallocated in Hst. inversion Hst; subst. cbn [q_q].
    rewrite app_nil_r. split; [reflexivity|]. unfold qs_cap. cbn [q_q q_fr]. f_equal.
    unfold qs_window. pose proof (zlen_nonneg d).
    destruct (Z.ltb_spec (zlen (q_fr s)) off).
    + change (Z.to_nat 0) with 0%nat. cbn [firstn]. rewrite put_nil_0. reflexivity.
    + apply zlen_put; [lia|]. rewrite zlen_firstn; lia.
  - unfold qs_enqueue_unallocated in Hst. cbn [obind] in Hst. unfold qs_window in Hst.
    destruct (Z.ltb_spec (zlen (q_fr s)) n); [discriminate|]. inversion Hst; subst. cbn [q_q].
    split; [reflexivity|]. unfold qs_cap. cbn [q_q q_fr].
    rewrite zlen_app, zlen_firstn, zlen_skipn by lia. lia.
  - destruct (qs_get_allocated s off size); inversion Hst; subst. rewrite app_nil_r. auto.
  - destruct (qs_read_allocated s off n) as [[k d]| |]; inversion Hst; subst. rewrite app_nil_r. auto.
  - unfold qs_dequeue_allocated, qs_dequeue_n in Hst. unfold qs_len in Hst.
    destruct (Z.ltb_spec (zlen (q_q s)) n); [discriminate|]. cbn [obind] in Hst.
    inversion Hst; subst. cbn [q_q]. rewrite app_nil_r, firstn_skipn. split; [reflexivity|].
    unfold qs_cap. cbn [q_q q_fr]. rewrite zlen_app, zlen_firstn, zlen_skipn by lia. lia.
  - inversion Hst; subst. unfold qs_clear. cbn [q_q]. rewrite !app_nil_r. split; [reflexivity|].
    unfold qs_cap. cbn [q_q q_fr]. rewrite zlen_rotl, zlen_app, zlen_nil. lia.
Qed.
(* history of a run: everything accepted and everything removed, in order *)
Fixpoint ring_hist r (ops : list (ring_op A)) : list A * list A :=
  match ops with
  | [] => ([], [])
  | op :: ops' =>
      match ring_step r op with
      | Ok (r1, out) =>
          let '(e, d) := ring_hist r1 ops' in
          (qs_enq (ring_view r) op out ++ e, qs_deq (ring_view r) op out ++ d)
      | Err _ => ring_hist r ops'
      | Panic => ([], [])
      end
  end.

Lemma view_cap : forall r, ring_inv r -> qs_cap (ring_view r) = ring_capacity r.
Proof. intros r Hi. apply (rep_cap (view_rep Hi)). Qed.

Lemma abs_le_cap : forall r, ring_inv r -> zlen (ring_abs r) <= ring_capacity r.
Proof.
  intros r Hi. pose proof (rep_cap (view_rep Hi)). unfold ring_abs.
  pose proof (zlen_nonneg (q_fr (ring_view r))). lia.
Qed.

Theorem ring_run_fifo : forall ops r, ring_inv r -> Forall (@ring_op_ok A) ops ->
  ring_abs r ++ fst (ring_hist r ops) = snd (ring_hist r ops) ++ ring_abs (fst (ring_run r ops)) /\
  ring_capacity (fst (ring_run r ops)) = ring_capacity r /\
  zlen (ring_abs (fst (ring_run r ops))) <= ring_capacity r.
Proof.
  induction ops as [|op ops IH]; intros r Hi Hok.
  - cbn [ring_run ring_hist fst snd]. rewrite app_nil_r. split; [reflexivity|]. split; [reflexivity|].
    apply abs_le_cap; auto.
  - inversion Hok as [|? ? Hop Hops]; subst.
    pose proof (@ring_step_refines A r op Hi Hop) as Hs.
    cbn [ring_run ring_hist]. destruct (ring_step r op) as [[r1 [ns es]]|e|]; cbn [sim] in Hs.
    + destruct Hs as (Hi1 & Hs).
      destruct (@qs_step_fifo (ring_view r) op (ring_view r1) (ns, es) (view_wf Hi) Hop Hs) as (Hf & Hcap).
      rewrite !view_cap in Hcap by auto.
      destruct (IH r1 Hi1 Hops) as (IH1 & IH2 & IH3).
      destruct (ring_run r1 ops) as [r2 outs]. destruct (ring_hist r1 ops) as [e d].
      cbn [fst snd] in *. unfold ring_abs in *. split; [|split]; try lia.
      rewrite app_assoc, Hf, <- !app_assoc. f_equal. exact IH1.
    + destruct (IH r Hi Hops) as (IH1 & IH2 & IH3).
      destruct (ring_run r ops) as [r2 outs]. cbn [fst snd] in *. auto.
    + cbn [fst snd]. rewrite app_nil_r. split; [reflexivity|]. split; [reflexivity|].
      apply abs_le_cap; auto.
Qed.

(* the only panics are the four documented assert!s, under exactly these conditions *)
Definition ring_op_panics r (op : ring_op A) : Prop :=
  match op with
  | ROEnqManyWith _ k => ring_contiguous_window (ring_reset_if_empty r) < k
  | RODeqManyWith k => Z.min (ring_len r) (ring_capacity r - r_read r) < k
  | ROEnqUnalloc n => ring_window r < n
  | RODeqAlloc n => ring_len r < n
  | _ => False
  end.

Lemma sim_panic : forall R (x : outcome (ring A * R)) y, sim x y -> (x = Panic <-> y = Panic).
Proof.
  intros R x y H. destruct x as [[r o]| |]; cbn [sim] in H.
  - destruct H as (_ & ->). split; discriminate.
  - subst. split; discriminate.
  - subst. split; auto.
Qed.

Theorem ring_panic_iff : forall r op, ring_inv r -> ring_op_ok op ->
  (ring_step r op = Panic <-> ring_op_panics r op).
Proof.
  intros r op Hi Hok. rewrite (@sim_panic _ _ _ (@ring_step_refines A r op Hi Hok)).
  pose proof (view_rep Hi) as Hrep. pose proof (rep_cap Hrep) as Hc. pose proof Hrep as (_ & _ & Hq).
  pose proof Hi as Hi'. unfold ring_inv in Hi'.
  destruct op; cbn [qs_step ring_op_panics ring_op_ok] in *.
  - unfold qs_enqueue_one_with. destruct (q_fr (ring_view r)); cbn [obind]; split; (discriminate || contradiction).
  - unfold qs_enqueue_one_with. destruct (q_fr (ring_view r)); cbn [obind]; split; (discriminate || contradiction).
  - unfold qs_dequeue_one_with. destruct (q_q (ring_view r)); cbn [obind]; split; (discriminate || contradiction).
  - unfold qs_dequeue_one_with. destruct (q_q (ring_view r)); cbn [obind]; split; (discriminate || contradiction).
  - (* enqueue_many_with *)
    unfold qs_enqueue_many_with. cbn [obind].
    destruct (rep_reset Hrep) as (fr1 & Hrep1 & Hs1 & _ & _). rewrite <- view_eta in Hs1.
    pose proof Hrep1 as (Hi1 & _). pose proof (status_eq Hi1) as Hst.
    rewrite (rep_view Hrep1) in Hst. rewrite <- Hs1 in Hst.
    unfold ring_status, qs_status in Hst.
    pose proof (f_equal (fun l => nth 3 l 0) Hst) as Hcw. cbn [nth] in Hcw.
    rewrite Hcw.
    destruct (Z.ltb_spec (qs_contiguous_window (qs_reset_if_empty (ring_view r))) k);
      split; auto; try discriminate; lia.
  - split; [discriminate|contradiction].
  - split; [discriminate|contradiction].
  - unfold qs_dequeue_many_with. cbn [obind]. unfold qs_len, qs_cap, ring_len.
    rewrite Hc, Hq. cbn [ring_view q_pos].
    destruct (Z.ltb_spec (Z.min (r_len r) (ring_capacity r - r_read r)) k);
      split; auto; try discriminate; lia.
  - split; [discriminate|contradiction].
  - split; [discriminate|contradiction].
  - split; [discriminate|contradiction].
  - split; [discriminate|contradiction].
  - unfold qs_enqueue_unallocated, qs_window, ring_window, ring_len.
    replace (zlen (q_fr (ring_view r))) with (ring_capacity r - r_len r) by lia.
    destruct (Z.ltb_spec (ring_capacity r - r_len r) n); cbn [obind];
      split; auto; try discriminate; lia.
  - unfold qs_get_allocated. destruct (_ <? _); cbn [obind]; split; (discriminate || contradiction).
  - unfold qs_read_allocated. destruct (_ <? _); cbn [obind]; split; (discriminate || contradiction).
  - unfold qs_dequeue_allocated, qs_len, ring_len. rewrite Hq.
    destruct (Z.ltb_spec (r_len r) n); cbn [obind]; split; auto; try discriminate; lia.
  - split; [discriminate|contradiction].
Qed.

(* the usize subtractions of the source cannot underflow under the invariant *)
Lemma ring_sub_ok : forall r, ring_inv r ->
  0 <= ring_window r /\ 0 <= ring_capacity r - r_read r /\
  (forall i, 0 <= i <= ring_capacity r -> 0 <= ring_capacity r - ring_get_idx r i) /\
  0 <= ring_contiguous_window r.
Proof.
  intros r Hi. pose proof Hi as Hi'. unfold ring_inv in Hi'.
  assert (Hg : forall i, 0 <= i <= ring_capacity r -> 0 <= ring_capacity r - ring_get_idx r i).
  { intros i Hir. rewrite get_idx_pidx by auto.
    pose proof (@pidx_range (ring_capacity r) (r_read r) i). lia. }
  unfold ring_contiguous_window, ring_window, ring_len.
  specialize (Hg (r_len r)) as Hg'. repeat split; auto; try lia.
Qed.

Lemma ring_new_inv : forall (store : list A), ring_inv (ring_new store).
Proof.
  intros. unfold ring_inv, ring_new, ring_capacity. cbn [r_len r_read r_store].
  pose proof (zlen_nonneg store). lia.
Qed.
End QueueFacts.

(* ------------------------------------------------------------------------------------ *)
(* statements exported to Props/C14.v                                                     *)
(* ------------------------------------------------------------------------------------ *)
Lemma ok_inj : forall T (a b : T), Ok a = Ok b -> a = b.
Proof. intros T a b H. inversion H. reflexivity. Qed.

Section C14Ring.
Variable A : Type.

Lemma c14_ring_invariant : forall (store : list A) ops,
  Forall (@ring_op_ok A) ops ->
  let r := fst (ring_run (ring_new store) ops) in
  ring_inv r /\ ring_capacity r = zlen store /\ 0 <= ring_len r <= zlen store /\
  ring_len r = zlen (ring_abs r).
Proof.
  intros store ops Hok r.
  destruct (@ring_run_refines A ops (ring_new store) (ring_new_inv store) Hok) as (Hi & _).
  destruct (@ring_run_fifo A ops (ring_new store) (ring_new_inv store) Hok) as (_ & Hc & _).
  fold r in Hi, Hc. split; [exact Hi|]. split; [exact Hc|].
  destruct (view_rep Hi) as (_ & _ & Hq). unfold ring_abs, ring_len.
  rewrite Hq. unfold ring_inv in Hi. rewrite Hc in Hi.
  change (ring_capacity (ring_new store)) with (zlen store) in Hi. split; [lia|reflexivity].
Qed.

Lemma c14_ring_random_access : forall (r r1 : ring A) off d n,
  ring_inv r -> 0 <= off ->
  ring_write_unallocated r off d = Ok (r1, n) ->
  ring_inv r1 /\ ring_abs r1 = ring_abs r /\
  n = (if ring_window r <? off then 0 else Z.min (zlen d) (ring_window r - off)) /\
  (off <= ring_window r ->
     q_fr (ring_view r1) = put (q_fr (ring_view r)) off (firstn (Z.to_nat n) d)) /\
  forall r2, off = 0 -> ring_enqueue_unallocated r1 n = Ok r2 ->
     ring_inv r2 /\ ring_abs r2 = ring_abs r ++ firstn (Z.to_nat n) d.
Proof.
  intros r r1 off d n Hi Ho Hw.
  pose proof (sim_write_unallocated d Ho Hi) as Hs. rewrite Hw in Hs. cbn [sim] in Hs.
  destruct Hs as (Hi1 & Hs). unfold qs_write_unallocated in Hs.
  pose proof (rep_cap (view_rep Hi)) as Hc.
  assert (Hwin : qs_window (ring_view r) = ring_window r).
  { unfold qs_window, ring_window, ring_len. destruct (view_rep Hi) as (_ & _ & Hq). lia. }
  rewrite Hwin in Hs. apply ok_inj in Hs.
  pose proof (f_equal fst Hs) as Hv. pose proof (f_equal snd Hs) as Hn. cbn [fst snd] in Hv, Hn.
  clear Hs. split; [exact Hi1|]. unfold ring_abs. rewrite <- Hv. cbn [q_q q_fr].
  split; [reflexivity|]. split; [auto|]. split.
  - intro Hle. destruct (Z.ltb_spec (ring_window r) off); [lia|]. rewrite Hn. reflexivity.
  - intros r2 H0 He. subst off.
    pose proof (zlen_nonneg d). pose proof (ring_sub_ok Hi) as (Hw0 & _).
    destruct (Z.ltb_spec (ring_window r) 0); [lia|].
    assert (Hn0 : 0 <= n) by lia.
    pose proof (sim_enqueue_unallocated' Hn0 (view_rep Hi1)) as H2. rewrite <- view_eta in H2.
    rewrite He in H2. destruct H2 as (Hi2 & H2). split; [exact Hi2|].
    unfold qs_enqueue_unallocated in H2. destruct (_ <? _) in H2; [discriminate|].
    apply ok_inj in H2. rewrite <- H2, <- Hv. cbn [q_q q_fr]. f_equal.
    rewrite Hn. rewrite put_0.
    assert (Hz : zlen (firstn (Z.to_nat n) d) = n) by (apply zlen_firstn; lia).
    apply firstn_app_len. exact Hz.
Qed.

Definition c14_ring_example_ops : list (ring_op Z) :=
  [ROEnqSlice [1; 2; 3]; RODeqSlice 2; ROEnqSlice [4; 5]; ROWrUnalloc 0 [9]].

End C14Ring.

Lemma c14_ring_example :
  let r := fst (ring_run (ring_new [0; 0; 0; 0]) c14_ring_example_ops) in
  r = mkRing [5; 9; 3; 4] 2 3 /\ ring_abs r = [3; 4; 5] /\ q_fr (ring_view r) = [9] /\
  ring_inv r /\ ring_contiguous_window r = 1 /\
  Forall (@ring_op_ok Z) c14_ring_example_ops.
Proof.
  vm_compute. repeat split; try discriminate; repeat constructor; discriminate.
Qed.
