(* Lemmas about Model/WireTcp.v (properties C06, C07). *)
From SV Require Import Lib.Base Gen.WireFields Gen.Consts Model.WireBase Model.WireTcp Proofs.WireBaseProofs Proofs.WireBaseProofs2.

(* ================= C07: TcpOption::parse and the option walks ================= *)

Lemma wb_sub_opt_inv l lo hi s : wb_sub_opt l lo hi = Some s ->
  0 <= lo <= hi /\ hi <= blen l /\ s = firstn (Z.to_nat (hi - lo)) (skipn (Z.to_nat lo) l) /\
  blen s = hi - lo.
Proof.
  unfold wb_sub_opt. destruct ((0 <=? lo) && (lo <=? hi) && (hi <=? blen l)) eqn:E; [|discriminate].
  intros H; injection H as <-. bsplit. repeat split; try lia.
  rewrite blen_firstn; [lia|]. rewrite blen_skipn; lia.
Qed.

Lemma nth_error_byte (l : list Z) n v : bytes_ok l = true -> nth_error l n = Some v -> 0 <= v < 256.
Proof.
  intros Hb H. apply nth_error_In in H. unfold bytes_ok in Hb. rewrite forallb_forall in Hb.
  specialize (Hb _ H). unfold is_u8 in Hb. bsplit. lia.
Qed.

Lemma tcp_sack_slot_nopanic data i : 0 <= i -> (blen data) mod 8 = 0 -> tcp_sack_slot data i <> Panic.
Proof.
  intros Hi Hm. unfold tcp_sack_slot. cbv zeta. pose proof (blen_nonneg data).
  destruct (i * 8 <? blen data) eqn:E; [|discriminate]. bsplit.
  assert (i * 8 + 8 <= blen data) by lia.
  apply obind_nopanic; [apply wb_get_be_nopanic; lia|]. intros ? _.
  apply obind_nopanic; [apply wb_get_be_nopanic; lia|]. intros ? _. discriminate.
Qed.

(* TcpOption::parse never panics, and on success consumes at least one octet *)
Lemma tcp_option_parse_spec buf : bytes_ok buf = true ->
  tcp_option_parse buf <> Panic /\
  forall rest o, tcp_option_parse buf = Ok (rest, o) ->
    (length rest < length buf)%nat /\ bytes_ok rest = true.
Proof.
  intros Hb. unfold tcp_option_parse. destruct buf as [|kind tl]; [split; [discriminate | intros; discriminate]|].
  set (buf := kind :: tl) in *.
  assert (Hl1 : 1 <= blen buf) by (unfold buf; rewrite blen_cons; pose proof (blen_nonneg tl); lia).
  assert (Hfrom : forall n, 1 <= n <= blen buf ->
            wb_from buf n = Ok (skipn (Z.to_nat n) buf) /\
            (length (skipn (Z.to_nat n) buf) < length buf)%nat /\ bytes_ok (skipn (Z.to_nat n) buf) = true).
  { intros n Hn. rewrite wb_from_ok by lia. split; [reflexivity|]. split; [|apply bytes_ok_skipn, Hb].
    rewrite skipn_length. unfold blen in *. lia. }
  destruct (kind =? wtcp_OPT_END) eqn:K0.
  { destruct (Hfrom 1 ltac:(lia)) as (-> & L & B). cbn [obind]. split; [discriminate|].
    intros rest o X. injection X as <- <-. auto. }
  destruct (kind =? wtcp_OPT_NOP) eqn:K1.
  { destruct (Hfrom 1 ltac:(lia)) as (-> & L & B). cbn [obind]. split; [discriminate|].
    intros rest o X. injection X as <- <-. auto. }
  destruct (nth_error buf 1) as [len|] eqn:En; [|split; [discriminate | intros; discriminate]].
  pose proof (nth_error_byte _ _ _ Hb En) as Rlen.
  destruct (wb_sub_opt buf 2 len) as [data|] eqn:Ed; [|split; [discriminate | intros; discriminate]].
  apply wb_sub_opt_inv in Ed. destruct Ed as (Ed1 & Ed2 & _ & Ed4).
  destruct (Hfrom len ltac:(lia)) as (Hf & L & B). rewrite Hf.
  set (inner := if kind =? wtcp_OPT_MSS then _ else _).
  assert (Hin : inner <> Panic).
  { unfold inner. repeat case_if; try discriminate; bsplit.
    - apply obind_nopanic; [apply wb_get_be_nopanic; lia | intros; discriminate].
    - apply obind_nopanic; [apply wb_get_u8_nopanic; lia | intros; discriminate].
    - bsplit.
      assert (blen data mod 8 = 0) by (rewrite Ed4; assumption).
      apply obind_nopanic; [apply tcp_sack_slot_nopanic; lia|]. intros ? _.
      apply obind_nopanic; [apply tcp_sack_slot_nopanic; lia|]. intros ? _.
      apply obind_nopanic; [apply tcp_sack_slot_nopanic; lia|]. intros ? _. discriminate.
    - apply obind_nopanic; [apply wb_get_be_nopanic; lia|]. intros ? _.
      apply obind_nopanic; [apply wb_get_be_nopanic; lia|]. intros ? _. discriminate. }
  split.
  - destruct inner; cbn [obind]; try discriminate. congruence.
  - intros rest o X. destruct inner; cbn [obind] in X; try discriminate. injection X as <- <-. auto.
Qed.

Lemma tcp_option_parse_nopanic buf : bytes_ok buf = true -> tcp_option_parse buf <> Panic.
Proof. intros Hb. apply (tcp_option_parse_spec buf Hb). Qed.

(* termination: with fuel >= remaining length the walk never runs out of fuel, and never panics *)
Lemma tcp_walk_nopanic {A} (step : A -> tcp_option -> A * bool) fuel : forall opts acc,
  bytes_ok opts = true -> (length opts <= fuel)%nat -> tcp_walk step fuel opts acc <> Panic.
Proof.
  induction fuel as [|f IH]; intros opts acc Hb Hl.
  - destruct opts; [discriminate | cbn in Hl; lia].
  - destruct opts as [|x tl]; [discriminate|]. cbn [tcp_walk].
    destruct (tcp_option_parse_spec (x :: tl) Hb) as (Hnp & Hsp).
    destruct (tcp_option_parse (x :: tl)) as [[rest o]| |] eqn:E; cbn [obind]; try discriminate; [|congruence].
    destruct (Hsp rest o eq_refl) as (Hlt & Hbr). cbn [fst snd].
    destruct (step acc o) as [acc' c]. destruct c; [|discriminate].
    apply IH; [assumption | cbn [length] in *; lia].
Qed.

(* fuel suffices: any fuel >= the remaining length gives the same result *)
Lemma tcp_walk_fuel {A} (step : A -> tcp_option -> A * bool) f1 : forall f2 opts acc,
  bytes_ok opts = true -> (length opts <= f1)%nat -> (length opts <= f2)%nat ->
  tcp_walk step f1 opts acc = tcp_walk step f2 opts acc.
Proof.
  induction f1 as [|f1 IH]; intros f2 opts acc Hb H1 H2.
  - destruct opts; [destruct f2; reflexivity | cbn in H1; lia].
  - destruct opts as [|x tl]; [destruct f2; reflexivity|].
    destruct f2 as [|f2]; [cbn in H2; lia|]. cbn [tcp_walk].
    destruct (tcp_option_parse_spec (x :: tl) Hb) as (_ & Hsp).
    destruct (tcp_option_parse (x :: tl)) as [[rest o]| |] eqn:E; cbn [obind]; try reflexivity.
    destruct (Hsp rest o eq_refl) as (Hlt & Hbr). cbn [fst snd].
    destruct (step acc o) as [acc' c]. destruct c; [|reflexivity].
    apply IH; [assumption | cbn [length] in *; lia | cbn [length] in *; lia].
Qed.

(* ================= C07: accessors ================= *)

Lemma tcp_flags_word bs : 20 <= blen bs -> bytes_ok bs = true ->
  exists raw, tcp_flags bs = Ok raw /\ 0 <= raw < 65536.
Proof.
  intros H Hb. unfold tcp_flags. apply wb_get_u16_word; try assumption; zfold; lia.
Qed.

Lemma tcp_header_len_range raw : 0 <= raw < 65536 -> 0 <= (Z.shiftr raw 12 * 4) mod 256 <= 60.
Proof.
  intros H. rewrite Z.shiftr_div_pow2 by lia. change (2 ^ 12) with 4096.
  assert (0 <= raw / 4096 < 16) by lia. rewrite Z.mod_small by lia. lia.
Qed.

Lemma tcp_check_len_inv bs : bytes_ok bs = true -> tcp_check_len bs = Ok tt ->
  exists hl, tcp_header_len_ bs = Ok hl /\ 20 <= hl <= 60 /\ hl <= blen bs.
Proof.
  intros Hb. unfold tcp_check_len. zfold. destruct (blen bs <? 20) eqn:E; [discriminate|]. bsplit.
  destruct (tcp_flags_word bs E Hb) as (raw & Hraw & Rraw).
  unfold tcp_header_len_. rewrite Hraw. cbn [obind].
  pose proof (tcp_header_len_range raw Rraw).
  case_if; [discriminate|]. apply orb_false_elim in Heqb. destruct Heqb. bsplit.
  intros _. eexists; split; [reflexivity | lia].
Qed.

Section Checksum.
Variable sum_ok : list Z -> bool.
Variable sum_fill : list Z -> Z.

Lemma tcp_accessors_safe bs : bytes_ok bs = true -> tcp_check_len bs = Ok tt ->
  tcp_src_port bs <> Panic /\ tcp_dst_port bs <> Panic /\ tcp_seq_number bs <> Panic /\
  tcp_ack_number bs <> Panic /\ tcp_fin bs <> Panic /\ tcp_syn bs <> Panic /\ tcp_rst bs <> Panic /\
  tcp_psh bs <> Panic /\ tcp_ack_ bs <> Panic /\ tcp_urg bs <> Panic /\ tcp_ece bs <> Panic /\
  tcp_cwr bs <> Panic /\ tcp_ns bs <> Panic /\ tcp_header_len_ bs <> Panic /\
  tcp_window_len bs <> Panic /\ tcp_checksum bs <> Panic /\ tcp_urgent_at bs <> Panic /\
  tcp_options bs <> Panic /\ tcp_payload_ bs <> Panic /\ tcp_segment_len bs <> Panic /\
  tcp_options_summary bs <> Panic /\ tcp_selective_ack_permitted bs <> Panic /\
  tcp_selective_ack_ranges bs <> Panic.
Proof.
  intros Hb H. destruct (tcp_check_len_inv bs Hb H) as (hl & Hhl & R1 & R2).
  destruct (tcp_flags_word bs ltac:(lia) Hb) as (raw & Hraw & _).
  assert (G : forall f n, 0 <= fst f -> fst f + n = snd f -> 0 <= n -> snd f <= 20 ->
                          wb_get_be bs (fst f) (snd f) n <> Panic).
  { intros. apply wb_get_be_nopanic; lia. }
  assert (Hopts : exists o, tcp_options bs = Ok o /\ bytes_ok o = true).
  { unfold tcp_options. rewrite Hhl. cbn [obind]. zfold. rewrite wb_sub_ok by lia.
    eexists; split; [reflexivity|]. apply bytes_ok_firstn, bytes_ok_skipn, Hb. }
  destruct Hopts as (o & Ho & Hbo).
  unfold tcp_src_port, tcp_dst_port, tcp_seq_number, tcp_ack_number, tcp_window_len, tcp_checksum,
    tcp_urgent_at, wb_get_u16, wb_get_u32, tcp_fin, tcp_syn, tcp_rst, tcp_psh, tcp_ack_, tcp_urg,
    tcp_ece, tcp_cwr, tcp_ns, tcp_flag, tcp_payload_, tcp_segment_len, tcp_syn, tcp_fin, tcp_flag,
    tcp_options_summary, tcp_selective_ack_permitted, tcp_selective_ack_ranges.
  rewrite Ho, Hhl, Hraw. cbn [obind]. unfold wb_assert. zbool. cbn [obind].
  repeat split; try discriminate; try (apply G; zfold; lia).
  - apply wb_from_nopanic; lia.
  - apply tcp_walk_nopanic; [assumption | lia].
  - apply tcp_walk_nopanic; [assumption | lia].
  - apply tcp_walk_nopanic; [assumption | lia].
Qed.

Lemma tcp_parse_total rx bs : bytes_ok bs = true -> tcp_parse sum_ok rx bs <> Panic.
Proof.
  intros Hb. unfold tcp_parse.
  destruct (tcp_check_len bs) as [[]| |] eqn:E; cbn [obind]; try discriminate.
  - destruct (tcp_accessors_safe bs Hb E) as
      (A1 & A2 & A3 & A4 & A5 & A6 & A7 & A8 & A9 & _ & _ & _ & _ & _ & A15 & _ & _ & A18 & A19 & _).
    destruct (tcp_check_len_inv bs Hb E) as (hl & Hhl & R1 & R2).
    assert (Hopts : exists o, tcp_options bs = Ok o /\ bytes_ok o = true).
    { unfold tcp_options. rewrite Hhl. cbn [obind]. zfold. rewrite wb_sub_ok by lia.
      eexists; split; [reflexivity|]. apply bytes_ok_firstn, bytes_ok_skipn, Hb. }
    destruct Hopts as (o & Ho & Hbo). rewrite Ho.
    pose proof (tcp_walk_nopanic (tcp_optsum_step true) (length o) o tcp_optsum_default Hbo (le_n _)) as W.
    nopanic2.
  - exfalso. revert E. unfold tcp_check_len. zfold. destruct (blen bs <? 20) eqn:L; [discriminate|]. bsplit.
    destruct (tcp_flags_word bs L Hb) as (raw & Hraw & _).
    unfold tcp_header_len_. rewrite Hraw. cbn [obind]. case_if; discriminate.
Qed.

End Checksum.
