(* C02 (liveness half), close, layer 6: BETWEEN THE HALVES, AND TIME-WAIT.
     QS       both halves of the first exchange are done: c in FIN-WAIT-2, r in CLOSE-WAIT, nothing tracked.
              Stable under every event of a reliable run in which r's application neither writes nor closes;
              r's close() turns it into the start of the second half.
     J3       r has closed and is CLOSED, the other side sits in TIME-WAIT with its 10 s timer: no event but
              the expiry of that timer moves anything; at the expiry the socket is CLOSED and releases its tuple *)
From SV Require Import Lib.Base Gen.Consts.
From SV Require Import Model.Seq32 Model.Assembler Model.TcpBuf Model.TcpTypes Model.Tcp Model.TcpNet.
From SV Require Proofs.TcpRecvBase Proofs.TcpRecvInv Proofs.TcpRecvProcess Proofs.TcpRecvDispatch.
From SV Require Import Proofs.TcpSendBase Proofs.TcpLiveBase Proofs.TcpLiveProofs Proofs.TcpLiveMore
  Proofs.TcpLiveProgress.
From SV Require Import Proofs.TcpNetBase.
From SV Require Import Proofs.TcpProgressBase Proofs.TcpProgressFrame Proofs.TcpProgressCtl Proofs.TcpProgressRecv
  Proofs.TcpProgressSend Proofs.TcpProgressNet Proofs.TcpProgressData Proofs.TcpProgressAck
  Proofs.TcpProgressAll Proofs.TcpProgressSafe Proofs.TcpProgressHs Proofs.TcpProgressHsD
  Proofs.TcpProgressExample Proofs.TcpProgressWitness Proofs.TcpProgressZwDup Proofs.TcpProgressZw1 Proofs.TcpProgressZw2
  Proofs.TcpProgressCl1 Proofs.TcpProgressCl2 Proofs.TcpProgressCl3 Proofs.TcpProgressCl4 Proofs.TcpProgressCl5.

Notation sz st z := (net_sock st z).

(* an idle socket of the close: every poll is quiet *)
Lemma idle_poll_veq cx s t stt una ws tm M ok s' out tags :
  gview cx s t stt una una ws tm ws M -> st_sync stt -> want_fin stt = false ->
  (tm = TIdle None \/ exists e, tm = TClose e /\ cx_now cx < e) ->
  tcp_step cx s (EvDispatch ok) = Ok (s', out, tags) -> wire_out out = None /\ veq s' s.
Proof.
  intros G S1 S2 Htm Hs.
  eapply quiet_poll_veq; [exact G | exact S1 | left; reflexivity | rewrite S2; reflexivity | | exact Hs].
  destruct Htm as [X | X]; [left; exact X | right; right; exact X].
Qed.

Section Between.
Variables (c : side) (tc : tuple) (U V : Z) (MR : option Z) (Dt Da dk : Z).
Notation r := (side_other c).
Notation tr := (mirror tc).
Notation U1 := (seq_add U 1).

Definition QS (fa : fair_aux) (st : net) : Prop :=
  base c Da dk fa st /\
  gview (cxz st c) (sz st c) tc FinWait2 U1 U1 V (TIdle None) V (Some U1) /\
  gview (cxz st r) (sz st r) tr CloseWait V V U1 (TIdle None) U1 MR /\
  ntrk fa c /\ ntrk fa r.

Lemma QS_neutral fa st ev st' :
  QS fa st -> fair_ev fa st ev -> net_step st ev = Ok st' ->
  (forall z j, ev <> NDeliver z j) -> nstep st st' -> QS (fa_after Dt Da fa ev st') st'.
Proof.
  intros (HB & GC & GR & N1 & N2) Hfe H Hnd Hn.
  pose proof HB as (_ & _ & Hsy & _).
  split; [exact (base_step c Dt Da dk _ _ _ _ HB Hfe H)|].
  split; [exact (gview_nstep _ _ _ _ _ _ _ _ _ _ _ Hn GC)|].
  split; [exact (gview_nstep _ _ _ _ _ _ _ _ _ _ _ Hn GR)|].
  split; [apply (ntrk_keep Dt Da fa st ev st' c Hsy Hfe H); [apply (Hn c) | exact N1]
         | apply (ntrk_keep Dt Da fa st ev st' r Hsy Hfe H); [apply (Hn r) | exact N2]].
Qed.

Lemma QS_step fa st ev st' :
  cl_ev c false ev -> QS fa st -> fair_ev fa st ev -> once_ev fa ev -> net_step st ev = Ok st' ->
  QS (fa_after Dt Da fa ev st') st'.
Proof.
  intros Hcl HQ Hfe Hoe H. pose proof HQ as (HB & GC & GR & N1 & N2).
  destruct (net_step_kind _ _ _ H) as [w ev0 e' Hse He -> | to i -> Hnone -> | d -> -> | w isn0 ts -> -> | to i Hd].
  - destruct (sock_step_pieces st w ev0 e' He) as (s' & out & tags & Hs & E1 & E2 & E3 & E4 & E5).
    assert (Hquiet : wire_out out = None /\ veq s' (sz st w) -> (forall z j, ev <> NDeliver z j) ->
                     QS (fa_after Dt Da fa ev (net_set st w e')) (net_set st w e')).
    { intros (Hw & Hv) Hnd. apply (QS_neutral fa st ev _ HQ Hfe H Hnd).
      exact (nstep_sock st w e' s' out E1 E2 E3 E4 E5 Hw Hv). }
    destruct ev as [to i | to i | to i | d | z i1 t1 | z ok | z data | z n | z]; cbn [sock_event] in Hse; try contradiction.
    + exfalso. destruct Hse as (-> & _).
      destruct (side_cases c w) as [-> | ->]; [exact (ntrk_nodeliver fa _ i N1 Hoe) | exact (ntrk_nodeliver fa _ i N2 Hoe)].
    + destruct Hse as (-> & ->). apply Hquiet; [|intros z0 j; discriminate].
      destruct (side_cases c w) as [-> | ->].
      * eapply idle_poll_veq; [exact GC | exact I | reflexivity | left; reflexivity | exact Hs].
      * eapply idle_poll_veq; [exact GR | exact I | reflexivity | left; reflexivity | exact Hs].
    + destruct Hse as (-> & ->). apply Hquiet; [|intros z0 j; discriminate].
      destruct (side_cases c w) as [-> | ->].
      * eapply app_veq; [exact GC | | exact Hs]. destruct GC as (C & _). unfold tcp_may_send. rewrite (cs_state _ _ _ _ _ _ _ C). reflexivity.
      * cbn [cl_ev] in Hcl. specialize (Hcl eq_refl). discriminate.
    + destruct Hse as (-> & ->). apply Hquiet; [|intros z0 j; discriminate].
      destruct (side_cases c w) as [-> | ->]; [eapply app_veq; [exact GC | | exact Hs] | eapply app_veq; [exact GR | | exact Hs]]; cbn; lia.
    + destruct Hse as (-> & ->). apply Hquiet; [|intros z0 j; discriminate].
      destruct (side_cases c w) as [-> | ->].
      * eapply app_veq; [exact GC | | exact Hs]. destruct GC as (C & _). unfold tcp_close. rewrite (cs_state _ _ _ _ _ _ _ C). reflexivity.
      * cbn [cl_ev] in Hcl. specialize (Hcl eq_refl). discriminate.
  - exfalso. destruct HB as (_ & _ & (Hl & _) & _). exact (once_ev_nth fa st to i Hl Hoe Hnone).
  - pose proof HB as (_ & _ & Hsy & _).
    split; [exact (base_step c Dt Da dk _ _ _ _ HB Hfe H)|].
    split; [apply tick_views; exact GC|]. split; [apply tick_views; exact GR|].
    split; [apply (ntrk_keep Dt Da fa st _ _ c Hsy Hfe H); [destruct c; reflexivity | exact N1]
           | apply (ntrk_keep Dt Da fa st _ _ r Hsy Hfe H); [destruct c; reflexivity | exact N2]].
  - apply (QS_neutral fa st _ _ HQ Hfe H); [intros z j; discriminate|].
    intros z. unfold net_sock, chan_to, net_now.
    destruct (side_cases w z) as [-> | ->]; rewrite ?net_get_set_same, ?net_get_set_other.
    + cbn [ep_set_cx ep_sock ep_cx cx_rand cx_addr cx_ip_mtu cx_now].
      split; [apply veq_refl|]. repeat split; try reflexivity; try (destruct w; reflexivity).
    + split; [apply veq_refl|]. repeat split; try reflexivity;
        try (rewrite side_other_inv, net_get_set_same; reflexivity).
  - destruct Hd as [-> | ->]; destruct Hfe.
Qed.

Lemma QS_run : forall evs fa st st',
  QS fa st -> Forall (cl_ev c false) evs -> fair_run Dt Da fa st evs -> once_run Dt Da fa st evs ->
  net_run st evs = Ok st' -> QS (fa_run Dt Da fa st evs) st'.
Proof.
  apply (rel_inv Dt Da (cl_ev c false) QS).
  intros fa st ev st' Hcl HK Hfe Hoe H. exact (QS_step fa st ev st' Hcl HK Hfe Hoe H).
Qed.

End Between.

(* ---------------------------------------------------------------------------------------- *)
(* TIME-WAIT                                                                                 *)
(* ---------------------------------------------------------------------------------------- *)
Definition sock_closed (s : socket) : Prop := s_state s = Closed /\ s_tuple s = None.

Section TimeWait.
Variables (a : side) (ta : tuple) (una ws : Z) (M : option Z) (Dt Da dk : Z).
Notation b := (side_other a).

Definition J3 (ec : Z) (fa : fair_aux) (st : net) : Prop :=
  base a Da dk fa st /\
  gview (cxz st a) (sz st a) ta TimeWait una una ws (TClose ec) ws M /\
  sock_closed (sz st b) /\ ntrk fa a /\ ntrk fa b /\ net_now st a <= ec.

Definition Q3 (fa : fair_aux) (st : net) : Prop := sock_closed (sz st a) /\ sock_closed (sz st b).

(* a step that keeps a's view, b closed, the channels and the clocks *)
Lemma J3_keep ec fa st ev st' :
  J3 ec fa st -> fair_ev fa st ev -> net_step st ev = Ok st' ->
  gview (cxz st' a) (sz st' a) ta TimeWait una una ws (TClose ec) ws M -> sock_closed (sz st' b) ->
  (forall z, chan_to st' z = chan_to st z) -> net_now st' a <= ec ->
  J3 ec (fa_after Dt Da fa ev st') st'.
Proof.
  intros (HB & GA & CB & N1 & N2 & Hc) Hfe H GA' CB' Hch Hc'.
  pose proof HB as (_ & _ & Hsy & _).
  split; [exact (base_step a Dt Da dk _ _ _ _ HB Hfe H)|]. split; [exact GA'|]. split; [exact CB'|].
  split; [exact (ntrk_keep Dt Da fa st ev st' a Hsy Hfe H (Hch a) N1)|].
  split; [exact (ntrk_keep Dt Da fa st ev st' b Hsy Hfe H (Hch b) N2) | exact Hc'].
Qed.

Lemma J3_step ec fa st ev st' :
  J3 ec fa st -> fair_ev fa st ev -> once_ev fa ev -> net_step st ev = Ok st' ->
  Q3 (fa_after Dt Da fa ev st') st' \/ J3 ec (fa_after Dt Da fa ev st') st'.
Proof.
  intros HJ Hfe Hoe H. pose proof HJ as (HB & GA & CB & N1 & N2 & Hc).
  destruct (net_step_kind _ _ _ H) as [w ev0 e' Hse He -> | to i -> Hnone -> | d -> -> | w isn0 ts -> -> | to i Hd].
  - destruct (sock_step_pieces st w ev0 e' He) as (s' & out & tags & Hs & E1 & E2 & E3 & E4 & E5).
    assert (Hnow : forall z, net_now (net_set st w e') z = net_now st z).
    { intros z. rewrite (net_step_now _ _ _ z H). destruct ev; try lia. destruct Hse. }
    destruct (side_cases a w) as [Ew | Ew]; subst w.
    + (* at the TIME-WAIT socket *)
      assert (Hquiet : wire_out out = None /\ veq s' (sz st a) ->
                       J3 ec (fa_after Dt Da fa ev (net_set st a e')) (net_set st a e')).
      { intros (Hw & Hv). apply (J3_keep ec fa st ev _ HJ Hfe H).
        - rewrite E1, E2. exact (veq_gview _ _ _ _ _ _ _ _ _ _ _ Hv GA).
        - unfold net_sock. rewrite E3. exact CB.
        - intros z. destruct (side_cases a z) as [-> | ->]; [exact E4 | rewrite E5, Hw; apply app_nil_r].
        - rewrite Hnow. exact Hc. }
      destruct ev as [to i | to i | to i | d | z i1 t1 | z ok | z data | z n | z]; cbn [sock_event] in Hse; try contradiction.
      * exfalso. destruct Hse as (-> & _). exact (ntrk_nodeliver fa _ i N1 Hoe).
      * destruct Hse as (_ & ->).
        destruct (step_disp_quiet _ _ _ _ _ _ _ _ _ _ _ _ _ GA I (or_introl eq_refl) eq_refl
                    (or_intror (or_intror (ex_intro _ ec eq_refl))) Hs) as (Hw & [(_ & Hv) | (_ & X1 & X2)]).
        -- right. apply Hquiet. split; assumption.
        -- left. split; [unfold sock_closed; rewrite E1; split; assumption|].
           unfold sock_closed, net_sock. rewrite E3. exact CB.
      * destruct Hse as (_ & ->). right. apply Hquiet.
        eapply app_veq; [exact GA | | exact Hs]. destruct GA as (C & _). unfold tcp_may_send. rewrite (cs_state _ _ _ _ _ _ _ C). reflexivity.
      * destruct Hse as (_ & ->). right. apply Hquiet. eapply app_veq; [exact GA | | exact Hs]. cbn. lia.
      * destruct Hse as (_ & ->). right. apply Hquiet.
        eapply app_veq; [exact GA | | exact Hs]. destruct GA as (C & _). unfold tcp_close. rewrite (cs_state _ _ _ _ _ _ _ C). reflexivity.
    + (* at the closed socket *)
      rewrite side_other_inv in E3, E5.
      destruct CB as (CB1 & CB2).
      assert (Hkeep : s_state s' = Closed /\ s_tuple s' = None /\ wire_out out = None ->
                      J3 ec (fa_after Dt Da fa ev (net_set st b e')) (net_set st b e')).
      { intros (X1 & X2 & Hw). apply (J3_keep ec fa st ev _ HJ Hfe H).
        - apply view_other; [exact E3 | exact GA].
        - rewrite E1. split; assumption.
        - intros z. destruct (side_cases a z) as [-> | ->]; [rewrite E5, Hw; apply app_nil_r | exact E4].
        - rewrite Hnow. exact Hc. }
      destruct ev as [to i | to i | to i | d | z i1 t1 | z ok | z data | z n | z]; cbn [sock_event] in Hse; try contradiction.
      * exfalso. destruct Hse as (-> & _). exact (ntrk_nodeliver fa _ i N2 Hoe).
      * destruct Hse as (_ & ->). right. apply Hkeep. refine (closed_keep _ _ _ _ _ _ CB1 CB2 _ Hs); exact I.
      * destruct Hse as (_ & ->). right. apply Hkeep. refine (closed_keep _ _ _ _ _ _ CB1 CB2 _ Hs); exact I.
      * destruct Hse as (_ & ->). right. apply Hkeep. refine (closed_keep _ _ _ _ _ _ CB1 CB2 _ Hs); exact I.
      * destruct Hse as (_ & ->). right. apply Hkeep. refine (closed_keep _ _ _ _ _ _ CB1 CB2 _ Hs); exact I.
  - exfalso. destruct HB as (_ & _ & (Hl & _) & _). exact (once_ev_nth fa st to i Hl Hoe Hnone).
  - right. apply (J3_keep ec fa st _ _ HJ Hfe H).
    + apply tick_views. exact GA.
    + assert (Es : sz (tick_net st d) b = sz st b) by (destruct a; reflexivity). rewrite Es. exact CB.
    + intros z. destruct z; reflexivity.
    + assert (Hn : net_now (tick_net st d) a = net_now st a + Z.max 0 d) by (destruct a; reflexivity).
      rewrite Hn. destruct GA as (C & Gt & _). destruct C as [K _ _ _ _ _ _ _].
      apply (tick_le_timer fa st d a ec ec Hfe); [|exact Hc | lia].
      unfold net_poll_at, net_sock in *.
      apply timer_poll_le; [rewrite (k_tuple _ _ _ K); discriminate | right; exact Gt].
  - right. apply (J3_keep ec fa st _ _ HJ Hfe H).
    + unfold net_sock. destruct (side_cases w a) as [-> | ->]; rewrite ?net_get_set_same, ?net_get_set_other.
      * cbn [ep_set_cx ep_sock ep_cx]. apply (gview_cx _ (cxz st w)); [reflexivity | reflexivity | exact GA].
      * exact GA.
    + unfold net_sock. destruct (side_cases b w) as [-> | ->]; rewrite ?net_get_set_same; [exact CB|].
      destruct a; exact CB.
    + intros z. unfold chan_to. destruct (side_cases w (side_other z)) as [-> | ->];
        rewrite ?net_get_set_same, ?net_get_set_other; reflexivity.
    + rewrite (net_step_now _ _ _ a H). lia.
  - destruct Hd as [-> | ->]; destruct Hfe.
Qed.

Theorem time_wait_expires ec : forall evs fa st st',
  J3 ec fa st -> fair_run Dt Da fa st evs -> once_run Dt Da fa st evs ->
  net_run st evs = Ok st' -> ec < net_now st' a ->
  exists pre post st1, evs = pre ++ post /\ net_run st pre = Ok st1 /\ net_run st1 post = Ok st' /\
                       Q3 (fa_run Dt Da fa st pre) st1.
Proof.
  intros evs fa st st' HJ Hf Ho Hr Hp.
  assert (HE : Forall (fun _ => True) evs) by (apply Forall_forall; intros; exact I).
  destruct (rel_leads_ev Dt Da (fun _ => True) (J3 ec) Q3 a ec) with (evs := evs) (fa := fa) (st := st) (st' := st')
    as (pre & post & st1 & E & H1 & H2 & _ & _ & _ & HQ); try assumption.
  - intros fa0 st0 (_ & _ & _ & _ & _ & X). exact X.
  - intros fa0 st0 ev st0' _ HJ0 Hfe Hoe H. exact (J3_step ec fa0 st0 ev st0' HJ0 Hfe Hoe H).
  - exists pre, post, st1. auto.
Qed.

End TimeWait.
