(* C02 (liveness half): NON-VACUITY of quiesce_close_after_fault_prefix (Proofs/TcpProgressCl15.v): a run from
   net_init whose PREFIX loses the first data segment and delivers a handshake frame twice; from the end of the
   prefix the schedule is reliable, every premise is decided (qregime in every state of the quiet part), and the
   theorem yields: all 12 octets acknowledged and read, both sockets CLOSED. *)
From SV Require Import Lib.Base Gen.Consts.
From SV Require Import Model.Seq32 Model.Assembler Model.TcpBuf Model.TcpTypes Model.Tcp Model.TcpNet.
From SV Require Import Proofs.TcpSendBase Proofs.TcpLiveBase Proofs.TcpLiveProofs Proofs.TcpLiveMore
  Proofs.TcpLiveProgress.
From SV Require Import Proofs.TcpNetBase.
From SV Require Proofs.TcpNetInv.
From SV Require Import Proofs.TcpProgressBase Proofs.TcpProgressFrame Proofs.TcpProgressCtl Proofs.TcpProgressRecv
  Proofs.TcpProgressSend Proofs.TcpProgressNet Proofs.TcpProgressData Proofs.TcpProgressAck
  Proofs.TcpProgressAll Proofs.TcpProgressSafe Proofs.TcpProgressHs Proofs.TcpProgressHsD
  Proofs.TcpProgressHsNet Proofs.TcpProgressHsInit Proofs.TcpProgressHsLive Proofs.TcpProgressHsLive2
  Proofs.TcpProgressZwp Proofs.TcpProgressExample Proofs.TcpProgressWitness Proofs.TcpProgressSafeWitness Proofs.TcpProgressZwDup
  Proofs.TcpProgressZw1 Proofs.TcpProgressZw1b Proofs.TcpProgressZw2 Proofs.TcpProgressZw3 Proofs.TcpProgressZwWitness
  Proofs.TcpProgressZw4 Proofs.TcpProgressZw5 Proofs.TcpProgressZw6 Proofs.TcpProgressZwWitness3 Proofs.TcpProgressZw7
  Proofs.TcpProgressCl1 Proofs.TcpProgressCl2 Proofs.TcpProgressCl3 Proofs.TcpProgressCl4 Proofs.TcpProgressCl5
  Proofs.TcpProgressCl6 Proofs.TcpProgressCl7 Proofs.TcpProgressCl8 Proofs.TcpProgressCl9
  Proofs.TcpProgressCl10 Proofs.TcpProgressCl11 Proofs.TcpProgressCl12 Proofs.TcpProgressCl13 Proofs.TcpProgressCl14 Proofs.TcpProgressCl15
  Proofs.TcpProgressHsRtx Proofs.TcpProgressRtxWitness Proofs.TcpProgressHsSrv1 Proofs.TcpProgressHsSrv2
  Proofs.TcpProgressHsSrvWitness.

Definition qcf_check (ca cb : ep_config) (pre evsD evsQ evs1 evs2 : list net_event) (Dt Da Dack : Z) (n : nat) : bool :=
  match net_init ca cb with
  | Ok st0 =>
      net_started st0 && forallb script_evb pre &&
      match net_run st0 pre with
      | Ok st =>
          let all := evsD ++ evsQ ++ NClose SA :: evs1 ++ NClose SB :: evs2 in
          tcp_state_eqb (s_state (net_sock st SA)) Established && tcp_state_eqb (s_state (net_sock st SB)) Established &&
          opts_okb st &&
          fair_runb Dt Da (fa_init Dt Da st) st all && once_runb Dt Da (fa_init Dt Da st) st all &&
          (0 <=? Dt) && (0 <=? Da) && (0 <=? Dack) && (2 * Dt <? tcp_RTTE_MIN_RTO * 1000) &&
          forallb (app_evb SA) evsD && forallb qevb evsQ && forallb cl_evb evs1 &&
          match net_run st evsD with
          | Ok stD =>
              run_qregimeb stD evsQ &&
              ((l_len (ep_written (net_get stD SA)) - una_off (net_get stD SA)) +
               (l_len (ep_written (net_get stD SA)) - read_off (net_get stD SB)) <=? Z.of_nat n) &&
              match net_run stD evsQ with
              | Ok stQ =>
                  (l_len (ep_written (net_get stQ SA)) <? 2 ^ 30) && (l_len (ep_written (net_get stQ SB)) <? 2 ^ 30) &&
                  (net_now stD SA + Z.of_nat n * Wz Dt Da + 2 * Dt + Dack <? net_now stQ SA) &&
                  match net_step stQ (NClose SA) with
                  | Ok stC =>
                      match net_run stC evs1 with
                      | Ok st_m =>
                          (net_now stQ SA + 2 * Dt <? net_now st_m SA) &&
                          match net_run st_m (NClose SB :: evs2) with
                          | Ok st' => net_now st_m SA + 3 * Dt + tcp_CLOSE_DELAY <? net_now st' SA
                          | _ => false
                          end
                      | _ => false
                      end
                  | _ => false
                  end
              | _ => false
              end
          | _ => false
          end
      | _ => false
      end
  | _ => false
  end.

Lemma qcf_package ca cb pre evsD evsQ evs1 evs2 Dt Da Dack n :
  cfg_good ca -> cfg_good cb -> cfg_plain ca -> cfg_plain cb -> c_addr ca <> 0 ->
  match c_ack_delay cb with Some d => 0 <= d <= Dack | None => True end ->
  qcf_check ca cb pre evsD evsQ evs1 evs2 Dt Da Dack n = true ->
  exists st0 st stD stQ st_m st',
    start_ok Dack ca cb st0 /\ net_run st0 pre = Ok st /\
    (forall z, s_state (net_sock st z) = Established) /\
    reliable_schedule Dt Da st (evsD ++ evsQ ++ NClose SA :: evs1 ++ NClose SB :: evs2) /\
    net_run st evsD = Ok stD /\
    net_run stD evsQ = Ok stQ /\ run_all qregime stD evsQ /\
    net_run stQ (NClose SA :: evs1) = Ok st_m /\ net_run st_m (NClose SB :: evs2) = Ok st' /\
    (exists p1 p2 sta,
       evsQ = p1 ++ p2 /\ net_run stD p1 = Ok sta /\ net_run sta p2 = Ok stQ /\
       una_off (net_get sta SA) = l_len (ep_written (net_get stD SA)) /\
       read_off (net_get sta SB) = l_len (ep_written (net_get stD SA))) /\
    (exists pre2 post st_c,
       evs2 = pre2 ++ post /\ net_run st_m (NClose SB :: pre2) = Ok st_c /\ net_run st_c post = Ok st' /\
       both_closed st_c).
Proof.
  intros Ga Gb Pa Pb Haddr Hdel H. unfold qcf_check in H.
  destruct (net_init ca cb) as [st0|e|] eqn:Ei; try discriminate.
  apply andb_true_iff in H. destruct H as (H & Hrest).
  apply andb_true_iff in H. destruct H as (Hst & Hsp).
  destruct (net_run st0 pre) as [st|e|] eqn:Ep; try discriminate. cbv zeta in Hrest.
  apply andb_true_iff in Hrest. destruct Hrest as (H & Hrest).
  apply andb_true_iff in H. destruct H as (H & Hcl).
  apply andb_true_iff in H. destruct H as (H & Hq).
  apply andb_true_iff in H. destruct H as (H & Hap).
  apply andb_true_iff in H. destruct H as (H & Hd4).
  apply andb_true_iff in H. destruct H as (H & Hd3).
  apply andb_true_iff in H. destruct H as (H & Hd2).
  apply andb_true_iff in H. destruct H as (H & Hd1).
  apply andb_true_iff in H. destruct H as (H & Hon).
  apply andb_true_iff in H. destruct H as (H & Hf).
  apply andb_true_iff in H. destruct H as (H & Ho).
  apply andb_true_iff in H. destruct H as (Hsa & Hsb).
  destruct (net_run st evsD) as [stD|e|] eqn:ED; try discriminate.
  apply andb_true_iff in Hrest. destruct Hrest as (HD & Hrest).
  apply andb_true_iff in HD. destruct HD as (HqQ & HnD).
  destruct (net_run stD evsQ) as [stQ|e|] eqn:EQ; try discriminate.
  apply andb_true_iff in Hrest. destruct Hrest as (HQ & Hrest).
  apply andb_true_iff in HQ. destruct HQ as (HQ & HclkQ). apply andb_true_iff in HQ. destruct HQ as (HszA & HszB).
  destruct (net_step stQ (NClose SA)) as [stC|e|] eqn:EC; try discriminate.
  destruct (net_run stC evs1) as [st_m|e|] eqn:E1; try discriminate.
  apply andb_true_iff in Hrest. destruct Hrest as (Hc1 & Hrest).
  destruct (net_run st_m (NClose SB :: evs2)) as [st'|e|] eqn:E2; try discriminate.
  apply Z.leb_le in Hd1, Hd2, Hd3, HnD. apply Z.ltb_lt in Hd4, HszA, HszB, HclkQ, Hc1, Hrest.
  apply tcp_state_eqb_eq in Hsa, Hsb.
  assert (Hstart : start_ok Dack ca cb st0) by (unfold start_ok; auto 10).
  assert (Hrel : reliable_schedule Dt Da st (evsD ++ evsQ ++ NClose SA :: evs1 ++ NClose SB :: evs2)).
  { split; [|exact (proj1 (once_runb_iff _ _ _ _ _) Hon)].
    split; [lia|]. split; [lia|]. split; [apply opts_okb_sound; assumption | apply fair_runb_sound; assumption]. }
  pose proof (run_qregimeb_sound evsQ stD HqQ) as HqQ'.
  assert (Hsz : forall z, l_len (ep_written (net_get stQ z)) < 2 ^ 30) by (intros z; destruct z; cbn [net_get] in *; lia).
  assert (Hest : forall z, s_state (net_sock st z) = Established) by (intros z; destruct z; assumption).
  destruct (quiesce_close_after_fault_prefix Dt Da Dack ca cb st0 n pre st evsD evsQ evs1 evs2 stD stQ stC st_m st'
              Hstart Hd4 Hd3 Ep (script_evb_sound _ Hsp) Hest Hrel (app_evb_sound SA _ Hap) ED (qevb_sound _ Hq) EQ Hsz HqQ'
              HnD HclkQ EC (cl_evb_sound _ Hcl) E1 Hc1 E2 Hrest) as (HA & HC).
  exists st0, st, stD, stQ, st_m, st'. split; [exact Hstart|]. split; [exact Ep|]. split; [exact Hest|]. split; [exact Hrel|].
  split; [exact ED|]. split; [exact EQ|]. split; [exact HqQ'|].
  split; [cbn [net_run]; rewrite EC; cbn [obind]; exact E1|]. split; [exact E2|]. split; [exact HA | exact HC].
Qed.

(* ---------------------------------------------------------------------------------------- *)
(* the Example                                                                               *)
(* ---------------------------------------------------------------------------------------- *)
(* THE FAULT PREFIX: handshake; A writes 12 octets (B's buffer holds 8); the first data segment is LOST; A's ACK
   of the SYN|ACK is delivered a SECOND time; the old frames leave the channels.  Both sockets are ESTABLISHED,
   nothing is acknowledged, nothing is read. *)
Definition qcf_pre : list net_event :=
  [NPoll SA true; NDeliver SB 0; NPoll SB true; NDeliver SA 0; NPoll SA true; NDeliver SB 1;
   NSend SA [1;2;3;4;5;6;7;8;9;10;11;12]; NPoll SA true; NDrop SB 2; NDeliver SB 1; NDrop SB 1; NDrop SB 0; NDrop SA 0].
(* THE RELIABLE PART: the retransmission timer fires after 1 s, the 8 octets again, the window closes, B's
   application reads, the window update, the last 4 octets, their ACK, B's application reads, the window update;
   then the clock runs on *)
Definition qcf_evsQ : list net_event :=
  [NTick 1000000; NPoll SA true; NDeliver SB 0; NPoll SB true; NDeliver SA 0; NRecv SB 8; NPoll SB true; NDeliver SA 1;
   NPoll SA true; NDeliver SB 1; NPoll SB true; NDeliver SA 2; NRecv SB 8; NPoll SB true; NDeliver SA 3; NPoll SA true;
   NTick 8000000000].
Definition qcf_evs1 : list net_event := [NPoll SA true; NDeliver SB 2; NPoll SB true; NDeliver SA 4; NTick 20000].
Definition qcf_evs2 : list net_event :=
  [NPoll SB true; NDeliver SA 5; NPoll SA true; NDeliver SB 3; NTick 10000000; NPoll SA true; NTick 100000].

Lemma qcf_check_ok : qcf_check zcfg_a zcfg_b qcf_pre [] qcf_evsQ qcf_evs1 qcf_evs2 5000 5000 10000 24 = true.
Proof. vm_compute. reflexivity. Qed.

Theorem quiesce_close_after_fault_prefix_applies :
  exists st0 st stD stQ st_m st',
    start_ok 10000 zcfg_a zcfg_b st0 /\ net_run st0 qcf_pre = Ok st /\
    (forall z, s_state (net_sock st z) = Established) /\
    reliable_schedule 5000 5000 st ([] ++ qcf_evsQ ++ NClose SA :: qcf_evs1 ++ NClose SB :: qcf_evs2) /\
    net_run st [] = Ok stD /\
    net_run stD qcf_evsQ = Ok stQ /\ run_all qregime stD qcf_evsQ /\
    net_run stQ (NClose SA :: qcf_evs1) = Ok st_m /\ net_run st_m (NClose SB :: qcf_evs2) = Ok st' /\
    (exists p1 p2 sta,
       qcf_evsQ = p1 ++ p2 /\ net_run stD p1 = Ok sta /\ net_run sta p2 = Ok stQ /\
       una_off (net_get sta SA) = l_len (ep_written (net_get stD SA)) /\
       read_off (net_get sta SB) = l_len (ep_written (net_get stD SA))) /\
    (exists pre2 post st_c,
       qcf_evs2 = pre2 ++ post /\ net_run st_m (NClose SB :: pre2) = Ok st_c /\ net_run st_c post = Ok st' /\
       both_closed st_c).
Proof.
  destruct zcfg_good as (Ga & Gb).
  apply (qcf_package zcfg_a zcfg_b qcf_pre [] qcf_evsQ qcf_evs1 qcf_evs2 5000 5000 10000 24 Ga Gb); try exact qcf_check_ok.
  - split; reflexivity.
  - split; reflexivity.
  - cbn. lia.
  - cbn. exact I.
Qed.

(* the prefix is faulty: a segment is lost, a frame is delivered twice; 12 octets are written in it *)
Lemma qcf_pre_faults :
  In (NDrop SB 2) qcf_pre /\ nth_error qcf_pre 5 = Some (NDeliver SB 1) /\ nth_error qcf_pre 9 = Some (NDeliver SB 1).
Proof. split; [do 8 right; left; reflexivity | split; reflexivity]. Qed.

(* ---------------------------------------------------------------------------------------- *)
(* the same from a prefix that leaves the client in SYN-SENT                                  *)
(* ---------------------------------------------------------------------------------------- *)
Definition hqc_check (ca cb : ep_config) (pre evsH evsQ evs1 evs2 : list net_event) (Dt Da Dack : Z) (n : nat) : bool :=
  match net_init ca cb with
  | Ok st0 =>
      net_started st0 && forallb script_evb pre &&
      match net_run st0 pre with
      | Ok st =>
          let all := evsH ++ evsQ ++ NClose SA :: evs1 ++ NClose SB :: evs2 in
          tcp_state_eqb (s_state (net_sock st SA)) SynSent &&
          opts_okb st &&
          fair_runb Dt Da (fa_init Dt Da st) st all && once_runb Dt Da (fa_init Dt Da st) st all &&
          (0 <=? Dt) && (0 <=? Da) && (0 <=? Dack) && (2 * Dt <? tcp_RTTE_MIN_RTO * 1000) &&
          forallb (app_evb SA) evsH && run_zregimeb st evsH && forallb qevb evsQ && forallb cl_evb evs1 &&
          match net_run st evsH with
          | Ok stD =>
              (net_now st SA + max_rto_us + 3 * Dt <? net_now stD SA) &&
              run_qregimeb stD evsQ &&
              ((l_len (ep_written (net_get stD SA)) - una_off (net_get stD SA)) +
               (l_len (ep_written (net_get stD SA)) - read_off (net_get stD SB)) <=? Z.of_nat n) &&
              match net_run stD evsQ with
              | Ok stQ =>
                  (l_len (ep_written (net_get stQ SA)) <? 2 ^ 30) && (l_len (ep_written (net_get stQ SB)) <? 2 ^ 30) &&
                  (net_now stD SA + Z.of_nat n * Wz Dt Da + 2 * Dt + Dack <? net_now stQ SA) &&
                  match net_step stQ (NClose SA) with
                  | Ok stC =>
                      match net_run stC evs1 with
                      | Ok st_m =>
                          (net_now stQ SA + 2 * Dt <? net_now st_m SA) &&
                          match net_run st_m (NClose SB :: evs2) with
                          | Ok st' => net_now st_m SA + 3 * Dt + tcp_CLOSE_DELAY <? net_now st' SA
                          | _ => false
                          end
                      | _ => false
                      end
                  | _ => false
                  end
              | _ => false
              end
          | _ => false
          end
      | _ => false
      end
  | _ => false
  end.

Lemma hqc_package ca cb pre evsH evsQ evs1 evs2 Dt Da Dack n :
  cfg_good ca -> cfg_good cb -> cfg_plain ca -> cfg_plain cb -> c_addr ca <> 0 ->
  match c_ack_delay cb with Some d => 0 <= d <= Dack | None => True end ->
  hqc_check ca cb pre evsH evsQ evs1 evs2 Dt Da Dack n = true ->
  exists st0 st stD stQ st_m st',
    start_ok Dack ca cb st0 /\ net_run st0 pre = Ok st /\
    s_state (net_sock st SA) = SynSent /\
    reliable_schedule Dt Da st (evsH ++ evsQ ++ NClose SA :: evs1 ++ NClose SB :: evs2) /\
    net_run st evsH = Ok stD /\
    net_run stD evsQ = Ok stQ /\ run_all qregime stD evsQ /\
    net_run stQ (NClose SA :: evs1) = Ok st_m /\ net_run st_m (NClose SB :: evs2) = Ok st' /\
    (exists h1 h2 sth,
       evsH = h1 ++ h2 /\ net_run st h1 = Ok sth /\ net_run sth h2 = Ok stD /\
       (forall z, s_state (net_sock sth z) = Established) /\
       net_now sth SA <= net_now st SA + max_rto_us + 3 * Dt) /\
    (exists p1 p2 sta,
       evsQ = p1 ++ p2 /\ net_run stD p1 = Ok sta /\ net_run sta p2 = Ok stQ /\
       una_off (net_get sta SA) = l_len (ep_written (net_get stD SA)) /\
       read_off (net_get sta SB) = l_len (ep_written (net_get stD SA))) /\
    (exists pre2 post st_c,
       evs2 = pre2 ++ post /\ net_run st_m (NClose SB :: pre2) = Ok st_c /\ net_run st_c post = Ok st' /\
       both_closed st_c).
Proof.
  intros Ga Gb Pa Pb Haddr Hdel H. unfold hqc_check in H.
  destruct (net_init ca cb) as [st0|e|] eqn:Ei; try discriminate.
  apply andb_true_iff in H. destruct H as (H & Hrest).
  apply andb_true_iff in H. destruct H as (Hst & Hsp).
  destruct (net_run st0 pre) as [st|e|] eqn:Ep; try discriminate. cbv zeta in Hrest.
  apply andb_true_iff in Hrest. destruct Hrest as (H & Hrest).
  apply andb_true_iff in H. destruct H as (H & Hcl).
  apply andb_true_iff in H. destruct H as (H & Hq).
  apply andb_true_iff in H. destruct H as (H & Hzr).
  apply andb_true_iff in H. destruct H as (H & Hap).
  apply andb_true_iff in H. destruct H as (H & Hd4).
  apply andb_true_iff in H. destruct H as (H & Hd3).
  apply andb_true_iff in H. destruct H as (H & Hd2).
  apply andb_true_iff in H. destruct H as (H & Hd1).
  apply andb_true_iff in H. destruct H as (H & Hon).
  apply andb_true_iff in H. destruct H as (H & Hf).
  apply andb_true_iff in H. destruct H as (Hsa & Ho).
  destruct (net_run st evsH) as [stD|e|] eqn:ED; try discriminate.
  apply andb_true_iff in Hrest. destruct Hrest as (HD & Hrest).
  apply andb_true_iff in HD. destruct HD as (HD & HnD). apply andb_true_iff in HD. destruct HD as (HclkH & HqQ).
  destruct (net_run stD evsQ) as [stQ|e|] eqn:EQ; try discriminate.
  apply andb_true_iff in Hrest. destruct Hrest as (HQ & Hrest).
  apply andb_true_iff in HQ. destruct HQ as (HQ & HclkQ). apply andb_true_iff in HQ. destruct HQ as (HszA & HszB).
  destruct (net_step stQ (NClose SA)) as [stC|e|] eqn:EC; try discriminate.
  destruct (net_run stC evs1) as [st_m|e|] eqn:E1; try discriminate.
  apply andb_true_iff in Hrest. destruct Hrest as (Hc1 & Hrest).
  destruct (net_run st_m (NClose SB :: evs2)) as [st'|e|] eqn:E2; try discriminate.
  apply Z.leb_le in Hd1, Hd2, Hd3, HnD. apply Z.ltb_lt in Hd4, HclkH, HszA, HszB, HclkQ, Hc1, Hrest.
  apply tcp_state_eqb_eq in Hsa.
  assert (Hstart : start_ok Dack ca cb st0) by (unfold start_ok; auto 10).
  assert (Hrel : reliable_schedule Dt Da st (evsH ++ evsQ ++ NClose SA :: evs1 ++ NClose SB :: evs2)).
  { split; [|exact (proj1 (once_runb_iff _ _ _ _ _) Hon)].
    split; [lia|]. split; [lia|]. split; [apply opts_okb_sound; assumption | apply fair_runb_sound; assumption]. }
  pose proof (run_qregimeb_sound evsQ stD HqQ) as HqQ'.
  assert (HwinH : run_all syn_win_open st evsH).
  { apply (run_all_impl (zregime Dack)); [intros s (X0 & _); exact X0|]. exact (run_zregimeb_sound Dack evsH st Hzr). }
  assert (Hsz : forall z, l_len (ep_written (net_get stQ z)) < 2 ^ 30) by (intros z; destruct z; cbn [net_get] in *; lia).
  destruct (handshake_quiesce_close_after_fault_prefix Dt Da Dack ca cb st0 n pre st evsH evsQ evs1 evs2 stD stQ stC st_m st'
              Hstart Hd4 Hd3 Ep (script_evb_sound _ Hsp) Hsa Hrel (app_evb_sound SA _ Hap) ED HwinH HclkH (qevb_sound _ Hq) EQ Hsz HqQ'
              HnD HclkQ EC (cl_evb_sound _ Hcl) E1 Hc1 E2 Hrest) as (HH & HA & HC).
  exists st0, st, stD, stQ, st_m, st'. split; [exact Hstart|]. split; [exact Ep|]. split; [exact Hsa|]. split; [exact Hrel|].
  split; [exact ED|]. split; [exact EQ|]. split; [exact HqQ'|].
  split; [cbn [net_run]; rewrite EC; cbn [obind]; exact E1|]. split; [exact E2|]. split; [exact HH|]. split; [exact HA | exact HC].
Qed.

(* THE FAULT PREFIX: A's SYN is LOST.  THE RELIABLE PART: the retransmission timer fires after 1 s, the SYN again,
   the handshake, 12 octets through the 8-octet window that closes in the middle, all read, the clock runs on;
   quiet; A closes, B closes, TIME-WAIT expires *)
Definition hqc_pre : list net_event := [NPoll SA true; NDrop SB 0].
Definition hqc_evsH : list net_event :=
  [NTick 1000000; NPoll SA true; NDeliver SB 0; NPoll SB true; NDeliver SA 0; NPoll SA true; NDeliver SB 1;
   NSend SA [1;2;3;4;5;6;7;8;9;10;11;12]; NPoll SA true; NDeliver SB 2; NPoll SB true; NDeliver SA 1; NRecv SB 8;
   NPoll SB true; NDeliver SA 2; NPoll SA true; NDeliver SB 3; NPoll SB true; NDeliver SA 3; NRecv SB 8; NPoll SB true;
   NDeliver SA 4; NPoll SA true; NTick 100000000].
Definition hqc_evsQ : list net_event := [NTick 30000].
Definition hqc_evs1 : list net_event := [NPoll SA true; NDeliver SB 4; NPoll SB true; NDeliver SA 5; NTick 20000].
Definition hqc_evs2 : list net_event :=
  [NPoll SB true; NDeliver SA 6; NPoll SA true; NDeliver SB 5; NTick 10000000; NPoll SA true; NTick 100000].

Lemma hqc_check_ok : hqc_check zcfg_a zcfg_b hqc_pre hqc_evsH hqc_evsQ hqc_evs1 hqc_evs2 5000 5000 10000 0 = true.
Proof. vm_compute. reflexivity. Qed.

Theorem handshake_quiesce_close_after_fault_prefix_applies :
  exists st0 st stD stQ st_m st',
    start_ok 10000 zcfg_a zcfg_b st0 /\ net_run st0 hqc_pre = Ok st /\
    s_state (net_sock st SA) = SynSent /\
    reliable_schedule 5000 5000 st (hqc_evsH ++ hqc_evsQ ++ NClose SA :: hqc_evs1 ++ NClose SB :: hqc_evs2) /\
    net_run st hqc_evsH = Ok stD /\
    net_run stD hqc_evsQ = Ok stQ /\ run_all qregime stD hqc_evsQ /\
    net_run stQ (NClose SA :: hqc_evs1) = Ok st_m /\ net_run st_m (NClose SB :: hqc_evs2) = Ok st' /\
    (exists h1 h2 sth,
       hqc_evsH = h1 ++ h2 /\ net_run st h1 = Ok sth /\ net_run sth h2 = Ok stD /\
       (forall z, s_state (net_sock sth z) = Established) /\
       net_now sth SA <= net_now st SA + max_rto_us + 3 * 5000) /\
    (exists p1 p2 sta,
       hqc_evsQ = p1 ++ p2 /\ net_run stD p1 = Ok sta /\ net_run sta p2 = Ok stQ /\
       una_off (net_get sta SA) = l_len (ep_written (net_get stD SA)) /\
       read_off (net_get sta SB) = l_len (ep_written (net_get stD SA))) /\
    (exists pre2 post st_c,
       hqc_evs2 = pre2 ++ post /\ net_run st_m (NClose SB :: pre2) = Ok st_c /\ net_run st_c post = Ok st' /\
       both_closed st_c).
Proof.
  destruct zcfg_good as (Ga & Gb).
  apply (hqc_package zcfg_a zcfg_b hqc_pre hqc_evsH hqc_evsQ hqc_evs1 hqc_evs2 5000 5000 10000 0 Ga Gb); try exact hqc_check_ok.
  - split; reflexivity.
  - split; reflexivity.
  - cbn. lia.
  - cbn. exact I.
Qed.

(* ---------------------------------------------------------------------------------------- *)
(* the same from a prefix that lost the client's ACK                                          *)
(* ---------------------------------------------------------------------------------------- *)
Definition sqc_check (ca cb : ep_config) (pre evsH evsQ evs1 evs2 : list net_event) (Dt Da Dack : Z) (n : nat) : bool :=
  match net_init ca cb with
  | Ok st0 =>
      net_started st0 && forallb script_evb pre &&
      match net_run st0 pre with
      | Ok st =>
          let all := evsH ++ evsQ ++ NClose SA :: evs1 ++ NClose SB :: evs2 in
          tcp_state_eqb (s_state (net_sock st SA)) Established && tcp_state_eqb (s_state (net_sock st SB)) SynReceived &&
          freshb (cx_isn (ep_cx (n_a st0))) st &&
          opts_okb st &&
          fair_runb Dt Da (fa_init Dt Da st) st all && once_runb Dt Da (fa_init Dt Da st) st all &&
          (0 <=? Dt) && (0 <=? Da) && (0 <=? Dack) && (2 * Dt <? tcp_RTTE_MIN_RTO * 1000) &&
          forallb (app_evb SA) evsH && run_zregimeb st evsH && forallb qevb evsQ && forallb cl_evb evs1 &&
          match net_run st evsH with
          | Ok stD =>
              (Z.max (net_now st SA) (cA st) + max_rto_us + 2 * Dt <? net_now stD SA) &&
              run_qregimeb stD evsQ &&
              ((l_len (ep_written (net_get stD SA)) - una_off (net_get stD SA)) +
               (l_len (ep_written (net_get stD SA)) - read_off (net_get stD SB)) <=? Z.of_nat n) &&
              match net_run stD evsQ with
              | Ok stQ =>
                  (l_len (ep_written (net_get stQ SA)) <? 2 ^ 30) && (l_len (ep_written (net_get stQ SB)) <? 2 ^ 30) &&
                  (net_now stD SA + Z.of_nat n * Wz Dt Da + 2 * Dt + Dack <? net_now stQ SA) &&
                  match net_step stQ (NClose SA) with
                  | Ok stC =>
                      match net_run stC evs1 with
                      | Ok st_m =>
                          (net_now stQ SA + 2 * Dt <? net_now st_m SA) &&
                          match net_run st_m (NClose SB :: evs2) with
                          | Ok st' => net_now st_m SA + 3 * Dt + tcp_CLOSE_DELAY <? net_now st' SA
                          | _ => false
                          end
                      | _ => false
                      end
                  | _ => false
                  end
              | _ => false
              end
          | _ => false
          end
      | _ => false
      end
  | _ => false
  end.

Lemma sqc_package ca cb pre evsH evsQ evs1 evs2 Dt Da Dack n :
  cfg_good ca -> cfg_good cb -> cfg_plain ca -> cfg_plain cb -> c_addr ca <> 0 ->
  match c_ack_delay cb with Some d => 0 <= d <= Dack | None => True end ->
  sqc_check ca cb pre evsH evsQ evs1 evs2 Dt Da Dack n = true ->
  exists st0 st stD stQ st_m st',
    start_ok Dack ca cb st0 /\ net_run st0 pre = Ok st /\
    s_state (net_sock st SA) = Established /\ s_state (net_sock st SB) = SynReceived /\
    reliable_schedule Dt Da st (evsH ++ evsQ ++ NClose SA :: evs1 ++ NClose SB :: evs2) /\
    net_run st evsH = Ok stD /\
    net_run stD evsQ = Ok stQ /\ run_all qregime stD evsQ /\
    net_run stQ (NClose SA :: evs1) = Ok st_m /\ net_run st_m (NClose SB :: evs2) = Ok st' /\
    (exists h1 h2 sth,
       evsH = h1 ++ h2 /\ net_run st h1 = Ok sth /\ net_run sth h2 = Ok stD /\
       (forall z, s_state (net_sock sth z) = Established) /\
       net_now sth SA <= Z.max (net_now st SA) (cA st) + max_rto_us + 2 * Dt) /\
    (exists p1 p2 sta,
       evsQ = p1 ++ p2 /\ net_run stD p1 = Ok sta /\ net_run sta p2 = Ok stQ /\
       una_off (net_get sta SA) = l_len (ep_written (net_get stD SA)) /\
       read_off (net_get sta SB) = l_len (ep_written (net_get stD SA))) /\
    (exists pre2 post st_c,
       evs2 = pre2 ++ post /\ net_run st_m (NClose SB :: pre2) = Ok st_c /\ net_run st_c post = Ok st' /\
       both_closed st_c).
Proof.
  intros Ga Gb Pa Pb Haddr Hdel H. unfold sqc_check in H.
  destruct (net_init ca cb) as [st0|e|] eqn:Ei; try discriminate.
  apply andb_true_iff in H. destruct H as (H & Hrest).
  apply andb_true_iff in H. destruct H as (Hst & Hsp).
  destruct (net_run st0 pre) as [st|e|] eqn:Ep; try discriminate. cbv zeta in Hrest.
  apply andb_true_iff in Hrest. destruct Hrest as (H & Hrest).
  apply andb_true_iff in H. destruct H as (H & Hcl).
  apply andb_true_iff in H. destruct H as (H & Hq).
  apply andb_true_iff in H. destruct H as (H & Hzr).
  apply andb_true_iff in H. destruct H as (H & Hap).
  apply andb_true_iff in H. destruct H as (H & Hd4).
  apply andb_true_iff in H. destruct H as (H & Hd3).
  apply andb_true_iff in H. destruct H as (H & Hd2).
  apply andb_true_iff in H. destruct H as (H & Hd1).
  apply andb_true_iff in H. destruct H as (H & Hon).
  apply andb_true_iff in H. destruct H as (H & Hf).
  apply andb_true_iff in H. destruct H as (H & Ho).
  apply andb_true_iff in H. destruct H as (H & Hfr).
  apply andb_true_iff in H. destruct H as (Hsa & Hsb).
  destruct (net_run st evsH) as [stD|e|] eqn:ED; try discriminate.
  apply andb_true_iff in Hrest. destruct Hrest as (HD & Hrest).
  apply andb_true_iff in HD. destruct HD as (HD & HnD). apply andb_true_iff in HD. destruct HD as (HclkH & HqQ).
  destruct (net_run stD evsQ) as [stQ|e|] eqn:EQ; try discriminate.
  apply andb_true_iff in Hrest. destruct Hrest as (HQ & Hrest).
  apply andb_true_iff in HQ. destruct HQ as (HQ & HclkQ). apply andb_true_iff in HQ. destruct HQ as (HszA & HszB).
  destruct (net_step stQ (NClose SA)) as [stC|e|] eqn:EC; try discriminate.
  destruct (net_run stC evs1) as [st_m|e|] eqn:E1; try discriminate.
  apply andb_true_iff in Hrest. destruct Hrest as (Hc1 & Hrest).
  destruct (net_run st_m (NClose SB :: evs2)) as [st'|e|] eqn:E2; try discriminate.
  apply Z.leb_le in Hd1, Hd2, Hd3, HnD. apply Z.ltb_lt in Hd4, HclkH, HszA, HszB, HclkQ, Hc1, Hrest.
  apply tcp_state_eqb_eq in Hsa, Hsb.
  assert (Hstart : start_ok Dack ca cb st0) by (unfold start_ok; auto 10).
  assert (Hrel : reliable_schedule Dt Da st (evsH ++ evsQ ++ NClose SA :: evs1 ++ NClose SB :: evs2)).
  { split; [|exact (proj1 (once_runb_iff _ _ _ _ _) Hon)].
    split; [lia|]. split; [lia|]. split; [apply opts_okb_sound; assumption | apply fair_runb_sound; assumption]. }
  pose proof (run_qregimeb_sound evsQ stD HqQ) as HqQ'.
  assert (HwinH : run_all syn_win_open st evsH).
  { apply (run_all_impl (zregime Dack)); [intros s (X0 & _); exact X0|]. exact (run_zregimeb_sound Dack evsH st Hzr). }
  assert (Hsz : forall z, l_len (ep_written (net_get stQ z)) < 2 ^ 30) by (intros z; destruct z; cbn [net_get] in *; lia).
  destruct (server_quiesce_close_after_fault_prefix Dt Da Dack ca cb st0 n pre st evsH evsQ evs1 evs2 stD stQ stC st_m st'
              Hstart Hd4 Hd3 Ep (script_evb_sound _ Hsp) Hsa Hsb (freshb_sound _ _ Hfr) Hrel (app_evb_sound SA _ Hap) ED HwinH HclkH (qevb_sound _ Hq) EQ Hsz HqQ'
              HnD HclkQ EC (cl_evb_sound _ Hcl) E1 Hc1 E2 Hrest) as (HH & HA & HC).
  exists st0, st, stD, stQ, st_m, st'. split; [exact Hstart|]. split; [exact Ep|]. split; [exact Hsa|]. split; [exact Hsb|]. split; [exact Hrel|].
  split; [exact ED|]. split; [exact EQ|]. split; [exact HqQ'|].
  split; [cbn [net_run]; rewrite EC; cbn [obind]; exact E1|]. split; [exact E2|]. split; [exact HH|]. split; [exact HA | exact HC].
Qed.

(* THE FAULT PREFIX: A's ACK of the SYN|ACK is LOST (A ESTABLISHED, B SYN-RECEIVED).  THE RELIABLE PART: B's
   retransmission timer fires after 1 s, the SYN|ACK again, A's challenge ACK, B ESTABLISHED, 12 octets through the
   8-octet window that closes in the middle, all read, the clock runs on; quiet; A closes, B closes *)
Definition sqc_pre : list net_event :=
  [NPoll SA true; NDeliver SB 0; NPoll SB true; NDeliver SA 0; NPoll SA true; NDrop SB 1; NDrop SB 0; NDrop SA 0].
Definition sqc_evsH : list net_event :=
  [NTick 1000000; NPoll SB true; NDeliver SA 0; NDeliver SB 0;
   NSend SA [1;2;3;4;5;6;7;8;9;10;11;12]; NPoll SA true; NDeliver SB 1; NPoll SB true; NDeliver SA 1; NRecv SB 8;
   NPoll SB true; NDeliver SA 2; NPoll SA true; NDeliver SB 2; NPoll SB true; NDeliver SA 3; NRecv SB 8; NPoll SB true;
   NDeliver SA 4; NPoll SA true; NTick 100000000].
Definition sqc_evsQ : list net_event := [NTick 30000].
Definition sqc_evs1 : list net_event := [NPoll SA true; NDeliver SB 3; NPoll SB true; NDeliver SA 5; NTick 20000].
Definition sqc_evs2 : list net_event :=
  [NPoll SB true; NDeliver SA 6; NPoll SA true; NDeliver SB 4; NTick 10000000; NPoll SA true; NTick 100000].

Lemma sqc_check_ok : sqc_check zcfg_a zcfg_b sqc_pre sqc_evsH sqc_evsQ sqc_evs1 sqc_evs2 5000 5000 10000 0 = true.
Proof. vm_compute. reflexivity. Qed.

Theorem server_quiesce_close_after_fault_prefix_applies :
  exists st0 st stD stQ st_m st',
    start_ok 10000 zcfg_a zcfg_b st0 /\ net_run st0 sqc_pre = Ok st /\
    s_state (net_sock st SA) = Established /\ s_state (net_sock st SB) = SynReceived /\
    reliable_schedule 5000 5000 st (sqc_evsH ++ sqc_evsQ ++ NClose SA :: sqc_evs1 ++ NClose SB :: sqc_evs2) /\
    net_run st sqc_evsH = Ok stD /\
    net_run stD sqc_evsQ = Ok stQ /\ run_all qregime stD sqc_evsQ /\
    net_run stQ (NClose SA :: sqc_evs1) = Ok st_m /\ net_run st_m (NClose SB :: sqc_evs2) = Ok st' /\
    (exists h1 h2 sth,
       sqc_evsH = h1 ++ h2 /\ net_run st h1 = Ok sth /\ net_run sth h2 = Ok stD /\
       (forall z, s_state (net_sock sth z) = Established) /\
       net_now sth SA <= Z.max (net_now st SA) (cA st) + max_rto_us + 2 * 5000) /\
    (exists p1 p2 sta,
       sqc_evsQ = p1 ++ p2 /\ net_run stD p1 = Ok sta /\ net_run sta p2 = Ok stQ /\
       una_off (net_get sta SA) = l_len (ep_written (net_get stD SA)) /\
       read_off (net_get sta SB) = l_len (ep_written (net_get stD SA))) /\
    (exists pre2 post st_c,
       sqc_evs2 = pre2 ++ post /\ net_run st_m (NClose SB :: pre2) = Ok st_c /\ net_run st_c post = Ok st' /\
       both_closed st_c).
Proof.
  destruct zcfg_good as (Ga & Gb).
  apply (sqc_package zcfg_a zcfg_b sqc_pre sqc_evsH sqc_evsQ sqc_evs1 sqc_evs2 5000 5000 10000 0 Ga Gb); try exact sqc_check_ok.
  - split; reflexivity.
  - split; reflexivity.
  - cbn. lia.
  - cbn. exact I.
Qed.
