(* C02 (liveness half): A's delayed-ACK timer is ADIdle in every state of every run of the one-way workload from
   net_init: B writes nothing, so every segment that reaches A is without payload or a SYN (SYN|ACK again) that an
   ESTABLISHED A answers from the window check / state table. *)
From SV Require Import Lib.Base Gen.Consts.
From SV Require Import Model.Seq32 Model.Assembler Model.TcpBuf Model.TcpTypes Model.Tcp Model.TcpNet.
From SV Require Import Proofs.TcpSendBase Proofs.TcpLiveBase Proofs.TcpLiveProofs Proofs.TcpLiveMore
  Proofs.TcpLiveProgress.
From SV Require Import Proofs.TcpNetBase.
From SV Require Proofs.TcpNetInv.
From SV Require Import Proofs.TcpProgressBase Proofs.TcpProgressFrame Proofs.TcpProgressCtl Proofs.TcpProgressRecv
  Proofs.TcpProgressSend Proofs.TcpProgressNet Proofs.TcpProgressData Proofs.TcpProgressAck
  Proofs.TcpProgressAll Proofs.TcpProgressSafe Proofs.TcpProgressHs Proofs.TcpProgressHsD Proofs.TcpProgressHs2
  Proofs.TcpProgressHsNet Proofs.TcpProgressHsInit Proofs.TcpProgressHsLive Proofs.TcpProgressHsLive2
  Proofs.TcpProgressHsRtx Proofs.TcpProgressCap Proofs.TcpProgressCapNet Proofs.TcpProgressSynWin Proofs.TcpProgressSynWinNet
  Proofs.TcpProgressAdt.

Notation sa st := (net_sock st SA).

Definition aidle (st : net) : Prop := s_ack_delay_timer (sa st) = ADIdle.

Section Step.
Variables isn Dack : Z.

Lemma aidle_step st ev st' :
  HSR isn Dack st -> script_ev SA ev -> net_step st ev = Ok st' -> aidle st -> aidle st'.
Proof.
  intros HR Hsc H Hid. unfold aidle in *.
  destruct (step_cases st ev st' SA H) as [(ev0 & e' & Hse & He & ->) | E]; [|rewrite E; exact Hid].
  destruct (ep_step_spec _ _ _ He) as (s' & out & tags & Hs & Hk & _).
  unfold net_sock. rewrite net_get_set_same, Hk. unfold net_sock in Hid.
  assert (Hkeep : adt_keep s' (ep_sock (net_get st SA)) -> s_ack_delay_timer s' = ADIdle).
  { intros [X | X]; [rewrite X; exact Hid | exact X]. }
  destruct HR as (Hinv & HV & HN & Ho).
  destruct ev as [to i | to i | to i | d | z i1 t1 | z ok | z data | z n | z]; cbn [sock_event script_ev] in Hse, Hsc; try contradiction.
  - (* a segment *)
    destruct Hse as (_ & q & Hn & ->). pose proof (nth_error_In _ _ Hn) as Hin. cbn [tcp_step] in Hs.
    apply obind_ok in Hs. destruct Hs as (((s1 & rep) & tg) & Hi & Hs). inversion Hs; subst s1 out tags; clear Hs.
    destruct (ingress_cases _ _ _ _ _ _ _ Hi) as [-> | Hp]; [exact Hid|].
    apply Hkeep.
    assert (Hnp : r_payload (snd q) = [] -> adt_keep s' (ep_sock (net_get st SA))).
    { intros Hpl. apply (process_nopayload_adt _ _ _ (wire_parse (snd q)) _ _ _ ltac:(unfold wire_parse; cbn [r_payload]; exact Hpl) Hp). }
    destruct Hinv as [HP | HG].
    + destruct (ph_toA _ _ _ HP q Hin) as (_ & _ & Hpl & _). exact (Hnp Hpl).
    + destruct (rg_ychan SA Dack st HG q Hin) as [Hc | (_ & Hpl & _)]; [|exact (Hnp Hpl)].
      apply (process_est_syn_adt _ _ _ (wire_parse (snd q)) _ _ _ (rg_est SA Dack st HG SA)
               ltac:(unfold wire_parse; cbn [r_control]; exact Hc) Hp).
  - (* a poll *)
    destruct Hse as (_ & ->). cbn [tcp_step] in Hs.
    apply obind_ok in Hs. destruct Hs as (((s1 & res) & tg) & Hd & Hs). inversion Hs; subst s1 out tags; clear Hs.
    destruct (dispatch_aux _ _ _ _ _ _ Hd) as (_ & [X | X]); [rewrite X; exact Hid | exact X].
  - (* send *)
    destruct Hse as (_ & ->). cbn [tcp_step] in Hs.
    destruct (tcp_send_slice (ep_sock (net_get st SA)) data) as [(s1, k)|e|] eqn:E; [| |discriminate].
    + inversion Hs; subst. destruct (send_slice_auxf _ _ _ _ E) as (_ & X). rewrite X. exact Hid.
    + inversion Hs; subst. exact Hid.
  - (* recv *)
    destruct Hse as (_ & ->). cbn [tcp_step] in Hs.
    destruct (tcp_recv_slice (ep_sock (net_get st SA)) (Z.max 0 n)) as [(s1, b)|e|] eqn:E; [| |discriminate].
    + inversion Hs; subst. destruct (recv_slice_auxf _ _ _ _ E) as (_ & X). rewrite X. exact Hid.
    + inversion Hs; subst. exact Hid.
Qed.

End Step.

Module NVD := TcpNetInv.

Section Run.
Variables Dack : Z.
Variables ca cb : ep_config.
Variable st0 : net.
Hypothesis Hstart : start_ok Dack ca cb st0.

Let isn := cx_isn (ep_cx (n_a st0)).

Lemma aidle_run_all : forall evs pre st1 st,
  net_run st0 pre = Ok st1 -> hs_inv isn Dack st1 -> opts_ok st1 -> aidle st1 ->
  Forall (script_ev SA) evs -> net_run st1 evs = Ok st -> NVD.small st ->
  run_all aidle st1 evs /\ aidle st.
Proof.
  induction evs as [|ev rest IH]; intros pre st1 st Hpre Hinv Ho Hpl Hsc Hrun Hsm.
  - cbn [net_run] in Hrun. inversion Hrun; subst st. cbn [run_all]. auto.
  - cbn [net_run] in Hrun. apply obind_ok in Hrun. destruct Hrun as (st2 & Hs & Hrun).
    inversion Hsc as [|? ? Hsc1 Hsc2]; subst.
    pose proof (net_run_mono _ _ _ Hrun) as Hm2. pose proof (net_step_mono _ _ _ Hs) as Hm1.
    assert (Hsm2 : NVD.small st2) by exact (NVD.small_mono _ _ Hm2 Hsm).
    assert (Hsm1 : NVD.small st1) by exact (NVD.small_mono _ _ Hm1 Hsm2).
    assert (Hpre2 : net_run st0 (pre ++ [ev]) = Ok st2).
    { apply (net_run_app pre [ev] st0 st1 st2 Hpre). cbn [net_run]. rewrite Hs. reflexivity. }
    destruct (hs_run Dack ca cb st0 Hstart [ev] pre st1 st2 Hpre Hinv Ho ltac:(constructor; [exact Hsc1 | constructor])
                ltac:(cbn [net_run]; rewrite Hs; reflexivity) Hsm2) as (Hinv2 & Ho2).
    destruct (hsr_here Dack ca cb st0 Hstart pre st1 Hpre Hinv Ho Hsm1) as (HR1 & _).
    pose proof (aidle_step isn Dack st1 ev st2 HR1 Hsc1 Hs Hpl) as Hpl2.
    destruct (IH (pre ++ [ev]) st2 st Hpre2 Hinv2 Ho2 Hpl2 Hsc2 Hrun Hsm) as (IH1 & IH2).
    split; [|exact IH2]. cbn [run_all]. rewrite Hs. split; [exact Hpl | exact IH1].
Qed.

(* A'S DELAYED-ACK TIMER IS IDLE IN EVERY STATE OF EVERY RUN OF THE ONE-WAY WORKLOAD FROM net_init *)
Theorem aidle_from_net_init : forall pre st evs st',
  net_run st0 pre = Ok st -> Forall (script_ev SA) pre ->
  Forall (script_ev SA) evs -> net_run st evs = Ok st' -> NVD.small st' ->
  run_all aidle st evs.
Proof.
  intros pre st evs st' Hpre Hscp Hsce Hrun Hsm.
  pose proof Hstart as (Hi & Hst0 & Ga & Gb & Pa & Pb & Haddr & Hdel).
  destruct (hs_init ca cb st0 isn Dack Hi Hst0 Pa Pb Haddr Hdel) as (HP0 & Ho0).
  pose proof (net_run_mono _ _ _ Hrun) as Hm.
  assert (Hsm0 : NVD.small st) by exact (NVD.small_mono _ _ Hm Hsm).
  destruct (hs_run Dack ca cb st0 Hstart pre [] st0 st eq_refl (or_introl HP0) Ho0 Hscp Hpre Hsm0) as (Hinv & Ho).
  assert (Hid0 : aidle st0) by (destruct Pa as (_ & Ka); exact (init_adt ca cb st0 Hi Hst0 Ka)).
  destruct (aidle_run_all pre [] st0 st eq_refl (or_introl HP0) Ho0 Hid0 Hscp Hpre Hsm0) as (_ & Hid).
  exact (proj1 (aidle_run_all evs pre st st' Hpre Hinv Ho Hid Hsce Hrun Hsm)).
Qed.

End Run.
