(* C05, layer 0: arithmetic and storage lemmas used by the TCP sender proofs.
   - Z-indexed list helpers of Model/TcpBuf.v ([l_len], [l_take], [l_drop], [l_slice], [l_write])
     in terms of the standard library;
   - Seq32 transfer lemmas: sequence numbers written as [sq (b + x)] for unbounded offsets [x]:
     when offsets are within 2^31 of each other, modular order / distance / max agree with Z;
   - byte-ring content lemmas for Model/TcpBuf.v (the tx ring of the socket):
     [rb_enqueue_slice] appends, [rb_dequeue_allocated] drops a prefix, [rb_get_allocated] reads
     the logical positions offset.. offset+n. *)
From SV Require Import Lib.Base Model.Seq32 Model.TcpBuf.

(* ------------------------------------------------------------------------------------------ *)
(* lists                                                                                        *)
(* ------------------------------------------------------------------------------------------ *)
Definition znth (l : list Z) (i : Z) : Z := nth (Z.to_nat i) l 0.

Lemma l_len_acc_spec : forall l acc, l_len_acc l acc = acc + Z.of_nat (length l).
Proof. induction l; intros; cbn [l_len_acc length]; [lia|]. rewrite IHl. lia. Qed.

Lemma l_len_spec : forall l, l_len l = Z.of_nat (length l).
Proof. intros. unfold l_len. rewrite l_len_acc_spec. lia. Qed.

Lemma l_len_nonneg : forall l, 0 <= l_len l.
Proof. intros. rewrite l_len_spec. lia. Qed.

Lemma l_len_nil : l_len [] = 0.
Proof. reflexivity. Qed.

Lemma l_len_zero_nil : forall l, l_len l = 0 -> l = [].
Proof. intros [|x l]; auto. rewrite l_len_spec. cbn [length]. lia. Qed.

Lemma l_len_cons_pos : forall x l, 0 < l_len (x :: l).
Proof. intros. rewrite l_len_spec. cbn [length]. lia. Qed.

Lemma l_rev_take_spec : forall l n acc,
  l_rev_take n l acc = rev (firstn (Z.to_nat n) l) ++ acc.
Proof.
  induction l; intros; cbn [l_rev_take].
  - rewrite firstn_nil. reflexivity.
  - destruct (Z.leb_spec n 0).
    + replace (Z.to_nat n) with O by lia. reflexivity.
    + rewrite IHl. replace (Z.to_nat n) with (S (Z.to_nat (n - 1))) by lia.
      cbn [firstn rev]. rewrite <- app_assoc. reflexivity.
Qed.

Lemma l_take_spec : forall n l, l_take n l = firstn (Z.to_nat n) l.
Proof.
  intros. unfold l_take. rewrite l_rev_take_spec, app_nil_r, rev_append_rev, rev_involutive.
  apply app_nil_r.
Qed.

Lemma l_drop_spec : forall l n, l_drop n l = skipn (Z.to_nat n) l.
Proof.
  induction l; intros; cbn [l_drop].
  - rewrite skipn_nil. reflexivity.
  - destruct (Z.leb_spec n 0).
    + replace (Z.to_nat n) with O by lia. reflexivity.
    + rewrite IHl. replace (Z.to_nat n) with (S (Z.to_nat (n - 1))) by lia. reflexivity.
Qed.

Lemma l_slice_spec : forall a n l, l_slice a n l = firstn (Z.to_nat n) (skipn (Z.to_nat a) l).
Proof. intros. unfold l_slice. rewrite l_take_spec, l_drop_spec. reflexivity. Qed.

Lemma l_write_spec : forall a d l, 0 <= a ->
  l_write a d l = firstn (Z.to_nat a) l ++ d ++ skipn (Z.to_nat a + length d) l.
Proof.
  intros. unfold l_write. rewrite l_rev_take_spec, !rev_append_rev, !app_nil_r, !rev_involutive.
  rewrite l_drop_spec, l_len_spec.
  replace (Z.to_nat (a + Z.of_nat (length d))) with (Z.to_nat a + length d)%nat by lia.
  reflexivity.
Qed.

Lemma l_app_spec : forall a b, l_app a b = a ++ b.
Proof. intros. unfold l_app. rewrite !rev_append_rev, app_nil_r, rev_involutive. reflexivity. Qed.

Lemma nth_firstn_lt : forall (l : list Z) n i d, (i < n)%nat -> nth i (firstn n l) d = nth i l d.
Proof.
  induction l; intros; [rewrite firstn_nil; reflexivity|].
  destruct n; [lia|]. destruct i; cbn [firstn nth]; [reflexivity|]. apply IHl. lia.
Qed.

Lemma nth_skipn_add : forall (l : list Z) n i d, nth i (skipn n l) d = nth (n + i) l d.
Proof.
  induction l; intros.
  - rewrite skipn_nil. destruct i, n; reflexivity.
  - destruct n; [reflexivity|]. cbn [skipn Nat.add nth]. apply IHl.
Qed.

Lemma l_len_take : forall n l, 0 <= n <= l_len l -> l_len (l_take n l) = n.
Proof.
  intros n l. rewrite !l_len_spec, l_take_spec. intros. rewrite firstn_length. lia.
Qed.

Lemma l_len_take_le : forall n l, l_len (l_take n l) <= Z.max 0 n /\ l_len (l_take n l) <= l_len l.
Proof. intros. rewrite !l_len_spec, l_take_spec, firstn_length. lia. Qed.

Lemma l_len_slice : forall a n l, 0 <= a -> 0 <= n -> a + n <= l_len l ->
  l_len (l_slice a n l) = n.
Proof.
  intros a n l. rewrite !l_len_spec, l_slice_spec. intros.
  rewrite firstn_length, skipn_length. lia.
Qed.

Lemma l_slice_nonpos : forall a n l, n <= 0 -> l_slice a n l = [].
Proof.
  intros. rewrite l_slice_spec. replace (Z.to_nat n) with O by lia. reflexivity.
Qed.

Lemma znth_slice : forall a n l j, 0 <= a -> 0 <= j < n ->
  znth (l_slice a n l) j = znth l (a + j).
Proof.
  intros. unfold znth. rewrite l_slice_spec.
  rewrite nth_firstn_lt by lia.
  rewrite nth_skipn_add. f_equal. lia.
Qed.

Lemma znth_take : forall n l j, 0 <= j < n -> znth (l_take n l) j = znth l j.
Proof.
  intros. unfold znth. rewrite l_take_spec, nth_firstn_lt by lia. reflexivity.
Qed.

Lemma znth_drop : forall n l j, 0 <= n -> 0 <= j -> znth (l_drop n l) j = znth l (n + j).
Proof.
  intros. unfold znth. rewrite l_drop_spec, nth_skipn_add. f_equal. lia.
Qed.

Lemma l_len_drop : forall n l, 0 <= n <= l_len l -> l_len (l_drop n l) = l_len l - n.
Proof. intros n l. rewrite !l_len_spec, l_drop_spec, skipn_length. lia. Qed.

Lemma l_len_write : forall a d l, 0 <= a -> a + l_len d <= l_len l ->
  l_len (l_write a d l) = l_len l.
Proof.
  intros a d l Ha. rewrite !l_len_spec. intros. rewrite l_write_spec by lia.
  rewrite !app_length, firstn_length, skipn_length. lia.
Qed.

Lemma znth_write : forall a d l i, 0 <= a -> a + l_len d <= l_len l -> 0 <= i ->
  znth (l_write a d l) i = if (a <=? i) && (i <? a + l_len d) then znth d (i - a) else znth l i.
Proof.
  intros a d l i Ha. rewrite !l_len_spec. intros Hd Hi. unfold znth. rewrite l_write_spec by lia.
  destruct (Z.leb_spec a i); cbn [andb].
  - rewrite app_nth2 by (rewrite firstn_length; lia).
    rewrite firstn_length. replace (Nat.min (Z.to_nat a) (length l)) with (Z.to_nat a) by lia.
    destruct (Z.ltb_spec i (a + Z.of_nat (length d))).
    + rewrite app_nth1 by lia. f_equal. lia.
    + rewrite app_nth2 by lia. rewrite nth_skipn_add. f_equal. lia.
  - rewrite app_nth1 by (rewrite firstn_length; lia).
    rewrite nth_firstn_lt by lia. reflexivity.
Qed.

Lemma znth_app : forall a b i, 0 <= i ->
  znth (a ++ b) i = if i <? l_len a then znth a i else znth b (i - l_len a).
Proof.
  intros. unfold znth. rewrite l_len_spec. destruct (Z.ltb_spec i (Z.of_nat (length a))).
  - apply app_nth1. lia.
  - rewrite app_nth2 by lia. f_equal. lia.
Qed.

Lemma l_len_app : forall a b, l_len (a ++ b) = l_len a + l_len b.
Proof. intros. rewrite !l_len_spec, app_length. lia. Qed.

(* two lists of the same length with the same elements *)
Lemma znth_ext : forall a b, l_len a = l_len b ->
  (forall i, 0 <= i < l_len a -> znth a i = znth b i) -> a = b.
Proof.
  intros a b. rewrite !l_len_spec. intros Hl H.
  apply nth_ext with (d := 0) (d' := 0); [lia|].
  intros n Hn. specialize (H (Z.of_nat n)). unfold znth in H. rewrite Nat2Z.id in H. apply H. lia.
Qed.

(* ------------------------------------------------------------------------------------------ *)
(* Seq32: transfer between wire sequence numbers and unbounded offsets                          *)
(* ------------------------------------------------------------------------------------------ *)
Definition sq (x : Z) : Z := x mod 2 ^ 32.

Lemma sq_range : forall x, 0 <= sq x < 2 ^ 32.
Proof. intros. unfold sq. apply Z.mod_pos_bound. lia. Qed.

Lemma sq_small : forall x, 0 <= x < 2 ^ 32 -> sq x = x.
Proof. intros. unfold sq. apply Z.mod_small. assumption. Qed.

Lemma sq_sq_add : forall x n, sq (sq x + n) = sq (x + n).
Proof. intros. unfold sq. rewrite Zplus_mod_idemp_l. reflexivity. Qed.

Lemma seq_add_sq : forall x n, seq_add (sq x) n = sq (x + n).
Proof. intros. unfold seq_add, seq_modulus. apply sq_sq_add. Qed.

Lemma seq_add_raw : forall a n, seq_add a n = sq (a + n).
Proof. reflexivity. Qed.

Lemma seq_subn_sq : forall x n, seq_subn (sq x) n = sq (x - n).
Proof.
  intros. unfold seq_subn, seq_modulus, sq. rewrite Zminus_mod_idemp_l. reflexivity.
Qed.

(* every u32 value is base + offset for a unique offset in [0, 2^32) *)
Lemma sq_decompose : forall a b, 0 <= a < 2 ^ 32 -> a = sq (b + (a - b) mod 2 ^ 32).
Proof.
  intros. unfold sq. rewrite Zplus_mod_idemp_r. replace (b + (a - b)) with a by lia.
  symmetry. apply Z.mod_small. assumption.
Qed.

Lemma seq_sdiff_sq : forall b x y, - 2 ^ 31 <= x - y < 2 ^ 31 ->
  seq_sdiff (sq (b + x)) (sq (b + y)) = x - y.
Proof.
  intros b x y H. unfold seq_sdiff, seq_modulus, seq_half, sq.
  change (2 ^ 32) with 4294967296 in *. change (2 ^ 31) with 2147483648 in *.
  rewrite <- Zminus_mod.
  replace (b + x - (b + y)) with (x - y) by lia.
  destruct (Z.ltb_spec ((x - y) mod 4294967296) 2147483648); lia.
Qed.

(* the general form: whatever the offsets, the signed difference is the centred residue *)
Lemma seq_sdiff_sq_gen : forall b x y,
  seq_sdiff (sq (b + x)) (sq (b + y)) = (x - y + 2 ^ 31) mod 2 ^ 32 - 2 ^ 31.
Proof.
  intros b x y. unfold seq_sdiff, seq_modulus, seq_half, sq.
  change (2 ^ 32) with 4294967296 in *. change (2 ^ 31) with 2147483648 in *.
  rewrite <- Zminus_mod.
  replace (b + x - (b + y)) with (x - y) by lia.
  destruct (Z.ltb_spec ((x - y) mod 4294967296) 2147483648); lia.
Qed.

Section SeqCmp.
Variables b x y : Z.
Hypothesis H : - 2 ^ 31 <= x - y < 2 ^ 31.

Lemma seq_lt_sq : seq_lt (sq (b + x)) (sq (b + y)) = (x <? y).
Proof. unfold seq_lt. rewrite seq_sdiff_sq by assumption. lia. Qed.
Lemma seq_le_sq : seq_le (sq (b + x)) (sq (b + y)) = (x <=? y).
Proof. unfold seq_le. rewrite seq_sdiff_sq by assumption. lia. Qed.
Lemma seq_gt_sq : seq_gt (sq (b + x)) (sq (b + y)) = (x >? y).
Proof. unfold seq_gt. rewrite seq_sdiff_sq by assumption. lia. Qed.
Lemma seq_ge_sq : seq_ge (sq (b + x)) (sq (b + y)) = (x >=? y).
Proof. unfold seq_ge. rewrite seq_sdiff_sq by assumption. lia. Qed.
Lemma seq_sub_sq : seq_sub (sq (b + x)) (sq (b + y)) = if x <? y then Panic else Ok (x - y).
Proof.
  unfold seq_sub. rewrite seq_sdiff_sq by assumption.
  destruct (Z.ltb_spec (x - y) 0), (Z.ltb_spec x y); try lia; reflexivity.
Qed.
Lemma seq_max_sq : seq_max (sq (b + x)) (sq (b + y)) = sq (b + Z.max x y).
Proof.
  unfold seq_max. rewrite seq_gt_sq. destruct (Z.gtb_spec x y); f_equal; lia.
Qed.
Lemma seq_min_sq : seq_min (sq (b + x)) (sq (b + y)) = sq (b + Z.min x y).
Proof.
  unfold seq_min. rewrite seq_lt_sq. destruct (Z.ltb_spec x y); f_equal; lia.
Qed.
End SeqCmp.

Lemma sq_inj : forall b x y, - 2 ^ 32 < x - y < 2 ^ 32 -> sq (b + x) = sq (b + y) -> x = y.
Proof.
  intros b x y H E. unfold sq in E. change (2 ^ 32) with 4294967296 in *.
  assert (E2 : (b + x - (b + y)) mod 4294967296 = 0).
  { rewrite Zminus_mod, E, Z.sub_diag. reflexivity. }
  replace (b + x - (b + y)) with (x - y) in E2 by lia. lia.
Qed.

Lemma sq_eqb : forall b x y, - 2 ^ 32 < x - y < 2 ^ 32 ->
  (sq (b + x) =? sq (b + y)) = (x =? y).
Proof.
  intros. destruct (Z.eqb_spec x y) as [->|N]; [apply Z.eqb_refl|].
  apply Z.eqb_neq. intro E. apply N. eapply sq_inj; eassumption.
Qed.

(* ------------------------------------------------------------------------------------------ *)
(* the byte ring                                                                                *)
(* ------------------------------------------------------------------------------------------ *)
Definition wrap (c x : Z) : Z := if c <=? x then x - c else x.

Lemma mod_wrap : forall c x, 0 < c -> 0 <= x < 2 * c -> x mod c = wrap c x.
Proof.
  intros. unfold wrap. destruct (Z.leb_spec c x).
  - assert (E : x = (x - c) + 1 * c) by lia. rewrite E at 1.
    rewrite Z.mod_add by lia. apply Z.mod_small. lia.
  - apply Z.mod_small; lia.
Qed.

(* the invariant of storage::RingBuffer (C14) for the byte ring *)
Definition rb_wf (r : ring) : Prop :=
  0 <= rb_len r <= rb_cap r /\ l_len (rb_store r) = rb_cap r /\
  0 <= rb_read_at r /\ (rb_cap r = 0 \/ rb_read_at r < rb_cap r).

(* the byte at logical position i of the allocated region *)
Definition rb_at (r : ring) (i : Z) : Z := znth (rb_store r) (rb_get_idx r i).

Lemma rb_get_idx_wrap : forall r i, rb_wf r -> 0 <= i <= rb_cap r ->
  rb_get_idx r i = if rb_cap r >? 0 then wrap (rb_cap r) (rb_read_at r + i) else 0.
Proof.
  intros r i (Hl & Hs & Hr & Hc) Hi. unfold rb_get_idx.
  destruct (Z.gtb_spec (rb_cap r) 0); [|reflexivity]. apply mod_wrap; lia.
Qed.

Lemma rb_get_idx_cases : forall r i, rb_wf r -> 0 <= i <= rb_cap r -> 0 < rb_cap r ->
  (rb_read_at r + i < rb_cap r /\ rb_get_idx r i = rb_read_at r + i) \/
  (rb_cap r <= rb_read_at r + i /\ rb_get_idx r i = rb_read_at r + i - rb_cap r).
Proof.
  intros r i Hwf Hi Hc. rewrite rb_get_idx_wrap by assumption.
  destruct (Z.gtb_spec (rb_cap r) 0); [|lia]. unfold wrap.
  destruct (Z.leb_spec (rb_cap r) (rb_read_at r + i)); [right|left]; split; auto.
Qed.

Lemma rb_get_idx_cap0 : forall r i, rb_cap r = 0 -> rb_get_idx r i = 0.
Proof. intros. unfold rb_get_idx. destruct (Z.gtb_spec (rb_cap r) 0); [lia|reflexivity]. Qed.

Lemma rb_new_wf : forall st, rb_wf (rb_new st).
Proof.
  intros. unfold rb_wf, rb_new. cbn [rb_len rb_cap rb_store rb_read_at].
  pose proof (l_len_nonneg st). lia.
Qed.

Lemma rb_clear_wf : forall r, rb_wf r -> rb_wf (rb_clear r).
Proof.
  intros r (Hl & Hs & Hr & Hc). unfold rb_wf, rb_clear. cbn [rb_len rb_cap rb_store rb_read_at].
  lia.
Qed.

(* --- enqueue --- *)
Definition rb_norm (r : ring) : ring :=
  if rb_len r =? 0 then mkRing (rb_cap r) (rb_store r) 0 (rb_len r) else r.

Lemma rb_norm_wf : forall r, rb_wf r -> rb_wf (rb_norm r).
Proof.
  intros r (Hl & Hs & Hr & Hc). unfold rb_norm. destruct (Z.eqb_spec (rb_len r) 0).
  - unfold rb_wf. cbn [rb_len rb_cap rb_store rb_read_at]. lia.
  - unfold rb_wf. auto.
Qed.

Lemma rb_norm_fields : forall r,
  rb_cap (rb_norm r) = rb_cap r /\ rb_len (rb_norm r) = rb_len r /\ rb_store (rb_norm r) = rb_store r.
Proof. intros. unfold rb_norm. destruct (rb_len r =? 0); auto. Qed.

Lemma rb_norm_at : forall r i, 0 <= i < rb_len r -> rb_at (rb_norm r) i = rb_at r i.
Proof. intros. unfold rb_norm. destruct (Z.eqb_spec (rb_len r) 0); [lia|reflexivity]. Qed.

(* one pass of enqueue_many_with *)
Lemma rb_enqueue_pass_spec : forall r data r1 size rest,
  rb_wf r -> rb_enqueue_pass r data = (r1, size, rest) ->
  rb_wf r1 /\ rb_cap r1 = rb_cap r /\ rb_len r1 = rb_len r + size /\
  0 <= size <= l_len data /\ rest = l_drop size data /\
  (forall i, 0 <= i < rb_len r -> rb_at r1 i = rb_at r i) /\
  (forall j, 0 <= j < size -> rb_at r1 (rb_len r + j) = znth data j).
Proof.
  intros r data r1 size rest Hwf E. unfold rb_enqueue_pass in E. fold (rb_norm r) in E.
  pose proof (rb_norm_wf _ Hwf) as Hwn.
  destruct (rb_norm_fields r) as (Ec & El & Es).
  assert (Hat : forall i, 0 <= i < rb_len r -> rb_at (rb_norm r) i = rb_at r i)
    by (apply rb_norm_at).
  revert E Hwn Ec El Es Hat. generalize (rb_norm r). intros q E Hwn Ec El Es Hat.
  pose proof Hwn as (Hl & Hs & Hr & Hc).
  pose proof (l_len_nonneg data) as Hd.
  remember (rb_get_idx q (rb_len q)) as wa eqn:Hwa.
  remember (Z.min (rb_contiguous_window q) (l_len data)) as sz eqn:Hsz0.
  assert (Hcw : rb_contiguous_window q = Z.min (rb_cap q - rb_len q) (rb_cap q - wa)).
  { rewrite Hwa. reflexivity. }
  injection E as E1 E2 E3. subst r1 size rest.
  destruct (Z.eq_dec (rb_cap q) 0) as [C0|C0].
  { (* capacity 0: nothing is written *)
    assert (Hw0 : wa = 0) by (rewrite Hwa; apply rb_get_idx_cap0; assumption).
    assert (sz = 0) by lia. clear Hsz0. subst sz.
    assert (Htk : l_len (l_take 0 data) = 0) by (apply l_len_take; lia).
    split.
    { unfold rb_wf. cbn [rb_len rb_cap rb_store rb_read_at]. rewrite l_len_write by lia. lia. }
    cbn [rb_len rb_cap]. split; [lia|]. split; [lia|]. split; [lia|]. split; [reflexivity|].
    split; intros; lia. }
  assert (Hcp : 0 < rb_cap q) by lia.
  destruct (rb_get_idx_cases q (rb_len q) Hwn ltac:(lia) Hcp) as [(A1 & A2)|(A1 & A2)];
    rewrite <- Hwa in A2.
  all: assert (Hsz : 0 <= sz /\ sz <= l_len data /\ sz <= rb_cap q - rb_len q /\ sz <= rb_cap q - wa)
         by lia.
  all: assert (Htk : l_len (l_take sz data) = sz) by (apply l_len_take; lia).
  all: split; [unfold rb_wf; cbn [rb_len rb_cap rb_store rb_read_at];
               rewrite l_len_write by lia; lia|].
  all: cbn [rb_len rb_cap].
  all: split; [lia|]; split; [lia|]; split; [lia|]; split; [reflexivity|].
  all: split.
  all: try (intros i Hi; rewrite <- Hat by lia; unfold rb_at;
       change (rb_get_idx (mkRing (rb_cap q) (l_write wa (l_take sz data) (rb_store q))
                                  (rb_read_at q) (rb_len q + sz)) i) with (rb_get_idx q i);
       cbn [rb_store];
       destruct (rb_get_idx_cases q i Hwn ltac:(lia) Hcp) as [(B1 & B2)|(B1 & B2)];
       rewrite znth_write by lia; rewrite Htk;
       destruct (Z.leb_spec wa (rb_get_idx q i)); cbn [andb]; try reflexivity;
       destruct (Z.ltb_spec (rb_get_idx q i) (wa + sz)); try reflexivity; exfalso; lia).
  all: intros j Hj; unfold rb_at;
       change (rb_get_idx (mkRing (rb_cap q) (l_write wa (l_take sz data) (rb_store q))
                                  (rb_read_at q) (rb_len q + sz)) (rb_len r + j))
         with (rb_get_idx q (rb_len r + j));
       cbn [rb_store];
       assert (Hx : rb_get_idx q (rb_len r + j) = wa + j)
         by (destruct (rb_get_idx_cases q (rb_len r + j) Hwn ltac:(lia) Hcp) as [(B1 & B2)|(B1 & B2)]; lia);
       rewrite Hx; rewrite znth_write by lia; rewrite Htk;
       destruct (Z.leb_spec wa (wa + j)); try lia;
       destruct (Z.ltb_spec (wa + j) (wa + sz)); try lia;
       cbn [andb]; rewrite znth_take by lia; f_equal; lia.
Qed.

(* enqueue_slice: the old content is kept, the accepted prefix of [data] is appended *)
Lemma rb_enqueue_slice_spec : forall r data r' n,
  rb_wf r -> rb_enqueue_slice r data = (r', n) ->
  rb_wf r' /\ rb_cap r' = rb_cap r /\ rb_len r' = rb_len r + n /\ 0 <= n <= l_len data /\
  (forall i, 0 <= i < rb_len r -> rb_at r' i = rb_at r i) /\
  (forall j, 0 <= j < n -> rb_at r' (rb_len r + j) = znth data j).
Proof.
  intros r data r' n Hwf E. unfold rb_enqueue_slice in E.
  destruct (rb_enqueue_pass r data) as [[r1 s1] rest] eqn:E1.
  destruct (rb_enqueue_pass r1 rest) as [[r2 s2] rest2] eqn:E2.
  injection E as <- <-.
  destruct (rb_enqueue_pass_spec _ _ _ _ _ Hwf E1) as (W1 & C1 & L1 & S1 & R1 & K1 & N1).
  destruct (rb_enqueue_pass_spec _ _ _ _ _ W1 E2) as (W2 & C2 & L2 & S2 & R2 & K2 & N2).
  destruct Hwf as (Hl & _).
  assert (Hrest : l_len rest = l_len data - s1) by (subst rest; apply l_len_drop; lia).
  split; [exact W2|]. split; [lia|]. split; [lia|]. split; [lia|]. split.
  - intros i Hi. rewrite K2 by lia. apply K1. lia.
  - intros j Hj. destruct (Z.ltb_spec j s1).
    + rewrite K2 by lia. apply N1. lia.
    + replace (rb_len r + j) with (rb_len r1 + (j - s1)) by lia.
      rewrite N2 by lia. subst rest. rewrite znth_drop by lia. f_equal. lia.
Qed.

(* --- dequeue_allocated --- *)
Lemma rb_dequeue_allocated_spec : forall r count r',
  rb_wf r -> 0 <= count -> rb_dequeue_allocated r count = Ok r' ->
  count <= rb_len r /\ rb_wf r' /\ rb_cap r' = rb_cap r /\ rb_len r' = rb_len r - count /\
  (forall i, 0 <= i < rb_len r - count -> rb_at r' i = rb_at r (count + i)).
Proof.
  intros r count r' Hwf Hc E. unfold rb_dequeue_allocated in E.
  destruct (Z.leb_spec count (rb_len r)); [|discriminate]. injection E as <-.
  pose proof Hwf as (Hl & Hs & Hr & Hcap).
  split; [assumption|].
  destruct (Z.eq_dec (rb_cap r) 0) as [C0|C0].
  { rewrite rb_get_idx_cap0 by assumption. split.
    - unfold rb_wf. cbn [rb_len rb_cap rb_store rb_read_at]. lia.
    - cbn [rb_len rb_cap]. repeat (split; [reflexivity|]). intros; lia. }
  assert (Hcp : 0 < rb_cap r) by lia.
  destruct (rb_get_idx_cases r count Hwf ltac:(lia) Hcp) as [(A1 & A2)|(A1 & A2)].
  all: split; [unfold rb_wf; cbn [rb_len rb_cap rb_store rb_read_at]; lia|].
  all: cbn [rb_len rb_cap]; split; [reflexivity|]; split; [reflexivity|].
  all: intros i Hi; unfold rb_at; cbn [rb_store]; f_equal.
  all: set (r' := mkRing (rb_cap r) (rb_store r) (rb_get_idx r count) (rb_len r - count)).
  all: assert (Hwf' : rb_wf r') by (unfold rb_wf, r'; cbn [rb_len rb_cap rb_store rb_read_at]; lia).
  all: destruct (rb_get_idx_cases r' i Hwf' ltac:(unfold r'; cbn [rb_cap]; lia) Hcp) as [(B1 & B2)|(B1 & B2)];
       destruct (rb_get_idx_cases r (count + i) Hwf ltac:(lia) Hcp) as [(D1 & D2)|(D1 & D2)];
       rewrite B2, D2; unfold r' in *; cbn [rb_cap rb_read_at] in *; lia.
Qed.

Lemma rb_dequeue_allocated_ok : forall r count, count <= rb_len r ->
  exists r', rb_dequeue_allocated r count = Ok r'.
Proof.
  intros. unfold rb_dequeue_allocated. destruct (Z.leb_spec count (rb_len r)); [|lia].
  eexists. reflexivity.
Qed.

(* --- get_allocated --- *)
Lemma rb_get_allocated_spec : forall r offset size,
  rb_wf r -> 0 <= offset <= rb_len r ->
  let l := rb_get_allocated r offset size in
  0 <= l_len l /\ l_len l <= Z.max 0 size /\ l_len l <= rb_len r - offset /\
  (forall j, 0 <= j < l_len l -> znth l j = rb_at r (offset + j)).
Proof.
  intros r offset size Hwf Ho. pose proof Hwf as (Hl & Hs & Hr & Hcap).
  cbv zeta. unfold rb_get_allocated.
  destruct (Z.gtb_spec offset (rb_len r)); [lia|].
  remember (rb_get_idx r offset) as st eqn:Hst.
  remember (Z.min (Z.min size (rb_len r - offset)) (rb_cap r - st)) as n eqn:Hn.
  destruct (Z.eq_dec (rb_cap r) 0) as [C0|C0].
  { assert (n <= 0) by lia. rewrite l_slice_nonpos by assumption. rewrite l_len_nil.
    repeat (split; [lia|]). intros; lia. }
  assert (Hcp : 0 < rb_cap r) by lia.
  destruct (Z.leb_spec n 0).
  { rewrite l_slice_nonpos by assumption. rewrite l_len_nil. repeat (split; [lia|]). intros; lia. }
  destruct (rb_get_idx_cases r offset Hwf ltac:(lia) Hcp) as [(A1 & A2)|(A1 & A2)];
    rewrite <- Hst in A2.
  all: rewrite l_len_slice by lia.
  all: split; [lia|]; split; [lia|]; split; [lia|].
  all: intros j Hj; rewrite znth_slice by lia; unfold rb_at; f_equal.
  all: destruct (rb_get_idx_cases r (offset + j) Hwf ltac:(lia) Hcp) as [(B1 & B2)|(B1 & B2)]; lia.
Qed.

Lemma rb_get_allocated_len : forall r offset size,
  rb_wf r -> 0 <= offset ->
  0 <= l_len (rb_get_allocated r offset size) <= Z.max 0 size.
Proof.
  intros r offset size Hwf Ho. destruct (Z.leb_spec offset (rb_len r)).
  - pose proof (rb_get_allocated_spec r offset size Hwf ltac:(lia)) as (A & B & _). lia.
  - unfold rb_get_allocated. destruct (Z.gtb_spec offset (rb_len r)); [|lia].
    rewrite l_len_nil. lia.
Qed.

Lemma rb_get_allocated_beyond : forall r offset size,
  rb_len r < offset -> rb_get_allocated r offset size = [].
Proof.
  intros. unfold rb_get_allocated. destruct (Z.gtb_spec offset (rb_len r)); [reflexivity|lia].
Qed.
