(* Helper lemmas shared by the second-wave wire-format proofs (Proofs/Wire<Fmt>Proofs.v of
   IGMP, MLD, NDISC, IPv6 extension headers, IEEE 802.15.4, DHCPv4).  Extends
   Proofs/WireBaseProofs.v; nothing here is specific to one format.

   Finite tables.  Bit-field setters/getters act on a few bits of one or two octets; identities
   about them over *bounded* variables (an octet, a 13-bit offset, a flag) are proved by
   exhaustive evaluation: [tab1]/[tab2]/[tab3] lift `forallb P (all values) = true` (closed by
   vm_compute in the format's proof file, the bound is in the statement) to the universally
   quantified fact.  Contents of the destination buffer that are *not* bounded (emit theorems
   quantify over arbitrary buffers) are first reduced to a bounded variable with
   [land_ones_range] (`x & (2^n - 1)` is in [0, 2^n) for every integer x). *)
From SV Require Import Lib.Base Model.WireBase Proofs.WireBaseProofs.

(* ---------- tables ---------- *)

Definition ztab (n : Z) : list Z := map Z.of_nat (seq 0 (Z.to_nat n)).

Lemma ztab_in n x : 0 <= x < n -> In x (ztab n).
Proof.
  intros H. unfold ztab. apply in_map_iff. exists (Z.to_nat x). split; [lia|]. apply in_seq. lia.
Qed.

Lemma tab1 n (P : Z -> bool) : forallb P (ztab n) = true ->
  forall x, 0 <= x < n -> P x = true.
Proof. intros T x Hx. rewrite forallb_forall in T. apply T, ztab_in, Hx. Qed.

Lemma tab2 n m (P : Z -> Z -> bool) :
  forallb (fun x => forallb (P x) (ztab m)) (ztab n) = true ->
  forall x y, 0 <= x < n -> 0 <= y < m -> P x y = true.
Proof.
  intros T x y Hx Hy. rewrite forallb_forall in T. specialize (T x (ztab_in n x Hx)).
  rewrite forallb_forall in T. apply T, ztab_in, Hy.
Qed.

Lemma tab3 n m k (P : Z -> Z -> Z -> bool) :
  forallb (fun x => forallb (fun y => forallb (P x y) (ztab k)) (ztab m)) (ztab n) = true ->
  forall x y z, 0 <= x < n -> 0 <= y < m -> 0 <= z < k -> P x y z = true.
Proof.
  intros T x y z Hx Hy Hz. rewrite forallb_forall in T. specialize (T x (ztab_in n x Hx)).
  rewrite forallb_forall in T. specialize (T y (ztab_in m y Hy)).
  rewrite forallb_forall in T. apply T, ztab_in, Hz.
Qed.

(* boolean equality of octet lists *)
Fixpoint zs_eqb (a b : list Z) : bool :=
  match a, b with
  | [], [] => true
  | x :: a', y :: b' => (x =? y) && zs_eqb a' b'
  | _, _ => false
  end.

Lemma zs_eqb_eq a b : zs_eqb a b = true -> a = b.
Proof.
  revert b; induction a as [|x a IH]; intros [|y b] H; cbn in H; try discriminate; [reflexivity|].
  apply andb_prop in H. destruct H as [H1 H2]. apply Z.eqb_eq in H1. subst. f_equal. apply IH, H2.
Qed.

Lemma zs_eqb_refl a : zs_eqb a a = true.
Proof. induction a; cbn; [reflexivity|]. rewrite Z.eqb_refl. assumption. Qed.

(* ---------- bit arithmetic ---------- *)

Lemma testbit_small b k : 0 <= b < 2 ^ k -> 0 <= k -> Z.testbit b k = false.
Proof.
  intros Hb Hk. destruct (Z.eq_dec b 0) as [->|Hn]; [apply Z.bits_0|].
  apply Z.bits_above_log2; [lia|]. apply Z.log2_lt_pow2; lia.
Qed.

Lemma testbit_small' b n k : 0 <= b < 2 ^ n -> 0 <= n <= k -> Z.testbit b k = false.
Proof.
  intros Hb Hk. apply testbit_small; [|lia]. split; [lia|].
  apply Z.lt_le_trans with (2 ^ n); [lia|]. apply Z.pow_le_mono_r; lia.
Qed.

(* (a << n) | b = a * 2^n + b  when b fits below bit n *)
Lemma lor_shiftl_add a n b : 0 <= n -> 0 <= b < 2 ^ n -> Z.lor (Z.shiftl a n) b = a * 2 ^ n + b.
Proof.
  intros Hn Hb. rewrite <- Z.shiftl_mul_pow2 by lia.
  assert (D : Z.land (Z.shiftl a n) b = 0); [|rewrite (Z.add_nocarry_lxor _ _ D); symmetry; apply Z.lxor_lor, D].
  apply Z.bits_inj'. intros k Hk. rewrite Z.land_spec, Z.bits_0.
  destruct (Z.ltb_spec k n).
  - rewrite Z.shiftl_spec_low by lia. reflexivity.
  - rewrite (testbit_small' b n k) by lia. apply andb_false_r.
Qed.

Lemma land_ones_small x n : 0 <= n -> 0 <= x < 2 ^ n -> Z.land x (Z.ones n) = x.
Proof. intros. rewrite Z.land_ones by lia. apply Z.mod_small. lia. Qed.

Lemma land_1_range x : 0 <= Z.land x 1 < 2.
Proof. exact (land_ones_range x 1 ltac:(lia)). Qed.
Lemma land_7_range x : 0 <= Z.land x 7 < 8.
Proof. exact (land_ones_range x 3 ltac:(lia)). Qed.
Lemma land_255_range x : 0 <= Z.land x 255 < 256.
Proof. exact (land_ones_range x 8 ltac:(lia)). Qed.

(* ---------- lists ---------- *)

Lemma firstn_blen_all (l : list Z) n : blen l <= n -> firstn (Z.to_nat n) l = l.
Proof. intros. apply firstn_all2. unfold blen in *. lia. Qed.

Lemma skipn_blen_all (l : list Z) n : blen l <= n -> skipn (Z.to_nat n) l = [].
Proof. intros. apply skipn_all2. unfold blen in *. lia. Qed.

Lemma nth_app_l (h t : list Z) i : (i < length h)%nat -> nth i (h ++ t) 0 = nth i h 0.
Proof. intros. apply app_nth1. assumption. Qed.

Lemma bytes_ok_sub l lo hi : bytes_ok l = true ->
  bytes_ok (firstn (Z.to_nat (hi - lo)) (skipn (Z.to_nat lo) l)) = true.
Proof. intros. apply bytes_ok_firstn, bytes_ok_skipn. assumption. Qed.

Lemma bytes_ok_byte l i : bytes_ok l = true -> 0 <= i < blen l -> 0 <= nth (Z.to_nat i) l 0 < 256.
Proof. intros H Hi. apply bytes_ok_nth; [assumption|]. unfold blen in Hi. lia. Qed.

Lemma skipn_cons_nth (bs : list Z) n : (n < length bs)%nat -> skipn n bs = nth n bs 0 :: skipn (S n) bs.
Proof.
  revert bs; induction n; intros [|x bs] H; cbn [length] in H; try lia; [reflexivity|].
  cbn [skipn nth]. apply IHn. lia.
Qed.

(* reading a u16 at a position inside a buffer of octets gives a u16 *)
Lemma wb_get_be2_ok bs lo hi : 0 <= lo -> lo + 2 <= hi -> hi <= blen bs -> bytes_ok bs = true ->
  exists v, wb_get_be bs lo hi 2 = Ok v /\ 0 <= v < 65536 /\
            v = nth (Z.to_nat lo) bs 0 * 256 + nth (Z.to_nat (lo + 1)) bs 0.
Proof.
  intros H1 H2 H3 Hb. unfold wb_get_be. rewrite wb_sub_ok by lia. cbn [obind].
  set (s := firstn _ _).
  assert (Hs : blen s = hi - lo) by (unfold s; rewrite blen_firstn; [lia | rewrite blen_skipn; lia]).
  rewrite Hs. zbool. eexists; split; [reflexivity|]. zfold.
  assert (E : firstn 2 s = [nth (Z.to_nat lo) bs 0; nth (Z.to_nat (lo + 1)) bs 0]).
  { unfold s. rewrite firstn_firstn. replace (Init.Nat.min 2 (Z.to_nat (hi - lo))) with 2%nat by lia.
    unfold blen in H3.
    rewrite (skipn_cons_nth bs (Z.to_nat lo)) by lia.
    rewrite (skipn_cons_nth bs (S (Z.to_nat lo))) by lia.
    replace (Z.to_nat (lo + 1)) with (S (Z.to_nat lo)) by lia. reflexivity. }
  rewrite E, be_dec2.
  pose proof (bytes_ok_byte bs lo Hb ltac:(lia)). pose proof (bytes_ok_byte bs (lo + 1) Hb ltac:(lia)).
  split; [lia | reflexivity].
Qed.

Lemma wb_get_be4_ok bs lo hi : 0 <= lo -> lo + 4 <= hi -> hi <= blen bs -> bytes_ok bs = true ->
  exists v, wb_get_be bs lo hi 4 = Ok v /\ 0 <= v < 4294967296.
Proof.
  intros H1 H2 H3 Hb. unfold wb_get_be. rewrite wb_sub_ok by lia. cbn [obind].
  set (s := firstn _ _).
  assert (Hs : blen s = hi - lo) by (unfold s; rewrite blen_firstn; [lia | rewrite blen_skipn; lia]).
  rewrite Hs. zbool. eexists; split; [reflexivity|]. zfold.
  assert (E : firstn 4 s = [nth (Z.to_nat lo) bs 0; nth (Z.to_nat (lo + 1)) bs 0;
                            nth (Z.to_nat (lo + 2)) bs 0; nth (Z.to_nat (lo + 3)) bs 0]).
  { unfold s. rewrite firstn_firstn. replace (Init.Nat.min 4 (Z.to_nat (hi - lo))) with 4%nat by lia.
    unfold blen in H3.
    rewrite (skipn_cons_nth bs (Z.to_nat lo)) by lia.
    rewrite (skipn_cons_nth bs (S (Z.to_nat lo))) by lia.
    rewrite (skipn_cons_nth bs (S (S (Z.to_nat lo)))) by lia.
    rewrite (skipn_cons_nth bs (S (S (S (Z.to_nat lo))))) by lia.
    replace (Z.to_nat (lo + 1)) with (S (Z.to_nat lo)) by lia.
    replace (Z.to_nat (lo + 2)) with (S (S (Z.to_nat lo))) by lia.
    replace (Z.to_nat (lo + 3)) with (S (S (S (Z.to_nat lo)))) by lia. reflexivity. }
  rewrite E. apply be_dec4_range; apply bytes_ok_byte; try assumption; lia.
Qed.

Lemma wb_get_u16_ok' bs f : 0 <= fst f -> fst f + 2 <= snd f -> snd f <= blen bs -> bytes_ok bs = true ->
  exists v, wb_get_u16 bs f = Ok v /\ 0 <= v < 65536.
Proof.
  intros. destruct (wb_get_be2_ok bs (fst f) (snd f)) as (v & E & R & _); try assumption. eauto.
Qed.

Lemma wb_get_u32_ok' bs f : 0 <= fst f -> fst f + 4 <= snd f -> snd f <= blen bs -> bytes_ok bs = true ->
  exists v, wb_get_u32 bs f = Ok v /\ 0 <= v < 4294967296.
Proof. intros. apply wb_get_be4_ok; assumption. Qed.

(* a slice of known length *)
Lemma wb_sub_ok_len l lo hi : 0 <= lo <= hi -> hi <= blen l ->
  exists s, wb_sub l lo hi = Ok s /\ blen s = hi - lo /\ (bytes_ok l = true -> bytes_ok s = true).
Proof.
  intros. rewrite wb_sub_ok by lia. eexists; split; [reflexivity|]. split.
  - rewrite blen_firstn; [lia|]. rewrite blen_skipn; lia.
  - intros Hb. apply bytes_ok_firstn, bytes_ok_skipn, Hb.
Qed.
