(* C01, top layer: the end-to-end theorems about Model/TcpNet.v, closed.

   What is proved here, from C04 (Proofs/TcpRecvTheorems.v), C05 (through the single statement
   [c05_contract], Proofs/TcpNetContract.v, itself assembled from C05's theorems in
   Proofs/TcpNetTx.v and TcpSendKa.v) and "channel is a subset of emitted":
     chan_sub_sent             everything in flight was emitted by the other socket
     e2e_prefix                in every reachable state, what each application has read is a
                               prefix of what the peer application has written (both directions)
     e2e_finished_complete     recv = Finished only after every octet the peer wrote was read
     seg_age_when_small        the age hypothesis (MSL) holds in every run in which fewer than
                               2^31 - 1 octets are written in each direction
     e2e_small                 hence both statements without any hypothesis on the adversary below 2 GiB
     e2e_example               a concrete adversarial schedule (reorder, duplicate, loss,
                               retransmission, sequence numbers wrapping 2^32) run by vm_compute. *)
From SV Require Import Lib.Base Gen.Consts.
From SV Require Import Model.Seq32 Model.Assembler Model.TcpBuf Model.TcpTypes Model.Tcp Model.TcpNet.
From SV Require Import Proofs.TcpSendBase Proofs.TcpSendInv Proofs.TcpSendTrace Proofs.TcpSendKa.
From SV Require Import Proofs.TcpNetBase Proofs.TcpNetFrame Proofs.TcpNetContract Proofs.TcpNetTx
  Proofs.TcpNetCompose Proofs.TcpNetInv.

(* the base case of the C05 contract is C05's [new_inv] *)
Lemma c05_new_holds : c05_contract_new.
Proof. exact new_inv. Qed.

Definition e2e_both (st : net) : Prop :=
  prefix (ep_read (n_b st)) (ep_written (n_a st)) /\ prefix (ep_read (n_a st)) (ep_written (n_b st)).

Definition finished_complete (st : net) : Prop :=
  (ep_finished (n_b st) = true -> ep_read (n_b st) = ep_written (n_a st)) /\
  (ep_finished (n_a st) = true -> ep_read (n_a st) = ep_written (n_b st)).

(* Everything C01 consumes from C05 is proved: the contract is assembled in Proofs/TcpNetTx.v
   (c05_contract_of_ka) and its one premise, the position of a keep-alive probe, is C05's
   TcpSendKa.keep_alive_below_una (proved after the D23 repair: the RTT estimator is reset when a
   listener falls back to LISTEN). *)
Lemma c05_ka_holds : c05_ka_bound.
Proof.
  intros cx g s e s' p tags Hinv Hcx Hm Hlive H Htag.
  exact (keep_alive_below_una cx g s e s' p tags Hinv Hcx (proj1 Hm) Hlive H Htag).
Qed.

Lemma c05_holds : c05_contract.
Proof. exact (c05_contract_of_ka c05_ka_holds). Qed.

Section FromContract.
  Let c05 : c05_contract := c05_holds.

  Theorem e2e_prefix_c ca cb st0 evs st :
    cfg_ok ca -> cfg_ok cb -> net_init ca cb = Ok st0 ->
    net_run st0 evs = Ok st -> run_age st0 evs -> e2e_both st.
  Proof.
    intros H1 H2 H3 H4 H5.
    destruct (e2e_reach c05 c05_new_holds ca cb st0 evs st H1 H2 H3 H4 H5) as ((P1 & _) & (P2 & _)).
    split; assumption.
  Qed.

  Theorem e2e_finished_complete_c ca cb st0 evs st :
    cfg_ok ca -> cfg_ok cb -> net_init ca cb = Ok st0 ->
    net_run st0 evs = Ok st -> run_age st0 evs -> finished_complete st.
  Proof.
    intros H1 H2 H3 H4 H5.
    destruct (e2e_reach c05 c05_new_holds ca cb st0 evs st H1 H2 H3 H4 H5) as ((_ & P1) & (_ & P2)).
    split; assumption.
  Qed.

  Theorem seg_age_when_small_c ca cb st0 evs st :
    cfg_ok ca -> cfg_ok cb -> net_init ca cb = Ok st0 ->
    net_run st0 evs = Ok st -> small st -> run_age st0 evs.
  Proof. apply (run_age_small c05 c05_new_holds). Qed.

  Theorem e2e_small_c ca cb st0 evs st :
    cfg_ok ca -> cfg_ok cb -> net_init ca cb = Ok st0 ->
    net_run st0 evs = Ok st -> small st -> e2e_both st /\ finished_complete st.
  Proof.
    intros H1 H2 H3 H4 H5.
    destruct (e2e_small c05 c05_new_holds ca cb st0 evs st H1 H2 H3 H4 H5) as ((P1 & P2) & (P3 & P4)).
    split; split; assumption.
  Qed.
End FromContract.

(* ---------------------------------------------------------------------------------------- *)
(* non-vacuity: a concrete adversarial schedule                                              *)
(* ---------------------------------------------------------------------------------------- *)
(* A: 64-byte buffers, no congestion control, ISN 2^32 - 6 (its sequence numbers wrap 2^32 inside
   the transfer); B: 32-byte receive buffer, Reno, ISN 2^31 - 8. *)
Definition ex_cfg_a : ep_config :=
  mkEpCfg (repeat 0 64) (repeat 0 64) CcNone false None None None false None 0 1500 1 4000 4294967290 0.
Definition ex_cfg_b : ep_config :=
  mkEpCfg (repeat 0 32) (repeat 0 64) (CcReno reno_new) false None None None false None 0 1500 2 80 2147483640 0.

Definition ex_schedule : list net_event :=
  (* handshake *)
  [NPoll SA true; NDeliver SB 0; NPoll SB true; NDeliver SA 0; NPoll SA true; NDeliver SB 1;
  (* three 5-octet segments: channel A->B = SYN, ACK, seg1 (seq 2^32-5), seg2 (seq 0), seg3 (seq 5) *)
   NSend SA [1;2;3;4;5]; NPoll SA true; NSend SA [6;7;8;9;10]; NPoll SA true;
   NSend SA [11;12;13;14;15]; NPoll SA true;
  (* reorder: seg3 first; duplicate: seg3 again; loss: seg2 dropped; then seg1 *)
   NDeliver SB 4; NDeliver SB 4; NDrop SB 3; NDeliver SB 2;
   NRecv SB 100].

Definition ex_schedule_2 : list net_event :=
  ex_schedule ++
  (* B's ACK reaches A, the retransmission timer fires, [6..15] is retransmitted and delivered *)
  [NDeliver SA 3; NTick 2000000; NPoll SA true; NDeliver SB 4; NRecv SB 7; NRecv SB 100;
  (* A closes; the FIN is delivered; an old duplicate of seg1 arrives after it *)
   NClose SA; NPoll SA true; NDeliver SB 5; NDeliver SB 2; NRecv SB 10].

Definition ex_run (evs : list net_event) : outcome net :=
  do st <- net_init ex_cfg_a ex_cfg_b; net_run st evs.

Definition ex_view (o : outcome net) : option (list Z * list Z * bool) :=
  match o with
  | Ok st => Some (ep_written (n_a st), ep_read (n_b st), ep_finished (n_b st))
  | _ => None
  end.

(* after reorder + duplicate + loss B's application has exactly the first segment: a strict prefix *)
Example e2e_example_prefix :
  ex_view (ex_run ex_schedule) =
  Some ([1;2;3;4;5;6;7;8;9;10;11;12;13;14;15], [1;2;3;4;5], false).
Proof. vm_compute. reflexivity. Qed.

(* after the retransmission and the FIN: everything, once, in order, and Finished *)
Example e2e_example_complete :
  ex_view (ex_run ex_schedule_2) =
  Some ([1;2;3;4;5;6;7;8;9;10;11;12;13;14;15], [1;2;3;4;5;6;7;8;9;10;11;12;13;14;15], true).
Proof. vm_compute. reflexivity. Qed.

(* the example is an instance of the theorems' hypotheses *)
Example e2e_example_cfg_ok : cfg_ok ex_cfg_a /\ cfg_ok ex_cfg_b.
Proof.
  unfold cfg_ok, ex_cfg_a, ex_cfg_b. cbn [c_tx_storage c_mtu c_cc].
  assert (l_len (repeat 0 64) = 64) by (vm_compute; reflexivity).
  split; (split; [lia|]; split; [lia|]).
  - exact I.
  - vm_compute. intuition congruence.
Qed.
