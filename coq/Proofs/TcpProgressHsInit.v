(* C02 (liveness half), layer 8b: the invariant of the handshake phases holds in the state net_init
   builds (A in SYN-SENT towards B, B in LISTEN, nothing in flight), for plain configurations. *)
From SV Require Import Lib.Base Gen.Consts.
From SV Require Import Model.Seq32 Model.Assembler Model.TcpBuf Model.TcpTypes Model.Tcp Model.TcpNet.
From SV Require Import Proofs.TcpSendBase Proofs.TcpLiveBase Proofs.TcpLiveProofs Proofs.TcpLiveMore
  Proofs.TcpLiveProgress.
From SV Require Import Proofs.TcpNetBase.
From SV Require Import Proofs.TcpProgressBase Proofs.TcpProgressFrame Proofs.TcpProgressCtl Proofs.TcpProgressRecv
  Proofs.TcpProgressSend Proofs.TcpProgressNet Proofs.TcpProgressData Proofs.TcpProgressAck
  Proofs.TcpProgressAll Proofs.TcpProgressSafe Proofs.TcpProgressHs Proofs.TcpProgressHsD Proofs.TcpProgressHsNet.

(* ---------------------------------------------------------------------------------------- *)
(* the initial state                                                                         *)
(* ---------------------------------------------------------------------------------------- *)
(* what the pre-run events leave alone *)
Record created (c : ep_config) (e : endpoint) : Prop := mkCR {
  cr_cx : ep_cx e = cfg_ctx c;
  cr_out : ep_out e = [];
  cr_wr : ep_written e = [];
  cr_cl : ep_closed e = false;
  cr_st : s_state (ep_sock e) = Closed;
  cr_tm : s_timer (ep_sock e) = TIdle None;
  cr_to : s_timeout (ep_sock e) = c_timeout c;
  cr_ka : s_keep_alive (ep_sock e) = None;
  cr_ad : s_ack_delay (ep_sock e) = c_ack_delay c;
  cr_tu : s_tuple (ep_sock e) = None
}.

Lemma setter_step e ev e' (f : socket -> socket) :
  (forall cx s, tcp_step cx s ev = Ok (f s, OUnit, [])) ->
  (forall w, log_written w ev OUnit = w) -> (forall cl st, log_closed cl st ev = cl) ->
  ep_step e ev = Ok e' ->
  ep_sock e' = f (ep_sock e) /\ ep_cx e' = ep_cx e /\ ep_out e' = ep_out e /\
  ep_written e' = ep_written e /\ ep_closed e' = ep_closed e.
Proof.
  intros Hf Hw Hc H.
  destruct (ep_step_spec _ _ _ H) as (s' & out & tags & Hs & Hk & Hcx & Hout & _ & Hwr & _ & _ & Hcl).
  rewrite Hf in Hs. inversion Hs; subst s' out tags.
  cbn [wire_out opt_list] in Hout. rewrite app_nil_r in Hout.
  rewrite Hw in Hwr. rewrite Hc in Hcl. auto.
Qed.

Lemma create_props c e : c_keep_alive c = None -> ep_create c = Ok e -> created c e.
Proof.
  intros Hk H. unfold ep_create in H.
  apply obind_ok in H. destruct H as (s0 & En & H).
  apply obind_ok in H. destruct H as (e1 & H1 & H).
  apply obind_ok in H. destruct H as (e2 & H2 & H).
  apply obind_ok in H. destruct H as (e3 & H3 & H).
  apply obind_ok in H. destruct H as (e4 & H4 & H5).
  unfold tcp_new in En. destruct (rb_cap (rb_new (c_rx_storage c)) >? 2 ^ 30); [discriminate|]. inversion En; subst s0; clear En.
  destruct (setter_step _ (EvSetTimeout (c_timeout c)) _ (fun s => tcp_set_timeout s (c_timeout c)) ltac:(reflexivity) ltac:(reflexivity) ltac:(reflexivity) H1) as (A1 & A2 & A3 & A4 & A5).
  destruct (setter_step _ (EvSetKeepAlive (c_keep_alive c)) _ (fun s => tcp_set_keep_alive s (c_keep_alive c)) ltac:(reflexivity) ltac:(reflexivity) ltac:(reflexivity) H2) as (B1 & B2 & B3 & B4 & B5).
  destruct (setter_step _ (EvSetAckDelay (c_ack_delay c)) _ (fun s => tcp_set_ack_delay s (c_ack_delay c)) ltac:(reflexivity) ltac:(reflexivity) ltac:(reflexivity) H3) as (C1 & C2 & C3 & C4 & C5).
  destruct (setter_step _ (EvSetNagle (c_nagle c)) _ (fun s => tcp_set_nagle_enabled s (c_nagle c)) ltac:(reflexivity) ltac:(reflexivity) ltac:(reflexivity) H4) as (D1 & D2 & D3 & D4 & D5).
  destruct (ep_step_spec _ _ _ H5) as (s' & out & tags & Hs & E1 & E2 & E3 & _ & E4 & _ & _ & E5).
  cbn [tcp_step] in Hs. apply obind_ok in Hs. destruct Hs as (s5 & Hh & Hs).
  assert (X1 : s' = s5) by (inversion Hs; reflexivity). assert (X2 : out = OUnit) by (inversion Hs; reflexivity).
  rewrite X1 in E1. rewrite X2 in E3, E4. clear Hs X1 X2.
  unfold tcp_set_hop_limit in Hh.
  assert (Es5 : s5 = upd_hop_limit (ep_sock e4) (c_hop_limit c))
    by (destruct (c_hop_limit c) as [[|hp|hp]|]; inversion Hh; reflexivity).
  cbn [wire_out opt_list log_written log_closed] in E3, E4, E5. rewrite app_nil_r in E3.
  rewrite Hk in B1. unfold tcp_set_keep_alive, tcp_set_timeout, tcp_set_ack_delay, tcp_set_nagle_enabled in *.
  cbn [is_some] in B1.
  constructor.
  - rewrite E2, D2, C2, B2, A2. reflexivity.
  - rewrite E3, D3, C3, B3, A3. reflexivity.
  - rewrite E4, D4, C4, B4, A4. reflexivity.
  - rewrite E5, D5, C5, B5, A5. reflexivity.
  - rewrite E1, Es5, D1, C1, B1, A1. sproj. reflexivity.
  - rewrite E1, Es5, D1, C1, B1, A1. sproj. reflexivity.
  - rewrite E1, Es5, D1, C1, B1, A1. sproj. reflexivity.
  - rewrite E1, Es5, D1, C1, B1, A1. sproj. reflexivity.
  - rewrite E1, Es5, D1, C1, B1, A1. sproj. reflexivity.
  - rewrite E1, Es5, D1, C1, B1, A1. sproj. reflexivity.
Qed.

Lemma state_eqb_eq a b : tcp_state_eqb a b = true -> a = b.
Proof. destruct a, b; cbn; congruence. Qed.

Lemma reset_fields s :
  s_timer (tcp_reset s) = TIdle None /\ s_timeout (tcp_reset s) = s_timeout s /\
  s_keep_alive (tcp_reset s) = s_keep_alive s /\ s_ack_delay (tcp_reset s) = s_ack_delay s /\
  s_ack_delay_timer (tcp_reset s) = ADIdle.
Proof. unfold tcp_reset, timer_new. sproj. repeat split; reflexivity. Qed.


Lemma listen_fields s ep s' :
  tcp_listen s ep = Ok s' -> s_state s = Closed ->
  le_port ep <> 0 /\ s_state s' = Listen /\ s_tuple s' = None /\ s_listen_endpoint s' = ep /\
  s_timer s' = TIdle None /\ s_timeout s' = s_timeout s /\ s_keep_alive s' = s_keep_alive s /\
  s_ack_delay s' = s_ack_delay s.
Proof.
  unfold tcp_listen. intros H Hst. destruct (Z.eqb_spec (le_port ep) 0) as [E | E]; [discriminate|].
  unfold tcp_is_open in H. rewrite Hst in H.
  pose proof (reset_fields s) as R. revert H R. generalize (tcp_reset s). intros q H (R1 & R2 & R3 & R4 & R5).
  inversion H; subst s'; clear H.
  unfold tcp_set_state. sproj. rewrite R1, R2, R3, R4. split; [exact E|]. repeat split.
Qed.

Lemma connect_fields cx s ra rp lp s' :
  tcp_connect cx s ra rp (mkListenEp None lp) = Ok s' -> s_state s = Closed ->
  rp <> 0 /\ ra <> 0 /\ lp <> 0 /\ s_state s' = SynSent /\
  s_tuple s' = Some (mkTuple (cx_addr cx) lp ra rp) /\
  s_timer s' = TIdle None /\ s_timeout s' = s_timeout s /\ s_keep_alive s' = s_keep_alive s /\
  s_ack_delay s' = s_ack_delay s /\ s_remote_last_seq s' = s_local_seq_no s' /\
  s_ack_delay_timer s' = ADIdle.
Proof.
  unfold tcp_connect. cbn [le_port le_addr]. intros H Hst.
  unfold tcp_is_open in H. rewrite Hst in H.
  destruct ((rp =? 0) || (ra =? 0)) eqn:E1; [discriminate|].
  destruct (Z.eqb_spec lp 0) as [E2 | E2]; [discriminate|].
  cbn [obind] in H.
  pose proof (reset_fields s) as R. revert H R. generalize (tcp_reset s). intros q H (R1 & R2 & R3 & R4 & R5).
  inversion H; subst s'; clear H.
  apply orb_false_iff in E1. destruct E1 as (E1a & E1b). apply Z.eqb_neq in E1a, E1b.
  unfold tcp_set_state. sproj. rewrite R1, R2, R3, R4, R5.
  split; [exact E1a|]. split; [exact E1b|]. split; [exact E2|]. repeat split.
Qed.

(* the configurations of the one-way workload: no user timeout, no keep-alive *)
Definition cfg_plain (c : ep_config) : Prop :=
  c_timeout c = None /\ c_keep_alive c = None.

Theorem hs_init ca cb st0 isn Dack :
  net_init ca cb = Ok st0 -> net_started st0 = true ->
  cfg_plain ca -> cfg_plain cb -> c_addr ca <> 0 ->
  match c_ack_delay cb with Some d => 0 <= d <= Dack | None => True end ->
  pre_hs isn Dack st0 /\ opts_ok st0.
Proof.
  intros H Hstart (Ta & Ka) (Tb & Kb) Haddr Hdel. unfold net_init in H.
  apply obind_ok in H. destruct H as (a0 & Ha0 & H).
  apply obind_ok in H. destruct H as (b0 & Hb0 & H).
  apply obind_ok in H. destruct H as (b1 & Hb1 & H).
  apply obind_ok in H. destruct H as (a1 & Ha1 & H). inversion H; subst st0; clear H.
  pose proof (create_props _ _ Ka Ha0) as CA. pose proof (create_props _ _ Kb Hb0) as CB.
  unfold net_started in Hstart. cbn [n_a n_b] in Hstart. apply andb_true_iff in Hstart. destruct Hstart as (SA1 & SB1).
  apply state_eqb_eq in SA1. apply state_eqb_eq in SB1.
  (* B: listen *)
  destruct (ep_step_spec _ _ _ Hb1) as (sb' & outb & tagsb & Hsb & B1 & B2 & B3 & _ & B4 & _ & _ & B5).
  cbn [tcp_step] in Hsb.
  destruct (tcp_listen (ep_sock b0) (mkListenEp None (c_port cb))) as [sl|err|] eqn:El; [| |discriminate].
  2:{ exfalso. assert (X : sb' = ep_sock b0) by (inversion Hsb; reflexivity).
      rewrite B1, X, (cr_st _ _ CB) in SB1. discriminate. }
  assert (X1 : sb' = sl) by (inversion Hsb; reflexivity). assert (X2 : outb = OUnit) by (inversion Hsb; reflexivity).
  rewrite X1 in B1. rewrite X2 in B3, B4. clear Hsb X1 X2.
  destruct (listen_fields _ _ _ El (cr_st _ _ CB)) as (Hpb & LB1 & LB2 & LB3 & LB4 & LB5 & LB6 & LB7).
  cbn [le_port] in Hpb.
  (* A: connect *)
  destruct (ep_step_spec _ _ _ Ha1) as (sa' & outa & tagsa & Hsa & A1 & A2 & A3 & _ & A4 & _ & _ & A5).
  cbn [tcp_step] in Hsa.
  destruct (tcp_connect (ep_cx a0) (ep_sock a0) (c_addr cb) (c_port cb) (mkListenEp None (c_port ca))) as [sc|err|] eqn:Ec;
    [| |discriminate].
  2:{ exfalso. assert (X : sa' = ep_sock a0) by (inversion Hsa; reflexivity).
      rewrite A1, X, (cr_st _ _ CA) in SA1. discriminate. }
  assert (X3 : sa' = sc) by (inversion Hsa; reflexivity). assert (X4 : outa = OUnit) by (inversion Hsa; reflexivity).
  rewrite X3 in A1. rewrite X4 in A3, A4. clear Hsa X3 X4.
  destruct (connect_fields _ _ _ _ _ _ Ec (cr_st _ _ CA)) as (Hpb' & Hab & Hpa & LA1 & LA2 & LA3 & LA4 & LA5 & LA6 & _ & _).
  cbn [wire_out opt_list log_written log_closed] in A3, A4, A5, B3, B4, B5. rewrite app_nil_r in A3, B3.
  assert (Hcxa : cx_addr (ep_cx a0) = c_addr ca) by (rewrite (cr_cx _ _ CA); reflexivity).
  assert (Hcxb : cx_addr (ep_cx b0) = c_addr cb) by (rewrite (cr_cx _ _ CB); reflexivity).
  set (tA := mkTuple (cx_addr (ep_cx a0)) (c_port ca) (c_addr cb) (c_port cb)) in *.
  split.
  - constructor; unfold net_sock, chan_to; cbn [net_get side_other n_a n_b].
    + left. rewrite A1, B1. split; [exact LA1 | left; exact LB1].
    + intros z. destruct z; cbn [net_get n_a n_b]; [rewrite A5; exact (cr_cl _ _ CA) | rewrite B5; exact (cr_cl _ _ CB)].
    + rewrite B4. exact (cr_wr _ _ CB).
    + exists tA. rewrite A1, B1, A2, B2, A3, B3, (cr_out _ _ CA), (cr_out _ _ CB).
      split; [exact LA2|]. split; [reflexivity|]. split; [cbn; rewrite Hcxb; reflexivity|].
      split; [unfold tuple_nz, tA; cbn; rewrite Hcxa; auto|].
      split; [intros _; rewrite LB2, LB3; cbn; auto|]. split; [intros X; rewrite LB1 in X; discriminate|].
      split; intros p [].
    + rewrite A3, (cr_out _ _ CA). intros p [].
    + rewrite B3, (cr_out _ _ CB). intros q [].
    + rewrite A1, LA1. discriminate.
    + intros z. destruct z; cbn [net_get n_a n_b]; [rewrite A1, LA3 | rewrite B1, LB4]; exact I.
    + rewrite B1, LB7, (cr_ad _ _ CB). exact Hdel.
  - intros z. unfold net_sock. destruct z; cbn [net_get n_a n_b]; [rewrite A1 | rewrite B1].
    + rewrite LA4, LA5, (cr_to _ _ CA), (cr_ka _ _ CA). auto.
    + rewrite LB5, LB6, (cr_to _ _ CB), (cr_ka _ _ CB). auto.
Qed.

(* in the initial state A's SYN is still to be transmitted *)
Lemma init_needs_tx ca cb st0 :
  net_init ca cb = Ok st0 -> net_started st0 = true -> c_keep_alive ca = None ->
  s_remote_last_seq (net_sock st0 SA) = s_local_seq_no (net_sock st0 SA).
Proof.
  intros H Hstart Ka. unfold net_init in H.
  apply obind_ok in H. destruct H as (a0 & Ha0 & H).
  apply obind_ok in H. destruct H as (b0 & Hb0 & H).
  apply obind_ok in H. destruct H as (b1 & Hb1 & H).
  apply obind_ok in H. destruct H as (a1 & Ha1 & H). inversion H; subst st0; clear H.
  pose proof (create_props _ _ Ka Ha0) as CA.
  unfold net_started in Hstart. cbn [n_a n_b] in Hstart. apply andb_true_iff in Hstart. destruct Hstart as (SA1 & _).
  apply state_eqb_eq in SA1.
  destruct (ep_step_spec _ _ _ Ha1) as (sa' & outa & tagsa & Hsa & A1 & _).
  cbn [tcp_step] in Hsa.
  destruct (tcp_connect (ep_cx a0) (ep_sock a0) (c_addr cb) (c_port cb) (mkListenEp None (c_port ca))) as [sc|err|] eqn:Ec;
    [| |discriminate].
  2:{ exfalso. assert (X : sa' = ep_sock a0) by (inversion Hsa; reflexivity).
      rewrite A1, X, (cr_st _ _ CA) in SA1. discriminate. }
  assert (X3 : sa' = sc) by (inversion Hsa; reflexivity). rewrite X3 in A1.
  destruct (connect_fields _ _ _ _ _ _ Ec (cr_st _ _ CA)) as (_ & _ & _ & _ & _ & _ & _ & _ & _ & L & _).
  unfold net_sock. cbn [net_get n_a]. rewrite A1. exact L.
Qed.

(* ... and no delayed-ACK timer is running *)
Lemma init_adt ca cb st0 :
  net_init ca cb = Ok st0 -> net_started st0 = true -> c_keep_alive ca = None ->
  s_ack_delay_timer (net_sock st0 SA) = ADIdle.
Proof.
  intros H Hstart Ka. unfold net_init in H.
  apply obind_ok in H. destruct H as (a0 & Ha0 & H).
  apply obind_ok in H. destruct H as (b0 & Hb0 & H).
  apply obind_ok in H. destruct H as (b1 & Hb1 & H).
  apply obind_ok in H. destruct H as (a1 & Ha1 & H). inversion H; subst st0; clear H.
  pose proof (create_props _ _ Ka Ha0) as CA.
  unfold net_started in Hstart. cbn [n_a n_b] in Hstart. apply andb_true_iff in Hstart. destruct Hstart as (SA1 & _).
  apply state_eqb_eq in SA1.
  destruct (ep_step_spec _ _ _ Ha1) as (sa' & outa & tagsa & Hsa & A1 & _).
  cbn [tcp_step] in Hsa.
  destruct (tcp_connect (ep_cx a0) (ep_sock a0) (c_addr cb) (c_port cb) (mkListenEp None (c_port ca))) as [sc|err|] eqn:Ec;
    [| |discriminate].
  2:{ exfalso. assert (X : sa' = ep_sock a0) by (inversion Hsa; reflexivity).
      rewrite A1, X, (cr_st _ _ CA) in SA1. discriminate. }
  assert (X3 : sa' = sc) by (inversion Hsa; reflexivity). rewrite X3 in A1.
  destruct (connect_fields _ _ _ _ _ _ Ec (cr_st _ _ CA)) as (_ & _ & _ & _ & _ & _ & _ & _ & _ & _ & L).
  unfold net_sock. cbn [net_get n_a]. rewrite A1. exact L.
Qed.

(* ---------------------------------------------------------------------------------------- *)
(* every run from net_init                                                                   *)
(* ---------------------------------------------------------------------------------------- *)
Module NV := TcpNetInv.
Module C := TcpNetCompose.

Lemma bwr_step st ev st' :
  script_ev SA ev -> net_step st ev = Ok st' ->
  ep_written (net_get st SB) = [] -> ep_written (net_get st' SB) = [].
Proof.
  intros Hsc H Hb.
  destruct (net_step_kind _ _ _ H) as [w ev0 e' Hse He -> | to i -> _ -> | d -> -> | w isn ts -> -> | to i Hd].
  - destruct w; [exact Hb|]. cbn [net_set net_get n_b].
    destruct (ep_step_spec _ _ _ He) as (s' & out & tags & _ & _ & _ & _ & _ & -> & _).
    destruct ev; cbn [sock_event script_ev] in *; try contradiction.
    + destruct Hse as (_ & p & _ & ->). exact Hb.
    + destruct Hse as (_ & ->). exact Hb.
    + destruct Hse as (E & _). subst x. discriminate.
    + destruct Hse as (_ & ->). destruct out; exact Hb.
  - exact Hb.
  - exact Hb.
  - destruct w; exact Hb.
  - assert (Hd' : net_step st (NDrop to i) = Ok st' \/ net_step st (NCorrupt to i) = Ok st')
      by (destruct Hd as [-> | ->]; [left | right]; exact H).
    destruct (drop_same st to i st' Hd' SB) as (_ & _ & -> & _). exact Hb.
Qed.

(* the premises on the two configurations *)
Definition start_ok (Dack : Z) (ca cb : ep_config) (st0 : net) : Prop :=
  net_init ca cb = Ok st0 /\ net_started st0 = true /\
  cfg_good ca /\ cfg_good cb /\ cfg_plain ca /\ cfg_plain cb /\ c_addr ca <> 0 /\
  match c_ack_delay cb with Some d => 0 <= d <= Dack | None => True end.

Lemma INVo_reach ca cb st0 pre st :
  cfg_good ca -> cfg_good cb -> net_init ca cb = Ok st0 -> net_run st0 pre = Ok st ->
  NV.small st -> (forall z, ep_closed (net_get st z) = false) ->
  INVo (cx_isn (ep_cx (n_a st0))) st.
Proof.
  intros (H1 & _) (H2 & _) H3 H4 Hsm Hcl.
  pose proof (NV.run_age_small TcpNetProofs.c05_holds TcpNetProofs.c05_new_holds _ _ _ _ _ H1 H2 H3 H4 Hsm) as Hage.
  destruct (NV.INV_reach TcpNetProofs.c05_holds TcpNetProofs.c05_new_holds _ _ _ _ _ H1 H2 H3 H4 Hage
              _ None _ None (compat_open _ (Hcl SA)) (compat_open _ (Hcl SB))) as (ga & gb & HI).
  exists (C.oracle_S (ep_written (n_a st))), (C.oracle_S (ep_written (n_b st))), ga, gb. exact HI.
Qed.

Definition hs_inv (isn Dack : Z) (st : net) : Prop := pre_hs isn Dack st \/ reg SA Dack st.

Lemma hs_inv_closed isn Dack st : hs_inv isn Dack st ->
  (forall z, ep_closed (net_get st z) = false) /\ ep_written (net_get st SB) = [].
Proof.
  intros [H | H].
  - split; [exact (ph_closed _ _ _ H) | exact (ph_bwr _ _ _ H)].
  - split; [exact (rg_closed _ _ _ H) | exact (rg_ywr _ _ _ H)].
Qed.

(* THE HANDSHAKE IS SAFE: along every run from net_init of the one-way workload the handshake
   invariant, or - once both are ESTABLISHED - the regime invariant holds *)
Theorem hs_run Dack ca cb st0 : start_ok Dack ca cb st0 ->
  forall evs pre st1 st,
  net_run st0 pre = Ok st1 -> hs_inv (cx_isn (ep_cx (n_a st0))) Dack st1 -> opts_ok st1 ->
  Forall (script_ev SA) evs -> net_run st1 evs = Ok st -> NV.small st ->
  hs_inv (cx_isn (ep_cx (n_a st0))) Dack st /\ opts_ok st.
Proof.
  intros (Hi & Hstart & Ga & Gb & Pa & Pb & Haddr & Hdel).
  set (isn := cx_isn (ep_cx (n_a st0))).
  induction evs as [|ev rest IH]; intros pre st1 st Hpre Hinv Ho Hsc Hrun Hsm.
  - cbn [net_run] in Hrun. inversion Hrun; subst st. split; assumption.
  - cbn [net_run] in Hrun. apply obind_ok in Hrun. destruct Hrun as (st2 & Hs & Hrun).
    inversion Hsc as [|? ? Hsc1 Hsc2]; subst.
    pose proof (net_run_mono _ _ _ Hrun) as Hm2. pose proof (net_step_mono _ _ _ Hs) as Hm1.
    assert (Hsm2 : NV.small st2) by exact (NV.small_mono _ _ Hm2 Hsm).
    assert (Hsm1 : NV.small st1) by exact (NV.small_mono _ _ Hm1 Hsm2).
    destruct (hs_inv_closed _ _ _ Hinv) as (Hcl1 & Hbw1).
    pose proof (closed_step SA _ _ _ Hsc1 Hs Hcl1) as Hcl2.
    pose proof (bwr_step _ _ _ Hsc1 Hs Hbw1) as Hbw2.
    assert (Hpre2 : net_run st0 (pre ++ [ev]) = Ok st2).
    { apply (net_run_app pre [ev] st0 st1 st2 Hpre). cbn [net_run]. rewrite Hs. reflexivity. }
    pose proof (INVo_reach _ _ _ _ _ Ga Gb Hi Hpre Hsm1 Hcl1) as HI1.
    pose proof (INVo_reach _ _ _ _ _ Ga Gb Hi Hpre2 Hsm2 Hcl2) as HI2.
    assert (Hre1 : reach st1) by (exists ca, cb, st0, pre; auto).
    pose proof (reach_NI _ Hre1) as HN1.
    assert (Hinv2 : hs_inv isn Dack st2).
    { destruct Hinv as [HP | HG].
      - exact (hs_step isn Dack st1 ev st2 HN1 Ho (INVo_view _ _ HI1 Hbw1) HP Hsc1 Hs
                 (INVo_view _ _ HI2 Hbw2) (INVo_inv_at _ _ HI2)).
      - right. exact (reg_step SA Dack st1 ev st2 HN1 Ho HG (INVo_inv_at _ _ HI1) (INVo_inv_at _ _ HI2) Hsc1 Hs). }
    exact (IH (pre ++ [ev]) st2 st Hpre2 Hinv2 (opts_step _ _ _ Ho Hs) Hsc2 Hrun Hsm).
Qed.

(* ... so "reached from net_init, both ESTABLISHED" gives the regime invariant *)
Theorem reg_of_established Dack ca cb st0 pre st :
  start_ok Dack ca cb st0 -> Forall (script_ev SA) pre -> net_run st0 pre = Ok st -> NV.small st ->
  (forall z, s_state (net_sock st z) = Established) ->
  reg SA Dack st /\ opts_ok st /\ reach st.
Proof.
  intros Hstart Hsc Hrun Hsm Hest.
  pose proof Hstart as (Hi & Hst & Ga & Gb & Pa & Pb & Haddr & Hdel).
  destruct (hs_init ca cb st0 (cx_isn (ep_cx (n_a st0))) Dack Hi Hst Pa Pb Haddr Hdel) as (HP0 & Ho0).
  destruct (hs_run Dack ca cb st0 Hstart pre [] st0 st eq_refl (or_introl HP0) Ho0 Hsc Hrun Hsm) as (Hinv & Ho).
  split; [|split; [exact Ho | exists ca, cb, st0, pre; auto]].
  destruct Hinv as [HP | HG]; [|exact HG].
  exfalso. destruct (ph_phase _ _ _ HP) as [(X & _) | (_ & X)].
  - rewrite (Hest SA) in X. discriminate.
  - rewrite (Hest SB) in X. discriminate.
Qed.

(* ALL WRITTEN OCTETS ARE DELIVERED, from net_init: A connects to B and is the only writer, nobody
   closes.  After any prefix (losses, duplicates, reordering) that ends with both sockets ESTABLISHED,
   on every fair schedule along which the window stays open, every octet written is handed to B's
   application within the bound.  Premises: the two configurations, the applications, [win_open]. *)
Theorem oneway_delivery_from_net_init Dt Da Dack ca cb st0 : forall n m pre evs st st' L0,
  start_ok Dack ca cb st0 ->
  Forall (app_ev SA) pre -> net_run st0 pre = Ok st ->
  (forall z, s_state (net_sock st z) = Established) ->
  fair_schedule Dt Da st evs -> 0 <= Dack ->
  Forall (app_ev SA) evs -> net_run st evs = Ok st' ->
  (forall z, l_len (ep_written (net_get st' z)) < 2 ^ 30) ->
  run_all (win_open SA) st evs ->
  L0 <= l_len (ep_written (net_get st SA)) ->
  L0 - una_off (net_get st SA) <= Z.of_nat n ->
  L0 - read_off (net_get st SB) <= Z.of_nat m ->
  net_now st SA + Z.of_nat n * W3 Dt Dack + Z.of_nat m * Da < net_now st' SA ->
  exists p1 p2 st1, evs = p1 ++ p2 /\ net_run st p1 = Ok st1 /\ net_run st1 p2 = Ok st' /\
                    L0 <= read_off (net_get st1 SB).
Proof.
  intros n m pre evs st st' L0 Hstart Hpa Hpre Hest Hfs HDk Happ Hrun Hsz Hwo HL Hn Hm Hlate.
  assert (Hsm' : NV.small st').
  { split; [specialize (Hsz SA) | specialize (Hsz SB)]; cbn [net_get] in Hsz;
      change (2 ^ 30) with 1073741824 in Hsz; lia. }
  assert (Hsm : NV.small st) by exact (NV.small_mono _ _ (net_run_mono _ _ _ Hrun) Hsm').
  destruct (reg_of_established Dack ca cb st0 pre st Hstart Hpa Hpre Hsm Hest) as (HG & _ & Hre).
  exact (oneway_delivery_from_established SA Dt Da Dack n m evs st st' L0 Hre HG Hfs HDk Happ Hrun Hsz Hwo HL Hn Hm Hlate).
Qed.
