(* Lemmas about Model/Route.v: lookup returns the gateway of a longest-prefix route among the
   matching unexpired ones; the table never exceeds its capacity. *)
From SV Require Import Lib.Base Gen.Consts Model.Neighbor Model.Route.

Lemma route_max_In : forall l best, In (route_max best l) (best :: l).
Proof.
  induction l as [|x r IH]; simpl; intros best; [auto|].
  destruct (cidr_plen (rt_cidr x) >=? cidr_plen (rt_cidr best)).
  - destruct (IH x) as [A|A]; [right; left; auto | right; right; auto].
  - destruct (IH best) as [A|A]; [left; auto | right; right; auto].
Qed.

Lemma route_max_ge : forall l best y, In y (best :: l) ->
  cidr_plen (rt_cidr y) <= cidr_plen (rt_cidr (route_max best l)).
Proof.
  induction l as [|x r IH]; simpl; intros best y H.
  - destruct H as [H|[]]; subst; lia.
  - destruct (cidr_plen (rt_cidr x) >=? cidr_plen (rt_cidr best)) eqn:E.
    + destruct H as [H|[H|H]].
      * subst. pose proof (IH x x (or_introl eq_refl)). lia.
      * subst. apply IH; left; reflexivity.
      * apply IH; right; exact H.
    + destruct H as [H|[H|H]].
      * subst. apply IH; left; reflexivity.
      * subst. pose proof (IH best best (or_introl eq_refl)). lia.
      * apply IH; right; exact H.
Qed.

(* Routes::lookup = gateway of a matching, unexpired route such that no matching unexpired route
   has a strictly longer prefix *)
Lemma route_lookup_some : forall l a now g, route_lookup l a now = Some g ->
  exists r, In r l /\ rt_via r = g /\ route_live r a now = true /\
    forall r', In r' l -> route_live r' a now = true ->
               cidr_plen (rt_cidr r') <= cidr_plen (rt_cidr r).
Proof.
  intros l a now g H. unfold route_lookup in H.
  destruct (filter (fun r => route_live r a now) l) as [|x r] eqn:F; [discriminate|].
  inversion H; subst; clear H.
  pose proof (route_max_In r x) as HIn. rewrite <- F in HIn. apply filter_In in HIn.
  exists (route_max x r). split; [tauto|]. split; [reflexivity|]. split; [tauto|].
  intros r' Hr' Hl. apply route_max_ge. rewrite <- F. apply filter_In. auto.
Qed.

Lemma route_lookup_none : forall l a now, route_lookup l a now = None ->
  forall r, In r l -> route_live r a now = false.
Proof.
  intros l a now H r Hr. unfold route_lookup in H.
  destruct (filter (fun r => route_live r a now) l) as [|x t] eqn:F; [|discriminate].
  destruct (route_live r a now) eqn:E; [|reflexivity].
  assert (In r []) by (rewrite <- F; apply filter_In; auto). contradiction.
Qed.

(* an expired route is never used: expires_at < now *)
Lemma route_live_unexpired : forall r a now e, route_live r a now = true -> rt_expires r = Some e -> now <= e.
Proof.
  intros r a now e H E. unfold route_live, route_unexpired in H. rewrite E in H.
  apply andb_true_iff in H. destruct H as [H _]. apply negb_true_iff in H. lia.
Qed.

(* capacity *)
Lemma route_remove_first_length : forall p l, (length (route_remove_first p l) <= length l)%nat.
Proof. induction l; simpl; [lia|]. destruct (p a); simpl; lia. Qed.

Lemma route_push_bounded : forall rcap l r l' ok, Z.of_nat (length l) <= rcap ->
  route_push rcap l r = (l', ok) -> Z.of_nat (length l') <= rcap.
Proof.
  intros rcap l r l' ok H P. unfold route_push in P.
  destruct (Z.of_nat (length l) <? rcap) eqn:E; inversion P; subst; [|exact H].
  rewrite app_length; simpl. lia.
Qed.

Lemma route_add_default_ipv4_bounded : forall rcap l gw l' ok, Z.of_nat (length l) <= rcap ->
  route_add_default_ipv4_route rcap l gw = (l', ok) -> Z.of_nat (length l') <= rcap.
Proof.
  intros. eapply route_push_bounded; [|exact H0].
  pose proof (route_remove_first_length route_is_ipv4_gateway l).
  unfold route_remove_default_ipv4_route. lia.
Qed.

Lemma route_add_default_ipv6_bounded : forall rcap l gw l' ok, Z.of_nat (length l) <= rcap ->
  route_add_default_ipv6_route rcap l gw = (l', ok) -> Z.of_nat (length l') <= rcap.
Proof.
  intros. eapply route_push_bounded; [|exact H0].
  pose proof (route_remove_first_length route_is_ipv6_gateway l).
  unfold route_remove_default_ipv6_route. lia.
Qed.

(* what the CIDR test means: both addresses lie in the same aligned block of 2^(bits-p) addresses *)
Lemma cidr_contains_v4 : forall x p y, 0 <= p <= 32 ->
  cidr_contains (mkCidr (V4 x) p) (V4 y) = true <->
  exists b, b * 2 ^ (32 - p) <= x < (b + 1) * 2 ^ (32 - p) /\ b * 2 ^ (32 - p) <= y < (b + 1) * 2 ^ (32 - p).
Proof.
  intros x p y Hp. unfold cidr_contains; cbn [cidr_addr cidr_plen].
  assert (P : 0 < 2 ^ (32 - p)) by (apply Z.pow_pos_nonneg; lia).
  rewrite Z.eqb_eq. split.
  - intro E. exists (x / 2 ^ (32 - p)). split.
    + pose proof (Z.mul_div_le x _ P). pose proof (Z.mul_succ_div_gt x _ P). lia.
    + rewrite E. pose proof (Z.mul_div_le y _ P). pose proof (Z.mul_succ_div_gt y _ P). lia.
  - intros (b & [A1 A2] & [B1 B2]).
    assert (x / 2 ^ (32 - p) = b) by (symmetry; apply Z.div_unique with (r := x - b * 2 ^ (32 - p)); lia).
    assert (y / 2 ^ (32 - p) = b) by (symmetry; apply Z.div_unique with (r := y - b * 2 ^ (32 - p)); lia).
    congruence.
Qed.
