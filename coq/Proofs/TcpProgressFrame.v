(* C02 (liveness half), layer 1: socket-level frame facts the progress proofs need and that neither
   the receive view (C04: Proofs/TcpRecvProcess.v [frame]) nor the send core (C02: core_eq) covers:
   - [cfgf]: no event of a run (segment, dispatch, send, recv, close) changes the configured
     timeout, keep-alive interval or ACK delay; hence "no timeout, no keep-alive" ([opts_ok]) is
     an invariant of every run;
   - the delayed-ACK timer is written only by the payload phase (armed with now + ack_delay, or
     made immediate) and cleared by an emission / a reset: [delack_bounded] - a waiting delayed ACK
     is due at most ACK_DELAY after the last event - is an invariant.
   All statements are about Model/Tcp.v only. *)
From SV Require Import Lib.Base Gen.Consts.
From SV Require Import Model.Seq32 Model.Assembler Model.TcpBuf Model.TcpTypes Model.Tcp.
From SV Require Import Proofs.AssemblerProofs Proofs.TcpRecvBase Proofs.TcpRecvWindow
  Proofs.TcpRecvPayload Proofs.TcpRecvInv Proofs.TcpRecvProcess.

(* the events of a run of the system model: segment, dispatch, send, recv, close *)
Definition run_ev (ev : event) : Prop :=
  match ev with
  | EvSegment _ _ | EvDispatch _ | EvSend _ | EvRecv _ | EvClose => True
  | _ => False
  end.

(* configuration and delayed-ACK timer unchanged *)
Definition cfgf (s' s : socket) : Prop :=
  s_ack_delay s' = s_ack_delay s /\ s_timeout s' = s_timeout s /\ s_keep_alive s' = s_keep_alive s.
Definition auxf (s' s : socket) : Prop :=
  cfgf s' s /\ s_ack_delay_timer s' = s_ack_delay_timer s.

Lemma cfgf_refl s : cfgf s s.
Proof. repeat split. Qed.
Lemma cfgf_trans a b c : cfgf a b -> cfgf b c -> cfgf a c.
Proof. intros (A1 & A2 & A3) (B1 & B2 & B3). repeat split; congruence. Qed.
Lemma auxf_refl s : auxf s s.
Proof. split; [apply cfgf_refl | reflexivity]. Qed.
Lemma auxf_trans a b c : auxf a b -> auxf b c -> auxf a c.
Proof. intros (A1 & A2) (B1 & B2). split; [eapply cfgf_trans; eassumption | congruence]. Qed.
Lemma auxf_cfgf a b : auxf a b -> cfgf a b.
Proof. intros (H & _). exact H. Qed.

Ltac auxf_solve := unfold auxf, cfgf; rproj; repeat split; reflexivity.
Ltac cfgf_solve := unfold cfgf; rproj; repeat split; reflexivity.

(* ---------------------------------------------------------------------------------------- *)
(* process                                                                                   *)
(* ---------------------------------------------------------------------------------------- *)
Lemma ack_reply_auxf cx s ip r : auxf (fst (tcp_ack_reply cx s ip r)) s.
Proof. unfold tcp_ack_reply. destruct (tcp_reply ip r) as (ip', reply). cbn [fst]. auxf_solve. Qed.

Lemma challenge_auxf cx s ip r : auxf (fst (tcp_challenge_ack_reply cx s ip r)) s.
Proof.
  unfold tcp_challenge_ack_reply. destruct (cx_now cx <? s_challenge_ack_timer s); [apply auxf_refl|].
  destruct (tcp_ack_reply cx (upd_challenge_ack_timer s (cx_now cx + 1000000)) ip r) as (s1, p) eqn:E.
  cbn [fst]. change s1 with (fst (s1, p)). rewrite <- E.
  eapply auxf_trans; [apply ack_reply_auxf|]. auxf_solve.
Qed.

Lemma ack_check_ret_auxf cx s ip r t s1 rep :
  tcp_process_ack_check cx s ip r = Ok (Ret t s1 rep) -> auxf s1 s.
Proof.
  unfold tcp_process_ack_check. intros H. des_all H.
  all: try (apply obind_ok_inv in H; destruct H as (? & _ & H)).
  all: try (inversion H; subst; apply auxf_refl).
  all: match goal with
       | E : tcp_challenge_ack_reply ?cx ?s ?ip ?r = (_, _) |- _ =>
           inversion H; subst;
           pose proof (challenge_auxf cx s ip r) as Hc; rewrite E in Hc; exact Hc
       end.
Qed.

Lemma window_auxf cx s ip r res :
  tcp_process_window cx s ip r = Ok res ->
  match res with
  | Cont _ (s2, _, _) => auxf s2 s
  | Ret _ s1 _ => auxf s1 s
  end.
Proof.
  unfold tcp_process_window. intros H.
  assert (Hmain :
    (let '(in_window, tg) := tcp_segment_in_window (tcp_window_start s) (tcp_window_end s)
                               (r_seq_number r) (seq_add (r_seq_number r) (l_len (r_payload r))) in
      if in_window then
        let overlap_start := seq_max (tcp_window_start s) (r_seq_number r) in
        let overlap_end := seq_min (tcp_window_end s) (seq_add (r_seq_number r) (l_len (r_payload r))) in
        if negb (seq_le overlap_start overlap_end) then Panic else
        let s := upd_local_rx_last_seq s (Some (r_seq_number r)) in
        do a <- seq_sub overlap_start (r_seq_number r);
        do b <- seq_sub overlap_end (r_seq_number r);
        do payload <- slice_range (r_payload r) a b;
        do off <- seq_sub overlap_start (tcp_window_start s);
        Ok (Cont tg (s, payload, off))
      else if control_eqb (r_control r) CRst then Ok (Ret (tg + 1000) s None)
      else
        let s := if tcp_state_eqb (s_state s) TimeWait
                 then upd_timer s (timer_set_for_close (cx_now cx)) else s in
        if (match r_payload r with [] => false | _ => true end)
           && (match r_control r with CNone | CPsh | CFin => true | _ => false end)
        then let '(s', p) := tcp_ack_reply cx s ip r in Ok (Ret (tg + 2000) s' (Some p))
        else let '(s', p) := tcp_challenge_ack_reply cx s ip r in Ok (Ret (tg + 3000) s' p)) = Ok res ->
    match res with
    | Cont _ (s2, _, _) => auxf s2 s
    | Ret _ s1 _ => auxf s1 s
    end).
  { clear H. intros H. cbv zeta in H.
    destruct (tcp_segment_in_window _ _ _ _) as (inw, tg).
    destruct inw.
    - destruct (negb (seq_le _ _)); [discriminate|].
      repeat (apply obind_ok_inv in H; destruct H as (? & _ & H)).
      inversion H; subst res. auxf_solve.
    - destruct (control_eqb (r_control r) CRst); [inversion H; subst res; apply auxf_refl|].
      set (q := if tcp_state_eqb (s_state s) TimeWait
                then upd_timer s (timer_set_for_close (cx_now cx)) else s) in *.
      assert (Hq : auxf q s) by (unfold q; destruct (tcp_state_eqb (s_state s) TimeWait); auxf_solve).
      clearbody q.
      destruct ((match r_payload r with [] => false | _ => true end)
                && (match r_control r with CNone | CPsh | CFin => true | _ => false end)).
      + pose proof (ack_reply_auxf cx q ip r) as C. destruct (tcp_ack_reply cx q ip r) as (s', p).
        inversion H; subst res. eapply auxf_trans; eassumption.
      + pose proof (challenge_auxf cx q ip r) as C.
        destruct (tcp_challenge_ack_reply cx q ip r) as (s', p).
        inversion H; subst res. eapply auxf_trans; eassumption. }
  destruct (s_state s); try exact (Hmain H); inversion H; subst res; apply auxf_refl.
Qed.

Lemma apply_mss_auxf s r : auxf (tcp_apply_mss s r) s.
Proof.
  unfold tcp_apply_mss. destruct (r_max_seg_size r) as [m|]; [destruct (m =? 0)|]; auxf_solve.
Qed.

(* the transition table: the configuration is kept; the delayed-ACK timer is kept or cleared
   (RST in SYN-RECEIVED of a listener: reset()) *)
Definition auxr (s' s : socket) : Prop :=
  cfgf s' s /\ (s_ack_delay_timer s' = s_ack_delay_timer s \/
               (s_ack_delay_timer s' = ADIdle /\ (s_state s' = Listen \/ s_state s' = Closed))).

Lemma auxf_auxr a b : auxf a b -> auxr a b.
Proof. intros (H1 & H2). split; [exact H1 | left; exact H2]. Qed.
Lemma auxr_refl s : auxr s s.
Proof. apply auxf_auxr, auxf_refl. Qed.
Lemma auxr_auxf_trans a b c : auxr a b -> auxf b c -> auxr a c.
Proof.
  intros (A1 & A2) (B1 & B2). split; [eapply cfgf_trans; eassumption|].
  destruct A2 as [A2|A2]; [left; congruence | right; exact A2].
Qed.

Lemma reset_auxr s : auxr (tcp_reset s) s.
Proof. unfold tcp_reset, auxr, cfgf. rproj. split; [repeat split; reflexivity | right; split; [reflexivity | right; reflexivity]]. Qed.

Lemma relisten_auxr s ep : auxr (tcp_set_state (upd_listen_endpoint (tcp_reset s) ep) Listen) s.
Proof.
  pose proof (reset_auxr s) as H. revert H. generalize (tcp_reset s). intros q ((H1 & H2 & H3) & H4).
  unfold auxr, cfgf. rproj. split; [repeat split; assumption|].
  destruct H4 as [H4 | (H4 & _)]; [left; exact H4 | right; split; [exact H4 | left; reflexivity]].
Qed.

Lemma transition_auxr cx s ip r ctl al aof res :
  tcp_process_transition cx s ip r ctl al aof = Ok res ->
  match res with Cont _ s3 => auxf s3 s | Ret _ s3 _ => auxr s3 s end.
Proof.
  intros H. unfold tcp_process_transition in H.
  pose proof (challenge_auxf cx s ip r) as Hch.
  pose proof (apply_mss_auxf s r) as Hm.
  destruct (s_state s) eqn:Est; destruct ctl; cbv beta iota in H.
  (* the SYN arms of LISTEN and SYN-SENT go through apply_mss: abstract it first *)
  all: try (revert H Hm; generalize (tcp_apply_mss s r); intros q H Hm;
            match type of H with context [upd_tuple q] => idtac | context [upd_remote_seq_no q] => idtac end;
            repeat match type of H with context [if ?c then _ else _] => destruct c end;
            inversion H; subst res; (eapply auxf_trans; [|exact Hm]); auxf_solve).
  all: unfold tcp_enter_time_wait, tcp_fin_received in H.
  all: repeat match type of H with
              | context [if ?c then _ else _] => destruct c
              | (let '(_, _) := ?m in _) = _ => destruct m eqn:?
              end.
  all: try discriminate H.
  all: inversion H; subst res; clear H.
  all: try apply auxr_refl.
  all: try apply auxf_refl.
  all: try (apply relisten_auxr).
  all: try auxf_solve.
  all: try (apply auxf_auxr; auxf_solve).
  all: try (apply auxf_auxr; cbn [fst] in Hch; exact Hch).
Qed.

Lemma update_remote_auxf cx s r al s' iwu :
  tcp_process_update_remote cx s r al = Ok (s', iwu) -> auxf s' s.
Proof.
  unfold tcp_process_update_remote. intros H. des_all H.
  all: try (apply obind_ok_inv in H; destruct H as (tx & _ & H)).
  all: inversion H; subst; auxf_solve.
Qed.

Lemma dup_ack_auxf cx s r al iwu s' tg :
  tcp_process_dup_ack cx s r al iwu = Ok (s', tg) -> auxf s' s.
Proof.
  unfold tcp_process_dup_ack. intros H.
  destruct (r_ack_number r) as [a|]; [|inversion H; subst; apply auxf_refl].
  apply obind_ok_inv in H. destruct H as ((s1, tg1) & H1 & H).
  assert (Hf1 : auxf s1 s).
  { des1 H1.
    - repeat (apply obind_ok_inv in H1; destruct H1 as (? & _ & H1)).
      inversion H1; subst. des_all H1; auxf_solve.
    - repeat (apply obind_ok_inv in H1; destruct H1 as (? & _ & H1)).
      inversion H1; subst. des_all H1; auxf_solve. }
  cbv beta iota zeta in H.
  eapply auxf_trans; [|exact Hf1].
  des_all H; inversion H; subst; auxf_solve.
Qed.

Lemma timers_auxf cx s al aall : auxf (fst (tcp_process_timers cx s al aall)) s.
Proof.
  unfold tcp_process_timers. destruct (s_timer s); try destruct aall; try destruct (al >? 0);
    cbn [fst]; auxf_solve.
Qed.

Lemma zwp_auxf cx s al : auxf (fst (tcp_process_zwp cx s al)) s.
Proof.
  unfold tcp_process_zwp.
  repeat match goal with
  | |- context [if ?c then _ else _] => destruct c
  end; cbn [fst]; auxf_solve.
Qed.

Lemma tsval_auxf s r :
  auxf (match r_timestamp r with Some (tsval, _) => upd_last_remote_tsval s tsval | None => s end) s.
Proof. destruct (r_timestamp r) as [(a, b)|]; auxf_solve. Qed.

(* the payload phase: the only writer (armed with now + ack_delay, or immediate); an ACK reply
   does not touch the timer *)
Definition delack_step (now : Z) (s' s : socket) : Prop :=
  s_ack_delay_timer s' = s_ack_delay_timer s \/
  s_ack_delay_timer s' = ADImmediate \/
  (s_ack_delay_timer s = ADIdle /\ exists d, s_ack_delay s = Some d /\ s_ack_delay_timer s' = ADWaiting (now + d)).

Lemma payload_aux cx s ip r payload off s' rep tg :
  tcp_process_payload cx s ip r payload off = Ok (s', rep, tg) ->
  cfgf s' s /\ delack_step (cx_now cx) s' s.
Proof.
  intros H. unfold tcp_process_payload in H.
  destruct (l_len payload =? 0); [inversion H; subst; split; [apply cfgf_refl | left; reflexivity]|].
  destruct (asm_atrf _ _ _ _) as (asm', res).
  destruct res as [contig|]; [|inversion H; subst; split; [apply cfgf_refl | left; reflexivity]].
  destruct (rb_write_unallocated _ _ _) as (rx, lw).
  destruct (negb (lw =? l_len payload)); [discriminate|].
  apply obind_ok_inv in H. destruct H as (rx2 & _ & H).
  set (q := upd_rx_buffer (upd_assembler s asm') rx2) in *.
  assert (Cq : auxf q s) by (unfold q; auxf_solve).
  assert (Eq : s_ack_delay q = s_ack_delay s) by (unfold q; rproj; reflexivity).
  clearbody q.
  match type of H with (let '(_, _) := ?m in _) = _ =>
    assert (Cm : cfgf (fst m) q /\ delack_step (cx_now cx) (fst m) q); [|destruct m as (q1, t1)] end.
  { destruct (s_ack_delay q) as [d|] eqn:Ed; [|split; [apply cfgf_refl | left; reflexivity]].
    destruct (tcp_ack_to_transmit q); [|split; [apply cfgf_refl | left; reflexivity]].
    destruct (s_ack_delay_timer q) eqn:Et; cbn [fst].
    - split; [cfgf_solve|]. right; right. split; [exact Et|]. exists d. split; [exact Ed | rproj; reflexivity].
    - destruct (tcp_immediate_ack_to_transmit q); cbn [fst].
      + split; [cfgf_solve|]. right; left. rproj. reflexivity.
      + split; [apply cfgf_refl | left; reflexivity].
    - split; [apply cfgf_refl | left; reflexivity]. }
  cbn [fst] in Cm. destruct Cm as (Cm1 & Cm2).
  assert (Hq1 : cfgf q1 s /\ delack_step (cx_now cx) q1 s).
  { split; [eapply cfgf_trans; [exact Cm1 | apply auxf_cfgf; exact Cq]|].
    destruct Cq as (_ & Ct). unfold delack_step in *. rewrite <- Ct, <- Eq. exact Cm2. }
  destruct Hq1 as (Hc1 & Hd1).
  destruct (negb (asm_is_empty (s_assembler q1)) || negb (asm_is_empty (s_assembler s))).
  - pose proof (ack_reply_auxf cx q1 ip r) as Ca. destruct (tcp_ack_reply cx q1 ip r) as (q2, p).
    inversion H; subst s' rep tg. cbn [fst] in Ca. destruct Ca as (Ca1 & Ca2).
    split; [eapply cfgf_trans; eassumption|]. unfold delack_step in *. rewrite Ca2. exact Hd1.
  - inversion H; subst s' rep tg. split; assumption.
Qed.

(* process as a whole *)
Lemma process_aux cx s ip r s' rep tags :
  tcp_process cx s ip r = Ok (s', rep, tags) ->
  cfgf s' s /\ (delack_step (cx_now cx) s' s \/
               (s_ack_delay_timer s' = ADIdle /\ (s_state s' = Listen \/ s_state s' = Closed))).
Proof.
  intros H. unfold tcp_process in H.
  destruct (negb (tcp_accepts s ip r)); [discriminate|].
  apply obind_ok_inv in H. destruct H as (p1 & H1 & H).
  destruct p1 as [t1 []|t1 s1 rep1].
  2:{ inversion H; subst. destruct (ack_check_ret_auxf _ _ _ _ _ _ _ H1) as (C & T).
      split; [exact C | left; left; exact T]. }
  apply obind_ok_inv in H. destruct H as (p2 & H2 & H).
  pose proof (window_auxf _ _ _ _ _ H2) as P2.
  destruct p2 as [t2 ((s2, payload), off)|t2 s2r rep2].
  2:{ inversion H; subst. destruct P2 as (C & T). split; [exact C | left; left; exact T]. }
  apply obind_ok_inv in H. destruct H as (((al & aof) & aall) & _ & H).
  apply obind_ok_inv in H. destruct H as (p3 & H3 & H).
  pose proof (transition_auxr _ _ _ _ _ _ _ _ H3) as P3.
  destruct p3 as [t3 s3|t3 s3r rep3].
  2:{ inversion H; subst. destruct (auxr_auxf_trans _ _ _ P3 P2) as (C & [T|T]).
      - split; [exact C | left; left; exact T].
      - split; [exact C | right; exact T]. }
  apply obind_ok_inv in H. destruct H as ((s4 & wu) & H4 & H).
  pose proof (update_remote_auxf _ _ _ _ _ _ H4) as P4.
  apply obind_ok_inv in H. destruct H as ((s5 & t5) & H5 & H).
  pose proof (dup_ack_auxf _ _ _ _ _ _ _ H5) as P5.
  pose proof (tsval_auxf s5 r) as P5'.
  set (q5 := match r_timestamp r with
             | Some (tsval, _) => upd_last_remote_tsval s5 tsval
             | None => s5
             end) in *. clearbody q5.
  pose proof (timers_auxf cx q5 al aall) as P6.
  destruct (tcp_process_timers cx q5 al aall) as (s6, t6). cbn [fst] in P6.
  pose proof (zwp_auxf cx s6 al) as P7.
  destruct (tcp_process_zwp cx s6 al) as (s7, t7). cbn [fst] in P7.
  apply obind_ok_inv in H. destruct H as (((s8 & rep8) & t8) & H8 & H).
  destruct (payload_aux _ _ _ _ _ _ _ _ _ H8) as (C8 & D8).
  inversion H; subst s' rep tags.
  assert (A7 : auxf s7 s).
  { eapply auxf_trans; [exact P7|]. eapply auxf_trans; [exact P6|]. eapply auxf_trans; [exact P5'|].
    eapply auxf_trans; [exact P5|]. eapply auxf_trans; [exact P4|]. eapply auxf_trans; [exact P3 | exact P2]. }
  destruct A7 as (C7 & T7).
  split; [eapply cfgf_trans; eassumption|]. left.
  unfold delack_step in *. destruct C7 as (C71 & _). rewrite <- T7, <- C71. exact D8.
Qed.

Lemma ingress_aux cx s ip r s' rep tags :
  iface_tcp_ingress cx s ip r = Ok (s', rep, tags) ->
  cfgf s' s /\ (delack_step (cx_now cx) s' s \/
               (s_ack_delay_timer s' = ADIdle /\ (s_state s' = Listen \/ s_state s' = Closed))).
Proof.
  unfold iface_tcp_ingress. intros H.
  assert (Hid : cfgf s s /\ (delack_step (cx_now cx) s s \/
                             (s_ack_delay_timer s = ADIdle /\ (s_state s = Listen \/ s_state s = Closed))))
    by (split; [apply cfgf_refl | left; left; reflexivity]).
  destruct ((ip_src ip =? 0) || (ip_dst ip =? 0)); [inversion H; subst; exact Hid|].
  destruct ((r_src_port r =? 0) || (r_dst_port r =? 0)); [inversion H; subst; exact Hid|].
  destruct (tcp_accepts s ip r); [apply (process_aux _ _ _ _ _ _ _ H)|].
  destruct (control_eqb (r_control r) CRst); [inversion H; subst; exact Hid|].
  apply obind_ok_inv in H. destruct H as (p & _ & H). inversion H; subst. exact Hid.
Qed.

(* ---------------------------------------------------------------------------------------- *)
(* dispatch                                                                                  *)
(* ---------------------------------------------------------------------------------------- *)
Lemma dispatch_timers_auxf cx s s1 t : tcp_dispatch_timers cx s = Ok (s1, t) -> auxf s1 s.
Proof.
  unfold tcp_dispatch_timers. intros H.
  set (s0 := if is_some (s_remote_last_ts s) then s else upd_remote_last_ts s (Some (cx_now cx))) in *.
  assert (H0 : auxf s0 s) by (unfold s0; destruct (is_some (s_remote_last_ts s)); auxf_solve).
  apply (auxf_trans _ s0); [|exact H0]. clear H0. clearbody s0.
  destruct (tcp_timed_out s0 (cx_now cx)); [inversion H; subst; auxf_solve|].
  destruct (timer_should_retransmit (s_timer s0) (cx_now cx)); [|inversion H; subst; auxf_solve].
  apply obind_ok_inv in H. destruct H as (fl & _ & H).
  destruct (s_timer s0); cbv beta iota zeta in H; rproj; des_all H; inversion H; subst; auxf_solve.
Qed.

Lemma dispatch_decide_auxf cx s s2 go t : tcp_dispatch_decide cx s = Ok (s2, go, t) -> auxf s2 s.
Proof.
  unfold tcp_dispatch_decide. intros H.
  apply obind_ok_inv in H. destruct H as (stt & _ & H).
  destruct stt; [inversion H; subst; auxf_solve|].
  destruct (tcp_ack_to_transmit s && tcp_delayed_ack_expired s (cx_now cx)); [inversion H; subst; auxf_solve|].
  apply obind_ok_inv in H. destruct H as (wtu & _ & H).
  des_all H; inversion H; subst; auxf_solve.
Qed.

Lemma build_data_auxf cx s repr s' orepr zwp tg :
  tcp_dispatch_build_data cx s repr = Ok (s', orepr, zwp, tg) -> auxf s' s.
Proof.
  unfold tcp_dispatch_build_data. intros H.
  apply obind_ok_inv in H. destruct H as (ol & _ & H).
  apply obind_ok_inv in H. destruct H as (lm & _ & H).
  apply obind_ok_inv in H. destruct H as (((((s1 & r1) & off) & zw) & tg1) & H1 & H).
  assert (Hr1 : auxf s1 s).
  { des1 H1.
    - inversion H1; subst. auxf_solve.
    - repeat (apply obind_ok_inv in H1; destruct H1 as (? & _ & H1)). inversion H1; subst. apply auxf_refl. }
  cbv beta iota zeta in H. inversion H; subst. exact Hr1.
Qed.

Lemma dispatch_build_auxf cx s t s' orepr zwp ka tg :
  tcp_dispatch_build cx s t = Ok (s', orepr, zwp, ka, tg) -> auxf s' s.
Proof.
  unfold tcp_dispatch_build. intros H.
  apply obind_ok_inv in H. destruct H as ((((s1 & or1) & zw1) & tg1) & H1 & H).
  assert (Hb : auxf s1 s).
  { destruct (s_state s); try (inversion H1; subst; apply auxf_refl);
      try (apply build_data_auxf in H1; exact H1).
    destruct (s_syn_unacked_in_fin_wait s); [inversion H1; subst; apply auxf_refl|].
    apply build_data_auxf in H1; exact H1. }
  destruct or1 as [repr|]; [|inversion H; subst; exact Hb].
  apply obind_ok_inv in H. destruct H as (repr' & _ & H). inversion H; subst. exact Hb.
Qed.

Lemma dispatch_finish_aux cx s repr zwp ka :
  cfgf (fst (tcp_dispatch_finish cx s repr zwp ka)) s /\
  s_ack_delay_timer (fst (tcp_dispatch_finish cx s repr zwp ka)) = ADIdle.
Proof.
  unfold tcp_dispatch_finish.
  destruct zwp; [cbn [fst]; split; [cfgf_solve | rproj; reflexivity]|].
  destruct ka; [cbn [fst]; split; [cfgf_solve | rproj; reflexivity]|].
  repeat match goal with
  | |- context [if ?c then _ else _] => destruct c
  | |- context [let '(_, _) := ?x in _] => destruct x
  end; cbn [fst]; (split; [cfgf_solve | rproj; reflexivity]).
Qed.

Lemma dispatch_aux cx s ok s' res tags :
  tcp_dispatch cx s ok = Ok (s', res, tags) ->
  cfgf s' s /\ (s_ack_delay_timer s' = s_ack_delay_timer s \/ s_ack_delay_timer s' = ADIdle).
Proof.
  unfold tcp_dispatch. intros H.
  destruct (s_tuple s) as [t|]; [|inversion H; subst; split; [apply cfgf_refl | left; reflexivity]].
  destruct (negb (tu_local_addr t =? cx_addr cx)).
  { inversion H; subst. destruct (reset_auxr s) as (C & [T | (T & _)]); (split; [exact C|]); [left | right]; exact T. }
  apply obind_ok_inv in H. destruct H as ((s1 & t1) & H1 & H).
  pose proof (dispatch_timers_auxf _ _ _ _ H1) as P1.
  apply obind_ok_inv in H. destruct H as (((s2 & go) & t2) & H2 & H).
  pose proof (dispatch_decide_auxf _ _ _ _ _ H2) as P2.
  pose proof (auxf_trans _ _ _ P2 P1) as P12.
  destruct (negb go); [inversion H; subst; destruct P12 as (C & T); split; [exact C | left; exact T]|].
  apply obind_ok_inv in H. destruct H as (((((s3 & orepr) & zwp) & ka) & t3) & H3 & H).
  pose proof (auxf_trans _ _ _ (dispatch_build_auxf _ _ _ _ _ _ _ _ H3) P12) as (C3 & T3).
  destruct orepr as [repr|]; [|inversion H; subst; split; [exact C3 | left; exact T3]].
  destruct (negb ok); [inversion H; subst; split; [exact C3 | left; exact T3]|].
  pose proof (dispatch_finish_aux cx s3 repr zwp ka) as (F1 & F2).
  destruct (tcp_dispatch_finish cx s3 repr zwp ka) as (s4, t4). cbn [fst] in F1, F2.
  inversion H; subst. split; [eapply cfgf_trans; eassumption | right; exact F2].
Qed.

(* a dispatch that transmits nothing (and does not reset the socket) leaves the timer alone *)
Lemma dispatch_nothing_timer cx s ok s' tags t :
  s_tuple s = Some t -> tu_local_addr t = cx_addr cx ->
  tcp_dispatch cx s ok = Ok (s', DNothing, tags) -> s_ack_delay_timer s' = s_ack_delay_timer s.
Proof.
  unfold tcp_dispatch. intros Ht Ha H. rewrite Ht, Ha, Z.eqb_refl in H. cbn [negb] in H.
  apply obind_ok_inv in H. destruct H as ((s1 & t1) & H1 & H).
  pose proof (dispatch_timers_auxf _ _ _ _ H1) as P1.
  apply obind_ok_inv in H. destruct H as (((s2 & go) & t2) & H2 & H).
  pose proof (dispatch_decide_auxf _ _ _ _ _ H2) as P2.
  pose proof (auxf_trans _ _ _ P2 P1) as P12.
  destruct (negb go); [inversion H; subst; apply P12|].
  apply obind_ok_inv in H. destruct H as (((((s3 & orepr) & zwp) & ka) & t3) & H3 & H).
  pose proof (auxf_trans _ _ _ (dispatch_build_auxf _ _ _ _ _ _ _ _ H3) P12) as (C3 & T3).
  destruct orepr as [repr|]; [|inversion H; subst; exact T3].
  destruct (negb ok); [inversion H|].
  destruct (tcp_dispatch_finish cx s3 repr zwp ka) as (s4, t4). inversion H.
Qed.

(* ---------------------------------------------------------------------------------------- *)
(* every event of a run                                                                      *)
(* ---------------------------------------------------------------------------------------- *)
Lemma send_slice_auxf s data s' n : tcp_send_slice s data = Ok (s', n) -> auxf s' s.
Proof.
  unfold tcp_send_slice. intros H. destruct (negb (tcp_may_send s)); [discriminate|].
  destruct (rb_enqueue_slice (s_tx_buffer s) data) as (tx, size).
  des_all H; inversion H; subst; auxf_solve.
Qed.

Lemma recv_slice_auxf s n s' b : tcp_recv_slice s n = Ok (s', b) -> auxf s' s.
Proof.
  unfold tcp_recv_slice. intros H. apply obind_ok_inv in H. destruct H as (u & _ & H).
  destruct (rb_dequeue_slice (s_rx_buffer s) n) as (rx, bytes). inversion H; subst. auxf_solve.
Qed.

Lemma close_auxf s : auxf (tcp_close s) s.
Proof. unfold tcp_close. destruct (s_state s); auxf_solve. Qed.

Theorem step_aux cx s ev s' out tags :
  run_ev ev -> tcp_step cx s ev = Ok (s', out, tags) ->
  cfgf s' s /\ (delack_step (cx_now cx) s' s \/ s_ack_delay_timer s' = ADIdle).
Proof.
  intros Hev H. destruct ev; try contradiction; cbn [tcp_step] in H.
  - inversion H; subst. destruct (close_auxf s) as (C & T). split; [exact C | left; left; exact T].
  - destruct (tcp_send_slice s data) as [(s1, n)|e|] eqn:E; [| |discriminate]; inversion H; subst.
    + destruct (send_slice_auxf _ _ _ _ E) as (C & T). split; [exact C | left; left; exact T].
    + split; [apply cfgf_refl | left; left; reflexivity].
  - destruct (tcp_recv_slice s n) as [(s1, b)|e|] eqn:E; [| |discriminate]; inversion H; subst.
    + destruct (recv_slice_auxf _ _ _ _ E) as (C & T). split; [exact C | left; left; exact T].
    + split; [apply cfgf_refl | left; left; reflexivity].
  - apply obind_ok_inv in H. destruct H as (((s1 & rep) & tg) & Hi & H). inversion H; subst.
    destruct (ingress_aux _ _ _ _ _ _ _ Hi) as (C & [T | (T & _)]); (split; [exact C|]); [left | right]; exact T.
  - apply obind_ok_inv in H. destruct H as (((s1 & res) & tg) & Hd & H). inversion H; subst.
    destruct (dispatch_aux _ _ _ _ _ _ Hd) as (C & [T|T]); (split; [exact C|]); [left; left; exact T | right; exact T].
Qed.

(* a waiting delayed ACK is due at most ack_delay after the last event *)
Definition delack_bounded (now : Z) (s : socket) : Prop :=
  match s_ack_delay_timer s with
  | ADWaiting t => exists d, s_ack_delay s = Some d /\ t <= now + d
  | _ => True
  end.

Lemma delack_bounded_mono now now' s : now <= now' -> delack_bounded now s -> delack_bounded now' s.
Proof.
  intros Hle H. unfold delack_bounded in *. destruct (s_ack_delay_timer s); try exact I.
  destruct H as (d & Hd & Ht). exists d. split; [exact Hd | lia].
Qed.

Theorem step_delack cx s ev s' out tags :
  run_ev ev -> tcp_step cx s ev = Ok (s', out, tags) ->
  delack_bounded (cx_now cx) s -> delack_bounded (cx_now cx) s'.
Proof.
  intros Hev H B. destruct (step_aux _ _ _ _ _ _ Hev H) as ((C1 & _) & [D | D]).
  - unfold delack_bounded in *. destruct D as [D | [D | (_ & d & Hd & D)]].
    + rewrite D, C1. exact B.
    + rewrite D. exact I.
    + rewrite D, C1. exists d. split; [exact Hd | lia].
  - unfold delack_bounded. rewrite D. exact I.
Qed.
