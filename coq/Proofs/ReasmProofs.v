(* Lemmas about Model/Reasm.v (property C12, receiver side), on top of the C15 lemmas. *)
From SV Require Import Lib.Base Gen.Consts Model.Assembler Proofs.AssemblerProofs Model.Frag4 Proofs.Frag4Proofs Model.Reasm.

(* ---------- bytes of buffers ---------- *)

Lemma nth_firstn_lt {A} (l : list A) d : forall n i, (i < n)%nat -> nth i (firstn n l) d = nth i l d.
Proof.
  induction l as [|a l IH]; intros n i Hi; [rewrite firstn_nil; reflexivity|].
  destruct n; [lia|]. destruct i; [reflexivity|]. cbn. apply IH. lia.
Qed.

Lemma nth_skipn' {A} (l : list A) d : forall n i, nth i (skipn n l) d = nth (n + i) l d.
Proof.
  induction l as [|a l IH]; intros n i; [rewrite skipn_nil; destruct i, n; reflexivity|].
  destruct n; [reflexivity|]. cbn. apply IH.
Qed.

Definition byte_at (l : list Z) (x : Z) : Z := nth (Z.to_nat x) l 0.

Lemma byte_at_grow buf size x : 0 <= x < zlen buf -> byte_at (pa_grow buf size) x = byte_at buf x.
Proof.
  intros Hx. unfold pa_grow, byte_at. destruct (zlen buf <? size); [|reflexivity].
  apply app_nth1. unfold zlen in Hx. lia.
Qed.

Lemma zlen_grow buf size : zlen (pa_grow buf size) = Z.max (zlen buf) size.
Proof.
  unfold pa_grow. destruct (zlen buf <? size) eqn:H; [|lia].
  rewrite zlen_app. unfold zlen at 2. rewrite repeat_length. lia.
Qed.

Lemma byte_at_write buf off data x :
  0 <= off -> off + zlen data <= zlen buf -> 0 <= x ->
  byte_at (f4_write buf off data) x =
  if (off <=? x) && (x <? off + zlen data) then byte_at data (x - off) else byte_at buf x.
Proof.
  intros Ho Hfit Hx. unfold f4_write, byte_at, zlen in *.
  assert (Hl : length (firstn (Z.to_nat off) buf) = Z.to_nat off) by (rewrite firstn_length; lia).
  destruct ((off <=? x) && (x <? off + Z.of_nat (length data))) eqn:Hin.
  - rewrite app_nth2 by lia. rewrite Hl. rewrite app_nth1 by lia. f_equal. lia.
  - destruct (Z_lt_ge_dec x off) as [Hlt | Hge].
    + rewrite app_nth1 by lia. apply nth_firstn_lt. lia.
    + rewrite app_nth2 by lia. rewrite Hl. rewrite app_nth2 by lia.
      rewrite nth_skipn'. f_equal. lia.
Qed.

(* ---------- fragments of one datagram ---------- *)

(* [f] carries a piece of the datagram payload [P]: its bytes are the bytes of [P] at its offset
   (so overlapping and duplicate pieces agree), and a fragment with MF clear ends where [P] ends *)
Definition piece (P : list Z) (f : frag_in) : Prop :=
  0 <= fi_offset f /\ fi_offset f + zlen (fi_payload f) <= zlen P /\
  fi_payload f = f4_slice P (fi_offset f) (zlen (fi_payload f)) /\
  (fi_mf f = false -> fi_offset f + zlen (fi_payload f) = zlen P).

Lemma piece_byte P f x :
  piece P f -> fi_offset f <= x < fi_offset f + zlen (fi_payload f) ->
  byte_at (fi_payload f) (x - fi_offset f) = byte_at P x.
Proof.
  intros (Ho & Hfit & Hd & _) Hx. rewrite Hd at 1. unfold f4_slice, byte_at.
  rewrite nth_firstn_lt by (unfold zlen in *; lia). rewrite nth_skipn'. f_equal. lia.
Qed.

(* what a slot claimed for the datagram [P] may contain: every tracked byte position lies inside
   [P] and inside the buffer and holds [P]'s byte; the total size, if known, is [P]'s *)
Definition slot_ok (P : list Z) (p : pasm) : Prop :=
  asm_wf (pa_asm p) /\
  (forall x, amem 0 (pa_asm p) x ->
     x < zlen P /\ x < zlen (pa_buffer p) /\ byte_at (pa_buffer p) x = byte_at P x) /\
  (pa_total p = None \/ pa_total p = Some (zlen P)).

Lemma slot_ok_fresh P key buf exp : slot_ok P (mkPa key buf [] None exp).
Proof. split; [exact I|]. split; [intros x []|]. left. reflexivity. Qed.

Lemma set_total_ok P p size p1 :
  slot_ok P p -> size = zlen P -> pa_set_total_size p size = Some p1 ->
  slot_ok P p1 /\ pa_key p1 = pa_key p /\ pa_asm p1 = pa_asm p /\ pa_total p1 = Some (zlen P) /\
  pa_expires p1 = pa_expires p.
Proof.
  intros (Hwf & Hb & Ht) -> Hs.
  assert (Hp1 : p1 = mkPa (pa_key p) (pa_grow (pa_buffer p) (zlen P)) (pa_asm p) (Some (zlen P)) (pa_expires p)).
  { unfold pa_set_total_size in Hs. destruct (pa_total p) as [old|].
    - destruct (negb (old =? zlen P)); [discriminate|]. inversion Hs; reflexivity.
    - inversion Hs; reflexivity. }
  subst p1. cbn [pa_key pa_asm pa_total pa_expires]. repeat split; try reflexivity; cbn [pa_asm pa_buffer pa_total].
  - exact Hwf.
  - apply (Hb x H).
  - rewrite zlen_grow. pose proof (Hb x H). lia.
  - pose proof (Hb x H) as (H1 & H2 & H3). rewrite byte_at_grow; [exact H3|].
    pose proof (amem_lower 0 _ x Hwf H). lia.
  - right. reflexivity.
Qed.

Lemma set_total_some P p :
  slot_ok P p -> exists p1, pa_set_total_size p (zlen P) = Some p1.
Proof.
  intros (_ & _ & [Ht | Ht]); unfold pa_set_total_size; rewrite Ht; [eexists; reflexivity|].
  rewrite Z.eqb_refl. cbn [negb]. eexists; reflexivity.
Qed.

Lemma add_ok P n p f :
  slot_ok P p -> piece P f ->
  let p2 := pa_add n p (fi_payload f) (fi_offset f) in
  slot_ok P p2 /\ pa_key p2 = pa_key p /\ pa_total p2 = pa_total p /\ pa_expires p2 = pa_expires p /\
  pa_asm p2 = fst (asm_add n (pa_asm p) (fi_offset f) (zlen (fi_payload f))).
Proof.
  intros (Hwf & Hb & Ht) Hpc. pose proof Hpc as (Ho & Hfit & Hd & Hmf). cbv zeta.
  unfold pa_add. cbn [pa_key pa_total pa_expires pa_asm pa_buffer].
  split; [|repeat split; reflexivity].
  set (off := fi_offset f) in *. set (data := fi_payload f) in *.
  pose proof (zlen_nonneg data) as Hdl.
  assert (Hg : off + zlen data <= zlen (pa_grow (pa_buffer p) (off + zlen data))) by (rewrite zlen_grow; lia).
  unfold slot_ok. cbn [pa_asm pa_buffer pa_total].
  (* the tracked set afterwards: unchanged, or the union *)
  assert (Hasm : asm_wf (fst (asm_add n (pa_asm p) off (zlen data))) /\
                 forall x, amem 0 (fst (asm_add n (pa_asm p) off (zlen data))) x ->
                           amem 0 (pa_asm p) x \/ off <= x < off + zlen data).
  { destruct (asm_add n (pa_asm p) off (zlen data)) as (l', ok) eqn:Hadd. cbn [fst]. destruct ok.
    - destruct (add_ok_spec n _ off (zlen data) l' Hwf Ho Hdl Hadd) as (-> & _).
      destruct (add_unb_spec (pa_asm p) off (zlen data) Hwf Ho Hdl) as (Hw' & Hm).
      split; [exact Hw'|]. intros x Hx. apply Hm in Hx. replace (0 + off) with off in Hx by lia. exact Hx.
    - unfold asm_add in Hadd. destruct (zlen data =? 0); [discriminate|].
      destruct (asm_add_go _ _ _ _); [discriminate|]. inversion Hadd; subst.
      split; [exact Hwf|]. intros x Hx. left. exact Hx. }
  destruct Hasm as (Hwf' & Hmem).
  split; [exact Hwf'|]. split; [|exact Ht].
  intros x Hx. pose proof (amem_lower 0 _ x Hwf' Hx) as Hx0.
  rewrite write_length by lia. rewrite zlen_grow.
  rewrite byte_at_write by lia.
  destruct ((off <=? x) && (x <? off + zlen data)) eqn:Hin.
  - assert (Hr : off <= x < off + zlen data) by lia.
    split; [lia|]. split; [lia|]. apply (piece_byte P f x Hpc Hr).
  - destruct (Hmem x Hx) as [Hold | Hnew]; [|lia].
    destruct (Hb x Hold) as (H1 & H2 & H3). split; [exact H1|]. split; [lia|].
    rewrite byte_at_grow by lia. exact H3.
Qed.

(* assemble on a slot of [P]: nothing, or exactly [P] *)
Lemma assemble_ok P p :
  slot_ok P p ->
  (pa_assemble p = (p, None) /\ pa_is_complete p = false) \/
  (pa_assemble p = (pa_reset p, Some P) /\ pa_is_complete p = true).
Proof.
  intros (Hwf & Hb & Ht). unfold pa_assemble. destruct (pa_is_complete p) eqn:Hc; [|left; split; reflexivity].
  right. split; [|reflexivity]. unfold pa_is_complete in Hc.
  destruct (pa_total p) as [t|] eqn:Htot; [|discriminate].
  destruct Ht as [Ht | Ht]; [discriminate|]. inversion Ht; subst t. clear Ht.
  f_equal. f_equal.
  assert (Hpk : asm_peek_front (pa_asm p) = zlen P) by lia. clear Hc.
  destruct (Z.eq_dec (zlen P) 0) as [Hz | Hnz].
  - rewrite Hz. cbn. unfold zlen in Hz. destruct P; [reflexivity | cbn in Hz; lia].
  - (* the front contig covers [0, |P|) *)
    assert (Hcov : forall x, 0 <= x < zlen P -> amem 0 (pa_asm p) x).
    { intros x Hx. unfold asm_peek_front in Hpk. destruct (pa_asm p) as [|c r]; [pose proof (zlen_nonneg P); lia|].
      destruct (c_hole c =? 0) eqn:Hh; [|pose proof (zlen_nonneg P); lia].
      cbn [amem]. left. unfold c_total. lia. }
    pose proof (zlen_nonneg P) as HP0.
    assert (Hlen : zlen P <= zlen (pa_buffer p)).
    { destruct (Hb (zlen P - 1) (Hcov (zlen P - 1) ltac:(lia))) as (_ & H & _). lia. }
    apply (nth_ext _ _ 0 0).
    + rewrite firstn_length. unfold zlen in *. lia.
    + intros i Hi. rewrite firstn_length in Hi.
      rewrite nth_firstn_lt by lia.
      destruct (Hb (Z.of_nat i) (Hcov (Z.of_nat i) ltac:(unfold zlen in *; lia))) as (_ & _ & H).
      unfold byte_at in H. rewrite Nat2Z.id in H. exact H.
Qed.

Lemma reset_fresh p : pa_key (pa_reset p) = None /\ pa_asm (pa_reset p) = [] /\ pa_total (pa_reset p) = None.
Proof. repeat split. Qed.

(* ---------- the slot set ---------- *)

Lemma fkey_eqb_eq a b : fkey_eqb a b = true <-> a = b.
Proof.
  destruct a as (((a1, a2), a3), a4), b as (((b1, b2), b3), b4). unfold fkey_eqb.
  rewrite !andb_true_iff, !Z.eqb_eq. split.
  - intros (((-> & ->) & ->) & ->). reflexivity.
  - intros H; inversion H; subst. repeat split.
Qed.

Lemma has_key_iff k p : pa_has_key k p = true <-> pa_key p = Some k.
Proof.
  unfold pa_has_key. destruct (pa_key p) as [k'|]; [|split; discriminate].
  rewrite fkey_eqb_eq. split; [intros ->; reflexivity | intros H; inversion H; reflexivity].
Qed.

Lemma is_free_iff p : pa_is_free p = true <-> pa_key p = None.
Proof. unfold pa_is_free. destruct (pa_key p); split; congruence. Qed.

(* per-slot invariant relative to the datagram [P] sent under key [k]: free slots are fresh, a
   slot claimed for [k] is consistent with [P] *)
Definition slot_inv (k : fkey) (P : list Z) (p : pasm) : Prop :=
  (pa_key p = None -> pa_asm p = [] /\ pa_total p = None) /\
  (pa_key p = Some k -> slot_ok P p).

Definition set_ok (k : fkey) (P : list Z) (s : paset) : Prop := Forall (slot_inv k P) s.

Lemma update_length : forall s i p, length (pas_update s i p) = length s.
Proof. induction s as [|q s IH]; intros [|i] p; cbn; try reflexivity; rewrite IH; reflexivity. Qed.

Lemma update_nth : forall s i p d, (i < length s)%nat -> nth i (pas_update s i p) d = p.
Proof.
  induction s as [|q s IH]; intros [|i] p d Hi; cbn in *; try lia; [reflexivity|]. apply IH. lia.
Qed.

Lemma update_nth_other : forall s i j p d, i <> j -> nth j (pas_update s i p) d = nth j s d.
Proof.
  induction s as [|q s IH]; intros [|i] [|j] p d Hij; cbn; try reflexivity; try congruence.
  apply IH. congruence.
Qed.

Lemma update_Forall (Q : pasm -> Prop) : forall s i p, Forall Q s -> Q p -> Forall Q (pas_update s i p).
Proof.
  induction s as [|q s IH]; intros [|i] p Hs Hp; cbn; try constructor; inversion Hs; subst; auto.
Qed.

Lemma Forall_nth_pa (Q : pasm -> Prop) s i : Forall Q s -> (i < length s)%nat -> Q (nth i s pa_new).
Proof. intros H Hi. rewrite Forall_forall in H. apply H. apply nth_In. exact Hi. Qed.

(* the scan of get(): the result is the caller's fallback, or a slot that has the key or is free *)
Lemma pas_find_spec k : forall s i0 e j,
  pas_find k s i0 e = Some j ->
  e = Some j \/
  ((i0 <= j < i0 + length s)%nat /\
   (pa_key (nth (j - i0) s pa_new) = Some k \/ pa_key (nth (j - i0) s pa_new) = None)).
Proof.
  induction s as [|p s IH]; intros i0 e j H; cbn [pas_find] in H; [left; exact H|].
  destruct (pa_has_key k p) eqn:Hk.
  - inversion H; subst j. right. split; [cbn; lia|]. rewrite Nat.sub_diag. cbn. left. apply has_key_iff. exact Hk.
  - apply IH in H. destruct H as [H | (Hr & Hs)].
    + destruct (pa_is_free p) eqn:Hf.
      * inversion H; subst j. right. split; [cbn; lia|]. rewrite Nat.sub_diag. cbn. right. apply is_free_iff. exact Hf.
      * left. exact H.
    + right. split; [cbn [length]; lia|].
      replace (j - i0)%nat with (S (j - S i0)) by lia. cbn [nth]. exact Hs.
Qed.

Lemma pas_get_spec s k exp i s1 :
  pas_get s k exp = Some (i, s1) ->
  (i < length s)%nat /\
  let p0 := nth i s pa_new in
  (pa_key p0 = Some k /\ s1 = s) \/
  (pa_key p0 = None /\
   s1 = pas_update s i (mkPa (Some k) (pa_buffer p0) (pa_asm p0) (pa_total p0) exp)).
Proof.
  unfold pas_get. destruct (pas_find k s 0 None) as [j|] eqn:Hf; [|discriminate].
  apply pas_find_spec in Hf. destruct Hf as [Hf | (Hr & Hs)]; [discriminate|].
  rewrite Nat.sub_0_r in Hs.
  destruct (pa_has_key k (nth j s pa_new)) eqn:Hk; intros H; inversion H; subst i s1; clear H.
  - split; [lia|]. left. split; [apply has_key_iff; exact Hk | reflexivity].
  - split; [lia|]. right. split; [|reflexivity].
    destruct Hs as [Hs | Hs]; [|exact Hs]. apply has_key_iff in Hs. congruence.
Qed.

Lemma set_total_key p size p1 : pa_set_total_size p size = Some p1 -> pa_key p1 = pa_key p.
Proof.
  unfold pa_set_total_size. destruct (pa_total p) as [old|].
  - destruct (negb (old =? size)); [discriminate|]. intros H; inversion H; reflexivity.
  - intros H; inversion H; reflexivity.
Qed.

Lemma assemble_cases p :
  pa_assemble p = (p, None) \/ exists d, pa_assemble p = (pa_reset p, Some d).
Proof.
  unfold pa_assemble. destruct (pa_is_complete p); [|left; reflexivity].
  destruct (pa_total p); [right; eexists; reflexivity | left; reflexivity].
Qed.

Lemma slot_inv_reset k P p : slot_inv k P (pa_reset p).
Proof. split; [intros _; split; reflexivity | cbn; discriminate]. Qed.

Lemma remove_expired_ok k P s t : set_ok k P s -> set_ok k P (pas_remove_expired s t).
Proof.
  intros H. unfold pas_remove_expired, set_ok. apply Forall_map. eapply Forall_impl; [|exact H].
  intros p Hp. cbn. destruct (negb (pa_is_free p) && (pa_expires p <? t)); [apply slot_inv_reset | exact Hp].
Qed.

(* one received packet: the invariant is kept, and a packet of key [k] delivers nothing or [P] *)
Lemma process_safe k P n timeout now s f :
  set_ok k P s -> (fi_key f = k -> piece P f) ->
  let '(s', r) := rs_process_ipv4 n timeout now s f in
  set_ok k P s' /\ (fi_key f = k -> r = None \/ r = Some P).
Proof.
  intros Hs Hpc. unfold rs_process_ipv4.
  destruct (fi_mf f || negb (fi_offset f =? 0)) eqn:Hfrag.
  2:{ split; [exact Hs|]. intros Hk. right. f_equal.
      apply orb_false_iff in Hfrag. destruct Hfrag as (Hmf & Ho).
      destruct (Hpc Hk) as (_ & _ & Hd & Hlast). specialize (Hlast Hmf).
      assert (Ho0 : fi_offset f = 0) by lia. rewrite Ho0 in *.
      rewrite Hd. unfold f4_slice. cbn [Z.to_nat skipn]. replace (0 + zlen (fi_payload f)) with (zlen (fi_payload f)) in Hlast by lia.
      rewrite Hlast. unfold zlen. rewrite Nat2Z.id. apply firstn_all. }
  destruct (pas_get s (fi_key f) (now + timeout)) as [(i, s1)|] eqn:Hget.
  2:{ split; [exact Hs|]. intros _. left. reflexivity. }
  destruct (pas_get_spec _ _ _ _ _ Hget) as (Hi & Hcases). cbv zeta in Hcases.
  (* the claimed slot and the set after claiming *)
  assert (Hs1 : set_ok k P s1 /\ pa_key (nth i s1 pa_new) = Some (fi_key f) /\ length s1 = length s).
  { destruct Hcases as [(Hk0 & ->) | (Hk0 & ->)]; [repeat split; assumption|].
    pose proof (Forall_nth_pa _ s i Hs Hi) as (Hfresh & _). destruct (Hfresh Hk0) as (Ha & Ht).
    split; [|split; [rewrite update_nth by exact Hi; reflexivity | apply update_length]].
    apply update_Forall; [exact Hs|]. split; [cbn; discriminate|].
    intros _. rewrite Ha, Ht. apply slot_ok_fresh. }
  destruct Hs1 as (Hs1 & Hkey & Hlen).
  set (p := nth i s1 pa_new) in *.
  assert (Hpinv : slot_inv k P p) by (apply Forall_nth_pa; [exact Hs1 | lia]).
  destruct (if negb (fi_mf f) then pa_set_total_size p (zlen (fi_payload f) + fi_offset f) else Some p)
    as [p1|] eqn:Hst.
  2:{ split; [exact Hs1|]. intros _. left. reflexivity. }
  destruct (fkey_eqb (fi_key f) k) eqn:Hkk.
  - (* a piece of P *)
    apply fkey_eqb_eq in Hkk. specialize (Hpc Hkk). rewrite Hkk in Hkey.
    pose proof (proj2 Hpinv Hkey) as Hok.
    assert (Hok1 : slot_ok P p1 /\ pa_key p1 = Some k).
    { destruct (fi_mf f) eqn:Hmf; cbn [negb] in Hst.
      - inversion Hst; subst p1. split; assumption.
      - destruct Hpc as (_ & _ & _ & Hlast). specialize (Hlast Hmf).
        destruct (set_total_ok P p (zlen (fi_payload f) + fi_offset f) p1 Hok ltac:(lia) Hst) as (H1 & H2 & _). split; [exact H1 | congruence]. }
    destruct Hok1 as (Hok1 & Hkey1).
    pose proof (add_ok P n p1 f Hok1 Hpc) as Hadd. cbv zeta in Hadd.
    destruct Hadd as (Hok2 & Hkey2 & _).
    set (p2 := pa_add n p1 (fi_payload f) (fi_offset f)) in *.
    destruct (assemble_ok P p2 Hok2) as [(Ha & _) | (Ha & _)]; rewrite Ha.
    + split; [|intros _; left; reflexivity]. apply update_Forall; [exact Hs1|].
      split; [rewrite Hkey2, Hkey1; discriminate | intros _; exact Hok2].
    + split; [|intros _; right; reflexivity]. apply update_Forall; [exact Hs1 | apply slot_inv_reset].
  - (* another key: the slots of [k] are not touched *)
    assert (Hne : fi_key f <> k) by (intros H; apply fkey_eqb_eq in H; congruence).
    assert (Hkey1 : pa_key p1 = Some (fi_key f)).
    { destruct (negb (fi_mf f)); [rewrite (set_total_key _ _ _ Hst); exact Hkey | inversion Hst; subst; exact Hkey]. }
    set (p2 := pa_add n p1 (fi_payload f) (fi_offset f)).
    assert (Hkey2 : pa_key p2 = Some (fi_key f)) by exact Hkey1.
    destruct (assemble_cases p2) as [Ha | (d & Ha)]; rewrite Ha; (split; [|intros H; congruence]).
    + apply update_Forall; [exact Hs1|]. split; [rewrite Hkey2; discriminate|].
      rewrite Hkey2. intros H; inversion H; congruence.
    + apply update_Forall; [exact Hs1 | apply slot_inv_reset].
Qed.

Lemma poll_safe k P n timeout now s f :
  set_ok k P s -> (fi_key f = k -> piece P f) ->
  let '(s', r) := rs_poll n timeout now s f in
  set_ok k P s' /\ (fi_key f = k -> r = None \/ r = Some P).
Proof. intros Hs Hpc. unfold rs_poll. apply process_safe; [apply remove_expired_ok; exact Hs | exact Hpc]. Qed.

Lemma set_ok_new k P slots : set_ok k P (pas_new slots).
Proof.
  unfold set_ok, pas_new. apply Forall_forall. intros p Hp. apply repeat_spec in Hp. subst p.
  split; [intros _; split; reflexivity | cbn; discriminate].
Qed.

(* C12 reassembly_exact_or_nothing: any arrival history (any order, any duplicates, any times,
   other datagrams interleaved arbitrarily) in which every packet with key [k] is a piece of [P]:
   whatever is delivered at an arrival of key [k] is exactly [P] *)
Lemma run_safe k P n timeout : forall arr s,
  set_ok k P s -> Forall (fun tf => fi_key (snd tf) = k -> piece P (snd tf)) arr ->
  Forall2 (fun tf r => fi_key (snd tf) = k -> r = None \/ r = Some P)
          arr (snd (rs_run n timeout s arr)).
Proof.
  induction arr as [|(t, f) rest IH]; intros s Hs Harr; cbn [rs_run]; [constructor|].
  inversion Harr as [|? ? Hf Hrest]; subst. cbn [snd] in Hf.
  pose proof (poll_safe k P n timeout t s f Hs Hf) as H1.
  destruct (rs_poll n timeout t s f) as (s1, r). destruct H1 as (Hs1 & Hr).
  specialize (IH s1 Hs1 Hrest). destruct (rs_run n timeout s1 rest) as (s2, rs). cbn [snd] in *.
  constructor; [exact Hr | exact IH].
Qed.

Lemma c12_reassembly_exact_or_nothing k P n timeout slots arr :
  Forall (fun tf => fi_key (snd tf) = k -> piece P (snd tf)) arr ->
  Forall2 (fun tf r => fi_key (snd tf) = k -> r = None \/ r = Some P)
          arr (snd (rs_run n timeout (pas_new slots) arr)).
Proof. apply run_safe. apply set_ok_new. Qed.

(* ================= delivery when the gaps fit ================= *)

Definition covers (f : frag_in) (x : Z) : Prop :=
  fi_offset f <= x < fi_offset f + zlen (fi_payload f).

(* along the arrival order, the merged union of the ranges received under key [k] (starting
   from [u]) never needs more than [n] ranges -- [asm_add_unb] is the canonical merged union
   (C15: add_unb_spec, canon_unique) *)
Fixpoint gaps_fit (n : Z) (k : fkey) (u : asm) (arr : list (Z * frag_in)) : Prop :=
  match arr with
  | [] => True
  | (_, f) :: rest =>
      if fkey_eqb (fi_key f) k then
        let u' := asm_add_unb u (fi_offset f) (zlen (fi_payload f)) in
        Z.of_nat (length u') <= n /\ gaps_fit n k u' rest
      else gaps_fit n k u rest
  end.

(* exactly one slot, number [i], is claimed for [k] *)
Definition unique_kslot (k : fkey) (s : paset) (i : nat) : Prop :=
  (i < length s)%nat /\ pa_key (nth i s pa_new) = Some k /\
  forall j, (j < length s)%nat -> pa_key (nth j s pa_new) = Some k -> j = i.

(* the slot of [k] holds the accumulated tracker [u] and total [tot], expires at [texp], and is
   not complete (otherwise assemble would have delivered) *)
Definition kstate (k : fkey) (P : list Z) (texp : Z) (s : paset) (u : asm) (tot : option Z) : Prop :=
  set_ok k P s /\
  exists i, unique_kslot k s i /\
    pa_asm (nth i s pa_new) = u /\ pa_total (nth i s pa_new) = tot /\
    pa_expires (nth i s pa_new) = texp /\ pa_is_complete (nth i s pa_new) = false.

Lemma pas_find_key k : forall s i0 e i,
  (i < length s)%nat -> pa_key (nth i s pa_new) = Some k ->
  (forall j, (j < i)%nat -> pa_key (nth j s pa_new) <> Some k) ->
  pas_find k s i0 e = Some (i0 + i)%nat.
Proof.
  induction s as [|p s IH]; intros i0 e i Hi Hk Hbefore; cbn [length] in Hi; [lia|].
  cbn [pas_find]. destruct i as [|i].
  - cbn [nth] in Hk. apply has_key_iff in Hk. rewrite Hk. f_equal. lia.
  - assert (Hp : pa_has_key k p = false).
    { destruct (pa_has_key k p) eqn:H; [|reflexivity]. apply has_key_iff in H.
      exfalso. apply (Hbefore O); [lia | exact H]. }
    rewrite Hp. rewrite (IH (S i0) _ i); [f_equal; lia | lia | exact Hk|].
    intros j Hj. apply (Hbefore (S j)). lia.
Qed.

Lemma pas_find_not_none k : forall s i0 e,
  (e <> None \/ exists j, (j < length s)%nat /\
     (pa_key (nth j s pa_new) = None \/ pa_key (nth j s pa_new) = Some k)) ->
  pas_find k s i0 e <> None.
Proof.
  induction s as [|p s IH]; intros i0 e H; cbn [pas_find].
  - destruct H as [H | (j & Hj & _)]; [exact H | cbn in Hj; lia].
  - destruct (pa_has_key k p) eqn:Hk; [discriminate|].
    apply IH. destruct H as [H | (j & Hj & Hkey)].
    + left. destruct (pa_is_free p); [discriminate | exact H].
    + destruct j as [|j].
      * cbn [nth] in Hkey. destruct Hkey as [Hkey | Hkey].
        -- left. apply is_free_iff in Hkey. rewrite Hkey. discriminate.
        -- apply has_key_iff in Hkey. congruence.
      * right. exists j. split; [cbn [length] in Hj; lia | exact Hkey].
Qed.

Lemma get_found k s exp i : unique_kslot k s i -> pas_get s k exp = Some (i, s).
Proof.
  intros (Hi & Hk & Hu). unfold pas_get.
  rewrite (pas_find_key k s 0 None i Hi Hk).
  - cbn [Nat.add]. apply has_key_iff in Hk. rewrite Hk. reflexivity.
  - intros j Hj H. specialize (Hu j ltac:(lia) H). lia.
Qed.

Lemma get_alloc k s exp :
  (forall j, (j < length s)%nat -> pa_key (nth j s pa_new) <> Some k) ->
  (exists j, (j < length s)%nat /\ pa_key (nth j s pa_new) = None) ->
  exists i, (i < length s)%nat /\ pa_key (nth i s pa_new) = None /\
    pas_get s k exp = Some (i, pas_update s i
       (mkPa (Some k) (pa_buffer (nth i s pa_new)) (pa_asm (nth i s pa_new)) (pa_total (nth i s pa_new)) exp)).
Proof.
  intros Hnok (j & Hj & Hfree).
  destruct (pas_get s k exp) as [(i, s1)|] eqn:Hget.
  - destruct (pas_get_spec _ _ _ _ _ Hget) as (Hi & [(Hk & _) | (Hk & Hs1)]).
    + exfalso. exact (Hnok i Hi Hk).
    + exists i. split; [exact Hi|]. split; [exact Hk|]. rewrite Hs1. reflexivity.
  - exfalso. unfold pas_get in Hget.
    destruct (pas_find k s 0 None) eqn:Hf.
    + destruct (pa_has_key k (nth n s pa_new)); discriminate.
    + revert Hf. apply pas_find_not_none. right. exists j. split; [exact Hj | left; exact Hfree].
Qed.

Lemma unique_update_same k s i p :
  unique_kslot k s i -> pa_key p = Some k -> unique_kslot k (pas_update s i p) i.
Proof.
  intros (Hi & Hk & Hu) Hp. unfold unique_kslot. rewrite update_length.
  split; [exact Hi|]. split; [rewrite update_nth by exact Hi; exact Hp|].
  intros j Hj Hkj. destruct (Nat.eq_dec j i) as [-> | Hne]; [reflexivity|].
  rewrite update_nth_other in Hkj by congruence. apply Hu; assumption.
Qed.

Lemma unique_update_other k s i j p :
  unique_kslot k s i -> j <> i -> pa_key p <> Some k -> unique_kslot k (pas_update s j p) i.
Proof.
  intros (Hi & Hk & Hu) Hne Hp. unfold unique_kslot. rewrite update_length.
  split; [exact Hi|]. split; [rewrite update_nth_other by exact Hne; exact Hk|].
  intros j' Hj' Hkj. destruct (Nat.eq_dec j' j) as [-> | Hne'].
  - destruct (Nat.lt_ge_cases j (length s)) as [Hlt | Hge]; [|lia].
    rewrite update_nth in Hkj by exact Hlt. congruence.
  - rewrite update_nth_other in Hkj by congruence. apply Hu; assumption.
Qed.

Lemma remove_expired_nth s t i :
  nth i (pas_remove_expired s t) pa_new =
  (fun p => if negb (pa_is_free p) && (pa_expires p <? t) then pa_reset p else p) (nth i s pa_new).
Proof.
  unfold pas_remove_expired.
  change pa_new with ((fun p => if negb (pa_is_free p) && (pa_expires p <? t) then pa_reset p else p) pa_new) at 1.
  apply map_nth.
Qed.

Lemma kstate_remove_expired k P texp s u tot t :
  kstate k P texp s u tot -> t <= texp -> kstate k P texp (pas_remove_expired s t) u tot.
Proof.
  intros (Hs & i & (Hi & Hk & Hu) & Ha & Ht & He & Hc) Hle.
  split; [apply remove_expired_ok; exact Hs|].
  assert (Hsame : nth i (pas_remove_expired s t) pa_new = nth i s pa_new).
  { rewrite remove_expired_nth. cbv beta. replace (pa_expires (nth i s pa_new) <? t) with false by lia.
    rewrite andb_false_r. reflexivity. }
  exists i. unfold unique_kslot. unfold pas_remove_expired at 1. rewrite map_length.
  rewrite Hsame. repeat split; try assumption.
  intros j Hj Hkj. apply Hu; [unfold pas_remove_expired in Hj; rewrite map_length in Hj; exact Hj|].
  rewrite remove_expired_nth in Hkj. cbv beta in Hkj.
  destruct (negb (pa_is_free (nth j s pa_new)) && (pa_expires (nth j s pa_new) <? t)); [discriminate | exact Hkj].
Qed.

Lemma full_cover_complete P u :
  0 < zlen P -> asm_wf u ->
  (forall x, amem 0 u x -> x < zlen P) -> (forall x, 0 <= x < zlen P -> amem 0 u x) ->
  asm_peek_front u = zlen P.
Proof.
  intros HP Hwf Hub Hcov.
  assert (u = [mkContig 0 (zlen P)]).
  { apply canon_unique; [exact Hwf | cbn; lia|].
    intros x. cbn [amem c_hole c_data c_total]. unfold c_total. cbn [c_hole c_data]. split.
    - intros H. left. pose proof (amem_lower 0 u x Hwf H). pose proof (Hub x H). lia.
    - intros [H | []]. apply Hcov. lia. }
  subst u. reflexivity.
Qed.

(* a fragment of key [k], piece of [P], processed when its slot is available as slot [i] of
   [s1] (already claimed): delivery of [P], or the slot accumulates the merged union *)
Lemma k_fragment_after_get k P n timeout now s s1 i f u tot texp :
  set_ok k P s1 -> unique_kslot k s1 i ->
  pas_get s (fi_key f) (now + timeout) = Some (i, s1) ->
  pa_asm (nth i s1 pa_new) = u -> pa_total (nth i s1 pa_new) = tot ->
  pa_expires (nth i s1 pa_new) = texp ->
  fi_key f = k -> piece P f -> (fi_mf f || negb (fi_offset f =? 0)) = true ->
  Z.of_nat (length (asm_add_unb u (fi_offset f) (zlen (fi_payload f)))) <= n ->
  let '(s', r) := rs_process_ipv4 n timeout now s f in
  r = Some P \/
  (r = None /\
   kstate k P texp s' (asm_add_unb u (fi_offset f) (zlen (fi_payload f)))
          (if fi_mf f then tot else Some (zlen P))).
Proof.
  intros Hs1 Hun Hget Hu Htot Hexp Hk Hpc Hfrag Hfit.
  unfold rs_process_ipv4. rewrite Hfrag, Hget.
  pose proof Hun as (Hi & Hkey & Huniq).
  set (p := nth i s1 pa_new) in *.
  assert (Hok : slot_ok P p) by (apply (Forall_nth_pa _ s1 i Hs1 Hi); exact Hkey).
  pose proof Hpc as (Ho & Hfitp & Hd & Hlast).
  (* total size *)
  assert (Hst : exists p1,
    (if negb (fi_mf f) then pa_set_total_size p (zlen (fi_payload f) + fi_offset f) else Some p) = Some p1 /\
    slot_ok P p1 /\ pa_key p1 = Some k /\ pa_asm p1 = u /\
    pa_total p1 = (if fi_mf f then tot else Some (zlen P)) /\ pa_expires p1 = texp).
  { destruct (fi_mf f) eqn:Hmf; cbn [negb].
    - exists p. split; [reflexivity|]. split; [exact Hok|]. split; [exact Hkey|]. split; [exact Hu|]. split; [exact Htot | exact Hexp].
    - specialize (Hlast eq_refl).
      replace (zlen (fi_payload f) + fi_offset f) with (zlen P) by lia.
      destruct (set_total_some P p Hok) as (p1 & Hp1). exists p1. split; [exact Hp1|].
      destruct (set_total_ok P p (zlen P) p1 Hok eq_refl Hp1) as (H1 & H2 & H3 & H4 & H5).
      split; [exact H1|]. split; [congruence|]. split; [congruence|]. split; [exact H4 | congruence]. }
  destruct Hst as (p1 & -> & Hok1 & Hkey1 & Hasm1 & Htot1 & Hexp1).
  pose proof (add_ok P n p1 f Hok1 Hpc) as Hadd. cbv zeta in Hadd.
  destruct Hadd as (Hok2 & Hkey2 & Htot2 & Hexp2 & Hasm2).
  set (p2 := pa_add n p1 (fi_payload f) (fi_offset f)) in *.
  (* the insertion is accepted because the union fits *)
  assert (Hasm2' : pa_asm p2 = asm_add_unb u (fi_offset f) (zlen (fi_payload f))).
  { rewrite Hasm2, Hasm1.
    pose proof (add_fits_ok n u (fi_offset f) (zlen (fi_payload f)) Hfit) as Hacc.
    destruct (asm_add n u (fi_offset f) (zlen (fi_payload f))) as (l', ok) eqn:Hadd. cbn [fst snd] in *. subst ok.
    destruct Hok1 as (Hwf1 & _). rewrite Hasm1 in Hwf1.
    exact (proj1 (add_ok_spec n u _ _ l' Hwf1 Ho (zlen_nonneg _) Hadd)). }
  destruct (assemble_ok P p2 Hok2) as [(Ha & Hnc) | (Ha & _)]; rewrite Ha; [right | left; reflexivity].
  split; [reflexivity|]. split.
  - apply update_Forall; [exact Hs1|]. split; [rewrite Hkey2, Hkey1; discriminate | intros _; exact Hok2].
  - exists i. split; [apply unique_update_same; [exact Hun | congruence]|].
    rewrite update_nth by exact Hi. repeat split; try assumption; congruence.
Qed.

Lemma nonfragment_delivers P f :
  piece P f -> (fi_mf f || negb (fi_offset f =? 0)) = false -> fi_payload f = P.
Proof.
  intros (_ & _ & Hd & Hlast) Hfrag. apply orb_false_iff in Hfrag. destruct Hfrag as (Hmf & Ho).
  specialize (Hlast Hmf). assert (Ho0 : fi_offset f = 0) by lia. rewrite Ho0 in *.
  rewrite Hd. unfold f4_slice. cbn [Z.to_nat skipn].
  replace (0 + zlen (fi_payload f)) with (zlen (fi_payload f)) in Hlast by lia.
  rewrite Hlast. unfold zlen. rewrite Nat2Z.id. apply firstn_all.
Qed.

(* a packet of another key leaves the slot of [k] alone *)
Lemma other_key_step k P n timeout now s f u tot texp :
  kstate k P texp s u tot -> fi_key f <> k ->
  kstate k P texp (fst (rs_process_ipv4 n timeout now s f)) u tot.
Proof.
  intros Hks Hne. pose proof Hks as (Hs & i & Hun & Ha & Ht & He & Hc).
  pose proof (process_safe k P n timeout now s f Hs ltac:(intros; congruence)) as Hsafe.
  unfold rs_process_ipv4 in *.
  destruct (fi_mf f || negb (fi_offset f =? 0)); [|exact Hks].
  destruct (pas_get s (fi_key f) (now + timeout)) as [(j, s1)|] eqn:Hget; [|exact Hks].
  destruct (pas_get_spec _ _ _ _ _ Hget) as (Hj & Hcases). cbv zeta in Hcases.
  pose proof Hun as (Hi & Hk & Hu).
  assert (Hji : j <> i).
  { intros ->. destruct Hcases as [(H & _) | (H & _)]; congruence. }
  (* after claiming: still the same slot of k *)
  assert (Hks1 : unique_kslot k s1 i /\ nth i s1 pa_new = nth i s pa_new /\ pa_key (nth j s1 pa_new) = Some (fi_key f) /\ length s1 = length s).
  { destruct Hcases as [(H & ->) | (H & ->)]; [repeat split; assumption|].
    split; [apply unique_update_other; [exact Hun | exact Hji | cbn; intros E; inversion E; congruence]|].
    split; [apply update_nth_other; exact Hji|]. split; [rewrite update_nth by exact Hj; reflexivity | apply update_length]. }
  destruct Hks1 as (Hun1 & Hsame & Hkeyj & Hlen).
  set (p := nth j s1 pa_new) in *.
  destruct (if negb (fi_mf f) then pa_set_total_size p (zlen (fi_payload f) + fi_offset f) else Some p) as [p1|] eqn:Hst.
  2:{ cbn [fst] in *. split; [exact (proj1 Hsafe)|]. exists i. rewrite Hsame. repeat split; try assumption; apply Hun1. }
  assert (Hkey1 : pa_key p1 = Some (fi_key f)).
  { destruct (negb (fi_mf f)); [rewrite (set_total_key _ _ _ Hst); exact Hkeyj | inversion Hst; subst; exact Hkeyj]. }
  set (p2 := pa_add n p1 (fi_payload f) (fi_offset f)) in *.
  assert (Hkey2 : pa_key p2 = Some (fi_key f)) by exact Hkey1.
  destruct (assemble_cases p2) as [Hasm | (d & Hasm)]; rewrite Hasm in *; cbn [fst] in *.
  - split; [exact (proj1 Hsafe)|]. exists i.
    split; [apply unique_update_other; [exact Hun1 | exact Hji | rewrite Hkey2; intros E; inversion E; congruence]|].
    rewrite update_nth_other by exact Hji. rewrite Hsame. repeat split; assumption.
  - split; [exact (proj1 Hsafe)|]. exists i.
    split; [apply unique_update_other; [exact Hun1 | exact Hji | cbn; discriminate]|].
    rewrite update_nth_other by exact Hji. rewrite Hsame. repeat split; assumption.
Qed.

Lemma gaps_fit_k n k u t f rest :
  fi_key f = k -> gaps_fit n k u ((t, f) :: rest) ->
  Z.of_nat (length (asm_add_unb u (fi_offset f) (zlen (fi_payload f)))) <= n /\
  gaps_fit n k (asm_add_unb u (fi_offset f) (zlen (fi_payload f))) rest.
Proof.
  intros Hk H. cbn [gaps_fit] in H. rewrite (proj2 (fkey_eqb_eq _ _) Hk) in H. exact H.
Qed.

Lemma gaps_fit_other n k u t f rest :
  fi_key f <> k -> gaps_fit n k u ((t, f) :: rest) -> gaps_fit n k u rest.
Proof.
  intros Hk H. cbn [gaps_fit] in H. destruct (fkey_eqb (fi_key f) k) eqn:E; [|exact H].
  apply fkey_eqb_eq in E. congruence.
Qed.

(* main induction: with the slot of [k] holding the accumulated union and the rest of the
   history completing the datagram within the lifetime of the slot, [P] is delivered *)
Lemma live_ind k P n timeout texp : 0 < zlen P -> forall arr s u tot,
  kstate k P texp s u tot ->
  Forall (fun tf => fi_key (snd tf) = k -> piece P (snd tf)) arr ->
  Forall (fun tf => fst tf <= texp) arr ->
  gaps_fit n k u arr ->
  (forall x, 0 <= x < zlen P ->
     amem 0 u x \/ Exists (fun tf => fi_key (snd tf) = k /\ covers (snd tf) x) arr) ->
  (tot = Some (zlen P) \/ Exists (fun tf => fi_key (snd tf) = k /\ fi_mf (snd tf) = false) arr) ->
  In (Some P) (snd (rs_run n timeout s arr)).
Proof.
  intros HP. induction arr as [|(t, f) rest IH]; intros s u tot Hks Hpcs Htimes Hgaps Hcov Hlast.
  - (* everything has arrived: the slot would be complete *)
    exfalso. destruct Hks as (Hs & i & (Hi & Hk & _) & Ha & Ht & _ & Hc).
    pose proof (Forall_nth_pa _ s i Hs Hi) as (_ & Hok). specialize (Hok Hk).
    destruct Hok as (Hwf & Hb & _).
    destruct Hlast as [Hlast | Hlast]; [|inversion Hlast].
    unfold pa_is_complete in Hc. rewrite Ht, Hlast in Hc.
    rewrite Ha in *. rewrite (full_cover_complete P u HP Hwf) in Hc; [lia | intros x Hx; apply (Hb x Hx)|].
    intros x Hx. destruct (Hcov x Hx) as [H | H]; [exact H | inversion H].
  - cbn [rs_run]. inversion Hpcs as [|? ? Hpc Hpcs']; subst. inversion Htimes as [|? ? Ht Htimes']; subst.
    cbn [fst snd] in Hpc, Ht.
    pose proof (kstate_remove_expired k P texp s u tot t Hks Ht) as Hks_e.
    unfold rs_poll. set (se := pas_remove_expired s t) in *.
    destruct (fkey_eqb (fi_key f) k) eqn:Hkk.
    + apply fkey_eqb_eq in Hkk. specialize (Hpc Hkk).
      destruct (gaps_fit_k n k u t f rest Hkk Hgaps) as (Hfit & Hgaps').
      destruct (fi_mf f || negb (fi_offset f =? 0)) eqn:Hfrag.
      * pose proof Hks_e as (Hse & i & Hun & Ha & Htot & Hexp & _).
        pose proof (get_found k se (t + timeout) i Hun) as Hget. rewrite <- Hkk in Hget at 1.
        pose proof (k_fragment_after_get k P n timeout t se se i f u tot texp Hse Hun Hget Ha Htot Hexp Hkk Hpc Hfrag Hfit) as Hstep.
        destruct (rs_process_ipv4 n timeout t se f) as (s1, r).
        destruct (rs_run n timeout s1 rest) as (s2, rs) eqn:Hrun. cbn [snd].
        destruct Hstep as [-> | (-> & Hks1)]; [left; reflexivity|]. right.
        specialize (IH s1 _ _ Hks1 Hpcs' Htimes' Hgaps'). rewrite Hrun in IH. cbn [snd] in IH. apply IH.
        -- intros x Hx.
           pose proof Hks as (Hs0 & i0 & (Hi0 & Hk0 & _) & Ha0 & _).
           pose proof (Forall_nth_pa _ s i0 Hs0 Hi0) as (_ & Hok0). specialize (Hok0 Hk0).
           destruct Hok0 as (Hwf0 & _). rewrite Ha0 in Hwf0.
           destruct Hpc as (Ho & _).
           destruct (add_unb_spec u (fi_offset f) (zlen (fi_payload f)) Hwf0 Ho (zlen_nonneg _)) as (_ & Hm).
           destruct (Hcov x Hx) as [H | H].
           ++ left. apply Hm. left. exact H.
           ++ apply Exists_cons in H. destruct H as [(_ & Hc) | H'].
              ** left. apply Hm. right. unfold covers in Hc. cbn [snd] in Hc. lia.
              ** right. exact H'.
        -- destruct (fi_mf f) eqn:Hmf; [|left; reflexivity].
           destruct Hlast as [H | H]; [left; exact H|].
           apply Exists_cons in H. destruct H as [(_ & Hc) | H']; [cbn [snd] in Hc; congruence | right; exact H'].
      * (* not a fragment at all: handed on directly *)
        unfold rs_process_ipv4. rewrite Hfrag.
        destruct (rs_run n timeout se rest) as (s2, rs). cbn [snd]. left.
        f_equal. apply nonfragment_delivers; assumption.
    + assert (Hne : fi_key f <> k) by (intros H; apply fkey_eqb_eq in H; congruence).
      pose proof (other_key_step k P n timeout t se f u tot texp Hks_e Hne) as Hks1.
      destruct (rs_process_ipv4 n timeout t se f) as (s1, r). cbn [fst] in Hks1.
      specialize (IH s1 u tot Hks1 Hpcs' Htimes' (gaps_fit_other n k u t f rest Hne Hgaps)).
      destruct (rs_run n timeout s1 rest) as (s2, rs). cbn [snd] in *. right. apply IH.
      * intros x Hx. destruct (Hcov x Hx) as [H | H]; [left; exact H|].
        apply Exists_cons in H. destruct H as [(Hc & _) | H']; [cbn [snd] in Hc; congruence | right; exact H'].
      * destruct Hlast as [H | H]; [left; exact H|].
        apply Exists_cons in H. destruct H as [(Hc & _) | H']; [cbn [snd] in Hc; congruence | right; exact H'].
Qed.

(* C12 reassembly_delivers_if_gaps_fit.  The first packet of the datagram (key [k]) arrives at
   [t0] when no slot is claimed for [k] and a free slot exists; every packet with key [k] is a
   piece of [P]; the later ones arrive no later than the slot's expiry [t0 + timeout] (in any
   order, with duplicates, with packets of other datagrams interleaved); the merged union of the
   received ranges never needs more than [n] ranges; the pieces cover [P] and one of them has MF
   clear.  Then [P] is delivered. *)
Lemma c12_reassembly_delivers_if_gaps_fit k P n timeout s0 t0 f0 rest :
  0 < zlen P -> 0 <= timeout ->
  set_ok k P s0 ->
  (forall j, (j < length s0)%nat -> pa_key (nth j s0 pa_new) <> Some k) ->
  (exists j, (j < length s0)%nat /\ pa_key (nth j s0 pa_new) = None) ->
  fi_key f0 = k ->
  Forall (fun tf => fi_key (snd tf) = k -> piece P (snd tf)) ((t0, f0) :: rest) ->
  Forall (fun tf => fst tf <= t0 + timeout) rest ->
  gaps_fit n k [] ((t0, f0) :: rest) ->
  (forall x, 0 <= x < zlen P ->
     Exists (fun tf => fi_key (snd tf) = k /\ covers (snd tf) x) ((t0, f0) :: rest)) ->
  Exists (fun tf => fi_key (snd tf) = k /\ fi_mf (snd tf) = false) ((t0, f0) :: rest) ->
  In (Some P) (snd (rs_run n timeout s0 ((t0, f0) :: rest))).
Proof.
  intros HP Hto Hs0 Hnok Hfree Hk0 Hpcs Htimes Hgaps Hcov Hlast.
  inversion Hpcs as [|? ? Hpc Hpcs']; subst. cbn [snd] in Hpc. specialize (Hpc eq_refl).
  cbn [rs_run]. unfold rs_poll. set (se := pas_remove_expired s0 t0).
  assert (Hse : set_ok (fi_key f0) P se) by (apply remove_expired_ok; exact Hs0).
  assert (Hlen : length se = length s0) by (unfold se, pas_remove_expired; apply map_length).
  assert (Hnok_e : forall j, (j < length se)%nat -> pa_key (nth j se pa_new) <> Some (fi_key f0)).
  { intros j Hj. unfold se. rewrite remove_expired_nth. cbv beta.
    destruct (negb (pa_is_free (nth j s0 pa_new)) && (pa_expires (nth j s0 pa_new) <? t0)); [cbn; discriminate|].
    apply Hnok. lia. }
  assert (Hfree_e : exists j, (j < length se)%nat /\ pa_key (nth j se pa_new) = None).
  { destruct Hfree as (j & Hj & Hf). exists j. split; [lia|]. unfold se. rewrite remove_expired_nth. cbv beta.
    apply is_free_iff in Hf. rewrite Hf. cbn [negb andb]. apply is_free_iff. exact Hf. }
  destruct (gaps_fit_k n _ [] t0 f0 rest eq_refl Hgaps) as (Hfit & Hgaps').
  destruct (fi_mf f0 || negb (fi_offset f0 =? 0)) eqn:Hfrag.
  2:{ unfold rs_process_ipv4. rewrite Hfrag. destruct (rs_run n timeout se rest) as (s2, rs). cbn [snd]. left.
      f_equal. apply nonfragment_delivers; assumption. }
  destruct (get_alloc (fi_key f0) se (t0 + timeout) Hnok_e Hfree_e) as (i & Hi & Hki & Hget).
  set (s1 := pas_update se i _) in Hget.
  pose proof (Forall_nth_pa _ se i Hse Hi) as (Hfresh & _). destruct (Hfresh Hki) as (Hai & Hti).
  assert (Hs1 : set_ok (fi_key f0) P s1).
  { apply update_Forall; [exact Hse|]. split; [cbn; discriminate|]. intros _. rewrite Hai, Hti. apply slot_ok_fresh. }
  assert (Hun : unique_kslot (fi_key f0) s1 i).
  { unfold unique_kslot, s1. rewrite update_length. split; [exact Hi|].
    split; [rewrite update_nth by exact Hi; reflexivity|].
    intros j Hj Hkj. destruct (Nat.eq_dec j i) as [-> | Hne]; [reflexivity|].
    rewrite update_nth_other in Hkj by congruence. exfalso. exact (Hnok_e j Hj Hkj). }
  assert (Hn1 : nth i s1 pa_new = mkPa (Some (fi_key f0)) (pa_buffer (nth i se pa_new)) [] None (t0 + timeout)).
  { unfold s1. rewrite update_nth by exact Hi. rewrite Hai, Hti. reflexivity. }
  pose proof (k_fragment_after_get (fi_key f0) P n timeout t0 se s1 i f0 [] None (t0 + timeout)
                Hs1 Hun Hget ltac:(rewrite Hn1; reflexivity) ltac:(rewrite Hn1; reflexivity)
                ltac:(rewrite Hn1; reflexivity) eq_refl Hpc Hfrag Hfit) as Hstep.
  destruct (rs_process_ipv4 n timeout t0 se f0) as (s', r).
  destruct (rs_run n timeout s' rest) as (s2, rs) eqn:Hrun. cbn [snd].
  destruct Hstep as [-> | (-> & Hks1)]; [left; reflexivity|]. right.
  pose proof (live_ind (fi_key f0) P n timeout (t0 + timeout) HP rest s' _ _ Hks1 Hpcs' Htimes Hgaps') as Hlive.
  rewrite Hrun in Hlive. cbn [snd] in Hlive. apply Hlive.
  - intros x Hx. destruct Hpc as (Ho & _).
    destruct (add_unb_spec [] (fi_offset f0) (zlen (fi_payload f0)) I Ho (zlen_nonneg _)) as (_ & Hm).
    specialize (Hcov x Hx). apply Exists_cons in Hcov. destruct Hcov as [(_ & Hc) | H'].
    + left. apply Hm. right. unfold covers in Hc. cbn [snd] in Hc. lia.
    + right. exact H'.
  - destruct (fi_mf f0) eqn:Hmf; [|left; reflexivity].
    apply Exists_cons in Hlast. destruct Hlast as [(_ & Hc) | H']; [cbn [snd] in Hc; congruence | right; exact H'].
Qed.

(* the same on a freshly created interface with at least one reassembly slot *)
Lemma c12_reassembly_delivers_fresh k P n timeout slots t0 f0 rest :
  0 < zlen P -> 0 <= timeout -> (1 <= slots)%nat ->
  fi_key f0 = k ->
  Forall (fun tf => fi_key (snd tf) = k -> piece P (snd tf)) ((t0, f0) :: rest) ->
  Forall (fun tf => fst tf <= t0 + timeout) rest ->
  gaps_fit n k [] ((t0, f0) :: rest) ->
  (forall x, 0 <= x < zlen P ->
     Exists (fun tf => fi_key (snd tf) = k /\ covers (snd tf) x) ((t0, f0) :: rest)) ->
  Exists (fun tf => fi_key (snd tf) = k /\ fi_mf (snd tf) = false) ((t0, f0) :: rest) ->
  In (Some P) (snd (rs_run n timeout (pas_new slots) ((t0, f0) :: rest))).
Proof.
  intros HP Hto Hslots Hk. apply c12_reassembly_delivers_if_gaps_fit; try assumption.
  - apply set_ok_new.
  - intros j _.
    assert (H : nth j (pas_new slots) pa_new = pa_new).
    { unfold pas_new. clear. revert j. induction slots; intros [|j]; cbn; auto. }
    rewrite H. cbn. discriminate.
  - exists O. unfold pas_new. rewrite repeat_length. split; [lia|]. destruct slots; [lia | reflexivity].
Qed.

(* ================= sender and receiver together ================= *)

Definition to_frag_in (k : fkey) (p : ip4pkt) : frag_in :=
  mkFi k (p_offset p) (p_mf p) (p_payload p).

(* the packets of a correct fragment train are pieces of the datagram *)
Lemma train_pieces ip_mtu ident k P : forall frs off,
  0 <= off <= zlen P ->
  train_ok ip_mtu ident off frs (skipn (Z.to_nat off) P) ->
  Forall (fun p => piece P (to_frag_in k p)) frs.
Proof.
  induction frs as [|p rest IH]; intros off Ho Ht; [constructor|].
  assert (Hsk : zlen (skipn (Z.to_nat off) P) = zlen P - off) by (rewrite zlen_skipn; lia).
  destruct rest as [|q rest'].
  - apply train_ok_last in Ht. destruct Ht as (_ & Hoff & _ & Hmf & Hpay).
    constructor; [|constructor]. unfold piece, to_frag_in. cbn [fi_offset fi_payload fi_mf].
    rewrite Hoff, Hpay, Hsk. split; [lia|]. split; [lia|]. split; [|intros _; lia].
    unfold f4_slice. symmetry. apply firstn_all2. rewrite skipn_length. unfold zlen. lia.
  - apply train_ok_more in Ht. destruct Ht as (_ & Hoff & _ & Hmf & _ & Hpos & Hpay & Hrest).
    assert (Hle : zlen (p_payload p) <= zlen P - off).
    { rewrite <- Hsk. rewrite Hpay. unfold zlen. rewrite firstn_length. lia. }
    constructor.
    + unfold piece, to_frag_in. cbn [fi_offset fi_payload fi_mf]. rewrite Hoff.
      split; [lia|]. split; [lia|]. split; [|rewrite Hmf; discriminate].
      unfold f4_slice. rewrite Hpay at 1. f_equal. unfold zlen. lia.
    + apply (IH (off + zlen (p_payload p))); [lia|].
      replace (length (p_payload p)) with (Z.to_nat (zlen (p_payload p))) in Hrest by (unfold zlen; lia).
      rewrite skipn_skipn_z in Hrest by (pose proof (zlen_nonneg (p_payload p)); lia). exact Hrest.
Qed.

(* the fragments the sender model puts on the wire for [P], received in ANY order with ANY
   duplication (any list over the fragment set), at any times, interleaved with any packets
   of other keys: nothing or exactly [P] *)
Lemma c12_sender_receiver_exact_or_nothing ip_mtu ident fr0 P k n timeout slots arr :
  f4_hdr + 8 <= ip_mtu -> fr_finished fr0 = true ->
  ip_mtu < f4_hdr + zlen P -> f4_hdr + zlen P <= zlen (fr_buffer fr0) ->
  (forall tf, In tf arr -> fi_key (snd tf) = k ->
     exists p, In p (f4_fragment_datagram ip_mtu ident fr0 P) /\ snd tf = to_frag_in k p) ->
  Forall2 (fun tf r => fi_key (snd tf) = k -> r = None \/ r = Some P)
          arr (snd (rs_run n timeout (pas_new slots) arr)).
Proof.
  intros Hmtu Hfin Hbig Hfit Hin. apply c12_reassembly_exact_or_nothing.
  destruct (fragment_datagram_train ip_mtu ident fr0 P Hmtu Hfin Hbig Hfit) as (Ht & _).
  pose proof (train_pieces ip_mtu ident k P _ 0 ltac:(pose proof (zlen_nonneg P); lia) Ht) as Hp.
  rewrite Forall_forall in Hp. apply Forall_forall. intros tf Htf Hk.
  destruct (Hin tf Htf Hk) as (p & Hpin & ->). apply Hp. exact Hpin.
Qed.

(* ---------- non-vacuity ---------- *)

(* 1208 bytes of IP payload (a 1200-byte UDP datagram) split by the sender model at MTU 576,
   arriving as: last fragment, first, first again (duplicate), middle *)
Definition c12_ex_payload : list Z := map (fun i => Z.of_nat i mod 251) (seq 0 1208).
Definition c12_ex_key : fkey := (4242, 167772162, 167772161, 17).
Definition c12_ex_frags : list frag_in :=
  map (to_frag_in c12_ex_key)
      (f4_fragment_datagram 576 4242 (fr_new cfg_FRAGMENTATION_BUFFER_SIZE) c12_ex_payload).
Definition c12_ex_arrival : list (Z * frag_in) :=
  match c12_ex_frags with
  | [a; b; c] => [(0, c); (1, a); (2, a); (3, b)]
  | _ => []
  end.

Lemma c12_example_permuted_duplicate :
  map (fun f => (fi_offset f, fi_mf f, zlen (fi_payload f))) c12_ex_frags =
    [(0, true, 552); (552, true, 552); (1104, false, 104)] /\
  snd (rs_run cfg_ASSEMBLER_MAX_SEGMENT_COUNT 60000
              (pas_new (Z.to_nat cfg_REASSEMBLY_BUFFER_COUNT)) c12_ex_arrival) =
    [None; None; None; Some c12_ex_payload] /\
  gaps_fit cfg_ASSEMBLER_MAX_SEGMENT_COUNT c12_ex_key [] c12_ex_arrival.
Proof.
  split; [vm_compute; reflexivity|]. split; [vm_compute; reflexivity|].
  vm_compute. repeat split; discriminate.
Qed.

(* a slot that expired is reused: the same arrival with the middle fragment one tick after the
   expiry of the slot delivers nothing *)
Lemma c12_example_expired :
  match c12_ex_frags with
  | [a; b; c] =>
      snd (rs_run cfg_ASSEMBLER_MAX_SEGMENT_COUNT 60000 (pas_new 1) [(0, c); (1, a); (60001, b)])
        = [None; None; None] /\
      snd (rs_run cfg_ASSEMBLER_MAX_SEGMENT_COUNT 60000 (pas_new 1) [(0, c); (1, a); (60000, b)])
        = [None; None; Some c12_ex_payload]
  | _ => False
  end.
Proof. vm_compute. split; reflexivity. Qed.
