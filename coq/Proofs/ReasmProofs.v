(* Lemmas about Model/Reasm.v (property C12, receiver side), on top of the C15 lemmas. *)
From SV Require Import Lib.Base Model.Assembler Proofs.AssemblerProofs Model.Frag4 Proofs.Frag4Proofs Model.Reasm.

(* ---------- bytes of buffers ---------- *)

Lemma nth_firstn_lt {A} (l : list A) d : forall n i, (i < n)%nat -> nth i (firstn n l) d = nth i l d.
Proof.
  induction l as [|a l IH]; intros n i Hi; [rewrite firstn_nil; reflexivity|].
  destruct n; [lia|]. destruct i; [reflexivity|]. cbn. apply IH. lia.
Qed.

Lemma nth_skipn' {A} (l : list A) d : forall n i, nth i (skipn n l) d = nth (n + i) l d.
Proof.
  induction l as [|a l IH]; intros n i; [rewrite skipn_nil; destruct i, n; reflexivity|].
  destruct n; [reflexivity|]. cbn. apply IH.
Qed.

Definition byte_at (l : list Z) (x : Z) : Z := nth (Z.to_nat x) l 0.

Lemma byte_at_grow buf size x : 0 <= x < zlen buf -> byte_at (pa_grow buf size) x = byte_at buf x.
Proof.
  intros Hx. unfold pa_grow, byte_at. destruct (zlen buf <? size); [|reflexivity].
  apply app_nth1. unfold zlen in Hx. lia.
Qed.

Lemma zlen_grow buf size : zlen (pa_grow buf size) = Z.max (zlen buf) size.
Proof.
  unfold pa_grow. destruct (zlen buf <? size) eqn:H; [|lia].
  rewrite zlen_app. unfold zlen at 2. rewrite repeat_length. lia.
Qed.

Lemma byte_at_write buf off data x :
  0 <= off -> off + zlen data <= zlen buf -> 0 <= x ->
  byte_at (f4_write buf off data) x =
  if (off <=? x) && (x <? off + zlen data) then byte_at data (x - off) else byte_at buf x.
Proof.
  intros Ho Hfit Hx. unfold f4_write, byte_at, zlen in *.
  assert (Hl : length (firstn (Z.to_nat off) buf) = Z.to_nat off) by (rewrite firstn_length; lia).
  destruct ((off <=? x) && (x <? off + Z.of_nat (length data))) eqn:Hin.
  - rewrite app_nth2 by lia. rewrite Hl. rewrite app_nth1 by lia. f_equal. lia.
  - destruct (Z_lt_ge_dec x off) as [Hlt | Hge].
    + rewrite app_nth1 by lia. apply nth_firstn_lt. lia.
    + rewrite app_nth2 by lia. rewrite Hl. rewrite app_nth2 by lia.
      rewrite nth_skipn'. f_equal. lia.
Qed.
