(* Lemmas about Model/Reasm.v (property C12, receiver side), on top of the C15 lemmas. *)
From SV Require Import Lib.Base Model.Assembler Proofs.AssemblerProofs Model.Frag4 Proofs.Frag4Proofs Model.Reasm.

(* ---------- bytes of buffers ---------- *)

Lemma nth_firstn_lt {A} (l : list A) d : forall n i, (i < n)%nat -> nth i (firstn n l) d = nth i l d.
Proof.
  induction l as [|a l IH]; intros n i Hi; [rewrite firstn_nil; reflexivity|].
  destruct n; [lia|]. destruct i; [reflexivity|]. cbn. apply IH. lia.
Qed.

Lemma nth_skipn' {A} (l : list A) d : forall n i, nth i (skipn n l) d = nth (n + i) l d.
Proof.
  induction l as [|a l IH]; intros n i; [rewrite skipn_nil; destruct i, n; reflexivity|].
  destruct n; [reflexivity|]. cbn. apply IH.
Qed.

Definition byte_at (l : list Z) (x : Z) : Z := nth (Z.to_nat x) l 0.

Lemma byte_at_grow buf size x : 0 <= x < zlen buf -> byte_at (pa_grow buf size) x = byte_at buf x.
Proof.
  intros Hx. unfold pa_grow, byte_at. destruct (zlen buf <? size); [|reflexivity].
  apply app_nth1. unfold zlen in Hx. lia.
Qed.

Lemma zlen_grow buf size : zlen (pa_grow buf size) = Z.max (zlen buf) size.
Proof.
  unfold pa_grow. destruct (zlen buf <? size) eqn:H; [|lia].
  rewrite zlen_app. unfold zlen at 2. rewrite repeat_length. lia.
Qed.

Lemma byte_at_write buf off data x :
  0 <= off -> off + zlen data <= zlen buf -> 0 <= x ->
  byte_at (f4_write buf off data) x =
  if (off <=? x) && (x <? off + zlen data) then byte_at data (x - off) else byte_at buf x.
Proof.
  intros Ho Hfit Hx. unfold f4_write, byte_at, zlen in *.
  assert (Hl : length (firstn (Z.to_nat off) buf) = Z.to_nat off) by (rewrite firstn_length; lia).
  destruct ((off <=? x) && (x <? off + Z.of_nat (length data))) eqn:Hin.
  - rewrite app_nth2 by lia. rewrite Hl. rewrite app_nth1 by lia. f_equal. lia.
  - destruct (Z_lt_ge_dec x off) as [Hlt | Hge].
    + rewrite app_nth1 by lia. apply nth_firstn_lt. lia.
    + rewrite app_nth2 by lia. rewrite Hl. rewrite app_nth2 by lia.
      rewrite nth_skipn'. f_equal. lia.
Qed.

(* ---------- fragments of one datagram ---------- *)

(* [f] carries a piece of the datagram payload [P]: its bytes are the bytes of [P] at its offset
   (so overlapping and duplicate pieces agree), and a fragment with MF clear ends where [P] ends *)
Definition piece (P : list Z) (f : frag_in) : Prop :=
  0 <= fi_offset f /\ fi_offset f + zlen (fi_payload f) <= zlen P /\
  fi_payload f = f4_slice P (fi_offset f) (zlen (fi_payload f)) /\
  (fi_mf f = false -> fi_offset f + zlen (fi_payload f) = zlen P).

Lemma piece_byte P f x :
  piece P f -> fi_offset f <= x < fi_offset f + zlen (fi_payload f) ->
  byte_at (fi_payload f) (x - fi_offset f) = byte_at P x.
Proof.
  intros (Ho & Hfit & Hd & _) Hx. rewrite Hd at 1. unfold f4_slice, byte_at.
  rewrite nth_firstn_lt by (unfold zlen in *; lia). rewrite nth_skipn'. f_equal. lia.
Qed.

(* what a slot claimed for the datagram [P] may contain: every tracked byte position lies inside
   [P] and inside the buffer and holds [P]'s byte; the total size, if known, is [P]'s *)
Definition slot_ok (P : list Z) (p : pasm) : Prop :=
  asm_wf (pa_asm p) /\
  (forall x, amem 0 (pa_asm p) x ->
     x < zlen P /\ x < zlen (pa_buffer p) /\ byte_at (pa_buffer p) x = byte_at P x) /\
  (pa_total p = None \/ pa_total p = Some (zlen P)).

Lemma slot_ok_fresh P key buf exp : slot_ok P (mkPa key buf [] None exp).
Proof. split; [exact I|]. split; [intros x []|]. left. reflexivity. Qed.

Lemma set_total_ok P p size p1 :
  slot_ok P p -> size = zlen P -> pa_set_total_size p size = Some p1 ->
  slot_ok P p1 /\ pa_key p1 = pa_key p /\ pa_asm p1 = pa_asm p /\ pa_total p1 = Some (zlen P) /\
  pa_expires p1 = pa_expires p.
Proof.
  intros (Hwf & Hb & Ht) -> Hs.
  assert (Hp1 : p1 = mkPa (pa_key p) (pa_grow (pa_buffer p) (zlen P)) (pa_asm p) (Some (zlen P)) (pa_expires p)).
  { unfold pa_set_total_size in Hs. destruct (pa_total p) as [old|].
    - destruct (negb (old =? zlen P)); [discriminate|]. inversion Hs; reflexivity.
    - inversion Hs; reflexivity. }
  subst p1. cbn [pa_key pa_asm pa_total pa_expires]. repeat split; try reflexivity; cbn [pa_asm pa_buffer pa_total].
  - exact Hwf.
  - apply (Hb x H).
  - rewrite zlen_grow. pose proof (Hb x H). lia.
  - pose proof (Hb x H) as (H1 & H2 & H3). rewrite byte_at_grow; [exact H3|].
    pose proof (amem_lower 0 _ x Hwf H). lia.
  - right. reflexivity.
Qed.

Lemma set_total_some P p :
  slot_ok P p -> exists p1, pa_set_total_size p (zlen P) = Some p1.
Proof.
  intros (_ & _ & [Ht | Ht]); unfold pa_set_total_size; rewrite Ht; [eexists; reflexivity|].
  rewrite Z.eqb_refl. cbn [negb]. eexists; reflexivity.
Qed.

Lemma add_ok P n p f :
  slot_ok P p -> piece P f ->
  let p2 := pa_add n p (fi_payload f) (fi_offset f) in
  slot_ok P p2 /\ pa_key p2 = pa_key p /\ pa_total p2 = pa_total p /\ pa_expires p2 = pa_expires p /\
  pa_asm p2 = fst (asm_add n (pa_asm p) (fi_offset f) (zlen (fi_payload f))).
Proof.
  intros (Hwf & Hb & Ht) Hpc. pose proof Hpc as (Ho & Hfit & Hd & Hmf). cbv zeta.
  unfold pa_add. cbn [pa_key pa_total pa_expires pa_asm pa_buffer].
  split; [|repeat split; reflexivity].
  set (off := fi_offset f) in *. set (data := fi_payload f) in *.
  pose proof (zlen_nonneg data) as Hdl.
  assert (Hg : off + zlen data <= zlen (pa_grow (pa_buffer p) (off + zlen data))) by (rewrite zlen_grow; lia).
  unfold slot_ok. cbn [pa_asm pa_buffer pa_total].
  (* the tracked set afterwards: unchanged, or the union *)
  assert (Hasm : asm_wf (fst (asm_add n (pa_asm p) off (zlen data))) /\
                 forall x, amem 0 (fst (asm_add n (pa_asm p) off (zlen data))) x ->
                           amem 0 (pa_asm p) x \/ off <= x < off + zlen data).
  { destruct (asm_add n (pa_asm p) off (zlen data)) as (l', ok) eqn:Hadd. cbn [fst]. destruct ok.
    - destruct (add_ok_spec n _ off (zlen data) l' Hwf Ho Hdl Hadd) as (-> & _).
      destruct (add_unb_spec (pa_asm p) off (zlen data) Hwf Ho Hdl) as (Hw' & Hm).
      split; [exact Hw'|]. intros x Hx. apply Hm in Hx. replace (0 + off) with off in Hx by lia. exact Hx.
    - unfold asm_add in Hadd. destruct (zlen data =? 0); [discriminate|].
      destruct (asm_add_go _ _ _ _); [discriminate|]. inversion Hadd; subst.
      split; [exact Hwf|]. intros x Hx. left. exact Hx. }
  destruct Hasm as (Hwf' & Hmem).
  split; [exact Hwf'|]. split; [|exact Ht].
  intros x Hx. pose proof (amem_lower 0 _ x Hwf' Hx) as Hx0.
  rewrite write_length by lia. rewrite zlen_grow.
  rewrite byte_at_write by lia.
  destruct ((off <=? x) && (x <? off + zlen data)) eqn:Hin.
  - assert (Hr : off <= x < off + zlen data) by lia.
    split; [lia|]. split; [lia|]. apply (piece_byte P f x Hpc Hr).
  - destruct (Hmem x Hx) as [Hold | Hnew]; [|lia].
    destruct (Hb x Hold) as (H1 & H2 & H3). split; [exact H1|]. split; [lia|].
    rewrite byte_at_grow by lia. exact H3.
Qed.

(* assemble on a slot of [P]: nothing, or exactly [P] *)
Lemma assemble_ok P p :
  slot_ok P p ->
  (pa_assemble p = (p, None) /\ pa_is_complete p = false) \/
  (pa_assemble p = (pa_reset p, Some P) /\ pa_is_complete p = true).
Proof.
  intros (Hwf & Hb & Ht). unfold pa_assemble. destruct (pa_is_complete p) eqn:Hc; [|left; split; reflexivity].
  right. split; [|reflexivity]. unfold pa_is_complete in Hc.
  destruct (pa_total p) as [t|] eqn:Htot; [|discriminate].
  destruct Ht as [Ht | Ht]; [discriminate|]. inversion Ht; subst t. clear Ht.
  f_equal. f_equal.
  assert (Hpk : asm_peek_front (pa_asm p) = zlen P) by lia. clear Hc.
  destruct (Z.eq_dec (zlen P) 0) as [Hz | Hnz].
  - rewrite Hz. cbn. unfold zlen in Hz. destruct P; [reflexivity | cbn in Hz; lia].
  - (* the front contig covers [0, |P|) *)
    assert (Hcov : forall x, 0 <= x < zlen P -> amem 0 (pa_asm p) x).
    { intros x Hx. unfold asm_peek_front in Hpk. destruct (pa_asm p) as [|c r]; [pose proof (zlen_nonneg P); lia|].
      destruct (c_hole c =? 0) eqn:Hh; [|pose proof (zlen_nonneg P); lia].
      cbn [amem]. left. unfold c_total. lia. }
    pose proof (zlen_nonneg P) as HP0.
    assert (Hlen : zlen P <= zlen (pa_buffer p)).
    { destruct (Hb (zlen P - 1) (Hcov (zlen P - 1) ltac:(lia))) as (_ & H & _). lia. }
    apply (nth_ext _ _ 0 0).
    + rewrite firstn_length. unfold zlen in *. lia.
    + intros i Hi. rewrite firstn_length in Hi.
      rewrite nth_firstn_lt by lia.
      destruct (Hb (Z.of_nat i) (Hcov (Z.of_nat i) ltac:(unfold zlen in *; lia))) as (_ & _ & H).
      unfold byte_at in H. rewrite Nat2Z.id in H. exact H.
Qed.

Lemma reset_fresh p : pa_key (pa_reset p) = None /\ pa_asm (pa_reset p) = [] /\ pa_total (pa_reset p) = None.
Proof. repeat split. Qed.

(* ---------- the slot set ---------- *)

Lemma fkey_eqb_eq a b : fkey_eqb a b = true <-> a = b.
Proof.
  destruct a as (((a1, a2), a3), a4), b as (((b1, b2), b3), b4). unfold fkey_eqb.
  rewrite !andb_true_iff, !Z.eqb_eq. split.
  - intros (((-> & ->) & ->) & ->). reflexivity.
  - intros H; inversion H; subst. repeat split.
Qed.

Lemma has_key_iff k p : pa_has_key k p = true <-> pa_key p = Some k.
Proof.
  unfold pa_has_key. destruct (pa_key p) as [k'|]; [|split; discriminate].
  rewrite fkey_eqb_eq. split; [intros ->; reflexivity | intros H; inversion H; reflexivity].
Qed.

Lemma is_free_iff p : pa_is_free p = true <-> pa_key p = None.
Proof. unfold pa_is_free. destruct (pa_key p); split; congruence. Qed.

(* per-slot invariant relative to the datagram [P] sent under key [k]: free slots are fresh, a
   slot claimed for [k] is consistent with [P] *)
Definition slot_inv (k : fkey) (P : list Z) (p : pasm) : Prop :=
  (pa_key p = None -> pa_asm p = [] /\ pa_total p = None) /\
  (pa_key p = Some k -> slot_ok P p).

Definition set_ok (k : fkey) (P : list Z) (s : paset) : Prop := Forall (slot_inv k P) s.

Lemma update_length : forall s i p, length (pas_update s i p) = length s.
Proof. induction s as [|q s IH]; intros [|i] p; cbn; try reflexivity; rewrite IH; reflexivity. Qed.

Lemma update_nth : forall s i p d, (i < length s)%nat -> nth i (pas_update s i p) d = p.
Proof.
  induction s as [|q s IH]; intros [|i] p d Hi; cbn in *; try lia; [reflexivity|]. apply IH. lia.
Qed.

Lemma update_nth_other : forall s i j p d, i <> j -> nth j (pas_update s i p) d = nth j s d.
Proof.
  induction s as [|q s IH]; intros [|i] [|j] p d Hij; cbn; try reflexivity; try congruence.
  apply IH. congruence.
Qed.

Lemma update_Forall (Q : pasm -> Prop) : forall s i p, Forall Q s -> Q p -> Forall Q (pas_update s i p).
Proof.
  induction s as [|q s IH]; intros [|i] p Hs Hp; cbn; try constructor; inversion Hs; subst; auto.
Qed.

Lemma Forall_nth_pa (Q : pasm -> Prop) s i : Forall Q s -> (i < length s)%nat -> Q (nth i s pa_new).
Proof. intros H Hi. rewrite Forall_forall in H. apply H. apply nth_In. exact Hi. Qed.

(* the scan of get(): the result is the caller's fallback, or a slot that has the key or is free *)
Lemma pas_find_spec k : forall s i0 e j,
  pas_find k s i0 e = Some j ->
  e = Some j \/
  ((i0 <= j < i0 + length s)%nat /\
   (pa_key (nth (j - i0) s pa_new) = Some k \/ pa_key (nth (j - i0) s pa_new) = None)).
Proof.
  induction s as [|p s IH]; intros i0 e j H; cbn [pas_find] in H; [left; exact H|].
  destruct (pa_has_key k p) eqn:Hk.
  - inversion H; subst j. right. split; [cbn; lia|]. rewrite Nat.sub_diag. cbn. left. apply has_key_iff. exact Hk.
  - apply IH in H. destruct H as [H | (Hr & Hs)].
    + destruct (pa_is_free p) eqn:Hf.
      * inversion H; subst j. right. split; [cbn; lia|]. rewrite Nat.sub_diag. cbn. right. apply is_free_iff. exact Hf.
      * left. exact H.
    + right. split; [cbn [length]; lia|].
      replace (j - i0)%nat with (S (j - S i0)) by lia. cbn [nth]. exact Hs.
Qed.

Lemma pas_get_spec s k exp i s1 :
  pas_get s k exp = Some (i, s1) ->
  (i < length s)%nat /\
  let p0 := nth i s pa_new in
  (pa_key p0 = Some k /\ s1 = s) \/
  (pa_key p0 = None /\
   s1 = pas_update s i (mkPa (Some k) (pa_buffer p0) (pa_asm p0) (pa_total p0) exp)).
Proof.
  unfold pas_get. destruct (pas_find k s 0 None) as [j|] eqn:Hf; [|discriminate].
  apply pas_find_spec in Hf. destruct Hf as [Hf | (Hr & Hs)]; [discriminate|].
  rewrite Nat.sub_0_r in Hs.
  destruct (pa_has_key k (nth j s pa_new)) eqn:Hk; intros H; inversion H; subst i s1; clear H.
  - split; [lia|]. left. split; [apply has_key_iff; exact Hk | reflexivity].
  - split; [lia|]. right. split; [|reflexivity].
    destruct Hs as [Hs | Hs]; [|exact Hs]. apply has_key_iff in Hs. congruence.
Qed.

Lemma set_total_key p size p1 : pa_set_total_size p size = Some p1 -> pa_key p1 = pa_key p.
Proof.
  unfold pa_set_total_size. destruct (pa_total p) as [old|].
  - destruct (negb (old =? size)); [discriminate|]. intros H; inversion H; reflexivity.
  - intros H; inversion H; reflexivity.
Qed.

Lemma assemble_cases p :
  pa_assemble p = (p, None) \/ exists d, pa_assemble p = (pa_reset p, Some d).
Proof.
  unfold pa_assemble. destruct (pa_is_complete p); [|left; reflexivity].
  destruct (pa_total p); [right; eexists; reflexivity | left; reflexivity].
Qed.

Lemma slot_inv_reset k P p : slot_inv k P (pa_reset p).
Proof. split; [intros _; split; reflexivity | cbn; discriminate]. Qed.

Lemma remove_expired_ok k P s t : set_ok k P s -> set_ok k P (pas_remove_expired s t).
Proof.
  intros H. unfold pas_remove_expired, set_ok. apply Forall_map. eapply Forall_impl; [|exact H].
  intros p Hp. cbn. destruct (negb (pa_is_free p) && (pa_expires p <? t)); [apply slot_inv_reset | exact Hp].
Qed.

(* one received packet: the invariant is kept, and a packet of key [k] delivers nothing or [P] *)
Lemma process_safe k P n timeout now s f :
  set_ok k P s -> (fi_key f = k -> piece P f) ->
  let '(s', r) := rs_process_ipv4 n timeout now s f in
  set_ok k P s' /\ (fi_key f = k -> r = None \/ r = Some P).
Proof.
  intros Hs Hpc. unfold rs_process_ipv4.
  destruct (fi_mf f || negb (fi_offset f =? 0)) eqn:Hfrag.
  2:{ split; [exact Hs|]. intros Hk. right. f_equal.
      apply orb_false_iff in Hfrag. destruct Hfrag as (Hmf & Ho).
      destruct (Hpc Hk) as (_ & _ & Hd & Hlast). specialize (Hlast Hmf).
      assert (Ho0 : fi_offset f = 0) by lia. rewrite Ho0 in *.
      rewrite Hd. unfold f4_slice. cbn [Z.to_nat skipn]. replace (0 + zlen (fi_payload f)) with (zlen (fi_payload f)) in Hlast by lia.
      rewrite Hlast. unfold zlen. rewrite Nat2Z.id. apply firstn_all. }
  destruct (pas_get s (fi_key f) (now + timeout)) as [(i, s1)|] eqn:Hget.
  2:{ split; [exact Hs|]. intros _. left. reflexivity. }
  destruct (pas_get_spec _ _ _ _ _ Hget) as (Hi & Hcases). cbv zeta in Hcases.
  (* the claimed slot and the set after claiming *)
  assert (Hs1 : set_ok k P s1 /\ pa_key (nth i s1 pa_new) = Some (fi_key f) /\ length s1 = length s).
  { destruct Hcases as [(Hk0 & ->) | (Hk0 & ->)]; [repeat split; assumption|].
    pose proof (Forall_nth_pa _ s i Hs Hi) as (Hfresh & _). destruct (Hfresh Hk0) as (Ha & Ht).
    split; [|split; [rewrite update_nth by exact Hi; reflexivity | apply update_length]].
    apply update_Forall; [exact Hs|]. split; [cbn; discriminate|].
    intros _. rewrite Ha, Ht. apply slot_ok_fresh. }
  destruct Hs1 as (Hs1 & Hkey & Hlen).
  set (p := nth i s1 pa_new) in *.
  assert (Hpinv : slot_inv k P p) by (apply Forall_nth_pa; [exact Hs1 | lia]).
  destruct (if negb (fi_mf f) then pa_set_total_size p (zlen (fi_payload f) + fi_offset f) else Some p)
    as [p1|] eqn:Hst.
  2:{ split; [exact Hs1|]. intros _. left. reflexivity. }
  destruct (fkey_eqb (fi_key f) k) eqn:Hkk.
  - (* a piece of P *)
    apply fkey_eqb_eq in Hkk. specialize (Hpc Hkk). rewrite Hkk in Hkey.
    pose proof (proj2 Hpinv Hkey) as Hok.
    assert (Hok1 : slot_ok P p1 /\ pa_key p1 = Some k).
    { destruct (fi_mf f) eqn:Hmf; cbn [negb] in Hst.
      - inversion Hst; subst p1. split; assumption.
      - destruct Hpc as (_ & _ & _ & Hlast). specialize (Hlast Hmf).
        destruct (set_total_ok P p (zlen (fi_payload f) + fi_offset f) p1 Hok ltac:(lia) Hst) as (H1 & H2 & _). split; [exact H1 | congruence]. }
    destruct Hok1 as (Hok1 & Hkey1).
    pose proof (add_ok P n p1 f Hok1 Hpc) as Hadd. cbv zeta in Hadd.
    destruct Hadd as (Hok2 & Hkey2 & _).
    set (p2 := pa_add n p1 (fi_payload f) (fi_offset f)) in *.
    destruct (assemble_ok P p2 Hok2) as [(Ha & _) | (Ha & _)]; rewrite Ha.
    + split; [|intros _; left; reflexivity]. apply update_Forall; [exact Hs1|].
      split; [rewrite Hkey2, Hkey1; discriminate | intros _; exact Hok2].
    + split; [|intros _; right; reflexivity]. apply update_Forall; [exact Hs1 | apply slot_inv_reset].
  - (* another key: the slots of [k] are not touched *)
    assert (Hne : fi_key f <> k) by (intros H; apply fkey_eqb_eq in H; congruence).
    assert (Hkey1 : pa_key p1 = Some (fi_key f)).
    { destruct (negb (fi_mf f)); [rewrite (set_total_key _ _ _ Hst); exact Hkey | inversion Hst; subst; exact Hkey]. }
    set (p2 := pa_add n p1 (fi_payload f) (fi_offset f)).
    assert (Hkey2 : pa_key p2 = Some (fi_key f)) by exact Hkey1.
    destruct (assemble_cases p2) as [Ha | (d & Ha)]; rewrite Ha; (split; [|intros H; congruence]).
    + apply update_Forall; [exact Hs1|]. split; [rewrite Hkey2; discriminate|].
      rewrite Hkey2. intros H; inversion H; congruence.
    + apply update_Forall; [exact Hs1 | apply slot_inv_reset].
Qed.

Lemma poll_safe k P n timeout now s f :
  set_ok k P s -> (fi_key f = k -> piece P f) ->
  let '(s', r) := rs_poll n timeout now s f in
  set_ok k P s' /\ (fi_key f = k -> r = None \/ r = Some P).
Proof. intros Hs Hpc. unfold rs_poll. apply process_safe; [apply remove_expired_ok; exact Hs | exact Hpc]. Qed.

Lemma set_ok_new k P slots : set_ok k P (pas_new slots).
Proof.
  unfold set_ok, pas_new. apply Forall_forall. intros p Hp. apply repeat_spec in Hp. subst p.
  split; [intros _; split; reflexivity | cbn; discriminate].
Qed.

(* C12 reassembly_exact_or_nothing: any arrival history (any order, any duplicates, any times,
   other datagrams interleaved arbitrarily) in which every packet with key [k] is a piece of [P]:
   whatever is delivered at an arrival of key [k] is exactly [P] *)
Lemma run_safe k P n timeout : forall arr s,
  set_ok k P s -> Forall (fun tf => fi_key (snd tf) = k -> piece P (snd tf)) arr ->
  Forall2 (fun tf r => fi_key (snd tf) = k -> r = None \/ r = Some P)
          arr (snd (rs_run n timeout s arr)).
Proof.
  induction arr as [|(t, f) rest IH]; intros s Hs Harr; cbn [rs_run]; [constructor|].
  inversion Harr as [|? ? Hf Hrest]; subst. cbn [snd] in Hf.
  pose proof (poll_safe k P n timeout t s f Hs Hf) as H1.
  destruct (rs_poll n timeout t s f) as (s1, r). destruct H1 as (Hs1 & Hr).
  specialize (IH s1 Hs1 Hrest). destruct (rs_run n timeout s1 rest) as (s2, rs). cbn [snd] in *.
  constructor; [exact Hr | exact IH].
Qed.

Lemma c12_reassembly_exact_or_nothing k P n timeout slots arr :
  Forall (fun tf => fi_key (snd tf) = k -> piece P (snd tf)) arr ->
  Forall2 (fun tf r => fi_key (snd tf) = k -> r = None \/ r = Some P)
          arr (snd (rs_run n timeout (pas_new slots) arr)).
Proof. apply run_safe. apply set_ok_new. Qed.
