(* C02 (liveness half), quiescence, layer 3: THE CONNECTION BECOMES QUIET.
   One-way regime, A's transmit queue empty, everything read by B's application, the applications neither
   write nor close, reliable schedule, the static facts [qstatic] in every state.  Then
     Z0  (<= Dt)   every frame still tracked when the phase begins is delivered; what the two sockets emit
                   meanwhile are bare ACKs numbered X / Y that acknowledge Y / X (they have nothing else to send)
     Z1  (<= Dack) B sends the ACK / window update it still owes, if any - and owes nothing from then on
     Z2  (0)       the same for A (no delayed-ACK timer runs at A)
     Z3  (<= Dt)   nothing is emitted any more; what is still tracked is delivered
   connection_becomes_quiet: before A's clock has advanced by 2 Dt + Dack the run passes through a state with
   nothing tracked, nothing owed, both timers idle - [quiet], the start of the orderly close. *)
From SV Require Import Lib.Base Gen.Consts.
From SV Require Import Model.Seq32 Model.Assembler Model.TcpBuf Model.TcpTypes Model.Tcp Model.TcpNet.
From SV Require Proofs.TcpRecvBase Proofs.TcpRecvInv Proofs.TcpRecvProcess Proofs.TcpRecvDispatch.
From SV Require Import Proofs.TcpSendBase Proofs.TcpLiveBase Proofs.TcpLiveProofs Proofs.TcpLiveMore
  Proofs.TcpLiveProgress.
From SV Require Import Proofs.TcpNetBase.
From SV Require Import Proofs.TcpProgressBase Proofs.TcpProgressFrame Proofs.TcpProgressCtl Proofs.TcpProgressRecv
  Proofs.TcpProgressSend Proofs.TcpProgressNet Proofs.TcpProgressData Proofs.TcpProgressAck
  Proofs.TcpProgressAll Proofs.TcpProgressSafe Proofs.TcpProgressHs Proofs.TcpProgressHsD
  Proofs.TcpProgressZwp Proofs.TcpProgressExample Proofs.TcpProgressWitness Proofs.TcpProgressZwDup
  Proofs.TcpProgressZw1 Proofs.TcpProgressZw1b Proofs.TcpProgressZw2 Proofs.TcpProgressZw3 Proofs.TcpProgressZw4
  Proofs.TcpProgressZw7
  Proofs.TcpProgressCl1 Proofs.TcpProgressCl2 Proofs.TcpProgressCl3 Proofs.TcpProgressCl4 Proofs.TcpProgressCl5
  Proofs.TcpProgressCl10 Proofs.TcpProgressCl11.

Notation sz st z := (net_sock st z).

(* the applications neither write nor close *)
Definition qev (ev : net_event) : Prop := match ev with NSend _ _ | NClose _ => False | _ => True end.

Lemma qev_nosend ev : qev ev -> nosend ev.
Proof. destruct ev; cbn; auto. Qed.

Lemma qev_script ev : qev ev -> script_ev SA ev.
Proof. destruct ev; cbn; auto; contradiction. Qed.

Section Quiet.
Variables Dt Da Dack dk : Z.
Variable tA : tuple.
Variables X Y : Z.
Hypothesis HDt : 0 <= Dt.

Notation QRd := (QR Dack).

Lemma QR_zsafe st : QRd st -> zsafe SA st.
Proof.
  intros (HN & Ho & HG & HI & Hsm & (Hq & Hcw & _)). apply (zsafe_of_reg SA Dack); try assumption.
  split; [|intros _; exact Hcw]. destruct (Hq SA) as (_ & _ & Ht & _). rewrite Ht. discriminate.
Qed.

(* everything written is read: all offsets coincide *)
Lemma drained_all st :
  QRd st -> drained st ->
  una_off (net_get st SA) = l_len (ep_written (net_get st SA)) /\
  read_off (net_get st SB) = l_len (ep_written (net_get st SA)).
Proof.
  intros HQ (Htx & Hrd). pose proof (QR_zsafe st HQ) as HZ.
  destruct (zs_cross SA st HZ) as (_ & Hk0 & Hk1). cbn [side_other] in *. unfold net_sock in *.
  assert (Hu : una_off (net_get st SA) = l_len (ep_written (net_get st SA))) by (unfold una_off; lia).
  split; [exact Hu | lia].
Qed.

Lemma drained_step fa st ev st' :
  QRd st -> QRd st' -> drained st -> qev ev -> fair_ev fa st ev -> net_step st ev = Ok st' -> drained st'.
Proof.
  intros HQ HQ' HD Hev Hfe H. destruct (drained_all st HQ HD) as (Hu & Hr).
  pose proof (QR_zsafe st HQ) as HZ. pose proof (QR_zsafe st' HQ') as HZ'.
  destruct HQ as (HN & Ho & _). destruct HQ' as (HN' & _).
  pose proof (una_step_mono SA fa st ev st' HN Ho HZ HZ' Hfe H) as Hum.
  pose proof (written_nosend st ev st' SA H (qev_nosend _ Hev)) as Hw.
  destruct (zsafe_bounds SA st' HN' HZ') as (B1 & B2 & B3). cbn [side_other] in *.
  assert (Hrm : read_off (net_get st SB) <= read_off (net_get st' SB)).
  { destruct (net_step_mono _ _ _ H SB) as (_ & Hrp & _). apply TcpNetCompose_l_len_prefix in Hrp. exact Hrp. }
  rewrite Hw in *. split; [|lia].
  pose proof (NI_live st' SA HN') as Il. pose proof (li_tx _ Il) as ((Hl0 & _) & _).
  unfold una_off, net_sock in *. rewrite Hw in *. lia.
Qed.

(* the parameters of the pair: A's address tuple, SND.UNA of A, SND.UNA of B *)
Definition Par (st : net) : Prop :=
  s_tuple (sz st SA) = Some tA /\ s_local_seq_no (sz st SA) = X /\ s_local_seq_no (sz st SB) = Y.

Lemma mirror_inj a b : mirror a = mirror b -> a = b.
Proof. intros H. rewrite <- (mirror_mirror a), <- (mirror_mirror b), H. reflexivity. Qed.

(* the views with the parameters fixed *)
Lemma views st :
  QRd st -> drained st -> Par st ->
  tuple_nz tA /\ 0 <= X < 4294967296 /\ 0 <= Y < 4294967296 /\
  qsock (cxz st SA) (sz st SA) tA X Y /\ qsock (cxz st SB) (sz st SB) (mirror tA) Y X /\
  mlim (rt_max_seq_sent (s_rtte (sz st SA))) X /\ mlim (rt_max_seq_sent (s_rtte (sz st SB))) Y /\
  match rt_max_seq_sent (s_rtte (sz st SB)) with Some m => seq_gt m Y = false | None => True end.
Proof.
  intros HQ HD (P1 & P2 & P3).
  destruct (regime_views Dack st HQ HD) as (t' & Hnz & HX & HY & QA & QB & M1 & M2 & M3). cbv zeta in *.
  assert (Et : t' = tA) by (pose proof (k_tuple _ _ _ (qs_k _ _ _ _ _ QA)) as E; unfold net_sock in *; congruence).
  subst t'. rewrite P2, P3 in *. auto 10.
Qed.

(* a step touches the socket of one endpoint only *)
Lemma one_side_sock st ev st' :
  net_step st ev = Ok st' -> sz st' SB = sz st SB \/ sz st' SA = sz st SA.
Proof.
  intros H. unfold net_sock.
  destruct (net_step_kind _ _ _ H) as [w ev0 e' Hse He -> | to i -> _ -> | d -> -> | w isn ts -> -> | to i Hd].
  - destruct w; [left | right]; reflexivity.
  - left. reflexivity.
  - left. reflexivity.
  - destruct w; [left | right]; reflexivity.
  - unfold net_step in H. destruct Hd as [-> | ->]; inversion H; subst; destruct to; [right | left | right | left]; reflexivity.
Qed.

(* the parameters, which each socket shares with its peer, stay *)
Lemma par_step st ev st' :
  QRd st -> QRd st' -> drained st -> drained st' -> Par st -> net_step st ev = Ok st' -> Par st'.
Proof.
  intros HQ HQ' HD HD' HP H.
  destruct (views st HQ HD HP) as (_ & _ & _ & QA & QB & _).
  destruct (regime_views Dack st' HQ' HD') as (t' & _ & _ & _ & QA' & QB' & _). cbv zeta in *.
  pose proof (k_tuple _ _ _ (qs_k _ _ _ _ _ QA)) as TA. pose proof (k_tuple _ _ _ (qs_k _ _ _ _ _ QB)) as TB.
  pose proof (k_tuple _ _ _ (qs_k _ _ _ _ _ QA')) as TA'. pose proof (k_tuple _ _ _ (qs_k _ _ _ _ _ QB')) as TB'.
  pose proof (qs_ws _ _ _ _ _ QA) as WA. pose proof (qs_ws _ _ _ _ _ QB) as WB.
  pose proof (qs_ws _ _ _ _ _ QA') as WA'. pose proof (qs_ws _ _ _ _ _ QB') as WB'.
  pose proof (qs_una _ _ _ _ _ QA) as UA. pose proof (qs_una _ _ _ _ _ QB) as UB.
  unfold Par. destruct (one_side_sock st ev st' H) as [E | E]; rewrite E in *.
  - assert (Et : t' = tA) by (apply mirror_inj; congruence). subst t'.
    split; [exact TA'|]. split; [rewrite <- WB'; exact WB | exact UB].
  - assert (Et : t' = tA) by congruence. subst t'.
    split; [exact TA|]. split; [exact UA | rewrite <- WA'; exact WA].
Qed.

(* ---------------------------------------------------------------------------------------- *)
(* what the two sockets emit now: bare ACKs that the peer takes in order                      *)
(* ---------------------------------------------------------------------------------------- *)
Definition tupz (z : side) : tuple := match z with SA => tA | SB => mirror tA end.
Definition unaz (z : side) : Z := match z with SA => X | SB => Y end.

(* a frame towards z: a bare ACK of the peer, numbered with its SND.UNA, acknowledging z's *)
Definition nice (z : side) (p : packet) : Prop :=
  is_seg (tupz (side_other z)) CNone (unaz (side_other z)) (unaz z) p.

(* the frames towards z with index >= n z that are still tracked are such ACKs *)
Definition niceN (n : side -> nat) (fa : fair_aux) (st : net) : Prop :=
  forall z j p t, (n z <= j)%nat -> nth_error (chan_to st z) j = Some p ->
                  nth_error (fa_dl fa z) j = Some (Some t) -> nice z p.

Lemma niceN_step n fa st ev st' :
  dl_sync Da fa st -> fair_ev fa st ev -> net_step st ev = Ok st' -> niceN n fa st ->
  (forall z p, chan_to st' z = chan_to st z ++ [p] -> nice z p) ->
  niceN n (fa_after Dt Da fa ev st') st'.
Proof.
  intros (Hlen & _) Hfe H Hw Hnew z j q t Hn0 Hn Hdl.
  destruct (fair_step_chan _ _ _ _ z Hfe H) as (l & Hch & Hl1).
  destruct (Nat.lt_ge_cases j (length (chan_to st z))) as [Hj | Hj].
  - rewrite Hch, nth_error_app1 in Hn by exact Hj.
    apply (Hw z j q t Hn0 Hn). apply (fa_after_dl_old Dt Da fa ev st' z j t); [rewrite (Hlen z); exact Hj | exact Hdl].
  - rewrite Hch in Hn. rewrite nth_error_app2 in Hn by exact Hj.
    destruct l as [|q0 [|q1 l]]; cbn [length] in Hl1; try lia.
    + destruct (j - length (chan_to st z))%nat; discriminate.
    + destruct (j - length (chan_to st z))%nat as [|k] eqn:Ek; [|destruct k; discriminate].
      cbn in Hn. inversion Hn; subst q0. apply Hnew. exact Hch.
Qed.

(* the part of every phase that is kept by every step *)
Definition K0 (fa : fair_aux) (st : net) : Prop :=
  base SA Da dk fa st /\ dlb Dt fa st /\ drained st /\ Par st.

Lemma K0_step fa st ev st' :
  qev ev -> QRd st -> QRd st' -> K0 fa st -> fair_ev fa st ev -> net_step st ev = Ok st' ->
  K0 (fa_after Dt Da fa ev st') st'.
Proof.
  intros Hev HQ HQ' (HB & Hb & HD & HP) Hfe H.
  pose proof (drained_step fa st ev st' HQ HQ' HD Hev Hfe H) as HD'.
  split; [exact (base_step SA Dt Da dk _ _ _ _ HB Hfe H)|].
  split; [exact (dlb_after Dt Da _ _ _ _ HDt Hb Hfe H)|].
  split; [exact HD' | exact (par_step st ev st' HQ HQ' HD HD' HP H)].
Qed.

Lemma side_views st z :
  QRd st -> drained st -> Par st ->
  qsock (cxz st z) (sz st z) (tupz z) (unaz z) (unaz (side_other z)) /\ tuple_nz (tupz z) /\
  0 <= unaz z < 4294967296 /\ 0 <= unaz (side_other z) < 4294967296.
Proof.
  intros HQ HD HP. destruct (views st HQ HD HP) as (Hnz & HX & HY & QA & QB & _).
  destruct z; cbn [tupz unaz side_other].
  - auto.
  - split; [exact QB|]. split; [exact (mirror_nz' _ Hnz) | auto].
Qed.

Lemma chan_len_absurd {A} (l : list A) (p : A) : l = l ++ [p] -> False.
Proof. intros H. apply (f_equal (@length A)) in H. rewrite app_length in H. cbn in H. lia. Qed.

(* every frame emitted in the regime is such an ACK *)
Lemma emit_nice fa st ev st' z p :
  qev ev -> QRd st -> QRd st' -> K0 fa st -> fair_ev fa st ev -> net_step st ev = Ok st' ->
  chan_to st' z = chan_to st z ++ [p] -> nice z p.
Proof.
  intros Hev HQ HQ' HK Hfe H Hch.
  pose proof (K0_step fa st ev st' Hev HQ HQ' HK Hfe H) as (_ & _ & HD' & HP').
  destruct HK as (_ & _ & HD & HP).
  destruct (net_step_kind _ _ _ H) as [w ev0 e' Hse He Est | to i _ _ Est | d _ Est | w isn ts _ Est | to i Hd].
  - destruct (sock_step_pieces st w ev0 e' He) as (s' & out & tags & Hs & E1 & E2 & E3 & E4 & E5).
    rewrite <- Est in E1, E2, E3, E4, E5.
    destruct (side_cases w z) as [-> | ->].
    { exfalso. rewrite E4 in Hch. exact (chan_len_absurd _ _ Hch). }
    rewrite E5 in Hch. apply app_inv_head in Hch.
    destruct (wire_out out) as [p0|] eqn:Ew; cbn [opt_list] in Hch; [|discriminate]. inversion Hch; subst p0; clear Hch.
    unfold nice. rewrite side_other_inv.
    destruct (side_views st w HQ HD HP) as (QS & Hnz & Hu & Hv).
    destruct (side_views st' w HQ' HD' HP') as (QS' & _). rewrite E1, E2 in QS'.
    destruct ev as [to i | to i | to i | d | z0 i1 t1 | z0 ok | z0 data | z0 n | z0]; cbn [sock_event qev] in *; try contradiction.
    + (* a reply *)
      destruct Hse as (_ & q & Hn & ->).
      pose proof (QR_zsafe st HQ) as HZ. pose proof (nth_error_In _ _ Hn) as Hin.
      cbn [tcp_step] in Hs. apply obind_ok in Hs. destruct Hs as (((s1 & rp) & tg) & Hi & Hs).
      assert (Eo : s1 = s' /\ out = OReply rp) by (inversion Hs; auto). destruct Eo as (-> & ->).
      rewrite (ingress_is_process _ _ _ (zs_acc SA st HZ w q Hin)) in Hi.
      pose proof (process_reply_shape _ _ _ _ _ _ _ Hi) as Hsh.
      destruct rp as [p1|]; cbn [wire_out] in Ew; [|discriminate]. inversion Ew; subst p1; clear Ew.
      cbn [reply_shape] in Hsh. destruct Hsh as (Hrt & Hsh).
      pose proof (qs_state _ _ _ _ _ QS) as Hest.
      destruct Hsh as [(_ & [Hc | Hc]) | (S1 & S2 & S3 & S4)]; [rewrite Hest in Hc; discriminate | rewrite Hest in Hc; discriminate|].
      destruct HQ as (_ & _ & HG & _).
      destruct (rg_chan SA Dack st HG w q _ Hin (k_tuple _ _ _ (qs_k _ _ _ _ _ QS))) as (Hto & _).
      apply sent_to_parse in Hto. destruct Hto as (T1 & T2 & T3 & T4). destruct Hrt as (R1 & R2 & R3 & R4).
      unfold is_seg, sent_from. rewrite S3, S4, (qs_snx _ _ _ _ _ QS'), (qs_ws _ _ _ _ _ QS').
      repeat split; congruence.
    + (* a poll *)
      destruct Hse as (_ & ->). cbn [fair_ev] in Hfe. subst ok.
      destruct (step_est_poll _ _ _ _ _ _ _ _ QS Hs) as [(p' & Hw & Hp & _) | (Hw & _)]; [|congruence].
      rewrite Ew in Hw. inversion Hw; subst p'. exact Hp.
    + destruct Hse as (_ & ->).
      destruct (quiet_event _ _ _ _ _ _ ltac:(right; eexists; reflexivity) Hs) as (X0 & _). congruence.
  - exfalso. rewrite Est in Hch. exact (chan_len_absurd _ _ Hch).
  - exfalso. assert (E : chan_to st' z = chan_to st z) by (rewrite Est; destruct z; reflexivity).
    rewrite E in Hch. exact (chan_len_absurd _ _ Hch).
  - exfalso. assert (E : chan_to st' z = chan_to st z).
    { rewrite Est. unfold chan_to. destruct (side_cases w (side_other z)) as [-> | ->];
        rewrite ?net_get_set_same, ?net_get_set_other; reflexivity. }
    rewrite E in Hch. exact (chan_len_absurd _ _ Hch).
  - destruct Hd as [-> | ->]; destruct Hfe.
Qed.

(* ---------------------------------------------------------------------------------------- *)
(* Z0: what was tracked when the phase began is delivered                                    *)
(* ---------------------------------------------------------------------------------------- *)
Definition is_trk (o : option Z) : bool := match o with Some _ => true | None => false end.
Definition trk_lt (k : nat) (l : list (option Z)) : bool := existsb is_trk (firstn k l).

Lemma nth_firstn {A} (l : list A) : forall k j, (j < k)%nat -> nth_error (firstn k l) j = nth_error l j.
Proof.
  induction l as [|a l IH]; intros [|k] [|j] H; cbn; try reflexivity; try lia.
  apply IH. lia.
Qed.

Lemma trk_lt_true k l : trk_lt k l = true -> exists j t, (j < k)%nat /\ nth_error l j = Some (Some t).
Proof.
  unfold trk_lt. intros H. apply existsb_exists in H. destruct H as (o & Hin & Ho).
  destruct o as [t|]; [|discriminate]. apply In_nth_error in Hin. destruct Hin as (j & Hj).
  assert (Hlt : (j < length (firstn k l))%nat) by (apply nth_error_Some; congruence).
  rewrite firstn_length in Hlt. exists j, t. split; [lia|].
  rewrite <- Hj. symmetry. apply nth_firstn. lia.
Qed.

Lemma trk_lt_false k l j t : trk_lt k l = false -> (j < k)%nat -> nth_error l j <> Some (Some t).
Proof.
  unfold trk_lt. intros H Hj Hn.
  assert (Hex : existsb is_trk (firstn k l) = true).
  { apply existsb_exists. exists (Some t). split; [|reflexivity].
    apply (nth_error_In _ j). rewrite nth_firstn by exact Hj. exact Hn. }
  congruence.
Qed.

Definition off (z : side) : Z := match z with SA => 0 | SB => dk end.

Lemma base_off fa st z : base SA Da dk fa st -> net_now st z = net_now st SA + off z.
Proof. intros (_ & _ & _ & Hd). cbn [side_other] in Hd. destruct z; cbn [off]; lia. Qed.

Definition oldB (n : side -> nat) (T : Z) (fa : fair_aux) : Prop :=
  (forall z, (n z <= length (fa_dl fa z))%nat) /\
  forall z j t, (j < n z)%nat -> nth_error (fa_dl fa z) j = Some (Some t) -> t <= T + off z.

Definition J0 (n : side -> nat) (T : Z) (fa : fair_aux) (st : net) : Prop :=
  K0 fa st /\ niceN n fa st /\ oldB n T fa /\
  (trk_lt (n SA) (fa_dl fa SA) || trk_lt (n SB) (fa_dl fa SB) = true).

(* every tracked frame is a bare ACK the peer takes in order *)
Definition K (fa : fair_aux) (st : net) : Prop := K0 fa st /\ niceN (fun _ => O) fa st.

Lemma J0_clock n T fa st : J0 n T fa st -> net_now st SA <= T.
Proof.
  intros ((HB & Hb & _) & _ & (_ & HO) & Ht).
  assert (Hw : exists z j t, (j < n z)%nat /\ nth_error (fa_dl fa z) j = Some (Some t)).
  { apply orb_true_iff in Ht. destruct Ht as [Ht | Ht]; apply trk_lt_true in Ht; destruct Ht as (j & t & Hj & Hn); eauto. }
  destruct Hw as (z & j & t & Hj & Hn).
  pose proof (HO z j t Hj Hn) as H1. destruct (Hb z t (nth_error_In _ _ Hn)) as (H2 & _).
  rewrite (base_off fa st z HB) in H2. lia.
Qed.

Lemma fa_after_length fa st ev st' z :
  dl_sync Da fa st -> fair_ev fa st ev -> net_step st ev = Ok st' ->
  (length (fa_dl fa z) <= length (fa_dl (fa_after Dt Da fa ev st') z))%nat.
Proof.
  intros Hsy Hfe H. pose proof (fa_after_sync Dt Da _ _ _ _ Hsy Hfe H) as (Hl' & _). destruct Hsy as (Hl & _).
  rewrite (Hl' z), (Hl z). destruct (fair_step_chan _ _ _ _ z Hfe H) as (l & -> & _). rewrite app_length. lia.
Qed.

Lemma J0_step n T fa st ev st' :
  qev ev -> QRd st -> QRd st' -> J0 n T fa st -> fair_ev fa st ev -> once_ev fa ev -> net_step st ev = Ok st' ->
  (K (fa_after Dt Da fa ev st') st' /\ net_now st' SA <= T) \/ J0 n T (fa_after Dt Da fa ev st') st'.
Proof.
  intros Hev HQ HQ' HJ Hfe _ H. pose proof (J0_clock n T fa st HJ) as Hclk.
  destruct HJ as (HK & HN & (HL & HO) & Ht).
  pose proof (K0_step fa st ev st' Hev HQ HQ' HK Hfe H) as HK'.
  pose proof HK as (HB & Hb & _). pose proof HB as (_ & _ & Hsy & _).
  assert (Hnow' : net_now st' SA <= T).
  { rewrite (net_step_now _ _ _ SA H). destruct ev; try lia.
    assert (Hw : exists z j t, (j < n z)%nat /\ nth_error (fa_dl fa z) j = Some (Some t)).
    { apply orb_true_iff in Ht. destruct Ht as [Ht | Ht]; apply trk_lt_true in Ht; destruct Ht as (j & t & Hj & Hn); eauto. }
    destruct Hw as (z & j & t & Hj & Hn). pose proof (HO z j t Hj Hn) as H1.
    destruct (Hb z t (nth_error_In _ _ Hn)) as (Hle & _).
    pose proof (tick_respects_dl fa st d z j t Hfe Hn Hle) as H2.
    rewrite (base_off fa st z HB) in H2. lia. }
  assert (HN' : niceN n (fa_after Dt Da fa ev st') st').
  { apply (niceN_step n fa st ev st' Hsy Hfe H HN). intros z p Hch. exact (emit_nice fa st ev st' z p Hev HQ HQ' HK Hfe H Hch). }
  assert (HO' : oldB n T (fa_after Dt Da fa ev st')).
  { split.
    - intros z. pose proof (fa_after_length fa st ev st' z Hsy Hfe H). specialize (HL z). lia.
    - intros z j t Hj Hn. apply (HO z j t Hj).
      apply (fa_after_dl_old Dt Da fa ev st' z j t); [specialize (HL z); lia | exact Hn]. }
  destruct (trk_lt (n SA) (fa_dl (fa_after Dt Da fa ev st') SA) || trk_lt (n SB) (fa_dl (fa_after Dt Da fa ev st') SB)) eqn:Et.
  - right. split; [exact HK'|]. split; [exact HN'|]. split; [exact HO' | exact Et].
  - left. split; [|exact Hnow']. split; [exact HK'|]. apply orb_false_iff in Et. destruct Et as (EA & EB).
    intros z j p t _ Hn Hdl.
    destruct (Nat.lt_ge_cases j (n z)) as [L | L].
    + exfalso. destruct z; [exact (trk_lt_false _ _ j t EA L Hdl) | exact (trk_lt_false _ _ j t EB L Hdl)].
    + exact (HN' z j p t L Hn Hdl).
Qed.

(* ---------------------------------------------------------------------------------------- *)
(* once every tracked frame is such an ACK                                                   *)
(* ---------------------------------------------------------------------------------------- *)
Lemma K_step fa st ev st' :
  qev ev -> QRd st -> QRd st' -> K fa st -> fair_ev fa st ev -> net_step st ev = Ok st' ->
  K (fa_after Dt Da fa ev st') st'.
Proof.
  intros Hev HQ HQ' (HK & HN) Hfe H. split; [exact (K0_step fa st ev st' Hev HQ HQ' HK Hfe H)|].
  pose proof HK as ((_ & _ & Hsy & _) & _).
  apply (niceN_step _ fa st ev st' Hsy Hfe H HN). intros z p Hch.
  exact (emit_nice fa st ev st' z p Hev HQ HQ' HK Hfe H Hch).
Qed.

Lemma veq_adt s' s : veq s' s -> s_ack_delay_timer s' = s_ack_delay_timer s.
Proof. intros (_ & _ & _ & _ & _ & _ & _ & _ & _ & _ & _ & _ & _ & _ & _ & (_ & E) & _). exact E. Qed.

(* what one step does to the socket of z: a clean socket stays clean and emits nothing; a socket that is
   not clean afterwards still has the delayed-ACK timer it had *)
Lemma side_step z fa st ev st' :
  qev ev -> QRd st -> QRd st' -> K fa st -> fair_ev fa st ev -> once_ev fa ev -> net_step st ev = Ok st' ->
  (clean (sz st z) -> clean (sz st' z)) /\
  (clean (sz st' z) \/ s_ack_delay_timer (sz st' z) = s_ack_delay_timer (sz st z)) /\
  (clean (sz st z) -> chan_to st' (side_other z) = chan_to st (side_other z)).
Proof.
  intros Hev HQ HQ' ((_ & _ & HD & HP) & HN) Hfe Hoe H.
  assert (Hsame : sz st' z = sz st z -> chan_to st' (side_other z) = chan_to st (side_other z) ->
                  (clean (sz st z) -> clean (sz st' z)) /\
                  (clean (sz st' z) \/ s_ack_delay_timer (sz st' z) = s_ack_delay_timer (sz st z)) /\
                  (clean (sz st z) -> chan_to st' (side_other z) = chan_to st (side_other z))).
  { intros E1 E2. rewrite E1. auto. }
  destruct (net_step_kind _ _ _ H) as [w ev0 e' Hse He Est | to i _ _ Est | d _ Est | w isn ts _ Est | to i Hd].
  - destruct (sock_step_pieces st w ev0 e' He) as (s' & out & tags & Hs & E1 & E2 & E3 & E4 & E5).
    rewrite <- Est in E1, E2, E3, E4, E5.
    destruct (side_cases w z) as [Ew | Ew]; subst z.
    2:{ apply Hsame; [unfold net_sock; rewrite E3; reflexivity | rewrite side_other_inv; exact E4]. }
    rewrite E1, E5.
    destruct (side_views st w HQ HD HP) as (QS & Hnz & Hu & Hv).
    assert (Hveq : wire_out out = None -> veq s' (sz st w) ->
                   (clean (sz st w) -> clean s') /\ (clean s' \/ s_ack_delay_timer s' = s_ack_delay_timer (sz st w)) /\
                   (clean (sz st w) -> chan_to st (side_other w) ++ opt_list (wire_out out) = chan_to st (side_other w))).
    { intros Hw Hv0. split; [exact (veq_clean _ _ Hv0)|]. split; [right; exact (veq_adt _ _ Hv0)|].
      intros _. rewrite Hw. apply app_nil_r. }
    destruct ev as [to i | to i | to i | d | z0 i1 t1 | z0 ok | z0 data | z0 n | z0]; cbn [sock_event qev] in *; try contradiction.
    + destruct Hse as (-> & q & Hn & ->). destruct Hoe as (t0 & Ht0).
      pose proof (HN w i q t0 (Nat.le_0_l i) Hn Ht0) as Hq. unfold nice in Hq.
      destruct (is_seg_parse _ _ _ _ _ Hq Hv Hu) as (P1 & P2 & P3 & P4 & P5).
      assert (Etup : mirror (tupz (side_other w)) = tupz w) by (destruct w; cbn [tupz side_other]; [apply mirror_mirror | reflexivity]).
      rewrite Etup in P1.
      destruct (step_nice_rx _ _ _ _ _ _ _ _ _ _ QS Hnz P1 P2 P3 P4 P5 Hs) as (Hw & Hc & Ha).
      split; [exact Hc|]. split; [right; exact Ha|]. intros _. rewrite Hw. apply app_nil_r.
    + destruct Hse as (_ & ->). cbn [fair_ev] in Hfe. subst ok.
      split; [|split].
      * intros Hc. destruct (step_est_poll_clean _ _ _ _ _ _ _ _ _ QS Hc Hs) as (_ & Hv0). exact (veq_clean _ _ Hv0 Hc).
      * destruct (step_est_poll _ _ _ _ _ _ _ _ QS Hs) as [(p & _ & _ & Hc) | (_ & Hv0 & _)]; [left; exact Hc | right; exact (veq_adt _ _ Hv0)].
      * intros Hc. destruct (step_est_poll_clean _ _ _ _ _ _ _ _ _ QS Hc Hs) as (Hw & _). rewrite Hw. apply app_nil_r.
    + destruct Hse as (_ & ->).
      destruct (step_recv _ _ _ _ _ _ (Z.le_max_l 0 n) (k_rxwf _ _ _ (qs_k _ _ _ _ _ QS)) (qs_rx0 _ _ _ _ _ QS) Hs) as (Hw & Hv0).
      exact (Hveq Hw Hv0).
  - apply Hsame; rewrite Est; reflexivity.
  - apply Hsame; rewrite Est; [destruct z; reflexivity | destruct z; reflexivity].
  - apply Hsame; rewrite Est.
    + unfold net_sock. destruct (side_cases w z) as [-> | ->]; rewrite ?net_get_set_same, ?net_get_set_other; reflexivity.
    + unfold chan_to. rewrite side_other_inv.
      destruct (side_cases w z) as [-> | ->]; rewrite ?net_get_set_same, ?net_get_set_other; reflexivity.
  - destruct Hd as [-> | ->]; destruct Hfe.
Qed.

(* ---------------------------------------------------------------------------------------- *)
(* Z1 / Z2: a socket that is not clean is polled (at the latest when its delayed ACK is due)   *)
(* ---------------------------------------------------------------------------------------- *)
Definition Jz (z : side) (cO : bool) (T : Z) (fa : fair_aux) (st : net) : Prop :=
  K fa st /\ (cO = true -> clean (sz st (side_other z))) /\ cleanb (sz st z) = false /\
  net_now st SA <= T /\ (forall t, s_ack_delay_timer (sz st z) = ADWaiting t -> t <= T + off z).

Definition Qz (z : side) (cO : bool) (fa : fair_aux) (st : net) : Prop :=
  K fa st /\ (cO = true -> clean (sz st (side_other z))) /\ clean (sz st z).

Lemma QR_static st z :
  QRd st ->
  (s_ack_delay_timer (sz st z) = ADIdle \/ tcp_ack_to_transmit (sz st z) = true) /\
  (tcp_ack_to_transmit (sz st z) = false -> s_remote_last_ack (sz st z) = Some (tcp_window_start (sz st z))).
Proof. intros (_ & _ & _ & _ & _ & (Hq & _)). destruct (Hq z) as (_ & _ & _ & _ & _ & A & B). split; assumption. Qed.

Lemma Jz_step z cO T fa st ev st' :
  qev ev -> QRd st -> QRd st' -> Jz z cO T fa st -> fair_ev fa st ev -> once_ev fa ev -> net_step st ev = Ok st' ->
  (Qz z cO (fa_after Dt Da fa ev st') st' /\ net_now st' SA <= T) \/ Jz z cO T (fa_after Dt Da fa ev st') st'.
Proof.
  intros Hev HQ HQ' (HK & HcO & Hd & Hc & Hdl) Hfe Hoe H.
  pose proof (K_step fa st ev st' Hev HQ HQ' HK Hfe H) as HK'.
  assert (HcO' : cO = true -> clean (sz st' (side_other z))).
  { intros E. destruct (side_step (side_other z) fa st ev st' Hev HQ HQ' HK Hfe Hoe H) as (A & _). exact (A (HcO E)). }
  assert (Hnow' : net_now st' SA <= T).
  { rewrite (net_step_now _ _ _ SA H). destruct ev; try lia.
    (* a tick: the socket that is not clean wants to be polled *)
    destruct HK as ((HB & _ & HD & HP) & _).
    destruct (side_views st z HQ HD HP) as (QS & _).
    destruct (QR_static st z HQ) as (S1 & S2).
    pose proof (dirty_poll _ _ _ _ _ QS Hd S1 S2) as Hp.
    destruct Hfe as (Hd0 & Hperm). destruct (Z.eq_dec d 0) as [-> | Hnz]; [lia|].
    destruct (Hperm ltac:(lia) z) as (Hpp & _). unfold poll_permits, net_poll_at in Hpp. unfold net_sock in Hp.
    destruct (tcp_poll_at (cxz st z) (ep_sock (net_get st z))) as [[|t0|]|?|]; try contradiction.
    destruct Hp as (t1 & Ht1 & Hle). specialize (Hdl t1 Ht1). rewrite (base_off fa st z HB) in Hpp. lia. }
  destruct (cleanb (sz st' z)) eqn:Ec.
  { left. split; [|exact Hnow']. split; [exact HK'|]. split; [exact HcO'|]. apply cleanb_iff. exact Ec. }
  right. split; [exact HK'|]. split; [exact HcO'|]. split; [exact Ec|]. split; [exact Hnow'|].
  destruct (side_step z fa st ev st' Hev HQ HQ' HK Hfe Hoe H) as (_ & [Hcl | Hadt] & _).
  { apply cleanb_iff in Hcl. congruence. }
  intros t Ht. rewrite Hadt in Ht. exact (Hdl t Ht).
Qed.

Theorem side_becomes_clean z cO T : forall evs fa st st',
  Jz z cO T fa st -> Forall qev evs -> run_all QRd st evs -> fair_run Dt Da fa st evs -> once_run Dt Da fa st evs ->
  net_run st evs = Ok st' -> T < net_now st' SA ->
  exists pre post st1,
    evs = pre ++ post /\ net_run st pre = Ok st1 /\ net_run st1 post = Ok st' /\
    Forall qev post /\ run_all QRd st1 post /\ fair_run Dt Da (fa_run Dt Da fa st pre) st1 post /\
    once_run Dt Da (fa_run Dt Da fa st pre) st1 post /\ Qz z cO (fa_run Dt Da fa st pre) st1 /\ net_now st1 SA <= T.
Proof.
  apply (rel_leads_er Dt Da qev QRd (Jz z cO T) (fun fa st => Qz z cO fa st /\ net_now st SA <= T) SA T).
  - intros fa st (_ & _ & _ & H & _). exact H.
  - intros fa st ev st' Hev HR HR' HJ Hfe Hoe H. exact (Jz_step z cO T fa st ev st' Hev HR HR' HJ Hfe Hoe H).
Qed.

Theorem old_frames_drain n T : forall evs fa st st',
  J0 n T fa st -> Forall qev evs -> run_all QRd st evs -> fair_run Dt Da fa st evs -> once_run Dt Da fa st evs ->
  net_run st evs = Ok st' -> T < net_now st' SA ->
  exists pre post st1,
    evs = pre ++ post /\ net_run st pre = Ok st1 /\ net_run st1 post = Ok st' /\
    Forall qev post /\ run_all QRd st1 post /\ fair_run Dt Da (fa_run Dt Da fa st pre) st1 post /\
    once_run Dt Da (fa_run Dt Da fa st pre) st1 post /\ K (fa_run Dt Da fa st pre) st1 /\ net_now st1 SA <= T.
Proof.
  apply (rel_leads_er Dt Da qev QRd (J0 n T) (fun fa st => K fa st /\ net_now st SA <= T) SA T).
  - intros fa st HJ. exact (J0_clock n T fa st HJ).
  - intros fa st ev st' Hev HR HR' HJ Hfe Hoe H. exact (J0_step n T fa st ev st' Hev HR HR' HJ Hfe Hoe H).
Qed.

(* ---------------------------------------------------------------------------------------- *)
(* Z3: both clean - nothing is emitted any more, what is tracked is delivered                 *)
(* ---------------------------------------------------------------------------------------- *)
Definition trk_any (l : list (option Z)) : bool := existsb is_trk l.

Lemma trk_any_false fa z : trk_any (fa_dl fa z) = false -> ntrk fa z.
Proof.
  unfold trk_any. intros H j t Hj.
  assert (Hex : existsb is_trk (fa_dl fa z) = true).
  { apply existsb_exists. exists (Some t). split; [exact (nth_error_In _ _ Hj) | reflexivity]. }
  congruence.
Qed.

Lemma trk_any_true l : trk_any l = true -> exists t, In (Some t) l.
Proof.
  unfold trk_any. intros H. apply existsb_exists in H. destruct H as (o & Hin & Ho).
  destruct o as [t|]; [|discriminate]. exists t. exact Hin.
Qed.

Definition Jd (T : Z) (fa : fair_aux) (st : net) : Prop :=
  K fa st /\ clean (sz st SA) /\ clean (sz st SB) /\
  (forall z t, In (Some t) (fa_dl fa z) -> t <= T + off z) /\
  (trk_any (fa_dl fa SA) || trk_any (fa_dl fa SB) = true).

(* nothing tracked, nothing owed *)
Definition Qd (fa : fair_aux) (st : net) : Prop :=
  K fa st /\ clean (sz st SA) /\ clean (sz st SB) /\ ntrk fa SA /\ ntrk fa SB.

Lemma Jd_clock T fa st : Jd T fa st -> net_now st SA <= T.
Proof.
  intros (((HB & Hb & _) & _) & _ & _ & HT & Ht).
  assert (Hw : exists z t, In (Some t) (fa_dl fa z)).
  { apply orb_true_iff in Ht. destruct Ht as [Ht | Ht]; apply trk_any_true in Ht; destruct Ht as (t & Hin); eauto. }
  destruct Hw as (z & t & Hin). pose proof (HT z t Hin) as H1. destruct (Hb z t Hin) as (H2 & _).
  rewrite (base_off fa st z HB) in H2. lia.
Qed.

Lemma Jd_step T fa st ev st' :
  qev ev -> QRd st -> QRd st' -> Jd T fa st -> fair_ev fa st ev -> once_ev fa ev -> net_step st ev = Ok st' ->
  (Qd (fa_after Dt Da fa ev st') st' /\ net_now st' SA <= T) \/ Jd T (fa_after Dt Da fa ev st') st'.
Proof.
  intros Hev HQ HQ' HJ Hfe Hoe H. pose proof (Jd_clock T fa st HJ) as Hclk.
  destruct HJ as (HK & HcA & HcB & HT & Ht).
  pose proof (K_step fa st ev st' Hev HQ HQ' HK Hfe H) as HK'.
  destruct (side_step SA fa st ev st' Hev HQ HQ' HK Hfe Hoe H) as (A1 & _ & A3).
  destruct (side_step SB fa st ev st' Hev HQ HQ' HK Hfe Hoe H) as (B1 & _ & B3).
  cbn [side_other] in A3, B3.
  assert (Hch : forall z, chan_to st' z = chan_to st z) by (intros z; destruct z; [exact (B3 HcB) | exact (A3 HcA)]).
  pose proof HK as ((HB & Hb & _) & _). pose proof HB as (_ & _ & Hsy & _).
  assert (Hnow' : net_now st' SA <= T).
  { rewrite (net_step_now _ _ _ SA H). destruct ev; try lia.
    assert (Hw : exists z t, In (Some t) (fa_dl fa z)).
    { apply orb_true_iff in Ht. destruct Ht as [Ht | Ht]; apply trk_any_true in Ht; destruct Ht as (t & Hin); eauto. }
    destruct Hw as (z & t & Hin). pose proof (HT z t Hin) as H1. destruct (Hb z t Hin) as (Hle & _).
    apply In_nth_error in Hin. destruct Hin as (j & Hj).
    pose proof (tick_respects_dl fa st d z j t Hfe Hj Hle) as H2.
    rewrite (base_off fa st z HB) in H2. lia. }
  assert (HT' : forall z t, In (Some t) (fa_dl (fa_after Dt Da fa ev st') z) -> t <= T + off z).
  { intros z t Hin. apply In_nth_error in Hin. destruct Hin as (j & Hj).
    assert (Hlt : (j < length (fa_dl fa z))%nat).
    { pose proof (fa_after_sync Dt Da _ _ _ _ Hsy Hfe H) as (Hl' & _). destruct Hsy as (Hl & _).
      assert (Hjj : (j < length (fa_dl (fa_after Dt Da fa ev st') z))%nat) by (apply nth_error_Some; congruence).
      rewrite (Hl' z), (Hch z), <- (Hl z) in Hjj. exact Hjj. }
    apply (HT z t). apply (nth_error_In _ j). exact (fa_after_dl_old Dt Da fa ev st' z j t Hlt Hj). }
  destruct (trk_any (fa_dl (fa_after Dt Da fa ev st') SA) || trk_any (fa_dl (fa_after Dt Da fa ev st') SB)) eqn:Et.
  - right. split; [exact HK'|]. split; [exact (A1 HcA)|]. split; [exact (B1 HcB)|]. split; [exact HT' | exact Et].
  - left. apply orb_false_iff in Et. destruct Et as (EA & EB). split; [|exact Hnow'].
    split; [exact HK'|]. split; [exact (A1 HcA)|]. split; [exact (B1 HcB)|].
    split; [exact (trk_any_false _ _ EA) | exact (trk_any_false _ _ EB)].
Qed.

Theorem clean_pair_drains T : forall evs fa st st',
  Jd T fa st -> Forall qev evs -> run_all QRd st evs -> fair_run Dt Da fa st evs -> once_run Dt Da fa st evs ->
  net_run st evs = Ok st' -> T < net_now st' SA ->
  exists pre post st1,
    evs = pre ++ post /\ net_run st pre = Ok st1 /\ net_run st1 post = Ok st' /\
    Forall qev post /\ run_all QRd st1 post /\ fair_run Dt Da (fa_run Dt Da fa st pre) st1 post /\
    once_run Dt Da (fa_run Dt Da fa st pre) st1 post /\ Qd (fa_run Dt Da fa st pre) st1 /\ net_now st1 SA <= T.
Proof.
  apply (rel_leads_er Dt Da qev QRd (Jd T) (fun fa st => Qd fa st /\ net_now st SA <= T) SA T).
  - intros fa st HJ. exact (Jd_clock T fa st HJ).
  - intros fa st ev st' Hev HR HR' HJ Hfe Hoe H. exact (Jd_step T fa st ev st' Hev HR HR' HJ Hfe Hoe H).
Qed.

(* ---------------------------------------------------------------------------------------- *)
(* the composition                                                                           *)
(* ---------------------------------------------------------------------------------------- *)
(* what is left of a run after a prefix, with its bookkeeping *)
Definition Rest (fa : fair_aux) (st : net) (evs : list net_event) (st' : net) : Prop :=
  Forall qev evs /\ run_all QRd st evs /\ fair_run Dt Da fa st evs /\ once_run Dt Da fa st evs /\
  net_run st evs = Ok st'.

(* reached from (fa, st) by a prefix of evs, no later than T, with (P fa1 st1) *)
Definition Reach (P : fair_aux -> net -> Prop) (T : Z) (fa : fair_aux) (st : net) (evs : list net_event) (st' : net) : Prop :=
  exists pre post st1,
    evs = pre ++ post /\ net_run st pre = Ok st1 /\ Rest (fa_run Dt Da fa st pre) st1 post st' /\
    P (fa_run Dt Da fa st pre) st1 /\ net_now st1 SA <= T.

Lemma Reach_here (P : fair_aux -> net -> Prop) T fa st evs st' :
  Rest fa st evs st' -> P fa st -> net_now st SA <= T -> Reach P T fa st evs st'.
Proof. intros HR HP HT. exists [], evs, st. split; [reflexivity|]. split; [reflexivity|]. auto. Qed.

Lemma Reach_trans (P Q : fair_aux -> net -> Prop) T T' fa st evs st' :
  Reach P T fa st evs st' ->
  (forall fa1 st1 evs1, Rest fa1 st1 evs1 st' -> P fa1 st1 -> net_now st1 SA <= T -> Reach Q T' fa1 st1 evs1 st') ->
  Reach Q T' fa st evs st'.
Proof.
  intros (pre & post & st1 & -> & H1 & HR & HP & HT) Hnext.
  destruct (Hnext _ _ _ HR HP HT) as (pre2 & post2 & st2 & -> & H2 & HR2 & HQ & HT2).
  exists (pre ++ pre2), post2, st2. split; [rewrite app_assoc; reflexivity|].
  split; [exact (net_run_app pre pre2 st st1 st2 H1 H2)|].
  rewrite (fa_run_app Dt Da pre pre2 fa st st1 H1). auto.
Qed.

Hypothesis HDack : 0 <= Dack.

Lemma K0_K_or_J0 fa st :
  K0 fa st ->
  let n := fun z => length (fa_dl fa z) in
  K fa st \/ J0 n (net_now st SA + Dt) fa st.
Proof.
  intros HK n. pose proof HK as (HB & Hb & _). pose proof HB as (_ & _ & (Hl & _) & _).
  assert (HN : niceN n fa st).
  { intros z j p t Hj Hn _. exfalso. unfold n in Hj. rewrite (Hl z) in Hj.
    assert (X0 : nth_error (chan_to st z) j = None) by (apply nth_error_None; exact Hj). congruence. }
  assert (HO : oldB n (net_now st SA + Dt) fa).
  { split; [intros z; unfold n; lia|]. intros z j t _ Hn. destruct (Hb z t (nth_error_In _ _ Hn)) as (_ & H2).
    rewrite (base_off fa st z HB) in H2. lia. }
  destruct (trk_lt (n SA) (fa_dl fa SA) || trk_lt (n SB) (fa_dl fa SB)) eqn:Et.
  - right. split; [exact HK|]. split; [exact HN|]. split; [exact HO | exact Et].
  - left. split; [exact HK|]. apply orb_false_iff in Et. destruct Et as (EA & EB).
    intros z j p t _ Hn Hdl. destruct (Nat.lt_ge_cases j (n z)) as [L | L].
    + exfalso. destruct z; [exact (trk_lt_false _ _ j t EA L Hdl) | exact (trk_lt_false _ _ j t EB L Hdl)].
    + exact (HN z j p t L Hn Hdl).
Qed.

Theorem connection_becomes_quiet : forall evs fa st st',
  K0 fa st -> Rest fa st evs st' ->
  net_now st SA + 2 * Dt + Dack < net_now st' SA ->
  Reach Qd (net_now st SA + 2 * Dt + Dack) fa st evs st'.
Proof.
  intros evs fa st st' HK0 HR Hlate.
  set (N0 := net_now st SA) in *.
  (* Z0 *)
  assert (S1 : Reach K (N0 + Dt) fa st evs st').
  { destruct (K0_K_or_J0 fa st HK0) as [HK | HJ]; [apply Reach_here; [exact HR | exact HK | unfold N0; lia]|].
    destruct HR as (HE & HRa & Hf & Ho & Hr).
    destruct (old_frames_drain _ _ evs fa st st' HJ HE HRa Hf Ho Hr ltac:(fold N0; lia))
      as (pre & post & st1 & E & H1 & H2 & HE2 & HR2 & Hf2 & Ho2 & HQ & HT).
    exists pre, post, st1. split; [exact E|]. split; [exact H1|]. split; [repeat split; assumption|]. split; [exact HQ | exact HT]. }
  (* Z1: B *)
  assert (S2 : Reach (Qz SB false) (N0 + Dt + Dack) fa st evs st').
  { apply (Reach_trans K _ _ _ _ _ _ _ S1). intros fa1 st1 evs1 HR1 HK HT1.
    destruct (cleanb (sz st1 SB)) eqn:Ec.
    { apply Reach_here; [exact HR1 | | lia]. split; [exact HK|]. split; [discriminate | apply cleanb_iff; exact Ec]. }
    destruct HR1 as (HE & HRa & Hf & Ho & Hr).
    assert (HJ : Jz SB false (net_now st1 SA + Dack) fa1 st1).
    { split; [exact HK|]. split; [discriminate|]. split; [exact Ec|]. split; [lia|].
      intros t Ht. pose proof (run_all_here _ _ _ HRa) as (HN & _ & HG & _).
      destruct (HN SB) as (_ & _ & _ & Hdb). unfold delack_bounded, net_sock in *. rewrite Ht in Hdb.
      destruct Hdb as (d & Hd & Hle). pose proof (rg_delay SA Dack st1 HG) as Hrd. cbn [side_other] in Hrd.
      unfold net_sock in Hrd. rewrite Hd in Hrd.
      destruct HK as ((HB & _) & _). pose proof (base_off fa1 st1 SB HB) as Hoff. unfold net_now in *. lia. }
    destruct (side_becomes_clean SB false _ evs1 fa1 st1 st' HJ HE HRa Hf Ho Hr ltac:(lia))
      as (pre & post & st2 & E & H1 & H2 & HE2 & HR2 & Hf2 & Ho2 & HQ & HT).
    exists pre, post, st2. split; [exact E|]. split; [exact H1|]. split; [repeat split; assumption|]. split; [exact HQ | lia]. }
  (* Z2: A *)
  assert (S3 : Reach (Qz SA true) (N0 + Dt + Dack) fa st evs st').
  { apply (Reach_trans (Qz SB false) _ _ _ _ _ _ _ S2). intros fa1 st1 evs1 HR1 (HK & _ & HcB) HT1.
    destruct (cleanb (sz st1 SA)) eqn:Ec.
    { apply Reach_here; [exact HR1 | | lia]. split; [exact HK|]. split; [intros _; exact HcB | apply cleanb_iff; exact Ec]. }
    destruct HR1 as (HE & HRa & Hf & Ho & Hr).
    assert (HJ : Jz SA true (net_now st1 SA) fa1 st1).
    { split; [exact HK|]. split; [intros _; exact HcB|]. split; [exact Ec|]. split; [lia|].
      intros t Ht. pose proof (run_all_here _ _ _ HRa) as (_ & _ & _ & _ & _ & (_ & _ & HadtA)).
      rewrite HadtA in Ht. discriminate. }
    destruct (side_becomes_clean SA true _ evs1 fa1 st1 st' HJ HE HRa Hf Ho Hr ltac:(lia))
      as (pre & post & st2 & E & H1 & H2 & HE2 & HR2 & Hf2 & Ho2 & HQ & HT).
    exists pre, post, st2. split; [exact E|]. split; [exact H1|]. split; [repeat split; assumption|]. split; [exact HQ | lia]. }
  (* Z3 *)
  apply (Reach_trans (Qz SA true) _ _ _ _ _ _ _ S3). intros fa1 st1 evs1 HR1 (HK & HcB & HcA) HT1.
  specialize (HcB eq_refl). cbn [side_other] in HcB.
  destruct (trk_any (fa_dl fa1 SA) || trk_any (fa_dl fa1 SB)) eqn:Et.
  2:{ apply orb_false_iff in Et. destruct Et as (EA & EB). apply Reach_here; [exact HR1 | | lia].
      split; [exact HK|]. split; [exact HcA|]. split; [exact HcB|]. split; [exact (trk_any_false _ _ EA) | exact (trk_any_false _ _ EB)]. }
  destruct HR1 as (HE & HRa & Hf & Ho & Hr).
  assert (HJ : Jd (net_now st1 SA + Dt) fa1 st1).
  { split; [exact HK|]. split; [exact HcA|]. split; [exact HcB|]. split; [|exact Et].
    intros z t Hin. destruct HK as ((HB & Hb & _) & _). destruct (Hb z t Hin) as (_ & H2).
    rewrite (base_off fa1 st1 z HB) in H2. lia. }
  destruct (clean_pair_drains _ evs1 fa1 st1 st' HJ HE HRa Hf Ho Hr ltac:(lia))
    as (pre & post & st2 & E & H1 & H2 & HE2 & HR2 & Hf2 & Ho2 & HQ & HT).
  exists pre, post, st2. split; [exact E|]. split; [exact H1|]. split; [repeat split; assumption|]. split; [exact HQ | lia].
Qed.

End Quiet.
