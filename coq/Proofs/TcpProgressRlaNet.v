(* C02 (liveness half): "no ACK owed -> the last ACK sent is RCV.NXT", for both sockets of the one-way regime.
     arla st  : an ESTABLISHED A has remote_last_ack recorded - in every state of every run of the one-way workload
                from net_init (the SYN-SENT -> ESTABLISHED transition records it, nothing forgets it)
     B        : rg_last of the regime
   and the last ACK never exceeds RCV.NXT (ev_last of the socket view of Proofs/TcpProgressSafe.v). *)
From SV Require Import Lib.Base Gen.Consts.
From SV Require Import Model.Seq32 Model.Assembler Model.TcpBuf Model.TcpTypes Model.Tcp Model.TcpNet.
From SV Require Import Proofs.TcpSendBase Proofs.TcpLiveBase Proofs.TcpLiveProofs Proofs.TcpLiveMore
  Proofs.TcpLiveProgress.
From SV Require Import Proofs.TcpNetBase.
From SV Require Proofs.TcpNetInv Proofs.TcpRecvDispatch Proofs.TcpRecvProcess.
From SV Require Import Proofs.TcpProgressBase Proofs.TcpProgressFrame Proofs.TcpProgressCtl Proofs.TcpProgressRecv
  Proofs.TcpProgressSend Proofs.TcpProgressNet Proofs.TcpProgressData Proofs.TcpProgressAck
  Proofs.TcpProgressAll Proofs.TcpProgressSafe Proofs.TcpProgressHs Proofs.TcpProgressHsD Proofs.TcpProgressHs2
  Proofs.TcpProgressHsNet Proofs.TcpProgressHsInit Proofs.TcpProgressHsLive Proofs.TcpProgressHsLive2
  Proofs.TcpProgressHsRtx Proofs.TcpProgressCap Proofs.TcpProgressCapNet Proofs.TcpProgressSynWin Proofs.TcpProgressSynWinNet
  Proofs.TcpProgressRla.

Notation sa st := (net_sock st SA).

Definition arla (st : net) : Prop := s_state (sa st) = Established -> s_remote_last_ack (sa st) <> None.

Section Step.
Variables isn Dack : Z.

Lemma arla_step st ev st' :
  HSR isn Dack st -> script_ev SA ev -> net_step st ev = Ok st' -> arla st -> arla st'.
Proof.
  intros HR Hsc H Hid Hest'. unfold arla in *.
  destruct (step_cases st ev st' SA H) as [(ev0 & e' & Hse & He & ->) | E]; [|rewrite E in *; exact (Hid Hest')].
  destruct (ep_step_spec _ _ _ He) as (s' & out & tags & Hs & Hk & _).
  unfold net_sock in Hest'. rewrite net_get_set_same, Hk in Hest'.
  unfold net_sock. rewrite net_get_set_same, Hk. unfold net_sock in Hid.
  set (s := ep_sock (net_get st SA)) in *.
  destruct HR as (Hinv & HV & HN & Ho).
  assert (HA : s_state s = SynSent \/ s_state s = Established).
  { destruct Hinv as [HP | HG].
    - destruct (ph_phase _ _ _ HP) as [(A & _) | (A & _)]; [left | right]; exact A.
    - right. exact (rg_est SA Dack st HG SA). }
  destruct ev as [to i | to i | to i | d | z i1 t1 | z ok | z data | z n | z]; cbn [sock_event script_ev] in Hse, Hsc; try contradiction.
  - (* a segment *)
    destruct Hse as (_ & q & _ & ->). cbn [tcp_step] in Hs.
    apply obind_ok in Hs. destruct Hs as (((s1 & rep) & tg) & Hi & Hs). assert (E1 : s1 = s') by (inversion Hs; reflexivity). subst s1. clear Hs.
    destruct (ingress_cases _ _ _ _ _ _ _ Hi) as [Ex | Hp]; [rewrite Ex in Hest' |- *; exact (Hid Hest')|].
    destruct HA as [A | A].
    + exact (process_synsent_rla _ _ _ _ _ _ _ A Hp Hest').
    + apply (process_synced_rla _ _ _ _ _ _ _ ltac:(rewrite A; exact I) ltac:(rewrite A; discriminate) (Hid A) Hp).
  - (* a poll *)
    destruct Hse as (_ & ->). cbn [tcp_step] in Hs.
    apply obind_ok in Hs. destruct Hs as (((s1 & res) & tg) & Hd & Hs). assert (E1 : s1 = s') by (inversion Hs; reflexivity). subst s1. clear Hs.
    destruct (hv_rx _ _ HV SA) as (W1 & W2). unfold net_sock in W1, W2. fold s in W1, W2.
    destruct (TcpRecvDispatch.dispatch_spec _ _ _ _ _ _ W1 W2 Hd) as [(_ & Ex & _) | (_ & _ & Hst & Hla & _)].
    + exfalso. rewrite Ex in Hest'. unfold tcp_reset in Hest'. revert Hest'. sproj. discriminate.
    + assert (A : s_state s = Established).
      { destruct Hst as [X | X]; [|rewrite X in Hest'; discriminate].
        destruct HA as [A | A]; [rewrite X, A in Hest'; discriminate | exact A]. }
      destruct Hla as [(X & _) | (_ & [(_ & X) | X] & _)].
      * rewrite X. exact (Hid A).
      * rewrite A in X. discriminate.
      * rewrite X. discriminate.
  - (* send *)
    destruct Hse as (_ & ->). cbn [tcp_step] in Hs.
    destruct (tcp_send_slice s data) as [(s1, k)|e|] eqn:E; [| |discriminate].
    + assert (Es : s' = s1) by (inversion Hs; reflexivity). rewrite Es in Hest' |- *.
      destruct (send_slice_stf _ _ _ _ E) as (X1 & _ & X3 & _). apply X3, Hid. congruence.
    + assert (Es : s' = s) by (inversion Hs; reflexivity). rewrite Es in Hest' |- *. exact (Hid Hest').
  - (* recv *)
    destruct Hse as (_ & ->). cbn [tcp_step] in Hs.
    destruct (tcp_recv_slice s (Z.max 0 n)) as [(s1, b)|e|] eqn:E; [| |discriminate].
    + assert (Es : s' = s1) by (inversion Hs; reflexivity). rewrite Es in Hest' |- *.
      destruct (recv_slice_stf _ _ _ _ E) as (X1 & _ & X3 & _). apply X3, Hid. congruence.
    + assert (Es : s' = s) by (inversion Hs; reflexivity). rewrite Es in Hest' |- *. exact (Hid Hest').
Qed.

End Step.

Module NVL := TcpNetInv.

Section Run.
Variables Dack : Z.
Variables ca cb : ep_config.
Variable st0 : net.
Hypothesis Hstart : start_ok Dack ca cb st0.

Let isn := cx_isn (ep_cx (n_a st0)).

Lemma arla_run_all : forall evs pre st1 st,
  net_run st0 pre = Ok st1 -> hs_inv isn Dack st1 -> opts_ok st1 -> arla st1 ->
  Forall (script_ev SA) evs -> net_run st1 evs = Ok st -> NVL.small st ->
  run_all arla st1 evs /\ arla st.
Proof.
  induction evs as [|ev rest IH]; intros pre st1 st Hpre Hinv Ho Hpl Hsc Hrun Hsm.
  - cbn [net_run] in Hrun. inversion Hrun; subst st. cbn [run_all]. auto.
  - cbn [net_run] in Hrun. apply obind_ok in Hrun. destruct Hrun as (st2 & Hs & Hrun).
    inversion Hsc as [|? ? Hsc1 Hsc2]; subst.
    pose proof (net_run_mono _ _ _ Hrun) as Hm2. pose proof (net_step_mono _ _ _ Hs) as Hm1.
    assert (Hsm2 : NVL.small st2) by exact (NVL.small_mono _ _ Hm2 Hsm).
    assert (Hsm1 : NVL.small st1) by exact (NVL.small_mono _ _ Hm1 Hsm2).
    assert (Hpre2 : net_run st0 (pre ++ [ev]) = Ok st2).
    { apply (net_run_app pre [ev] st0 st1 st2 Hpre). cbn [net_run]. rewrite Hs. reflexivity. }
    destruct (hs_run Dack ca cb st0 Hstart [ev] pre st1 st2 Hpre Hinv Ho ltac:(constructor; [exact Hsc1 | constructor])
                ltac:(cbn [net_run]; rewrite Hs; reflexivity) Hsm2) as (Hinv2 & Ho2).
    destruct (hsr_here Dack ca cb st0 Hstart pre st1 Hpre Hinv Ho Hsm1) as (HR1 & _).
    pose proof (arla_step isn Dack st1 ev st2 HR1 Hsc1 Hs Hpl) as Hpl2.
    destruct (IH (pre ++ [ev]) st2 st Hpre2 Hinv2 Ho2 Hpl2 Hsc2 Hrun Hsm) as (IH1 & IH2).
    split; [|exact IH2]. cbn [run_all]. rewrite Hs. split; [exact Hpl | exact IH1].
Qed.

Theorem arla_from_net_init : forall pre st evs st',
  net_run st0 pre = Ok st -> Forall (script_ev SA) pre ->
  Forall (script_ev SA) evs -> net_run st evs = Ok st' -> NVL.small st' ->
  run_all arla st evs.
Proof.
  intros pre st evs st' Hpre Hscp Hsce Hrun Hsm.
  pose proof Hstart as (Hi & Hst0 & Ga & Gb & Pa & Pb & Haddr & Hdel).
  destruct (hs_init ca cb st0 isn Dack Hi Hst0 Pa Pb Haddr Hdel) as (HP0 & Ho0).
  pose proof (net_run_mono _ _ _ Hrun) as Hm.
  assert (Hsm0 : NVL.small st) by exact (NVL.small_mono _ _ Hm Hsm).
  destruct (hs_run Dack ca cb st0 Hstart pre [] st0 st eq_refl (or_introl HP0) Ho0 Hscp Hpre Hsm0) as (Hinv & Ho).
  assert (Hid0 : arla st0).
  { intros X. exfalso. unfold net_started in Hst0. apply andb_true_iff in Hst0. destruct Hst0 as (S1 & _).
    apply state_eqb_eq in S1. unfold net_sock in X. cbn [net_get] in X. rewrite S1 in X. discriminate. }
  destruct (arla_run_all pre [] st0 st eq_refl (or_introl HP0) Ho0 Hid0 Hscp Hpre Hsm0) as (_ & Hid).
  exact (proj1 (arla_run_all evs pre st st' Hpre Hinv Ho Hid Hsce Hrun Hsm)).
Qed.

End Run.

(* in the regime: no ACK owed -> the last ACK sent is RCV.NXT *)
Lemma reg_rla Dack st z :
  NI st -> reg SA Dack st -> inv_at SA st -> arla st ->
  tcp_ack_to_transmit (net_sock st z) = false ->
  s_remote_last_ack (net_sock st z) = Some (tcp_window_start (net_sock st z)).
Proof.
  intros HN HG HI Ha Hno.
  destruct (reg_pair SA Dack st HG HI) as (gx & gy & PF & _).
  assert (Hne : s_remote_last_ack (net_sock st z) <> None).
  { destruct z; [exact (Ha (rg_est SA Dack st HG SA)) | exact (rg_last SA Dack st HG)]. }
  assert (Hlast : match s_remote_last_ack (net_sock st z) with
                  | Some la => exists j, 0 <= la < 4294967296 /\
                                         tcp_window_start (net_sock st z) = sq (la + j) /\ 0 <= j <= 2 ^ 30
                  | None => True end).
  { destruct z; [exact (ev_last _ _ (pf_vx _ _ _ _ PF)) | exact (ev_last _ _ (pf_vy _ _ _ _ PF))]. }
  unfold tcp_ack_to_transmit in Hno.
  destruct (s_remote_last_ack (net_sock st z)) as [la|]; [|contradiction].
  destruct Hlast as (j & Hla & Hws & Hj). rewrite Hws in Hno |- *.
  assert (E : la = sq (la + 0)) by (rewrite Z.add_0_r; symmetry; apply sq_small; change (2 ^ 32) with 4294967296; exact Hla).
  rewrite E in Hno at 1.
  rewrite seq_lt_sq in Hno by (change (2 ^ 31) with 2147483648; change (2 ^ 30) with 1073741824 in Hj; lia).
  apply Z.ltb_ge in Hno. assert (j = 0) by lia. subst j. rewrite <- E. reflexivity.
Qed.
