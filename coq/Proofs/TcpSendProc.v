(* C05, layer 3 (continued): [tcp_process] preserves the sender invariant for EVERY segment
   (acceptable or not, stale, duplicated, shrinking the window, acknowledging data never sent). *)
From SV Require Import Lib.Base Gen.Consts.
From SV Require Import Model.Seq32 Model.Assembler Model.TcpBuf Model.TcpTypes Model.Tcp.
From SV Require Import Proofs.TcpSendBase Proofs.TcpSendInv Proofs.TcpSendAck.

Definition tail_facts (s3 s8 : socket) (r : tcp_repr) (al : Z) (aa : bool) (tx' : ring) : Prop :=
    (al > 0 -> rb_dequeue_allocated (s_tx_buffer s3) al = Ok tx') /\
    (al <= 0 -> tx' = s_tx_buffer s3) /\
    s_state s8 = s_state s3 /\ s_tx_buffer s8 = tx' /\
    s_remote_win_len s8 = learned_window s3 r /\
    s_remote_win_scale s8 = s_remote_win_scale s3 /\
    s_remote_mss s8 = s_remote_mss s3 /\ s_remote_win_shift s8 = s_remote_win_shift s3 /\
    match r_ack_number r with
    | None => s_local_seq_no s8 = s_local_seq_no s3 /\ s_remote_last_seq s8 = s_remote_last_seq s3 /\
              s_syn_unacked_in_fin_wait s8 = s_syn_unacked_in_fin_wait s3
    | Some a => s_local_seq_no s8 = a /\
                s_remote_last_seq s8 = (if seq_lt (s_remote_last_seq s3) a then a
                                        else s_remote_last_seq s3) /\
                s_syn_unacked_in_fin_wait s8 = false
    end /\
    (timer_is_zero_window_probe (s_timer s8) = true -> learned_window s3 r = 0) /\
    (timer_is_idle (s_timer s8) = true ->
       aa = true \/ timer_is_idle (s_timer s3) = true \/
       (s_remote_last_seq s8 =? s_local_seq_no s8) = true) /\
    rt_max_seq_sent (s_rtte s8) = rt_max_seq_sent (s_rtte s3).

Lemma learned_window_bound : forall s r, repr_ok r ->
  match s_remote_win_scale s with Some v => 0 <= v <= 14 | None => True end ->
  0 <= learned_window s r <= max_window.
Proof.
  intros s r (_ & _ & Hw & _) Hs. unfold learned_window, shl, max_window.
  assert (G : forall n, 0 <= n <= 14 -> 0 <= r_window_len r * 2 ^ n <= 65535 * 2 ^ 14).
  { intros n Hn. assert (0 < 2 ^ n) by (apply Z.pow_pos_nonneg; lia).
    assert (2 ^ n <= 2 ^ 14) by (apply Z.pow_le_mono_r; lia). nia. }
  destruct (r_control r); try (apply G; lia);
  destruct (s_remote_win_scale s); try (apply G; lia).
Qed.

(* the common end of every continuing path of [tcp_process] *)
Lemma ack_finish : forall g1 st_pre w0 wsc0 s3 s8 r d al (aof aa : bool) tx',
  tx_inv_f g1 st_pre (s_tx_buffer s3) (s_local_seq_no s3) (s_remote_last_seq s3) w0 wsc0
           (s_syn_unacked_in_fin_wait s3) ->
  (timer_is_idle (s_timer s3) = true -> g_flight g1 = 0 \/ rb_len (s_tx_buffer s3) = 0) ->
  repr_ok r ->
  match s_remote_win_scale s3 with Some v => 0 <= v <= 14 | None => True end ->
  0 <= d ->
  (g_phase g1 <> PSyn -> al = (if aof then d - 1 else d)) ->
  (g_phase g1 = PSyn -> al = 0 /\ aof = false /\ d <= 1) ->
  (aof = true -> g_phase g1 = PData /\ g_fin g1 = true /\ d = rb_len (s_tx_buffer s3) + 1) ->
  (aof = false -> match g_phase g1 with
                  | PSyn => True | PData => d <= rb_len (s_tx_buffer s3) | PFinAcked => d = 0 end) ->
  match r_ack_number r with
  | None => d = 0 /\ aa = false
  | Some a => a = sq (g_iss g1 + g_una g1 + d) /\ aa = (g_flight g1 <=? d)
  end ->
  tail_facts s3 s8 r al aa tx' ->
  phase_ok (g_ack g1 d al aof) (s_state s3) (rb_len tx') (s_syn_unacked_in_fin_wait s8) ->
  tx_inv (g_ack g1 d al aof) s8 /\ tm_inv (g_ack g1 d al aof) s8.
Proof.
  intros g1 st_pre w0 wsc0 s3 s8 r d al aof aa tx' Hpre Htm Hr Hws Hd Hal Hsyn Haof Hnaof Hack
         (D1 & D2 & F1 & F2 & F3 & F4 & _ & _ & Fa & Fz & Fi & _) Hph.
  pose proof (learned_window_bound s3 r Hr Hws) as Hlw.
  pose proof Hpre as (Hwf & Hcap & Ha & Hlen & Hc & Hl & Hrl & Hfl & Hhw & Hph0 & Hw & Hs).
  pose proof Hwf as (Hl0 & _).
  pose proof (budget_bound g1 (rb_len (s_tx_buffer s3)) ltac:(lia)) as Hb.
  (* the new SND.UNA and SND.NXT as offsets *)
  assert (Hseq : s_local_seq_no s8 = sq (g_iss g1 + g_una g1 + d) /\
                 s_remote_last_seq s8 = sq (g_iss g1 + g_una g1 + Z.max (g_flight g1) d) /\
                 (aa = true -> g_flight g1 <= d)).
  { destruct (r_ack_number r) as [a|].
    - destruct Hack as (Ea & Eaa). destruct Fa as (A1 & A2 & _). rewrite A1, A2, Hrl, Ea.
      split; [reflexivity|]. split.
      + assert (d <= 2 ^ 30 + 2).
        { destruct (g_phase g1) eqn:P.
          - destruct (Hsyn eq_refl) as (_ & _ & X). lia.
          - specialize (Hal ltac:(discriminate)). destruct aof.
            + destruct (Haof eq_refl) as (_ & _ & X). lia.
            + specialize (Hnaof eq_refl). cbv iota in Hnaof. lia.
          - destruct aof.
            + destruct (Haof eq_refl) as (X & _). discriminate.
            + specialize (Hnaof eq_refl). cbv iota in Hnaof. lia. }
        rewrite seq_lt_sq by lia. destruct (Z.ltb_spec (g_flight g1) d); f_equal; lia.
      + intros X. rewrite X in Eaa. symmetry in Eaa. apply Z.leb_le in Eaa. exact Eaa.
    - destruct Hack as (-> & ->). destruct Fa as (A1 & A2 & _). rewrite A1, A2, Hl, Hrl.
      split; [f_equal; lia|]. split; [f_equal; lia|]. discriminate. }
  destruct Hseq as (S1 & S2 & S3).
  split.
  - unfold tx_inv. rewrite F1, F2, F3, F4, S1, S2.
    eapply ack_step_inv; eassumption.
  - unfold tm_inv, tm_inv_f. rewrite F2, F3. split; [exact Fz|].
    intros Hi. specialize (Fi Hi). cbn [g_ack g_flight].
    assert (Hlen' : rb_len tx' <= rb_len (s_tx_buffer s3) /\ 0 <= rb_len tx').
    { destruct (Z.gtb_spec al 0).
      - assert (A1 : 0 <= al) by lia. assert (A2 : al > 0) by lia.
        destruct (rb_dequeue_allocated_spec _ _ _ Hwf A1 (D1 A2)) as (_ & (X & _) & _ & L & _).
        lia.
      - rewrite (D2 ltac:(lia)). lia. }
    destruct Fi as [Fi|[Fi|Fi]].
    + left. specialize (S3 Fi). lia.
    + destruct (Htm Fi) as [X|X]; [left; lia|right; lia].
    + rewrite S1, S2 in Fi.
      replace (g_iss g1 + g_una g1 + Z.max (g_flight g1) d)
        with (g_iss g1 + g_una g1 + (Z.max (g_flight g1) d)) in Fi by lia.
      rewrite sq_eqb in Fi.
      * apply Z.eqb_eq in Fi. left. lia.
      * assert (d <= 2 ^ 31).
        { destruct (g_phase g1) eqn:P.
          - destruct (Hsyn eq_refl) as (_ & _ & X). lia.
          - specialize (Hal ltac:(discriminate)). destruct aof.
            + destruct (Haof eq_refl) as (_ & _ & X). lia.
            + specialize (Hnaof eq_refl). cbv iota in Hnaof. lia.
          - destruct aof.
            + destruct (Haof eq_refl) as (X & _). discriminate.
            + specialize (Hnaof eq_refl). cbv iota in Hnaof. lia. }
        lia.
Qed.

(* what a segment can teach the socket about the peer: the window (scaled as negotiated; unscaled
   for SYN segments), and - only from a SYN - the MSS and whether window scaling is in use *)
Definition learned_core (s : socket) (r : tcp_repr) (s' : socket) : Prop :=
  (s_remote_win_len s' = s_remote_win_len s \/ s_remote_win_len s' = learned_window s r) /\
  (s_remote_mss s' = s_remote_mss s \/
   (r_control r = CSyn /\ s_remote_mss s' = s_remote_mss (tcp_apply_mss s r))) /\
  (s_remote_win_shift s' = s_remote_win_shift s \/
   (r_control r = CSyn /\
    s_remote_win_shift s' = (if is_some (r_window_scale r) then s_remote_win_shift s else 0))).

(* ... or an RST that aborts a handshake returned the listening socket to LISTEN: everything
   learned from the previous peer is forgotten *)
Definition learned (s : socket) (r : tcp_repr) (s' : socket) : Prop :=
  learned_core s r s' \/
  (r_control r = CRst /\ s_state s = SynReceived /\ s_state s' = Listen /\
   s_remote_win_len s' = 0 /\ s_remote_mss s' = tcp_DEFAULT_MSS).

Lemma learned_txv : forall s r s', txv s' = txv s -> learned s r s'.
Proof.
  intros s r s' E. destruct (txv_proj _ _ E) as (_ & _ & _ & _ & B5 & _ & _ & B8 & B9 & _).
  left. unfold learned_core. auto.
Qed.

Lemma learned_window_eq : forall s s' r,
  s_remote_win_scale s' = s_remote_win_scale s \/ r_control r = CSyn ->
  learned_window s' r = learned_window s r.
Proof.
  intros s s' r [E|E]; unfold learned_window; [rewrite E; reflexivity|rewrite E; reflexivity].
Qed.

Lemma ack_facts_txv : forall s s' r, txv s' = txv s -> ack_facts s r -> ack_facts s' r.
Proof.
  intros s s' r E H. destruct (txv_proj _ _ E) as (B1 & B2 & B3 & _ & _ & _ & _ & _ & _ & B10).
  unfold ack_facts, tcp_sent_syn, tcp_sent_fin in *. rewrite B1, B2, B3, B10. exact H.
Qed.

(* how exactly a segment moves the ghost: not at all; a SYN accepted in LISTEN starts a new epoch
   with ISS = the context's next ISN; otherwise SND.UNA advances by d >= 0 sequence numbers within
   the epoch, and d > 0 only for a non-RST segment whose acknowledgement number is exactly the new
   SND.UNA *)
Definition proc_ghost (cx : ctx) (g : ghost) (s : socket) (r : tcp_repr) (g' : ghost) (s' : socket)
  : Prop :=
  g' = g \/
  (s_state s = Listen /\ r_control r = CSyn /\ g_phase g = PSyn /\ g_fin g = false /\
   g_stream g = [] /\
   g_iss g' = cx_isn cx /\ g_stream g' = [] /\ g_fin g' = false /\ g_phase g' = PSyn /\
   g_acked g' = 0) \/
  (g_iss g' = g_iss g /\ g_stream g' = g_stream g /\ g_fin g' = g_fin g /\
   (g_phase g <> PSyn -> g_phase g' <> PSyn) /\
   exists d, 0 <= d /\ g_una g' = g_una g + d /\ (g_phase g = PSyn -> d <= 1) /\
     (0 < d -> r_control r <> CRst /\ r_ack_number r = Some (sq (g_iss g + g_una g + d)))) \/
  (* an RST aborting the handshake of a listening socket: back to LISTEN, a blank epoch *)
  (s_state s = SynReceived /\ r_control r = CRst /\ g_phase g = PSyn /\ g_fin g = false /\
   g_stream g = [] /\ g' = g_fresh 0 /\ s_state s' = Listen).

Lemma g_ack_una : forall g d al (aof : bool),
  (g_phase g <> PSyn -> al = (if aof then d - 1 else d)) ->
  (g_phase g = PSyn -> al = 0 /\ aof = false /\ d <= 1 /\ g_acked g = 0) ->
  (aof = true -> g_phase g = PData) ->
  (aof = false -> g_phase g = PFinAcked -> d = 0) ->
  0 <= d ->
  g_una (g_ack g d al aof) = g_una g + d /\
  (g_phase g <> PSyn -> g_phase (g_ack g d al aof) <> PSyn).
Proof.
  intros g d al aof Hal Hsyn Haof Hfa Hd. unfold g_una, g_ack. cbn [g_phase g_acked].
  destruct (g_phase g) eqn:P.
  - destruct (Hsyn eq_refl) as (-> & -> & D1 & A0). split; [|congruence].
    destruct (Z.eqb_spec d 0); lia.
  - specialize (Hal ltac:(discriminate)). destruct aof; cbv iota in Hal; split; try lia; discriminate.
  - specialize (Hal ltac:(discriminate)). destruct aof; cbv iota in Hal.
    + specialize (Haof eq_refl). discriminate.
    + specialize (Hfa eq_refl eq_refl). split; [lia|discriminate].
Qed.

Lemma reset_txv_like : forall s, s_remote_mss (tcp_reset s) = tcp_DEFAULT_MSS /\ True.
Proof. intros. unfold tcp_reset. fld. auto. Qed.

Lemma apply_mss_ge : forall s r, tcp_MIN_REMOTE_MSS <= s_remote_mss s ->
  tcp_MIN_REMOTE_MSS <= s_remote_mss (tcp_apply_mss s r).
Proof.
  intros s r H. unfold tcp_apply_mss. destruct (r_max_seg_size r) as [m|]; [destruct (m =? 0)|]; fld;
  try exact H. lia.
Qed.

Lemma st_next_not_listen : forall st c aof st', st_next st c aof st' -> st' = Listen -> False.
Proof.
  intros st c aof st' H E. subst st'. unfold st_next, st_rel in H.
  destruct H as [(E & H & _)|(H & Hc)].
  - subst st. exact H.
  - destruct c; try congruence; cbn [cls] in H;
    destruct H as [(_ & _ & [X|X])|[(X & Y & _)|(_ & X)]]; try lia; try discriminate.
Qed.

Theorem process_inv : forall cx g s ip r s' reply tags,
  inv g s -> ctx_ok cx -> repr_ok r ->
  tcp_process cx s ip r = Ok (s', reply, tags) ->
  exists g', inv g' s' /\ ghost_rel g g' /\ learned s r s' /\ proc_ghost cx g s r g' s'.
Proof.
  intros cx g s ip r s' reply tags Hinv Hcx Hr H.
  unfold tcp_process in H.
  destruct (tcp_accepts s ip r) eqn:Hacc; cbn [negb] in H; [|discriminate].
  assert (Hncl : s_state s <> Closed).
  { unfold tcp_accepts in Hacc. destruct (s_state s); cbn [tcp_state_eqb] in Hacc; congruence. }
  destruct (tcp_process_ack_check cx s ip r) as [p1| |] eqn:E1; cbn [obind] in H; try discriminate.
  apply ack_check_spec in E1.
  destruct p1 as [t1 []|t1 s1 rp1].
  2: { injection H as <- <- <-. exists g. split; [eapply inv_txv; eassumption|].
       split; [left; apply same_epoch_refl|split; [apply learned_txv; assumption|left; reflexivity]]. }
  destruct (tcp_process_window cx s ip r) as [p2| |] eqn:E2; cbn [obind] in H; try discriminate.
  apply window_spec in E2.
  destruct p2 as [t2 [[s2 pl] po]|t2 s2 rp2].
  2: { injection H as <- <- <-. destruct E2 as (tm & E2 & Htm). exists g.
       split; [eapply inv_timer_swap; eassumption|]. split; [left; apply same_epoch_refl|].
       split; [|left; reflexivity].
       destruct (txv_proj _ _ E2) as (_ & _ & _ & _ & B5 & _ & _ & B8 & B9 & _).
       fld_in B5. fld_in B8. fld_in B9. left. unfold learned_core. auto. }
  assert (Hinv2 : inv g s2) by (eapply inv_txv; eassumption).
  assert (Hf2 : ack_facts s2 r) by (eapply ack_facts_txv; eassumption).
  destruct (txv_proj _ _ E2) as (X1 & X2 & X3 & X4 & X5 & X6 & X7 & X8 & X9 & X10).
  assert (Hncl2 : s_state s2 <> Closed) by congruence.
  destruct (tcp_process_ack_len s2 r) as [[[al aof] aa]| |] eqn:E3; cbn [obind] in H; try discriminate.
  pose proof (quash_props s2 r) as (Hq1 & Hq2 & Hq3). cbv zeta in Hq1, Hq2, Hq3.
  set (c := tcp_process_quash s2 r) in *.
  destruct (tcp_process_transition cx s2 ip r c al aof) as [p3| |] eqn:E4; cbn [obind] in H;
    try discriminate.
  pose proof (transition_spec _ _ _ _ _ _ _ _ E4 Hq1) as T. cbv zeta in T.
  destruct p3 as [t3 s3|t3 s3 rp3]; cbn [phase_sock is_ret] in T.
  2: { (* the table returned *)
       injection H as <- <- <-.
       destruct T as [(T & _)|[(st' & tm & T & Htm & Hrel & Hret)|[T|[T|(K1 & K2 & _ & K4)]]]].
       - exists g. split; [eapply inv_txv; eassumption|]. split; [left; apply same_epoch_refl|].
         split; [apply learned_txv; congruence|left; reflexivity].
       - exists g. split; [|split; [left; apply same_epoch_refl|split; [|left; reflexivity]]].
         + assert (Hc : c = CRst) by (apply Hret; reflexivity). unfold st_rel in Hrel. rewrite Hc in Hrel.
           eapply inv_state_rst; eassumption.
         + destruct (txv_proj _ _ T) as (_ & _ & _ & _ & B5 & _ & _ & B8 & B9 & _).
           fld_in B5. fld_in B8. fld_in B9. left. unfold learned_core. rewrite B5, B8, B9, X5, X8, X9. auto.
       - destruct T as (_ & _ & X & _). discriminate.
       - destruct T as (_ & _ & X & _). discriminate.
       - (* handshake reset of a listening socket: pristine LISTEN, a blank epoch *)
         pose proof Hinv2 as ((Hwf & Hcap & Ha & Hlen & _ & _ & _ & _ & _ & Hph & _) & _).
         rewrite K1 in Hph. unfold phase_ok in Hph.
         destruct (g_phase g) eqn:P; try tauto. destruct Hph as (A0 & L0 & G0).
         assert (Hcr : r_control r = CRst) by (apply Hq2; exact K2).
         exists (g_fresh 0). subst s3.
         destruct (reset_fields s2) as (R1 & R2 & R3 & R4 & R5 & R6 & R7).
         destruct (reset_fields2 s2) as (R8 & Rm).
         revert R1 R2 R3 R4 R5 R6 R7 R8 Rm. generalize (tcp_reset s2). intros s0 R1 R2 R3 R4 R5 R6 R7 R8 Rm.
         split; [|split; [apply new_epoch_fresh|split]].
         + apply fresh_inv; unfold tcp_set_state; fld; rewrite ?R1, ?R2, ?R3, ?R4, ?R5, ?R6;
           [apply rb_clear_wf; exact Hwf | exact Hcap | reflexivity | split; [apply Z.le_refl|reflexivity]
           | reflexivity | reflexivity | unfold max_window; split; [apply Z.le_refl|discriminate]
           | exact I | exact I | discriminate | exact R8 | exact Rm].
         + right. unfold tcp_set_state. fld. rewrite R4, Rm.
           split; [exact Hcr|]. split; [congruence|]. auto.
         + right. right. right. split; [congruence|]. split; [exact Hcr|]. split; [exact P|].
           split; [exact G0|]. split; [apply l_len_zero_nil; lia|]. split; [reflexivity|].
           unfold tcp_set_state. fld. reflexivity. }
  (* the table continues: c is not RST *)
  assert (Hnrst : r_control r <> CRst).
  { intro X. apply Hq2 in X.
    destruct T as [(_ & T)|[(st' & tm & _ & _ & _ & Hret)|[T|[T|T]]]].
    - destruct (T eq_refl) as (_ & _ & Y). congruence.
    - apply Hret in X. discriminate.
    - destruct T as (_ & Y & _). congruence.
    - destruct T as (_ & Y & _). congruence.
    - destruct T as (_ & _ & Y & _). discriminate. }
  destruct Hinv2 as (Htx2 & Htm2 & Hk2).
  destruct (ack_len_spec _ _ _ _ _ _ Htx2 Hr Hf2 Hnrst Hncl2 E3)
    as (d & Hd & Hal & Hsyn & Haof & Hnaof & Hack).
  apply tail_spec in H. destruct H as (tx' & Htail).
  change (tail_facts s3 s' r al aa tx') in Htail.
  pose proof Htx2 as (Hwf & Hcap & Ha & Hlen & Hc & Hl & Hrl & Hfl & Hhw & Hph & Hw & Hs).
  pose proof Hwf as (Hl0 & _).
  assert (Hal0 : 0 <= al).
  { destruct (g_phase g) eqn:P.
    - destruct (Hsyn eq_refl) as (-> & _). lia.
    - specialize (Hal ltac:(discriminate)). destruct aof; cbv iota in Hal; [|lia].
      destruct (Haof eq_refl) as (_ & _ & X & _). lia.
    - specialize (Hal ltac:(discriminate)). destruct aof; cbv iota in Hal; [|lia].
      destruct (Haof eq_refl) as (X & _). discriminate. }
  assert (Hcommon :
    (s_tx_buffer s3 = s_tx_buffer s2 /\ s_local_seq_no s3 = s_local_seq_no s2 /\
     s_remote_last_seq s3 = s_remote_last_seq s2 /\
     s_remote_win_scale s3 = s_remote_win_scale s2 /\
     s_syn_unacked_in_fin_wait s3 = s_syn_unacked_in_fin_wait s2 /\
     s_remote_mss s3 = s_remote_mss s2 /\ s_remote_win_shift s3 = s_remote_win_shift s2 /\
     (timer_is_idle (s_timer s3) = true -> timer_is_idle (s_timer s2) = true) /\
     st_next (s_state s2) c aof (s_state s3) /\
     rt_max_seq_sent (s_rtte s3) = rt_max_seq_sent (s_rtte s2)) \/
    (c = CSyn /\ (s_state s2 = Listen \/ s_state s2 = SynSent))).
  { destruct T as [(T & Tc)|[(st' & tm & T & Htm & Hrel & Hret)|[T|[T|T5]]]];
      [| | | |destruct T5 as (_ & _ & Y & _); discriminate].
    - left. destruct (txv_proj _ _ T) as (B1 & B2 & B3 & B4 & B5 & B6 & B7 & B8 & B9 & B10).
      repeat (split; [assumption|]). split; [congruence|]. split; [|exact (txv_msx _ _ T)].
      left. destruct (Tc eq_refl) as (C1 & C2 & _). auto.
    - left. destruct (txv_proj _ _ T) as (B1 & B2 & B3 & B4 & B5 & B6 & B7 & B8 & B9 & B10).
      fld_in B1. fld_in B2. fld_in B3. fld_in B4. fld_in B5. fld_in B6. fld_in B7. fld_in B8.
      fld_in B9. fld_in B10.
      pose proof (txv_msx _ _ T) as B11. fld_in B11.
      repeat (split; [assumption|]). split; [|split; [|exact B11]].
      + rewrite B7. destruct Htm as [->|(e & ->)]; [auto|discriminate].
      + right. rewrite B1. split; [exact Hrel|]. intro X. apply Hret in X. discriminate.
    - right. destruct T as (A & B & _). auto.
    - right. destruct T as (A & B & _). auto. }
  destruct Hcommon as [(C2 & C3 & C4 & C6 & C10 & C8 & C9 & Cidle & Cnext & C11)|(Csyn & Cst)].
  - (* the table changed at most the state *)
    exists (g_ack g d al aof).
    assert (Hlen' : rb_len tx' = rb_len (s_tx_buffer s2) - al).
    { destruct Htail as (D1 & D2 & _). rewrite C2 in D1, D2. destruct (Z.gtb_spec al 0).
      - assert (A2 : al > 0) by lia.
        destruct (rb_dequeue_allocated_spec _ _ _ Hwf Hal0 (D1 A2)) as (_ & _ & _ & L & _). exact L.
      - rewrite (D2 ltac:(lia)). lia. }
    assert (HU : g_una (g_ack g d al aof) = g_una g + d /\
                 (g_phase g <> PSyn -> g_phase (g_ack g d al aof) <> PSyn)).
    { apply g_ack_una; try assumption.
      - intros P. destruct (Hsyn P) as (A1 & A2 & A3). unfold phase_ok in Hph. rewrite P in Hph.
        destruct Hph as (A0 & _). auto.
      - intros X. destruct (Haof X) as (A1 & _). exact A1.
      - intros X P. specialize (Hnaof X). rewrite P in Hnaof. exact Hnaof. }
    destruct HU as (U1 & U2).
    assert (Htt : tx_inv (g_ack g d al aof) s' /\ tm_inv (g_ack g d al aof) s').
    { eapply (ack_finish g (s_state s2) (s_remote_win_len s2) (s_remote_win_scale s2) s3 s' r d al aof aa tx').
      * rewrite C2, C3, C4, C10. exact Htx2.
      * intros Hi. rewrite C2. apply Htm2. auto.
      * exact Hr.
      * rewrite C6. exact Hs.
      * exact Hd.
      * exact Hal.
      * exact Hsyn.
      * rewrite C2. intros X. destruct (Haof X) as (A1 & A2 & A3 & _). auto.
      * rewrite C2. exact Hnaof.
      * destruct (r_ack_number r); [tauto|]. tauto.
      * exact Htail.
      * rewrite Hlen'.
        eapply (phase_ok_after_ack g (s_state s2) (rb_len (s_tx_buffer s2))
                  (s_syn_unacked_in_fin_wait s2) d al aof c (s_state s3) _ (is_some (r_ack_number r)));
          try eassumption.
        -- destruct Htail as (_ & _ & _ & _ & _ & _ & _ & _ & Fa & _).
           destruct (r_ack_number r); cbn [is_some]; [|discriminate].
           intros _. destruct Fa as (_ & _ & F). split; [exact F|tauto].
        -- destruct Htail as (_ & _ & _ & _ & _ & _ & _ & _ & Fa & _).
           destruct (r_ack_number r); cbn [is_some]; [discriminate|].
           intros _. destruct Fa as (_ & _ & F). rewrite F, C10. tauto. }
    destruct Htt as (Ht1 & Ht2).
    split; [|split; [|split]].
    + split; [exact Ht1|]. split; [exact Ht2|].
      destruct Htail as (_ & _ & F1 & _ & _ & _ & F7 & _ & _ & _ & _ & F11).
      eapply (kinv_step g s2 _ s' []); [exact Hk2|exact Ht1|reflexivity|cbn; symmetry; apply app_nil_r
                                        |cbn; auto| | | | |].
      * cbn [g_ack g_hw]. lia.
      * rewrite U1. cbn [g_ack g_hw g_flight]. lia.
      * congruence.
      * rewrite F7, C8. destruct Hk2 as (_ & _ & K3 & _). exact K3.
      * intros X. exfalso. rewrite F1 in X. eapply st_next_not_listen; eassumption.
    + left. unfold same_epoch, g_ack. cbn [g_iss g_stream g_acked g_hw g_fin].
      split; [reflexivity|]. split; [exists []; symmetry; apply app_nil_r|].
      split; [lia|]. split; [lia|]. auto.
    + destruct Htail as (_ & _ & _ & _ & F3 & _ & F7 & F8 & _).
      left. unfold learned_core. rewrite F3, F7, F8, C8, C9, X8, X9.
      split; [right; apply learned_window_eq; left; congruence|]. auto.
    + right. right. left. unfold g_ack at 1 2 3. cbn [g_iss g_stream g_fin].
      split; [reflexivity|]. split; [reflexivity|]. split; [reflexivity|].
      split; [exact U2|]. exists d. split; [exact Hd|]. split; [exact U1|].
      split; [intros P; destruct (Hsyn P) as (_ & _ & X); exact X|].
      intros Hd0. split; [exact Hnrst|].
      destruct (r_ack_number r) as [a|]; [destruct Hack as (Ea & _); rewrite Ea; reflexivity|].
      destruct Hack as (X & _). lia.
  - (* a SYN in LISTEN or SYN-SENT *)
    assert (Hcs : r_control r = CSyn) by (apply Hq3; exact Csyn).
    assert (HT : (s_state s2 = Listen /\
       s_state s3 = SynReceived /\ s_local_seq_no s3 = cx_isn cx /\ s_remote_last_seq s3 = cx_isn cx /\
       s_tx_buffer s3 = s_tx_buffer s2 /\ s_remote_win_len s3 = s_remote_win_len s2 /\
       s_remote_win_scale s3 = r_window_scale r /\ timer_is_idle (s_timer s3) = true /\
       s_remote_mss s3 = s_remote_mss (tcp_apply_mss s2 r) /\
       s_remote_win_shift s3 = (if is_some (r_window_scale r) then s_remote_win_shift s2 else 0) /\
       s_syn_unacked_in_fin_wait s3 = s_syn_unacked_in_fin_wait s2 /\
       rt_max_seq_sent (s_rtte s3) = rt_max_seq_sent (s_rtte s2)) \/
      (s_state s2 = SynSent /\
       s_state s3 = (if is_some (r_ack_number r) then Established else SynReceived) /\
       s_local_seq_no s3 = s_local_seq_no s2 /\
       s_remote_last_seq s3 = (if is_some (r_ack_number r) then seq_add (s_local_seq_no s2) 1
                               else s_remote_last_seq s2) /\
       s_tx_buffer s3 = s_tx_buffer s2 /\ s_remote_win_len s3 = s_remote_win_len s2 /\
       s_remote_win_scale s3 = r_window_scale r /\ s_timer s3 = s_timer s2 /\
       s_remote_mss s3 = s_remote_mss (tcp_apply_mss s2 r) /\
       s_remote_win_shift s3 = (if is_some (r_window_scale r) then s_remote_win_shift s2 else 0) /\
       s_syn_unacked_in_fin_wait s3 = s_syn_unacked_in_fin_wait s2 /\
       rt_max_seq_sent (s_rtte s3) = rt_max_seq_sent (s_rtte s2))).
    { destruct T as [(_ & Tc)|[(st' & tm & _ & _ & Hrel & _)|[T|[T|T5]]]];
        [| | | |destruct T5 as (_ & _ & Y & _); discriminate].
      - destruct (Tc eq_refl) as (C1 & _). destruct Cst as [E|E]; rewrite E in C1; tauto.
      - unfold st_rel in Hrel. rewrite Csyn in Hrel.
        destruct Cst as [E|E]; rewrite E in Hrel; cbn [cls] in Hrel;
        destruct Hrel as [(_ & X & _)|[(_ & X & _)|(X & _)]]; try lia; discriminate.
      - left. destruct T as (A1 & _ & _ & A2). auto.
      - right. destruct T as (A1 & _ & _ & A2). auto. }
    assert (Hwsr : match r_window_scale r with Some v => 0 <= v <= 14 | None => True end)
      by (destruct Hr as (_ & _ & _ & X); exact X).
    assert (Hmss : s_remote_mss (tcp_apply_mss s2 r) = s_remote_mss (tcp_apply_mss s r)).
    { unfold tcp_apply_mss. destruct (r_max_seg_size r) as [m|]; [destruct (m =? 0)|]; fld; auto. }
    destruct Htail as (D1 & D2 & F1 & F2 & F3 & F4 & F7 & F8 & Fa & Fz & Fi & F11).
    assert (Htl : tail_facts s3 s' r al aa tx') by (repeat split; assumption).
    destruct HT as [(Ks & K1 & K3 & K4 & Kt & K5 & K6 & K7 & K8 & K9 & K10 & K11)|
                    (Ks & K1 & K3 & K4 & Kt & K5 & K6 & K7 & K8 & K9 & K10 & K11)].
    + (* LISTEN: a new connection, a new epoch of the ghost *)
      unfold ack_facts in Hf2. rewrite Ks in Hph, Hf2. unfold phase_ok in Hph.
      destruct (g_phase g) eqn:P; try tauto.
      destruct Hph as (A0 & L0 & G0).
      destruct Hf2 as [Hf2|Hf2]; [congruence|].
      rewrite Hf2 in Hack, Fa. destruct Hack as (-> & -> & -> & -> & _).
      set (g1 := mkGhost (cx_isn cx) [] 0 PSyn 0 false 0).
      assert (Etx : tx' = s_tx_buffer s2) by (rewrite (D2 ltac:(lia)); exact Kt).
      exists (g_ack g1 0 0 false).
      assert (Htt : tx_inv (g_ack g1 0 0 false) s' /\ tm_inv (g_ack g1 0 0 false) s').
      { eapply (ack_finish g1 SynReceived (s_remote_win_len s2) (r_window_scale r) s3 s' r 0 0 false false tx');
          try exact Htl; try exact Hr; try lia; try (cbn; discriminate); try (cbn; auto; fail).
        -- rewrite Kt, K3, K4. unfold tx_inv_f, g1. cbn [g_acked g_stream g_iss g_flight g_hw].
           unfold g_una, g_budget, phase_ok, g_W. cbn [g_phase g_acked g_fin g_stream].
           destruct Hcx as (Hisn & _).
           split; [exact Hwf|]. split; [exact Hcap|]. split; [lia|]. split; [rewrite L0; reflexivity|].
           split; [intros; lia|]. split; [rewrite Z.add_0_r; symmetry; apply sq_small; exact Hisn|].
           split; [rewrite !Z.add_0_r; symmetry; apply sq_small; exact Hisn|].
           split; [lia|]. split; [lia|]. split; [auto|]. split; [exact Hw|exact Hwsr].
        -- rewrite K6. exact Hwsr.
        -- rewrite Hf2. auto.
        -- rewrite K1, Etx, L0. unfold phase_ok, g_ack, g1. cbn. rewrite Z.eqb_refl.
           repeat split; (lia || reflexivity). }
      destruct Htt as (Ht1 & Ht2). split; [|split; [|split]].
      * split; [exact Ht1|]. split; [exact Ht2|].
        destruct Hk2 as (_ & _ & Km & Kl).
        unfold kinv. rewrite F11, K11, (Kl Ks), F7, K8, F1, K1.
        split; [unfold g_ack, g1, g_una; cbn; lia|]. split; [exact I|].
        split; [apply apply_mss_ge; exact Km|discriminate].
      * right. unfold new_epoch, g_ack, g1. cbn. auto.
      * left. unfold learned_core. rewrite F3, F7, F8, K8, K9, Hmss, X9.
        split; [right; apply learned_window_eq; right; exact Hcs|]. auto.
      * right. left. split; [congruence|]. split; [exact Hcs|]. split; [exact P|]. split; [exact G0|].
        split; [apply l_len_zero_nil; lia|]. unfold g_ack, g1. cbn. rewrite Z.eqb_refl. auto.
    + (* SYN-SENT *)
      rewrite Ks in Hph. unfold phase_ok in Hph. destruct (g_phase g) eqn:P; try tauto.
      destruct Hph as (A0 & L0 & G0).
      destruct (Hsyn eq_refl) as (-> & -> & D01).
      assert (Etx : tx' = s_tx_buffer s2) by (rewrite (D2 ltac:(lia)); exact Kt).
      destruct (r_ack_number r) as [a|] eqn:Ea; cbn [is_some] in K1, K4.
      * destruct Hack as (Eack & Eaa & Ed1). specialize (Ed1 eq_refl). subst d.
        set (g1 := mkGhost (g_iss g) (g_stream g) (g_acked g) PSyn 1 (g_fin g) (Z.max (g_hw g) 1)).
        assert (U1 : g_una g = 0) by (unfold g_una; rewrite P; reflexivity).
        exists (g_ack g1 1 0 false).
        assert (Htt : tx_inv (g_ack g1 1 0 false) s' /\ tm_inv (g_ack g1 1 0 false) s').
        { eapply (ack_finish g1 SynSent (s_remote_win_len s2) (r_window_scale r) s3 s' r 1 0 false aa tx');
             try exact Htl; try exact Hr; try lia; try (cbn; discriminate); try (cbn; auto; fail).
           ++ rewrite Kt, K3, K4, K10, Hl, seq_add_sq.
              unfold tx_inv_f, g1. cbn [g_acked g_stream g_iss g_flight g_hw].
              unfold g_una, g_budget, phase_ok, g_W. cbn [g_phase g_acked g_fin g_stream].
              rewrite P.
              split; [exact Hwf|]. split; [exact Hcap|]. split; [lia|]. split; [exact Hlen|].
              split; [exact Hc|]. split; [reflexivity|]. split; [reflexivity|].
              split; [lia|]. split; [lia|]. split; [auto|]. split; [exact Hw|exact Hwsr].
           ++ intros _. right. rewrite Kt. exact L0.
           ++ rewrite K6. exact Hwsr.
           ++ rewrite Ea. split; [rewrite Eack; unfold g1, g_una; cbn [g_iss g_phase]; rewrite P; reflexivity|].
              rewrite Eaa. unfold g1. cbn [g_flight]. unfold g_budget in Hfl. rewrite P in Hfl.
              destruct (Z.leb_spec (g_flight g) 1); [reflexivity|lia].
           ++ rewrite K1, Etx, L0. destruct Fa as (_ & _ & ->).
              unfold phase_ok, g_ack, g1. cbn. split; [exact G0|reflexivity]. }
        destruct Htt as (Ht1 & Ht2). split; [|split; [|split]].
        -- split; [exact Ht1|]. split; [exact Ht2|].
           assert (Ug : g_una (g_ack g1 1 0 false) = 1).
           { unfold g_una, g_ack, g1. cbn [g_phase g_acked]. destruct (Z.eqb_spec 1 0); lia. }
           eapply (kinv_step g s2 _ s' []); [exact Hk2|exact Ht1|reflexivity|cbn; symmetry; apply app_nil_r
                                             |cbn; auto| | | | |].
           ++ unfold g_ack, g1. cbn [g_hw]. lia.
           ++ rewrite Ug. unfold g_ack, g1, g_una. cbn [g_hw g_flight g_phase]. lia.
           ++ congruence.
           ++ rewrite F7, K8. destruct Hk2 as (_ & _ & Km & _). apply apply_mss_ge. exact Km.
           ++ rewrite F1, K1. discriminate.
        -- left. unfold same_epoch, g_ack, g1. cbn [g_iss g_stream g_acked g_hw g_fin].
           split; [reflexivity|]. split; [exists []; symmetry; apply app_nil_r|].
           split; [lia|]. split; [lia|]. auto.
        -- left. unfold learned_core. rewrite F3, F7, F8, K8, K9, Hmss, X9.
           split; [right; apply learned_window_eq; right; exact Hcs|]. auto.
        -- right. right. left. unfold g_ack, g1. cbn [g_iss g_stream g_fin g_phase g_acked].
           split; [reflexivity|]. split; [reflexivity|]. split; [reflexivity|].
           split; [congruence|]. exists 1. split; [lia|].
           split; [unfold g_una; cbn [g_phase g_acked]; rewrite P; destruct (Z.eqb_spec 1 0); lia|].
           split; [lia|]. intros _. split; [exact Hnrst|]. rewrite Ea. f_equal. exact Eack.
      * destruct Hack as (-> & _ & _ & -> & _).
        exists (g_ack g 0 0 false).
        assert (Htt : tx_inv (g_ack g 0 0 false) s' /\ tm_inv (g_ack g 0 0 false) s').
        { eapply (ack_finish g SynSent (s_remote_win_len s2) (r_window_scale r) s3 s' r 0 0 false false tx');
             try exact Htl; try exact Hr; try lia; try (rewrite P; cbn; discriminate);
             try (rewrite P; cbn; auto; fail).
           ++ rewrite Kt, K3, K4, K10.
              destruct Htx2 as (H1 & H2 & H3 & H4 & H5 & H6 & H7 & H8 & H9 & H10 & H11 & _).
              rewrite Ks in H10.
              repeat (split; [assumption|]). exact Hwsr.
           ++ intros Hi. rewrite Kt. right. exact L0.
           ++ rewrite K6. exact Hwsr.
           ++ rewrite Ea. auto.
           ++ rewrite K1, Etx, L0. destruct Fa as (_ & _ & ->). rewrite K10.
              unfold phase_ok, g_ack. cbn [g_phase g_acked g_fin g_flight]. rewrite P. cbn.
              split; [lia|]. split; [lia|]. exact G0. }
        destruct Htt as (Ht1 & Ht2). split; [|split; [|split]].
        -- split; [exact Ht1|]. split; [exact Ht2|].
           assert (Ug : g_una (g_ack g 0 0 false) = g_una g).
           { unfold g_una, g_ack. cbn [g_phase g_acked]. rewrite P, Z.eqb_refl. reflexivity. }
           eapply (kinv_step g s2 _ s' []); [exact Hk2|exact Ht1|reflexivity|cbn; symmetry; apply app_nil_r
                                             |cbn; auto| | | | |].
           ++ unfold g_ack. cbn [g_hw]. lia.
           ++ rewrite Ug. unfold g_ack. cbn [g_hw g_flight]. lia.
           ++ congruence.
           ++ rewrite F7, K8. destruct Hk2 as (_ & _ & Km & _). apply apply_mss_ge. exact Km.
           ++ rewrite F1, K1. discriminate.
        -- left. unfold same_epoch, g_ack. cbn [g_iss g_stream g_acked g_hw g_fin].
           split; [reflexivity|]. split; [exists []; symmetry; apply app_nil_r|].
           split; [lia|]. split; [lia|]. auto.
        -- left. unfold learned_core. rewrite F3, F7, F8, K8, K9, Hmss, X9.
           split; [right; apply learned_window_eq; right; exact Hcs|]. auto.
        -- right. right. left. unfold g_ack. cbn [g_iss g_stream g_fin g_phase g_acked].
           split; [reflexivity|]. split; [reflexivity|]. split; [reflexivity|].
           split; [congruence|]. exists 0. split; [lia|].
           split; [unfold g_una; cbn [g_phase g_acked]; rewrite P, Z.eqb_refl; lia|].
           split; [lia|]. lia.
Qed.
