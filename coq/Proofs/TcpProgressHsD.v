(* C02 (liveness half), layer 1d: the HANDSHAKE at socket level, dispatch:
     dispatch_keeps   a dispatch (no user timeout) keeps SYN-SENT / SYN-RECEIVED / ESTABLISHED, the
                      address tuple, SND.UNA and the transmit queue
     dispatch_syn     what SYN-SENT / SYN-RECEIVED transmit: a SYN numbered ISS without ACK / with
                      ACK = RCV.NXT; once transmitted, the estimator remembers the highest sequence
                      number sent and (SYN-RECEIVED) the last ACK is recorded
   All statements are about Model/Tcp.v only. *)
From SV Require Import Lib.Base Gen.Consts.
From SV Require Import Model.Seq32 Model.Assembler Model.TcpBuf Model.TcpTypes Model.Tcp Model.TcpNet.
From SV Require Import Proofs.TcpSendBase Proofs.TcpLiveBase Proofs.TcpLiveProofs Proofs.TcpLiveMore
  Proofs.TcpLiveProgress.
From SV Require Proofs.TcpRecvBase Proofs.TcpRecvInv Proofs.TcpRecvProcess Proofs.TcpRecvDispatch.
From SV Require Import Proofs.TcpProgressFrame Proofs.TcpProgressCtl Proofs.TcpProgressSend.

Definition hs_state (st : tcp_state) : Prop := st = SynSent \/ st = SynReceived \/ st = Established.

Lemma hs_state_live st : hs_state st -> st <> TimeWait /\ st <> Closed /\ st <> Listen.
Proof. intros [-> | [-> | ->]]; repeat split; discriminate. Qed.

Theorem dispatch_keeps : forall cx s t ok s' res tags,
  tcp_live_inv s -> hs_state (s_state s) -> s_timeout s = None ->
  s_tuple s = Some t -> tu_local_addr t = cx_addr cx ->
  tcp_dispatch cx s ok = Ok (s', res, tags) ->
  s_state s' = s_state s /\ s_tuple s' = Some t /\
  s_local_seq_no s' = s_local_seq_no s /\ s_tx_buffer s' = s_tx_buffer s.
Proof.
  intros cx s t ok s' res tags I Hst Hto Htu Haddr H.
  destruct (hs_state_live _ Hst) as (N1 & N2 & N3).
  unfold tcp_dispatch in H.
  rewrite Htu, Haddr, Z.eqb_refl in H. cbn [negb] in H.
  obind_inv H. destruct a as (s1, t1). rename E into Edt.
  pose proof (dt_pre_core cx s) as (Q1 & Q2 & Q3 & Q4 & Q5 & Q6 & Q7 & _).
  pose proof (not_timed_out (dt_pre cx s) (cx_now cx) ltac:(rewrite dt_pre_timeout; exact Hto)) as Hnto.
  assert (D : s_local_seq_no s1 = s_local_seq_no s /\ s_tx_buffer s1 = s_tx_buffer s /\
              s_state s1 = s_state s /\ s_tuple s1 = s_tuple s).
  { destruct (dt_spec _ _ _ _ Edt) as [(X & _) | [(_ & _ & ->) | (_ & _ & D1 & D2 & D3 & D4 & _)]].
    - rewrite Hnto in X. discriminate.
    - rewrite Q1, Q3, Q4, Q5. auto.
    - rewrite D1, D2, D3, D4, Q1, Q3, Q4, Q5. auto. }
  destruct D as (D1 & D2 & D3 & D4).
  pose proof (dispatch_timers_inv _ _ _ _ I Edt) as I1.
  obind_inv H. destruct a as ((s2, go), t2). rename E into Edd.
  assert (E2 : s2 = s1).
  { destruct (dispatch_decide_cases _ _ _ _ _ Edd) as [E | (_ & X)]; [exact E|].
    exfalso. unfold tcp_dispatch_decide in Edd.
    destruct (tcp_seq_to_transmit cx s1) as [[|]|e|]; cbn [obind] in Edd; try discriminate;
      [inversion Edd; subst; congruence|].
    destruct (tcp_ack_to_transmit s1 && tcp_delayed_ack_expired s1 (cx_now cx)); [inversion Edd; subst; congruence|].
    destruct (tcp_window_to_update s1) as [[|]|e|]; cbn [obind] in Edd; try discriminate; [inversion Edd; subst; congruence|].
    destruct (tcp_state_eqb (s_state s1) Closed); [inversion Edd; subst; congruence|].
    destruct (timer_should_keep_alive (s_timer s1) (cx_now cx)); [inversion Edd; subst; congruence|].
    destruct (timer_should_zero_window_probe (s_timer s1) (cx_now cx)); [inversion Edd; subst; congruence|].
    destruct (timer_should_close (s_timer s1) (cx_now cx)) eqn:Hcl; [|inversion Edd; subst; congruence].
    assert (Hc : timer_is_close (s_timer s1) = true) by (destruct (s_timer s1); try discriminate; reflexivity).
    destruct (li_close s1 I1 Hc) as [X1 | X1]; rewrite D3 in X1; contradiction. }
  subst s2.
  destruct (negb go); [inversion H; subst; rewrite D4; auto|].
  obind_inv H. destruct a as ((((s3, o), z), k), t3). rename E into Ebd.
  destruct (build_core _ _ _ _ _ _ _ _ Ebd) as ((C1 & C2 & C3 & C4 & C5 & _) & _).
  destruct o as [repr|]; [|inversion H; subst; rewrite C1, C3, C4, C5, D4; auto].
  destruct (negb ok); [inversion H; subst; rewrite C1, C3, C4, C5, D4; auto|].
  pose proof (finish_core cx s3 repr z k) as (F1 & F2 & F3 & _).
  pose proof (finish_props cx s3 repr z k) as (_ & G2 & _).
  destruct (tcp_dispatch_finish cx s3 repr z k) as (s4, t4). cbn [fst] in *.
  inversion H; subst. rewrite F1, F2, F3, C1, C4, C5.
  rewrite G2 by (rewrite C1, D3; exact N2). rewrite C3, D4. auto.
Qed.

Lemma dispatch_timers_msx cx s s1 t :
  tcp_dispatch_timers cx s = Ok (s1, t) -> rt_max_seq_sent (s_rtte s1) = rt_max_seq_sent (s_rtte s).
Proof.
  unfold tcp_dispatch_timers. intros H.
  set (s0 := if is_some (s_remote_last_ts s) then s else upd_remote_last_ts s (Some (cx_now cx))) in *.
  assert (H0 : s_rtte s0 = s_rtte s) by (unfold s0; destruct (is_some (s_remote_last_ts s)); sproj; reflexivity).
  rewrite <- H0. clear H0. clearbody s0.
  destruct (tcp_timed_out s0 (cx_now cx)); [inversion H; subst; unfold tcp_set_state; sproj; reflexivity|].
  destruct (timer_should_retransmit (s_timer s0) (cx_now cx)); [|inversion H; subst; reflexivity].
  obind_inv H.
  destruct (s_timer s0); cbv beta iota zeta in H; sproj;
    repeat match type of H with context [if ?c then _ else _] => destruct c end;
    inversion H; subst; sproj; unfold rtte_on_retransmit, rtte_on_rto;
    repeat match goal with |- context [if ?c then _ else _] => destruct c end; reflexivity.
Qed.

(* the state update after a SYN was transmitted *)
Lemma finish_syn cx s repr :
  r_control repr = CSyn ->
  let s4 := fst (tcp_dispatch_finish cx s repr false false) in
  rt_max_seq_sent (s_rtte s4) <> None /\ s_remote_last_ack s4 = r_ack_number repr.
Proof.
  intros Hc. cbv zeta. unfold tcp_dispatch_finish.
  assert (Hl : repr_segment_len repr >? 0 = true).
  { unfold repr_segment_len. rewrite Hc. cbn [control_len]. pose proof (l_len_nonneg (r_payload repr)). lia. }
  rewrite Hl. cbn [andb].
  repeat match goal with
  | |- context [if ?c then _ else _] => destruct c
  end; cbn [fst]; sproj; (split; [|reflexivity]); unfold rtte_on_send;
  repeat match goal with |- context [if ?c then _ else _] => destruct c eqn:? end; cbn [rt_max_seq_sent]; try discriminate.
  all: match goal with E : match rt_max_seq_sent ?r with Some _ => _ | None => true end = false |- _ =>
         destruct (rt_max_seq_sent r); [discriminate | discriminate E] end.
Qed.

Theorem dispatch_syn : forall cx s t ok s' res tags,
  tcp_live_inv s -> (s_state s = SynSent \/ s_state s = SynReceived) -> s_timeout s = None ->
  s_tuple s = Some t -> tu_local_addr t = cx_addr cx ->
  tcp_dispatch cx s ok = Ok (s', res, tags) ->
  (rt_max_seq_sent (s_rtte s) <> None -> rt_max_seq_sent (s_rtte s') <> None) /\
  (s_state s = SynReceived -> s_remote_last_ack s <> None -> s_remote_last_ack s' <> None) /\
  forall p, res = DSent p ->
    ip_src (fst p) = tu_local_addr t /\ ip_dst (fst p) = tu_remote_addr t /\
    r_src_port (snd p) = tu_local_port t /\ r_dst_port (snd p) = tu_remote_port t /\
    r_control (snd p) = CSyn /\ r_seq_number (snd p) = s_local_seq_no s /\
    r_ack_number (snd p) = (if tcp_state_eqb (s_state s) SynSent then None else Some (tcp_window_start s)) /\
    rt_max_seq_sent (s_rtte s') <> None /\ (s_state s = SynReceived -> s_remote_last_ack s' <> None) /\
    r_payload (snd p) = [].
Proof.
  intros cx s t ok s' res tags I Hst Hto Htu Haddr H.
  assert (Hhs : hs_state (s_state s)) by (destruct Hst as [X | X]; [left | right; left]; exact X).
  destruct (dispatch_keeps _ _ _ _ _ _ _ I Hhs Hto Htu Haddr H) as (Kst & _).
  unfold tcp_dispatch in H. rewrite Htu, Haddr, Z.eqb_refl in H. cbn [negb] in H.
  obind_inv H. destruct a as (s1, t1). rename E into Edt.
  pose proof (dispatch_timers_msx _ _ _ _ Edt) as M1.
  pose proof (TcpRecvDispatch.dispatch_timers_frame _ _ _ _ Edt) as (V1 & _).
  pose proof (dt_pre_core cx s) as (Q1 & _ & _ & _ & Q5 & _).
  pose proof (not_timed_out (dt_pre cx s) (cx_now cx) ltac:(rewrite dt_pre_timeout; exact Hto)) as Hnto.
  assert (D : s_local_seq_no s1 = s_local_seq_no s /\ s_state s1 = s_state s).
  { destruct (dt_spec _ _ _ _ Edt) as [(X & _) | [(_ & _ & ->) | (_ & _ & D1 & _ & _ & D4 & _)]].
    - rewrite Hnto in X. discriminate.
    - rewrite Q1, Q5. auto.
    - rewrite D1, D4, Q1, Q5. auto. }
  destruct D as (D1 & D3).
  obind_inv H. destruct a as ((s2, go), t2). rename E into Edd.
  destruct (dispatch_decide_cases _ _ _ _ _ Edd) as [-> | (-> & Hc2)].
  2:{ cbn [negb] in H. inversion H; subst. rewrite Hc2 in Kst. destruct Hst as [X | X]; rewrite X in Kst; discriminate. }
  pose proof (TcpRecvInv.rxv_eq_window_start _ _ V1) as Hws.
  destruct V1 as (_ & _ & _ & _ & V5 & _).
  destruct (negb go).
  { inversion H; subst. split; [rewrite M1; auto|]. split; [rewrite V5; auto|]. intros p Hp; discriminate. }
  obind_inv H. destruct a as ((((s3, o), z), k), t3). rename E into Ebd.
  unfold tcp_dispatch_build in Ebd.
  set (ts := if s_tsval_generator s1 then Some (cx_tsval cx, s_last_remote_tsval s1) else None) in *.
  set (repr0 := mkRepr (tu_local_port t) (tu_remote_port t) CNone (s_remote_last_seq s1)
                       (Some (tcp_window_start s1)) (tcp_scaled_window s1) None None false no_sack ts []) in *.
  assert (Hb : exists repr,
            s3 = s1 /\ z = false /\ k = false /\
            o = Some repr /\ r_src_port repr = tu_local_port t /\ r_dst_port repr = tu_remote_port t /\
            r_control repr = CSyn /\ r_seq_number repr = s_local_seq_no s1 /\
            r_ack_number repr = (if tcp_state_eqb (s_state s) SynSent then None else Some (tcp_window_start s1)) /\
            r_payload repr = []).
  { rewrite D3 in Ebd. destruct Hst as [X | X]; rewrite X in Ebd; cbn [obind] in Ebd;
      unfold tcp_syn_repr, repr_is_empty in Ebd; cbn [r_payload r_control control_eqb andb] in Ebd;
      rewrite Bool.andb_false_r in Ebd; cbn [control_eqb] in Ebd;
      obind_inv Ebd; inversion Ebd; subst; cbn [r_control control_eqb] in E; obind_inv E; inversion E; subst;
      rewrite X; eexists; cbn; repeat split; reflexivity. }
  destruct Hb as (repr & -> & -> & -> & -> & B1 & B2 & B3 & B4 & B5 & B6).
  destruct (negb ok).
  { inversion H; subst. split; [rewrite M1; auto|]. split; [rewrite V5; auto|]. intros p Hp; discriminate. }
  pose proof (finish_syn cx s1 repr B3) as F. cbv zeta in F.
  destruct (tcp_dispatch_finish cx s1 repr false false) as (s4, t4). cbn [fst] in F.
  destruct F as (F1 & F2).
  inversion H; subst s' res tags; clear H.
  assert (Hla : s_state s = SynReceived -> s_remote_last_ack s4 <> None).
  { intros X. rewrite F2, B5, X. cbn. discriminate. }
  split; [intros _; exact F1|]. split; [intros X _; exact (Hla X)|].
  intros p Hp. inversion Hp; subst p; clear Hp. unfold with_payload_len. cbn [fst snd ip_src ip_dst].
  split; [symmetry; exact Haddr|]. split; [reflexivity|]. split; [exact B1|]. split; [exact B2|].
  split; [exact B3|]. split; [rewrite B4; exact D1|]. split; [rewrite B5, Hws; reflexivity|].
  split; [exact F1|]. split; [exact Hla | exact B6].
Qed.

(* ---------------------------------------------------------------------------------------- *)
(* send / recv keep RCV.NXT                                                                  *)
(* ---------------------------------------------------------------------------------------- *)
Lemma send_slice_ws s data s' n :
  tcp_send_slice s data = Ok (s', n) -> tcp_window_start s' = tcp_window_start s.
Proof.
  unfold tcp_send_slice. intros H. destruct (negb (tcp_may_send s)); [discriminate|].
  destruct (rb_enqueue_slice (s_tx_buffer s) data) as (tx, size).
  destruct (size >? 0); [|inversion H; subst; unfold tcp_window_start; sproj; reflexivity].
  destruct (rb_len (s_tx_buffer s) =? 0); sproj;
    match type of H with context [if ?c then _ else _] => destruct c end;
    inversion H; subst; unfold tcp_window_start; sproj; reflexivity.
Qed.

Lemma recv_slice_ws s n s' b :
  TcpRecvBase.rb_wf (s_rx_buffer s) -> 0 <= n ->
  tcp_recv_slice s n = Ok (s', b) -> tcp_window_start s' = tcp_window_start s.
Proof.
  intros Hwf Hn H. unfold tcp_recv_slice in H. obind_inv H.
  destruct (rb_dequeue_slice (s_rx_buffer s) n) as (rx, bytes) eqn:Ed. inversion H; subst s' b; clear H.
  destruct (TcpRecvBase.rb_dequeue_slice_spec _ _ _ _ Hwf Hn Ed) as (Hk & _ & _ & Hl & _).
  unfold tcp_window_start. sproj. rewrite Hl.
  rewrite (TcpRecvBase.seq_add_as_norm (s_remote_seq_no s) (l_len bytes)), TcpRecvBase.seq_add_norm.
  rewrite TcpRecvBase.seq_add_as_norm. f_equal. lia.
Qed.

(* ---------------------------------------------------------------------------------------- *)
(* send / recv are quiet: nothing on the wire, the control plane is left alone               *)
(* ---------------------------------------------------------------------------------------- *)
Definition qf (s' s : socket) : Prop :=
  s_state s' = s_state s /\ s_tuple s' = s_tuple s /\ s_listen_endpoint s' = s_listen_endpoint s /\
  s_local_seq_no s' = s_local_seq_no s /\ s_remote_last_ack s' = s_remote_last_ack s /\
  s_rtte s' = s_rtte s /\ s_ack_delay s' = s_ack_delay s /\
  s_remote_last_seq s' = s_remote_last_seq s /\ s_ack_delay_timer s' = s_ack_delay_timer s.

Lemma qf_refl s : qf s s.
Proof. repeat split. Qed.

Theorem quiet_event cx s ev s' out tags :
  (exists d, ev = EvSend d) \/ (exists n, ev = EvRecv n) ->
  tcp_step cx s ev = Ok (s', out, tags) -> wire_out out = None /\ qf s' s.
Proof.
  intros [(d & ->) | (n & ->)] H; cbn [tcp_step] in H.
  - destruct (tcp_send_slice s d) as [(s1, k)|e|] eqn:E; [| |discriminate]; inversion H; subst.
    + split; [reflexivity|]. unfold tcp_send_slice in E. destruct (negb (tcp_may_send s)); [discriminate|].
      destruct (rb_enqueue_slice (s_tx_buffer s) d) as (tx, size).
      destruct (size >? 0); [|inversion E; subst; unfold qf; sproj; repeat split; reflexivity].
      destruct (rb_len (s_tx_buffer s) =? 0); sproj;
        match type of E with context [if ?c then _ else _] => destruct c end;
        inversion E; subst; unfold qf; sproj; repeat split; reflexivity.
    + split; [reflexivity | apply qf_refl].
  - destruct (tcp_recv_slice s n) as [(s1, b)|e|] eqn:E; [| |discriminate]; inversion H; subst.
    + split; [reflexivity|]. unfold tcp_recv_slice in E. obind_inv E.
      destruct (rb_dequeue_slice (s_rx_buffer s) n) as (rx, bytes). inversion E; subst.
      unfold qf. sproj. repeat split; reflexivity.
    + split; [reflexivity | apply qf_refl].
Qed.

(* ---------------------------------------------------------------------------------------- *)
(* a SYN that has to be (re)transmitted: the socket wants to be polled now, and a poll sends it  *)
(* ---------------------------------------------------------------------------------------- *)
Lemma local_mss_ok cx : 52 < cx_ip_mtu cx -> exists m, tcp_local_mss cx = Ok m.
Proof.
  intros H. unfold tcp_local_mss, usub. change wipv4_HEADER_LEN with 20. change wtcp_HEADER_LEN with 20.
  destruct (Z.ltb_spec (cx_ip_mtu cx - 20) 0); [lia|]. cbn [obind].
  destruct (Z.ltb_spec (cx_ip_mtu cx - 20 - 20) 0); [lia|]. eexists. reflexivity.
Qed.

Lemma syn_seq_to_transmit cx s :
  s_tuple s <> None -> (s_state s = SynSent \/ s_state s = SynReceived) ->
  s_remote_last_seq s = s_local_seq_no s -> 52 < cx_ip_mtu cx ->
  tcp_seq_to_transmit cx s = Ok true.
Proof.
  intros Htu Hst Hrl Hm. unfold tcp_seq_to_transmit.
  destruct (s_pending_fast_retransmit s && negb (rb_is_empty (s_tx_buffer s)) && (s_remote_win_len s >? 0)); [reflexivity|].
  destruct (s_tuple s); [|congruence].
  destruct (local_mss_ok cx Hm) as (m & ->). cbn [obind].
  rewrite Hrl, Z.eqb_refl. cbn [negb]. destruct Hst as [-> | ->]; reflexivity.
Qed.

Lemma syn_poll_now cx s :
  s_tuple s <> None -> (s_state s = SynSent \/ s_state s = SynReceived) ->
  s_remote_last_seq s = s_local_seq_no s -> 52 < cx_ip_mtu cx ->
  tcp_poll_at cx s = Ok PNow.
Proof.
  intros Htu Hst Hrl Hm. unfold tcp_poll_at.
  destruct (s_tuple s) eqn:Et; [|congruence]. cbn [is_some negb].
  destruct (is_some (s_remote_last_ts s)); cbn [negb]; [|reflexivity].
  assert (Hnc : tcp_state_eqb (s_state s) Closed = false) by (destruct Hst as [-> | ->]; reflexivity).
  rewrite Hnc. rewrite (syn_seq_to_transmit cx s ltac:(rewrite Et; discriminate) Hst Hrl Hm). reflexivity.
Qed.

Theorem syn_dispatch_emits : forall cx s t s' res tags,
  tcp_live_inv s -> (s_state s = SynSent \/ s_state s = SynReceived) -> s_timeout s = None ->
  s_tuple s = Some t -> tu_local_addr t = cx_addr cx ->
  s_remote_last_seq s = s_local_seq_no s -> 52 < cx_ip_mtu cx ->
  tcp_dispatch cx s true = Ok (s', res, tags) -> exists p, res = DSent p.
Proof.
  intros cx s t s' res tags I Hst Hto Htu Haddr Hrl Hm H.
  assert (Hhs : hs_state (s_state s)) by (destruct Hst as [X | X]; [left | right; left]; exact X).
  destruct (dispatch_keeps _ _ _ _ _ _ _ I Hhs Hto Htu Haddr H) as (Kst & _).
  unfold tcp_dispatch in H. rewrite Htu, Haddr, Z.eqb_refl in H. cbn [negb] in H.
  obind_inv H. destruct a as (s1, t1). rename E into Edt.
  pose proof (dt_pre_core cx s) as (Q1 & _ & Q3 & _ & Q5 & Q6 & _).
  pose proof (not_timed_out (dt_pre cx s) (cx_now cx) ltac:(rewrite dt_pre_timeout; exact Hto)) as Hnto.
  assert (D : s_local_seq_no s1 = s_local_seq_no s /\ s_state s1 = s_state s /\ s_tuple s1 = s_tuple s /\
              s_remote_last_seq s1 = s_local_seq_no s).
  { destruct (dt_spec _ _ _ _ Edt) as [(X & _) | [(_ & _ & ->) | (_ & _ & D1 & D2 & _ & D4 & _ & _ & _ & _ & _ & _ & D13 & _)]].
    - rewrite Hnto in X. discriminate.
    - rewrite Q1, Q3, Q5, Q6. auto.
    - rewrite D1, D2, D4, Q1, Q3, Q5. split; [reflexivity|]. split; [reflexivity|]. split; [reflexivity|].
      destruct D13 as [X | X]; rewrite X; [rewrite Q6; exact Hrl | exact Q5]. }
  destruct D as (D1 & D3 & D4 & D6).
  obind_inv H. destruct a as ((s2, go), t2). rename E into Edd.
  assert (Hstt : tcp_seq_to_transmit cx s1 = Ok true).
  { apply syn_seq_to_transmit; [rewrite D4, Htu; discriminate | rewrite D3; exact Hst | rewrite D6, D1; reflexivity | exact Hm]. }
  assert (E2 : s2 = s1 /\ go = true).
  { unfold tcp_dispatch_decide in Edd. rewrite Hstt in Edd. cbn [obind] in Edd. inversion Edd; auto. }
  destruct E2 as (-> & ->). cbn [negb] in H.
  obind_inv H. destruct a as ((((s3, o), z), k), t3). rename E into Ebd.
  unfold tcp_dispatch_build in Ebd.
  assert (Ho : exists repr, o = Some repr).
  { rewrite D3 in Ebd. destruct Hst as [X | X]; rewrite X in Ebd; cbn [obind] in Ebd;
      unfold tcp_syn_repr, repr_is_empty in Ebd; cbn [r_payload r_control control_eqb andb] in Ebd;
      rewrite Bool.andb_false_r in Ebd; cbn [control_eqb] in Ebd;
      obind_inv Ebd; inversion Ebd; subst; eexists; reflexivity. }
  destruct Ho as (repr & ->). cbn [negb] in H.
  destruct (tcp_dispatch_finish cx s3 repr z k) as (s4, t4). inversion H; subst. eexists. reflexivity.
Qed.

(* ---------------------------------------------------------------------------------------- *)
(* an ESTABLISHED socket with nothing in flight numbers whatever it transmits with SND.UNA     *)
(* ---------------------------------------------------------------------------------------- *)
Lemma send_next_fn s s' :
  rt_max_seq_sent (s_rtte s') = rt_max_seq_sent (s_rtte s) -> s_remote_last_seq s' = s_remote_last_seq s ->
  tcp_send_next_seq s' = tcp_send_next_seq s.
Proof. intros A B. unfold tcp_send_next_seq. rewrite A, B. reflexivity. Qed.

Theorem dispatch_est_seq : forall cx s t ok s' res tags,
  tcp_live_inv s -> s_state s = Established -> s_timeout s = None ->
  s_tuple s = Some t -> tu_local_addr t = cx_addr cx ->
  s_keep_alive s = None -> noka (s_timer s) ->
  s_remote_last_seq s = s_local_seq_no s -> tcp_send_next_seq s = s_local_seq_no s ->
  tcp_dispatch cx s ok = Ok (s', res, tags) ->
  forall p, res = DSent p -> r_seq_number (snd p) = s_local_seq_no s.
Proof.
  intros cx s t ok s' res tags I Hst Hto Htu Haddr Hka Hnk Hrl Hnx H p Hp.
  assert (Hhs : hs_state (s_state s)) by (right; right; exact Hst).
  destruct (dispatch_keeps _ _ _ _ _ _ _ I Hhs Hto Htu Haddr H) as (Kst & _). rewrite Hst in Kst.
  unfold tcp_dispatch in H. rewrite Htu, Haddr, Z.eqb_refl in H. cbn [negb] in H.
  obind_inv H. destruct a as (s1, t1). rename E into Edt.
  pose proof (dispatch_timers_msx _ _ _ _ Edt) as M1.
  pose proof (dispatch_timers_kaf _ _ _ _ Edt) as K1.
  pose proof (dt_pre_core cx s) as (Q1 & _ & _ & _ & Q5 & Q6 & _).
  pose proof (not_timed_out (dt_pre cx s) (cx_now cx) ltac:(rewrite dt_pre_timeout; exact Hto)) as Hnto.
  assert (D : s_local_seq_no s1 = s_local_seq_no s /\ s_state s1 = s_state s /\ s_remote_last_seq s1 = s_local_seq_no s).
  { destruct (dt_spec _ _ _ _ Edt) as [(X & _) | [(_ & _ & ->) | (_ & _ & D1 & _ & _ & D4 & _ & _ & _ & _ & _ & _ & D13 & _)]].
    - rewrite Hnto in X. discriminate.
    - rewrite Q1, Q5, Q6. auto.
    - rewrite D1, D4, Q1, Q5. split; [reflexivity|]. split; [reflexivity|].
      destruct D13 as [X | X]; rewrite X; [rewrite Q6; exact Hrl | exact Q5]. }
  destruct D as (D1 & D3 & D6).
  assert (Hnx1 : tcp_send_next_seq s1 = s_local_seq_no s).
  { rewrite <- Hnx. apply send_next_fn; [exact M1 | rewrite D6, Hrl; reflexivity]. }
  obind_inv H. destruct a as ((s2, go), t2). rename E into Edd.
  destruct (dispatch_decide_cases _ _ _ _ _ Edd) as [-> | (-> & Hc2)].
  2:{ cbn [negb] in H. inversion H; subst. rewrite Hc2 in Kst. discriminate. }
  destruct (negb go); [inversion H; subst; discriminate|].
  obind_inv H. destruct a as ((((s3, o), z), k), t3). rename E into Ebd.
  unfold tcp_dispatch_build in Ebd. rewrite D3, Hst in Ebd.
  obind_inv Ebd. destruct a as (((sb, ob), zb), tb). rename E into Eb.
  set (ts := if s_tsval_generator s1 then Some (cx_tsval cx, s_last_remote_tsval s1) else None) in *.
  set (repr0 := mkRepr (tu_local_port t) (tu_remote_port t) CNone (s_remote_last_seq s1)
                       (Some (tcp_window_start s1)) (tcp_scaled_window s1) None None false no_sack ts []) in *.
  assert (Est1 : s_state s1 = Established) by (rewrite D3; exact Hst).
  destruct (build_data_est _ _ _ _ _ _ _ Eb Est1 eq_refl eq_refl)
    as (_ & Bn & Bt & repr1 & -> & _ & _ & P3 & _).
  pose proof (build_data_seq _ _ _ _ _ _ _ Eb) as Hsq1.
  assert (Hsq1' : r_seq_number repr1 = s_local_seq_no s).
  { destruct Hsq1 as [X | X]; rewrite X; [unfold repr0; cbn [r_seq_number]; exact D6 | exact D1]. }
  assert (Hnk3 : timer_should_keep_alive (s_timer sb) (cx_now cx) = false).
  { apply noka_not_keep_alive. rewrite Bt. apply (kaf_noka s1 s); [exact K1 | exact Hka | exact Hnk]. }
  rewrite Hnk3 in Ebd. cbn [andb] in Ebd.
  set (repr2 := if repr_is_empty repr1 && control_eqb (r_control repr1) CNone
                then repr_set_seq repr1 (tcp_send_next_seq sb) else repr1) in *.
  assert (R2 : r_seq_number repr2 = s_local_seq_no s /\ r_control repr2 = r_control repr1).
  { unfold repr2. destruct (repr_is_empty repr1 && control_eqb (r_control repr1) CNone).
    - cbn [repr_set_seq r_seq_number r_control]. split; [|reflexivity].
      rewrite (nxf_next _ _ Bn). exact Hnx1.
    - split; [exact Hsq1' | reflexivity]. }
  clearbody repr2. destruct R2 as (R2a & R2c).
  assert (Hns : control_eqb (r_control repr2) CSyn = false)
    by (rewrite R2c; destruct P3 as [-> | ->]; reflexivity).
  rewrite Hns in Ebd. cbn [obind] in Ebd. inversion Ebd; subst s3 o z k t3; clear Ebd.
  destruct (negb ok); [inversion H; subst; discriminate|].
  destruct (tcp_dispatch_finish cx sb repr2 zb false) as (s4, t4).
  subst res. inversion H; subst. unfold with_payload_len. cbn [snd]. exact R2a.
Qed.
