(* C02, liveness half (PARTIAL by design).

   What is proved here, for every reachable socket driven with a non-negative, non-decreasing clock:

   [deadline_bounded]  whenever the socket has unacknowledged data / SYN / FIN, poll_at is Now or an
      instant at most RTTE_MAX_RTO (60 s, from Gen.Consts) after the time of the last event: the
      retransmission or window probe is not only scheduled (deadline invariant) but scheduled
      SOON - the wait for the next transmission attempt is bounded by an explicit constant.
      Technically: the armed timer's expiry is bounded ([timer_bounded]), an inductive invariant
      of all events, and poll_at is at most the timer's expiry.

   What is NOT proved (the gap): that the retransmitted segment reaches the peer, that the peer
   (another instance of the model) acknowledges it, and hence that SND.UNA advances within a
   bounded number of events under a fair network; nor termination of the handshake / close.
   That composed two-endpoint statement is searched by the simulation oracle
   (h_tcpsim oracle-c02: completion after the chaos prefix), not proved. *)
From SV Require Import Lib.Base Gen.Consts.
From SV Require Import Model.Seq32 Model.Assembler Model.TcpBuf Model.TcpTypes Model.Tcp.
From SV Require Import Proofs.TcpSendBase Proofs.TcpLiveBase Proofs.TcpLiveProofs.

Definition max_rto_us : Z := tcp_RTTE_MAX_RTO * 1000.

Definition timer_bounded (now : Z) (t : timer) : Prop :=
  match t with
  | TRetransmit e => e <= now + max_rto_us
  | TZeroWindowProbe e d => e <= now + max_rto_us /\ 0 < d <= max_rto_us
  | _ => True
  end.

Lemma max_rto_us_pos : 0 < max_rto_us.
Proof. reflexivity. Qed.

Lemma timer_bounded_mono : forall now now' t, now <= now' -> timer_bounded now t -> timer_bounded now' t.
Proof. intros now now' [k|e| |e d|e] H B; cbn in *; auto; lia. Qed.

Lemma rto_le_max : forall r, rtte_ok r -> 0 < rtte_retransmission_timeout r <= max_rto_us.
Proof. intros r H. unfold max_rto_us. apply rtte_timeout_bounds. exact H. Qed.

(* the timer-setting primitives *)
Lemma tb_idle : forall now t ka, timer_bounded now (timer_set_for_idle t ka).
Proof. intros. exact I. Qed.

Lemma tb_retransmit : forall now t rto, 0 < rto <= max_rto_us -> timer_bounded now t ->
  timer_bounded now (timer_set_for_retransmit t now rto).
Proof. intros now [k|e| |e d|e] rto H B; cbn in *; auto; lia. Qed.

Lemma tb_zwp : forall now rto, 0 < rto <= max_rto_us ->
  timer_bounded now (timer_set_for_zero_window_probe now rto).
Proof. intros now rto H. cbn. lia. Qed.

Lemma tb_rewind_ka : forall now t ka, timer_bounded now t ->
  timer_bounded now (timer_rewind_keep_alive t now ka).
Proof. intros now [k|e| |e d|e] ka B; cbn in *; auto. Qed.

Lemma tb_rewind_zwp : forall now t, timer_bounded now t ->
  timer_bounded now (timer_rewind_zero_window_probe t now).
Proof.
  intros now [k|e| |e d|e] B; cbn in *; auto. fold max_rto_us. destruct B as (_ & Hd).
  pose proof max_rto_us_pos. lia.
Qed.

Lemma tb_set_keep_alive : forall now t, timer_bounded now t -> timer_bounded now (timer_set_keep_alive t).
Proof. intros now [[k|]|e| |e d|e] B; cbn in *; auto. Qed.

Lemma tb_timers_fn : forall now t ka rto al aall, 0 < rto <= max_rto_us ->
  timer_bounded now t -> timer_bounded now (timers_fn t now ka rto al aall).
Proof.
  intros now t ka rto al aall H B. unfold timers_fn.
  destruct t as [k|e| |e d|e]; try destruct aall; try destruct (al >? 0); cbn in *; auto; lia.
Qed.

Lemma tb_zwp_fn : forall now t ka rto al w len fl, 0 < rto <= max_rto_us ->
  timer_bounded now t -> timer_bounded now (zwp_fn t now ka rto al w len fl).
Proof.
  intros now t ka rto al w len fl H B. unfold zwp_fn.
  repeat match goal with |- context [if ?b then _ else _] => destruct b end;
    cbn; auto; try lia.
Qed.

(* ------------------------------------------------------------------------------------------ *)
(* API calls                                                                                    *)
(* ------------------------------------------------------------------------------------------ *)
Definition tcp_timed_inv (now : Z) (s : socket) : Prop :=
  tcp_live_inv s /\ timer_bounded now (s_timer s).

Lemma core_eq_timer : forall s s', core_eq s s' -> s_timer s' = s_timer s.
Proof. intros s s' C. apply C. Qed.

Lemma send_slice_tb : forall now s data s' n,
  0 <= now -> tcp_timed_inv now s -> tcp_send_slice s data = Ok (s', n) -> timer_bounded now (s_timer s').
Proof.
  intros now s data s' n Hnow (I & B) H. unfold tcp_send_slice in H.
  destruct (negb (tcp_may_send s)); [discriminate|].
  destruct (rb_enqueue_slice (s_tx_buffer s) data) as (tx, size).
  destruct (size >? 0); [|inversion H; subst; sproj; exact B].
  inversion H; subst s' n; clear H.
  pose proof (rto_le_max _ (li_rtte s I)) as Hr.
  destruct (rb_len (s_tx_buffer s) =? 0); sproj;
    match goal with |- context [if ?b then _ else _] => destruct b end; sproj;
    try exact B; cbn; lia.
Qed.

(* ------------------------------------------------------------------------------------------ *)
(* tcp_process                                                                                  *)
(* ------------------------------------------------------------------------------------------ *)
Lemma ack_check_ret_timer : forall cx s ip r tg s1 reply,
  tcp_process_ack_check cx s ip r = Ok (Ret tg s1 reply) -> s_timer s1 = s_timer s.
Proof.
  intros cx s ip r tg s1 reply H. unfold tcp_process_ack_check in H.
  pose proof (core_eq_timer _ _ (challenge_ack_core cx s ip r)) as C.
  destruct (s_state s); destruct (r_control r); destruct (r_ack_number r);
    repeat match type of H with
           | context [if ?b then _ else _] => destruct b
           | (do _ <- ?m; _) = _ => destruct m; cbn [obind] in H
           | (let '(_, _) := ?m in _) = _ => destruct m
           end; try discriminate; inversion H; subst; try reflexivity; exact C.
Qed.

Lemma window_ret_timer : forall cx s ip r tg s' reply,
  tcp_process_window cx s ip r = Ok (Ret tg s' reply) ->
  s_timer s' = s_timer s \/ timer_is_close (s_timer s') = true.
Proof.
  intros cx s ip r tg s' reply H. unfold tcp_process_window in H.
  destruct (s_state s); try discriminate.
  all: cbv zeta in H; destruct (tcp_segment_in_window _ _ _ _) as (inw, t0); destruct inw;
    [destruct (negb (seq_le _ _)); [discriminate|];
     repeat (match type of H with (do _ <- ?m; _) = _ => destruct m; cbn [obind] in H end);
     discriminate|].
  all: destruct (control_eqb (r_control r) CRst); [inversion H; subst; left; reflexivity|].
  all: match type of H with context [tcp_ack_reply ?c ?q ?i ?rr] =>
         pose proof (core_eq_timer _ _ (ack_reply_core c q i rr)) as Ca;
         pose proof (core_eq_timer _ _ (challenge_ack_core c q i rr)) as Cc;
         destruct (tcp_ack_reply c q i rr) as (sa, pa);
         destruct (tcp_challenge_ack_reply c q i rr) as (sc, pc)
       end; cbn [fst] in *.
  all: match type of H with (if ?b then _ else _) = _ => destruct b end;
       inversion H; subst; rewrite ?Ca, ?Cc; cbn [tcp_state_eqb]; sproj; cbn; auto.
Qed.

Lemma relisten_timer : forall s ep,
  s_timer (tcp_set_state (upd_listen_endpoint (tcp_reset s) ep) Listen) = timer_new.
Proof.
  intros. pose proof (reset_timer s) as RT. revert RT. generalize (tcp_reset s). intros R RT.
  sproj. exact RT.
Qed.

Lemma transition_ret_timer : forall cx s ip r c al aof tg s' reply,
  tcp_process_transition cx s ip r c al aof = Ok (Ret tg s' reply) ->
  s_timer s' = s_timer s \/ timer_is_idle (s_timer s') = true.
Proof.
  intros cx s ip r c al aof tg s' reply H. unfold tcp_process_transition in H.
  pose proof (core_eq_timer _ _ (challenge_ack_core cx s ip r)) as C.
  destruct (s_state s); destruct c;
    repeat match type of H with
           | context [if ?b then _ else _] => destruct b
           | (let '(_, _) := ?m in _) = _ => destruct m
           end; try discriminate; cbv zeta in H; inversion H; subst;
    try (right; rewrite relisten_timer; reflexivity);
    left; sproj; try reflexivity; exact C.
Qed.

Lemma apply_mss_timer : forall s r, s_timer (tcp_apply_mss s r) = s_timer s.
Proof.
  intros. unfold tcp_apply_mss. destruct (r_max_seg_size r) as [m|]; [destruct (m =? 0)|]; sproj; reflexivity.
Qed.

Lemma transition_cont_timer : forall cx s ip r c al aof tg s3,
  tcp_process_transition cx s ip r c al aof = Ok (Cont tg s3) ->
  s_timer s3 = s_timer s \/ timer_is_idle (s_timer s3) = true \/ timer_is_close (s_timer s3) = true.
Proof.
  intros cx s ip r c al aof tg s3 H. unfold tcp_process_transition in H.
  destruct (s_state s); destruct c;
    repeat match type of H with
           | context [if aof then _ else _] => destruct aof
           | context [if negb (le_port _ =? 0) then _ else _] => destruct (negb (le_port (s_listen_endpoint s) =? 0))
           | context [if (al =? 0) && _ then _ else _] => destruct ((al =? 0) && rb_is_empty (s_tx_buffer s))
           | (let '(_, _) := ?m in _) = _ => destruct m
           end; try discriminate.
  (* Listen + SYN: idle timer *)
  { right; left.
    repeat match type of H with context [if ?b then _ else _] => destruct b end;
      inversion H; subst; sproj; reflexivity. }
  (* SynSent + SYN: timer untouched *)
  { left. pose proof (apply_mss_timer s r) as A2.
    revert H A2. generalize (tcp_apply_mss s r). intros q H A2.
    repeat match type of H with context [if ?b then _ else _] => destruct b end;
      inversion H; subst; sproj; exact A2. }
  all: unfold tcp_enter_time_wait, tcp_fin_received in H; inversion H; subst; sproj; cbn; auto.
Qed.

Lemma tb_of_cases : forall now t t', timer_bounded now t ->
  t' = t \/ timer_is_idle t' = true \/ timer_is_close t' = true -> timer_bounded now t'.
Proof.
  intros now t t' B [-> | [H | H]]; [exact B | |]; destruct t'; try discriminate; exact I.
Qed.

Theorem process_tb : forall cx s ip r s' reply tags,
  ctx_ok cx -> seg_ok r -> tcp_live_inv s -> timer_bounded (cx_now cx) (s_timer s) ->
  tcp_process cx s ip r = Ok (s', reply, tags) -> timer_bounded (cx_now cx) (s_timer s').
Proof.
  intros cx s ip r s' reply tags Hcx Hseg I B H. unfold tcp_process in H.
  destruct (negb (tcp_accepts s ip r)); [discriminate|].
  obind_inv H. rename a into p1. rename E into H1.
  destruct p1 as [t1 []|t1 s1 rep1].
  2:{ inversion H; subst s'. rewrite (ack_check_ret_timer _ _ _ _ _ _ _ H1). exact B. }
  obind_inv H. rename a into p2. rename E into H2.
  pose proof (process_window_spec _ _ _ _ _ H2 I) as P2.
  destruct p2 as [t2 ((s2, payload), off)|t2 s2r rep2].
  2:{ inversion H; subst s'. apply (tb_of_cases _ (s_timer s)); [exact B|].
      destruct (window_ret_timer _ _ _ _ _ _ _ H2); auto. }
  pose proof (inv_core_eq _ _ P2 I) as I2.
  assert (B2 : timer_bounded (cx_now cx) (s_timer s2)) by (rewrite (core_eq_timer _ _ P2); exact B).
  obind_inv H. destruct a as ((al, aof), aall). rename E into Hal.
  obind_inv H. rename a into p3. rename E into H3.
  destruct p3 as [t3 s3|t3 s3r rep3].
  2:{ inversion H; subst s'. apply (tb_of_cases _ (s_timer s2)); [exact B2|].
      destruct (transition_ret_timer _ _ _ _ _ _ _ _ _ _ H3); auto. }
  destruct (transition_cont _ _ _ _ _ _ _ _ _ H3 (inv_weak _ I2) Hcx Hseg) as (W3 & _).
  pose proof (tb_of_cases _ _ _ B2 (transition_cont_timer _ _ _ _ _ _ _ _ _ H3)) as B3.
  obind_inv H. destruct a as (s4, wu). rename E into H4.
  destruct (update_remote_spec _ _ _ _ _ _ H4 W3 Hseg) as (W4 & _ & T4 & _).
  obind_inv H. destruct a as (s5, t5). rename E into H5.
  destruct (dup_ack_spec _ _ _ _ _ _ _ H5 W4 Hseg) as (W5 & _ & _ & _ & _ & T5 & _).
  assert (B5 : timer_bounded (cx_now cx) (s_timer s5)).
  { destruct T5 as [-> | ->]; [rewrite T4; exact B3 | exact Logic.I]. }
  set (q5 := match r_timestamp r with
             | Some (tsval, _) => upd_last_remote_tsval s5 tsval
             | None => s5
             end) in *.
  assert (Cq : s_timer q5 = s_timer s5 /\ s_rtte q5 = s_rtte s5).
  { unfold q5. destruct (r_timestamp r) as [(tv, te)|]; sproj; auto. }
  destruct Cq as (D2 & D10). clearbody q5.
  pose proof (rto_le_max _ (wi_rtte s5 W5)) as Hr.
  pose proof (timers_spec cx q5 al aall) as P6.
  destruct (tcp_process_timers cx q5 al aall) as (s6, t6). cbn [fst] in P6.
  destruct P6 as ((_ & _ & _ & _ & _ & _ & _ & _ & F9 & _) & Ft6).
  pose proof (zwp_spec cx s6 al) as P7.
  destruct (tcp_process_zwp cx s6 al) as (s7, t7). cbn [fst] in P7.
  destruct P7 as (_ & Ft7).
  obind_inv H. destruct a as ((s8, rep8), t8). rename E into H8.
  pose proof (core_eq_timer _ _ (payload_core _ _ _ _ _ _ _ _ _ H8)) as C8.
  inversion H; subst s'. rewrite C8, Ft7. apply tb_zwp_fn; [rewrite F9, D10; exact Hr|].
  rewrite Ft6. apply tb_timers_fn; [rewrite D10; exact Hr|]. rewrite D2. exact B5.
Qed.

(* ------------------------------------------------------------------------------------------ *)
(* tcp_dispatch                                                                                 *)
(* ------------------------------------------------------------------------------------------ *)
Lemma dispatch_timers_tb : forall cx s s1 tg,
  tcp_live_inv s -> timer_bounded (cx_now cx) (s_timer s) ->
  tcp_dispatch_timers cx s = Ok (s1, tg) -> timer_bounded (cx_now cx) (s_timer s1).
Proof.
  intros cx s s1 tg I B H. unfold tcp_dispatch_timers in H. fold (dt_pre cx s) in H.
  pose proof (dt_pre_core cx s) as C. pose proof (inv_core_eq _ _ C I) as Iq.
  rewrite <- (core_eq_timer _ _ C) in B. revert H B Iq. generalize (dt_pre cx s). intros q H B Iq.
  destruct (tcp_timed_out q (cx_now cx)); [inversion H; subst; sproj; exact B|].
  destruct (timer_should_retransmit (s_timer q) (cx_now cx)); [|inversion H; subst; exact B].
  obind_inv H. pose proof (rto_le_max _ (li_rtte q Iq)) as Hr.
  pose proof (rto_le_max _ (rtte_on_rto_ok _ (li_rtte q Iq))) as Hr'.
  destruct (s_timer q) as [k|e| |e d|e]; sproj in H;
    repeat match type of H with context [if ?b then _ else _] => destruct b end;
    inversion H; subst; sproj; cbn; auto; try lia.
Qed.

Lemma dispatch_finish_tb : forall cx s repr z k,
  tcp_live_inv s -> timer_bounded (cx_now cx) (s_timer s) ->
  timer_bounded (cx_now cx) (s_timer (fst (tcp_dispatch_finish cx s repr z k))).
Proof.
  intros cx s repr z k I B. unfold tcp_dispatch_finish.
  pose proof (rto_le_max _ (li_rtte s I)) as Hr.
  pose proof (tb_rewind_ka (cx_now cx) (s_timer s) (s_keep_alive s) B) as B1.
  destruct z; [cbn [fst]; sproj; apply tb_rewind_zwp; exact B1|].
  destruct k; [cbn [fst]; sproj; exact B1|].
  sproj. destruct (repr_segment_len repr >? 0); cbn [andb]; sproj;
    [destruct (negb (timer_is_retransmit _)); sproj|];
    destruct (tcp_state_eqb (s_state s) Closed); cbn [fst]; sproj; try exact B1.
  all: apply tb_retransmit; [|exact B1]; unfold rtte_retransmission_timeout in *;
       rewrite rtte_on_send_rto; exact Hr.
Qed.

Theorem dispatch_tb : forall cx s emit_ok s' res tags,
  tcp_live_inv s -> timer_bounded (cx_now cx) (s_timer s) ->
  tcp_dispatch cx s emit_ok = Ok (s', res, tags) -> timer_bounded (cx_now cx) (s_timer s').
Proof.
  intros cx s emit_ok s' res tags I B H. unfold tcp_dispatch in H.
  destruct (s_tuple s) as [t|]; [|inversion H; subst; exact B].
  destruct (negb (tu_local_addr t =? cx_addr cx)); [inversion H; subst; rewrite reset_timer; exact Logic.I|].
  obind_inv H. destruct a as (s1, t1).
  pose proof (dispatch_timers_inv _ _ _ _ I E) as I1.
  pose proof (dispatch_timers_tb _ _ _ _ I B E) as B1.
  obind_inv H. destruct a as ((s2, go), t2).
  pose proof (dispatch_decide_inv _ _ _ _ _ I1 E0) as I2.
  assert (B2 : timer_bounded (cx_now cx) (s_timer s2)).
  { destruct (decide_spec _ _ _ _ _ E0) as [(_ & ->) | [(_ & ->) | (_ & -> & _)]]; sproj; exact B1. }
  destruct (negb go); [inversion H; subst; exact B2|].
  obind_inv H. destruct a as ((((s3, o), z), k), t3).
  destruct (build_core _ _ _ _ _ _ _ _ E1) as (C3 & _).
  pose proof (inv_core_eq _ _ C3 I2) as I3.
  assert (B3 : timer_bounded (cx_now cx) (s_timer s3)) by (rewrite (core_eq_timer _ _ C3); exact B2).
  destruct o as [repr|]; [|inversion H; subst; exact B3].
  destruct (negb emit_ok); [inversion H; subst; exact B3|].
  pose proof (dispatch_finish_tb cx s3 repr z k I3 B3) as B4.
  destruct (tcp_dispatch_finish cx s3 repr z k) as (s4, t4). inversion H; subst. exact B4.
Qed.

Lemma listen_timer : forall s ep s', tcp_listen s ep = Ok s' ->
  s_timer s' = s_timer s \/ s_timer s' = timer_new.
Proof.
  intros s ep s' H. unfold tcp_listen in H.
  destruct (le_port ep =? 0); [discriminate|].
  destruct (tcp_is_open s).
  - destruct (_ && _); inversion H; subst; auto.
  - inversion H; subst s'. right. pose proof (reset_timer s) as RT. revert RT.
    generalize (tcp_reset s). intros R RT. sproj. exact RT.
Qed.

Lemma connect_timer : forall cx s ra rp le s', tcp_connect cx s ra rp le = Ok s' ->
  s_timer s' = timer_new.
Proof.
  intros cx s ra rp le s' H. unfold tcp_connect in H.
  destruct (tcp_is_open s); [discriminate|].
  destruct ((rp =? 0) || (ra =? 0)); [discriminate|].
  destruct (le_port le =? 0); [discriminate|].
  obind_inv H. inversion H; subst s'. pose proof (reset_timer s) as RT. revert RT.
  generalize (tcp_reset s). intros R RT. sproj. exact RT.
Qed.

(* ------------------------------------------------------------------------------------------ *)
(* every event, with the clock                                                                  *)
(* ------------------------------------------------------------------------------------------ *)
Theorem step_timed_inv : forall now cx s ev s' out tags,
  0 <= now <= cx_now cx -> ctx_ok cx -> ev_ok ev -> tcp_timed_inv now s ->
  tcp_step cx s ev = Ok (s', out, tags) -> tcp_timed_inv (cx_now cx) s'.
Proof.
  intros now cx s ev s' out tags Hnow Hcx Hev (I & B0) H.
  split; [exact (step_inv _ _ _ _ _ _ Hcx Hev I H)|].
  assert (B : timer_bounded (cx_now cx) (s_timer s)) by (apply (timer_bounded_mono now); [lia | exact B0]).
  destruct ev; cbn [tcp_step ev_ok] in *.
  - (* listen *)
    destruct (tcp_listen s ep) as [s1|e|] eqn:E; inversion H; subst; try exact B.
    destruct (listen_timer _ _ _ E) as [-> | ->]; [exact B | exact Logic.I].
  - (* connect *)
    destruct (tcp_connect cx s remote_addr remote_port local) as [s1|e|] eqn:E;
      inversion H; subst; try exact B.
    rewrite (connect_timer _ _ _ _ _ _ E). exact Logic.I.
  - inversion H; subst. unfold tcp_close. destruct (s_state s); sproj; exact B.
  - inversion H; subst. unfold tcp_abort. sproj. exact B.
  - destruct (tcp_send_slice s data) as [(s1, n)|e|] eqn:E; inversion H; subst; try exact B.
    assert (Hn : 0 <= cx_now cx) by lia. apply (send_slice_tb _ _ _ _ _ Hn (conj I B) E).
  - destruct (tcp_recv_slice s n) as [(s1, l)|e|] eqn:E; inversion H; subst; try exact B.
    rewrite (core_eq_timer _ _ (recv_slice_core _ _ _ _ E)). exact B.
  - destruct (tcp_peek s n); inversion H; subst; exact B.
  - destruct (tcp_peek_slice s n); inversion H; subst; exact B.
  - inversion H; subst. unfold tcp_set_timeout. sproj. exact B.
  - inversion H; subst. unfold tcp_set_keep_alive. destruct (is_some d); sproj; [apply tb_set_keep_alive|]; exact B.
  - inversion H; subst. unfold tcp_set_ack_delay. sproj. exact B.
  - inversion H; subst. unfold tcp_set_nagle_enabled. sproj. exact B.
  - obind_inv H. inversion H; subst. rewrite (core_eq_timer _ _ (set_hop_limit_core _ _ _ E)). exact B.
  - obind_inv H. destruct a as ((s1, reply), tg). inversion H; subst. unfold iface_tcp_ingress in E.
    destruct ((ip_src ip =? 0) || (ip_dst ip =? 0)); [inversion E; subst; exact B|].
    destruct ((r_src_port r =? 0) || (r_dst_port r =? 0)); [inversion E; subst; exact B|].
    destruct (tcp_accepts s ip r); [exact (process_tb _ _ _ _ _ _ _ Hcx Hev I B E)|].
    destruct (control_eqb (r_control r) CRst); [inversion E; subst; exact B|].
    obind_inv E. inversion E; subst; exact B.
  - obind_inv H. destruct a as ((s1, res), tg). inversion H; subst.
    exact (dispatch_tb _ _ _ _ _ _ I B E).
Qed.

(* sockets reachable with a clock: every event carries a time not earlier than the previous one *)
Inductive tcp_reachable_at : Z -> socket -> Prop :=
| reach_at_new : forall rx tx cc ts s,
    cc_ok cc -> tcp_new rx tx cc ts = Ok s -> tcp_reachable_at 0 s
| reach_at_step : forall now cx s ev s' out tags,
    tcp_reachable_at now s -> now <= cx_now cx -> ctx_ok cx -> ev_ok ev ->
    tcp_step cx s ev = Ok (s', out, tags) -> tcp_reachable_at (cx_now cx) s'.

Lemma reachable_at_nonneg : forall now s, tcp_reachable_at now s -> 0 <= now.
Proof. induction 1; lia. Qed.

Lemma reachable_at_reachable : forall now s, tcp_reachable_at now s -> tcp_reachable s.
Proof. induction 1; [eapply reach_new | eapply reach_step]; eassumption. Qed.

Theorem reachable_at_timed_inv : forall now s, tcp_reachable_at now s -> tcp_timed_inv now s.
Proof.
  induction 1.
  - split; [eapply new_inv; eassumption|]. unfold tcp_new in *.
    destruct (rb_cap (rb_new rx) >? 2 ^ 30); [discriminate|]. inversion H0; subst. sproj. exact Logic.I.
  - eapply step_timed_inv; try eassumption. pose proof (reachable_at_nonneg _ _ H). lia.
Qed.

Definition pa_bounded (bound : Z) (p : poll_at) : Prop :=
  p = PNow \/ exists t, p = PTime t /\ t <= bound.

Lemma pa_min_bounded_l : forall bound a b, pa_bounded bound a -> pa_bounded bound (poll_at_min a b).
Proof.
  intros bound a b [-> | (t & -> & Ht)]; [left; reflexivity|].
  destruct b as [|y|]; cbn; [left; reflexivity | | right; exists t; auto].
  destruct (Z.leb_spec t y); right; eexists; split; try reflexivity; lia.
Qed.

(* the bounded-deadline lemma *)
Theorem deadline_bounded : forall now cx s p,
  tcp_reachable_at now s -> tcp_need s -> tcp_poll_at cx s = Ok p ->
  pa_bounded (now + max_rto_us) p.
Proof.
  intros now cx s p R N Hp. unfold pa_bounded. destruct (reachable_at_timed_inv _ _ R) as (I & B).
  pose proof (deadline_from_inv cx s I N) as Hni.
  unfold tcp_poll_at in Hp.
  pose proof (need_live s I N) as L.
  rewrite (is_some_true _ _ (li_tuple s I (live_conn _ L))) in Hp. cbn [negb] in Hp.
  destruct (is_some (s_remote_last_ts s)); cbn [negb] in Hp; [|inversion Hp; auto].
  destruct (tcp_state_eqb (s_state s) Closed); [inversion Hp; auto|].
  destruct (tcp_seq_to_transmit cx s) as [[|]|e|] eqn:Hstt; cbn [obind] in Hp; try discriminate;
    [inversion Hp; auto|].
  destruct (tcp_window_to_update s) as [[|]|e|]; cbn [obind] in Hp; try discriminate;
    [inversion Hp; auto|].
  destruct (li_K s I L) as [Ha | (Hfl & Hw)];
    [|exfalso; exact (stt_when_idle cx s I N Hfl Hw Hstt)].
  inversion Hp as [Hp']; clear Hp.
  (* the minimum of three deadlines, one of which is the armed timer's *)
  apply pa_min_bounded_l. apply pa_min_bounded_l.
  destruct (s_timer s) as [k|e| |e d|e]; try discriminate; cbn in *.
  - right. exists e. auto.
  - left. reflexivity.
  - right. exists e. split; [reflexivity | apply B].
Qed.

(* ------------------------------------------------------------------------------------------ *)
(* at the deadline the oldest unacknowledged sequence space is (re)transmitted                  *)
(* ------------------------------------------------------------------------------------------ *)
Lemma ga_nonempty : forall r size, rb_wf r -> 0 < rb_len r -> 0 < size ->
  0 < l_len (rb_get_allocated r 0 size).
Proof.
  intros r size (Hl & Hs & Hr & Hc) Hlen Hsz. unfold rb_get_allocated, rb_get_idx.
  destruct (Z.gtb_spec 0 (rb_len r)); [lia|].
  destruct (Z.gtb_spec (rb_cap r) 0); [|lia].
  rewrite Z.add_0_r, Z.mod_small by lia.
  rewrite l_len_slice; lia.
Qed.

Lemma ga_empty : forall r off size, rb_wf r -> rb_len r = off -> 0 <= off ->
  rb_get_allocated r off size = [].
Proof.
  intros r off size Hwf Hlen Hoff. apply l_len_zero_nil.
  pose proof (rb_get_allocated_spec r off size Hwf ltac:(lia)) as (A & _ & B & _). lia.
Qed.

Definition mss_ok (cx : ctx) (s : socket) : Prop :=
  wipv4_HEADER_LEN + wtcp_HEADER_LEN <= cx_ip_mtu cx /\
  12 < Z.min (cx_ip_mtu cx - wipv4_HEADER_LEN - wtcp_HEADER_LEN) (s_remote_mss s).

Lemma local_mss_ok : forall cx s, mss_ok cx s ->
  tcp_local_mss cx = Ok (cx_ip_mtu cx - wipv4_HEADER_LEN - wtcp_HEADER_LEN).
Proof.
  intros cx s (H1 & _). unfold tcp_local_mss, usub.
  assert (wipv4_HEADER_LEN = 20) by reflexivity. assert (wtcp_HEADER_LEN = 20) by reflexivity.
  destruct (Z.ltb_spec (cx_ip_mtu cx - wipv4_HEADER_LEN) 0); [lia|]. cbn [obind].
  destruct (Z.ltb_spec (cx_ip_mtu cx - wipv4_HEADER_LEN - wtcp_HEADER_LEN) 0); [lia|]. reflexivity.
Qed.

(* the segment template of dispatch: an empty ACK at SND.NXT *)
Definition base_repr (cx : ctx) (s : socket) (t : tuple) : tcp_repr :=
  mkRepr (tu_local_port t) (tu_remote_port t) CNone (s_remote_last_seq s)
         (Some (tcp_window_start s)) (tcp_scaled_window s) None None false no_sack
         (if s_tsval_generator s then Some (cx_tsval cx, s_last_remote_tsval s) else None) [].

Lemma base_repr_options : forall cx s t,
  usub (repr_header_len (base_repr cx s t)) wtcp_HEADER_LEN = Ok (if s_tsval_generator s then 12 else 0).
Proof. intros. unfold base_repr. destruct (s_tsval_generator s); vm_compute; reflexivity. Qed.

Lemma seglen_payload : forall r, l_len (r_payload r) <= repr_segment_len r.
Proof. intros. unfold repr_segment_len, control_len. destruct (r_control r); lia. Qed.

(* the data / FIN states: with nothing in flight and the window open (or nothing queued), the
   segment built starts at SND.UNA and occupies sequence space *)
Lemma build_data_sends : forall cx s t s3 o z tg,
  tcp_live_inv s -> mss_ok cx s ->
  s_remote_last_seq s = s_local_seq_no s ->
  (0 < rb_len (s_tx_buffer s) -> s_remote_win_len s <> 0) ->
  timer_should_zero_window_probe (s_timer s) (cx_now cx) = false ->
  (0 < rb_len (s_tx_buffer s) \/
   match s_state s with FinWait1 | LastAck | Closing => True | _ => False end) ->
  tcp_dispatch_build_data cx s (base_repr cx s t) = Ok (s3, o, z, tg) ->
  exists r', o = Some r' /\ z = false /\ r_seq_number r' = s_local_seq_no s /\
             0 < repr_segment_len r' /\ r_control r' <> CSyn /\
             (s3 = s \/ s3 = upd_pending_fast_retransmit s false).
Proof.
  intros cx s t s3 o z tg I Hmss Hfl Hw Hzp Hneed H. unfold tcp_dispatch_build_data in H.
  rewrite base_repr_options, (local_mss_ok cx s Hmss) in H. cbn [obind] in H.
  set (emss := sat_sub (Z.min (cx_ip_mtu cx - wipv4_HEADER_LEN - wtcp_HEADER_LEN) (s_remote_mss s))
                       (if s_tsval_generator s then 12 else 0)) in *.
  assert (Hem : 0 < emss).
  { unfold emss, sat_sub. destruct Hmss as (_ & Hm). destruct (s_tsval_generator s); lia. }
  pose proof (li_tx s I) as Hwf. pose proof Hwf as ((Hl0 & _) & _).
  pose proof (li_win s I) as HW. change (2 ^ 30) with 1073741824 in HW.
  pose proof (cc_window_pos _ (li_cc s I)) as Hcw.
  assert (Hfinal : forall q p off zw tq,
    (0 < rb_len (s_tx_buffer s) -> 0 < l_len p) -> (rb_len (s_tx_buffer s) = 0 -> p = []) ->
    off = 0 -> s_state q = s_state s -> s_tx_buffer q = s_tx_buffer s ->
    (let '(s, repr, offset, zwp, tg) :=
       (q, repr_set_payload (repr_set_seq (base_repr cx s t) (s_local_seq_no s)) p, off, zw, tq) in
     let has_payload := match r_payload repr with [] => false | _ => true end in
     let repr :=
       if offset + l_len (r_payload repr) =? rb_len (s_tx_buffer s) then
         match s_state s with
         | FinWait1 | LastAck | Closing => repr_set_control repr CFin
         | Established | CloseWait => if has_payload then repr_set_control repr CPsh else repr
         | _ => repr
         end
       else repr in
     Ok (s, Some repr, zwp, tg)) = Ok (s3, o, z, tg) ->
    exists r', o = Some r' /\ z = zw /\ r_seq_number r' = s_local_seq_no s /\
               0 < repr_segment_len r' /\ r_control r' <> CSyn /\ s3 = q).
  { intros q p off zw tq Hp1 Hp0 -> Eq1 Eq2 H'. cbv zeta beta iota in H'.
    rewrite Eq1, Eq2 in H'. cbn [r_payload repr_set_payload repr_set_seq base_repr] in H'.
    destruct (Z.eq_dec (rb_len (s_tx_buffer s)) 0) as [Hz|Hz].
    - rewrite (Hp0 Hz), Hz in H'. cbn [l_len l_len_acc Z.add] in H'. rewrite Z.eqb_refl in H'.
      destruct Hneed as [Hn|Hn]; [lia|].
      destruct (s_state s); try contradiction; inversion H'; subst;
        eexists; (split; [reflexivity|]); (split; [reflexivity|]);
        cbn; repeat split; try lia; discriminate.
    - assert (Hpp : 0 < l_len p) by (apply Hp1; lia).
      match type of H' with context [if ?b then _ else _] => destruct b end;
        [destruct (s_state s); [..]; try (destruct p; [cbn in Hpp; lia|])|];
        inversion H'; subst; eexists; (split; [reflexivity|]); (split; [reflexivity|]);
        (split; [reflexivity|]);
        (split; [eapply Z.lt_le_trans; [exact Hpp | apply (seglen_payload (mkRepr _ _ _ _ _ _ _ _ _ _ _ _))]|]);
        (split; [cbn; discriminate | reflexivity]). }
  destruct (s_pending_fast_retransmit s && (s_remote_win_len s >? 0)) eqn:Hpf.
  - (* fast-retransmit path: from SND.UNA *)
    cbn [obind] in H. apply andb_true_iff in Hpf. destruct Hpf as (_ & Hwp).
    set (sz := Z.min (Z.min emss (rb_len (s_tx_buffer s))) (s_remote_win_len s)) in *.
    assert (Hp1 : 0 < rb_len (s_tx_buffer s) -> 0 < l_len (rb_get_allocated (s_tx_buffer s) 0 sz))
      by (intros; apply ga_nonempty; [exact Hwf | lia | unfold sz; lia]).
    assert (Hp0 : rb_len (s_tx_buffer s) = 0 -> rb_get_allocated (s_tx_buffer s) 0 sz = [])
      by (intros; apply (ga_empty _ 0); [exact Hwf | lia | lia]).
    assert (Eq1 : s_state (upd_pending_fast_retransmit s false) = s_state s) by (sproj; reflexivity).
    assert (Eq2 : s_tx_buffer (upd_pending_fast_retransmit s false) = s_tx_buffer s) by (sproj; reflexivity).
    destruct (Hfinal _ _ _ _ _ Hp1 Hp0 eq_refl Eq1 Eq2 H) as (r' & A1 & A2 & A3 & A4 & A5 & A6).
    exists r'. repeat split; auto.
  - (* normal path: offset = flight size = 0, window limit = remote window *)
    rewrite Hfl in H.
    rewrite seq_ge_add_small, seq_sub_add_small in H by (change (2 ^ 31) with 2147483648; lia).
    cbn [obind] in H. rewrite Hzp, andb_false_r in H.
    unfold tcp_cwnd_remaining, tcp_flight_size in H. rewrite Hfl, seq_sub_self in H.
    cbn [obind] in H. unfold sat_sub in H. rewrite Z.sub_0_r in H.
    rewrite (Z.max_r 0 (cc_window _)) in H by lia.
    assert (Hbase : repr_set_payload (base_repr cx s t)
                      (rb_get_allocated (s_tx_buffer s) 0
                         (Z.min (Z.min (s_remote_win_len s) emss) (cc_window (s_congestion_controller s)))) =
                    repr_set_payload (repr_set_seq (base_repr cx s t) (s_local_seq_no s))
                      (rb_get_allocated (s_tx_buffer s) 0
                         (Z.min (Z.min (s_remote_win_len s) emss) (cc_window (s_congestion_controller s))))).
    { unfold repr_set_payload, repr_set_seq, base_repr. cbn. rewrite Hfl. reflexivity. }
    rewrite Hbase in H.
    set (sz := Z.min (Z.min (s_remote_win_len s) emss) (cc_window (s_congestion_controller s))) in *.
    assert (Hp1 : 0 < rb_len (s_tx_buffer s) -> 0 < l_len (rb_get_allocated (s_tx_buffer s) 0 sz))
      by (intros HL; apply ga_nonempty; [exact Hwf | lia | specialize (Hw HL); unfold sz; lia]).
    assert (Hp0 : rb_len (s_tx_buffer s) = 0 -> rb_get_allocated (s_tx_buffer s) 0 sz = [])
      by (intros; apply (ga_empty _ 0); [exact Hwf | lia | lia]).
    destruct (Hfinal _ _ _ _ _ Hp1 Hp0 eq_refl eq_refl eq_refl H) as (r' & A1 & A2 & A3 & A4 & A5 & A6).
    exists r'. repeat split; auto.
Qed.

Lemma seglen_nonempty : forall r, 0 < repr_segment_len r -> repr_is_empty r = false.
Proof.
  intros r H. unfold repr_segment_len, repr_is_empty, control_len in *.
  destruct (r_payload r); [|reflexivity]. cbn in H. destruct (r_control r); try reflexivity; lia.
Qed.

Lemma build_sends : forall cx s t s3 o z k tg,
  tcp_live_inv s -> tcp_need s -> mss_ok cx s ->
  s_remote_last_seq s = s_local_seq_no s ->
  (0 < rb_len (s_tx_buffer s) -> s_remote_win_len s <> 0) ->
  timer_should_zero_window_probe (s_timer s) (cx_now cx) = false ->
  tcp_dispatch_build cx s t = Ok (s3, o, z, k, tg) ->
  exists repr, o = Some repr /\ z = false /\ k = false /\
               r_seq_number repr = s_local_seq_no s /\ 0 < repr_segment_len repr.
Proof.
  intros cx s t s3 o z k tg I N Hmss Hfl Hw Hzp H. unfold tcp_dispatch_build in H.
  change (mkRepr (tu_local_port t) (tu_remote_port t) CNone (s_remote_last_seq s)
            (Some (tcp_window_start s)) (tcp_scaled_window s) None None false no_sack
            (if s_tsval_generator s then Some (cx_tsval cx, s_last_remote_tsval s) else None) [])
    with (base_repr cx s t) in H.
  obind_inv H. destruct a as (((sb, ob), zb), tb).
  assert (Hb : exists r0, ob = Some r0 /\ zb = false /\ r_seq_number r0 = s_local_seq_no s /\
                          0 < repr_segment_len r0 /\ s_timer sb = s_timer s).
  { pose proof (need_live s I N) as L. unfold tcp_need in N.
    assert (Hsyn : forall b, exists r0, Some (tcp_syn_repr s (base_repr cx s t)
                     (if s_tsval_generator s then Some (cx_tsval cx, s_last_remote_tsval s) else None) b) = Some r0 /\
                     r_seq_number r0 = s_local_seq_no s /\ 0 < repr_segment_len r0).
    { intros b. eexists. split; [reflexivity|]. unfold tcp_syn_repr, repr_segment_len.
      cbn [r_seq_number r_payload r_control control_len]. rewrite l_len_nil. split; [reflexivity | lia]. }
    destruct (s_state s) eqn:Hst; cbn [st_live] in L; try discriminate.
    - destruct (Hsyn true) as (r0 & A & B & C). inversion E; subst. exists r0. auto.
    - destruct (Hsyn false) as (r0 & A & B & C). inversion E; subst. exists r0. auto.
    - destruct (build_data_sends cx s t sb ob zb tb I Hmss Hfl Hw Hzp) as (r' & A1 & A2 & A3 & A4 & _ & A6);
        [rewrite Hst; auto | exact E|].
      exists r'. repeat split; auto. destruct A6 as [-> | ->]; sproj; reflexivity.
    - destruct (s_syn_unacked_in_fin_wait s).
      + destruct (Hsyn false) as (r0 & A & B & C). inversion E; subst. exists r0. auto.
      + destruct (build_data_sends cx s t sb ob zb tb I Hmss Hfl Hw Hzp) as (r' & A1 & A2 & A3 & A4 & _ & A6);
          [rewrite Hst; auto | exact E|].
        exists r'. repeat split; auto. destruct A6 as [-> | ->]; sproj; reflexivity.
    - destruct (build_data_sends cx s t sb ob zb tb I Hmss Hfl Hw Hzp) as (r' & A1 & A2 & A3 & A4 & _ & A6);
        [rewrite Hst; auto | exact E|].
      exists r'. repeat split; auto. destruct A6 as [-> | ->]; sproj; reflexivity.
    - destruct (build_data_sends cx s t sb ob zb tb I Hmss Hfl Hw Hzp) as (r' & A1 & A2 & A3 & A4 & _ & A6);
        [rewrite Hst; auto | exact E|].
      exists r'. repeat split; auto. destruct A6 as [-> | ->]; sproj; reflexivity.
    - destruct (build_data_sends cx s t sb ob zb tb I Hmss Hfl Hw Hzp) as (r' & A1 & A2 & A3 & A4 & _ & A6);
        [rewrite Hst; auto | exact E|].
      exists r'. repeat split; auto. destruct A6 as [-> | ->]; sproj; reflexivity. }
  destruct Hb as (r0 & -> & -> & Hseq & Hlen & Ht). clear E.
  cbv zeta in H. rewrite (seglen_nonempty _ Hlen) in H. cbn [andb] in H.
  rewrite ?(seglen_nonempty _ Hlen), ?andb_false_r in H.
  rewrite (local_mss_ok cx s Hmss) in H. cbn [obind] in H.
  destruct (control_eqb (r_control r0) CSyn); inversion H; subst; eexists;
    (split; [reflexivity|]); repeat split; auto.
Qed.

(* the retransmission timer fires: SND.NXT is rewound to SND.UNA *)
Lemma dt_rto : forall cx s s1 tg e,
  tcp_live_inv s -> s_timeout s = None ->
  s_timer s = TRetransmit e -> e <= cx_now cx ->
  (0 < rb_len (s_tx_buffer s) -> s_remote_win_len s <> 0) ->
  tcp_dispatch_timers cx s = Ok (s1, tg) ->
  s_state s1 = s_state s /\ s_tx_buffer s1 = s_tx_buffer s /\
  s_local_seq_no s1 = s_local_seq_no s /\ s_remote_win_len s1 = s_remote_win_len s /\
  s_remote_mss s1 = s_remote_mss s /\ s_tuple s1 = s_tuple s /\
  s_remote_last_seq s1 = s_local_seq_no s /\
  (timer_is_idle (s_timer s1) = true \/
   exists e1, s_timer s1 = TRetransmit e1 /\ cx_now cx < e1 <= cx_now cx + max_rto_us).
Proof.
  intros cx s s1 tg e I Hto Ht He Hw H. unfold tcp_dispatch_timers in H. fold (dt_pre cx s) in H.
  pose proof (dt_pre_core cx s) as (C1 & C2 & C3 & C4 & C5 & C6 & C7 & C8 & C9 & C10 & C11).
  pose proof (dt_pre_misc cx s) as (M1 & _ & _).
  assert (Cm : s_remote_mss (dt_pre cx s) = s_remote_mss s)
    by (unfold dt_pre; destruct (is_some (s_remote_last_ts s)); sproj; reflexivity).
  pose proof (rto_le_max _ (rtte_on_rto_ok _ (li_rtte s I))) as Hr. rewrite <- C10 in Hr.
  revert H C1 C2 C3 C4 C5 C6 C7 C8 C9 C10 M1 Cm Hr. generalize (dt_pre cx s).
  intros q H C1 C2 C3 C4 C5 C6 C7 C8 C9 C10 M1 Cm Hr.
  assert (Hnto : tcp_timed_out q (cx_now cx) = false).
  { unfold tcp_timed_out. rewrite M1, Hto. destruct (s_remote_last_ts q); reflexivity. }
  rewrite Hnto, C2, Ht in H. cbn [timer_should_retransmit] in H.
  destruct (Z.geb_spec (cx_now cx) e); [|lia].
  obind_inv H. sproj in H.
  (* since /repo 883b7a7 the RTO clears pending_fast_retransmit *)
  cbn [andb negb] in H. revert H.
  destruct ((s_remote_win_len q =? 0) && negb (rb_is_empty (s_tx_buffer q))) eqn:Hz; intros H.
  - exfalso. apply andb_true_iff in Hz. destruct Hz as (Hz1 & Hz2).
    rewrite C7 in Hz1. rewrite C4 in Hz2. unfold rb_is_empty in Hz2.
    pose proof (li_tx s I) as ((Hl0 & _) & _). apply Hw; lia.
  - inversion H; subst s1 tg; clear H. sproj. rewrite C1, C3, C4, C5, C7, Cm.
    repeat split; try reflexivity. left. reflexivity.
Qed.

(* after a segment that occupies sequence space the retransmission timer runs, with a deadline in
   (now, now + RTTE_MAX_RTO] *)
Lemma finish_rearms : forall cx s repr,
  tcp_live_inv s -> st_live (s_state s) = true -> 0 < repr_segment_len repr ->
  (timer_is_idle (s_timer s) = true \/
   exists e1, s_timer s = TRetransmit e1 /\ cx_now cx < e1 <= cx_now cx + max_rto_us) ->
  let s' := fst (tcp_dispatch_finish cx s repr false false) in
  (exists e', s_timer s' = TRetransmit e' /\ cx_now cx < e' <= cx_now cx + max_rto_us) /\
  s_local_seq_no s' = s_local_seq_no s /\ s_state s' = s_state s.
Proof.
  intros cx s repr I L Hlen Ht. unfold tcp_dispatch_finish. sproj.
  assert (Hl : (repr_segment_len repr >? 0) = true) by lia. rewrite Hl. cbn [andb]. sproj.
  pose proof (rto_le_max _ (li_rtte s I)) as Hr.
  assert (Hncl : tcp_state_eqb (s_state s) Closed = false) by (destruct (s_state s); try discriminate; reflexivity).
  destruct Ht as [Hi | (e1 & He1 & Hb)].
  - destruct (s_timer s) as [k|e| |e d|e] eqn:Hts; try discriminate. cbn [timer_rewind_keep_alive timer_is_retransmit negb].
    sproj. rewrite Hncl. cbn [fst]. sproj. cbn [timer_set_for_retransmit].
    split; [|split; reflexivity]. eexists. split; [reflexivity|].
    unfold rtte_retransmission_timeout in *. rewrite rtte_on_send_rto. lia.
  - rewrite He1. cbn [timer_rewind_keep_alive timer_is_retransmit negb]. sproj. rewrite Hncl. cbn [fst]. sproj.
    split; [|split; reflexivity]. exists e1. split; [reflexivity | exact Hb].
Qed.

(* PROGRESS STEP (sender side).  A socket with unacknowledged data / SYN / FIN whose retransmission
   timer is due, polled on a device that accepts the frame (no user timeout configured, remote
   window not closed - in that case the probe timer is armed instead -, MTU leaving room for
   payload): the dispatch transmits a segment that starts at SND.UNA and occupies sequence space
   (the oldest unacknowledged octets, SYN or FIN), and re-arms the retransmission timer with a
   deadline in (now, now + RTTE_MAX_RTO]. *)
Theorem rto_retransmits : forall cx s e s' res tags,
  tcp_live_inv s -> tcp_need s ->
  s_timer s = TRetransmit e -> e <= cx_now cx ->
  s_timeout s = None ->
  (forall t, s_tuple s = Some t -> tu_local_addr t = cx_addr cx) ->
  (0 < rb_len (s_tx_buffer s) -> s_remote_win_len s <> 0) ->
  mss_ok cx s ->
  tcp_dispatch cx s true = Ok (s', res, tags) ->
  exists ip repr,
    res = DSent (ip, repr) /\
    r_seq_number repr = s_local_seq_no s /\ 0 < repr_segment_len repr /\
    (exists e', s_timer s' = TRetransmit e' /\ cx_now cx < e' <= cx_now cx + max_rto_us) /\
    s_local_seq_no s' = s_local_seq_no s /\ s_state s' = s_state s.
Proof.
  intros cx s e s' res tags I N Ht He Hto Haddr Hw Hmss H. unfold tcp_dispatch in H.
  pose proof (need_live s I N) as L.
  pose proof (li_tuple s I (live_conn _ L)) as Htu.
  destruct (s_tuple s) as [t|] eqn:Etu; [|congruence].
  rewrite (Haddr t eq_refl), Z.eqb_refl in H. cbn [negb] in H.
  obind_inv H. destruct a as (s1, t1). rename E into Edt.
  pose proof (dispatch_timers_inv _ _ _ _ I Edt) as I1.
  destruct (dt_rto _ _ _ _ _ I Hto Ht He Hw Edt) as (D1 & D2 & D3 & D4 & D5 & D6 & D7 & D8).
  assert (N1 : tcp_need s1) by (unfold tcp_need in *; rewrite D1, D2; exact N).
  assert (Hfl1 : s_remote_last_seq s1 = s_local_seq_no s1) by congruence.
  assert (Hw1 : 0 < rb_len (s_tx_buffer s1) -> s_remote_win_len s1 <> 0) by (rewrite D2, D4; exact Hw).
  assert (Hmss1 : mss_ok cx s1) by (unfold mss_ok in *; rewrite D5; exact Hmss).
  assert (Hzp1 : timer_should_zero_window_probe (s_timer s1) (cx_now cx) = false).
  { destruct D8 as [Hi | (e1 & -> & _)]; [|reflexivity]. destruct (s_timer s1); try discriminate; reflexivity. }
  (* decide: there is something to transmit *)
  obind_inv H. destruct a as ((s2, go), t2). rename E into Edd.
  assert (Hgo : s2 = s1 /\ go = true).
  { unfold tcp_dispatch_decide in Edd.
    destruct (tcp_seq_to_transmit cx s1) as [[|]|e0|] eqn:Estt; cbn [obind] in Edd; try discriminate.
    - inversion Edd; auto.
    - exfalso. exact (stt_when_idle cx s1 I1 N1 Hfl1 Hw1 Estt). }
  destruct Hgo as (-> & ->). cbn [negb] in H.
  (* build: a segment at SND.UNA that occupies sequence space *)
  obind_inv H. destruct a as ((((s3, o), z), k), t3). rename E into Ebd.
  destruct (build_core _ _ _ _ _ _ _ _ Ebd) as (C3 & _).
  destruct (build_sends _ _ _ _ _ _ _ _ I1 N1 Hmss1 Hfl1 Hw1 Hzp1 Ebd) as (repr & -> & -> & -> & Hseq & Hlen).
  cbn [negb] in H.
  pose proof (inv_core_eq _ _ C3 I1) as I3.
  destruct C3 as (C31 & C32 & _ & _ & C35 & _).
  assert (L3 : st_live (s_state s3) = true) by (rewrite C31, D1; exact L).
  assert (T3 : timer_is_idle (s_timer s3) = true \/
               exists e1, s_timer s3 = TRetransmit e1 /\ cx_now cx < e1 <= cx_now cx + max_rto_us)
    by (rewrite C32; exact D8).
  pose proof (finish_rearms cx s3 repr I3 L3 Hlen T3) as (F1 & F2 & F3).
  destruct (tcp_dispatch_finish cx s3 repr false false) as (s4, t4). cbn [fst] in *.
  inversion H; subst s' res tags; clear H.
  eexists. exists repr. split; [reflexivity|].
  split; [congruence|]. split; [exact Hlen|]. split; [exact F1|]. split; congruence.
Qed.

(* PROGRESS STEP (acknowledgement side).  A segment that is not dropped by one of the early returns
   of process() (it ran through all seven phases: its tag list has seven entries) and carries an
   acknowledgement number leaves SND.UNA equal to that number, which is never behind the old
   SND.UNA: acknowledged sequence space is never lost, and an acknowledgement of new data advances
   SND.UNA strictly. *)
Theorem snd_una_follows_ack : forall cx s ip r s' reply tags a,
  ctx_ok cx -> seg_ok r -> tcp_live_inv s ->
  tcp_process cx s ip r = Ok (s', reply, tags) ->
  length tags = 7%nat -> r_ack_number r = Some a ->
  s_local_seq_no s' = a /\
  (a = s_local_seq_no s \/ seq_lt (s_local_seq_no s) a = true).
Proof.
  intros cx s ip r s' reply tags a Hcx Hseg I H Hlen Ha. unfold tcp_process in H.
  destruct (negb (tcp_accepts s ip r)); [discriminate|].
  obind_inv H. rename a0 into p1. rename E into H1.
  destruct p1 as [t1 []|t1 s1 rep1]; [|inversion H; subst; discriminate].
  obind_inv H. rename a0 into p2. rename E into H2.
  pose proof (process_window_spec _ _ _ _ _ H2 I) as P2.
  destruct p2 as [t2 ((s2, payload), off)|t2 s2r rep2]; [|inversion H; subst; discriminate].
  pose proof (inv_core_eq _ _ P2 I) as I2.
  destruct P2 as (C1 & C2 & C3 & C4 & C5 & C6 & C7 & C8 & C9 & C10).
  obind_inv H. destruct a0 as ((al, aof), aall).
  obind_inv H. rename a0 into p3. rename E0 into H3.
  destruct p3 as [t3 s3|t3 s3r rep3]; [|inversion H; subst; discriminate].
  pose proof (transition_cont_not_rst _ _ _ _ _ _ _ _ _ H3) as Hnr.
  destruct (quash_spec s2 r) as (Qr & Qs & _).
  assert (Hrst : r_control r <> CRst) by (intros X; apply Hnr; apply Qr; exact X).
  destruct (transition_cont _ _ _ _ _ _ _ _ _ H3 (inv_weak _ I2) Hcx Hseg) as (W3 & _).
  obind_inv H. destruct a0 as (s4, wu). rename E0 into H4.
  destruct (update_remote_spec _ _ _ _ _ _ H4 W3 Hseg) as (W4 & _).
  obind_inv H. destruct a0 as (s5, t5). rename E0 into H5.
  destruct (dup_ack_spec _ _ _ _ _ _ _ H5 W4 Hseg) as (_ & _ & _ & _ & _ & _ & Seq5).
  rewrite Ha in Seq5. destruct Seq5 as (U5 & _).
  set (q5 := match r_timestamp r with
             | Some (tsval, _) => upd_last_remote_tsval s5 tsval
             | None => s5
             end) in *.
  assert (D5 : s_local_seq_no q5 = s_local_seq_no s5).
  { unfold q5. destruct (r_timestamp r) as [(tv, te)|]; sproj; reflexivity. }
  clearbody q5.
  pose proof (timers_spec cx q5 al aall) as P6.
  destruct (tcp_process_timers cx q5 al aall) as (s6, t6). cbn [fst] in P6.
  destruct P6 as ((_ & _ & _ & F4 & _) & _).
  pose proof (zwp_spec cx s6 al) as P7.
  destruct (tcp_process_zwp cx s6 al) as (s7, t7). cbn [fst] in P7.
  destruct P7 as ((_ & _ & _ & G4 & _) & _).
  obind_inv H. destruct a0 as ((s8, rep8), t8). rename E0 into H8.
  destruct (payload_core _ _ _ _ _ _ _ _ _ H8) as (_ & _ & _ & _ & P5 & _).
  inversion H; subst s'. split; [congruence|].
  destruct (ack_check_fresh _ _ _ _ _ H1 (li_una s I) Hseg Hrst) as (_ & _ & Afr & _).
  exact (Afr a Ha).
Qed.
