(* C04, layer 3/4: the receiver invariant on the socket record (I1-I6 of DESIGN.md Appendix A,
   adapted to the model's fields), the "receive view" of a socket and the effect of
   ack_reply / challenge_ack_reply / recv_slice / FIN on it.

   Ghost quantities (not part of the model): [irs] the sequence number of the peer's SYN, [c] the
   number of octets consumed by the application, [have] the set of stream offsets that arrived in
   some segment.  Sequence offsets count the FIN: stream octet k has sequence offset k, the FIN
   has offset F, and  wire sequence number = (irs + 1 + offset) mod 2^32. *)
From SV Require Import Lib.Base Gen.Consts.
From SV Require Import Model.Seq32 Model.Assembler Model.TcpBuf Model.TcpTypes Model.Tcp.
From SV Require Import Proofs.AssemblerProofs Proofs.TcpRecvBase Proofs.TcpRecvWindow Proofs.TcpRecvPayload.

(* projections through the setters (and nothing else) *)
Ltac rproj :=
  cbn [s_state s_timer s_rtte s_assembler s_rx_buffer s_rx_fin_received s_tx_buffer s_timeout
       s_keep_alive s_hop_limit s_listen_endpoint s_tuple s_local_seq_no s_remote_seq_no
       s_remote_last_seq s_remote_last_ack s_remote_last_win s_remote_win_shift s_remote_win_len
       s_remote_win_scale s_remote_has_sack s_remote_mss s_remote_last_ts s_local_rx_last_seq
       s_local_rx_last_ack s_local_rx_dup_acks s_pending_fast_retransmit s_ack_delay
       s_ack_delay_timer s_challenge_ack_timer s_nagle s_congestion_controller s_tsval_generator
       s_last_remote_tsval s_syn_unacked_in_fin_wait
       upd_state upd_timer upd_rtte upd_assembler upd_rx_buffer upd_rx_fin_received upd_tx_buffer
       upd_timeout upd_keep_alive upd_hop_limit upd_listen_endpoint upd_tuple upd_local_seq_no
       upd_remote_seq_no upd_remote_last_seq upd_remote_last_ack upd_remote_last_win
       upd_remote_win_shift upd_remote_win_len upd_remote_win_scale upd_remote_has_sack
       upd_remote_mss upd_remote_last_ts upd_local_rx_last_seq upd_local_rx_last_ack
       upd_local_rx_dup_acks upd_pending_fast_retransmit upd_ack_delay upd_ack_delay_timer
       upd_challenge_ack_timer upd_nagle upd_congestion_controller upd_tsval_generator
       upd_last_remote_tsval upd_syn_unacked_in_fin_wait tcp_set_state] in *.

(* ---------------------------------------------------------------------------------------- *)
(* small arithmetic                                                                          *)
(* ---------------------------------------------------------------------------------------- *)

Lemma pow2_pos n : 0 <= n -> 0 < 2 ^ n.
Proof. intros H. apply Z.pow_pos_nonneg; lia. Qed.

Lemma shl_nonneg x n : 0 <= x -> 0 <= n -> 0 <= shl x n.
Proof. intros Hx Hn. unfold shl. pose proof (pow2_pos n Hn). nia. Qed.

Lemma shl_mono x y n : x <= y -> 0 <= n -> shl x n <= shl y n.
Proof. intros Hxy Hn. unfold shl. pose proof (pow2_pos n Hn). nia. Qed.

Lemma shl_0 x : shl x 0 = x.
Proof. unfold shl. change (2 ^ 0) with 1. lia. Qed.

Lemma shl_ge x n : 0 <= x -> 0 <= n -> x <= shl x n.
Proof. intros Hx Hn. unfold shl. pose proof (pow2_pos n Hn). nia. Qed.

Lemma shl_shr_le x n : 0 <= x -> 0 <= n -> shl (shr x n) n <= x.
Proof.
  intros Hx Hn. unfold shl, shr. pose proof (pow2_pos n Hn).
  rewrite Z.mul_comm. apply Z.mul_div_le. lia.
Qed.

Lemma shr_nonneg x n : 0 <= x -> 0 <= n -> 0 <= shr x n.
Proof. intros Hx Hn. unfold shr. pose proof (pow2_pos n Hn). apply Z.div_pos; lia. Qed.

Lemma u16_try_bounds x : 0 <= x -> 0 <= u16_try x <= x.
Proof. intros H. unfold u16_try, u16_max. destruct (Z.leb_spec x 65535); lia. Qed.

Lemma b2z_range b : 0 <= b2z b <= 1.
Proof. destruct b; cbn; lia. Qed.

(* ---------------------------------------------------------------------------------------- *)
(* the receive view                                                                          *)
(* ---------------------------------------------------------------------------------------- *)

(* s' and s agree on every field the receive path reads or writes *)
Definition rxv_eq (s' s : socket) : Prop :=
  s_assembler s' = s_assembler s /\ s_rx_buffer s' = s_rx_buffer s /\
  s_rx_fin_received s' = s_rx_fin_received s /\ s_remote_seq_no s' = s_remote_seq_no s /\
  s_remote_last_ack s' = s_remote_last_ack s /\ s_remote_last_win s' = s_remote_last_win s /\
  s_remote_win_shift s' = s_remote_win_shift s.

(* s' is s after an ACK was emitted (ack_reply, or a non-SYN segment sent by dispatch) *)
Definition rxv_acked (s' s : socket) : Prop :=
  s_assembler s' = s_assembler s /\ s_rx_buffer s' = s_rx_buffer s /\
  s_rx_fin_received s' = s_rx_fin_received s /\ s_remote_seq_no s' = s_remote_seq_no s /\
  s_remote_last_ack s' = Some (tcp_window_start s) /\
  s_remote_last_win s' = tcp_scaled_window s /\
  s_remote_win_shift s' = s_remote_win_shift s.

Lemma rxv_eq_refl s : rxv_eq s s.
Proof. unfold rxv_eq. tauto. Qed.

Lemma rxv_eq_trans a b c : rxv_eq a b -> rxv_eq b c -> rxv_eq a c.
Proof. unfold rxv_eq. intuition congruence. Qed.

Lemma rxv_eq_sym a b : rxv_eq a b -> rxv_eq b a.
Proof. unfold rxv_eq. intuition congruence. Qed.

Lemma rxv_eq_window_start s' s : rxv_eq s' s -> tcp_window_start s' = tcp_window_start s.
Proof. unfold rxv_eq, tcp_window_start. intros (_ & -> & _ & -> & _). reflexivity. Qed.

Lemma rxv_eq_scaled_window s' s : rxv_eq s' s -> tcp_scaled_window s' = tcp_scaled_window s.
Proof. unfold rxv_eq, tcp_scaled_window. intros (_ & -> & _ & _ & _ & _ & ->). reflexivity. Qed.

Lemma rxv_eq_window_end s' s : rxv_eq s' s -> tcp_window_end s' = tcp_window_end s.
Proof.
  intros H. pose proof (rxv_eq_window_start s' s H) as Hws.
  unfold tcp_window_end. rewrite Hws. destruct H as (_ & _ & _ & _ & -> & -> & ->). reflexivity.
Qed.

Lemma rxv_acked_of_eq s' s0 s : rxv_acked s' s0 -> rxv_eq s0 s -> rxv_acked s' s.
Proof.
  intros Ha He. pose proof (rxv_eq_window_start _ _ He) as Hws.
  pose proof (rxv_eq_scaled_window _ _ He) as Hsw.
  unfold rxv_acked, rxv_eq in *. rewrite <- Hws, <- Hsw. intuition congruence.
Qed.

Lemma rxv_acked_eq_l s'' s' s : rxv_eq s'' s' -> rxv_acked s' s -> rxv_acked s'' s.
Proof. unfold rxv_acked, rxv_eq. intuition congruence. Qed.

Lemma ack_reply_rxv cx s ip r s' p :
  tcp_ack_reply cx s ip r = (s', p) ->
  rxv_acked s' s /\ s_state s' = s_state s /\
  r_ack_number (snd p) = Some (tcp_window_start s) /\ r_control (snd p) = CNone /\
  r_window_len (snd p) = tcp_scaled_window s.
Proof.
  unfold tcp_ack_reply. destruct (tcp_reply ip r) as (ip', reply).
  intros H. inversion H; subst s' p; clear H.
  unfold rxv_acked, tcp_window_start, tcp_scaled_window, with_payload_len. rproj.
  cbn [snd r_ack_number r_control r_window_len]. repeat split; reflexivity.
Qed.

Lemma challenge_ack_reply_rxv cx s ip r s' rep :
  tcp_challenge_ack_reply cx s ip r = (s', rep) ->
  s_state s' = s_state s /\
  ((rxv_eq s' s /\ rep = None) \/
   (rxv_acked s' s /\ exists p, rep = Some p /\ r_ack_number (snd p) = Some (tcp_window_start s) /\
                                r_control (snd p) = CNone /\ r_window_len (snd p) = tcp_scaled_window s)).
Proof.
  unfold tcp_challenge_ack_reply. destruct (cx_now cx <? s_challenge_ack_timer s).
  - intros H; inversion H; subst. split; [reflexivity|]. left. split; [apply rxv_eq_refl | reflexivity].
  - destruct (tcp_ack_reply cx (upd_challenge_ack_timer s (cx_now cx + 1000000)) ip r) as (s1, p) eqn:E.
    intros H; inversion H; subst s' rep; clear H.
    destruct (ack_reply_rxv _ _ _ _ _ _ E) as (Ha & Hst & Hp1 & Hp2 & Hp3).
    split; [rewrite Hst; reflexivity|]. right. split.
    + apply (rxv_acked_of_eq s1 _ s Ha). unfold rxv_eq. rproj. tauto.
    + exists p. split; [reflexivity|]. split; [|split]; assumption.
Qed.

(* ---------------------------------------------------------------------------------------- *)
(* the invariant                                                                             *)
(* ---------------------------------------------------------------------------------------- *)

Section Inv.
  Variable S : Z -> Z.
  Variable F : option Z.

  Definition lwb (s : socket) : Z := shl (s_remote_last_win s) (s_remote_win_shift s).
  Definition finz (s : socket) : Z := b2z (s_rx_fin_received s).
  (* sequence offset of RCV.NXT *)
  Definition wsq (c : Z) (s : socket) : Z := c + rb_len (s_rx_buffer s) + finz s.

  Definition misc_ok (s : socket) : Prop :=
    0 <= s_remote_last_win s /\ 0 <= s_remote_win_shift s /\ lwb s <= rb_cap (s_rx_buffer s).

  (* I4 / I6: the window advertised last.  [ao] = offset of the last ACK number sent (-1 right
     after a SYN was received in SYN-SENT, where the source stores the SYN's own number). *)
  Definition win_ok (irs c : Z) (s : socket) : Prop :=
    match s_remote_last_ack s with
    | None => True
    | Some a =>
        exists ao, a = seq_norm (irs + 1 + ao) /\ -1 <= ao <= wsq c s /\
                   ao + lwb s <= c + rb_cap (s_rx_buffer s) + finz s /\
                   wsq c s <= Z.max (ao + lwb s) (ao + 1) + finz s
    end.

  Definition st_ok (c : Z) (s : socket) : Prop :=
    match s_state s with
    | Listen | SynSent => False
    | SynReceived => rb_len (s_rx_buffer s) = 0 /\ s_assembler s = [] /\
                     s_rx_fin_received s = false /\ c = 0
    | _ => True
    end.

  Definition seq_ok (irs c : Z) (s : socket) : Prop :=
    s_remote_seq_no s = seq_norm (irs + 1 + c + finz s) /\
    (s_rx_fin_received s = true -> F = Some (c + rb_len (s_rx_buffer s))).

  Definition rx_synced (have : Z -> Prop) (irs c : Z) (s : socket) : Prop :=
    buf_inv S F have c (s_rx_buffer s) (s_assembler s) /\
    seq_ok irs c s /\ misc_ok s /\ win_ok irs c s /\ st_ok c s.

  Definition rx_unsynced (s : socket) : Prop :=
    rb_wf (s_rx_buffer s) /\ rb_cap (s_rx_buffer s) <= p30 /\ rb_len (s_rx_buffer s) = 0 /\
    s_assembler s = [] /\ s_rx_fin_received s = false /\ misc_ok s /\
    match s_state s with Closed | Listen | SynSent => True | _ => False end.

  (* --- the view determines the invariant --- *)
  Lemma rxv_eq_lwb s' s : rxv_eq s' s -> lwb s' = lwb s.
  Proof. unfold lwb. intros (_ & _ & _ & _ & _ & -> & ->). reflexivity. Qed.

  Lemma rxv_eq_wsq c s' s : rxv_eq s' s -> wsq c s' = wsq c s.
  Proof. unfold wsq, finz. intros (_ & -> & -> & _). reflexivity. Qed.

  Lemma rx_synced_view have irs c s' s :
    rxv_eq s' s -> st_ok c s' -> rx_synced have irs c s -> rx_synced have irs c s'.
  Proof.
    intros He Hst (Hb & Hs & Hm & Hw & _).
    pose proof (rxv_eq_lwb _ _ He) as Hl. pose proof (rxv_eq_wsq c _ _ He) as Hq.
    destruct He as (E1 & E2 & E3 & E4 & E5 & E6 & E7).
    unfold rx_synced, seq_ok, misc_ok, win_ok, finz in *. rewrite Hl, Hq, E1, E2, E3, E4, E5, E6, E7.
    split; [exact Hb|]. split; [exact Hs|]. split; [exact Hm|]. split; [exact Hw | exact Hst].
  Qed.

  Lemma st_ok_same c s' s :
    s_state s' = s_state s -> rxv_eq s' s -> st_ok c s -> st_ok c s'.
  Proof.
    intros Hst (E1 & E2 & E3 & _). unfold st_ok. rewrite Hst, E1, E2, E3. tauto.
  Qed.

  (* --- window start / end over the integers --- *)
  Lemma synced_window_start have irs c s :
    rx_synced have irs c s -> tcp_window_start s = seq_norm (irs + 1 + wsq c s).
  Proof.
    intros (_ & (Hrn & _) & _). unfold tcp_window_start. rewrite Hrn, seq_add_norm.
    f_equal. unfold wsq. lia.
  Qed.

  (* width of the (clamped) window *)
  Definition winW (c : Z) (s : socket) : Z :=
    match s_remote_last_ack s with
    | None => 0
    | Some a => Z.max 0 (seq_sdiff a (tcp_window_start s) + lwb s)
    end.

  Lemma synced_window_end have irs c s :
    rx_synced have irs c s ->
    exists W, tcp_window_end s = seq_norm (irs + 1 + wsq c s + W) /\
              0 <= W <= rb_window (s_rx_buffer s) /\
              match s_remote_last_ack s with
              | None => W = 0
              | Some a => exists ao, a = seq_norm (irs + 1 + ao) /\ -1 <= ao <= wsq c s /\
                            wsq c s <= Z.max (ao + lwb s) (ao + 1) + finz s /\
                            W = Z.max 0 (ao + lwb s - wsq c s)
              end.
  Proof.
    intros Hinv. pose proof (synced_window_start _ _ _ _ Hinv) as Hws.
    destruct Hinv as (Hb & (Hrn & _) & (Hm1 & Hm2 & Hm3) & Hw & _).
    destruct Hb as (Hwf & Hcap & _). pose proof Hwf as (Hl & _).
    pose proof (b2z_range (s_rx_fin_received s)) as Hfin. fold (finz s) in Hfin.
    unfold tcp_window_end, win_ok in *. rewrite Hws.
    destruct (s_remote_last_ack s) as [a|].
    - destruct Hw as (ao & Ha & Hao & Hk & Hj). subst a.
      fold (lwb s). rewrite seq_add_norm.
      pose proof (shl_nonneg _ _ Hm1 Hm2) as Hlw0. fold (lwb s) in Hlw0.
      unfold p30, rb_window, wsq in *.
      rewrite (seq_max_norm (irs + 1 + ao + lwb s) (irs + 1 + (c + rb_len (s_rx_buffer s) + finz s))) by lia.
      exists (Z.max 0 (ao + lwb s - (c + rb_len (s_rx_buffer s) + finz s))).
      split; [f_equal; lia|]. split; [lia|].
      exists ao. split; [reflexivity|]. split; [lia|]. split; [lia | reflexivity].
    - exists 0. split; [f_equal; lia|]. unfold rb_window. split; [lia | reflexivity].
  Qed.

  (* --- an ACK was emitted --- *)
  Lemma rx_synced_acked have irs c s' s :
    rxv_acked s' s -> st_ok c s' -> rx_synced have irs c s -> rx_synced have irs c s'.
  Proof.
    intros (E1 & E2 & E3 & E4 & E5 & E6 & E7) Hst Hinv.
    pose proof (synced_window_start _ _ _ _ Hinv) as Hws.
    destruct Hinv as (Hb & Hs & (Hm1 & Hm2 & Hm3) & Hw & _).
    pose proof Hb as (Hwf & Hcap & _). pose proof Hwf as (Hl & _).
    assert (Hsw : 0 <= tcp_scaled_window s /\ shl (tcp_scaled_window s) (s_remote_win_shift s) <= rb_window (s_rx_buffer s)).
    { unfold tcp_scaled_window, rb_window.
      pose proof (shr_nonneg (rb_cap (s_rx_buffer s) - rb_len (s_rx_buffer s)) (s_remote_win_shift s) ltac:(lia) Hm2) as H0.
      pose proof (u16_try_bounds _ H0) as H1. split; [lia|].
      eapply Z.le_trans; [apply shl_mono; [apply H1 | exact Hm2]|].
      apply shl_shr_le; lia. }
    unfold rx_synced, seq_ok, misc_ok, win_ok, lwb, wsq, finz in *.
    rewrite E1, E2, E3, E4, E5, E6, E7, Hws. unfold rb_window, wsq, finz in *.
    split; [exact Hb|]. split; [exact Hs|]. split; [lia|]. split; [|exact Hst].
    exists (c + rb_len (s_rx_buffer s) + b2z (s_rx_fin_received s)).
    split; [reflexivity|]. pose proof (b2z_range (s_rx_fin_received s)).
    destruct Hb as (_ & _ & _ & _ & Hc & _). lia.
  Qed.

  (* --- recv_slice --- *)
  Lemma recv_slice_synced have irs c s n s' b :
    rx_synced have irs c s -> 0 <= n -> tcp_recv_slice s n = Ok (s', b) ->
    let k := l_len b in
    (forall j, 0 <= j < k -> znth b j = S (c + j)) /\ 0 <= k /\
    rx_synced have irs (c + k) s' /\ s_state s' = s_state s /\
    tcp_window_start s' = tcp_window_start s.
  Proof.
    intros Hinv Hn Hr. unfold tcp_recv_slice in Hr.
    destruct (tcp_recv_error_check s) as [[]| |]; cbn [obind] in Hr; try discriminate.
    destruct (rb_dequeue_slice (s_rx_buffer s) n) as (rx', b') eqn:Hd.
    inversion Hr; subst s' b'; clear Hr.
    destruct Hinv as (Hb & (Hrn & Hfin) & (Hm1 & Hm2 & Hm3) & Hw & Hst).
    destruct (dequeue_buf_inv S F have c _ _ n rx' b Hb Hn Hd) as (Hk & Hbytes & Hl' & Hc' & Hb').
    cbv zeta in *. set (k := l_len b) in *.
    pose proof Hb as (Hwf & _). pose proof Hwf as (Hl & _).
    split; [exact Hbytes|]. split; [lia|].
    assert (Hws : tcp_window_start (upd_remote_seq_no (upd_rx_buffer s rx') (seq_add (s_remote_seq_no s) k))
                  = tcp_window_start s).
    { unfold tcp_window_start. rproj. rewrite Hl', Hrn, !seq_add_norm. f_equal. lia. }
    split; [|split; [reflexivity | exact Hws]].
    unfold rx_synced, seq_ok, misc_ok, win_ok, st_ok, lwb, wsq, finz in *. rproj.
    rewrite Hl', Hc'. split; [exact Hb'|]. split; [split|].
    - rewrite Hrn, seq_add_norm. f_equal. lia.
    - intros Hf. rewrite (Hfin Hf). f_equal. lia.
    - split; [lia|]. split.
      + destruct (s_remote_last_ack s) as [a|]; [|exact I].
        destruct Hw as (ao & Ha & Hao & Hk1 & Hj). exists ao. split; [exact Ha|]. lia.
      + destruct (s_state s); try tauto. destruct Hst as (H1 & H2 & H3 & H4).
        repeat split; try assumption; lia.
  Qed.
End Inv.
